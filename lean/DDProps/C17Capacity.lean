/-
  DDProps.C17Capacity — C17 for the exception the rest of the development cannot raise:
  `RuntimeError('full: reached `self.max_nodes` nodes')`.

  The state `Mgr` has no capacity; `DD/Capacity.lean` adds `max_nodes` as a PARAMETER `cap` of a
  layer over the existing model (`findOrAddCap`, `iteCapF` / `iteCapRaw`, `iteCap`, `varCap`),
  so nothing proved before is touched.  Four groups:

  (a) REFINEMENT — `CapSim cap xc x`: the run with capacity IS the capacity-free run exactly
      when `CapOK` (nothing created, or the final `_min_free` below the capacity), and raises
      `RuntimeError` otherwise.  One relation, closed under `bind`; proved for `find_or_add`,
      `_ite`, the bodies of `BDD.ite` / `BDD.var`, and the decorated calls when the first
      attempt is not aborted.  Every theorem about those model functions transfers with the
      one explicit side condition (`C17_capacity_transfer`); `C17_capacity_ite` is C01's
      `C01_public_ite` transferred.  For the operations WITHOUT a capacity-aware version
      (`apply`, `quantify`, `compose`, `rename`, `cofactor`, `let`, `cube`, `add_expr`, `load`,
      `copy_bdd`, `swap` / `reorder`) the `.ok` conclusions remain statements about a manager
      whose `max_nodes` is not reached.
  (b) THE REFUSAL — a refused `find_or_add` leaves the manager as it was (`C17_full_unchanged`;
      literal store-and-delete variant: same content, same dump, `C17_full_unchanged_literal`);
      the code before commit 9f1005b does not (`C17_full_unrepaired`, and a concrete run).
  (c) LIFTED — `_ite` / `BDD.ite` / `BDD.var` that run into `full` half-way.
  (d) NON-VACUITY — three variables, `max_nodes = 7`: the 5th node creation is refused in the
      middle of an `ite` that creates three nodes.
  (e) WHAT IS NOT TRUE (finding F22) — `BDD.swap` reaches `find_or_add` in the middle of its
      rewrite of two levels; a refusal there leaves a manager that violates `Inv`
      (`C17_swap_full_refuted`, on a reachable manager).  Hence no statement (b)/(c) for `swap`,
      `reorder`, sifting, nor for a decorated call whose reordering request is served while the
      manager is at capacity: `C17_ite_full_dyn` is relative to `siftContract`, the contract of
      the CAPACITY-FREE `reorder` (the model of `reorder` inside `iteCap` has no capacity).
-/
import DDProofs.CapacityIte
import DDProofs.CapacitySwap
import DDProofs.Reach
import DDProps.C01
open Std

namespace DD

/-! ## (a) refinement -/

/-- C17/(a), GENERIC: `P` holds of the run with capacity whenever it holds of the capacity-free
run and that run needed no number `≥ cap` -/
theorem C17_capacity_transfer {α} (cap : Nat) (xc x : M α) (h : CapSim cap xc x) (m : Mgr)
    (P : Except Err α × Mgr → Prop) (hp : P (x m)) (hc : CapOK cap m (x m).2) : P (xc m) :=
  h.transfer m P hp hc

/-- the side condition is necessary and sufficient, and when it fails the answer is
`RuntimeError` -/
theorem C17_capacity_sharp {α} (cap : Nat) (xc x : M α) (h : CapSim cap xc x) (m : Mgr)
    (hx : (x m).1 ≠ .error .runtime) :
    (xc m = x m ↔ CapOK cap m (x m).2) ∧ (¬ CapOK cap m (x m).2 → (xc m).1 = .error .runtime) ∧
      m.minFree ≤ (x m).2.minFree :=
  ⟨h.iff m hx, (h m).full, (h m).mono⟩

/-- the relation is closed under sequencing: it lifts through every `M`-computation built with
`bind` from related pieces -/
theorem C17_capacity_bind {α β} (cap : Nat) (xc x : M α) (fc f : α → M β) (hx : CapSim cap xc x)
    (hf : ∀ a, CapSim cap (fc a) (f a)) : CapSim cap (xc >>= fc) (x >>= f) :=
  hx.bind hf

/-- the pieces: `find_or_add` (core and with the reordering request), `_ite` for every fuel,
`_ite` with the standard fuel, the body of `var`; any computation that leaves `_min_free`
alone is related to itself -/
theorem C17_capacity_refines (cap : Nat) :
    (∀ i v w, CapSim cap (findOrAddCapCore cap i v w) (findOrAddCore i v w)) ∧
    (∀ i v w, CapSim cap (findOrAddCap cap i v w) (findOrAdd i v w)) ∧
    (∀ f g u v, CapSim cap (iteCapF cap f g u v) (iteF f g u v)) ∧
    (∀ g u v, CapSim cap (iteCapRaw cap g u v) (iteRaw g u v)) ∧
    (∀ name, CapSim cap (varBodyG (findOrAddCap cap) name) (varBodyG findOrAdd name)) ∧
    (∀ {α} (x : M α), (∀ m, (x m).2.minFree = m.minFree) → CapSim cap x x) :=
  ⟨findOrAddCapCore_sim cap, findOrAddCap_sim cap, iteCapF_sim cap, iteCapRaw_sim cap,
   varCapBody_sim cap, fun x h => CapSim.same cap x h⟩

/-- the layer is the old model when instantiated with the capacity-free `find_or_add` -/
theorem C17_capacity_layer_is_model :
    (∀ f g u v, iteG findOrAdd f g u v = iteF f g u v) ∧
    (∀ g u v, iteRawG findOrAdd g u v = iteRaw g u v) ∧
    findOrAddOver findOrAddCore = findOrAdd :=
  ⟨iteG_findOrAdd, iteRawG_findOrAdd, findOrAddOver_core⟩

/-- the decorated calls: when the first attempt of the capacity-free body is not aborted by a
reordering request, `BDD.ite` / `BDD.var` with capacity are the capacity-free calls under the
side condition on what the DECORATED call leaves, and raise `RuntimeError` with the context
flag restored otherwise -/
theorem C17_capacity_decorated {α} (cap : Nat) (xc x : M α) (h : CapSim cap xc x) (m : Mgr)
    (hne : (x { m with ctx := true }).1 ≠ .error .needsReordering) :
    (CapOK cap m (tryToReorder x m).2 → tryToReorder xc m = tryToReorder x m) ∧
    (¬ CapOK cap m (tryToReorder x m).2 →
      (tryToReorder xc m).1 = .error .runtime ∧ (tryToReorder xc m).2.ctx = m.ctx) :=
  ⟨tryToReorder_sim_first cap xc x h m hne, tryToReorder_sim_first_full cap xc x h m hne⟩

/-- C01's `C01_public_ite` TRANSFERRED (reordering not enabled): with `max_nodes = cap`, under
the side condition on the state the capacity-free `ite` leaves, the public `ite` returns the
if-then-else; and when the side condition fails it raises `RuntimeError` -/
theorem C17_capacity_ite (cap : Nat) (m : Mgr) (hI : Inv m) (hoff : m.lastLen = none) (g u v : Int)
    (hg : m.tbl.Mem g) (hu : m.tbl.Mem u) (hv : m.tbl.Mem v) :
    (CapOK cap m (ite g u v m).2 →
      ∃ r m', iteCap cap g u v m = (.ok r, m') ∧ ItePost m g u v r m') ∧
    (¬ CapOK cap m (ite g u v m).2 → (iteCap cap g u v m).1 = .error .runtime) := by
  have hne : (iteRaw g u v { m with ctx := true }).1 ≠ .error .needsReordering := by
    intro he
    have h := iteF_out (m.nvars + 2) { m with ctx := true } g u v (hI.setCtx true) hg hu hv
      (by show m.nvars + 1 ≤ _; omega)
    rw [iteRaw_eq] at he
    change (iteF (m.nvars + 2) g u v { m with ctx := true }).1 = _ at he
    generalize iteF (m.nvars + 2) g u v { m with ctx := true } = res at he h
    obtain ⟨r, m1⟩ := res
    cases r with
    | ok a => cases he
    | error e =>
      have := h.2.2.2
      rw [show ({ m with ctx := true } : Mgr).lastLen = m.lastLen from rfl, hoff] at this
      exact Bool.noConfusion this
  obtain ⟨h1, h2⟩ := C17_capacity_decorated cap _ _ (iteCapRaw_sim cap g u v) m hne
  refine ⟨fun hc => ?_, fun hn => (h2 hn).1⟩
  have := C01_public_ite m hI hoff g u v hg hu hv
  unfold iteCap
  rw [h1 hc]
  exact this

/-! ## (b) the refusal -/

/-- C17/(b): `RuntimeError('full')` of `find_or_add` leaves the manager EXACTLY as it was: node
table, unique table, reference counts, `_min_free`, computed table, every other field.  (With
the reordering request in front, only the harness trigger of the request may be consumed.) -/
theorem C17_full_unchanged (cap : Nat) (m m' : Mgr) :
    (∀ (i : Nat) (v w : Int), findOrAddCapCore cap i v w m = (.error .runtime, m') → m' = m) ∧
    (∀ (i v w : Int), findOrAddCap cap i v w m = (.error .runtime, m') →
      ∃ f, m' = { m with fireIn := f }) :=
  ⟨fun i v w => findOrAddCapCore_full cap i v w m m', fun i v w => findOrAddCap_full cap i v w m m'⟩

/-- WHEN the call is refused: the node was not in the unique table, it was stored at
`_min_free`, and no integer in `(_min_free, cap)` is free — `newMinFree`, the number the
capacity-free call moves `_min_free` to, is `≥ cap` -/
theorem C17_full_when (cap i : Nat) (v w : Int) (m m' : Mgr)
    (h : findOrAddCapCore cap i v w m = (.error .runtime, m')) :
    ∃ t : Nd, m.pred[t.key]? = none ∧ m.tbl.succ.contains m.minFree = false ∧
      cap ≤ (findOrAddCore i v w m).2.minFree ∧ m.minFree < (findOrAddCore i v w m).2.minFree := by
  obtain ⟨t, h1, _, h3, _, h5, h6⟩ := findOrAddCapWith_full _ cap i v w m m' h
  exact ⟨t, h1, h3, h5, h6⟩

/-- C17/(b), the code as written (store the node, search, `del` the three entries): the refused
call leaves a manager with the same CONTENT — every lookup in `_succ`, `_pred`, `_ref`, every
other field —, hence the same canonical dump and `len`; and the literal variant is the abstract
one in every other case -/
theorem C17_full_unchanged_literal (cap i : Nat) (v w : Int) (m : Mgr) (ext : Nat → Nat)
    (hI : Inv m) (hx : RefExact m ext) :
    (∀ m', findOrAddCapLit cap i v w m = (.error .runtime, m') →
      Mgr.SameContent m' m ∧ dumpState m' = dumpState m ∧ m'.len = m.len) ∧
    (findOrAddCapLit cap i v w m = findOrAddCapCore cap i v w m ∨
      (findOrAddCapCore cap i v w m = (.error .runtime, m) ∧
        ∃ m', findOrAddCapLit cap i v w m = (.error .runtime, m') ∧ Mgr.SameContent m' m)) := by
  have hr : m.ref[m.minFree]? = none := by
    cases hh : m.ref[m.minFree]? with
    | none => rfl
    | some c =>
      exfalso
      rcases (hx.dom m.minFree).mp (by rw [hh]; rfl) with h1 | h1
      · have := hI.freeGe; omega
      · rw [hI.free] at h1; cases h1
  exact ⟨fun m' h => findOrAddCapLit_full_exact cap i v w m m' ext hI hx h,
    findOrAddCapLit_same cap i v w m hr⟩

/-- what the code BEFORE commit 9f1005b leaves after `RuntimeError('full')`: NOT the manager of
the call — the node is stored under the number `_min_free` still names (the next creation trips
the assertion `index already used`), with count 0, and no count of a successor was incremented
(a later collection can free a child of the stored node) -/
theorem C17_full_unrepaired (cap i : Nat) (v w : Int) (m m' : Mgr)
    (h : findOrAddCapOld cap i v w m = (.error .runtime, m')) :
    m' ≠ m ∧ ∃ t : Nd, m'.tbl.node? m'.minFree = some t ∧ m'.ref[m'.minFree]? = some 0 ∧
      ∀ k, k ≠ m.minFree → m'.ref[k]? = m.ref[k]? := by
  obtain ⟨t, _, h2, h3, h4, h5⟩ := findOrAddCapOld_full cap i v w m m' h
  exact ⟨h5, t, h2, h3, h4⟩

/-! ## (c) lifted to `_ite` and the decorated entry points -/

/-- C17/(c), `_ite` (the recursion, inside a context): operands in the manager, `max_nodes =
cap`.  Returns the if-then-else; or is aborted by a reordering request (armed context only); or
raises `RuntimeError` — the ONLY other exception.  In all three cases `StepK m m'`: the invariant
holds, every node that existed is there unchanged (those created before the refusal stay, as
garbage), variable order / threshold / flag / roots untouched, and the counts are exact for
every ledger they were exact for, none decreased. -/
theorem C17_ite_full (cap : Nat) (m : Mgr) (g u v : Int) (hI : Inv m)
    (hg : m.tbl.Mem g) (hu : m.tbl.Mem u) (hv : m.tbl.Mem v) :
    OutcomeX (fun e => e = .runtime) m (fun r m' => ItePost m g u v r m') (iteCapRaw cap g u v m) :=
  iteCapRaw_outX cap m g u v hI hg hu hv

/-- the same for `_ite` over ANY `find_or_add` with a three-outcome specification -/
theorem C17_ite_over (E : Err → Prop) (foa : Int → Int → Int → M Int) (hfoa : FoaX E foa)
    (m : Mgr) (g u v : Int) (hI : Inv m) (hg : m.tbl.Mem g) (hu : m.tbl.Mem u) (hv : m.tbl.Mem v) :
    OutcomeX E m (fun r m' => ItePost m g u v r m') (iteRawG foa g u v m) :=
  iteG_outX E foa hfoa (m.nvars + 2) m g u v hI hg hu hv (by omega)

/-- what `StepK` gives after a refusal half-way: invariant, old references valid with their
meaning, counts exact for the caller's ledger -/
theorem C17_ite_full_means (cap : Nat) (m m' : Mgr) (ext : Nat → Nat) (g u v : Int) (hI : Inv m)
    (hx : RefExact m ext) (hO : OrderOK m.tbl)
    (hg : m.tbl.Mem g) (hu : m.tbl.Mem u) (hv : m.tbl.Mem v)
    (h : iteCapRaw cap g u v m = (.error .runtime, m')) :
    Inv m' ∧ OrderOK m'.tbl ∧ RefExact m' ext ∧ Frame m m' ∧
    (∀ w, m.tbl.Mem w → m'.tbl.Mem w ∧ ∀ a, den m'.tbl w a = den m.tbl w a) ∧
    (∀ (k c : Nat), m.ref[k]? = some c → ∃ c' : Nat, m'.ref[k]? = some c' ∧ c ≤ c') := by
  have ho := C17_ite_full cap m g u v hI hg hu hv
  rw [h] at ho
  have hs : StepK m m' := ho.1
  obtain ⟨hx', hmono⟩ := hs.keep ext hx
  exact ⟨hs.inv, OrderOK.frame hs.frame hO, hx', hs.frame,
    fun w hw => ⟨hs.ext.mem hw, fun a => den_ext hs.ext hI.wf.toWF w a hw⟩, hmono⟩

/-- C17/(c), `BDD.ite` with `max_nodes = cap`, ARBITRARY integers, dynamic reordering enabled or
not: whatever it returns or raises (`RuntimeError('full')` in the first attempt or in the retry
after sifting included) — never the internal signal; `DynInv ext m'` (invariant, order bijection,
counts exact for the caller's ledger, the reordering-context flag cleared, no schedule left);
reordering enabled iff it was; same names; every held reference a member with the same function
by name; same roots.  Likewise `BDD.var`. -/
theorem C17_ite_full_dyn (cap : Nat) (ext : Nat → Nat) (m : Mgr) (hD : DynInv ext m) :
    (∀ g u v, DynTotal ext m (iteCap cap g u v m)) ∧ (∀ name, DynTotal ext m (varCap cap name m)) :=
  ⟨iteCap_total_dyn cap ext m hD, varCap_total_dyn cap ext m hD⟩

/-- held operands: the documented result, or an exception — and the only exception is
`RuntimeError` -/
theorem C17_ite_full_result (cap : Nat) (ext : Nat → Nat) (m : Mgr) (hD : DynInv ext m) (g u v : Int)
    (hg : HeldX ext g) (hu : HeldX ext u) (hv : HeldX ext v) :
    DynResult ext (IteDoc g u v) m (iteCap cap g u v m) ∧
    (∀ e m', iteCap cap g u v m = (.error e, m') → e = .runtime) :=
  ⟨iteCap_result_dyn cap ext m hD g u v hg hu hv,
   iteCap_raises_runtime cap ext m hD g u v hg hu hv⟩

/-- reordering not enabled: result + `GoodState`, or `RuntimeError` + `Kept` + `GoodState` for the
SAME ledger — every theorem of the development applies to the manager after the refusal -/
theorem C17_ite_full_off (cap : Nat) (ext : Nat → Nat) (m : Mgr) (hG : GoodState m ext) (g u v : Int)
    (hg : m.tbl.Mem g) (hu : m.tbl.Mem u) (hv : m.tbl.Mem v) :
    (∃ r m', iteCap cap g u v m = (.ok r, m') ∧ ItePost m g u v r m' ∧ GoodState m' ext) ∨
    (∃ m', iteCap cap g u v m = (.error .runtime, m') ∧ Kept m m' ∧ GoodState m' ext) :=
  iteCap_off cap ext m hG g u v hg hu hv

/-- C17/(c), "subsequent operations behave normally": after ANY `ite` with capacity (a refused
one in particular) the next capacity-free `ite` on held operands — the manager's limit raised
again, or simply enough room — returns the if-then-else of the operands AS THEY WERE before the
refused call, and leaves a state in which everything applies again -/
theorem C17_full_then_normal (cap : Nat) (ext : Nat → Nat) (m : Mgr) (hD : DynInv ext m)
    (g0 u0 v0 : Int) (g u v : Int) (hg : HeldX ext g) (hu : HeldX ext u) (hv : HeldX ext v) :
    ∃ r m'', ite g u v (iteCap cap g0 u0 v0 m).2 = (.ok r, m'') ∧ DynInv ext m'' ∧ m''.tbl.Mem r ∧
      (∀ σ, denN m''.tbl r σ = if denN m.tbl g σ then denN m.tbl u σ else denN m.tbl v σ) ∧
      (∀ w, HeldX ext w → m''.tbl.Mem w ∧ ∀ σ, denN m''.tbl w σ = denN m.tbl w σ) := by
  have h := iteCap_total_dyn cap ext m hD g0 u0 v0
  obtain ⟨r, m'', he, hp⟩ := ite_transparent ext (siftContract ext) (iteCap cap g0 u0 v0 m).2
    h.2.inv g u v hg hu hv
  refine ⟨r, m'', he, hp.inv, hp.doc.1, fun σ => ?_, fun w hw => ?_⟩
  · rw [hp.doc.2 σ, (h.2.held g hg).2 σ, (h.2.held u hu).2 σ, (h.2.held v hv).2 σ]
  · exact ⟨(hp.held w hw).1, fun σ => by rw [(hp.held w hw).2 σ, (h.2.held w hw).2 σ]⟩

/-- … and the next `ite` WITH the same capacity: the documented result, or `RuntimeError`
again; the manager stays good either way (the refusal is repeatable, never destructive) -/
theorem C17_full_then_full (cap : Nat) (ext : Nat → Nat) (m : Mgr) (hD : DynInv ext m)
    (g0 u0 v0 : Int) (g u v : Int) :
    DynTotal ext (iteCap cap g0 u0 v0 m).2 (iteCap cap g u v (iteCap cap g0 u0 v0 m).2) :=
  iteCap_total_dyn cap ext _ (iteCap_total_dyn cap ext m hD g0 u0 v0).2.inv g u v

/-! ## (e) what is not true: `swap` at capacity (finding F22) -/

/-- the capacity layer of `swap` is the model of `swap` when nothing is refused … -/
theorem C17_swap_layer_is_model : swapG findOrAdd = swap := swapG_findOrAdd

/-- … and from a GOOD state (reachable by declare / var / ite / incref / collect_garbage) `swap`
with `max_nodes = 7` raises `RuntimeError` leaving a manager that violates the invariant, while
the capacity-free `swap` of the same state succeeds: C17 is FALSE for `swap` at capacity -/
theorem C17_swap_full_refuted :
    GoodState swapM swapSt.ext ∧
    raisedErr (swapCap 7 (.level 0) (.level 1) false swapM).1 = some .runtime ∧
    ¬ Inv (swapCap 7 (.level 0) (.level 1) false swapM).2 ∧
    raisedErr (swap (.level 0) (.level 1) false swapM).1 = none :=
  ⟨swapM_good, swapCap_breaks_inv⟩

/-! ## (d) non-vacuity

`capM`: variables `a < b < c`; nodes 2 = `a`, 3 = `b`, 4 = `c`, each held once by the caller;
`_min_free = 5`.  With `max_nodes = 7` the numbers 5 may still be used (6 is free) but 6 may not
(no free number in `(6, 7)`): the 5th node creation is refused.
`ite(b, a, c)` creates three nodes without capacity (`¬b ∧ c` at 5, `b ∨ c` at 6, the result at
7); with `max_nodes = 7` it stores node 5, and is refused at node 6: half-way. -/

def capOps : List UOp :=
  [.declare "a" none, .declare "b" none, .declare "c" none,
   .var "a", .incref 2, .var "b", .incref 3, .var "c", .incref 4]

def capSt : St := run capOps St.init
def capM : Mgr := capSt.m

theorem capM_good : GoodState capM capSt.ext := reachable_inv capOps (by decide)

theorem capM_dynInv : DynInv capSt.ext capM :=
  ⟨capM_good.inv, capM_good.order, capM_good.exact, capM_good.ctx, by decide,
   (by intro r hr; cases hr), by decide⟩

theorem capM_held : HeldX capSt.ext 2 ∧ HeldX capSt.ext 3 ∧ HeldX capSt.ext 4 :=
  ⟨Or.inr (by decide +kernel), Or.inr (by decide +kernel), Or.inr (by decide +kernel)⟩

example : capM.minFree = 5 ∧ capM.len = 4 := by decide +kernel

/-- without capacity: three new nodes, result 7, `_min_free = 8` -/
example : (ite 3 2 4 capM).1.toOption = some 7 ∧ (ite 3 2 4 capM).2.minFree = 8 ∧
    (ite 3 2 4 capM).2.len = 7 := by decide +kernel

/-- the side condition of (a) decides: capacity 9 is enough, capacity 8 is not -/
example : CapOK 9 capM (ite 3 2 4 capM).2 ∧ ¬ CapOK 8 capM (ite 3 2 4 capM).2 := by decide +kernel

example : iteCap 9 3 2 4 capM = ite 3 2 4 capM :=
  (C17_capacity_decorated 9 _ _ (iteCapRaw_sim 9 3 2 4) capM (by
    intro h
    have : raisedErr (iteRaw 3 2 4 { capM with ctx := true }).1 = none := by decide +kernel
    rw [h] at this
    cases this)).1 (by decide +kernel)

/-- `max_nodes = 7`: refused half-way — node 5 was created (it stays, count 0, as garbage; its
children were counted), node 6 was refused; `_min_free = 6`; the flag is cleared; the three
held nodes are there -/
example : raisedErr (iteCap 7 3 2 4 capM).1 = some .runtime ∧
    (iteCap 7 3 2 4 capM).2.len = 5 ∧ (iteCap 7 3 2 4 capM).2.minFree = 6 ∧
    (iteCap 7 3 2 4 capM).2.ref[5]? = some 0 ∧ (iteCap 7 3 2 4 capM).2.ctx = false ∧
    (iteCap 7 3 2 4 capM).2.tbl.succ.contains 6 = false := by decide +kernel

/-- the same call on the LITERAL `find_or_add` (store, search, delete) leaves the same dump -/
example : raisedErr (iteCapL 7 3 2 4 capM).1 = some .runtime ∧
    dumpState (iteCapL 7 3 2 4 capM).2 = dumpState (iteCap 7 3 2 4 capM).2 := by decide +kernel

/-- … and on the UN-REPAIRED `find_or_add` it does not: node 6 stays stored while `_min_free`
still says 6, the children of node 6 are not counted -/
example : raisedErr (iteCapO 7 3 2 4 capM).1 = some .runtime ∧
    (iteCapO 7 3 2 4 capM).2.minFree = 6 ∧ (iteCapO 7 3 2 4 capM).2.tbl.succ.contains 6 = true ∧
    dumpState (iteCapO 7 3 2 4 capM).2 ≠ dumpState (iteCap 7 3 2 4 capM).2 := by decide +kernel

/-- a single refused `find_or_add`: `max_nodes = 6`, the node `(0, 4, 3)` at `_min_free = 5`;
repaired: the manager of the call; un-repaired: another manager -/
example : findOrAddCapCore 6 0 4 3 capM = (.error .runtime, capM) := by
  have h : raisedErr (findOrAddCapCore 6 0 4 3 capM).1 = some .runtime := by decide +kernel
  generalize hres : findOrAddCapCore 6 0 4 3 capM = res at h
  obtain ⟨r, m'⟩ := res
  cases r with
  | ok a => cases h
  | error e =>
    have : e = .runtime := by injection h
    subst this
    rw [(C17_full_unchanged 6 capM m').1 0 4 3 hres]

example : raisedErr (findOrAddCapOld 6 0 4 3 capM).1 = some .runtime ∧
    (findOrAddCapOld 6 0 4 3 capM).2.tbl.succ.contains 5 = true ∧
    (findOrAddCapOld 6 0 4 3 capM).2.minFree = 5 ∧
    (findOrAddCapOld 6 0 4 3 capM).2.ref[4]? = capM.ref[4]? := by decide +kernel

/-- the theorems apply to this state -/
example : DynTotal capSt.ext capM (iteCap 7 3 2 4 capM) :=
  (C17_ite_full_dyn 7 capSt.ext capM capM_dynInv).1 3 2 4

/-- after the refusal, the caller goes on: `ite(b, a, c)` without the limit now returns, and the
result is the if-then-else of the three held functions as they were -/
example : ∃ r m'', ite 3 2 4 (iteCap 7 3 2 4 capM).2 = (.ok r, m'') ∧ DynInv capSt.ext m'' ∧
    ∀ σ, denN m''.tbl r σ = if denN capM.tbl 3 σ then denN capM.tbl 2 σ else denN capM.tbl 4 σ := by
  obtain ⟨r, m'', h1, h2, _, h4, _⟩ := C17_full_then_normal 7 capSt.ext capM capM_dynInv 3 2 4 3 2 4
    capM_held.2.1 capM_held.1 capM_held.2.2
  exact ⟨r, m'', h1, h2, h4⟩

example : (ite 3 2 4 (iteCap 7 3 2 4 capM).2).1.toOption = some 7 := by decide +kernel

end DD
