/-
  DDProps.C16Chain — the manager returned by `dd.dddmp.load` feeds the other property
  theorems: C01 (`apply`), C03 (`exist`) and C06 (`collect_garbage`) instantiated on the
  loaded manager, for EVERY well-formed file, with the results stated by variable NAME
  against the file's own evaluation `evalFile`; then on the concrete file `dddmpChain`
  (three variables whose order differs from the listing, a complemented else-edge, a
  complemented root, parent-first numbering).
-/
import DDProps.C16
import DDProps.C01
import DDProps.C03
import DDProps.C06
import DDProofs.DynOps
import DDProofs.SizeCanon
open Std

namespace DD

/-- the two ways of reading an assignment of names as an assignment of levels (`dddmpAsgOf`:
undeclared levels read false; `Tbl.lift`: through `nameOf`) give the same value on a node of
a manager whose levels `0..n-1` all carry a name -/
theorem den_asgOf_eq_denN {t : Tbl} (hw : WF t) (hO : OrderOK t) {u : Int} (hu : t.Mem u)
    (α : String → Bool) : den t u (dddmpAsgOf t α) = denN t u α := by
  unfold denN
  apply den_agree' t hw u hu
  intro i hi
  obtain ⟨v, hv⟩ := hO.total i hi
  simp [dddmpAsgOf, asgOfMap, Tbl.lift, Tbl.nameOf, hv]

/-- C16 in the vocabulary of the by-name theorems (`denN`, used by C07, C09, C10, C14, C17):
the loaded manager is a good state whose roots denote, as functions of the variable names,
the root entries of the file -/
theorem C16_roots_denN (f : DddmpFile) (hf : f.WF) :
    ∃ m, loadDddmp f = .ok m ∧ GoodState m (fun _ => 0) ∧
      (∀ ρ ∈ f.rootids.getD [], ∃ r ∈ m.roots, m.tbl.Mem r ∧ ∀ σ, denN m.tbl r σ = evalFile f σ ρ) ∧
      (∀ r ∈ m.roots, m.tbl.Mem r ∧ ∃ ρ ∈ f.rootids.getD [], ∀ σ, denN m.tbl r σ = evalFile f σ ρ) := by
  obtain ⟨m, h, hg, -, -, -, hmem, hr, -⟩ := C16_load_good f hf
  have hW := hg.inv.wf.toWF
  refine ⟨m, h, hg, ?_, ?_⟩
  · intro ρ hρ
    obtain ⟨r, hrm, hm, hd⟩ := hr.1 ρ hρ
    exact ⟨r, hrm, hm, fun σ => by rw [← den_asgOf_eq_denN hW hg.order hm]; exact hd σ⟩
  · intro r hrm
    obtain ⟨ρ, hρ, hd⟩ := hr.2 r hrm
    exact ⟨hmem r hrm, ρ, hρ, fun σ => by
      rw [← den_asgOf_eq_denN hW hg.order (hmem r hrm)]; exact hd σ⟩

example : ∃ m, loadDddmp dddmpChain = .ok m ∧ GoodState m (fun _ => 0) := by
  obtain ⟨m, h, hg, -⟩ := C16_roots_denN dddmpChain dddmpChain_wf
  exact ⟨m, h, hg⟩

theorem lift_of_frame {m m' : Mgr} (h : Frame m m') (σ : AsgN) : m'.tbl.lift σ = m.tbl.lift σ := by
  unfold Tbl.lift Tbl.nameOf; rw [h.l2v]

/-- load, then C01: every documented binary connective (any alias of the regenerated table)
applied to two loaded roots returns a node denoting, by name, that connective of the two
root entries of the file -/
theorem C16_then_apply (f : DddmpFile) (hf : f.WF) (op : String) (c : Conn)
    (hc : docConn op = some c) (h2 : c.arity = 2) (hq1 : c ≠ .forall_) (hq2 : c ≠ .exists_)
    (hall : Gen.allOps.contains op = true) (ρ₁ ρ₂ : Int) (h₁ : ρ₁ ∈ f.rootids.getD [])
    (h₂ : ρ₂ ∈ f.rootids.getD []) :
    ∃ m, loadDddmp f = .ok m ∧ ∃ r₁ ∈ m.roots, ∃ r₂ ∈ m.roots, ∃ r m',
      apply op r₁ (some r₂) none m = (.ok r, m') ∧ Inv m' ∧ m'.tbl.Mem r ∧ Frame m m' ∧
      ∀ σ, denN m'.tbl r σ = c.eval (evalFile f σ ρ₁) (evalFile f σ ρ₂) false := by
  obtain ⟨m, h, hg, hr, -⟩ := C16_roots_denN f hf
  obtain ⟨r₁, hr₁, hm₁, hd₁⟩ := hr ρ₁ h₁
  obtain ⟨r₂, hr₂, hm₂, hd₂⟩ := hr ρ₂ h₂
  obtain ⟨r, m', he, hI', -, hmr, hfr, hd⟩ :=
    C01_apply_binary m hg.inv hg.off op c hc h2 hq1 hq2 hall r₁ r₂ hm₁ hm₂
  refine ⟨m, h, r₁, hr₁, r₂, hr₂, r, m', he, hI', hmr, hfr, fun σ => ?_⟩
  show den m'.tbl r (m'.tbl.lift σ) = _
  rw [lift_of_frame hfr, hd, ← hd₁ σ, ← hd₂ σ]
  rfl

/-- the name `s` is one of the variables of the file (an entry of the header's `levels`) -/
def DddmpFile.declares (f : DddmpFile) (s : String) : Prop :=
  ∃ i2p levels roots var k, dddmpHeader f = .ok (i2p, levels, roots) ∧ (var, k) ∈ levels ∧
    var.show = s

/-- load, then C03: `exist(names, root)` over variables of the file returns a node denoting,
by name, the existential quantification of the root entry over those names -/
theorem C16_then_exist (f : DddmpFile) (hf : f.WF) (names : List String)
    (hdecl : ∀ s ∈ names, f.declares s) (ρ : Int) (hρ : ρ ∈ f.rootids.getD []) :
    ∃ m, loadDddmp f = .ok m ∧ ∃ r₁ ∈ m.roots, ∃ r m',
      existOp (names.map Key.name) r₁ m = (.ok r, m') ∧ Inv m' ∧ m'.tbl.Mem r ∧ Frame m m' ∧
      ∀ σ, denN m'.tbl r σ = true ↔
        ∃ τ : AsgN, (∀ s, s ∉ names → τ s = σ s) ∧ evalFile f τ ρ = true := by
  obtain ⟨m, h, -, -, -, -, -, -, hL⟩ := C16_load_good f hf
  obtain ⟨m', h', hg, hr, -⟩ := C16_roots_denN f hf
  rw [h] at h'
  cases h'
  obtain ⟨r₁, hr₁, hm₁, hd₁⟩ := hr ρ hρ
  have hW := hg.inv.wf.toWF
  have hdecl' : ∀ s ∈ names, m.tbl.vars.contains s = true := by
    intro s hs
    obtain ⟨i2p, levels, roots, var, k, hh, hm, rfl⟩ := hdecl s hs
    obtain ⟨i, -, -, hv⟩ := (hL _ _ _ hh).rank var k hm
    rw [TreeMap.contains_eq_isSome_getElem?, hv]; rfl
  obtain ⟨r, m1, he, hI', -, hmr, hfr, hd⟩ := C03_exist m hg.inv hg.off r₁ hm₁ names hdecl'
  refine ⟨m, h, r₁, hr₁, r, m1, he, hI', hmr, hfr, fun σ => ?_⟩
  show den m1.tbl r (m1.tbl.lift σ) = true ↔ _
  rw [lift_of_frame hfr, hd]
  have hq := qsem_lift hW hg.order r₁ hm₁ false names hdecl' σ
  simp only [qsem, qsemN, AgreeOff] at hq
  rw [hq]
  constructor
  · rintro ⟨τ, hτ, hv⟩
    exact ⟨τ, hτ, by rw [← hd₁ τ]; exact hv⟩
  · rintro ⟨τ, hτ, hv⟩
    exact ⟨τ, hτ, by rw [hd₁ τ]; exact hv⟩

theorem gcReach_nothing_held (t : Tbl) (u : Nat) : ¬ GcReach t (GcHeld (fun _ => 0)) u := by
  intro h
  induction h with
  | root hs => exact Nat.lt_irrefl 0 hs
  | lo _ _ ih => exact ih
  | hi _ _ ih => exact ih

/-- load, then C06 WITHOUT holding the roots: the loader takes no reference, so a collection
issued right after `load` removes EVERY node of the loaded manager (the elements of
`bdd.roots` are then not nodes any more).  This is the documented discipline of `dd.bdd`
("to ensure that the target node of a returned edge is not garbage collected … increment its
reference counter"), applied to `bdd.roots`. -/
theorem C16_gc_unheld (f : DddmpFile) (hf : f.WF) :
    ∃ m, loadDddmp f = .ok m ∧ ∃ m', collectGarbage none m = (.ok (), m') ∧ Inv m' ∧
      RefExact m' (fun _ => 0) ∧ (∀ u, m'.tbl.node? u = none) ∧ m'.roots = m.roots := by
  obtain ⟨m, h, hg, -⟩ := C16_load_good f hf
  obtain ⟨m', he, hI', hR', -, hn, -⟩ := C06_gc_exact m (fun _ => 0) hg.inv hg.exact
  refine ⟨m, h, m', he, hI', hR', fun u => ?_, ?_⟩
  · cases hu : m'.tbl.node? u with
    | none => rfl
    | some n => exact absurd ((hn u n).mp hu).2 (gcReach_nothing_held _ _)
  · obtain ⟨m'', he', hp⟩ := collectGarbage_spec m (fun _ => 0) hg.inv hg.exact
    rw [he] at he'
    cases he'
    exact hp.sub.roots

/-- load, `incref` every root, then C06: the collection succeeds, counts stay exact for the
ledger of these references, exactly the nodes reachable from the roots remain, and every root
entry of the file is still denoted, by name, by a root that is a node -/
theorem C16_then_gc (f : DddmpFile) (hf : f.WF) :
    ∃ m, loadDddmp f = .ok m ∧
      let s := run (holdOps m.roots) ⟨m, fun _ => 0⟩
      ∃ m', collectGarbage none s.m = (.ok (), m') ∧ Inv m' ∧ RefExact m' s.ext ∧
        (∀ u : Nat, (u = 1 ∨ (m'.tbl.node? u).isSome) ↔ (u = 1 ∨ GcReach m.tbl (GcHeld s.ext) u)) ∧
        ∀ ρ ∈ f.rootids.getD [], ∃ r ∈ m.roots, m'.tbl.Mem r ∧
          ∀ σ, denN m'.tbl r σ = evalFile f σ ρ := by
  obtain ⟨m, h, g, -, ht, -, -, hpos⟩ := C16_hold_roots f hf
  obtain ⟨m0, h0, -, hr, -⟩ := C16_roots_denN f hf
  rw [h] at h0
  cases h0
  refine ⟨m, h, ?_⟩
  intro s
  obtain ⟨m', he, hI', hR', hmem, -, hden, -, -, -, hl2v, -⟩ := C06_gc_exact s.m s.ext g.inv g.exact
  have ht' : s.m.tbl = m.tbl := ht
  refine ⟨m', he, hI', hR', by rw [← ht']; exact hmem, ?_⟩
  intro ρ hρ
  obtain ⟨r, hrm, hm, hd⟩ := hr ρ hρ
  have hkept : m'.tbl.Mem r := by
    have := (hmem r.natAbs).mpr (Or.inr (GcReach.root (hpos r hrm)))
    simpa [Tbl.Mem] using this
  refine ⟨r, hrm, hkept, fun σ => ?_⟩
  rw [← hd σ]
  show den m'.tbl r (m'.tbl.lift σ) = den m.tbl r (m.tbl.lift σ)
  have hl : m'.tbl.lift σ = m.tbl.lift σ := by
    unfold Tbl.lift Tbl.nameOf; rw [hl2v, ht']
  rw [hl, hden r _ hkept, ht']

/-! ### the chain on the concrete file `dddmpChain`

`x, y, z` at file levels 2, 5, 0; roots `2 = if z then x ∨ ¬y else y` and `-4 = ¬(x ∨ ¬y)`. -/

/-- load → `apply('and', root, root)` (C01): the conjunction of the two root entries, for
every assignment of the names; evaluated, it is `¬x ∧ y ∧ ¬z` -/
example : ∃ m, loadDddmp dddmpChain = .ok m ∧ ∃ r₁ ∈ m.roots, ∃ r₂ ∈ m.roots, ∃ r m',
    apply "and" r₁ (some r₂) none m = (.ok r, m') ∧ Inv m' ∧ m'.tbl.Mem r ∧
    (∀ σ, denN m'.tbl r σ = (evalFile dddmpChain σ 2 && evalFile dddmpChain σ (-4))) ∧
    ∀ x y z : Bool,
      (evalFile dddmpChain (fun s => if s = "x" then x else if s = "y" then y else z) 2 &&
        evalFile dddmpChain (fun s => if s = "x" then x else if s = "y" then y else z) (-4)) =
      (!x && y && !z) := by
  obtain ⟨m, h, r₁, hr₁, r₂, hr₂, r, m', he, hI, hm, -, hd⟩ :=
    C16_then_apply dddmpChain dddmpChain_wf "and" .and (by decide) (by decide) (by decide)
      (by decide) (by decide) 2 (-4) (by decide) (by decide)
  exact ⟨m, h, r₁, hr₁, r₂, hr₂, r, m', he, hI, hm, hd, by decide⟩

/-- load → `exist({'z'}, root)` (C03): on the first root, `∃ z. if z then x ∨ ¬y else y` -/
example : ∃ m, loadDddmp dddmpChain = .ok m ∧ ∃ r₁ ∈ m.roots, ∃ r m',
    existOp [Key.name "z"] r₁ m = (.ok r, m') ∧ m'.tbl.Mem r ∧
    ∀ σ, denN m'.tbl r σ = true ↔
      ∃ τ : AsgN, (∀ s, s ∉ ["z"] → τ s = σ s) ∧ evalFile dddmpChain τ 2 = true := by
  obtain ⟨m, h, r₁, hr₁, r, m', he, -, hm, -, hd⟩ :=
    C16_then_exist dddmpChain dddmpChain_wf ["z"] (by
      intro s hs
      simp only [List.mem_cons, List.not_mem_nil, or_false] at hs
      subst hs
      exact ⟨_, _, _, .str "z", 0, rfl, by decide, rfl⟩) 2 (by decide)
  exact ⟨m, h, r₁, hr₁, r, m', he, hm, hd⟩

/-- load → hold the roots → `collect_garbage()` (C06) -/
example : ∃ m, loadDddmp dddmpChain = .ok m ∧
    ∃ m', collectGarbage none (run (holdOps m.roots) ⟨m, fun _ => 0⟩).m = (.ok (), m') ∧ Inv m' ∧
      ∀ ρ ∈ [(2 : Int), -4], ∃ r ∈ m.roots, m'.tbl.Mem r ∧
        ∀ σ, denN m'.tbl r σ = evalFile dddmpChain σ ρ := by
  obtain ⟨m, h, m', he, hI, -, -, hr⟩ := C16_then_gc dddmpChain dddmpChain_wf
  exact ⟨m, h, m', he, hI, hr⟩

/-- … and without holding them everything is collected -/
example : ∃ m, loadDddmp dddmpChain = .ok m ∧ ∃ m', collectGarbage none m = (.ok (), m') ∧
    ∀ u, m'.tbl.node? u = none := by
  obtain ⟨m, h, m', he, -, -, hn, -⟩ := C16_gc_unheld dddmpChain dddmpChain_wf
  exact ⟨m, h, m', he, hn⟩

/-- the loaded manager computed on the model (kernel evaluation; the real `dd` gives the same
numbers, and the check `C16` replays load → `incref` → `apply` → `exist` → `collect_garbage`
on both): roots `4` and `-3`, order `z < x < y`, and NO reference on the root node 4
(count 0), one stored edge on node 3 -/
theorem dddmpChain_loaded :
    (loadDddmp dddmpChain).toOption.map (fun m => (m.roots, m.tbl.vars.toList, m.ref.toList)) =
    some ([4, -3], [("x", 1), ("y", 2), ("z", 0)], [(1, 4), (2, 2), (3, 1), (4, 0)]) := by
  decide +kernel

end DD
