/-
  C17 (readable file, ILL-FORMED content): `load` failing half-way.

  The loaders declare the file's variables first (`loadVars` / `declare`) and build nodes line
  by line, so a content that is rejected half-way HAS changed the manager: "nothing changed" is
  false (examples below).  What holds for EVERY content and EVERY outcome — returned or raised —
  is `KeptV`: the invariant, every node that was there (same triple), the function each of them
  denotes, the level of every declared variable, and the switches (`_last_len`, the context
  flag, the registered roots).

  * pickle, `dd.bdd.BDD.load` / `dd.autoref.BDD.load`: any `levels`, dynamic reordering enabled
    or not (the loader never looks at it outside a context) — `C17_load_rejected`,
    `C17_load_rejected_autoref`;
  * JSON, `_copy.load_json(load_order=False)`, dynamic reordering not enabled —
    `C17_load_json_rejected`.
  NOT covered: `load_order=True` on ill-formed content (`reorder(order)` on arbitrary input)
  and JSON with reordering enabled on ill-formed content.
-/
import DDProofs.LoadRejected
open Std
namespace DD

/-- C17: `BDD.load(file.p, levels)` on ANY content — well-formed or not, accepted or raising
half-way -/
theorem C17_load_rejected (f : PickleFile) (levels : Bool) (m : Mgr) (hI : Inv m)
    (hc : m.ctx = false) : KeptV m (loadPickle f levels m).2 :=
  loadPickle_keptV f levels m hI hc

/-- C17: the same for `dd.autoref.BDD.load` (the result's `Function`s included) -/
theorem C17_load_rejected_autoref (f : PickleFile) (levels : Bool) (m : Mgr) (hI : Inv m)
    (hc : m.ctx = false) : KeptV m (loadPickleAutoref f levels m).2 :=
  loadPickleAutoref_keptV f levels m hI hc

/-- C17: `load_json(file, bdd, load_order=False)` on ANY content, dynamic reordering not enabled -/
theorem C17_load_json_rejected (f : JsonFile) (m : Mgr) (hI : Inv m) (hoff : m.lastLen = none) :
    KeptV m (loadJson f false m).2 :=
  loadJson_keptV f m hI hoff

/-- C17: what `KeptV` gives the user -/
theorem C17_load_rejected_means (m m' : Mgr) (h : KeptV m m') (u : Int) (hu : m.tbl.Mem u) :
    Inv m' ∧ m'.tbl.Mem u ∧ (∀ a, den m'.tbl u a = den m.tbl u a) ∧
    (∀ (v : String) (i : Nat), m.tbl.vars[v]? = some i → m'.tbl.vars[v]? = some i) ∧
    m'.lastLen = m.lastLen ∧ m'.ctx = m.ctx ∧ m'.roots = m.roots :=
  ⟨h.inv, h.mem hu, h.den u hu, h.vars, h.lastLen, h.ctx, h.roots⟩

/-! ### the rejected loads do occur, and do change the manager -/

/-- a pickle whose node 3 has a child (7) that is not in the file -/
def fileDangling : PickleFile :=
  { vars := [("x", 0), ("y", 1)]
    succ := [⟨1, 2, none, none⟩, ⟨2, 1, some (-1), some 1⟩, ⟨3, 0, some (-1), some 7⟩]
    roots := .list [3] }

/-- the same content as JSON lines -/
def jsonDangling : JsonFile :=
  { levelOfVar := [("x", 0), ("y", 1)]
    roots := .list [3]
    nodes := [⟨2, 1, -1, 1⟩, ⟨3, 0, -1, 7⟩] }

/-- `KeyError` half-way: both variables are declared and the node of `y` is built -/
example : (loadPickle fileDangling false {}).1 = .error .key ∧
    (loadPickle fileDangling false {}).2.tbl.vars.toList = [("x", 0), ("y", 1)] ∧
    (loadPickle fileDangling false {}).2.tbl.succ.toList = [(2, ⟨1, -1, 1⟩)] := by decide +kernel

example : KeptV {} (loadPickle fileDangling false {}).2 :=
  C17_load_rejected fileDangling false {} Inv.init rfl

/-- the JSON reader on the same content: `KeyError` at the second node line; the variables are
declared, the node of `y` is built and keeps the shelf's reference (never released: the loader
has no cleanup) -/
example : (loadJson jsonDangling false {}).1 = .error .key ∧
    (loadJson jsonDangling false {}).2.tbl.vars.toList = [("x", 0), ("y", 1)] ∧
    (loadJson jsonDangling false {}).2.tbl.succ.toList = [(2, ⟨1, -1, 1⟩)] ∧
    (loadJson jsonDangling false {}).2.ref.toList = [(1, 3), (2, 1)] := by decide +kernel

example : KeptV {} (loadJson jsonDangling false {}).2 :=
  C17_load_json_rejected jsonDangling {} Inv.init rfl

/-- `levels=True` into a manager that has the variables at other levels: refused (`ValueError`
of `add_var`) with nothing changed -/
example : (loadPickle fileDangling true (mgr2 "y" "x")).1 = .error .value ∧
    (loadPickle fileDangling true (mgr2 "y" "x")).2.tbl.vars.toList = [("x", 1), ("y", 0)] := by
  decide +kernel

end DD
