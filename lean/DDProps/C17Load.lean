/-
  C17 (readable file, ILL-FORMED content): `load` failing half-way — and, the statements being
  about EVERY content and EVERY outcome, also `load` succeeding.

  The loaders declare the file's variables first (`loadVars` / `declare`) and build nodes line
  by line, so a content that is rejected half-way HAS changed the manager: "nothing changed" is
  false (examples below).  What holds, for the code after the repair of findings F16 / F17:

  * `KeptV`: the invariant; every node that was there (same triple) and the function it
    denotes; the level of every declared variable; the switches (`_last_len`, the context flag,
    the schedule, the registered roots).
  * EXACT COUNTS: `RefExact m ext → RefExact m' ext` — the loader holds nothing when it raises
    (for `dd.autoref` and JSON: one reference per returned `Function` when it returns).  For JSON
    this is the `except BaseException:` clause of `_load_json` (F17).
  * THE ORDER IS STILL A BIJECTION onto `0..n-1` (`OrderOK`): always for `levels=False` and for
    JSON; for `levels=True` thanks to the two pre-checks of `_load_pickle` (F16: the file's
    levels are a permutation of `0..n-1`, every pair agrees with the manager): the load is
    refused before anything is declared, or every variable gets declared.  (The hypothesis
    "distinct names" says that `vars` is a dict — the model keeps its items as a list.)

  * pickle, `dd.bdd.BDD.load` / `dd.autoref.BDD.load`: any `levels`, dynamic reordering enabled
    or not (the loader never looks at it outside a context) — `C17_load_rejected`,
    `C17_load_rejected_autoref`;
  * JSON, `_copy.load_json(load_order=False)`, dynamic reordering not enabled —
    `C17_load_json_rejected` (a node line with the terminal's id `1` is refused since F18:
    `jsonIdOne` below).
  `load_order=True` on ANY content, and `load_order=False` into a manager with dynamic reordering
  ENABLED on ANY content: DDProps/C17Load2.lean.
-/
import DDProofs.LoadRejected
import DDProofs.LoadJson2Off
import DDProofs.UsedExample
open Std
namespace DD

/-- C17: `BDD.load(file.p, levels)` on ANY content — well-formed or not, accepted or raising
half-way: `KeptV`, exact counts for the same ledger, the order a bijection (`LoadLeaves`) -/
theorem C17_load_rejected (f : PickleFile) (levels : Bool) (m : Mgr) (hI : Inv m)
    (hc : m.ctx = false) : LoadLeaves f levels m (loadPickle f levels m).2 :=
  loadPickle_leaves f levels m hI hc

/-- C17: the same for `dd.autoref.BDD.load`; the counts are exact for the caller's ledger plus
one reference per returned `Function`, and for the caller's ledger when the call raised -/
theorem C17_load_rejected_autoref (f : PickleFile) (levels : Bool) (m : Mgr) (hI : Inv m)
    (hc : m.ctx = false) :
    KeptV m (loadPickleAutoref f levels m).2 ∧
    (OrderOK m.tbl → (levels = true → (f.vars.map (·.1)).Nodup) →
      OrderOK (loadPickleAutoref f levels m).2.tbl) ∧
    ∀ ext, RefExact m ext →
      match (loadPickleAutoref f levels m).1 with
      | .ok roots => RefExact (loadPickleAutoref f levels m).2 (extAdd ext (roots.values.map Int.natAbs))
      | .error _ => RefExact (loadPickleAutoref f levels m).2 ext :=
  loadPickleAutoref_leaves f levels m hI hc

/-- C17: `load_json(file, bdd, load_order=False)` on ANY content,
dynamic reordering not enabled, from a between-calls state with the counts exact for `e`:
`KeptV`, and again a between-calls state (`GoodState`: invariant, order a bijection, reordering
off, outside a context) with the counts exact for `e` plus one reference per returned `Function`
— for `e` itself when the call raised -/
theorem C17_load_json_rejected (f : JsonFile) (m : Mgr)
    (e : Nat → Nat) (hg : GoodState m e) : JsonLeaves e m (loadJson f false m) :=
  loadJson_false_any f m e hg

/-- C17: what `KeptV` gives the user -/
theorem C17_load_rejected_means (m m' : Mgr) (h : KeptV m m') (u : Int) (hu : m.tbl.Mem u) :
    Inv m' ∧ m'.tbl.Mem u ∧ (∀ a, den m'.tbl u a = den m.tbl u a) ∧
    (∀ (v : String) (i : Nat), m.tbl.vars[v]? = some i → m'.tbl.vars[v]? = some i) ∧
    m'.lastLen = m.lastLen ∧ m'.ctx = m.ctx ∧ m'.roots = m.roots :=
  ⟨h.inv, h.mem hu, h.den u hu, h.vars, h.lastLen, h.ctx, h.roots⟩

/-! ### the rejected loads do occur, and do change the manager -/

/-- a pickle whose node 3 has a child (7) that is not in the file -/
def fileDangling : PickleFile :=
  { vars := [("x", 0), ("y", 1)]
    succ := [⟨1, 2, none, none⟩, ⟨2, 1, some (-1), some 1⟩, ⟨3, 0, some (-1), some 7⟩]
    roots := .list [3] }

/-- the same content as JSON lines -/
def jsonDangling : JsonFile :=
  { levelOfVar := [("x", 0), ("y", 1)]
    roots := .list [3]
    nodes := [⟨2, 1, -1, 1⟩, ⟨3, 0, -1, 7⟩] }

/-- `KeyError` half-way: both variables are declared and the node of `y` is built -/
example : (loadPickle fileDangling false {}).1 = .error .key ∧
    (loadPickle fileDangling false {}).2.tbl.vars.toList = [("x", 0), ("y", 1)] ∧
    (loadPickle fileDangling false {}).2.tbl.succ.toList = [(2, ⟨1, -1, 1⟩)] := by decide +kernel

example : LoadLeaves fileDangling false {} (loadPickle fileDangling false {}).2 :=
  C17_load_rejected fileDangling false {} Inv.init rfl

/-- F17 (fixed): the JSON reader on the same content raises `KeyError` at the second node line;
the variables are declared, the node of `y` is built, and the reference `_make_node` took for it
has been given back: count 0 (it was 1 before the repair) -/
example : (loadJson jsonDangling false {}).1 = .error .key ∧
    (loadJson jsonDangling false {}).2.tbl.vars.toList = [("x", 0), ("y", 1)] ∧
    (loadJson jsonDangling false {}).2.tbl.succ.toList = [(2, ⟨1, -1, 1⟩)] ∧
    (loadJson jsonDangling false {}).2.ref.toList = [(1, 3), (2, 0)] := by decide +kernel

example : JsonLeaves (fun _ => 0) {} (loadJson jsonDangling false {}) :=
  C17_load_json_rejected jsonDangling {} _ GoodState.init

/-- F16 (fixed): `levels=True` into a manager (variables `q`, `r` at levels 0, 1) that has other
variables on the file's levels: refused by the pre-check (`ValueError`) with NOTHING declared
(before the repair: `x` was declared at level 2 and the refusal came at `y`, leaving a gap) -/
def fileF16 : PickleFile :=
  { vars := [("x", 2), ("y", 0), ("w", 1)]
    succ := [⟨1, 3, none, none⟩, ⟨2, 2, some (-1), some 1⟩]
    roots := .list [2] }

example : loadPickle fileF16 true (mgr2 "q" "r") = (.error .value, mgr2 "q" "r") :=
  loadPickle_refused fileF16 _ (Or.inr (by decide +kernel))

/-- `levels=True` into a manager that has the file's variables at other levels: refused
(`ValueError`) with nothing changed -/
example : (loadPickle fileDangling true (mgr2 "y" "x")).1 = .error .value ∧
    (loadPickle fileDangling true (mgr2 "y" "x")).2.tbl.vars.toList = [("x", 1), ("y", 0)] := by
  decide +kernel

/-! ### a USED receiving manager: `usedM` (four variables declared c, a, d, b; thirteen nodes;
the user holds `a ∧ b` once and the four-variable node 13 twice) and a file in ANOTHER order
(d < b < a < c) whose last node names a successor (9) that is not in the file -/

def fileBadUsed : PickleFile :=
  { vars := [("d", 0), ("b", 1), ("a", 2), ("c", 3)]
    succ := [⟨1, 4, none, none⟩, ⟨2, 3, some (-1), some 1⟩, ⟨3, 2, some (-1), some 2⟩,
             ⟨4, 1, some 3, some 2⟩, ⟨5, 0, some (-4), some 9⟩]
    roots := .list [5, -3] }

def jsonBadUsed : JsonFile :=
  { levelOfVar := [("d", 0), ("b", 1), ("a", 2), ("c", 3)]
    roots := .dict [("r", 5), ("s", -3)]
    nodes := [⟨2, 3, -1, 1⟩, ⟨3, 2, -1, 2⟩, ⟨4, 1, 3, 2⟩, ⟨5, 0, -4, 9⟩] }

/-- `levels=False`: `KeyError` after three nodes of the file were built (15, 16, 17) in the order
of the MANAGER; the thirteen old nodes and the user's counts (node 4: 1, node 13: 2) are what
they were; `levels=True`: refused by the pre-check (`ValueError`), nothing changed -/
example : (loadPickle fileBadUsed false usedM).1 = .error .key ∧
    (loadPickle fileBadUsed false usedM).2.tbl.succ.keys =
      [2, 3, 4, 5, 6, 7, 8, 9, 10, 11, 12, 13, 14, 15, 16, 17] ∧
    (loadPickle fileBadUsed false usedM).2.ref[4]? = some 1 ∧
    (loadPickle fileBadUsed false usedM).2.ref[13]? = some 2 ∧
    (loadPickle fileBadUsed true usedM).1 = .error .value ∧
    (loadPickle fileBadUsed true usedM).2.tbl.vars.toList = [("a", 1), ("b", 3), ("c", 0), ("d", 2)] ∧
    (loadPickle fileBadUsed true usedM).2.tbl.succ.keys = usedM.tbl.succ.keys := by decide +kernel

example : LoadLeaves fileBadUsed false usedM (loadPickle fileBadUsed false usedM).2 ∧
    RefExact (loadPickle fileBadUsed false usedM).2 usedExt :=
  have h := C17_load_rejected fileBadUsed false usedM usedM_good.inv usedM_good.ctx
  ⟨h, h.counts usedExt usedM_good.exact⟩

/-- the JSON reader on the same content: `KeyError` at the fourth node line; every reference the
shelf and the temporaries held has been given back — the counts are those of the pickle run -/
example : (loadJson jsonBadUsed false usedM).1 = .error .key ∧
    (loadJson jsonBadUsed false usedM).2.ref.toList = (loadPickle fileBadUsed false usedM).2.ref.toList := by
  decide +kernel

example : JsonLeaves usedExt usedM (loadJson jsonBadUsed false usedM) :=
  C17_load_json_rejected jsonBadUsed usedM usedExt usedM_good

/-! ### files whose own levels are not a permutation of `0..n-1`

The pre-check of the pairs against the manager is not enough for them: the range assertion
(`0 <= i < n`) and the refusal "level already used" of `add_var` would fire half-way, after an
earlier variable was declared above a free level.  `_load_pickle` therefore first checks
`sorted(levels) == list(range(n))`: both files are refused with NOTHING declared. -/

/-- levels 1 and 5 for two variables -/
def fileGapA : PickleFile :=
  { vars := [("a", 1), ("b", 5)], succ := [⟨1, 2, none, none⟩], roots := .list [1] }
/-- level 1 twice -/
def fileGapB : PickleFile :=
  { vars := [("a", 1), ("b", 1)], succ := [⟨1, 2, none, none⟩], roots := .list [1] }

example : loadPickle fileGapA true {} = (.error .value, {}) :=
  loadPickle_refused fileGapA _ (Or.inl (by decide))
example : loadPickle fileGapB true {} = (.error .value, {}) :=
  loadPickle_refused fileGapB _ (Or.inl (by decide))

/-- with `levels=False` the range assertion of the loop still stops `fileGapA` half-way
(`AssertionError((5, 2))` after `a` was declared) — at the NEXT FREE level, so without a gap;
`fileGapB` loads -/
example : (loadPickle fileGapA false {}).1 = .error .assertion ∧
    (loadPickle fileGapA false {}).2.tbl.vars.toList = [("a", 0)] ∧
    (loadPickle fileGapB false {}).1 = .ok (.list [1]) ∧
    (loadPickle fileGapB false {}).2.tbl.vars.toList = [("a", 0), ("b", 1)] := by decide +kernel

/-! ### a JSON file with a node line for the terminal's id

F18 (fixed): `_make_node` asserted `k > 0` only.  A line `"1": […]` put a node on the shelf under
the key 1, but `_node_from_int(1, …)` is the constant TRUE: the release loop never reached the
shelf's entry; the file was ACCEPTED, returned the constant, and left the node built for the line
with one reference nobody held.  The loader now refuses `k <= 1` (`AssertionError`) before
anything is built. -/

def jsonIdOne : JsonFile :=
  { levelOfVar := [("x", 0)], roots := .list [1], nodes := [⟨1, 0, -1, 1⟩] }

example : (loadJson jsonIdOne false {}).1 = .error .assertion ∧
    (loadJson jsonIdOne false {}).2.tbl.succ.toList = [] ∧
    (loadJson jsonIdOne false {}).2.ref.toList = [(1, 1)] := by decide +kernel

example : JsonLeaves (fun _ => 0) {} (loadJson jsonIdOne false {}) :=
  C17_load_json_rejected jsonIdOne {} _ GoodState.init

end DD
