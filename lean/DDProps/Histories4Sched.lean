/-
  DDProps.Histories4Sched — "for EVERY history" over `UOp4` with RECORDED SCHEDULES on the decorated
  calls (C09, C17, C06): the every-history theorems of DDProps.Histories3 run `cube`, `add_expr`,
  `image`, `preimage`, `copy_bdd` with the default iteration order only (`Good3.sched = []`); the
  differential check runs them with the schedule recorded from the real call.  A call is a pair
  (schedule, operation of `UOp4`), run as the driver runs a line (DDProofs.Reach4Sched).
-/
import DDProofs.Reach4Sched
import DDProofs.SchedNaturalMore
import DDProofs.SchedReplay
import DDProps.C09Accept
open Std

namespace DD

/-- C09 / C06 (every history, recorded schedules): from ANY good state, after any guarded history
whose decorated calls — of `UOp` and of `UOp4` — run under recorded schedules, the state is good:
invariant, order maps, counts exact for the user's ledger; with two variables the state is the
one the C09 / C17 theorems for every schedule start from (`DynInv`) -/
theorem C09_every_history4S (cs : List SCall4) (s : St) (h : Good3 s.m s.ext)
    (hg : Calls4GuardedS cs s) :
    Good3 (run4S cs s).m (run4S cs s).ext ∧
    (2 ≤ (run4S cs s).m.nvars → DynInv (run4S cs s).ext (run4S cs s).m) :=
  ⟨reachable4S_from cs s h hg, fun h2 => (reachable4S_from cs s h hg).dynInv h2⟩

/-- C09 (every history, recorded schedules): a reference the user holds and does not release stays
a node and keeps its function of the variable NAMES — siftings under recorded schedules inside
`cube`, `add_expr`, `image`, `preimage`, `copy_bdd` included -/
theorem C09_held_every_history4S (cs : List SCall4) (s : St) (h : Good3 s.m s.ext)
    (hg : Calls4GuardedS cs s) (u : Int)
    (hheld : ∀ (pre post : List SCall4), cs = pre ++ post → 0 < (run4S pre s).ext u.natAbs) :
    (run4S cs s).m.tbl.Mem u ∧ ∀ σ, denN (run4S cs s).m.tbl u σ = denN s.m.tbl u σ :=
  run4S_held cs s h hg u hheld

/-- C17 (every history, recorded schedules): the internal signal reaches the user in no call -/
theorem C17_noSignal_every_history4S (cs : List SCall4) (s : St) (h : Good3 s.m s.ext)
    (hg : Calls4GuardedS cs s) : ∀ r ∈ results4S cs s, r ≠ .error .needsReordering :=
  results4S_noSignal cs s h hg

/-- the histories of DDProps.Histories3 are the histories without recorded schedules -/
theorem C09_history4S_default (ops : List UOp4) (s : St) :
    run4S (ops.map (SCall4.mk [])) s = run4 ops s := run4S_nil ops s

/-- the guard of a call with a recorded schedule follows from "the schedule is the record of a
valid choice": the decorated operations of `UOp` and `cube`, `add_expr`, `image`, `preimage`,
`copy_bdd`, all with ANY arguments (`runOpC` / `runOp4C`: the choice-driven calls) -/
theorem C09_callGuard4S_of_choice (m : Mgr) (ext : Nat → Nat) (h : Good3 m ext) (h2 : 2 ≤ m.nvars)
    (c : Choice) (hc : c.Valid) (s : SchedItem) (sch : List SchedItem) :
    (∀ b : UOp, b.decorated = true → logOf (runOpC c b m).1 = some (s :: sch) →
      CallGuard4S m ext ⟨s :: sch, .op (.op (.base b))⟩) ∧
    (∀ o : UOp4, o.decoratedNew = true → logOf (runOp4C c o m).1 = some (s :: sch) →
      CallGuard4S m ext ⟨s :: sch, o⟩) :=
  ⟨fun b hdec hl => callGuard4S_of_choice m ext h h2 c hc b hdec s sch hl,
   fun o hdec hl => callGuard4S_new_of_choice m ext h h2 c hc o hdec s sch hl⟩

/-- every decorated operation `UOp4` adds accepts every valid choice: a schedule (the record, if
the choice-driven call returned) with which the scheduled call does what the choice-driven call
does, consumed exactly, `.sched` not among the outcomes -/
theorem C09_new_ops_accept_every_choice (ext : Nat → Nat) (c : Choice) (hc : c.Valid) (m : Mgr)
    (hD : DynInvS ext m) :
    (∀ d, AcceptsC c (cubeBody d) m) ∧ (∀ s, AcceptsC c (addExprToks (tokenize s)) m) ∧
    (∀ t s rn q fa, AcceptsF (imageC c t s rn q fa []) (image t s rn q fa) m) ∧
    (∀ t s rn q fa, AcceptsF (preimageC c t s rn q fa []) (preimage t s rn q fa) m) ∧
    (∀ src u, AcceptsC c (copyBddBody src u) m) :=
  ⟨fun d => cube_accepts ext c hc m hD d, fun s => addExpr_accepts ext c hc m hD s,
   fun t s rn q fa => image_accepts ext c hc m hD t s rn q fa,
   fun t s rn q fa => preimage_accepts ext c hc m hD t s rn q fa,
   fun src u => copyBdd_accepts ext c hc m hD src u⟩

/-- the decidable form of the guard is exact for the new operations too: replaying the choice read
off `sch` records `sch` iff `sch` is the record under some valid choice -/
theorem C09_encodes4_iff_choice (m : Mgr) (o : UOp4) (sch : List SchedItem) :
    logOf (runOp4C (Choice.ofSched sch) o m).1 = some sch ↔
      ∃ c : Choice, c.Valid ∧ logOf (runOp4C c o m).1 = some sch := by
  refine ⟨fun h => ⟨_, Choice.ofSched_valid sch, h⟩, fun ⟨c, hc, hl⟩ => ?_⟩
  have hA := choiceAgrees_ofSched hc sch
  have key : ∀ (t s : Int) (rn : List (Key × Key)) (q : List Key) (fa : Bool)
      (B : Int → Int → List (Key × Key) → List Key → Bool → M Int)
      (F : Choice → M (Int × List SchedItem))
      (hF : ∀ c, F c m = match qvarsByName m.tbl q with
        | .error e => (.error e, m)
        | .ok qn => tryToReorderC c (B t s (renameByName m.tbl rn) qn fa) [] m),
      RepC (F c m) (F (Choice.ofSched sch) m) [] sch := by
    intro t s rn q fa B F hF
    rw [hF c, hF (Choice.ofSched sch)]
    cases qvarsByName m.tbl q with
    | error e => trivial
    | ok qn => exact tryToReorderC_rep hA _ [] m
  cases o with
  | op o3 =>
    cases o3 with
    | op o2 =>
      cases o2 with
      | base b => exact runOpC_encodes_of_choice c hc m sch b hl
      | swap _ _ _ => exact hl
      | sift _ => exact hl
      | reorderTo _ _ => exact hl
      | undeclare _ => exact hl
    | configure _ => exact hl
  | cube d => exact mapResC_rep _ (tryToReorderC_rep hA _ [] m) hl
  | addExpr e => exact mapResC_rep _ (tryToReorderC_rep hA _ [] m) hl
  | image t s rn q fa =>
    exact mapResC_rep _ (key t s rn q fa imageBody (fun c => imageC c t s rn q fa []) (fun _ => rfl)) hl
  | preimage t s rn q fa =>
    exact mapResC_rep _ (key t s rn q fa preimageBody (fun c => preimageC c t s rn q fa []) (fun _ => rfl)) hl
  | copyFrom src u => exact mapResC_rep _ (tryToReorderC_rep hA _ [] m) hl
  | gcRooted _ => exact hl
  | reorderToPairs _ _ => exact hl
  | loadPickle _ _ => exact hl

/-! ### non-vacuity -/

/-- from `exSchedM` (DDProps.C09Sched: three variables, reordering enabled, a request due):
`cube({a: True, b: True})` under the recorded schedule `exRevSched` (DDProps.C07Accept), then
`add_expr('a & c')` with the default schedule -/
def exHistory4S : List SCall4 :=
  [⟨exRevSched, .cube [("a", true), ("b", true)]⟩, ⟨[], .addExpr "a & c"⟩]

theorem exHistory4S_guarded : Calls4GuardedS exHistory4S ⟨exSchedM, exSchedExt⟩ := by
  unfold exSchedM exSchedExt
  decide +kernel

theorem exHistory4S_results :
    (results4S exHistory4S ⟨exSchedM, exSchedExt⟩).map (fun r => r.toOption.isSome) = [true, true] ∧
    (run4S exHistory4S ⟨exSchedM, exSchedExt⟩).m.tbl.l2v.toList = [(0, "a"), (1, "c"), (2, "b")] ∧
    (run4S exHistory4S ⟨exSchedM, exSchedExt⟩).m.sched = [] := by
  unfold exSchedM exSchedExt
  decide +kernel

/-- the schedule of the first call is the record of the choice `Choice.rev` for that call, so its
guard is the one `C09_callGuard4S_of_choice` derives -/
theorem exHistory4S_record :
    logOf (runOp4C Choice.rev (.cube [("a", true), ("b", true)]) exSchedM).1 = some exRevSched := by
  unfold exSchedM
  decide +kernel

example : CallGuard4S exSchedM exSchedExt ⟨exRevSched, .cube [("a", true), ("b", true)]⟩ :=
  (C09_callGuard4S_of_choice exSchedM exSchedExt exSchedM_good3 exSchedM_dynInv.nvars Choice.rev
    Choice.rev_valid _ _).2 _ rfl exHistory4S_record

example : Good3 (run4S exHistory4S ⟨exSchedM, exSchedExt⟩).m (run4S exHistory4S ⟨exSchedM, exSchedExt⟩).ext :=
  (C09_every_history4S exHistory4S ⟨exSchedM, exSchedExt⟩ exSchedM_good3 exHistory4S_guarded).1

end DD
