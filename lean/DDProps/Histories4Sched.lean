/-
  DDProps.Histories4Sched — "for EVERY history" over `UOp4` with RECORDED SCHEDULES on the decorated
  calls (C09, C17, C06): the every-history theorems of DDProps.Histories3 run `cube`, `add_expr`,
  `image`, `preimage`, `copy_bdd` with the default iteration order only (`Good3.sched = []`); the
  differential check runs them with the schedule recorded from the real call.  A call is a pair
  (schedule, operation of `UOp4`), run as the driver runs a line (DDProofs.Reach4Sched).
-/
import DDProofs.Reach4Sched
import DDProps.C09Accept
open Std

namespace DD

/-- C09 / C06 (every history, recorded schedules): from ANY good state, after any guarded history
whose decorated calls — of `UOp` and of `UOp4` — run under recorded schedules, the state is good:
invariant, order maps, counts exact for the user's ledger; with two variables the state is the
one the C09 / C17 theorems for every schedule start from (`DynInv`) -/
theorem C09_every_history4S (cs : List SCall4) (s : St) (h : Good3 s.m s.ext)
    (hg : Calls4GuardedS cs s) :
    Good3 (run4S cs s).m (run4S cs s).ext ∧
    (2 ≤ (run4S cs s).m.nvars → DynInv (run4S cs s).ext (run4S cs s).m) :=
  ⟨reachable4S_from cs s h hg, fun h2 => (reachable4S_from cs s h hg).dynInv h2⟩

/-- C09 (every history, recorded schedules): a reference the user holds and does not release stays
a node and keeps its function of the variable NAMES — siftings under recorded schedules inside
`cube`, `add_expr`, `image`, `preimage`, `copy_bdd` included -/
theorem C09_held_every_history4S (cs : List SCall4) (s : St) (h : Good3 s.m s.ext)
    (hg : Calls4GuardedS cs s) (u : Int)
    (hheld : ∀ (pre post : List SCall4), cs = pre ++ post → 0 < (run4S pre s).ext u.natAbs) :
    (run4S cs s).m.tbl.Mem u ∧ ∀ σ, denN (run4S cs s).m.tbl u σ = denN s.m.tbl u σ :=
  run4S_held cs s h hg u hheld

/-- C17 (every history, recorded schedules): the internal signal reaches the user in no call -/
theorem C17_noSignal_every_history4S (cs : List SCall4) (s : St) (h : Good3 s.m s.ext)
    (hg : Calls4GuardedS cs s) : ∀ r ∈ results4S cs s, r ≠ .error .needsReordering :=
  results4S_noSignal cs s h hg

/-- the histories of DDProps.Histories3 are the histories without recorded schedules -/
theorem C09_history4S_default (ops : List UOp4) (s : St) :
    run4S (ops.map (SCall4.mk [])) s = run4 ops s := run4S_nil ops s

/-- the guard of a call with a recorded schedule follows from "the schedule is the record of a
valid choice": the decorated operations of `UOp` with ANY arguments, and `copy_bdd` -/
theorem C09_callGuard4S_of_choice (m : Mgr) (ext : Nat → Nat) (h : Good3 m ext) (h2 : 2 ≤ m.nvars)
    (c : Choice) (hc : c.Valid) (s : SchedItem) (sch : List SchedItem) :
    (∀ b : UOp, b.decorated = true → logOf (runOpC c b m).1 = some (s :: sch) →
      CallGuard4S m ext ⟨s :: sch, .op (.op (.base b))⟩) ∧
    (∀ src u, logOf (tryToReorderC c (copyBddBody src u) [] m).1 = some (s :: sch) →
      CallGuard4S m ext ⟨s :: sch, .copyFrom src u⟩) :=
  ⟨fun b hdec hl => callGuard4S_of_choice m ext h h2 c hc b hdec s sch hl,
   fun src u hl => copyFrom_guard_of_choice m ext h h2 c hc src u s sch hl⟩

/-! ### non-vacuity -/

/-- from `exSchedM` (DDProps.C09Sched: three variables, reordering enabled, a request due):
`cube({a: True, b: True})` under the recorded schedule `exRevSched` (DDProps.C07Accept), then
`add_expr('a & c')` with the default schedule -/
def exHistory4S : List SCall4 :=
  [⟨exRevSched, .cube [("a", true), ("b", true)]⟩, ⟨[], .addExpr "a & c"⟩]

theorem exHistory4S_guarded : Calls4GuardedS exHistory4S ⟨exSchedM, exSchedExt⟩ := by
  unfold exSchedM exSchedExt
  decide +kernel

theorem exHistory4S_results :
    (results4S exHistory4S ⟨exSchedM, exSchedExt⟩).map (fun r => r.toOption.isSome) = [true, true] ∧
    (run4S exHistory4S ⟨exSchedM, exSchedExt⟩).m.tbl.l2v.toList = [(0, "a"), (1, "c"), (2, "b")] ∧
    (run4S exHistory4S ⟨exSchedM, exSchedExt⟩).m.sched = [] := by
  unfold exSchedM exSchedExt
  decide +kernel

example : Good3 (run4S exHistory4S ⟨exSchedM, exSchedExt⟩).m (run4S exHistory4S ⟨exSchedM, exSchedExt⟩).ext :=
  (C09_every_history4S exHistory4S ⟨exSchedM, exSchedExt⟩ exSchedM_good3 exHistory4S_guarded).1

end DD
