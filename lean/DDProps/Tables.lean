/-
  DDProps.Tables — proof obligations on the tables regenerated from /repo by
  harness/extract.py.  They are re-checked (by `decide`, a kernel computation
  over the whole finite table) on whatever the current source defines.
-/
import DD.Doc
import DD.Apply
import Generated.Tables
namespace DD

def atomB (u v w : Bool) : Atom → Bool
  | .u => u | .v => v | .w => w
  | .nu => !u | .nv => !v | .nw => !w
  | .one => true | .mone => false
  | .bad => false

def atomOk : Atom → Bool
  | .bad => false
  | _ => true

def bools : List Bool := [false, true]

/-- the template of a row computes the documented connective of the alias -/
def rowSound (r : ApplyRow) (al : String) : Bool :=
  match docConn al, r.templ with
  | some .not, .neg => true
  | some .forall_, .quant true .u .v => true
  | some .exists_, .quant false .u .v => true
  | some c, .ite a b d =>
    c != .forall_ && c != .exists_ && c != .not &&
    atomOk a && atomOk b && atomOk d &&
    ((atomUsesW a || atomUsesW b || atomUsesW d) == (c.arity == 3)) &&
    bools.all fun u => bools.all fun v => bools.all fun w =>
      (if atomB u v w a then atomB u v w b else atomB u v w d) == c.eval u v w
  | _, _ => false

def tableSound (tbl : List ApplyRow) : Bool :=
  tbl.all fun r => r.aliases.all fun al => rowSound r al

/-- every alias of the vocabulary is handled by exactly one branch, with its arity class -/
def vocabComplete (tbl : List ApplyRow) : Bool :=
  Gen.allOps.all (fun o => (tbl.filter fun r => r.aliases.contains o).length == 1) &&
  (tbl.all fun r => r.aliases.all fun al => Gen.allOps.contains al) &&
  Gen.allOps.all (fun o =>
    match docConn o with
    | none => false
    | some c =>
      (c.arity == 1) == Gen.unaryOps.contains o &&
      (c.arity == 2) == Gen.binaryOps.contains o &&
      (c.arity == 3) == Gen.ternaryOps.contains o)

/-- `BDD.apply`: every branch of the current source computes the documented connective
for each of its spellings (all 8 operand valuations) -/
theorem applyTable_sound : tableSound Gen.applyTable = true := by decide

theorem applyTable_shape : Gen.applyShapeOk = true ∧ Gen.arityShapeOk = true := by decide

theorem vocab_complete : vocabComplete Gen.applyTable = true := by decide

/-- all spellings of one connective share one template -/
theorem spellings_same_template :
    (Gen.allOps.all fun a => Gen.allOps.all fun b =>
      docConn a != docConn b ||
      (findRow a Gen.applyTable).map (·.templ) == (findRow b Gen.applyTable).map (·.templ)) = true := by
  decide

/-- the reordering thresholds the model was written for -/
theorem reorder_constants :
    Gen.reorderFactor = 2 ∧ Gen.growthFactor = 2 ∧ Gen.reorderStarts = 100 := by decide

end DD
