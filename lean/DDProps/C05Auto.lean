/-
  DDProps.C05Auto — the `add_expr` / `to_expr` round trip over `dd.autoref`
  (`autoref.BDD.to_expr(f)` = `aToExpr`, `autoref.BDD.add_expr(text)` = `aAddExpr` of
  `DD/ApiAuto.lean`: the core call wrapped into a new `Function`), with dynamic reordering
  switched off or ENABLED (`off = false`: the decorated `add_expr` may sift at any
  `find_or_add` of any nested operation; the node of a live `Function` keeps its number and
  its meaning, so the comparison `bdd.add_expr(bdd.to_expr(f)) == f` is between node numbers
  of the state after the call).
-/
import DDProps.C05
import DDProps.C08Values2
import DDProofs.Reach
open Std
namespace DD

variable {off : Bool}

/-- `bdd.to_expr(f)` on a live `Function`: nothing changes; the answer is the core's -/
theorem aToExpr_eval (a : AMgr) (hi : AInv off a) (ju : Nat) (u : Int)
    (hu : a.handles[ju]? = some u) : aToExpr ju a = (toExpr a.m.tbl u, a) := by
  unfold aToExpr
  rw [AM.bind_ok (nodeIn_eval hi hu)]
  rfl

/-- the trees `to_expr` prints mention no `@n` -/
theorem TE_atNodes {t : Ast} (h : TE t) : t.atNodes = [] := by
  induction h with
  | tt => rfl
  | ff => rfl
  | var x _ => rfl
  | ite v q p _ _ _ ihq ihp => simp [Ast.atNodes, ihq, ihp]
  | neg e _ ih => simpa [Ast.atNodes] using ih

/-- C05 over autoref (round trip): for a live `Function` `ju` on the node `u` whose support
consists of variables named by NAME tokens that are not reserved words (`lexableSupport`; F13 is
the excluded case), `s = bdd.to_expr(f)` succeeds without changing anything and
`g = bdd.add_expr(s)` returns a NEW `Function` `h` ON THE SAME NODE `u` (`g == f`); the
invariant of the wrapper (count equation included) holds after the call, no other `Function`
is touched, and every live `Function` keeps its meaning by name.  Both with reordering off
(`off = true`) and enabled (`off = false`; then with two declared variables, `Two`: with fewer a
fired request ends in the `ValueError` of sifting, an outcome of `C08_ops_dyn_total`). -/
theorem C05_autoref_addExpr_toExpr (a : AMgr) (hi : AInv off a) (ht : Two off a) (ju h : Nat) (u : Int)
    (hu : a.handles[ju]? = some u) (hf : a.handles.contains h = false)
    (hn : lexableSupport a.m.tbl u) :
    ∃ s a', aToExpr ju a = (.ok s, a) ∧ aAddExpr s h a = (.ok u, a') ∧
      a'.handles[h]? = some u ∧ a'.handles[ju]? = some u ∧ AInv off a' ∧
      (∀ j : Nat, j ≠ h → a'.handles[j]? = a.handles[j]?) ∧
      (∀ (j : Nat) (w : Int), a.handles[j]? = some w →
        a'.m.tbl.Mem w ∧ ∀ σ, denN a'.m.tbl w σ = denN a.m.tbl w σ) := by
  have hmem : a.m.tbl.Mem u := hi.hmem ju u hu
  have hV := VarsBij.ofOrderOK hi.order
  obtain ⟨s, hs⟩ := toExpr_total a.m.tbl hi.inv.wf.toWF hV u hmem
  obtain ⟨f, t, ha, hte, hp⟩ := parse_toExpr a.m.tbl u (namesBelow_of_support hi.inv.wf hmem hn) s hs
  obtain ⟨hM, hsem⟩ := toExprAst_sem a.m.tbl hi.inv.wf.toWF hV f u t ha hmem
  -- the tree that `to_expr` prints has no `@n`
  have hat : ∀ w ∈ t.atNodes, ∃ j : Nat, a.handles[j]? = some w := by
    intro w hw
    rw [TE_atNodes hte] at hw
    cases hw
  obtain ⟨r, a', he, hr, hdoc, hi', hoth, hkeep⟩ := aAddExpr_value a hi ht s t h hf hp hM hat
  obtain ⟨hum, hud⟩ := hkeep ju u hu
  have hru : r = u := by
    apply (canonical a'.m.tbl hi'.inv.wf r u hdoc.1 hum).mp
    apply den_of_denN_tbl hi'.inv.wf.toWF hi'.order r u hdoc.1 hum
    intro σ
    rw [hdoc.2 σ, hud σ, hsem σ, denN_eq_asgOf hi.inv.wf.toWF hi.order u hmem σ]
  subst hru
  have hjh : ju ≠ h := by
    intro e; subst e
    rw [TreeMap.contains_eq_isSome_getElem?, hu] at hf
    cases hf
  refine ⟨s, a', ?_, he, hr, ?_, hi', hoth, hkeep⟩
  · rw [aToExpr_eval a hi ju r hu, hs]
  · rw [hoth ju hjh]; exact hu

/-! ### non-vacuity: the states `nvA4` (reordering off) and `nvD` (reordering enabled) of C08 —
variables `a b c`, the `Function` 2 on the node −4 = `a xor b` (a complemented reference with two
levels in its support) -/

theorem lexableSupport_of_check {tb : Tbl} (h : (tb.l2v.toList.all fun p => nameCheck p.2) = true)
    (u : Int) : lexableSupport tb u := by
  intro _ _ lvl _ v hv
  have hm : (lvl, v) ∈ tb.l2v.toList := TreeMap.mem_toList_iff_getElem?_eq_some.mpr hv
  exact nameOk_of_check (List.all_eq_true.mp h _ hm)

example : ∃ s a', aToExpr 2 nvA4 = (.ok s, nvA4) ∧ aAddExpr s 3 nvA4 = (.ok (-4), a') ∧
    a'.handles[(3 : Nat)]? = some (-4) ∧ AInv true a' := by
  obtain ⟨s, a', h1, h2, h3, -, h5, -⟩ := C05_autoref_addExpr_toExpr nvA4 nvA4_inv (fun h => nomatch h) 2 3 (-4) nvA4_h2
    nvA4_f3 (lexableSupport_of_check (by decide +kernel) _)
  exact ⟨s, a', h1, h2, h3, h5⟩

example : ∃ s a', aToExpr 2 nvD = (.ok s, nvD) ∧ aAddExpr s 3 nvD = (.ok (-4), a') ∧
    a'.handles[(3 : Nat)]? = some (-4) ∧ AInv false a' := by
  obtain ⟨s, a', h1, h2, h3, -, h5, -⟩ := C05_autoref_addExpr_toExpr nvD nvD_inv (fun _ => by decide +kernel) 2 3 (-4) nvD_h2
    nvD_f3 (lexableSupport_of_check (by decide +kernel) _)
  exact ⟨s, a', h1, h2, h3, h5⟩

end DD
