import DD.ParseDriver
import DD.DumpDriver
open DD

/-- driver of the C09 check of slice "dynexpr": the parser ops (`parse`, `lex`, `add_expr`) go to
the parser driver, everything else to the dump driver (pickle / JSON ops), which delegates the
core protocol to `DD.stepLine` -/
def stepLineDynexpr (ms : Mgrs) (line : String) : Mgrs × String :=
  match line.splitOn "\t" with
  | _ :: op :: _ =>
    if op == "parse" || op == "lex" || op == "add_expr" then stepLineParse ms line
    else stepLineDump ms line
  | _ => stepLineDump ms line

partial def loop (h : IO.FS.Stream) (out : IO.FS.Stream) (ms : Mgrs) : IO Unit := do
  let line ← h.getLine
  if line.isEmpty then return ()
  let line := if line.endsWith "\n" then (line.dropEnd 1).toString else line
  let (ms', o) := stepLineDynexpr ms line
  out.putStrLn o
  loop h out ms'

def main : IO Unit := do
  let stdin ← IO.getStdin
  let stdout ← IO.getStdout
  loop stdin stdout {}
  stdout.flush
