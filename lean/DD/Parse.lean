/-
  DD.Parse — model of `dd/_parser.py` (PLY lexer + LALR(1) grammar + `_Translator`)
  and of `BDD.add_expr`.

  * `tokenize` mirrors the lexer: rule order of the PLY master regex (NAME first,
    comments before `(`, longest operator spelling from `Gen.spellings`), reserved
    words from `Gen.reserved`, `t_ignore` = space/tab, newlines skipped; an illegal
    character yields `Tok.bad` (the lexer raises when the parser asks for that token).
  * `parseE` is a Pratt (precedence climbing) parser parametrised by `Gen.precedence`.
    `_Translator` builds BDD nodes during the LALR reductions; when a syntax error is met
    some reductions have already run.  `parseE` therefore returns, on error, the *forest*
    of sub-formulas that the LALR(1) automaton has completely reduced at that moment
    (lookahead sets of all expression reductions are the FOLLOW set of `expr`:
    binary operators, `)`, `,`, end of input), so that `addExpr` can replay their
    evaluation before raising.
  * `evalAst` evaluates in the order of the reductions (operands left to right, then
    the operator).
-/
import DD.Apply
import Generated.Tables
open Std

namespace DD

/-! ### tokens -/

/-- binary operator tokens, one per (token type, canonical value) -/
inductive BinOp
  | equiv | implies | minus | xorHash | xorCaret | or | and | equals
deriving Repr, DecidableEq, Inhabited

/-- PLY token type -/
def BinOp.type : BinOp → String
  | .equiv => "EQUIV" | .implies => "IMPLIES" | .minus => "MINUS"
  | .xorHash => "XOR" | .xorCaret => "XOR" | .or => "OR" | .and => "AND" | .equals => "EQUALS"

/-- the token value set by the lexer function: this is what reaches `BDD.apply` -/
def BinOp.value : BinOp → String
  | .equiv => "<->" | .implies => "=>" | .minus => "-"
  | .xorHash => "#" | .xorCaret => "^" | .or => "|" | .and => "&" | .equals => "="

def BinOp.all : List BinOp := [.equiv, .implies, .minus, .xorHash, .xorCaret, .or, .and, .equals]

inductive Tok
  | lparen | rparen | comma | colon | div | at | not
  | forall_ | exists_ | rename | ite | tt | ff
  | op (o : BinOp)
  | name (s : String)
  | number (digits : String)
  | bad
deriving Repr, DecidableEq, Inhabited

/-- position of a token type in the precedence table (low to high) -/
def precIdxIn : List (Assoc × String) → String → Option Nat
  | [], _ => none
  | (_, t) :: rest, ty => if t = ty then some 0 else (precIdxIn rest ty).map (· + 1)

def precIdx (ty : String) : Nat := (precIdxIn Gen.precedence ty).getD 0

/-- binding power of a binary operator: its row in `Gen.precedence` -/
def BinOp.prec (o : BinOp) : Nat := precIdx o.type

/-- precedence of the operand of `NOT expr` -/
def notPrec : Nat := precIdx "NOT"

/-- precedence of the body of `\A \E \S`: just above `:` -/
def bodyPrec : Nat := precIdx "COLON" + 1

/-! ### lexer -/

/-- value of a decimal digit in the sense of `\d` / `int()` (any Unicode Nd run) -/
def digitVal? (c : Char) : Option Nat :=
  (Gen.decimalZeros.find? fun z => z ≤ c.toNat && c.toNat < z + 10).map (c.toNat - ·)

def isDigitU (c : Char) : Bool := (digitVal? c).isSome

def isNameStart (c : Char) : Bool := c.isAlpha || c == '_'
def isNameChar (c : Char) : Bool := c.isAlphanum || c == '_' || c == '\''

/-- `.*` of the trailing comment: up to, not including, the next newline -/
def skipLine : List Char → List Char
  | [] => []
  | c :: cs => if c == '\n' then c :: cs else skipLine cs

/-- `[\s\S]*?\*\)` : the text after the first `*)`, if there is one -/
def closeComment : List Char → Option (List Char)
  | [] => none
  | c :: cs =>
    match c, cs with
    | '*', ')' :: rest => some rest
    | _, _ => closeComment cs

def isPrefixChars : List Char → List Char → Bool
  | [], _ => true
  | _ :: _, [] => false
  | a :: as, b :: bs => a == b && isPrefixChars as bs

/-- token of a row `(type, canonical value)` of `Gen.spellings` -/
def tokOfRow (ty val : String) : Option Tok :=
  match ty, val with
  | "LPAREN", "(" => some .lparen
  | "RPAREN", ")" => some .rparen
  | "COMMA", "," => some .comma
  | "COLON", ":" => some .colon
  | "DIV", "/" => some .div
  | "AT", "@" => some .at
  | "NOT", "!" => some .not
  | "FORALL", "\\A" => some .forall_
  | "EXISTS", "\\E" => some .exists_
  | "RENAME", "\\S" => some .rename
  | "AND", "&" => some (.op .and)
  | "OR", "|" => some (.op .or)
  | "XOR", "#" => some (.op .xorHash)
  | "XOR", "^" => some (.op .xorCaret)
  | "IMPLIES", "=>" => some (.op .implies)
  | "EQUIV", "<->" => some (.op .equiv)
  | "EQUALS", "=" => some (.op .equals)
  | "MINUS", "-" => some (.op .minus)
  | _, _ => none

/-- longest spelling of the table that is a prefix of the input: `(row, length)` -/
def longestSpelling (cs : List Char) :
    List (String × String × String) → Option ((String × String) × Nat) → Option ((String × String) × Nat)
  | [], best => best
  | (sp, ty, val) :: rest, best =>
    let l := sp.toList
    let best :=
      if isPrefixChars l cs then
        match best with
        | some (_, n) => if n < l.length then some ((ty, val), l.length) else best
        | none => some ((ty, val), l.length)
      else best
    longestSpelling cs rest best

/-- token type of a name: reserved word or NAME -/
def nameTok (s : String) : Tok :=
  match Gen.reserved.lookup s with
  | some "ITE" => .ite
  | some "TRUE" => .tt
  | some "FALSE" => .ff
  | some _ => .bad
  | none => .name s

def tokenizeF : Nat → List Char → List Tok
  | 0, _ => [.bad]
  | _, [] => []
  | f+1, c :: cs =>
    -- `t_ignore`
    if Gen.lexIgnore.toList.contains c then tokenizeF f cs
    -- `t_NAME`
    else if isNameStart c then
      nameTok (String.ofList ((c :: cs).takeWhile isNameChar)) :: tokenizeF f ((c :: cs).dropWhile isNameChar)
    -- `t_trailing_comment`
    else if c == '\\' && cs.head? == some '*' then tokenizeF f (skipLine cs)
    -- `t_newline`
    else if c == '\n' then tokenizeF f cs
    else
      -- `t_doubly_delimited_comment` (tried before LPAREN)
      match (if c == '(' && cs.head? == some '*' then closeComment cs.tail else none) with
      | some rest => tokenizeF f rest
      | none =>
        match longestSpelling (c :: cs) Gen.spellings none with
        | some ((ty, val), n) =>
          match tokOfRow ty val with
          | some t => t :: tokenizeF f ((c :: cs).drop n)
          | none => [.bad]
        | none =>
          -- `t_NUMBER`
          if isDigitU c then
            .number (String.ofList ((c :: cs).takeWhile isDigitU)) :: tokenizeF f ((c :: cs).dropWhile isDigitU)
          else [.bad]

def tokenize (s : String) : List Tok := tokenizeF (s.length + 1) s.toList

/-! ### syntax trees -/

inductive Ast
  | var (name : String)
  | bool (b : Bool)
  | num (neg : Bool) (digits : String)
  | not (e : Ast)
  | bin (o : BinOp) (l r : Ast)
  | ite (a b c : Ast)
  /-- `\A names : body` (`fa = true`) or `\E names : body` -/
  | quant (fa : Bool) (names : List String) (body : Ast)
  /-- `\S new1 / old1, ... : body`; pairs `(new, old)` in the order written -/
  | subst (subs : List (String × String)) (body : Ast)
deriving Repr, DecidableEq, Inhabited

/-! ### parser -/

inductive PErr
  | syntax   -- unexpected token (or illegal character): `RuntimeError`
  | eof      -- unexpected end of input: `p_error(None)` raises `AttributeError`
  | fuel
deriving Repr, DecidableEq, Inhabited

/-- result of a parsing function; on error, the sub-formulas already reduced -/
abbrev PRes (α : Type) := Except (List Ast × PErr) α

/-- no action for the lookahead -/
def errAt (forest : List Ast) : List Tok → PRes α
  | [] => .error (forest, .eof)
  | _ :: _ => .error (forest, .syntax)

/-- tokens of the lookahead set of the reductions to `expr` (besides end of input) -/
def Tok.inFollow : Tok → Bool
  | .op _ => true
  | .rparen => true
  | .comma => true
  | _ => false

def followOk : List Tok → Bool
  | [] => true
  | t :: _ => t.inFollow

/-- an operand is complete: it is reduced iff the lookahead is in the FOLLOW set;
`forest` = the already evaluated parts of the operand -/
def atomDone (a : Ast) (forest : List Ast) (rest : List Tok) : PRes (Ast × List Tok) :=
  if followOk rest then .ok (a, rest) else errAt forest rest

/-- `names : name | names COMMA name`, followed by COLON -/
def parseNames : List Tok → PRes (List String × List Tok)
  | .name x :: .comma :: rest =>
    match parseNames rest with
    | .ok (xs, r) => .ok (x :: xs, r)
    | .error e => .error e
  | .name x :: .colon :: rest => .ok ([x], rest)
  | .name _ :: rest => errAt [] rest
  | toks => errAt [] toks

/-- `subs : sub | subs COMMA sub`, `sub : name DIV name`, followed by COLON -/
def parseSubs : List Tok → PRes (List (String × String) × List Tok)
  | .name new :: .div :: .name old :: .comma :: rest =>
    match parseSubs rest with
    | .ok (xs, r) => .ok ((new, old) :: xs, r)
    | .error e => .error e
  | .name new :: .div :: .name old :: .colon :: rest => .ok ([(new, old)], rest)
  | .name _ :: .div :: .name _ :: rest => errAt [] rest
  | .name _ :: .div :: rest => errAt [] rest
  | .name _ :: rest => errAt [] rest
  | toks => errAt [] toks

/-- sequencing; on error the sub-formulas `pre`, reduced earlier, stay in front of the forest -/
def PRes.bindF (pre : List Ast) (x : PRes α) (k : α → PRes β) : PRes β :=
  match x with
  | .error (fr, e) => .error (pre ++ fr, e)
  | .ok a => k a

/-- `expr` at binding power `p`: a prefix operand, then the operator loop -/
def exprWith (pre : List Tok → PRes (Ast × List Tok))
    (loop : Nat → Ast → List Tok → PRes (Ast × List Tok)) (p : Nat) (toks : List Tok) :
    PRes (Ast × List Tok) :=
  PRes.bindF [] (pre toks) fun ar => loop p ar.1 ar.2

/-- the closing parenthesis of `( e )` -/
def closeParen (e : Ast) : List Tok → PRes (Ast × List Tok)
  | .rparen :: r => atomDone e [e] r
  | r => errAt [e] r

/-- the closing parenthesis of `ite(a, b, c)` -/
def closeIte (a b c : Ast) : List Tok → PRes (Ast × List Tok)
  | .rparen :: r => atomDone (.ite a b c) [a, b, c] r
  | r => errAt [a, b, c] r

/-- a comma between the arguments of `ite`; `done` = arguments already reduced -/
def expectComma (done : List Ast) (k : List Tok → PRes (Ast × List Tok)) : List Tok → PRes (Ast × List Tok)
  | .comma :: r => k r
  | r => errAt done r

mutual
/-- operand: constant, name, `@n`, `~ e`, `( e )`, `ite(e, e, e)`, binder -/
def parsePrefix : Nat → List Tok → PRes (Ast × List Tok)
  | 0, _ => .error ([], .fuel)
  | f+1, toks =>
    match toks with
    | .tt :: rest => atomDone (.bool true) [] rest
    | .ff :: rest => atomDone (.bool false) [] rest
    | .name x :: rest => atomDone (.var x) [] rest
    | .at :: .number d :: rest => atomDone (.num false d) [] rest
    | .at :: .op .minus :: .number d :: rest => atomDone (.num true d) [] rest
    | .at :: .op .minus :: rest => errAt [] rest
    | .at :: rest => errAt [] rest
    | .not :: rest =>
      PRes.bindF [] (exprWith (fun t => parsePrefix f t) (fun p a t => parseLoop f p a t) notPrec rest)
        fun er => .ok (.not er.1, er.2)
    | .lparen :: rest =>
      PRes.bindF [] (exprWith (fun t => parsePrefix f t) (fun p a t => parseLoop f p a t) 0 rest)
        fun er => closeParen er.1 er.2
    | .ite :: .lparen :: rest =>
      PRes.bindF [] (exprWith (fun t => parsePrefix f t) (fun p a t => parseLoop f p a t) 0 rest)
        fun ar => expectComma [ar.1] (fun r1 =>
          PRes.bindF [ar.1] (exprWith (fun t => parsePrefix f t) (fun p a t => parseLoop f p a t) 0 r1)
            fun br => expectComma [ar.1, br.1] (fun r2 =>
              PRes.bindF [ar.1, br.1] (exprWith (fun t => parsePrefix f t) (fun p a t => parseLoop f p a t) 0 r2)
                fun cr => closeIte ar.1 br.1 cr.1 cr.2) br.2) ar.2
    | .ite :: rest => errAt [] rest
    | .forall_ :: rest =>
      PRes.bindF [] (parseNames rest) fun nr =>
        PRes.bindF [] (exprWith (fun t => parsePrefix f t) (fun p a t => parseLoop f p a t) bodyPrec nr.2)
          fun er => .ok (.quant true nr.1 er.1, er.2)
    | .exists_ :: rest =>
      PRes.bindF [] (parseNames rest) fun nr =>
        PRes.bindF [] (exprWith (fun t => parsePrefix f t) (fun p a t => parseLoop f p a t) bodyPrec nr.2)
          fun er => .ok (.quant false nr.1 er.1, er.2)
    | .rename :: rest =>
      PRes.bindF [] (parseSubs rest) fun sr =>
        PRes.bindF [] (exprWith (fun t => parsePrefix f t) (fun p a t => parseLoop f p a t) bodyPrec sr.2)
          fun er => .ok (.subst sr.1 er.1, er.2)
    | toks => errAt [] toks

/-- operator loop: absorb `op rhs` while `op` binds at least as tightly as `p`;
left associative: the right operand is parsed at `prec op + 1` -/
def parseLoop : Nat → Nat → Ast → List Tok → PRes (Ast × List Tok)
  | 0, _, _, _ => .error ([], .fuel)
  | f+1, p, lhs, toks =>
    match toks with
    | .op o :: rest =>
      if p ≤ o.prec then
        PRes.bindF [lhs] (exprWith (fun t => parsePrefix f t) (fun p a t => parseLoop f p a t) (o.prec + 1) rest)
          fun rr => parseLoop f p (.bin o lhs rr.1) rr.2
      else .ok (lhs, toks)
    | _ => .ok (lhs, toks)
end

/-- `expr` at binding power `p` -/
def parseExpr (f p : Nat) (toks : List Tok) : PRes (Ast × List Tok) :=
  exprWith (fun t => parsePrefix f t) (fun p a t => parseLoop f p a t) p toks

/-- the whole input must be one `expr` -/
def parseE (toks : List Tok) : PRes Ast :=
  match parseExpr (toks.length + 1) 0 toks with
  | .error e => .error e
  | .ok (t, []) => .ok t
  | .ok (t, r) => errAt [t] r

/-- the syntax tree of a token string, if it is a formula -/
def parse (toks : List Tok) : Option Ast :=
  match parseE toks with
  | .ok t => some t
  | .error _ => none

/-! ### canonical text of a syntax tree (same format as the harness prints
`dd._parser.Parser().parse(formula)`) -/

def Ast.sexp : Ast → String
  | .var x => "var:" ++ x
  | .bool b => if b then "bool:true" else "bool:false"
  | .num neg d => "num:" ++ (if neg then "-" else "") ++ d
  | .not e => "(! " ++ e.sexp ++ ")"
  | .bin o l r => "(" ++ o.value ++ " " ++ l.sexp ++ " " ++ r.sexp ++ ")"
  | .ite a b c => "(ite " ++ a.sexp ++ " " ++ b.sexp ++ " " ++ c.sexp ++ ")"
  | .quant fa ns e =>
    "(" ++ (if fa then "\\A" else "\\E") ++ " [" ++ ",".intercalate ns ++ "] " ++ e.sexp ++ ")"
  | .subst ss e =>
    -- `Operator('\S', expr, subs)`, `subs` = list of `(old, new)`
    "(\\S " ++ e.sexp ++ " [" ++ ",".intercalate (ss.map fun (new, old) => old ++ ">" ++ new) ++ "])"

/-! ### `_Translator` -/

/-- `int(numeric_literal)` for a string of decimal digits -/
def digitsToNat (d : String) : Nat :=
  d.toList.foldl (fun n c => 10 * n + (digitVal? c).getD 0) 0

/-- `BDD._add_int` -/
def addInt (i : Int) : M Int := do
  let m ← M.get
  if !m.mem i then M.throw .value
  return i

/-- evaluation in the order of the reductions of the translator -/
def evalAst : Ast → M Int
  | .var x => var x
  | .bool b => pure (if b then 1 else -1)
  | .num neg d => addInt (if neg then -(digitsToNat d : Int) else (digitsToNat d : Int))
  | .not e => do
    let u ← evalAst e
    apply "!" u none none
  | .bin o l r => do
    let u ← evalAst l
    let v ← evalAst r
    apply o.value u (some v) none
  | .ite a b c => do
    let u ← evalAst a
    let v ← evalAst b
    let w ← evalAst c
    apply "ite" u (some v) (some w)
  | .quant fa ns e => do
    let u ← evalAst e
    quantify u (ns.map Key.name) fa
  | .subst ss e => do
    let u ← evalAst e
    -- `renaming = {old: new}`
    rename u (ss.map fun (new, old) => (old, new))

def evalForest : List Ast → M Unit
  | [] => pure ()
  | t :: ts => do
    let _ ← evalAst t
    evalForest ts

def PErr.toErr : PErr → Err
  | .syntax => .runtime
  | .eof => .other
  | .fuel => .fuel

/-- `_parser.add_expr(expression, bdd)`: nodes are built during the reductions, so the
sub-formulas reduced before a syntax error is detected have been evaluated -/
def addExprToks (toks : List Tok) : M Int :=
  match parseE toks with
  | .ok t => evalAst t
  | .error (forest, e) => do
    evalForest forest
    M.throw e.toErr

/-- `BDD.add_expr` (decorated with `_try_to_reorder`) -/
def addExpr (s : String) : M Int := tryToReorder (addExprToks (tokenize s))

end DD
