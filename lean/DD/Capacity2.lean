/-
  DD.Capacity2 — `BDD.apply` over any `ite` / `quantify` (the text of `DD.apply` with the two
  calls abstracted; `applyG ite quantify = apply`: `DD.applyG_model`), and `apply` of a manager
  with `max_nodes = cap` for the operators that do not quantify: every connective, the ternary
  `ite`, negation go through `self.ite(a, b, c)` with `a, b, c` among `±u, ±v, ±w, ±1`.
  The quantifier aliases call `quantify`, which has no capacity-aware version: `applyCap` runs the
  capacity-free `quantify` there, and no theorem about `applyCap` covers those rows.
-/
import DD.Capacity
import DD.Apply
open Std

namespace DD

def applyG (iteX : Int → Int → Int → M Int) (quantX : Int → List Key → Bool → M Int)
    (op : String) (u : Int) (v w : Option Int) : M Int := fun m =>
  match assertOperatorArity op v w with
  | .error e => (.error e, m)
  | .ok _ =>
    if !m.mem u then (.error .value, m) else
    if optNotMem m v then (.error .value, m) else
    if optNotMem m w then (.error .value, m) else
    match findRow op Gen.applyTable with
    | none => (.error .value, m)
    | some row =>
      match row.templ with
      | .neg => (.ok (-u), m)
      | .ite a b c =>
        match v with
        | none => (.error .value, m)
        | some vv =>
          match (if atomUsesW a || atomUsesW b || atomUsesW c then w else some (w.getD 0)) with
          | none => (.error .value, m)
          | some ww =>
            match atomVal u vv ww a, atomVal u vv ww b, atomVal u vv ww c with
            | .ok a, .ok b, .ok c => iteX a b c m
            | .error e, _, _ => (.error e, m)
            | _, .error e, _ => (.error e, m)
            | _, _, .error e => (.error e, m)
      | .quant fa frm body =>
        match v with
        | none => (.error .value, m)
        | some vv =>
          match atomVal u vv 0 frm, atomVal u vv 0 body with
          | .ok f, .ok b =>
            match support m.tbl f with
            | .error e => (.error e, m)
            | .ok q => quantX b (q.map Key.name) fa m
          | .error e, _ => (.error e, m)
          | _, .error e => (.error e, m)
      | .notImpl => (.error .notImplemented, m)
      | .bad => (.error .other, m)

/-- `BDD.apply` of a manager with `max_nodes = cap` (operators that do not quantify) -/
def applyCap (cap : Nat) : String → Int → Option Int → Option Int → M Int :=
  applyG (iteCap cap) quantify
/-- on the literal `find_or_add` (driver) -/
def applyCapL (cap : Nat) : String → Int → Option Int → Option Int → M Int :=
  applyG (iteCapL cap) quantify

/-- the operator is one of the quantifier aliases of the vocabulary -/
def isQuantOp (op : String) : Bool :=
  match findRow op Gen.applyTable with
  | some row => (match row.templ with | .quant _ _ _ => true | _ => false)
  | none => false

end DD
