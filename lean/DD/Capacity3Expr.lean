/-
  DD.Capacity3Expr — `BDD.add_expr` over any (decorated) `var` / `apply` / `quantify` / `rename`:
  the text of `evalAst`, `evalForest`, `addExprToks`, `addExpr` of DD.Parse with the four calls
  abstracted, and the instance `max_nodes = cap`.
-/
import DD.Capacity3Cube
import DD.Parse
open Std

namespace DD

def evalAstG (varX : String → M Int) (applyX : String → Int → Option Int → Option Int → M Int)
    (quantX : Int → List Key → Bool → M Int) (renameX : Int → List (String × String) → M Int) :
    Ast → M Int
  | .var x => varX x
  | .bool b => pure (if b then 1 else -1)
  | .num neg d => addInt (if neg then -(digitsToNat d : Int) else (digitsToNat d : Int))
  | .not e => do
    let u ← evalAstG varX applyX quantX renameX e
    applyX "!" u none none
  | .bin o l r => do
    let u ← evalAstG varX applyX quantX renameX l
    let v ← evalAstG varX applyX quantX renameX r
    applyX o.value u (some v) none
  | .ite a b c => do
    let u ← evalAstG varX applyX quantX renameX a
    let v ← evalAstG varX applyX quantX renameX b
    let w ← evalAstG varX applyX quantX renameX c
    applyX "ite" u (some v) (some w)
  | .quant fa ns e => do
    let u ← evalAstG varX applyX quantX renameX e
    quantX u (ns.map Key.name) fa
  | .subst ss e => do
    let u ← evalAstG varX applyX quantX renameX e
    renameX u (ss.map fun (new, old) => (old, new))

def evalForestG (ev : Ast → M Int) : List Ast → M Unit
  | [] => pure ()
  | t :: ts => do
    let _ ← ev t
    evalForestG ev ts

def addExprToksG (ev : Ast → M Int) (toks : List Tok) : M Int :=
  match parseE toks with
  | .ok t => ev t
  | .error (forest, e) => do
    evalForestG ev forest
    M.throw e.toErr

def addExprG (ev : Ast → M Int) (s : String) : M Int := tryToReorder (addExprToksG ev (tokenize s))

/-- `BDD.add_expr` of a manager with `max_nodes = cap` -/
def addExprCap (cap : Nat) : String → M Int :=
  addExprG (evalAstG (varCap cap) (applyCapQ cap) (quantifyCap cap) (renameCap cap))
def addExprCapL (cap : Nat) : String → M Int :=
  addExprG (evalAstG (varCapL cap) (applyCapQL cap) (quantifyCapL cap) (renameCapL cap))
def addExprCapO (cap : Nat) : String → M Int :=
  addExprG (evalAstG (varCapO cap) (applyCapQO cap) (quantifyCapO cap) (renameCapO cap))

end DD
