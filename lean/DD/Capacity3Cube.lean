/-
  DD.Capacity3Cube — `BDD.cube(dvars)` over any (decorated) `var` and `apply`, and the instance
  `max_nodes = cap`.
-/
import DD.Capacity3Rename
open Std

namespace DD

def cubeStepG (varX : String → M Int) (applyX : String → Int → Option Int → Option Int → M Int)
    (x : String × Bool) (r : Int) : M (ForInStep Int) := do
  let u ← varX x.1
  let u : Int := if x.2 then u else -u
  let r ← applyX "and" u (some r) none
  pure (ForInStep.yield r)

def cubeBodyG (varX : String → M Int) (applyX : String → Int → Option Int → Option Int → M Int)
    (dvars : List (String × Bool)) : M Int :=
  forIn dvars (1 : Int) (cubeStepG varX applyX) >>= fun r => pure r

def cubeG (varX : String → M Int) (applyX : String → Int → Option Int → Option Int → M Int)
    (dvars : List (String × Bool)) : M Int := tryToReorder (cubeBodyG varX applyX dvars)

/-- `BDD.cube` of a manager with `max_nodes = cap` -/
def cubeCap (cap : Nat) : List (String × Bool) → M Int := cubeG (varCap cap) (applyCapQ cap)
def cubeCapL (cap : Nat) : List (String × Bool) → M Int := cubeG (varCapL cap) (applyCapQL cap)
def cubeCapO (cap : Nat) : List (String × Bool) → M Int := cubeG (varCapO cap) (applyCapQO cap)

end DD
