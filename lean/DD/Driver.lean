/-
  DD.Driver — the line protocol: one operation per line (tab-separated fields),
  one canonical answer per line.  `harness/impl.py` executes the same lines on
  the real `dd` and prints answers in the same format.
-/
import DD.Apply
import DD.MgrCopy
open Std

namespace DD

/-- all managers of a session, addressed by small integers -/
abbrev Mgrs := TreeMap Nat Mgr

/-! ### printing -/

def joinWith (sep : String) (l : List String) : String := sep.intercalate l

def showInts (l : List Int) : String := joinWith "," (l.map toString)
def showNats (l : List Nat) : String := joinWith "," (l.map toString)

def insertSortedStr (a : String) : List String → List String
  | [] => [a]
  | b :: l => if a ≤ b then a :: b :: l else b :: insertSortedStr a l
def sortStr (l : List String) : List String := l.foldr insertSortedStr []

def showBool (b : Bool) : String := if b then "1" else "0"

def cmpTriple (a b : Int × Int × Int) : Bool :=
  a.1 < b.1 || (a.1 = b.1 && (a.2.1 < b.2.1 || (a.2.1 = b.2.1 && a.2.2 ≤ b.2.2)))

def insertSortedBy (le : α → α → Bool) (a : α) : List α → List α
  | [] => [a]
  | b :: l => if le a b then a :: b :: l else b :: insertSortedBy le a l
def sortBy (le : α → α → Bool) (l : List α) : List α := l.foldr (insertSortedBy le) []

/-- canonical dump of the whole manager state (sections separated by `|`) -/
def dumpState (m : Mgr) : String :=
  let vars := joinWith "," ((sortBy (fun (a b : String × Nat) => a.2 ≤ b.2) m.tbl.vars.toList).map fun (v, l) => s!"{v}:{l}")
  let l2v := joinWith "," (m.tbl.l2v.toList.map fun (l, v) => s!"{l}:{v}")
  let succ := joinWith "," (m.tbl.succ.toList.map fun (u, n) => s!"{u}:{n.lvl}:{n.lo}:{n.hi}")
  let ref := joinWith "," (m.ref.toList.map fun (u, c) => s!"{u}:{c}")
  let pred := joinWith "," ((sortBy (fun (a b : Nat × List Int) => a.1 ≤ b.1) (m.pred.toList.map fun (n, u) => (u, n))).map
    fun (u, n) => joinWith ":" (n.map toString) ++ s!">{u}")
  let cache := joinWith "," (m.cache.toList.map
    fun (k, w) => joinWith ":" (k.map toString) ++ s!">{w}")
  let lastLen := match m.lastLen with
    | none => "none"
    | some l => toString l
  s!"vars={vars}|l2v={l2v}|succ={succ}|ref={ref}|min_free={m.minFree}|pred={pred}|cache={cache}|last_len={lastLen}|ctx={showBool m.ctx}|roots={showInts (sortBy (· ≤ ·) m.roots)}"

/-! ### parsing fields -/

def splitOn1 (s : String) (sep : Char) : List String :=
  if s.isEmpty then [] else s.split (· == sep) |>.toList |>.map (·.toString)

def parseInt? (s : String) : Option Int := s.toInt?
def parseNat? (s : String) : Option Nat := s.toNat?

def parseInts (s : String) : Option (List Int) := (splitOn1 s ',').mapM parseInt?

/-- `n:<name>` or `l:<int>` -/
def parseKey (s : String) : Option Key :=
  if s.startsWith "n:" then some (.name (s.drop 2).toString)
  else if s.startsWith "l:" then (parseInt? (s.drop 2).toString).map Key.lvl
  else none

def parseKeys (s : String) : Option (List Key) := (splitOn1 s ',').mapM parseKey

def splitEq (s : String) : Option (String × String) :=
  match s.splitOn "=" with
  | [a, b] => some (a, b)
  | _ => none

def parsePairs (s : String) : Option (List (String × String)) := (splitOn1 s ',').mapM splitEq

def parseBool? (s : String) : Option Bool :=
  if s == "1" then some true else if s == "0" then some false else none

def parseVL (s : String) : Option VarOrLevel :=
  match parseKey s with
  | some (.name n) => some (.name n)
  | some (.lvl i) => some (.level i)
  | none => none

/-- schedule field: `S:` items separated by `;`:
`sift=a,b,c` or `swap=0:3.4/1:5/2:` -/
def parseSched (s : String) : Option (List SchedItem) :=
  (splitOn1 s ';').mapM fun item =>
    match splitEq item with
    | some ("sift", names) => some (.sift (splitOn1 names ','))
    | some ("swap", lv) =>
      ((splitOn1 lv (Char.ofNat 47)).mapM fun (e : String) =>
        match e.splitOn ":" with
        | [l, ns] => do
          let l ← parseNat? l
          let ns ← (splitOn1 ns '.').mapM parseNat?
          pure (l, ns)
        | _ => none).map SchedItem.swap
    | _ => none

/-! ### results -/

inductive DRes
  | int (i : Int)
  | nat (n : Nat)
  | bool (b : Bool)
  | str (s : String)
  | ints (l : List Int)
  | nats (l : List Nat)
  | strs (l : List String)
  | unit
  | pair (a b : Nat)

def DRes.show : DRes → String
  | .int i => toString i
  | .nat n => toString n
  | .bool b => showBool b
  | .str s => s
  | .ints l => showInts l
  | .nats l => showNats l
  | .strs l => joinWith "," l
  | .unit => "-"
  | .pair a b => s!"{a},{b}"

def showOut (r : Except Err DRes) : String :=
  match r with
  | .ok v => "ok " ++ v.show
  | .error e => "err " ++ toString e

def assignmentStr (a : List (String × Bool)) : String :=
  if a.isEmpty then "*" else
  joinWith "&" (sortStr (a.map fun (v, b) => s!"{v}={showBool b}"))

def showGraph (g : List (Nat × Nat) × List (Nat × Nat × Bool × Bool)) : String :=
  let ns := joinWith "," ((sortBy (fun (a b : Nat × Nat) => a.1 ≤ b.1) g.1).map fun (u, l) => s!"{u}@{l}")
  let es := joinWith "," ((sortBy (fun (a b : Nat × Nat × Bool × Bool) => a.1 < b.1 || (a.1 = b.1 && (!a.2.2.1 || b.2.2.1))) g.2).map
    fun (u, v, val, c) => s!"{u}>{v}:{showBool val}:{showBool c}")
  s!"N={ns};E={es}"

/-- the external reference marks of a DOT export: a `ref<u>` node per root `u` with an edge to
`|u|`, complemented when `u < 0` (one edge per occurrence of the root in the given list) -/
def showRoots (roots : List Int) : String :=
  let rs := sortBy (fun (a b : Int) => a ≤ b) roots
  "R=" ++ joinWith "," (rs.map fun u => s!"{u}>{u.natAbs}:{showBool (decide (u < 0))}")

/-- run a model computation on manager `id` -/
def runOn (ms : Mgrs) (id : Nat) (x : M DRes) : Mgrs × Except Err DRes :=
  match ms[id]? with
  | none => (ms, .error .other)
  | some m =>
    let (r, m') := x m
    (ms.insert id m', r)

def pureE (m : Mgr) (x : Except Err DRes) : Except Err DRes × Mgr := (x, m)

def badArgs : Except Err DRes := .error .other

/-- `BDD(levels)` constructor -/
def newMgr (levels : List (String × Int)) : Except Err DRes × Mgr :=
  -- `_assert_valid_ordering`
  let n := levels.length
  let nums := levels.map (·.2)
  let okv := (List.range n).all (fun i => nums.contains (i : Int)) && nums.all (fun k => 0 ≤ k && k < n)
  if !okv then (.error .assertion, {}) else
  let x : M DRes := do
    for (v, l) in levels do
      let _ ← addVar v (some l)
    return .unit
  x {}

/-- interpret one operation on one manager -/
def stepMgr (op : String) (args : List String) : M DRes := do
  let m ← M.get
  match op, args with
  | "declare", [names] => do declare (splitOn1 names ','); return .unit
  | "declare", [] => return .unit
  | "add_var", [name] => return .nat (← addVar name none)
  | "add_var", [name, lvl] =>
    match parseInt? lvl with
    | some l => return .nat (← addVar name (some l))
    | none => M.throw .other
  | "var", [name] => return .int (← var name)
  | "foa", [i, v, w] =>
    match parseInt? i, parseInt? v, parseInt? w with
    | some i, some v, some w => return .int (← findOrAdd i v w)
    | _, _, _ => M.throw .other
  | "ite", [g, u, v] =>
    match parseInt? g, parseInt? u, parseInt? v with
    | some g, some u, some v => return .int (← ite g u v)
    | _, _, _ => M.throw .other
  | "apply", op :: u :: rest =>
    match parseInt? u, rest.mapM parseInt? with
    | some u, some [] => return .int (← apply op u none none)
    | some u, some [v] => return .int (← apply op u (some v) none)
    | some u, some [v, w] => return .int (← apply op u (some v) (some w))
    | _, _ => M.throw .other
  | "cofactor", [u, d] =>
    match parseInt? u, (parsePairs d).bind (fun ps => ps.mapM fun (k, b) => do
        let k ← parseKey k; let b ← parseBool? b; pure (k, b)) with
    | some u, some d => return .int (← cofactor u d)
    | _, _ => M.throw .other
  | "let_b", [u, d] =>
    match parseInt? u, (parsePairs d).bind (fun ps => ps.mapM fun (k, b) => do
        let k ← parseKey k; let b ← parseBool? b; pure (k, b)) with
    | some u, some d => return .int (← letOp (.bools d) u)
    | _, _ => M.throw .other
  | "compose", [u, d] =>
    match parseInt? u, (parsePairs d).bind (fun ps => ps.mapM fun (k, r) => do
        let r ← parseInt? r; pure (k, r)) with
    | some u, some d => return .int (← compose u d)
    | _, _ => M.throw .other
  | "let_r", [u, d] =>
    match parseInt? u, (parsePairs d).bind (fun ps => ps.mapM fun (k, r) => do
        let r ← parseInt? r; pure (k, r)) with
    | some u, some d => return .int (← letOp (.refs d) u)
    | _, _ => M.throw .other
  | "rename", [u, d] =>
    match parseInt? u, parsePairs d with
    | some u, some d => return .int (← rename u d)
    | _, _ => M.throw .other
  | "let_n", [u, d] =>
    match parseInt? u, parsePairs d with
    | some u, some d => return .int (← letOp (.names d) u)
    | _, _ => M.throw .other
  | "quantify", [u, q, fa] =>
    match parseInt? u, parseKeys q, parseBool? fa with
    | some u, some q, some fa => return .int (← quantify u q fa)
    | _, _, _ => M.throw .other
  | "cube", [d] =>
    match (parsePairs d).bind (fun ps => ps.mapM fun (k, b) => do
        let b ← parseBool? b; pure (k, b)) with
    | some d => return .int (← cube d)
    | none => M.throw .other
  | "incref", [u] =>
    match parseInt? u with
    | some u => do incref u; return .unit
    | none => M.throw .other
  | "decref", [u] =>
    match parseInt? u with
    | some u => do decref u; return .unit
    | none => M.throw .other
  | "ref", [u] =>
    match parseInt? u with
    | some u => return .nat (← refOf u)
    | none => M.throw .other
  | "gc", [] => do collectGarbage none; return .unit
  | "gc_roots", [r] =>
    match parseInts r with
    | some r => do collectGarbage (some r); return .unit
    | none => M.throw .other
  | "swap", [a, b] =>
    match parseVL a, parseVL b with
    | some a, some b => do
      let (o, n) ← swap a b false
      return .pair o n
    | _, _ => M.throw .other
  | "reorder", [] => do reorder none; return .unit
  | "reorder", [order] =>
    match (parsePairs order).bind (fun ps => ps.mapM fun (k, l) => do
        let l ← parseInt? l; pure (k, l)) with
    | some o => do reorder (some o); return .unit
    | none => M.throw .other
  | "reorder_pairs", [pairs] =>
    match parsePairs pairs with
    | some p => do reorderToPairs p; return .unit
    | none => M.throw .other
  | "undeclare", [] => return .strs (← undeclareVars [])
  | "undeclare", [names] => return .strs (← undeclareVars (splitOn1 names ','))
  | "support", [u] =>
    match parseInt? u with
    | some u => return .strs (sortStr (← liftE (support m.tbl u)))
    | none => M.throw .other
  | "support_levels", [u] =>
    match parseInt? u with
    | some u => return .nats (← liftE (supportLevels m.tbl u))
    | none => M.throw .other
  | "is_essential", [u, v] =>
    match parseInt? u with
    | some u => return .bool (← liftE (isEssential m.tbl u v))
    | none => M.throw .other
  | "count", [u] =>
    match parseInt? u with
    | some u => return .nat (← liftE (count m.tbl u none))
    | none => M.throw .other
  | "count", [u, n] =>
    match parseInt? u, parseInt? n with
    | some u, some n => return .nat (← liftE (count m.tbl u (some n)))
    | _, _ => M.throw .other
  | "pick_iter", [u] =>
    match parseInt? u with
    | some u => do
      let l ← liftE (pickIter m.tbl u none)
      return .strs (sortStr (l.map assignmentStr))
    | none => M.throw .other
  | "pick_iter", [u, care] =>
    match parseInt? u with
    | some u => do
      let l ← liftE (pickIter m.tbl u (some (splitOn1 care ',')))
      return .strs (sortStr (l.map assignmentStr))
    | none => M.throw .other
  | "descendants", [r] =>
    match parseInts r with
    | some r => return .nats (← liftE (descendants m.tbl r))
    | none => M.throw .other
  | "to_expr", [u] =>
    match parseInt? u with
    | some u => return .str (← liftE (toExpr m.tbl u))
    | none => M.throw .other
  | "len", [] => return .nat m.len
  | "contains", [u] =>
    match parseInt? u with
    | some u => return .bool (m.mem u)
    | none => M.throw .other
  | "succ", [u] =>
    match parseInt? u with
    | some u =>
      if u.natAbs = 1 then return .str s!"{m.nvars},None,None"
      else do
        let n ← M.ofOption .key (m.tbl.succ[u.natAbs]?)
        return .str s!"{n.lvl},{n.lo},{n.hi}"
    | none => M.throw .other
  | "var_at_level", [i] =>
    match parseInt? i with
    | some i => return .str (← varAtLevel i)
    | none => M.throw .other
  | "level_of_var", [v] => return .nat (← levelOfVar v)
  | "image", [t, s, rn, q, fa] =>
    match parseInt? t, parseInt? s, (parsePairs rn).bind (fun ps => ps.mapM fun (a, b) => do
        let a ← parseKey a; let b ← parseKey b; pure (a, b)), parseKeys q, parseBool? fa with
    | some t, some s, some rn, some q, some fa => return .int (← image t s rn q fa)
    | _, _, _, _, _ => M.throw .other
  | "preimage", [t, s, rn, q, fa] =>
    match parseInt? t, parseInt? s, (parsePairs rn).bind (fun ps => ps.mapM fun (a, b) => do
        let a ← parseKey a; let b ← parseKey b; pure (a, b)), parseKeys q, parseBool? fa with
    | some t, some s, some rn, some q, some fa => return .int (← preimage t s rn q fa)
    | _, _, _, _, _ => M.throw .other
  | "configure", [] => return .bool (← configure none)
  | "configure", [b] =>
    match parseBool? b with
    | some b => return .bool (← configure (some b))
    | none => M.throw .other
  | "set_last_len", [n] =>
    if n == "none" then do M.modify (fun m => { m with lastLen := none }); return .unit
    else match parseNat? n with
      | some n => do M.modify (fun m => { m with lastLen := some n }); return .unit
      | none => M.throw .other
  | "fire_in", [k] =>
    match parseNat? k with
    | some k => do M.modify (fun m => { m with fireIn := some k }); return .unit
    | none => M.throw .other
  | "fire_off", [] => do M.modify (fun m => { m with fireIn := none }); return .unit
  | "set_roots", [r] =>
    match parseInts r with
    | some r => do M.modify (fun m => { m with roots := r }); return .unit
    | none => M.throw .other
  | "to_nx", [r] =>
    match parseInts r with
    | some r => return .str (showGraph (← liftE (toNx m.tbl r)))
    | none => M.throw .other
  | "to_nx", [] => return .str (showGraph (← liftE (toNx m.tbl [])))
  | "to_dot", [r] =>
    match parseInts r with
    | some r => return .str (showGraph (← liftE (toDot m.tbl (some r))) ++ ";" ++ showRoots r)
    | none => M.throw .other
  | "to_dot_all", [] => return .str (showGraph (← liftE (toDot m.tbl none)) ++ ";" ++ showRoots [])
  | "state", [] => return .str (dumpState m)
  | _, _ => M.throw .other

/-- one protocol line → new session state and the answer line -/
def stepLine (ms : Mgrs) (line : String) : Mgrs × String :=
  let fields := line.splitOn "\t"
  -- optional trailing schedule field
  let (fields, sched) := match fields.getLast? with
    | some l => if l.startsWith "S:" then (fields.dropLast, parseSched (l.drop 2).toString) else (fields, some [])
    | none => (fields, some [])
  match sched with
  | none => (ms, "err BAD-SCHEDULE")
  | some sched =>
  match fields with
  | "reset" :: _ => ({}, "ok -")
  | id :: "new" :: rest =>
    match parseNat? id, (match rest with
        | [] => some []
        | [lv] => (parsePairs lv).bind (fun ps => ps.mapM fun (k, l) => do
            let l ← parseInt? l; pure (k, l))
        | _ => none) with
    | some id, some lv =>
      let (r, m) := newMgr lv
      match r with
      | .ok _ => (ms.insert id m, "ok -")
      | .error e => (ms, "err " ++ toString e)
    | _, _ => (ms, "err BAD-LINE")
  | id :: "mcopy" :: [dst] =>
    -- `copy.copy(bdd)`: a new manager `dst`
    match parseNat? id, parseNat? dst with
    | some id, some dst =>
      match ms[id]? with
      | some src =>
        match mgrCopy src with
        | .ok b => (ms.insert dst b, "ok -")
        | .error e => (ms, "err " ++ toString e)
      | none => (ms, "err BAD-MGR")
    | _, _ => (ms, "err BAD-LINE")
  | id :: "copy" :: [u, dst] =>
    -- `copy_bdd(u, from, to)`
    match parseNat? id, parseInt? u, parseNat? dst with
    | some id, some u, some dst =>
      if id = dst then (ms, showOut (.ok (.int u))) else
      match ms[id]?, ms[dst]? with
      | some src, some tgt =>
        let (r, tgt') := copyBdd src.tbl u { tgt with sched := sched }
        let left := !tgt'.sched.isEmpty && (match r with | .ok _ => true | .error _ => false)
        (ms.insert dst { tgt' with sched := [] }, showOut (r.map DRes.int) ++ (if left then " SCHED-LEFT" else ""))
      | _, _ => (ms, "err BAD-MGR")
    | _, _, _ => (ms, "err BAD-LINE")
  | id :: op :: args =>
    match parseNat? id with
    | none => (ms, "err BAD-LINE")
    | some id =>
      match ms[id]? with
      | none => (ms, "err BAD-MGR")
      | some m =>
        let (r, m') := stepMgr op args { m with sched := sched }
        let left := !m'.sched.isEmpty && (match r with | .ok _ => true | .error _ => false)
        let m' := { m' with sched := [] }
        (ms.insert id m', showOut r ++ (if left then " SCHED-LEFT" else ""))
  | _ => (ms, "err BAD-LINE")

end DD
