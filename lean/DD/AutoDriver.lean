/-
  DD.AutoDriver — line protocol of the autoref layer (exe `ddvauto`).

  `<mgr> <op> <args…> -> h5 [h6]`   handles are written `h<N>`; ids of new handles
  are chosen by the harness and follow the `->` field.  Answers carry the node
  integer, so that model and implementation can be compared.  Every line whose
  operation does not start with `a_` / `f_` is delegated to `DD.stepLine` and acts
  on the wrapped `dd.bdd.BDD` manager (`autoref.BDD._bdd`).
-/
import DD.Driver
import DD.Auto
import DD.ApiXCopy
open Std

namespace DD

/-- managers of the session and, per manager, its live `Function`s -/
structure ASess where
  ms : Mgrs := {}
  regs : TreeMap Nat (TreeMap Nat Int) := {}

def parseHandle? (s : String) : Option Nat :=
  if s.startsWith "h" then (s.drop 1).toString.toNat? else none

def showHandles (r : TreeMap Nat Int) : String :=
  joinWith "," (r.toList.map fun (h, u) => s!"h{h}:{u}")

def showOptInt : Option Int → String
  | some i => toString i
  | none => "None"

/-- all live handles of the managers other than `id` -/
def foreignOf (s : ASess) (id : Nat) : TreeMap Nat Int :=
  s.regs.foldl (fun acc k r => if k = id then acc else r.foldl (fun acc h u => acc.insert h u) acc) {}

def handleLive (s : ASess) (h : Nat) : Bool :=
  s.regs.any fun _ r => r.contains h

/-- run an autoref operation on manager `id` -/
def runA (s : ASess) (id : Nat) (sched : List SchedItem) (x : AM DRes) : ASess × String :=
  match s.ms[id]? with
  | none => (s, "err BAD-MGR")
  | some m =>
    let a : AMgr := { m := { m with sched := sched }, handles := (s.regs[id]?).getD {}, foreign := foreignOf s id }
    let (r, a') := x a
    let left := !a'.m.sched.isEmpty && (match r with | .ok _ => true | .error _ => false)
    let m' := { a'.m with sched := [] }
    ({ ms := s.ms.insert id m', regs := s.regs.insert id a'.handles },
      showOut r ++ (if left then " SCHED-LEFT" else ""))

def parseKeyBools (d : String) : Option (List (Key × Bool)) :=
  (parsePairs d).bind fun ps => ps.mapM fun (k, b) => do
    let k ← parseKey k; let b ← parseBool? b; pure (k, b)

def parseNameBools (d : String) : Option (List (String × Bool)) :=
  (parsePairs d).bind fun ps => ps.mapM fun (k, b) => do
    let b ← parseBool? b; pure (k, b)

def parseNameHandles (d : String) : Option (List (String × Nat)) :=
  (parsePairs d).bind fun ps => ps.mapM fun (k, h) => do
    let h ← parseHandle? h; pure (k, h)

def parseRename (rn : String) : Option (List (Key × Key)) :=
  (parsePairs rn).bind fun ps => ps.mapM fun (a, b) => do
    let a ← parseKey a; let b ← parseKey b; pure (a, b)

def parseOrder (o : String) : Option (List (String × Int)) :=
  (parsePairs o).bind fun ps => ps.mapM fun (k, l) => do
    let l ← parseInt? l; pure (k, l)

def bad : AM DRes := AM.throw .other

def succStr (r : Nat × Option (Int × Int)) : String :=
  match r with
  | (i, none) => s!"{i},None,None"
  | (i, some (v, w)) => s!"{i},{v},{w}"

/-- one autoref operation on one manager; `outs` = ids for the new handles -/
def stepA (op : String) (args : List String) (outs : List Nat) : AM DRes :=
  match op, args, outs with
  | "a_var", [name], [h] => do return .int (← aVar name h)
  | "a_true", [], [h] => do return .int (← aConst true h)
  | "a_false", [], [h] => do return .int (← aConst false h)
  | "a_apply", op :: rest, [h] =>
    match rest.mapM parseHandle? with
    | some [u] => do return .int (← aApply op u none none h)
    | some [u, v] => do return .int (← aApply op u (some v) none h)
    | some [u, v, w] => do return .int (← aApply op u (some v) (some w) h)
    | _ => bad
  -- `apply(op, u, None, w)`: rejected by the wrapper itself
  | "a_apply_uw", [op, u, w], [h] =>
    match parseHandle? u, parseHandle? w with
    | some u, some w => do return .int (← aApply op u none (some w) h)
    | _, _ => bad
  | "a_ite", [g, u, v], [h] =>
    match parseHandle? g, parseHandle? u, parseHandle? v with
    | some g, some u, some v => do return .int (← aIte g u v h)
    | _, _, _ => bad
  | "a_let_b", u :: rest, [h] =>
    match parseHandle? u, parseKeyBools (rest.headD "") with
    | some u, some d => do
      let (r, al) ← aLet (.bools d) u h
      return .str (toString r ++ (if al then " alias" else ""))
    | _, _ => bad
  | "a_let_r", u :: rest, [h] =>
    match parseHandle? u, parseNameHandles (rest.headD "") with
    | some u, some d => do
      let (r, al) ← aLet (.funs d) u h
      return .str (toString r ++ (if al then " alias" else ""))
    | _, _ => bad
  | "a_let_n", u :: rest, [h] =>
    match parseHandle? u, parsePairs (rest.headD "") with
    | some u, some d => do
      let (r, al) ← aLet (.names d) u h
      return .str (toString r ++ (if al then " alias" else ""))
    | _, _ => bad
  | "a_quantify", [u, q, fa], [h] =>
    match parseHandle? u, parseKeys q, parseBool? fa with
    | some u, some q, some fa => do return .int (← aQuantify u q fa h)
    | _, _, _ => bad
  -- `exist(qvars, u)` / `forall(qvars, u)` delegate to `quantify`
  | "a_exist", [q, u], [h] =>
    match parseHandle? u, parseKeys q with
    | some u, some q => do return .int (← aQuantify u q false h)
    | _, _ => bad
  | "a_forall", [q, u], [h] =>
    match parseHandle? u, parseKeys q with
    | some u, some q => do return .int (← aQuantify u q true h)
    | _, _ => bad
  | "a_cube", d, [h] =>
    match parseNameBools (d.headD "") with
    | some d => do return .int (← aCube d h)
    | none => bad
  | "a_foa", [var, lo, hi], [h] =>
    match parseHandle? lo, parseHandle? hi with
    | some lo, some hi => do return .int (← aFindOrAdd var lo hi h)
    | _, _ => bad
  | "a_add_int", [i], [h] =>
    match parseInt? i with
    | some i => do return .int (← aAddInt i h)
    | none => bad
  | "a_image", [t, s, rn, q, fa], [h] =>
    match parseHandle? t, parseHandle? s, parseRename rn, parseKeys q, parseBool? fa with
    | some t, some s, some rn, some q, some fa => do return .int (← aImage false t s rn q fa h)
    | _, _, _, _, _ => bad
  | "a_preimage", [t, s, rn, q, fa], [h] =>
    match parseHandle? t, parseHandle? s, parseRename rn, parseKeys q, parseBool? fa with
    | some t, some s, some rn, some q, some fa => do return .int (← aImage true t s rn q fa h)
    | _, _, _, _, _ => bad
  | "a_succ", [u], [h1, h2] =>
    match parseHandle? u with
    | some u => do return .str (succStr (← aSucc u h1 h2))
    | none => bad
  | "a_contains", [u], [] =>
    match parseHandle? u with
    | some u => do return .bool (← aContains u)
    | none => bad
  | "a_count", [u], [] =>
    match parseHandle? u with
    | some u => do return .nat (← aCount u none)
    | none => bad
  | "a_count", [u, n], [] =>
    match parseHandle? u, parseInt? n with
    | some u, some n => do return .nat (← aCount u (some n))
    | _, _ => bad
  | "a_support", [u], [] =>
    match parseHandle? u with
    | some u => do return .strs (sortStr (← aSupport u))
    | none => bad
  | "a_support_levels", [u], [] =>
    match parseHandle? u with
    | some u => do return .nats (← aSupportLevels u)
    | none => bad
  | "a_pick_iter", [u], [] =>
    match parseHandle? u with
    | some u => do return .strs (sortStr ((← aPickIter u none).map assignmentStr))
    | none => bad
  | "a_pick_iter", [u, care], [] =>
    match parseHandle? u with
    | some u => do return .strs (sortStr ((← aPickIter u (some (splitOn1 care ','))).map assignmentStr))
    | none => bad
  | "a_to_expr", [u], [] =>
    match parseHandle? u with
    | some u => do return .str (← aToExpr u)
    | none => bad
  | "a_incref", [u], [] =>
    match parseHandle? u with
    | some u => do aIncref u; return .unit
    | none => bad
  | "a_decref", [u], [] =>
    match parseHandle? u with
    | some u => do aDecref u; return .unit
    | none => bad
  | "a_drop", [u], [] =>
    match parseHandle? u with
    | some u => do drop u; return .unit
    | none => bad
  | "a_gc", [], [] => do aCollectGarbage; return .unit
  | "a_reorder", [], [] => do aReorder none; return .unit
  | "a_reorder", [o], [] =>
    match parseOrder o with
    | some o => do aReorder (some o); return .unit
    | none => bad
  | "a_configure", [], [] => do return .bool (← aConfigure none)
  | "a_configure", [b], [] =>
    match parseBool? b with
    | some b => do return .bool (← aConfigure (some b))
    | none => bad
  | "a_declare", [names], [] => do aDeclare (splitOn1 names ','); return .unit
  | "a_declare", [], [] => return .unit
  | "a_add_var", [name], [] => do return .nat (← aAddVar name none)
  | "a_add_var", [name, l], [] =>
    match parseInt? l with
    | some l => do return .nat (← aAddVar name (some l))
    | none => bad
  | "a_len", [], [] => do return .nat (← AM.get).m.len
  | "a_shutdown", [], [] => do AM.liftM shutdown; return .unit
  | "a_copy_bdd_same", [u], [h] =>
    match parseHandle? u with
    | some u => do return .int (← aCopyBddSame u h)
    | none => bad
  | "a_copy_same", [u], [] =>
    match parseHandle? u with
    | some u => do return .str (toString (← aCopySame u) ++ " alias")
    | none => bad
  -- `Function` methods
  | "f_apply", [op, s], [h] =>
    match parseHandle? s with
    | some s => do return .int (← fApply op s none h)
    | none => bad
  | "f_apply", [op, s, o], [h] =>
    match parseHandle? s, parseHandle? o with
    | some s, some o => do return .int (← fApply op s (some o) h)
    | _, _ => bad
  | "f_copy", [s], [h] =>
    match parseHandle? s with
    | some s => do return .int (← fCopy s h)
    | none => bad
  | "f_eq", [s, o], [] =>
    match parseHandle? s, parseHandle? o with
    | some s, some o => do return .bool (← fEq s o)
    | _, _ => bad
  | "f_cmp_other", [op, s, x], [] =>
    match parseHandle? s with
    | some s => do return .bool (← fCmpOther op s (if x == "None" then .none_ else .other))
    | none => bad
  | "f_xor", [s, o], [] =>
    match parseHandle? s, parseHandle? o with
    | some s, some o => do return .int (← fXor s o)
    | _, _ => bad
  | "f_ne", [s, o], [] =>
    match parseHandle? s, parseHandle? o with
    | some s, some o => do return .bool (← fNe s o)
    | _, _ => bad
  | "f_le", [s, o], [] =>
    match parseHandle? s, parseHandle? o with
    | some s, some o => do return .bool (← fLe s o)
    | _, _ => bad
  | "f_lt", [s, o], [] =>
    match parseHandle? s, parseHandle? o with
    | some s, some o => do return .bool (← fLt s o)
    | _, _ => bad
  | "f_low", [s], [h] =>
    match parseHandle? s with
    | some s => do return .str (showOptInt (← fChild false s h))
    | none => bad
  | "f_high", [s], [h] =>
    match parseHandle? s with
    | some s => do return .str (showOptInt (← fChild true s h))
    | none => bad
  | "f_level", [s], [] =>
    match parseHandle? s with
    | some s => do return .nat (← fLevel s)
    | none => bad
  | "f_var", [s], [] =>
    match parseHandle? s with
    | some s => do return .str ((← fVar s).getD "None")
    | none => bad
  | "f_ref", [s], [] =>
    match parseHandle? s with
    | some s => do return .nat (← fRef s)
    | none => bad
  | "f_negated", [s], [] =>
    match parseHandle? s with
    | some s => do return .bool (decide ((← nodeOwn s) < 0))
    | none => bad
  | "f_int", [s], [] =>
    match parseHandle? s with
    | some s => do return .int (← nodeOwn s)
    | none => bad
  | "f_len", [s], [] =>
    match parseHandle? s with
    | some s => do return .nat (← fLen s)
    | none => bad
  | "f_support", [s], [] =>
    match parseHandle? s with
    | some s => do return .strs (sortStr (← fSupport s))
    | none => bad
  | "f_to_expr", [s], [] =>
    match parseHandle? s with
    | some s => do return .str (← fToExpr s)
    | none => bad
  | "a_state", [], [] => do
    let a ← AM.get
    return .str (dumpState a.m ++ "|handles=" ++ showHandles a.handles)
  | _, _, _ => bad

/-- split the fields at `->` -/
def splitOuts (fields : List String) : Option (List String × List Nat) :=
  match fields.span (· != "->") with
  | (pre, []) => some (pre, [])
  | (pre, _ :: outs) => (outs.mapM parseHandle?).map fun o => (pre, o)

def isAutoOp (op : String) : Bool := op.startsWith "a_" || op.startsWith "f_"

/-- operations between two managers: run in the target with the source read-only -/
def runA2 (s : ASess) (src dst : Nat) (x : AMgr → AM DRes) : ASess × String :=
  match s.ms[src]?, s.ms[dst]? with
  | some ms, some md =>
    let asrc : AMgr := { m := ms, handles := (s.regs[src]?).getD {}, foreign := foreignOf s src }
    let adst : AMgr := { m := md, handles := (s.regs[dst]?).getD {}, foreign := foreignOf s dst }
    let (r, a') := x asrc adst
    ({ ms := s.ms.insert dst a'.m, regs := s.regs.insert dst a'.handles }, showOut r)
  | _, _ => (s, "err BAD-MGR")

/-- the source's `_ref` at every `target.var(...)` of a copy, as differences from its value
before the call: `k:d;k:d/…` -/
def showXLog (ref0 : List (Nat × Nat)) (log : List (List (Nat × Nat))) : String :=
  joinWith "/" (log.map fun snap =>
    joinWith ";" (snap.filterMap fun (k, v) =>
      let v0 := (ref0.lookup k).getD 0
      if v = v0 then none else some s!"{k}:{(v : Int) - (v0 : Int)}"))

/-- `dd._copy.copy_bdd` / `copy_bdds_from` between two sessions: the recorded schedule belongs to
the TARGET (the only manager that can reorder during the call); both sessions are written back -/
def runX (s : ASess) (src dst : Nat) (sched : List SchedItem) (withLog : Bool)
    (x : AMgr → AMgr → Except Err DRes × XSt) : ASess × String :=
  match s.ms[src]?, s.ms[dst]? with
  | some ms, some md =>
    let asrc : AMgr := { m := ms, handles := (s.regs[src]?).getD {}, foreign := foreignOf s src }
    let adst : AMgr := { m := { md with sched := sched }, handles := (s.regs[dst]?).getD {},
                         foreign := foreignOf s dst }
    let (r, st) := x asrc adst
    let left := !st.dst.m.sched.isEmpty && (match r with | .ok _ => true | .error _ => false)
    ({ ms := (s.ms.insert src st.src.m).insert dst { st.dst.m with sched := [] },
       regs := (s.regs.insert src st.src.handles).insert dst st.dst.handles },
     showOut r ++ (if withLog && (match r with | .ok _ => true | .error _ => false)
         then " log=" ++ showXLog ms.ref.toList st.log else "")
       ++ (if left then " SCHED-LEFT" else ""))
  | _, _ => (s, "err BAD-MGR")

def showAliased (l : List (Int × Option Nat)) : String :=
  joinWith "," (l.map fun (r, al) => match al with
    | none => toString r
    | some j => s!"{r}@{j}")

def isXCopyOp (op : String) : Bool := op == "a_xcopy" || op == "a_xcopy_from"

/-- `a_xcopy <hu> <dst> [log] -> h`, `a_xcopy_from <hu,hu,…> <dst> [log] -> h h …` -/
def stepXCopy (s : ASess) (id : Nat) (sched : List SchedItem) (op : String) (args : List String)
    (outs : List Nat) : ASess × String :=
  let (args, withLog) := match args.getLast? with
    | some "log" => (args.dropLast, true)
    | _ => (args, false)
  match op, args, outs with
  | "a_xcopy", [u, dst], [h] =>
    match parseHandle? u, parseNat? dst with
    | some u, some dst =>
      if id = dst then (s, "err BAD-LINE") else
      runX s id dst sched withLog fun src d =>
        match aXCopyRun src d u h with
        | (r, st) => (r.map DRes.int, st)
    | _, _ => (s, "err BAD-LINE")
  | "a_xcopy_from", [us, dst], hs =>
    match (splitOn1 us ',').mapM parseHandle?, parseNat? dst with
    | some us, some dst =>
      if id = dst || us.length != hs.length then (s, "err BAD-LINE") else
      runX s id dst sched withLog fun src d =>
        match aXCopyFromRun src d us hs with
        | (r, st) => (r.map fun l => DRes.str (showAliased l), st)
    | _, _ => (s, "err BAD-LINE")
  | _, _, _ => (s, "err BAD-LINE")

def stepLineA (s : ASess) (line : String) : ASess × String :=
  let fields := line.splitOn "\t"
  let (fields, sched) := match fields.getLast? with
    | some l => if l.startsWith "S:" then (fields.dropLast, parseSched (l.drop 2).toString) else (fields, some [])
    | none => (fields, some [])
  match sched, splitOuts fields with
  | none, _ => (s, "err BAD-SCHEDULE")
  | _, none => (s, "err BAD-LINE")
  | some sched, some (fields, outs) =>
  match fields with
  | "reset" :: _ => ({}, "ok -")
  | id :: op :: args =>
    if !isAutoOp op then
      -- an operation on the wrapped manager
      let (ms', o) := stepLine s.ms line
      ({ s with ms := ms' }, o)
    else
    match parseNat? id with
    | none => (s, "err BAD-LINE")
    | some id =>
      if outs.any (handleLive s) || !(decide outs.Nodup) then (s, "err BAD-HANDLE") else
      match op, args, outs with
      | "a_new", rest, [] =>
        match (match rest with
            | [] => some []
            | [lv] => parseOrder lv
            | _ => none) with
        | some lv =>
          let (r, m) := newMgr lv
          match r with
          | .ok _ => ({ ms := s.ms.insert id m, regs := s.regs.insert id {} }, "ok -")
          | .error e => (s, "err " ++ toString e)
        | none => (s, "err BAD-LINE")
      | "a_copy", [u, dst], [h] =>
        match parseHandle? u, parseNat? dst with
        | some u, some dst =>
          if id = dst then runA s id sched (do return .str (toString (← aCopySame u) ++ " alias"))
          else runA2 s id dst fun src => do return .int (← aCopyTo src u h)
        | _, _ => (s, "err BAD-LINE")
      | "a_copy_bdd", [u, dst], [h] =>
        match parseHandle? u, parseNat? dst with
        | some u, some dst =>
          if id = dst then runA s id sched (do return .int (← aCopyBddSame u h))
          else runA2 s id dst fun src => do return .int (← aCopyBddTo src u h)
        | _, _ => (s, "err BAD-LINE")
      | "a_copy_vars", [dst, names], [] =>
        match parseNat? dst with
        | some dst =>
          if id = dst then runA s id sched (do
            let a ← AM.get
            aCopyVars a.m.tbl (splitOn1 names ','); return .unit)
          else runA2 s id dst fun src => do aCopyVars src.m.tbl (splitOn1 names ','); return .unit
        | none => (s, "err BAD-LINE")
      | _, _, _ =>
        if isXCopyOp op then stepXCopy s id sched op args outs else
        runA s id sched (stepA op args outs)
  | _ => (s, "err BAD-LINE")

end DD
