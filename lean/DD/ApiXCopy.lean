/-
  DD.ApiXCopy — `dd._copy.copy_bdd(root, target)` and `dd._copy.copy_bdds_from(roots, target)`
  for `dd.autoref` managers: the copy that goes through the PUBLIC `Function` interface
  (`u.low`, `u.high`, `u.var`, `~u`, `target.var`, `target.ite`, `target.true` / `false`) with a
  memo keyed by `int(_flip(u, u))` — the unsigned source node.

  Two models:
  * `xcopyF` / `xcopyBody` / `xcopyList`: the recursion on bare node numbers, the TARGET table as the
    only state.  It computes what the code computes as long as no collection happens in between
    (targets whose dynamic reordering is not enabled): the statements of C11 about the FUNCTION
    copied (DDProps/Api.lean) are about it.
  * `xcF` / `aXCopyRun` / `aXCopyFromRun`: what `dd.autoref` really does — every intermediate result
    is a `Function` (a handle with its own reference): `low`, `high`, `g`, the memo's values `r`, the
    partial results in the target; `~u`, `u.low`, `u.high` in the SOURCE.  They protect their nodes
    when `target.var` / `target.ite` triggers a reordering (sifting collects garbage), the memo hands
    out the SAME `Function` for the same unsigned node, and the source's counters go up and down
    during the call.  `aXCopyTo` / `aXCopyFrom` (what the drivers run) are defined from it.
-/
import DD.Auto
open Std

namespace DD

/-- `_copy._copy_bdd(u, bdd, cache)`; `src` = the node table of `u.bdd`, the state = the target -/
def xcopyF (src : Tbl) : Nat → Int → HashMap Nat Int → M (Int × HashMap Nat Int)
  | 0, _, _ => fun m => (.error .fuel, m)
  | fu+1, u, cache => fun m =>
    -- `if u == u.bdd.true: return bdd.true` / `if u == u.bdd.false: return bdd.false`
    if u = 1 then (.ok (1, cache), m) else
    if u = -1 then (.ok (-1, cache), m) else
    -- `k = int(_flip(u, u))`; `if k in cache: return _flip(cache[k], u)`
    match cache[u.natAbs]? with
    | some r => (.ok (flip r u, cache), m)
    | none =>
      -- `u.low`, `u.high`: the stored successors of `abs(u.node)`
      match src.succ[u.natAbs]? with
      | none => (.error .key, m)
      | some n =>
        match xcopyF src fu n.lo cache m with
        | (.error e, m1) => (.error e, m1)
        | (.ok (low, cache), m1) =>
          match xcopyF src fu n.hi cache m1 with
          | (.error e, m2) => (.error e, m2)
          | (.ok (high, cache), m2) =>
            -- `g = bdd.var(u.var)` (`u.var` = `var_at_level` in the source)
            match src.l2v[n.lvl]? with
            | none => (.error .value, m2)
            | some name =>
              match var name m2 with
              | (.error e, m3) => (.error e, m3)
              | (.ok g, m3) =>
                -- `r = bdd.ite(g, high, low)`; `cache[k] = r`; `return _flip(r, u)`
                match ite g high low m3 with
                | (.error e, m4) => (.error e, m4)
                | (.ok r, m4) => (.ok (flip r u, cache.insert u.natAbs r), m4)

/-- `copy_bdd(root, target)` with a fresh memo -/
def xcopyBody (src : Tbl) (u : Int) : M Int := fun m =>
  match xcopyF src (src.nvars + 2) u {} m with
  | (.error e, m1) => (.error e, m1)
  | (.ok (r, _), m1) => (.ok r, m1)

/-- `[copy_bdd(u, target, cache) for u in roots]`: one memo for all roots -/
def xcopyList (src : Tbl) : List Int → HashMap Nat Int → M (List Int)
  | [], _ => fun m => (.ok [], m)
  | u :: us, cache => fun m =>
    match xcopyF src (src.nvars + 2) u cache m with
    | (.error e, m1) => (.error e, m1)
    | (.ok (r, cache), m1) =>
      match xcopyList src us cache m1 with
      | (.error e, m2) => (.error e, m2)
      | (.ok rs, m2) => (.ok (r :: rs), m2)

/-! ### the copy as `dd.autoref` runs it: `Function`s in both managers -/

/-- `Function.__del__` of a handle that may already be gone (never raises) -/
def dropQ (h : Nat) : AM Unit := fun a => (.ok (), (drop h a).2)

/-- state of a copy: the source and the target sessions, the memo `cache` (unsigned source node ↦
id of the target `Function` stored for it), and — for the correspondence with the code only — the
source's `_ref` as seen by every call `target.var(...)` -/
structure XSt where
  src : AMgr
  dst : AMgr
  cache : List (Nat × Nat) := []
  log : List (List (Nat × Nat)) := []

def XM (α : Type) := XSt → Except Err α × XSt

namespace XM
@[inline] def pure' (x : α) : XM α := fun st => (.ok x, st)
@[inline] def bind' (x : XM α) (f : α → XM β) : XM β := fun st =>
  match x st with
  | (.ok v, st') => f v st'
  | (.error e, st') => (.error e, st')
instance : Monad XM where
  pure := pure'
  bind := bind'
@[inline] def throw (e : Err) : XM α := fun st => (.error e, st)
@[inline] def get : XM XSt := fun st => (.ok st, st)
/-- an operation of the SOURCE session -/
@[inline] def onSrc (x : AM α) : XM α := fun st =>
  match x st.src with
  | (r, s') => (r, { st with src := s' })
/-- an operation of the TARGET session -/
@[inline] def onDst (x : AM α) : XM α := fun st =>
  match x st.dst with
  | (r, d') => (r, { st with dst := d' })
/-- a new `Function` of the SOURCE made by `x` (its id: one that is not in use); the id is the
answer -/
@[inline] def newSrc (x : Nat → AM α) : XM Nat := fun st =>
  match freshH st.src with
  | (.error e, _) => (.error e, st)
  | (.ok t, _) =>
    match x t st.src with
    | (.ok _, s') => (.ok t, { st with src := s' })
    | (.error e, s') => (.error e, { st with src := s' })
/-- a new `Function` of the TARGET made by `x` -/
@[inline] def newDst (x : Nat → AM α) : XM Nat := fun st =>
  match freshH st.dst with
  | (.error e, _) => (.error e, st)
  | (.ok t, _) =>
    match x t st.dst with
    | (.ok _, d') => (.ok t, { st with dst := d' })
    | (.error e, d') => (.error e, { st with dst := d' })
@[inline] def memo (k r : Nat) : XM Unit := fun st => (.ok (), { st with cache := (k, r) :: st.cache })
@[inline] def logSrc : XM Unit := fun st => (.ok (), { st with log := st.log ++ [st.src.m.ref.toList] })
end XM

/-- `bdd.true` / `bdd.false`: a new `Function` of the target -/
def xTerm (b : Bool) : XM (Nat × Bool) := do
  let t ← XM.newDst (aConst b)
  pure (t, true)

/-- `_flip(r, u)`: `~ r` (a new `Function`) if `u.negated`, else `r` ITSELF (the memo's object) -/
def xFlip (c : Nat) (neg : Bool) : XM (Nat × Bool) :=
  if neg then do
    let t ← XM.newDst (fApply "not" c none)
    pure (t, true)
  else pure (c, false)

/-- `z = _flip(u, u)`: `~ u` — a new `Function` of the SOURCE that lives as long as the frame — if
`u.negated` -/
def xZ (hu : Nat) (neg : Bool) : XM (Option Nat) :=
  if neg then do
    let z ← XM.newSrc (fApply "not" hu none)
    pure (some z)
  else pure none

def xDropOpt : Option Nat → XM Unit
  | none => pure ()
  | some z => XM.onSrc (dropQ z)

/-- a local of the frame that dies with it: released only when it is its own object (not the
memo's) -/
def xDropIf (owned : Bool) (t : Nat) : XM Unit :=
  if owned then XM.onDst (dropQ t) else pure ()

/-- `u.low` / `u.high`: a new `Function` of the SOURCE on the stored child; it is the argument of
the recursive call and dies when that call returns -/
def xChild (high : Bool) (hu : Nat) : XM Nat := XM.newSrc (fChild high hu)

/-- `_copy._copy_bdd(u, bdd, cache)` over `dd.autoref`: `hu` = the `Function` `u` of the source.
Returns the id of the resulting target `Function` and whether it is a NEW object (`~ r`,
`bdd.true`) or the memo's.  (`u == u.bdd.true`: the temporary constant is created and released
at once, nothing happens in between — not modelled.) -/
def xcF : Nat → Nat → XM (Nat × Bool)
  | 0, _ => XM.throw .fuel
  | fu+1, hu => do
    let u ← XM.onSrc (nodeOwn hu)
    if u = 1 then xTerm true else
    if u = -1 then xTerm false else do
    let hz ← xZ hu (decide (u < 0))
    let st ← XM.get
    match st.cache.lookup u.natAbs with
    | some c => do
      let res ← xFlip c (decide (u < 0))
      xDropOpt hz
      pure res
    | none => do
      let hl ← xChild false hu
      let low ← xcF fu hl
      XM.onSrc (dropQ hl)
      let hh ← xChild true hu
      let high ← xcF fu hh
      XM.onSrc (dropQ hh)
      let name ← XM.onSrc (fVar hu)
      match name with
      | none => XM.throw .value
      | some name => do
        XM.logSrc
        let g ← XM.newDst (aVar name)
        let r ← XM.newDst (aIte g high.1 low.1)
        XM.memo u.natAbs r
        let res ← xFlip r (decide (u < 0))
        -- the frame dies: `z`, `low`, `high`, `g`
        xDropOpt hz
        xDropIf low.2 low.1
        xDropIf high.2 high.1
        XM.onDst (dropQ g)
        pure res

/-- `[copy_bdd(u, target, cache) for u in roots]`: one memo, the partial results stay alive -/
def xcList (fuel : Nat) : List Nat → XM (List (Nat × Bool))
  | [] => pure []
  | hu :: rest => do
    let r ← xcF fuel hu
    let rs ← xcList fuel rest
    pure (r :: rs)

def dropKeys : List Nat → AMgr → AMgr
  | [], a => a
  | k :: ks, a => dropKeys ks (dropQ k a).2

/-- the `Function`s created since `before` -/
def newKeys (before after : AMgr) : List Nat :=
  after.handles.keys.filter fun k => !before.handles.contains k

/-- the call is over (returned or raised, the exception dropped): the memo, the frames and the
list of results are gone — every `Function` created during the call dies, in both managers -/
def xCleanup (src0 dst0 : AMgr) (st : XSt) : XSt :=
  { st with src := dropKeys (newKeys src0 st.src) st.src,
            dst := dropKeys (newKeys dst0 st.dst) st.dst }

/-- `dd._copy.copy_bdd(u, target)`: the whole run.  The result `Function` gets the id `h` (in the
code it is the memo's object or `~ r`; here the internal handle is released and `h` created on the
same node — the same counts). -/
def aXCopyRun (src dst : AMgr) (hu h : Nat) : Except Err Int × XSt :=
  match xcF (src.m.nvars + 2) hu { src := src, dst := dst } with
  | (.error e, st) => (.error e, xCleanup src dst st)
  | (.ok (t, _), st) =>
    match st.dst.handles[t]? with
    | none => (.error .other, xCleanup src dst st)
    | some r =>
      match wrapF h r (xCleanup src dst st).dst with
      | (.ok _, d) => (.ok r, { xCleanup src dst st with dst := d })
      | (.error e, d) => (.error e, { xCleanup src dst st with dst := d })

/-- `dd._copy.copy_bdd(u, target)` for `Function`s, seen from the target -/
def aXCopyTo (src : AMgr) (hu : Nat) (h : Nat) : AM Int := fun dst =>
  match aXCopyRun src dst hu h with
  | (r, st) => (r, st.dst)

/-- the index of the first earlier result that is the SAME `Function` object -/
def aliasOf (ts : List Nat) (i : Nat) : Option Nat :=
  match ts[i]? with
  | none => none
  | some t => match ts.idxOf t with
    | j => if j < i then some j else none

/-- wrap the results that are objects of their own (result `i` gets the id `hs[i]`); an aliased
result gets no id -/
def wrapResults (ts : List Nat) : Nat → List Nat → List Int → AM Unit
  | _, [], _ => pure ()
  | _, _ :: _, [] => pure ()
  | i, h :: hs, r :: rs =>
    (if (aliasOf ts i).isNone then wrapF h r else (pure () : AM Unit)) >>= fun _ =>
      wrapResults ts (i + 1) hs rs

/-- the answer: each node with the index of the earlier result it is the same object as -/
def aliasAnswers (ts : List Nat) : Nat → List Int → List (Int × Option Nat)
  | _, [] => []
  | i, r :: rs => (r, aliasOf ts i) :: aliasAnswers ts (i + 1) rs

/-- `dd._copy.copy_bdds_from(roots, target)`: the whole run; `hs` = the ids for the results.  Answer:
the nodes, and for each result the index of the earlier result it is the same object as -/
def aXCopyFromRun (src dst : AMgr) (hus hs : List Nat) :
    Except Err (List (Int × Option Nat)) × XSt :=
  match xcList (src.m.nvars + 2) hus { src := src, dst := dst } with
  | (.error e, st) => (.error e, xCleanup src dst st)
  | (.ok rs, st) =>
    match (rs.map (·.1)).mapM (fun t => st.dst.handles[t]?) with
    | none => (.error .other, xCleanup src dst st)
    | some nodes =>
      match wrapResults (rs.map (·.1)) 0 hs nodes (xCleanup src dst st).dst with
      | (.ok _, d) => (.ok (aliasAnswers (rs.map (·.1)) 0 nodes), { xCleanup src dst st with dst := d })
      | (.error e, d) => (.error e, { xCleanup src dst st with dst := d })

def aXCopyFrom (src : AMgr) (hus : List Nat) (hs : List Nat) : AM (List (Int × Option Nat)) := fun dst =>
  match aXCopyFromRun src dst hus hs with
  | (r, st) => (r, st.dst)

end DD
