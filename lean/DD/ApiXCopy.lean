/-
  DD.ApiXCopy — `dd._copy.copy_bdd(root, target)` and `dd._copy.copy_bdds_from(roots, target)`
  for `dd.autoref` managers: the copy that goes through the PUBLIC `Function` interface
  (`u.low`, `u.high`, `u.var`, `~u`, `target.var`, `target.ite`, `target.true` / `false`) with a
  memo keyed by `int(_flip(u, u))` — the unsigned source node.

  Every `Function` the recursion creates (in either manager) is a temporary that dies before the
  call returns, except the results; the model therefore works on node numbers and wraps the
  results at the end (no collection can happen in between: stated for targets whose dynamic
  reordering is not enabled).
-/
import DD.Auto
open Std

namespace DD

/-- `_copy._copy_bdd(u, bdd, cache)`; `src` = the node table of `u.bdd`, the state = the target -/
def xcopyF (src : Tbl) : Nat → Int → HashMap Nat Int → M (Int × HashMap Nat Int)
  | 0, _, _ => fun m => (.error .fuel, m)
  | fu+1, u, cache => fun m =>
    -- `if u == u.bdd.true: return bdd.true` / `if u == u.bdd.false: return bdd.false`
    if u = 1 then (.ok (1, cache), m) else
    if u = -1 then (.ok (-1, cache), m) else
    -- `k = int(_flip(u, u))`; `if k in cache: return _flip(cache[k], u)`
    match cache[u.natAbs]? with
    | some r => (.ok (flip r u, cache), m)
    | none =>
      -- `u.low`, `u.high`: the stored successors of `abs(u.node)`
      match src.succ[u.natAbs]? with
      | none => (.error .key, m)
      | some n =>
        match xcopyF src fu n.lo cache m with
        | (.error e, m1) => (.error e, m1)
        | (.ok (low, cache), m1) =>
          match xcopyF src fu n.hi cache m1 with
          | (.error e, m2) => (.error e, m2)
          | (.ok (high, cache), m2) =>
            -- `g = bdd.var(u.var)` (`u.var` = `var_at_level` in the source)
            match src.l2v[n.lvl]? with
            | none => (.error .value, m2)
            | some name =>
              match var name m2 with
              | (.error e, m3) => (.error e, m3)
              | (.ok g, m3) =>
                -- `r = bdd.ite(g, high, low)`; `cache[k] = r`; `return _flip(r, u)`
                match ite g high low m3 with
                | (.error e, m4) => (.error e, m4)
                | (.ok r, m4) => (.ok (flip r u, cache.insert u.natAbs r), m4)

/-- `copy_bdd(root, target)` with a fresh memo -/
def xcopyBody (src : Tbl) (u : Int) : M Int := fun m =>
  match xcopyF src (src.nvars + 2) u {} m with
  | (.error e, m1) => (.error e, m1)
  | (.ok (r, _), m1) => (.ok r, m1)

/-- `[copy_bdd(u, target, cache) for u in roots]`: one memo for all roots -/
def xcopyList (src : Tbl) : List Int → HashMap Nat Int → M (List Int)
  | [], _ => fun m => (.ok [], m)
  | u :: us, cache => fun m =>
    match xcopyF src (src.nvars + 2) u cache m with
    | (.error e, m1) => (.error e, m1)
    | (.ok (r, cache), m1) =>
      match xcopyList src us cache m1 with
      | (.error e, m2) => (.error e, m2)
      | (.ok rs, m2) => (.ok (r :: rs), m2)

/-- `dd._copy.copy_bdd(u, target)` for `Function`s: runs in the target, the source is read -/
def aXCopyTo (src : AMgr) (hu : Nat) (h : Nat) : AM Int := fun dst =>
  match nodeOwn hu src with
  | (.error e, _) => (.error e, dst)
  | (.ok u, _) => wrapResult h (xcopyBody src.m.tbl u) dst

def nodesOwn (src : AMgr) : List Nat → Except Err (List Int)
  | [] => .ok []
  | h :: hs =>
    match nodeOwn h src with
    | (.error e, _) => .error e
    | (.ok u, _) =>
      match nodesOwn src hs with
      | .error e => .error e
      | .ok us => .ok (u :: us)

def wrapAll : List (Nat × Int) → AM Unit
  | [] => pure ()
  | (h, r) :: rest => do wrap h r; wrapAll rest

/-- `dd._copy.copy_bdds_from(roots, target)`; `hs` = the ids of the resulting `Function`s -/
def aXCopyFrom (src : AMgr) (hus : List Nat) (hs : List Nat) : AM (List Int) := fun dst =>
  match nodesOwn src hus with
  | .error e => (.error e, dst)
  | .ok us =>
    (do
      let rs ← AM.liftM (xcopyList src.m.tbl us {})
      wrapAll (hs.zip rs)
      pure rs) dst

end DD
