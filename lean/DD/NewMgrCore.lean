/-
  DD.NewMgrCore — the constructor `BDD(levels)` as a function that does not depend on the line
  protocol: `DD.newMgr` (DD.Driver) is this function with the driver's result type
  (`newMgr_eq_core`, DDProofs.Reach4New).  It exists so that theorems about the constructor can be
  stated without importing the line protocol (the driver's result type is `DD.DRes`, the result
  type of the history vocabulary of DDProofs.Reach is `DD.Res`).
-/
import DD.Ops
open Std

namespace DD

/-- `BDD(levels)`: `_assert_valid_ordering(levels)`, then `add_var(var, level)` for each item of
the dictionary, in its order -/
def newMgrCore (levels : List (String × Int)) : Except Err Unit × Mgr :=
  let n := levels.length
  let nums := levels.map (·.2)
  let okv := (List.range n).all (fun i => nums.contains (i : Int)) && nums.all (fun k => 0 ≤ k && k < n)
  if !okv then (.error .assertion, {}) else
  let x : M Unit := do
    for (v, l) in levels do
      let _ ← addVar v (some l)
    return ()
  x {}

end DD
