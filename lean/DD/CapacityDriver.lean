/-
  DD.CapacityDriver — line protocol of the capacity layer (exe `ddvcap`, root `MainCap.lean`).

  The session state is the managers of `DD.stepLine` plus, per manager, the value of its
  attribute `max_nodes` when it was lowered (absent = `sys.maxsize`, the capacity-free model).
    <id> set_max_nodes <k>|max     `bdd.max_nodes = k`  (`max` = `sys.maxsize`)
    <id> foa i v w                 on a manager with a capacity: `findOrAddCapL` (the LITERAL
    <id> ite g u v                 store / search / delete), `iteCapL`, `varCapL`; the answer is
    <id> var name / apply op u [v [w]]   followed by ` LAYERS-DIFFER` when the abstract layer the
                                   theorems are about (`findOrAddCap`, `iteCap`, `varCap`) gives
                                   another answer or another dump
    <id> swap a b                  on a manager with a capacity: `swapCapL` (finding F22)
    <id> foa_old / ite_old / var_old   the same on the UN-REPAIRED `find_or_add` (before 9f1005b)
    <id> new …, <id> mcopy <dst>   as `DD.stepLine`; a new manager has no capacity, a copy has
                                   the capacity of its source (`bdd.max_nodes = self.max_nodes`)
  Every other line is `DD.stepLine`'s: `max_nodes` is consulted by `_next_free_int` only.
-/
import DD.Capacity
import DD.Capacity2
import DD.Capacity3
import DD.Capacity3Cofactor
import DD.Capacity3Rename
import DD.Capacity3Cube
import DD.Capacity3Expr
import DD.ParseDriver
import DD.Driver
open Std

namespace DD

structure CapSession where
  ms : Mgrs := {}
  caps : TreeMap Nat Nat := {}

/-- run a computation on a manager as `DD.stepLine` does (schedule in, left-over reported) -/
def runCapOn (s : CapSession) (id : Nat) (sched : List SchedItem) (x xAbs : M DRes) : CapSession × String :=
  match s.ms[id]? with
  | none => (s, "err BAD-MGR")
  | some m =>
    let (r, m') := x { m with sched := sched }
    let (ra, ma) := xAbs { m with sched := sched }
    let left := !m'.sched.isEmpty && (match r with | .ok _ => true | .error _ => false)
    let m' := { m' with sched := [] }
    let ma := { ma with sched := [] }
    let same := showOut r == showOut ra && dumpState m' == dumpState ma
      && m'.fireIn == ma.fireIn
    ({ s with ms := s.ms.insert id m' },
      showOut r ++ (if left then " SCHED-LEFT" else "") ++ (if same then "" else " LAYERS-DIFFER"))

def stepLineCap (s : CapSession) (line : String) : CapSession × String :=
  let fields0 := line.splitOn "\t"
  let (fields, sched) := match fields0.getLast? with
    | some l => if l.startsWith "S:" then (fields0.dropLast, parseSched (l.drop 2).toString) else (fields0, some [])
    | none => (fields0, some [])
  let deleg : CapSession × String :=
    let (ms', o) := stepLineParse s.ms line
    ({ s with ms := ms' }, o)
  match sched with
  | none => (s, "err BAD-SCHEDULE")
  | some sched =>
  match fields with
  | "reset" :: _ => ({}, "ok -")
  | [id, "set_max_nodes", k] =>
    match parseNat? id with
    | none => (s, "err BAD-LINE")
    | some id =>
      if !s.ms.contains id then (s, "err BAD-MGR") else
      if k == "max" then ({ s with caps := s.caps.erase id }, "ok -") else
      match parseNat? k with
      | some k => ({ s with caps := s.caps.insert id k }, "ok -")
      | none => (s, "err BAD-LINE")
  | id :: "new" :: _ =>
    let (s', o) := deleg
    match parseNat? id with
    | some id => (if o.startsWith "ok" then { s' with caps := s'.caps.erase id } else s', o)
    | none => (s', o)
  | [id, "mcopy", dst] =>
    let (s', o) := deleg
    match parseNat? id, parseNat? dst with
    | some id, some dst =>
      if o.startsWith "ok" then
        (match s.caps[id]? with
          | some k => { s' with caps := s'.caps.insert dst k }
          | none => { s' with caps := s'.caps.erase dst }, o)
      else (s', o)
    | _, _ => (s', o)
  | [id, "copy", u, dst] =>
    -- `copy_bdd(u, from, to)` into a target whose capacity was lowered
    match parseNat? id, parseInt? u, parseNat? dst with
    | some id, some u, some dst =>
      match s.caps[dst]?, s.ms[id]? with
      | some cap, some src =>
        if id = dst then deleg else
        runCapOn s dst sched (DRes.int <$> copyBddCapL cap src.tbl u) (DRes.int <$> copyBddCap cap src.tbl u)
      | _, _ => deleg
    | _, _, _ => deleg
  | id :: op :: args =>
    match parseNat? id with
    | none => deleg
    | some id =>
      let old := op.endsWith "_old"
      let op' := if old then (op.dropEnd 4).toString else op
      match s.caps[id]? with
      | none => if old then (s, "err NO-CAPACITY") else deleg
      | some cap =>
        match op', args with
        | "foa", [i, v, w] =>
          match parseInt? i, parseInt? v, parseInt? w with
          | some i, some v, some w =>
            if old then runCapOn s id sched (DRes.int <$> findOrAddCapO cap i v w) (DRes.int <$> findOrAddCapO cap i v w)
            else runCapOn s id sched (DRes.int <$> findOrAddCapL cap i v w) (DRes.int <$> findOrAddCap cap i v w)
          | _, _, _ => (s, "err OtherError")
        | "ite", [g, u, v] =>
          match parseInt? g, parseInt? u, parseInt? v with
          | some g, some u, some v =>
            if old then runCapOn s id sched (DRes.int <$> iteCapO cap g u v) (DRes.int <$> iteCapO cap g u v)
            else runCapOn s id sched (DRes.int <$> iteCapL cap g u v) (DRes.int <$> iteCap cap g u v)
          | _, _, _ => (s, "err OtherError")
        | "var", [name] =>
          if old then runCapOn s id sched (DRes.int <$> varCapO cap name) (DRes.int <$> varCapO cap name)
          else runCapOn s id sched (DRes.int <$> varCapL cap name) (DRes.int <$> varCap cap name)
        | "apply", aop :: u :: rest =>
          -- operators that do not quantify go through ONE `self.ite`; the quantifier aliases
          -- call `quantify`, which has no capacity-aware model: refused here, never compared
          if isQuantOp aop then
            (match parseInt? u, rest.mapM parseInt? with
            | some u, some [v] =>
              if old then runCapOn s id sched (DRes.int <$> applyCapQO cap aop u (some v) none) (DRes.int <$> applyCapQO cap aop u (some v) none)
              else runCapOn s id sched (DRes.int <$> applyCapQL cap aop u (some v) none) (DRes.int <$> applyCapQ cap aop u (some v) none)
            | some u, some [] =>
              runCapOn s id sched (DRes.int <$> applyCapQL cap aop u none none) (DRes.int <$> applyCapQ cap aop u none none)
            | some u, some [v, w] =>
              runCapOn s id sched (DRes.int <$> applyCapQL cap aop u (some v) (some w)) (DRes.int <$> applyCapQ cap aop u (some v) (some w))
            | _, _ => (s, "err OtherError")) else
          if old then
            (match parseInt? u, rest.mapM parseInt? with
            | some u, some [] => runCapOn s id sched (DRes.int <$> applyG (iteCapO cap) quantify aop u none none) (DRes.int <$> applyG (iteCapO cap) quantify aop u none none)
            | some u, some [v] => runCapOn s id sched (DRes.int <$> applyG (iteCapO cap) quantify aop u (some v) none) (DRes.int <$> applyG (iteCapO cap) quantify aop u (some v) none)
            | some u, some [v, w] => runCapOn s id sched (DRes.int <$> applyG (iteCapO cap) quantify aop u (some v) (some w)) (DRes.int <$> applyG (iteCapO cap) quantify aop u (some v) (some w))
            | _, _ => (s, "err OtherError")) else
          match parseInt? u, rest.mapM parseInt? with
          | some u, some [] => runCapOn s id sched (DRes.int <$> applyCapL cap aop u none none) (DRes.int <$> applyCap cap aop u none none)
          | some u, some [v] => runCapOn s id sched (DRes.int <$> applyCapL cap aop u (some v) none) (DRes.int <$> applyCap cap aop u (some v) none)
          | some u, some [v, w] => runCapOn s id sched (DRes.int <$> applyCapL cap aop u (some v) (some w)) (DRes.int <$> applyCap cap aop u (some v) (some w))
          | _, _ => (s, "err OtherError")
        | "add_expr", [formula] =>
          if old then runCapOn s id sched (DRes.int <$> addExprCapO cap (unescape formula)) (DRes.int <$> addExprCapO cap (unescape formula))
          else runCapOn s id sched (DRes.int <$> addExprCapL cap (unescape formula)) (DRes.int <$> addExprCap cap (unescape formula))
        | "cube", [d] =>
          match (parsePairs d).bind (fun ps => ps.mapM fun (k, b) => do
              let b ← parseBool? b; pure (k, b)) with
          | some d =>
            if old then runCapOn s id sched (DRes.int <$> cubeCapO cap d) (DRes.int <$> cubeCapO cap d)
            else runCapOn s id sched (DRes.int <$> cubeCapL cap d) (DRes.int <$> cubeCap cap d)
          | none => (s, "err OtherError")
        | "compose", [u, d] =>
          match parseInt? u, (parsePairs d).bind (fun ps => ps.mapM fun (k, r) => do
              let r ← parseInt? r; pure (k, r)) with
          | some u, some d =>
            if old then runCapOn s id sched (DRes.int <$> composeCapO cap u d) (DRes.int <$> composeCapO cap u d)
            else runCapOn s id sched (DRes.int <$> composeCapL cap u d) (DRes.int <$> composeCap cap u d)
          | _, _ => (s, "err OtherError")
        | "let_r", [u, d] =>
          match parseInt? u, (parsePairs d).bind (fun ps => ps.mapM fun (k, r) => do
              let r ← parseInt? r; pure (k, r)) with
          | some u, some d =>
            if old then runCapOn s id sched (DRes.int <$> letRefsG (composeCapO cap) d u) (DRes.int <$> letRefsG (composeCapO cap) d u)
            else runCapOn s id sched (DRes.int <$> letRefsG (composeCapL cap) d u) (DRes.int <$> letRefsG (composeCap cap) d u)
          | _, _ => (s, "err OtherError")
        | "rename", [u, d] =>
          match parseInt? u, parsePairs d with
          | some u, some d =>
            if old then runCapOn s id sched (DRes.int <$> renameCapO cap u d) (DRes.int <$> renameCapO cap u d)
            else runCapOn s id sched (DRes.int <$> renameCapL cap u d) (DRes.int <$> renameCap cap u d)
          | _, _ => (s, "err OtherError")
        | "let_n", [u, d] =>
          match parseInt? u, parsePairs d with
          | some u, some d =>
            if old then runCapOn s id sched (DRes.int <$> letNamesG (renameCapO cap) d u) (DRes.int <$> letNamesG (renameCapO cap) d u)
            else runCapOn s id sched (DRes.int <$> letNamesG (renameCapL cap) d u) (DRes.int <$> letNamesG (renameCap cap) d u)
          | _, _ => (s, "err OtherError")
        | "cofactor", [u, d] =>
          match parseInt? u, (parsePairs d).bind (fun ps => ps.mapM fun (k, b) => do
              let k ← parseKey k; let b ← parseBool? b; pure (k, b)) with
          | some u, some d =>
            if old then runCapOn s id sched (DRes.int <$> cofactorCapO cap u d) (DRes.int <$> cofactorCapO cap u d)
            else runCapOn s id sched (DRes.int <$> cofactorCapL cap u d) (DRes.int <$> cofactorCap cap u d)
          | _, _ => (s, "err OtherError")
        | "let_b", [u, d] =>
          match parseInt? u, (parsePairs d).bind (fun ps => ps.mapM fun (k, b) => do
              let k ← parseKey k; let b ← parseBool? b; pure (k, b)) with
          | some u, some d =>
            if old then runCapOn s id sched (DRes.int <$> letBoolsG (cofactorCapO cap) d u) (DRes.int <$> letBoolsG (cofactorCapO cap) d u)
            else runCapOn s id sched (DRes.int <$> letBoolsG (cofactorCapL cap) d u) (DRes.int <$> letBoolsG (cofactorCap cap) d u)
          | _, _ => (s, "err OtherError")
        | "quantify", [u, q, fa] =>
          match parseInt? u, parseKeys q, parseBool? fa with
          | some u, some q, some fa =>
            if old then runCapOn s id sched (DRes.int <$> quantifyCapO cap u q fa) (DRes.int <$> quantifyCapO cap u q fa)
            else runCapOn s id sched (DRes.int <$> quantifyCapL cap u q fa) (DRes.int <$> quantifyCap cap u q fa)
          | _, _, _ => (s, "err OtherError")
        | "swap", [a, b] =>
          -- `BDD.swap` goes through `find_or_add`: finding F22 (a refusal there leaves the manager
          -- half-swapped); the model with capacity says what exactly is left
          match parseVL a, parseVL b with
          | some a, some b =>
            if old then (s, "err OtherError")
            else runCapOn s id sched ((fun (p : Nat × Nat) => DRes.pair p.1 p.2) <$> swapCapL cap a b false)
              ((fun (p : Nat × Nat) => DRes.pair p.1 p.2) <$> swapCap cap a b false)
          | _, _ => (s, "err OtherError")
        | _, _ => if old then (s, "err OtherError") else deleg
  | _ => deleg

end DD
