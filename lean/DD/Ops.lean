/-
  DD.Ops — substitution, quantification, support/count/pick, variables,
  image/preimage, copy, to_expr: the rest of `dd/bdd.py`.
-/
import DD.Dyn
open Std

namespace DD

/-- keys of user dictionaries / sets: variable names or levels -/
inductive Key
  | name (s : String)
  | lvl (i : Int)
deriving Repr, DecidableEq, Inhabited

/-- `key in self._level_to_var` -/
def keyIsLevel (t : Tbl) : Key → Bool
  | .lvl i => 0 ≤ i && t.l2v.contains i.toNat
  | .name _ => false

/-- `[f(x) for x in l]` where `f` may raise: the first failure wins -/
def mapME (f : α → Except Err β) : List α → Except Err (List β)
  | [] => .ok []
  | a :: l =>
    match f a with
    | .error e => .error e
    | .ok b =>
      match mapME f l with
      | .error e => .error e
      | .ok bs => .ok (b :: bs)

/-- `self.vars[k]` for a key of a user dictionary -/
def keyVarLevel (t : Tbl) : Key → Except Err Nat
  | .name s => match t.vars[s]? with
    | some l => .ok l
    | none => .error .key
  | .lvl _ => .error .key

/-- `_map_to_level(d)` as a function of the table (it only reads `vars` / `_level_to_var`) -/
def mapToLevelE (t : Tbl) (keys : List Key) : Except Err (List Nat) :=
  match keys with
  | [] => .ok []
  | k0 :: _ =>
    let firstIsVar := match k0 with
      | .name s => t.vars.contains s
      | .lvl _ => false
    if !firstIsVar then
      -- `_assert_keys_are_levels`
      if keys.all (keyIsLevel t) then
        .ok (keys.map fun k => match k with
          | .lvl i => i.toNat
          | .name _ => 0)
      else .error .value
    else mapME (keyVarLevel t) keys

/-- `_map_to_level(d)` for the keys of a mapping or set (order = iteration order) -/
def mapToLevel (keys : List Key) : M (List Nat) := fun m => liftE (mapToLevelE m.tbl keys) m

def dedup [BEq α] : List α → List α
  | [] => []
  | a :: l => let r := dedup l; if r.contains a then r else a :: r

def insertSorted (a : Nat) : List Nat → List Nat
  | [] => [a]
  | b :: l => if a ≤ b then a :: b :: l else b :: insertSorted a l

def sortNat (l : List Nat) : List Nat := l.foldr insertSorted []

/-! The recursions below are written without `do` (explicit state passing, like `iteF`) so
that proofs can unfold them; the memo dictionaries are threaded explicitly, with the same keys
as the Python code. -/

/-! ### cofactor -/

/-- `_cofactor(u, j, ordvar, values, cache)`; `ordvar` is the not-yet-skipped suffix -/
def cofactorF (values : List (Nat × Bool)) :
    Nat → Int → List Nat → HashMap Int Int → M (Int × HashMap Int Int)
  | 0, _, _, _ => fun m => (.error .fuel, m)
  | f+1, u, ordvar, cache => fun m =>
    if u.natAbs = 1 then (.ok (u, cache), m) else
    match cache[u]? with
    | some r => (.ok (r, cache), m)
    | none =>
      match m.tbl.succ[u.natAbs]? with
      | none => (.error .key, m)
      | some n =>
        if n.lo = 0 ∨ n.hi = 0 then (.error .assertion, m) else
        let ordvar := ordvar.dropWhile (· < n.lvl)
        if ordvar.isEmpty then (.ok (u, cache), m) else
        match values.lookup n.lvl with
        | some val =>
          match cofactorF values f (if val then n.hi else n.lo) ordvar cache m with
          | (.error e, m1) => (.error e, m1)
          | (.ok (r, cache), m1) =>
            let r := if u < 0 then -r else r
            (.ok (r, cache.insert u r), m1)
        | none =>
          match cofactorF values f n.lo ordvar cache m with
          | (.error e, m1) => (.error e, m1)
          | (.ok (p, cache), m1) =>
            match cofactorF values f n.hi ordvar cache m1 with
            | (.error e, m2) => (.error e, m2)
            | (.ok (q, cache), m2) =>
              match findOrAdd n.lvl p q m2 with
              | (.error e, m3) => (.error e, m3)
              | (.ok r, m3) =>
                let r := if u < 0 then -r else r
                (.ok (r, cache.insert u r), m3)

/-- body of `BDD.cofactor(u, values)` (inside the decorator) -/
def cofactorBody (u : Int) (values : List (Key × Bool)) : M Int := fun m =>
  match mapToLevelE m.tbl (values.map (·.1)) with
  | .error e => (.error e, m)
  | .ok lv =>
    -- a dict: later duplicates of a key overwrite earlier ones
    let lvals := (lv.zip (values.map (·.2))).reverse
    let ordvar := sortNat (dedup lv)
    if !m.mem u then (.error .value, m) else
    match cofactorF lvals (m.nvars + 2) u ordvar {} m with
    | (.error e, m1) => (.error e, m1)
    | (.ok (r, _), m1) => (.ok r, m1)

/-- `BDD.cofactor(u, values)` -/
def cofactor (u : Int) (values : List (Key × Bool)) : M Int :=
  tryToReorder (cofactorBody u values)

/-! ### quantify -/

def quantifyF (qvars : List Nat) (forall_ : Bool) :
    Nat → Int → List Nat → HashMap Int Int → M (Int × HashMap Int Int)
  | 0, _, _, _ => fun m => (.error .fuel, m)
  | f+1, u, ordvar, cache => fun m =>
    if u.natAbs = 1 then (.ok (u, cache), m) else
    match cache[u]? with
    | some r => (.ok (r, cache), m)
    | none =>
      match m.tbl.succ[u.natAbs]? with
      | none => (.error .key, m)
      | some n =>
        if n.lo = 0 ∨ n.hi = 0 then (.error .assertion, m) else
        let v := if u < 0 then -n.lo else n.lo
        let w := if u < 0 then -n.hi else n.hi
        let ordvar := ordvar.dropWhile (· < n.lvl)
        if ordvar.isEmpty then (.ok (u, cache), m) else
        match quantifyF qvars forall_ f v ordvar cache m with
        | (.error e, m1) => (.error e, m1)
        | (.ok (p, cache), m1) =>
          match quantifyF qvars forall_ f w ordvar cache m1 with
          | (.error e, m2) => (.error e, m2)
          | (.ok (q, cache), m2) =>
            match (if qvars.contains n.lvl then
                (if forall_ then ite p q (-1) m2 else ite p 1 q m2)
              else findOrAdd n.lvl p q m2) with
            | (.error e, m3) => (.error e, m3)
            | (.ok r, m3) => (.ok (r, cache.insert u r), m3)

/-- body of `BDD.quantify(u, qvars, forall)` (inside the decorator) -/
def quantifyBody (u : Int) (qvars : List Key) (forall_ : Bool) : M Int := fun m =>
  match mapToLevelE m.tbl qvars with
  | .error e => (.error e, m)
  | .ok lv =>
    let ordvar := sortNat (dedup lv)
    match quantifyF lv forall_ (m.nvars + 2) u ordvar {} m with
    | (.error e, m1) => (.error e, m1)
    | (.ok (r, _), m1) => (.ok r, m1)

/-- `BDD.quantify(u, qvars, forall)` -/
def quantify (u : Int) (qvars : List Key) (forall_ : Bool) : M Int :=
  tryToReorder (quantifyBody u qvars forall_)

/-- `BDD.exist(qvars, u)` -/
def existOp (qvars : List Key) (u : Int) : M Int := quantify u qvars false

/-- `BDD.forall(qvars, u)` -/
def forallOp (qvars : List Key) (u : Int) : M Int := quantify u qvars true

/-! ### compose -/

def composeF (j : Nat) :
    Nat → Int → Int → HashMap (Int × Int) Int → M (Int × HashMap (Int × Int) Int)
  | 0, _, _, _ => fun m => (.error .fuel, m)
  | fu+1, f, g, cache => fun m =>
    if f.natAbs = 1 then (.ok (f, cache), m) else
    match cache[(f, g)]? with
    | some r => (.ok (r, cache), m)
    | none =>
      match m.tbl.succ[f.natAbs]? with
      | none => (.error .key, m)
      | some n =>
        if n.lo = 0 ∨ n.hi = 0 then (.error .assertion, m) else
        if j < n.lvl then (.ok (f, cache), m) else
        if n.lvl = j then
          match ite g n.hi n.lo m with
          | (.error e, m1) => (.error e, m1)
          | (.ok r, m1) =>
            let r := if f < 0 then -r else r
            (.ok (r, cache.insert (f, g) r), m1)
        else
          match m.tbl.levelOf? g with
          | none => (.error .key, m)
          | some k =>
            let z := min n.lvl k
            match topCofactor m.tbl f z, topCofactor m.tbl g z with
            | .error e, _ => (.error e, m)
            | .ok _, .error e => (.error e, m)
            | .ok (f0, f1), .ok (g0, g1) =>
              match composeF j fu f0 g0 cache m with
              | (.error e, m1) => (.error e, m1)
              | (.ok (p, cache), m1) =>
                match composeF j fu f1 g1 cache m1 with
                | (.error e, m2) => (.error e, m2)
                | (.ok (q, cache), m2) =>
                  match findOrAdd z p q m2 with
                  | (.error e, m3) => (.error e, m3)
                  | (.ok r, m3) => (.ok (r, cache.insert (f, g) r), m3)

/-- `g = level_sub.get(i)`, or the node of the variable itself when `g is None` -/
def subOrVar (sub : List (Nat × Int)) (i : Nat) : M Int := fun m =>
  match sub.lookup i with
  | some g => (.ok g, m)
  | none => findOrAdd i (-1) 1 m

def vectorComposeF (sub : List (Nat × Int)) :
    Nat → Int → HashMap Nat Int → M (Int × HashMap Nat Int)
  | 0, _, _ => fun m => (.error .fuel, m)
  | fu+1, f, cache => fun m =>
    if f.natAbs = 1 then (.ok (f, cache), m) else
    match cache[f.natAbs]? with
    | some r =>
      if r = 0 then (.error .assertion, m) else
      (.ok ((if f < 0 then -r else r), cache), m)
    | none =>
      match m.tbl.succ[f.natAbs]? with
      | none => (.error .key, m)
      | some n =>
        if n.lo = 0 ∨ n.hi = 0 then (.error .assertion, m) else
        match vectorComposeF sub fu n.lo cache m with
        | (.error e, m1) => (.error e, m1)
        | (.ok (p, cache), m1) =>
          match vectorComposeF sub fu n.hi cache m1 with
          | (.error e, m2) => (.error e, m2)
          | (.ok (q, cache), m2) =>
            match subOrVar sub n.lvl m2 with
            | (.error e, m3) => (.error e, m3)
            | (.ok g, m3) =>
              match ite g q p m3 with
              | (.error e, m4) => (.error e, m4)
              | (.ok r, m4) =>
                (.ok ((if f < 0 then -r else r), cache.insert f.natAbs r), m4)

/-- `self.level_of_var(var)` on a table -/
def levelOfVarE (t : Tbl) (v : String) : Except Err Nat :=
  match t.vars[v]? with
  | some l => .ok l
  | none => .error .value

/-- one item of `{self.level_of_var(var): g for var, g in var_sub.items()}` -/
def subLevelE (t : Tbl) (vg : String × Int) : Except Err (Nat × Int) :=
  match levelOfVarE t vg.1 with
  | .error e => .error e
  | .ok j => .ok (j, vg.2)

/-- body of `BDD.compose(f, var_sub)` (inside the decorator) -/
def composeBody (f : Int) (varSub : List (String × Int)) : M Int := fun m =>
  match varSub with
  | [(v, g)] =>
    match levelOfVarE m.tbl v with
    | .error e => (.error e, m)
    | .ok j =>
      match composeF j (2 * m.nvars + 4) f g {} m with
      | (.error e, m1) => (.error e, m1)
      | (.ok (r, _), m1) => (.ok r, m1)
  | _ =>
    match mapME (subLevelE m.tbl) varSub with
    | .error e => (.error e, m)
    | .ok sub =>
      match vectorComposeF sub (m.nvars + 2) f {} m with
      | (.error e, m1) => (.error e, m1)
      | (.ok (r, _), m1) => (.ok r, m1)

/-- `BDD.compose(f, var_sub)` -/
def compose (f : Int) (varSub : List (String × Int)) : M Int :=
  tryToReorder (composeBody f varSub)

/-! ### rename / copy -/

/-- `_copy_bdd(u, level_map, old_bdd, bdd, cache)`; `src = none` means `old_bdd is bdd` -/
def copyBddF (src : Option Tbl) (levelMap : List (Nat × Nat)) :
    Nat → Int → HashMap Nat Int → M (Int × HashMap Nat Int)
  | 0, _, _ => fun m => (.error .fuel, m)
  | fu+1, u, cache => fun m =>
    if u.natAbs = 1 then (.ok (u, cache), m) else
    match cache[u.natAbs]? with
    | some r =>
      if ¬ 0 < r then (.error .assertion, m) else
      (.ok ((if u < 0 then -r else r), cache), m)
    | none =>
      match (src.getD m.tbl).succ[u.natAbs]? with
      | none => (.error .key, m)
      | some n =>
        if n.lo = 0 ∨ n.hi = 0 then (.error .assertion, m) else
        match copyBddF src levelMap fu n.lo cache m with
        | (.error e, m1) => (.error e, m1)
        | (.ok (p, cache), m1) =>
          match copyBddF src levelMap fu n.hi cache m1 with
          | (.error e, m2) => (.error e, m2)
          | (.ok (q, cache), m2) =>
            if ¬ 0 < p * n.lo then (.error .assertion, m2) else
            if ¬ 0 < q then (.error .assertion, m2) else
            match levelMap.lookup n.lvl with
            | none => (.error .key, m2)
            | some jnew =>
              match findOrAdd jnew (-1) 1 m2 with
              | (.error e, m3) => (.error e, m3)
              | (.ok g, m3) =>
                match ite g q p m3 with
                | (.error e, m4) => (.error e, m4)
                | (.ok r, m4) =>
                  if ¬ 0 < r then (.error .assertion, m4) else
                  (.ok ((if u < 0 then -r else r), cache.insert u.natAbs r), m4)

/-- the level map of `rename`: `{levels[var]: levels[dvars.get(var, var)] for var in bdd.vars}` -/
def renameMap (t : Tbl) (dvars : List (String × String)) : Except Err (List (Nat × Nat)) :=
  mapME (fun (vl : String × Nat) =>
    match t.vars[(dvars.reverse.lookup vl.1).getD vl.1]? with
    | some l2 => .ok (vl.2, l2)
    | none => .error .key) t.vars.toList

/-- body of the module-level `rename(u, bdd, dvars)` (inside the decorator of `BDD.rename`) -/
def renameBody (u : Int) (dvars : List (String × String)) : M Int := fun m =>
  if !m.mem u then (.error .value, m) else
  if dvars.isEmpty then (.ok u, m) else
  match renameMap m.tbl dvars with
  | .error e => (.error e, m)
  | .ok lm =>
    match copyBddF none lm (m.nvars + 2) u {} m with
    | (.error e, m1) => (.error e, m1)
    | (.ok (r, _), m1) => (.ok r, m1)

/-- module-level `rename(u, bdd, dvars)` wrapped by `BDD.rename` -/
def rename (u : Int) (dvars : List (String × String)) : M Int :=
  tryToReorder (renameBody u dvars)

/-- the level map of `copy_bdd`: by variable name, for the names declared in both managers -/
def copyMap (src tgt : Tbl) : List (Nat × Nat) :=
  src.vars.toList.filterMap fun vl =>
    match tgt.vars[vl.1]? with
    | some l2 => some (vl.2, l2)
    | none => none

/-- body of `_copy_bdd_to(to_bdd, u, from_bdd)` (inside the decorator of the target) -/
def copyBddBody (src : Tbl) (u : Int) : M Int := fun m =>
  match copyBddF (some src) (copyMap src m.tbl) (src.nvars + 2) u {} m with
  | (.error e, m1) => (.error e, m1)
  | (.ok (r, _), m1) => (.ok r, m1)

/-- `copy_bdd(u, from_bdd, to_bdd)` (different managers), run in the target inside its
`_try_to_reorder` -/
def copyBdd (src : Tbl) (u : Int) : M Int := tryToReorder (copyBddBody src u)

/-! ### let -/

inductive LetArg
  | bools (d : List (Key × Bool))
  | refs (d : List (String × Int))
  | names (d : List (String × String))
deriving Inhabited

/-- `BDD.let(definitions, u)` for homogeneous dictionaries -/
def letOp (d : LetArg) (u : Int) : M Int :=
  match d with
  | .bools [] | .refs [] | .names [] => pure u
  | .bools d => cofactor u d
  | .refs d => compose u d
  | .names d => rename u d

/-! ### support, is_essential, descendants -/

def supportF : Nat → Tbl → Int → (List Nat × List Nat) → Except Err (List Nat × List Nat)
  | 0, _, _, _ => .error .fuel
  | f+1, t, u, (levels, nodes) =>
    if levels.length = t.nvars then .ok (levels, nodes) else
    let r := u.natAbs
    if nodes.contains r then .ok (levels, nodes) else
    let nodes := r :: nodes
    if r = 1 then .ok (levels, nodes) else
    match t.succ[r]? with
    | none => .error .key
    | some n =>
      if n.lo = 0 || n.hi = 0 then .error .assertion else
      let levels := if levels.contains n.lvl then levels else n.lvl :: levels
      match supportF f t n.lo (levels, nodes) with
      | .error e => .error e
      | .ok s => supportF f t n.hi s

/-- `support(u, as_levels=True)`, ascending -/
def supportLevels (t : Tbl) (u : Int) : Except Err (List Nat) :=
  match supportF (2 * t.succ.size + 4) t u ([], []) with
  | .error e => .error e
  | .ok (levels, _) => .ok (sortNat levels)

/-- `support(u)`: names, ordered by level -/
def support (t : Tbl) (u : Int) : Except Err (List String) :=
  match supportLevels t u with
  | .error e => .error e
  | .ok ls => ls.mapM fun i => match t.l2v[i]? with
    | some v => .ok v
    | none => .error .value

def isEssentialF : Nat → Tbl → Int → Nat → Except Err Bool
  | 0, _, _, _ => .error .fuel
  | f+1, t, u, i =>
    match (if u.natAbs = 1 then some (t.nvars, (0 : Int), (0 : Int))
           else (t.succ[u.natAbs]?).map fun n => (n.lvl, n.lo, n.hi)) with
    | none => .error .key
    | some (iu, v, w) =>
      if i < iu then .ok false else
      if i = iu then .ok true else
      if v = 0 || w = 0 then .error .assertion else
      match isEssentialF f t v i with
      | .error e => .error e
      | .ok true => .ok true
      | .ok false => isEssentialF f t w i

/-- `is_essential(u, var)` -/
def isEssential (t : Tbl) (u : Int) (var : String) : Except Err Bool :=
  match t.vars[var]? with
  | none => .ok false
  | some i => isEssentialF (t.nvars + 2) t u i

def descendantsF : Nat → Tbl → Int → List Nat → Except Err (List Nat)
  | 0, _, _, _ => .error .fuel
  | f+1, t, u, visited =>
    let r := u.natAbs
    if r = 1 || visited.contains r then .ok visited else
    match t.succ[r]? with
    | none => .error .key
    | some n =>
      if n.lo = 0 || n.hi = 0 then .error .assertion else
      match descendantsF f t n.lo visited with
      | .error e => .error e
      | .ok vis =>
        match descendantsF f t n.hi vis with
        | .error e => .error e
        | .ok vis => .ok (if vis.contains r then vis else r :: vis)

/-- `descendants(roots)`, ascending, terminal included when there is a root -/
def descendants (t : Tbl) (roots : List Int) : Except Err (List Nat) :=
  let rec go : List Int → List Nat → Except Err (List Nat)
    | [], vis => .ok vis
    | u :: rest, vis =>
      let vis := if vis.contains 1 then vis else 1 :: vis
      match descendantsF (t.nvars + 2) t u vis with
      | .error e => .error e
      | .ok vis => go rest vis
  match go roots [] with
  | .error e => .error e
  | .ok vis => .ok (sortNat vis)

/-! ### count -/

/-- `2**e` for a Python int exponent; negative exponents give a float, which the code rejects -/
def pow2 (e : Int) : Except Err Nat :=
  if e < 0 then .error .assertion else .ok (2 ^ e.toNat)

def satLenF (mapLevel : List (Nat × Nat)) (all : Nat) :
    Nat → Tbl → Int → HashMap Nat Nat → Except Err (Nat × HashMap Nat Nat)
  | 0, _, _, _ => .error .fuel
  | f+1, t, u, d =>
    if u = 1 then .ok (1, d) else
    if u = -1 then .ok (0, d) else
    match t.succ[u.natAbs]? with
    | none => .error .key
    | some n =>
      if n.lo = 0 || n.hi = 0 then .error .assertion else
      match mapLevel.lookup n.lvl with
      | none => .error .key
      | some i =>
        let compl (c : Nat) : Except Err Nat :=
          if u < 0 then
            match pow2 ((all : Int) - i) with
            | .error e => .error e
            | .ok p => if p < c then .error .assertion else .ok (p - c)
          else .ok c
        match d[u.natAbs]? with
        | some c => (compl c).map fun c => (c, d)
        | none =>
          match satLenF mapLevel all f t n.lo d with
          | .error e => .error e
          | .ok (nv, d) =>
          match satLenF mapLevel all f t n.hi d with
          | .error e => .error e
          | .ok (nw, d) =>
          match t.levelOf? n.lo, (if n.hi < 0 then none else t.levelOf? n.hi) with
          | some iv, some iw =>
            match mapLevel.lookup iv, mapLevel.lookup iw with
            | some iv, some iw =>
              match pow2 ((iv : Int) - i - 1), pow2 ((iw : Int) - i - 1) with
              | .ok a, .ok b =>
                let c := nv * a + nw * b
                (compl c).map fun c' => (c', d.insert u.natAbs c)
              | _, _ => .error .assertion
            | _, _ => .error .key
          | _, _ => .error .key

/-- `count(u, nvars)` -/
def count (t : Tbl) (u : Int) (nvars : Option Int) : Except Err Nat :=
  if !t.mem u then .error .value else
  match supportLevels t u with
  | .error e => .error e
  | .ok levels =>
    let k := levels.length
    let n : Int := nvars.getD k
    let slack := n - k
    if slack < 0 then .error .value else
    let nn := n.toNat
    let mapLevel := (levels.zipIdx.map fun (old, new) => (old, new + slack.toNat))
    -- `map_level[old] = n` for the terminal's level (overrides)
    let mapLevel := (t.nvars, nn) :: mapLevel.filter (·.1 ≠ t.nvars)
    match satLenF mapLevel nn (t.nvars + 2) t u {} with
    | .error e => .error e
    | .ok (r, _) =>
      match t.levelOf? u with
      | none => .error .key
      | some i =>
        match mapLevel.lookup i with
        | none => .error .key
        | some i => .ok (r * 2 ^ i)

/-! ### pick_iter -/

def satIterF : Nat → Tbl → Int → List (Nat × Bool) → Bool → Except Err (List (List (Nat × Bool)))
  | 0, _, _, _, _ => .error .fuel
  | f+1, t, u, cube, value =>
    let value := if u < 0 then !value else value
    if u.natAbs = 1 then
      .ok (if value then [cube] else [])
    else
      match t.succ[u.natAbs]? with
      | none => .error .key
      | some n =>
        if n.lo = 0 || n.hi = 0 then .error .assertion else
        let d0 := (n.lvl, false) :: cube.filter (·.1 ≠ n.lvl)
        let d1 := (n.lvl, true) :: cube.filter (·.1 ≠ n.lvl)
        match satIterF f t n.lo d0 value with
        | .error e => .error e
        | .ok a =>
          match satIterF f t n.hi d1 value with
          | .error e => .error e
          | .ok b => .ok (a ++ b)

/-- all Boolean vectors for the given bits -/
def allAssignments : List String → List (List (String × Bool))
  | [] => [[]]
  | b :: bs =>
    let r := allAssignments bs
    (r.map fun a => (b, false) :: a) ++ (r.map fun a => (b, true) :: a)

/-- `list(pick_iter(u, care_vars))` (order not significant) -/
def pickIter (t : Tbl) (u : Int) (care : Option (List String)) :
    Except Err (List (List (String × Bool))) :=
  if !t.mem u then .error .value else
  match support t u with
  | .error e => .error e
  | .ok supp =>
    let care := care.getD supp
    match satIterF (t.nvars + 2) t u [] true with
    | .error e => .error e
    | .ok cubes =>
      let named : Except Err (List (List (String × Bool))) := cubes.mapM fun c =>
        c.mapM fun (i, b) => match t.l2v[i]? with
          | some v => .ok (v, b)
          | none => .error .key
      match named with
      | .error e => .error e
      | .ok cubes =>
        .ok (cubes.flatMap fun cube =>
          let bits := (dedup care).filter fun b => !(cube.any (·.1 = b))
          (allAssignments bits).map fun a => a ++ cube)

/-! ### variables -/

/-- `add_var(var, level)` -/
def addVar (var : String) (level : Option Int) : M Nat := do
  let m ← M.get
  match m.tbl.vars[var]? with
  | some vl =>
    -- `_check_var`
    match level with
    | none => return vl
    | some l => if l = vl then return vl else M.throw .value
  | none =>
    -- `_next_free_level`
    let level : Int := level.getD m.nvars
    if level < 0 then M.throw .assertion
    match m.tbl.l2v[level.toNat]? with
    | some _ => M.throw .value
    | none =>
      M.set { m with tbl := { m.tbl with
        vars := m.tbl.vars.insert var level.toNat
        l2v := m.tbl.l2v.insert level.toNat var } }
      return level.toNat

def declare (vars : List String) : M Unit := do
  for v in vars do
    let _ ← addVar v none

/-- `full_levels = {i for i, _, _ in self._succ.values()}`: the levels that carry a node,
and the terminal's level (the terminal is an entry of `_succ`) -/
def undeclNodeLevels (t : Tbl) : List Nat :=
  t.succ.foldl (fun acc _ n => if acc.contains n.lvl then acc else n.lvl :: acc) [t.nvars]

/-- `full_levels |= {level for var, level in self.vars.items() if var not in vrs}` when `vrs`
is not empty -/
def undeclFull (t : Tbl) (vrs : List String) : List Nat :=
  if vrs.isEmpty then undeclNodeLevels t else
    t.vars.foldl (fun acc var l => if vrs.contains var || acc.contains l then acc else l :: acc)
      (undeclNodeLevels t)

/-- `new_levels[i]` where `new_levels = {i: new for new, i in enumerate(i for i in range(n) if
i in full_levels)}`: the number of kept levels below `i`; no entry (KeyError) for a level that
is not kept -/
def undeclNewLevel? (full : List Nat) (n : Nat) (i : Nat) : Option Nat :=
  if i < n && full.contains i then some (((List.range i).filter (full.contains ·)).length) else none

/-- the state after a successful `undeclare_vars` with kept levels `full` -/
def undeclState (m : Mgr) (full : List Nat) : Mgr :=
  let nl := undeclNewLevel? full (1 + m.nvars)
  let vars' : TreeMap String Nat := m.tbl.vars.filterMap fun _ old => nl old
  let l2v' : TreeMap Nat String := vars'.foldl (fun acc var k => acc.insert k var) {}
  let succ' : TreeMap Nat Nd := m.tbl.succ.map fun _ nd => { nd with lvl := (nl nd.lvl).getD 0 }
  let pred' : TreeMap (List Int) Nat := succ'.foldl (fun acc u nd => acc.insert nd.key u) {}
  { m with tbl := { succ := succ', vars := vars', l2v := l2v' }, pred := pred', cache := {} }

/-- `undeclare_vars(*vrs)`; returns the removed names (sorted) -/
def undeclareVars (vrs : List String) : M (List String) := fun m =>
  if vrs.any (fun v => !m.tbl.vars.contains v) then (.error .value, m) else
  let nodeLevels := undeclNodeLevels m.tbl
  if vrs.any (fun v => match m.tbl.vars[v]? with
      | some l => nodeLevels.contains l
      | none => true) then (.error .value, m) else
  let full := undeclFull m.tbl vrs
  let rm := (m.tbl.vars.toList.filter fun (_, l) => !full.contains l).map (·.1)
  -- `new_levels[i]` for the level of a node
  if m.tbl.succ.toList.any (fun p => (undeclNewLevel? full (1 + m.nvars) p.2.lvl).isNone) then
    (.error .key, m)
  else (.ok rm, undeclState m full)

/-! ### image / preimage -/

/-- `_top_cofactor` with a possibly negative level argument -/
def topCofactorI (t : Tbl) (u : Int) (i : Int) : Except Err (Int × Int) :=
  if i < 0 then
    (if u.natAbs = 1 then .ok (u, u) else
      match t.succ[u.natAbs]? with
      | none => .error .key
      | some _ => .ok (u, u))
  else topCofactor t u i.toNat

/-- `umap.get(z, z)` for a renaming that may be `None` -/
def mapLvl (mp : Option (List (Int × Int))) (z : Int) : Int :=
  match mp with
  | none => z
  | some l => (l.lookup z).getD z

/-- `find_or_add(i, -1, 1)` where `i` is not an `int` (a rename target that is an undeclared
name): after the reordering request, `i < 0` is a TypeError -/
def findOrAddNonInt : M Int := fun m =>
  match (if m.ctx then requestReordering m else (.ok (), m)) with
  | (.error e, m1) => (.error e, m1)
  | (.ok _, m1) => (.error .type, m1)

/-- `_image(u, v, umap, vmap, qvars, bdd, forall, cache)`.  A renaming is given by its
`int -> int` items (`umap`, `vmap`) and by the `int` keys whose value is not an `int`
(`ubad`, `vbad`: an undeclared name stays a `str` in the dictionary; looking such a key up ends
in a TypeError). -/
def imageF (umap vmap : Option (List (Int × Int))) (ubad vbad : List Int) (qvars : List Nat)
    (forall_ : Bool) :
    Nat → Int → Int → HashMap (Int × Int) Int → M (Int × HashMap (Int × Int) Int)
  | 0, _, _, _ => fun m => (.error .fuel, m)
  | f+1, u, v, cache => fun m =>
    if u = -1 ∨ v = -1 then (.ok (-1, cache), m) else
    if u = 1 ∧ v = 1 then (.ok (1, cache), m) else
    match cache[(u, v)]? with
    | some w => (.ok (w, cache), m)
    | none =>
      match m.tbl.levelOf? u with
      | none => (.error .key, m)
      | some iu =>
      match m.tbl.levelOf? v with
      | none => (.error .key, m)
      | some jv =>
        -- `iv = vmap.get(jv, jv)`; `min(iu, iv)` with a `str` is a TypeError
        if vbad.contains (jv : Int) then (.error .type, m) else
        let iv : Int := mapLvl vmap jv
        let z : Int := min (iu : Int) iv
        match topCofactorI m.tbl u z with
        | .error e => (.error e, m)
        | .ok (u0, u1) =>
        match topCofactorI m.tbl v ((jv : Int) + z - iv) with
        | .error e => (.error e, m)
        | .ok (v0, v1) =>
          match imageF umap vmap ubad vbad qvars forall_ f u0 v0 cache m with
          | (.error e, m1) => (.error e, m1)
          | (.ok (p, cache), m1) =>
            match imageF umap vmap ubad vbad qvars forall_ f u1 v1 cache m1 with
            | (.error e, m2) => (.error e, m2)
            | (.ok (q, cache), m2) =>
              match (if 0 ≤ z ∧ qvars.contains z.toNat = true then
                  (if forall_ then ite p q (-1) m2 else ite p 1 q m2)
                else
                  match (if ubad.contains z then findOrAddNonInt m2
                      else findOrAdd (mapLvl umap z) (-1) 1 m2) with
                  | (.error e, m3) => (.error e, m3)
                  | (.ok g, m3) => ite g q p m3) with
              | (.error e, m3) => (.error e, m3)
              | (.ok r, m3) => (.ok (r, cache.insert (u, v) r), m3)

/-- `{bdd.vars.get(k, k): bdd.vars.get(v, v) ...}`; undeclared names stay names -/
def resolveRename (t : Tbl) (rn : List (Key × Key)) : List (Key × Key) :=
  let res (k : Key) : Key := match k with
    | .name s => match t.vars[s]? with
      | some l => .lvl l
      | none => .name s
    | .lvl i => .lvl i
  -- dict semantics: a later duplicate key overwrites
  let l := rn.map fun (k, v) => (res k, res v)
  (dedup (l.reverse.map (·.1))).reverse.map fun k => (k, (l.reverse.lookup k).getD k)

/-- the `int -> int` items of the resolved renaming -/
def intPairs (rn : List (Key × Key)) : List (Int × Int) :=
  rn.filterMap fun (k, v) => match k, v with
    | .lvl a, .lvl b => some (a, b)
    | _, _ => none

/-- the `int` keys of the resolved renaming whose value is not an `int` (an undeclared name) -/
def badKeys (rn : List (Key × Key)) : List Int :=
  rn.filterMap fun (k, v) => match k, v with
    | .lvl a, .name _ => some a
    | _, _ => none

/-- the `int` values of the resolved renaming (whatever the key) -/
def renameValues (rn : List (Key × Key)) : List Int :=
  rn.filterMap fun (_, v) => match v with
    | .lvl b => some b
    | .name _ => none

/-- `_assert_no_overlap(d)`: some value is also a key -/
def renameOverlap (rn : List (Key × Key)) : Bool :=
  rn.any fun (_, v) => rn.any (·.1 = v)

/-- the levels of the operands' support that are rename targets and not quantified -/
def imageBadTargets (vals : List Int) (q s1 s2 : List Nat) : List Nat :=
  (s1 ++ s2).filter fun l => !q.contains l && vals.contains (l : Int)

/-- `_all_adjacent(dvars, bdd)`, only its effects: the pairs are visited in dictionary order;
`abs(i - j)` on a name is a TypeError; the visit stops at the first pair that is not adjacent,
whose warning message calls `var_at_level` on both levels -/
def adjacentWarn : List (Key × Key) → M Unit
  | [] => fun m => (.ok (), m)
  | (k, v) :: rest => fun m =>
    match k, v with
    | .lvl a, .lvl b =>
      if (a - b).natAbs = 1 then adjacentWarn rest m else
      match varAtLevel a m with
      | (.error e, m1) => (.error e, m1)
      | (.ok _, m1) =>
        match varAtLevel b m1 with
        | (.error e, m2) => (.error e, m2)
        | (.ok _, m2) => (.ok (), m2)
    | _, _ => (.error .type, m)

/-- `name(k)` of `_image_args_by_name`: `j = bdd.vars.get(k, k)`, then
`level_to_var.get(j, j)`: the variable name where the key resolves to a level, the key itself
otherwise (an undeclared name, an `int` that is not a level) -/
def keyByName (t : Tbl) : Key → Key
  | .name s => match t.vars[s]? with
    | some l => (match t.l2v[l]? with
      | some nm => .name nm
      | none => .lvl l)
    | none => .name s
  | .lvl i =>
    if 0 ≤ i then
      (match t.l2v[i.toNat]? with
      | some nm => .name nm
      | none => .lvl i)
    else .lvl i

/-- `{name(k): name(v) for k, v in rename.items()}` of `_image_args_by_name` (dict semantics: a
later duplicate of a key overwrites, order of first insertion) -/
def renameByName (t : Tbl) (rn : List (Key × Key)) : List (Key × Key) :=
  let l := rn.map fun (k, v) => (keyByName t k, keyByName t v)
  (dedup (l.reverse.map (·.1))).reverse.map fun k => (k, (l.reverse.lookup k).getD k)

/-- `{level_to_var[j] for j in bdd._map_to_level(set(qvars))}` of `_image_args_by_name` -/
def qvarsByName (t : Tbl) (qvars : List Key) : Except Err (List Key) :=
  match mapToLevelE t qvars with
  | .error e => .error e
  | .ok q => mapME (fun j => match t.l2v[j]? with
      | some nm => .ok (Key.name nm)
      | none => .error .key) q

/-- `_image_of(bdd, trans, source, rename, qvars, forall)`: the body that `_try_to_reorder`
decorates (and runs again after a reordering, mapping the names to the new levels) -/
def imageBody (trans source : Int) (rn : List (Key × Key)) (qvars : List Key) (forall_ : Bool) : M Int :=
  fun m =>
  match mapToLevelE m.tbl qvars with
  | .error e => (.error e, m)
  | .ok q =>
    let rn := resolveRename m.tbl rn
    -- `_assert_no_overlap`
    if renameOverlap rn then (.error .assertion, m) else
    match adjacentWarn rn m with
    | (.error e, m1) => (.error e, m1)
    | (.ok _, m1) =>
      match supportLevels m.tbl trans with
      | .error e => (.error e, m1)
      | .ok s1 =>
      match supportLevels m.tbl source with
      | .error e => (.error e, m1)
      | .ok s2 =>
        if !(imageBadTargets (renameValues rn) q s1 s2).isEmpty then (.error .assertion, m1) else
        match imageF (some (intPairs rn)) none (badKeys rn) [] q forall_ (2 * m.nvars + 4)
            trans source {} m1 with
        | (.error e, m2) => (.error e, m2)
        | (.ok (r, _), m2) => (.ok r, m2)

/-- `_assert_valid_rename(u, bdd, dvars)` -/
def assertValidRename (rn : List (Key × Key)) : M Unit := fun m =>
  if rn.isEmpty then (.ok (), m) else
  match varAtLevel 0 m with
  | (.error e, m1) => (.error e, m1)
  | (.ok _, m1) => if renameOverlap rn then (.error .assertion, m1) else (.ok (), m1)

/-- module-level `image(trans, source, rename, qvars, bdd, forall)`: the arguments are turned
into variable NAMES (`_image_args_by_name`: `qvars` first, with the errors of `_map_to_level`),
then the decorated `_image_of` runs -/
def image (trans source : Int) (rn : List (Key × Key)) (qvars : List Key) (forall_ : Bool) : M Int :=
  fun m =>
  match qvarsByName m.tbl qvars with
  | .error e => (.error e, m)
  | .ok qn => tryToReorder (imageBody trans source (renameByName m.tbl rn) qn forall_) m

/-- `_copy_bdd(u, level_map, bdd, bdd, cache)` as `_preimage_of` calls it: inside one manager,
with a level map whose VALUES are whatever the renaming dictionary holds — an `int` (`.lvl`, a
level or not) or an undeclared name (`.name`: `find_or_add` ends in a TypeError after its
reordering request).  With `int` values that are natural numbers this is `copyBddF none`. -/
def copyBddK (levelMap : List (Nat × Key)) :
    Nat → Int → HashMap Nat Int → M (Int × HashMap Nat Int)
  | 0, _, _ => fun m => (.error .fuel, m)
  | fu+1, u, cache => fun m =>
    if u.natAbs = 1 then (.ok (u, cache), m) else
    match cache[u.natAbs]? with
    | some r =>
      if ¬ 0 < r then (.error .assertion, m) else
      (.ok ((if u < 0 then -r else r), cache), m)
    | none =>
      match m.tbl.succ[u.natAbs]? with
      | none => (.error .key, m)
      | some n =>
        if n.lo = 0 ∨ n.hi = 0 then (.error .assertion, m) else
        match copyBddK levelMap fu n.lo cache m with
        | (.error e, m1) => (.error e, m1)
        | (.ok (p, cache), m1) =>
          match copyBddK levelMap fu n.hi cache m1 with
          | (.error e, m2) => (.error e, m2)
          | (.ok (q, cache), m2) =>
            if ¬ 0 < p * n.lo then (.error .assertion, m2) else
            if ¬ 0 < q then (.error .assertion, m2) else
            match levelMap.lookup n.lvl with
            | none => (.error .key, m2)
            | some jnew =>
              match (match jnew with
                  | .lvl i => findOrAdd i (-1) 1 m2
                  | .name _ => findOrAddNonInt m2) with
              | (.error e, m3) => (.error e, m3)
              | (.ok g, m3) =>
                match ite g q p m3 with
                | (.error e, m4) => (.error e, m4)
                | (.ok r, m4) =>
                  if ¬ 0 < r then (.error .assertion, m4) else
                  (.ok ((if u < 0 then -r else r), cache.insert u.natAbs r), m4)

/-- `all(abs(i - j) == 1 for i, j in rename.items() if isinstance(i, int) and isinstance(j, int))` -/
def renameNeighbors (rn : List (Key × Key)) : Bool :=
  (intPairs rn).all fun p => (p.1 - p.2).natAbs == 1

/-- `{j: rename.get(j, j) for j in range(len(bdd.vars))}` -/
def preimageLevelMap (n : Nat) (rn : List (Key × Key)) : List (Nat × Key) :=
  (List.range n).map fun j => (j, (rn.lookup (Key.lvl (j : Int))).getD (Key.lvl (j : Int)))

/-- the branch of `_preimage_of` for partners that are not neighbours (reordering can separate
them): rename the target (`_copy_bdd` with the full level map), conjoin (`bdd.ite(trans, r, -1)`),
quantify (`bdd.quantify`, with `qvars` as levels) — all nested in the decorator's context -/
def preimageFallback (trans target : Int) (rn : List (Key × Key)) (q : List Nat) (forall_ : Bool) :
    M Int := fun m1 =>
  match copyBddK (preimageLevelMap m1.nvars rn) (m1.nvars + 2) target {} m1 with
  | (.error e, m2) => (.error e, m2)
  | (.ok (r, _), m2) =>
    match ite trans r (-1) m2 with
    | (.error e, m3) => (.error e, m3)
    | (.ok r2, m3) => quantify r2 (q.map fun (i : Nat) => Key.lvl (i : Int)) forall_ m3

/-- the test `fused` of `_preimage_of`: every `int` pair adjacent, `len(set(rename.values())) ==
len(rename)`, and no value in `bdd.support(target, as_levels=True)` (evaluated only when the first
two hold: `and` short-circuits; `support` may raise) -/
def preimageFused (t : Tbl) (rn : List (Key × Key)) (target : Int) : Except Err Bool :=
  if !renameNeighbors rn then .ok false else
  if !((dedup (rn.map (·.2))).length == rn.length) then .ok false else
  match supportLevels t target with
  | .error e => .error e
  | .ok s => .ok (s.all fun l => !(rn.map (·.2)).contains (Key.lvl (l : Int)))

/-- `_preimage_of(bdd, trans, target, rename, qvars, forall)`: the decorated body -/
def preimageBody (trans target : Int) (rn : List (Key × Key)) (qvars : List Key) (forall_ : Bool) : M Int :=
  fun m =>
  match mapToLevelE m.tbl qvars with
  | .error e => (.error e, m)
  | .ok q =>
    let rn := resolveRename m.tbl rn
    match assertValidRename rn m with
    | (.error e, m1) => (.error e, m1)
    | (.ok _, m1) =>
      match preimageFused m1.tbl rn target with
      | .error e => (.error e, m1)
      | .ok fused =>
      if fused then
        -- the fused recursion: renames `target` on the fly
        match imageF none (some (intPairs rn)) [] (badKeys rn) q forall_ (2 * m.nvars + 4)
            trans target {} m1 with
        -- every call of `_image` either moves down in `u` or in `v`, or calls itself with the same
        -- pair (a renaming that sends a level below the bottom, or moves the terminal's level):
        -- the fuel `2n + 4` runs out exactly when Python ends in RecursionError (a RuntimeError)
        | (.error e, m2) => (.error (if e = .fuel then .runtime else e), m2)
        | (.ok (r, _), m2) => (.ok r, m2)
      else preimageFallback trans target rn q forall_ m1

/-- module-level `preimage(trans, target, rename, qvars, bdd, forall)` -/
def preimage (trans target : Int) (rn : List (Key × Key)) (qvars : List Key) (forall_ : Bool) : M Int :=
  fun m =>
  match qvarsByName m.tbl qvars with
  | .error e => (.error e, m)
  | .ok qn => tryToReorder (preimageBody trans target (renameByName m.tbl rn) qn forall_) m

/-! ### to_expr -/

def toExprF : Nat → Tbl → Int → HashMap Int String → Except Err (String × HashMap Int String)
  | 0, _, _, _ => .error .fuel
  | f+1, t, u, cache =>
    if u = 1 then .ok ("TRUE", cache) else
    if u = -1 then .ok ("FALSE", cache) else
    match cache[u]? with
    | some s => .ok (s, cache)
    | none =>
      match t.succ[u.natAbs]? with
      | none => .error .key
      | some n =>
        if n.lo = 0 || n.hi = 0 then .error .assertion else
        match t.l2v[n.lvl]? with
        | none => .error .key
        | some var =>
          match toExprF f t n.lo cache with
          | .error e => .error e
          | .ok (p, cache) =>
            match toExprF f t n.hi cache with
            | .error e => .error e
            | .ok (q, cache) =>
              let e := if p == "FALSE" && q == "TRUE" then var else s!"ite({var}, {q}, {p})"
              let e := if u < 0 then s!"(~ {e})" else e
              .ok (e, cache.insert u e)

/-- `to_expr(u)` -/
def toExpr (t : Tbl) (u : Int) : Except Err String :=
  if !t.mem u then .error .value else
  (toExprF (t.nvars + 2) t u {}).map (·.1)

end DD

namespace DD

/-! ### structural views: the abstract graph behind `to_nx` / `_to_dot` -/

/-- nodes `(u, level)` and edges `(src, dst, value, complement)` of the export of `nodes` -/
def graphOf (t : Tbl) (nodes : List Nat) :
    Except Err (List (Nat × Nat) × List (Nat × Nat × Bool × Bool)) :=
  nodes.foldlM (fun (acc : List (Nat × Nat) × List (Nat × Nat × Bool × Bool)) u =>
    if u = 1 then .ok (acc.1 ++ [(1, t.nvars)], acc.2) else
    match t.succ[u]? with
    | none => .error .key
    | some n => .ok (acc.1 ++ [(u, n.lvl)],
        acc.2 ++ [(u, n.lo.natAbs, false, decide (n.lo < 0)), (u, n.hi.natAbs, true, false)])) ([], [])

/-- the `while Q:` loop of `to_nx`: every popped node gets its node entry and its two
edges added (again, if it is a root that is already in the graph: a `MultiDiGraph`) -/
def nxLoop (t : Tbl) : Nat → List Nat → (List (Nat × Nat) × List (Nat × Nat × Bool × Bool)) →
    Except Err (List (Nat × Nat) × List (Nat × Nat × Bool × Bool))
  | _, [], g => .ok g
  | 0, _ :: _, _ => .error .fuel
  | f+1, u :: work, (ns, es) =>
    if u = 1 then
      nxLoop t f work ((if ns.any (·.1 = 1) then ns else ns ++ [(1, t.nvars)]), es)
    else
      match t.succ[u]? with
      | none => .error .key
      | some n =>
        let ns := if ns.any (·.1 = u) then ns else ns ++ [(u, n.lvl)]
        let v := n.lo.natAbs
        let w := n.hi.natAbs
        let work := if ns.any (·.1 = v) then work else pushNew work v
        let work := if ns.any (·.1 = w) then work else pushNew work w
        nxLoop t f work (ns, es ++ [(u, v, false, decide (n.lo < 0)), (u, w, true, false)])

/-- `to_nx(bdd, roots)`; `roots` in iteration order -/
def toNx (t : Tbl) (roots : List Int) :
    Except Err (List (Nat × Nat) × List (Nat × Nat × Bool × Bool)) :=
  roots.foldlM (fun g r =>
    if !t.mem r then .error .value else nxLoop t (t.succ.size + 2) [r.natAbs] g) ([], [])

/-- node/edge content of `_to_dot(roots, bdd)`; `none` = all nodes -/
def toDot (t : Tbl) (roots : Option (List Int)) :
    Except Err (List (Nat × Nat) × List (Nat × Nat × Bool × Bool)) :=
  match roots with
  | none => graphOf t (1 :: t.succ.keys)
  | some rs =>
    match descendants t rs with
    | .error e => .error e
    | .ok ns => if !ns.contains 1 then .error .assertion else graphOf t ns

end DD
