/-
  DD.ParseDriver — protocol ops of the parser slice:
    <id> TAB add_expr TAB <formula>      `BDD.add_expr`
    <id> TAB parse TAB <formula>         canonical text of the syntax tree (no manager needed)
    <id> TAB tokens TAB <formula>        number of tokens / `bad`
  Formula text is percent-escaped (`%25` = `%`, `%0A` newline, `%09` tab, `%0D`, ...).
  Every other line is delegated to `DD.stepLine`.
-/
import DD.Parse
import DD.Driver
open Std

namespace DD

def hexVal (c : Char) : Option Nat :=
  if c.isDigit then some (c.toNat - '0'.toNat)
  else if 'A' ≤ c && c ≤ 'F' then some (c.toNat - 'A'.toNat + 10)
  else if 'a' ≤ c && c ≤ 'f' then some (c.toNat - 'a'.toNat + 10)
  else none

def unescapeChars : List Char → List Char
  | '%' :: a :: b :: rest =>
    match hexVal a, hexVal b with
    | some x, some y => Char.ofNat (16 * x + y) :: unescapeChars rest
    | _, _ => '%' :: unescapeChars (a :: b :: rest)
  | c :: rest => c :: unescapeChars rest
  | [] => []

def unescape (s : String) : String := String.ofList (unescapeChars s.toList)

def Tok.show : Tok → String
  | .lparen => "LPAREN:(" | .rparen => "RPAREN:)" | .comma => "COMMA:," | .colon => "COLON::"
  | .div => "DIV:/" | .at => "AT:@" | .not => "NOT:!" | .forall_ => "FORALL:\\A"
  | .exists_ => "EXISTS:\\E" | .rename => "RENAME:\\S" | .ite => "ITE" | .tt => "TRUE" | .ff => "FALSE"
  | .op o => o.type ++ ":" ++ o.value
  | .name s => "NAME:" ++ s
  | .number d => "NUMBER:" ++ d
  | .bad => "BAD"

def lexAnswer (text : String) : String :=
  "ok " ++ " ".intercalate ((tokenize text).map Tok.show)

def parseAnswer (formula : String) : String :=
  match parseE (tokenize formula) with
  | .ok t => "ok " ++ t.sexp
  | .error (_, e) => "err " ++ toString e.toErr

/-- one protocol line of the parser slice -/
def stepLineParse (ms : Mgrs) (line : String) : Mgrs × String :=
  let fields := line.splitOn "\t"
  let (fields', sched) := match fields.getLast? with
    | some l => if l.startsWith "S:" then (fields.dropLast, parseSched (l.drop 2).toString) else (fields, some [])
    | none => (fields, some [])
  match fields' with
  | [_, "parse", formula] => (ms, parseAnswer (unescape formula))
  | [_, "parse"] => (ms, parseAnswer "")
  | [_, "lex", text] => (ms, lexAnswer (unescape text))
  | [_, "lex"] => (ms, lexAnswer "")
  | [id, "add_expr"] => stepLineParse.addExpr ms id "" sched
  | [id, "add_expr", formula] => stepLineParse.addExpr ms id (unescape formula) sched
  | _ => stepLine ms line
where
  addExpr (ms : Mgrs) (id formula : String) (sched : Option (List SchedItem)) : Mgrs × String :=
    match sched with
    | none => (ms, "err BAD-SCHEDULE")
    | some sched =>
      match parseNat? id with
      | none => (ms, "err BAD-LINE")
      | some id =>
        match ms[id]? with
        | none => (ms, "err BAD-MGR")
        | some m =>
          let (r, m') := DD.addExpr formula { m with sched := sched }
          let left := !m'.sched.isEmpty && (match r with | .ok _ => true | .error _ => false)
          let m' := { m' with sched := [] }
          (ms.insert id m', showOut (r.map DRes.int) ++ (if left then " SCHED-LEFT" else ""))

end DD
