/-
  DD.CWrapReviewed — what about the C wrappers rests on a review BY HAND rather than on the
  path semantics of DD/CWrap.lean.

  * `reviewedUncovered`: the functions that the reader of the `.pyx` files cannot follow, with the
    fingerprint of their text (comments removed, blanks normalised) as reviewed.  EMPTY since the
    reader follows references kept in containers: `BDD._multi_compose` (cudd.pyx), `_c_compose`,
    `_compose_root`, `_compose`, `cuddHashTableQuitZdd`, `_support`, `_clear_markers`
    (cudd_zdd.pyx) are now in `Gen.cRefTraces` and subject to `refTraces_balanced` /
    `refTraces_noFloatingUse`.  The mechanism stays: a function that the reader has to give up on
    appears in `Gen.cUncoveredText` and breaks `uncovered_reviewed` (DDProps/C19) until it is read
    and entered here.

  * `knownArrayLeaks`: functions with a path on which a `PyMem_Malloc`ed array of node pointers is
    not freed.  cudd.pyx `BDD._multi_compose` (reviewed 2026-09-28): inside the loop that fills `x`,
    `if g.manager != self.manager: raise ValueError((var, g))` leaves the function before the
    `try … finally: PyMem_Free(x)`.  Memory only: the array borrows its elements, no node reference
    is lost.  Not part of the statement of C19; recorded as an observation.

  * `reviewedDeadAssertions`: functions with the idiom `cuddRef(x); if x.ref <= 0: raise
    AssertionError(x.ref)`.  The assertion cannot fire (the function holds a reference, CUDD's
    counters saturate); IF it fired, the function would leave holding `x`, the references parked in
    `vector` / `table`, and in `_c_compose` the array itself.

  * Written into `fieldPathOk` (DD/CWrap.lean), not a list here: `BDD.decref(u, _direct=True)` /
    `ZDD.decref(u, _direct=True)` give one library reference back and leave the counter `u._ref`
    alone — on purpose: `dd/_copy.py` (line 507) creates a handle for a node it already holds a
    reference on and uses `_direct` to cancel the extra one.  It breaks the invariant
    "`_ref` = library references owned by the handle" for callers that use it otherwise.

  * `knownExceptionLeaks`: exits THROUGH AN EXCEPTION RAISED INSIDE A CALLEE (or by a subscript / a type
    test) on which the function still owns references.  The reader follows these exits since the
    extension of 2026-09-28 (`raiseIn site line`, `site` = `callee#k`); every such exit of every followed
    function must be balanced or be listed here with WHAT is still owned (`exitSummary`), so a new
    call between a `ref` and its `deref` — or a new reference held across an old call — is not
    covered by an old entry.  Read against the statement of C19 ("every temporary reference a wrapper
    method takes is released on each path"): these ARE paths on which a reference is not released.
    Classes, by what can raise at the site in the CURRENT sources:
      - `userError`: reachable from the public API with a wrong argument.  NONE at present.  There was
        one, finding F21: `cudd_zdd._c_compose` (through `ZDD.let` with a dict whose FIRST value is a
        `Function` and a later one is not: `g = dvars[var]` with `g: Function` raises `TypeError` in
        the loop that filled `vector`, after earlier iterations did `cuddRef(g.node)`, outside the
        `try … finally`).  Repaired in the source (every slot set to NULL, the loop inside the `try`,
        the `finally` releases the slots that are not NULL): the function has NO entry here any more,
        and on the source before the repair `refTraces_exceptionSafe` / `refTraces_arraysFreed` fail.
      - `internal`: the site is guarded by a test just before it, or the callee raises only
        `AssertionError`s of internal invariants (`level < 0`, `u is NULL`, `level > u_level`, a `cube`
        that is not a cube, `index` out of range): the recursive ZDD operators `_forall` / `_exist` /
        `_disjoin` / `_conjoin` / `_compose` hold `p` (and `q`, `conj`/`disj`) across nested calls
        declared `except? NULL` without `try … finally`; `_compose_root` drops the memo `table` with the
        references `_compose` parked in it.  Same status as `reviewedDeadAssertions`: cannot fire
        unless the wrapper itself is wrong.
      - `memoryOnly`: the site raises `MemoryError` only (`wrap` of a node checked non-NULL two lines
        above; `table[t] = …` for a key that `t in table` already hashed).
  * `knownArrayLeaks` now also lists exits through exceptions from callees: arrays of BORROWED node
    pointers that are not freed.  MALLOC'ED MEMORY, NOT REFERENCES: no node reference is involved,
    hence outside the text of C19 ("temporary reference"); recorded as observations.  Some are
    reachable with a wrong argument: `BDD._multi_compose` (`g = var_sub[var]`, `BDD.let` with a dict
    whose first value is a `Function` and a later one is not; also `self._index_of_var[var]`),
    `BDD._swap` / `BDD._cube_from_bdds` (`self.var(name)` raises `ValueError` for an undeclared name
    after `PyMem_Malloc`, before the `try … finally: PyMem_Free`), `count_nodes` (a list element that
    is not a `Function`).
-/
import DD.CTableTypes
namespace DD

def reviewedUncovered : List (Backend × String × String) := []

/-- (back end, function, the exception that ends the path: the name of an explicit `raise`, or the
site `callee#k` of an exception raised inside a callee) -/
def knownArrayLeaks : List (Backend × String × String) := [
  (.cudd, "BDD._multi_compose", "ValueError"),
  (.cudd, "BDD._multi_compose", "getitem#0"),
  (.cudd, "BDD._multi_compose", "getitem#1"),
  (.cudd, "BDD._multi_compose", "typetest#1"),
  (.cudd, "BDD._swap", "getitem#0"),
  (.cudd, "BDD._swap", "self.var#0"),
  (.cudd, "BDD._swap", "self.var#1"),
  (.cudd, "BDD._cube_from_bdds", "self.var#0"),
  (.cudd, "count_nodes", "typetest#1")]

/-- what can raise at the site, in the sources as reviewed -/
inductive LeakReach
  | userError     -- reachable from the public API with a wrong argument
  | internal      -- only `AssertionError`s of internal invariants
  | memoryOnly    -- only `MemoryError`
deriving Repr, DecidableEq, Inhabited

structure KnownLeak where
  backend : Backend
  fn : String
  site : String                    -- `callee#k`: the k-th place of that label in the function
  held : List (String × Int)       -- `exitSummary`: what the function still owns at this exit
  reach : LeakReach
deriving Repr, DecidableEq, Inhabited

/-- exits through an exception raised inside a callee on which references are still owned
(reviewed 2026-09-28; one entry per line: `harness/checks_cwrap.py` reads this list) -/
def knownExceptionLeaks : List KnownLeak := [
  ⟨.cudd, "BDD._load_dddmp", "wrap#0", [("Dddmp_cuddBddLoad", 1)], .memoryOnly⟩,
  ⟨.cuddZdd, "_forall", "_forall#1", [("_forall", 1)], .internal⟩,
  ⟨.cuddZdd, "_forall", "_conjoin#0", [("_forall", 1), ("_forall", 1)], .internal⟩,
  ⟨.cuddZdd, "_forall", "_find_or_add#0", [("_forall", 1), ("_forall", 1), ("_conjoin", 1)], .internal⟩,
  ⟨.cuddZdd, "_forall", "_find_or_add#1", [("_forall", 1), ("_forall", 1)], .internal⟩,
  ⟨.cuddZdd, "_exist", "_exist#1", [("_exist", 1)], .internal⟩,
  ⟨.cuddZdd, "_exist", "_disjoin#0", [("_exist", 1), ("_exist", 1)], .internal⟩,
  ⟨.cuddZdd, "_exist", "_find_or_add#0", [("_exist", 1), ("_exist", 1), ("_disjoin", 1)], .internal⟩,
  ⟨.cuddZdd, "_exist", "_find_or_add#1", [("_exist", 1), ("_exist", 1)], .internal⟩,
  ⟨.cuddZdd, "_disjoin", "_disjoin#1", [("_disjoin", 1)], .internal⟩,
  ⟨.cuddZdd, "_disjoin", "_find_or_add#0", [("_disjoin", 1), ("_disjoin", 1)], .internal⟩,
  ⟨.cuddZdd, "_conjoin", "_conjoin#1", [("_conjoin", 1)], .internal⟩,
  ⟨.cuddZdd, "_conjoin", "_find_or_add#0", [("_conjoin", 1), ("_conjoin", 1)], .internal⟩,
  ⟨.cuddZdd, "_compose_root", "_compose#0", [("container pyobj", 0)], .internal⟩,
  ⟨.cuddZdd, "_compose", "_compose#2", [("_compose", 1)], .internal⟩,
  ⟨.cuddZdd, "_compose", "setitem#0", [("cuddZddIte", 2)], .memoryOnly⟩]

/-- functions with a path on which a node is released with CUDD's NON-recursive dereference and then
dropped (back end, function, how the path ends: `""` = any end, else the name of the exception / the
site of the callee that raises).
`_compose_root` (cudd_zdd.pyx, reviewed 2026-09-28): inside `while mgr.reordered == 1:` the result `r`
of `_compose` is protected by `cuddRef(r)` while the memo is released, then `cuddDeref(r)`; when the
loop goes round again (`mgr.reordered == 1`: CUDD reordered during the attempt) the `r` of the
abandoned attempt is dropped.  ASSUMED about CUDD, not visible in the source: an operation during
which reordering happened returns NULL (`cuddZddIte` / `cuddUniqueInterZdd` check `dd->reordered`), so
`r is not NULL` and `mgr.reordered == 1` do not occur together (the commented-out
`if mgr.reordered == 1: if r is not NULL: raise AssertionError(r)` says the same).
`_c_compose`: `cuddDeref(r)` … `return wrap(u.bdd, r)`: only when `wrap` raises (`MemoryError`; `r`
was checked non-NULL). -/
def reviewedPlainDrops : List (Backend × String × String) :=
  [(.cuddZdd, "_compose_root", ""), (.cuddZdd, "_c_compose", "wrap#0")]

def reviewedDeadAssertions : List (Backend × String) :=
  [(.cuddZdd, "_c_compose"), (.cuddZdd, "_compose_root"), (.cuddZdd, "_compose")]

end DD
