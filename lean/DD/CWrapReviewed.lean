/-
  DD.CWrapReviewed — what about the C wrappers rests on a review BY HAND rather than on the
  path semantics of DD/CWrap.lean.

  * `reviewedUncovered`: the functions that the reader of the `.pyx` files cannot follow, with the
    fingerprint of their text (comments removed, blanks normalised) as reviewed.  EMPTY since the
    reader follows references kept in containers: `BDD._multi_compose` (cudd.pyx), `_c_compose`,
    `_compose_root`, `_compose`, `cuddHashTableQuitZdd`, `_support`, `_clear_markers`
    (cudd_zdd.pyx) are now in `Gen.cRefTraces` and subject to `refTraces_balanced` /
    `refTraces_noFloatingUse`.  The mechanism stays: a function that the reader has to give up on
    appears in `Gen.cUncoveredText` and breaks `uncovered_reviewed` (DDProps/C19) until it is read
    and entered here.

  * `knownArrayLeaks`: functions with a path on which a `PyMem_Malloc`ed array of node pointers is
    not freed.  cudd.pyx `BDD._multi_compose` (reviewed 2026-09-28): inside the loop that fills `x`,
    `if g.manager != self.manager: raise ValueError((var, g))` leaves the function before the
    `try … finally: PyMem_Free(x)`.  Memory only: the array borrows its elements, no node reference
    is lost.  Not part of the statement of C19; recorded as an observation.

  * `reviewedDeadAssertions`: functions with the idiom `cuddRef(x); if x.ref <= 0: raise
    AssertionError(x.ref)`.  The assertion cannot fire (the function holds a reference, CUDD's
    counters saturate); IF it fired, the function would leave holding `x`, the references parked in
    `vector` / `table`, and in `_c_compose` the array itself.

  * Written into `fieldPathOk` (DD/CWrap.lean), not a list here: `BDD.decref(u, _direct=True)` /
    `ZDD.decref(u, _direct=True)` give one library reference back and leave the counter `u._ref`
    alone — on purpose: `dd/_copy.py` (line 507) creates a handle for a node it already holds a
    reference on and uses `_direct` to cancel the extra one.  It breaks the invariant
    "`_ref` = library references owned by the handle" for callers that use it otherwise.
-/
import DD.CTableTypes
namespace DD

def reviewedUncovered : List (Backend × String × String) := []

/-- (back end, function, the exception that ends the path) -/
def knownArrayLeaks : List (Backend × String × String) := [(.cudd, "BDD._multi_compose", "ValueError")]

def reviewedDeadAssertions : List (Backend × String) :=
  [(.cuddZdd, "_c_compose"), (.cuddZdd, "_compose_root"), (.cuddZdd, "_compose")]

end DD
