/-
  DD.CWrapReviewed — the functions of the C wrappers that the reader of the `.pyx` files cannot
  follow (they keep node references in C arrays / Python containers), with the fingerprint of
  their text (comments removed, blanks normalised) AS REVIEWED BY HAND on 2026-09-28 against the
  reference-counting rules of CUDD:

  * cudd   `BDD._multi_compose`: the vector holds borrowed nodes (live `Function`s, projection
    functions); `Cudd_bddVectorCompose` returns an unreferenced result, `wrap` references it.
  * cudd_zdd `_c_compose`: one reference per vector entry, all given back in the `finally`; the
    result is protected (`cuddRef` … `cuddDeref`) across the release of the vector — without this
    the result dies when it coincides with a temporary variable node.
  * cudd_zdd `_compose_root` / `_compose`: every memo entry owns one reference, given back when
    the memo is dropped; results are referenced across the release of their operands.
  * cudd_zdd `cuddHashTableQuitZdd`, `_support`, `_clear_markers`: traversal marks, no net change.

  A change to any of these functions changes the generated fingerprint and breaks
  `uncovered_reviewed` (DDProps/C19) until the function is read again and this table updated.
-/
import DD.CTableTypes
namespace DD

def reviewedUncovered : List (Backend × String × String) := [
  (.cudd, "BDD._multi_compose", "7a2dfde40052e4a1"),
  (.cuddZdd, "_c_compose", "bbd522f295269ef0"),
  (.cuddZdd, "_compose_root", "2d132e79a44ded34"),
  (.cuddZdd, "_compose", "c5159ac4854bf85a"),
  (.cuddZdd, "cuddHashTableQuitZdd", "2512e8879e4a923c"),
  (.cuddZdd, "_support", "f102608a57bdb251"),
  (.cuddZdd, "_clear_markers", "3fdf2ab34f4f883c")]

end DD
