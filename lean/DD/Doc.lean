/-
  DD.Doc — the *documented* meaning of the operator vocabulary (transcribed by hand
  from `dd/_abc.py` docstrings and `doc.md`).  The regenerated tables are proved
  equal to this in DDProps/Tables.lean.
-/
namespace DD

inductive Conn
  | not | or | and | xor | implies | equiv | diff | forall_ | exists_ | ite
deriving Repr, DecidableEq, Inhabited

/-- every spelling of the vocabulary and the connective it stands for -/
def docConn : String → Option Conn
  | "not" | "~" | "!" => some .not
  | "or" | "\\/" | "|" | "||" => some .or
  | "and" | "/\\" | "&" | "&&" => some .and
  | "xor" | "#" | "^" => some .xor
  | "implies" | "=>" | "->" => some .implies
  | "equiv" | "<=>" | "<->" => some .equiv
  | "diff" | "-" => some .diff
  | "forall" | "\\A" => some .forall_
  | "exists" | "\\E" => some .exists_
  | "ite" => some .ite
  | _ => none

/-- arity of a connective -/
def Conn.arity : Conn → Nat
  | .not => 1
  | .ite => 3
  | _ => 2

/-- truth function of the propositional connectives (`u`, `v`, `w` operand values) -/
def Conn.eval : Conn → Bool → Bool → Bool → Bool
  | .not, u, _, _ => !u
  | .or, u, v, _ => u || v
  | .and, u, v, _ => u && v
  | .xor, u, v, _ => u != v
  | .implies, u, v, _ => !u || v
  | .equiv, u, v, _ => u == v
  | .diff, u, v, _ => u && !v
  | .ite, u, v, w => if u then v else w
  | .forall_, _, _, _ => false
  | .exists_, _, _, _ => false

/-- documented precedence of the expression grammar, lowest first (`doc.md`);
unary minus (negative `@` node numbers) binds tightest -/
def docPrecedence : List String :=
  ["COLON", "EQUIV", "IMPLIES", "MINUS", "XOR", "OR", "AND", "EQUALS", "NOT", "UMINUS"]

end DD
