/-
  DD.CTableTypes — shapes of the tables that `harness/extract.py` (reader in
  `harness/cpyx.py`) regenerates from the Cython back ends `dd/cudd.pyx`,
  `dd/cudd_zdd.pyx`, `dd/sylvan.pyx`, `dd/buddy.pyx` on every run
  (Generated/CTables.lean).  Import-free on purpose.
-/
namespace DD

/-- the four C back ends -/
inductive Backend
  | cudd | cuddZdd | sylvan | buddy
deriving Repr, DecidableEq, Inhabited

/-- operand of `apply(op, u, v, w)`; in an expression it stands for `u.node` etc. -/
inductive COperand
  | u | v | w
deriving Repr, DecidableEq, Inhabited

/-- Expression tree over C-API calls, as written in a branch of `apply` after inlining the
local names (`neg_node = …; neg = wrap(self, neg_node); … neg.node …`).  Manager arguments
(`mgr`, `self.manager`, `v.zdd`) are dropped; an integer literal argument is kept in the
function name (`Cudd_ReadZddOne/0`).  The module prefix (`sy.`, `buddy.`) is dropped. -/
inductive CExpr
  | arg (o : COperand)
  | c0 (fn : String)
  | c1 (fn : String) (a : CExpr)
  | c2 (fn : String) (a b : CExpr)
  | c3 (fn : String) (a b c : CExpr)
  | unknown (src : String)        -- not recognised by the reader: every obligation fails on it
deriving Repr, DecidableEq, Inhabited

/-- what `apply(alias, …)` does when called with the number of operands of the alias -/
inductive COutcome
  | ret (e : CExpr)               -- `return wrap(self, <e>)` / `return Function(<e>)`
  | raises (exc : String)         -- rejected: an explicit `raise` (or the arity/vocabulary check)
  | unknown (src : String)        -- not recognised by the reader
deriving Repr, DecidableEq, Inhabited

structure CRow where
  alias : String
  outcome : COutcome
  line : Nat                      -- source line of the `return` / `raise`
deriving Repr, DecidableEq, Inhabited

structure CApplyTable where
  backend : Backend
  file : String
  line : Nat                      -- line of `def apply`
  /-- one row per spelling of the universe: `dd._abc` vocabulary ∪ string literals compared with
  `op` in the method ∪ the vocabulary the module declares -/
  rows : List CRow
  /-- the vocabulary the back end declares: the `dd._abc` vocabulary when `apply` starts with
  `_utils.assert_operator_arity(op, v, w, 'bdd')`, else the module's `Literal[...]` alias -/
  declared : List String
  declaredViaAbc : Bool
  /-- error guards assumed not to fire (`self.manager != u.manager`, `r is NULL`, …) -/
  guards : List String
deriving Repr, Inhabited

/-! ### reference traces -/

/-- One event on an explicit control-flow path of a wrapper function.  Node values are
numbered per function (`x`); `fn` is the C function as spelled in the source. -/
inductive CEv
  | param (x : Nat) (what : String)        -- a node received from outside: `u.node`, a `DdRef` parameter
  | produce (x : Nat) (fn : String) (args : List Nat)   -- `x = fn(…args…)`, a C call returning a node
  | ref (x : Nat) (fn : String)            -- `Cudd_Ref(x)` …
  | deref (x : Nat) (fn : String)          -- `Cudd_RecursiveDeref(mgr, x)` …
  | wrap (x : Nat)                         -- `wrap(bdd, x)` / `Function(x)`: a handle takes its own reference
  | initCall (x : Nat)                     -- `f.init(x, bdd)` inside `wrap`
  | isNull (x : Nat)                       -- path condition: `x is NULL` / `x == sylvan_invalid`
  | guard (cond : String) (holds : Bool)   -- path condition on a handle's `_ref` counter
  | retHandle                              -- returns a Python object (handle or other)
  | retNode (x : Nat)                      -- returns the raw node `x` (only `cdef DdRef` functions)
  | retNull                                -- `return NULL`
  | raise (exc : String)
  -- references kept in containers (C arrays, Python dicts, CUDD hash tables); containers are
  -- numbered in the same space as the nodes of the function
  | alloc (c : Nat) (fn : String) (size : String)   -- `c = <DdRef *> PyMem_Malloc(size * sizeof(DdRef))`
  | cnew (c : Nat) (what : String)         -- `c = dict()`: a Python container created by this function
  | cparam (c : Nat) (what : String)       -- a container received from the caller (`DdRef *vector`, `table: dict`)
  | store (c : Nat) (x : Nat)              -- `c[i] = x`: one reference of this function on `x` moves to `c`, or `c` borrows
  | load (x : Nat) (c : Nat)               -- `x = c[i]`: an element of `c` (a node that `c` refers to)
  | passC (c : Nat) (fn : String)          -- `c` is an argument of the call of `fn` that follows
  | derefAll (c : Nat) (fn : String) (bound : String)  -- `for i in range(bound): fn(mgr, c[i])`, `for nd in c.values(): fn(mgr, nd)`
  | free (c : Nat) (fn : String)           -- `PyMem_Free(c)`, `FREE(c)`
  | refNonPos (x : Nat)                    -- path condition: `x.ref <= 0` (nobody refers to `x`)
  | setField (x : Nat) (field : String) (y : Nat)   -- `x.next = y`: a pointer field of the node `x`
  -- the counter `_ref` of a CUDD handle `h` (`u`, `self`): the library references the handle owns
  | fieldAdd (h : String) (k : Int)        -- `h._ref += k` / `h._ref -= k` (then `k` is negative)
  | fieldSet (h : String) (k : Int)        -- `h._ref = k`
  | fieldTest (h : String) (rel : String) (k : Int) (holds : Bool)   -- path condition `h._ref <rel> k` (or its negation)
  | handleNode (x : Nat) (h : String)      -- the node `x` is `h.node` (emitted in `init`/`__dealloc__`/`incref`/`decref` only)
  -- exceptions raised INSIDE a callee (or by a subscript / a type test of a Python object): the path
  -- leaves the function here, through the enclosing `finally` blocks; `site` = `callee#k`, the k-th
  -- place of that label in the function, in source order (`getitem`, `setitem`, `typetest` for
  -- `d[k]`, `d[k] = v`, the binding of a local declared `g: Function`)
  | raiseIn (site : String) (line : Nat)
  -- a loop that stores into the C array `c` is entered / was left because its iterator is exhausted
  -- (NOT emitted when the loop is left by `break`, `return` or an exception: slots stay unfilled)
  | fillBegin (c : Nat)
  | fillEnd (c : Nat)
  -- `for i in range(bound): c[i] = NULL`: every slot of the array is initialised
  | nullInit (c : Nat) (bound : String)
  -- `for i in range(bound): if c[i] is not NULL: fn(mgr, c[i])`: every slot that was written
  | derefNonNull (c : Nat) (fn bound : String)
  -- the local name through which `x` was reached (`f.node`) is rebound or deleted, and `f` was bound
  -- to the result of the call `via` (a handle that nothing else is known to keep alive)
  | handleDrop (x : Nat) (via : String)
  -- an iteration of an unrolled loop begins / ends by reaching the loop head again / is left by `break`
  | iterBegin
  | iterEnd
  | iterBreak
deriving Repr, DecidableEq, Inhabited

structure CPath where
  events : List CEv
deriving Repr, DecidableEq, Inhabited

/-- role of a function for the reference discipline -/
inductive CRole
  | plain          -- ordinary method: must be balanced
  | wrapFn         -- module-level `wrap`
  | handleInit     -- `Function.init` / `Function.__cinit__`
  | handleDealloc  -- `Function.__dealloc__`
  | refInc         -- the explicit user-facing counters `incref`, `_incref`
  | refDec         -- … and `decref`, `_decref`
deriving Repr, DecidableEq, Inhabited

structure CMethod where
  backend : Backend
  name : String                   -- qualified: `BDD.apply`, `Function.__dealloc__`, `_forall`
  line : Nat
  role : CRole
  returnsNode : Bool              -- declared `cdef DdRef f(...)`
  paths : List CPath
deriving Repr, Inhabited

structure CUncovered where
  backend : Backend
  name : String
  line : Nat
  reason : String
deriving Repr, Inhabited

end DD
