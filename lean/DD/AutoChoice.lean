/-
  DD.AutoChoice — the methods of `autoref.BDD` / `Function` that may reorder, with the iteration
  orders chosen by an oracle (`DD.Choice`): the text of DD.Auto / DD.ApiAuto with the decorated core
  call replaced by its choice-driven version (DD.DynChoice), returning the record of the orders.
-/
import DD.Auto
import DD.ApiAuto
import DD.DynChoice
open Std

namespace DD

/-- `r = self._bdd.<op>(...); return self._wrap(r)` for a choice-driven core call -/
def wrapResultC (h : Nat) (coreC : M (Int × List SchedItem)) : AM (Int × List SchedItem) := do
  let p ← AM.liftM coreC
  wrap h p.1
  return p

def aIteC (c : Choice) (hg hu hv : Nat) (h : Nat) : AM (Int × List SchedItem) := do
  let g ← nodeIn hg
  let u ← nodeIn hu
  let v ← nodeIn hv
  wrapResultC h (tryToReorderC c (iteRaw g u v) [])

def aApplyC (c : Choice) (op : String) (hu : Nat) (hv hw : Option Nat) (h : Nat) :
    AM (Int × List SchedItem) := do
  let u ← nodeIn hu
  AM.check (!(hv.isNone && hw.isSome)) .value
  let v ← optNode nodeIn hv
  let w ← optNode nodeIn hw
  wrapResultC h (applyC c op u v w [])

def aQuantifyC (c : Choice) (hu : Nat) (qvars : List Key) (forall_ : Bool) (h : Nat) :
    AM (Int × List SchedItem) := do
  let u ← nodeIn hu
  wrapResultC h (tryToReorderC c (quantifyBody u qvars forall_) [])

def aLetC (c : Choice) (d : ALetArg) (hu : Nat) (h : Nat) : AM ((Int × Bool) × List SchedItem) := do
  let u ← nodeIn hu
  if d.isEmpty then pure ((u, true), []) else do
    let d' ← aLetArgs d
    let p ← wrapResultC h (letOpC c d' u [])
    pure ((p.1, false), p.2)

def aImageC (c : Choice) (pre : Bool) (ht hs : Nat) (rn : List (Key × Key)) (qvars : List Key)
    (forall_ : Bool) (h : Nat) : AM (Int × List SchedItem) := do
  let t ← nodeOwn ht
  let s ← nodeSame hs
  wrapResultC h (if pre then preimageC c t s rn qvars forall_ [] else imageC c t s rn qvars forall_ [])

def fApplyC (c : Choice) (op : String) (hs : Nat) (ho : Option Nat) (h : Nat) :
    AM (Int × List SchedItem) := do
  let s ← nodeOwn hs
  let o ← optNode nodeSame ho
  let p ← AM.liftM (applyC c op s o none [])
  wrapF h p.1
  return p

end DD
