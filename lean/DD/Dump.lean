/-
  DD.Dump — dump / load of BDDs: pickle (`dd/bdd.py`), whole-manager pickle,
  JSON (`dd/_copy.py` through the `dd.autoref` interface).

  The serialisers themselves (pickle, json, shelve, the file system) are modelled,
  not verified: the model works on abstract *file contents*.  The harness re-reads
  every file the real code writes and compares it with the content computed here.

  Python `dict`s inside a file are association lists in *file order* (the order
  in which the loader iterates); keys are unique in a well-formed file.

  Reference counts and `dd.autoref`: a `Function` is one reference on its node
  (`Function.__init__` increfs, `__del__` decrefs; CPython releases a temporary as soon
  as its last name goes away).  `dmpWrap` / `dmpDrop` are those two events; `withTemps` releases
  the temporaries of a Python frame when the frame is left, normally or by an exception.
  Every temporary the real code makes during `load_json` is modelled (it matters when a
  reordering — hence a collection — happens in the middle of `bdd.var` / `bdd.ite`), so the
  net effect is exact: after `loadJson` every made node has had `+1` (`bdd.incref` in
  `_make_node`) and `-1` (`bdd.decref` in the final loop), every temporary `+1`/`-1`, and
  each returned root keeps the `+1` of its live `Function`.  `dd.bdd.BDD.load` (pickle)
  returns plain integers: nothing is held; the `dd.autoref` wrapper holds `+1` per root.

  Repaired in the code (fix commits 8564934, 58a79f8) and mirrored here: `load` returns an
  empty list for a file written without roots, maps constant roots to themselves, and
  builds every node with `_ite` on the mapped variable (any variable order of the target).
  Repaired in the code (fix commits 2e7ff35, ccfe608, 55c5caa, b850f3f) and mirrored here:
  `_load_json` releases the shelf's references when the `try:` fails; the two assertions on the
  counts of the loaded nodes run in their own loop INSIDE the `try:`, before any release;
  `_make_node` refuses a node line numbered as the terminal (`k <= 1`) and, with
  `load_order=True`, a node that is not above its successors (`ValueError`, before the raw
  `find_or_add`, which does not check it).
  Still mirrored as it is (outside the text of C12, see the check's notes):
  `load_json(load_order=True)` always leaves dynamic reordering enabled (`configure` is
  given the dict it returned), and a refused `load_json` leaves it switched off.
-/
import DD.Apply
open Std

namespace DD

/-! ### containers of roots (`list`, `dict`, or `None`) -/

inductive Roots
  | none
  | list (l : List Int)
  | dict (d : List (String × Int))
deriving Repr, DecidableEq, Inhabited

/-- `_utils._values_of(roots)` -/
def Roots.values : Roots → List Int
  | .none => []
  | .list l => l
  | .dict d => d.map (·.2)

/-- `_utils._map_container(mapper, roots)` for a mapper that may raise;
`None` is not iterable: `TypeError` (F2) -/
def Roots.mapE (f : Int → Except Err Int) : Roots → Except Err Roots
  | .none => .error .type
  | .list l => (l.mapM f).map Roots.list
  | .dict d => (d.mapM fun kv => (f kv.2).map fun v => (kv.1, v)).map Roots.dict

/-! ### file contents -/

/-- one item of the `succ` dict of a pickle: `id: (level, low, high)`;
the terminal is stored as `1: (n, None, None)` -/
structure PEntry where
  id : Nat
  lvl : Nat
  lo : Option Int
  hi : Option Int
deriving Repr, DecidableEq, Inhabited

/-- content of a pickle written by `BDD._dump_bdd`: `dict(vars, succ, roots)` -/
structure PickleFile where
  vars : List (String × Nat)
  succ : List PEntry
  roots : Roots
deriving Repr, DecidableEq, Inhabited

/-- content of a pickle written by `BDD._dump_manager`
(`max_nodes` is not part of the model state; the harness compares it directly) -/
structure ManagerFile where
  vars : List (String × Nat)
  roots : List Int
  /-- `(level, low, high) ↦ node`, the terminal's `(n, None, None) ↦ 1` included -/
  pred : List (PEntry)
  succ : List PEntry
  ref : List (Nat × Nat)
  minFree : Nat
deriving Repr, DecidableEq, Inhabited

/-- a node line of the JSON file: `"id": [level, low, high]`
(`"T"`/`"F"` are decoded to `1`/`-1` as `_decode_node` does) -/
structure JLine where
  id : Nat
  lvl : Nat
  lo : Int
  hi : Int
deriving Repr, DecidableEq, Inhabited

/-- content of a JSON file written by `_copy.dump_json`: the line `level_of_var`,
the line `roots`, then the node lines in emission order -/
structure JsonFile where
  levelOfVar : List (String × Nat)
  roots : Roots
  nodes : List JLine
deriving Repr, DecidableEq, Inhabited

/-! ### file-type dispatch of `dump` / `load` -/

inductive FileKind
  | figure (t : String) | pickle | json
deriving Repr, DecidableEq, Inhabited

def figureTypes : List String := ["pdf", "png", "svg", "dot"]

/-- the `if filetype is None:` chain of `BDD.dump`; `withJson` = the `dd.autoref` variant -/
def inferFileType (withJson : Bool) (filename : String) : Except Err String :=
  let name := filename.toLower
  if name.endsWith ".pdf" then .ok "pdf"
  else if name.endsWith ".png" then .ok "png"
  else if name.endsWith ".svg" then .ok "svg"
  else if name.endsWith ".dot" then .ok "dot"
  else if name.endsWith ".p" then .ok "pickle"
  else if withJson && name.endsWith ".json" then .ok "json"
  else .error .value

/-- `dd.bdd.BDD.dump(filename, roots, filetype)`: which writer runs -/
def fileTypeOr (withJson : Bool) (filename : String) : Option String → Except Err String
  | some t => .ok t
  | none => inferFileType withJson filename

def bddDumpKind (filename : String) (filetype : Option String) : Except Err FileKind :=
  match fileTypeOr false filename filetype with
  | .error e => .error e
  | .ok t =>
    if figureTypes.contains t then .ok (.figure t)
    else if t = "pickle" then .ok .pickle
    else .error .value

/-- `dd.autoref.BDD.dump(filename, roots, filetype)`: which writer runs
(`roots is None` is refused for JSON) -/
def autorefDumpKind (filename : String) (filetype : Option String) (rootsNone : Bool) :
    Except Err FileKind :=
  match fileTypeOr true filename filetype with
  | .error e => .error e
  | .ok t =>
    if t = "json" then (if rootsNone then .error .value else .ok .json)
    else if t ≠ "pickle" && !figureTypes.contains t then .error .value
    else bddDumpKind filename (some t)

/-- `dd.bdd.BDD.load(filename)`: only `*.p` -/
def bddLoadKind (filename : String) : Except Err FileKind :=
  if filename.toLower.endsWith ".p" then .ok .pickle else .error .value

/-- `dd.autoref.BDD.load(filename)`: `*.p` or `*.json` -/
def autorefLoadKind (filename : String) : Except Err FileKind :=
  let name := filename.toLower
  if name.endsWith ".p" then .ok .pickle
  else if name.endsWith ".json" then .ok .json
  else .error .value

/-! ### pickle: `_dump_bdd` -/

/-- `(k, self._succ[k])` -/
def entryOf (t : Tbl) (k : Nat) : Except Err PEntry :=
  if k = 1 then .ok ⟨1, t.nvars, none, none⟩ else
  match t.succ[k]? with
  | some n => .ok ⟨k, n.lvl, some n.lo, some n.hi⟩
  | none => .error .key

/-- the keys of `self._succ` (ascending; the file order is Python's `dict` order and is
compared up to permutation) -/
def allNodes (t : Tbl) : List Nat := 1 :: t.succ.keys

/-- `_dump_bdd(roots, filename)`: the content written.  `roots = None` stores every node,
otherwise the descendants of the roots (a `set`: ascending here). -/
def dumpNodes (t : Tbl) : Roots → Except Err (List Nat)
  | .none => .ok (allNodes t)
  | r => descendants t r.values

def dumpPickle (m : Mgr) (roots : Roots) : Except Err PickleFile :=
  match dumpNodes m.tbl roots with
  | .error e => .error e
  | .ok nodes =>
    match nodes.mapM (entryOf m.tbl) with
    | .error e => .error e
    | .ok succ => .ok { vars := m.tbl.vars.toList, succ := succ, roots := roots }

/-! ### pickle: `_load_pickle`, `_load`, `load` -/

/-- the first loop of `_load_pickle`: declare the variables, build `level_map`
(latest assignment first, so that `List.lookup` reads `level_map[i]`) -/
def loadVars (levels : Bool) (n : Nat) :
    List (String × Nat) → List (Nat × Nat) → M (List (Nat × Nat))
  | [], lm => fun m => (.ok lm, m)
  | (var, i) :: rest, lm => fun m =>
    -- `if not (0 <= i < n): raise AssertionError`
    if ¬ i < n then (.error .assertion, m) else
    match addVar var (if levels then some (i : Int) else none) m with
    | (.error e, m1) => (.error e, m1)
    | (.ok j, m1) => loadVars levels n rest ((i, j) :: lm) m1

/-- `succ[abs(u)]` -/
def PEntry.find (succ : List PEntry) (k : Nat) : Option PEntry := succ.find? (fun e => e.id == k)

/-- `_load(u, succ, umap, level_map)`.  `umap` has the keys `abs(u)`; the memo test
`if u in umap` uses the *signed* `u`, so it never hits for a complemented edge (the node
is then rebuilt; `find_or_add` and `_ite` return the existing nodes).
Each node is built as `_ite(var_j, q, p)` on the mapped variable — not with `find_or_add`
at the mapped level — so the variable order of the receiving manager may differ from the
order in the file.  `_ite` is the undecorated recursion: `load` opens no reordering context.
Fuel = Python's recursion limit (`RecursionError` on a cyclic file). -/
def loadNodeF (succ : List PEntry) (lm : List (Nat × Nat)) :
    Nat → Int → TreeMap Int Int → M (Int × TreeMap Int Int)
  | 0, _, _ => fun m => (.error .fuel, m)
  | f+1, u, umap => fun m =>
    if u.natAbs = 1 then (.ok (u, umap), m) else
    if umap.contains u then
      match umap[(u.natAbs : Int)]? with
      | none => (.error .key, m)
      | some r =>
        if r = 0 then (.error .assertion, m) else
        (.ok ((if u < 0 then -r else r), umap), m)
    else
    match PEntry.find succ u.natAbs with
    | none => (.error .key, m)
    | some e =>
      match lm.lookup e.lvl with
      | none => (.error .key, m)
      | some j =>
        -- `abs(None)` in the recursive call
        match e.lo, e.hi with
        | some v, some w =>
          match loadNodeF succ lm f v umap m with
          | (.error er, m1) => (.error er, m1)
          | (.ok (p, umap1), m1) =>
            match loadNodeF succ lm f w umap1 m1 with
            | (.error er, m2) => (.error er, m2)
            | (.ok (q, umap2), m2) =>
              -- `g = self.find_or_add(j, -1, 1)`
              match findOrAdd j (-1) 1 m2 with
              | (.error er, m3) => (.error er, m3)
              | (.ok g, m3) =>
                -- `r = self._ite(g, q, p)`
                match iteRaw g q p m3 with
                | (.error er, m4) => (.error er, m4)
                | (.ok r, m4) =>
                  if r = 0 then (.error .assertion, m4) else
                  (.ok ((if u < 0 then -r else r), umap2.insert (u.natAbs : Int) r), m4)
        | none, _ => (.error .type, m)
        | some v, none =>
          match loadNodeF succ lm f v umap m with
          | (.error er, m1) => (.error er, m1)
          | (.ok _, m1) => (.error .type, m1)

/-- `for u in succ: if u in umap: continue; self._load(u, succ, umap, level_map)`;
`fuel` stands for Python's recursion limit -/
def loadAll (succ : List PEntry) (lm : List (Nat × Nat)) (fuel : Nat) :
    List PEntry → TreeMap Int Int → M (TreeMap Int Int)
  | [], umap => fun m => (.ok umap, m)
  | e :: rest, umap => fun m =>
    if umap.contains (e.id : Int) then loadAll succ lm fuel rest umap m else
    match loadNodeF succ lm fuel (e.id : Int) umap m with
    | (.error er, m1) => (.error er, m1)
    | (.ok (_, umap1), m1) => loadAll succ lm fuel rest umap1 m1

/-- `map_node` of `BDD.load`: constants map to themselves -/
def mapNode (umap : TreeMap Int Int) (u : Int) : Except Err Int :=
  if u.natAbs = 1 then .ok u else
  match umap[(u.natAbs : Int)]? with
  | none => .error .key
  | some v => .ok (if u < 0 then -v else v)

/-- `if roots is None: return list()`, else `_map_container(map_node, roots)` -/
def mapRoots (umap : TreeMap Int Int) : Roots → Except Err Roots
  | .none => .ok (.list [])
  | r => r.mapE (mapNode umap)

/-- the test `_load_pickle` runs for `levels=True` BEFORE declaring anything: every
`(var, level)` of the file is compatible with the manager — a declared variable is at that
level, an undeclared one finds the level free (or carrying its own name) -/
def levelsCompatible (t : Tbl) (vs : List (String × Nat)) : Bool :=
  vs.all fun (var, i) =>
    match t.vars[var]? with
    | some j => j == i
    | none =>
      match t.l2v[i]? with
      | none => true
      | some v' => v' == var

/-- `sorted(var2level.values()) == list(range(n))`: the levels of the file are a permutation
of `0..n-1` -/
def levelsPermutation (vs : List (String × Nat)) : Bool :=
  sortNat (vs.map (·.2)) == List.range vs.length

/-- `dd.bdd.BDD.load(filename, levels)` on the content of the file -/
def loadPickle (f : PickleFile) (levels : Bool) : M Roots := fun m =>
  -- `if levels:` refuse before declaring anything (a refusal half-way would leave a gap):
  -- the file's own levels, then each pair against the manager
  if levels && !levelsPermutation f.vars then (.error .value, m) else
  if levels && !levelsCompatible m.tbl f.vars then (.error .value, m) else
  match loadVars levels f.vars.length f.vars [] m with
  | (.error e, m1) => (.error e, m1)
  | (.ok lm, m1) =>
    -- a path of a well-formed file has at most one node per level; any acyclic file has
    -- paths of at most `len(succ)` nodes
    match loadAll f.succ lm (f.vars.length + f.succ.length + 2) f.succ {} m1 with
    | (.error e, m2) => (.error e, m2)
    | (.ok umap, m2) => (mapRoots umap f.roots, m2)

/-! ### the `dd.autoref` wrapping of results -/

/-- `Function(u, bdd)`: membership test, then `incref` -/
def dmpWrap (u : Int) : M Unit := fun m =>
  if !m.mem u then (.error .value, m) else incref u m

/-- `Function.__del__` -/
def dmpDrop (u : Int) : M Unit := decref u

def wrapList : List Int → M Unit
  | [] => fun m => (.ok (), m)
  | u :: rest => fun m =>
    match dmpWrap u m with
    | (.error e, m1) => (.error e, m1)
    | (.ok _, m1) => wrapList rest m1

/-- release handles; errors cannot occur for handles that were wrapped -/
def dropList : List Int → Mgr → Mgr
  | [], m => m
  | u :: rest, m => dropList rest (dmpDrop u m).2

/-- run `x`; afterwards the listed temporaries die, whether `x` raised or not -/
def withTemps (us : List Int) (x : M α) : M α := fun m =>
  match x m with
  | (r, m1) => (r, dropList us m1)

/-- `dd.autoref.BDD._load_pickle`: `_map_container(self._wrap, roots)`.
When a later `_wrap` raises, the `Function`s made so far die. -/
def loadPickleAutoref (f : PickleFile) (levels : Bool) : M Roots := fun m =>
  match loadPickle f levels m with
  | (.error e, m1) => (.error e, m1)
  | (.ok roots, m1) =>
    match wrapList roots.values m1 with
    | (.ok _, m2) => (.ok roots, m2)
    | (.error e, _) => (.error e, m1)

/-! ### whole manager: `_dump_manager`, `_load_manager` -/

/-- `u: (level, low, high)` of `_succ` -/
def dumpNodeEntry (x : Nat × Nd) : PEntry := ⟨x.1, x.2.lvl, some x.2.lo, some x.2.hi⟩

/-- `(level, low, high): u` of `_pred` -/
def predEntry (x : List Int × Nat) : Option PEntry :=
  match x.1 with
  | [i, v, w] => some ⟨x.2, i.toNat, some v, some w⟩
  | _ => none

def dumpManager (m : Mgr) : ManagerFile :=
  { vars := m.tbl.vars.toList
    roots := m.roots
    pred := ⟨1, m.nvars, none, none⟩ :: m.pred.toList.filterMap predEntry
    succ := ⟨1, m.nvars, none, none⟩ :: m.tbl.succ.toList.map dumpNodeEntry
    ref := m.ref.toList
    minFree := m.minFree }

/-- `BDD(levels)`: `_assert_valid_ordering`, then `add_var(var, level)` in `dict` order -/
def addVars : List (String × Nat) → M Unit
  | [] => fun m => (.ok (), m)
  | (v, l) :: rest => fun m =>
    match addVar v (some (l : Int)) m with
    | (.error e, m1) => (.error e, m1)
    | (.ok _, m1) => addVars rest m1

def validOrdering (levels : List (String × Nat)) : Bool :=
  let n := levels.length
  let nums := levels.map (·.2)
  (List.range n).all (fun i => nums.contains i) && nums.all (fun k => k < n)

def mkBDD (levels : List (String × Nat)) : Except Err Mgr :=
  if !validOrdering levels then .error .assertion else
  match addVars levels {} with
  | (.error e, _) => .error e
  | (.ok _, m) => .ok m

def PEntry.nd? (e : PEntry) : Option (Nat × Nd) :=
  match e.lo, e.hi with
  | some v, some w => some (e.id, ⟨e.lvl, v, w⟩)
  | _, _ => none

/-- `_load_manager(filename)`: a new manager from the content of the file.
The model keeps the terminal implicit, so a file whose terminal entries are not
`1 ↦ (len(vars), None, None)` is outside the model (`OtherError`). -/
def loadManager (f : ManagerFile) : Except Err Mgr :=
  match mkBDD f.vars with
  | .error e => .error e
  | .ok m =>
    let term : PEntry := ⟨1, f.vars.length, none, none⟩
    if !(f.succ.filter (fun e => e.nd?.isNone) == [term]
         && f.pred.filter (fun e => e.nd?.isNone) == [term]) then .error .other else
    -- `bdd._pred = d['pred']` etc.: the unpickled dicts replace the constructor's
    .ok { m with
      roots := f.roots
      pred := TreeMap.ofList ((f.pred.filterMap PEntry.nd?).map fun (u, n) => (n.key, u))
      tbl := { m.tbl with succ := TreeMap.ofList (f.succ.filterMap PEntry.nd?) }
      ref := TreeMap.ofList f.ref
      minFree := f.minFree }

/-! ### JSON: `_copy.dump_json` through the `Function` interface -/

/-- `_dump_bdd(u, fd, cache)`: low, then high, then the node's own line; memo by node id.
`u.low`, `u.high`, `u.level` are plain reads of `_succ[abs(u.node)]`; the value
written for an edge is the signed integer itself (`"T"`/`"F"` for `±1`).
The `Function` temporaries made on the way (`u.low`, `~ u`, `bdd.true`, …) are released
before `dump_json` returns: the source manager is unchanged. -/
def dumpJsonF (t : Tbl) : Nat → Int → List Nat → List JLine → Except Err (List Nat × List JLine)
  | 0, _, _, _ => .error .fuel
  | f+1, u, cache, out =>
    if u.natAbs = 1 then .ok (cache, out) else
    let k := u.natAbs
    if cache.contains k then .ok (cache, out) else
    match t.succ[k]? with
    | none => .error .key
    | some n =>
      match dumpJsonF t f n.lo cache out with
      | .error e => .error e
      | .ok (cache, out) =>
        match dumpJsonF t f n.hi cache out with
        | .error e => .error e
        | .ok (cache, out) => .ok (k :: cache, out ++ [⟨k, n.lvl, n.lo, n.hi⟩])

def dumpJsonRoots (t : Tbl) : List Int → List Nat → List JLine → Except Err (List Nat × List JLine)
  | [], cache, out => .ok (cache, out)
  | u :: rest, cache, out =>
    match dumpJsonF t (t.nvars + 2) u cache out with
    | .error e => .error e
    | .ok (cache, out) => dumpJsonRoots t rest cache out

/-- `autoref.BDD.dump(filename, roots)` for a JSON file: the content written.
`roots is None`: `ValueError`; an empty container: `StopIteration` from `next(iter(…))`;
a root that is not a node of the manager: `ValueError` from `Function(...)`. -/
def dumpJson (m : Mgr) (roots : Roots) : Except Err JsonFile :=
  match roots with
  | .none => .error .value
  | roots =>
    if roots.values.any (fun u => !m.mem u) then .error .value else
    if roots.values.isEmpty then .error .other else
    match dumpJsonRoots m.tbl roots.values [] [] with
    | .error e => .error e
    | .ok (_, out) => .ok { levelOfVar := m.tbl.vars.toList, roots := roots, nodes := out }

/-! ### JSON: `_copy.load_json` on a `dd.autoref.BDD` -/

/-- `BDD.assert_consistent()` (the terminal's entries are implicit in the model) -/
def dmpAssertConsistent : M Unit := fun m =>
  let t := m.tbl
  if m.roots.any (fun r => !m.mem r) then (.error .assertion, m) else
  -- `succ_keys == pred_values`, `pred_keys == succ_values` (set comparisons), and later
  -- `_pred[(i, v, w)] == u`: every node has its entry, every entry is the triple of its node
  -- (which also gives `len(set(succ_keys)) == len(set(succ_values))`)
  if !(t.succ.toList.all fun (u, n) => m.pred[n.key]? == some u) then (.error .assertion, m) else
  if !(m.pred.toList.all fun (k, u) =>
      match t.succ[u]? with
      | some n => n.key == k
      | none => false) then (.error .assertion, m) else
  if !(t.succ.toList.all fun (u, n) =>
      t.mem n.lo && 0 < n.hi && t.mem n.hi
      && (match t.levelOf? n.lo, t.levelOf? n.hi with
          | some a, some b => n.lvl < a && n.lvl < b
          | _, _ => false)
      && m.ref.contains u) then (.error .assertion, m) else
  (.ok (), m)

/-- `_node_from_int(uid, bdd, cache)`: the caller receives one `Function` (one reference
on the node).  For `uid < 0`: `u = bdd._add_int(k)` is wrapped, `~ u` makes the result's
`Function`, then the temporary `u` dies. -/
def nodeFromInt (cache : List (Nat × Int)) (uid : Int) : M Int := do
  if uid = -1 then
    dmpWrap (-1)
    return -1
  if uid = 1 then
    dmpWrap 1
    return 1
  let k ← M.ofOption .key (cache.lookup uid.natAbs)
  -- `bdd._add_int(k)`: `if i not in self: raise ValueError`, then `_wrap`
  dmpWrap k
  if uid < 0 then
    withTemps [k] do
      let r ← apply "not" k none none
      dmpWrap r
      return r
  else
    return k

/-- `autoref.BDD.__contains__` for a `Function` of this manager -/
def containsCheck (u : Int) : M Unit := do
  if !(← M.get).mem u then M.throw .value

/-- `Function.level`: `self.manager._succ[abs(self.node)][0]` (the terminal's entry is
`(len(vars), None, None)`) -/
def functionLevel (u : Int) : M Nat := do
  M.ofOption .key ((← M.get).tbl.levelOf? u)

/-- `_make_node(d, bdd, context, cache)`; `cache` is the shelf (insertion order). -/
def makeNode (loadOrder : Bool) (varAtLevel : List (Nat × String)) (ln : JLine)
    (cache : List (Nat × Int)) : M (List (Nat × Int)) := do
  -- `if k <= 1: raise AssertionError(k)` (1 is the terminal node)
  M.assert (1 < ln.id)
  if (cache.lookup ln.id).isSome then return cache
  let low ← nodeFromInt cache ln.lo
  withTemps [low] do
    let high ← nodeFromInt cache ln.hi
    withTemps [high] do
      let name ← M.ofOption .key (varAtLevel.lookup ln.lvl)
      if loadOrder then
        -- `i = bdd.level_of_var(var)`; `if i >= low.level or i >= high.level: raise ValueError`
        -- (`find_or_add` does not check it)
        let level ← levelOfVar name
        let lowLevel ← functionLevel low
        let highLevel ← functionLevel high
        if !(decide (level < lowLevel) && decide (level < highLevel)) then M.throw .value
        -- `autoref.BDD.find_or_add(var, low, high)`
        let u ← findOrAdd level low high
        dmpWrap u
        withTemps [u] do
          M.assert (0 ≤ u)
          incref u
          return cache ++ [(ln.id, u)]
      else
        let g ← var name
        dmpWrap g
        withTemps [g] do
          containsCheck g
          containsCheck high
          containsCheck low
          let u ← ite g high low
          dmpWrap u
          withTemps [u] do
            M.assert (0 ≤ u)
            incref u
            return cache ++ [(ln.id, u)]

def makeNodes (loadOrder : Bool) (varAtLevel : List (Nat × String)) :
    List JLine → List (Nat × Int) → M (List (Nat × Int))
  | [], cache => pure cache
  | ln :: rest, cache => do
    let cache ← makeNode loadOrder varAtLevel ln cache
    makeNodes loadOrder varAtLevel rest cache

/-- the roots of the result, each a live `Function`; when one raises the earlier ones die -/
def rootsFromInts (cache : List (Nat × Int)) : List Int → M (List Int)
  | [] => pure []
  | k :: rest => do
    let u ← nodeFromInt cache k
    fun m =>
      match rootsFromInts cache rest m with
      | (.ok us, m1) => (.ok (u :: us), m1)
      | (.error e, m1) => (.error e, (dmpDrop u m1).2)

def dropOpt : Option Int → Mgr → Mgr
  | none, m => m
  | some u, m => (dmpDrop u m).2

/-- the loop `for uid in cache:` at the end of the `try:` of `_load_json`: the assertions on the
counts of the loaded nodes (nothing is released here).  The loop variable `u` keeps the previous
`Function` alive until it is rebound.  Returns the `Function` that is still bound to `u` when the
loop is left, normally or by an exception (it is rebound by the first iteration of the loop that
releases the shelf, or dies when `_load_json` unwinds).  The shelf's iteration order is replaced
by insertion order: it only decides which of two failing assertions is reported. -/
def checkLoop (loadOrder : Bool) (cache : List (Nat × Int)) :
    List (Nat × Int) → Option Int → Mgr → (Except Err Unit × Option Int × Mgr)
  | [], prev, m => (.ok (), prev, m)
  | (k, _) :: rest, prev, m =>
    match nodeFromInt cache (k : Int) m with
    | (.error e, m1) => (.error e, prev, m1)
    | (.ok u, m1) =>
      let m2 := dropOpt prev m1
      let body : M Unit := do
        let c ← refOf u
        M.assert (2 ≤ c)
        if loadOrder then M.assert (3 ≤ c)
      match body m2 with
      | (.error e, m3) => (.error e, some u, m3)
      | (.ok _, m3) => checkLoop loadOrder cache rest (some u) m3

def Roots.rebuild : Roots → List Int → Roots
  | .none, _ => .none
  | .list _, us => .list us
  | .dict d, us => .dict ((d.map (·.1)).zip us)

/-- the node lines of `_load_json` with the shelf as it is when the loop is left — also when it
is left by an exception (`makeNodes` is its successful run) -/
def makeNodesE (loadOrder : Bool) (varAtLevel : List (Nat × String)) :
    List JLine → List (Nat × Int) → Mgr → (Except Err Unit × List (Nat × Int) × Mgr)
  | [], cache, m => (.ok (), cache, m)
  | ln :: rest, cache, m =>
    match makeNode loadOrder varAtLevel ln cache m with
    | (.error e, m1) => (.error e, cache, m1)
    | (.ok cache1, m1) => makeNodesE loadOrder varAtLevel rest cache1 m1

/-- the line `level_of_var` (`_store_line`): `bdd.declare(*order)`, and `bdd.reorder(order)`
when the order is to be loaded -/
def jsonHeader (f : JsonFile) (loadOrder : Bool) : M Unit := do
  declare (f.levelOfVar.map (·.1))
  if loadOrder then
    reorder (some (f.levelOfVar.map fun (v, l) => (v, (l : Int))))

/-- `roots = {name: _node_from_int(k, …)}` / `[_node_from_int(k, …) …]` -/
def jsonRoots (f : JsonFile) (cache : List (Nat × Int)) : M (List Int) := do
  let ks ← (match f.roots with
    | .none => M.throw .key      -- `context['roots']` missing
    | r => pure r.values)
  rootsFromInts cache ks

/-- the body of the `try:` of `_load_json`: the line `level_of_var`, the node lines, the
conversion of the roots, the checks of the counts.  Returns the roots (live `Function`s) or the
exception, and in both cases the shelf and the `Function` still bound to the loop variable `u`
(`none` before the loop of the checks).  When the checks raise, the `Function`s of `roots` die
with the frame (after the handler in Python, here: the counts commute). -/
def jsonTry (f : JsonFile) (loadOrder : Bool) :
    Mgr → (Except Err (List Int) × List (Nat × Int) × Option Int × Mgr) := fun m =>
  let varAtLevel := f.levelOfVar.foldl (fun acc (v, l) => (l, v) :: acc) []
  match jsonHeader f loadOrder m with
  | (.error e, m1) => (.error e, [], none, m1)
  | (.ok _, m1) =>
    match makeNodesE loadOrder varAtLevel f.nodes [] m1 with
    | (.error e, cache, m2) => (.error e, cache, none, m2)
    | (.ok _, cache, m2) =>
      match jsonRoots f cache m2 with
      | (.error e, m3) => (.error e, cache, none, m3)
      | (.ok us, m3) =>
        match checkLoop loadOrder cache cache none m3 with
        | (.error e, last, m4) => (.error e, cache, last, dropList us m4)
        | (.ok _, last, m4) => (.ok us, cache, last, m4)

/-- `for uid in cache: u = _node_from_int(…); bdd.decref(u, _direct=True)` — the references
`_make_node` took are given back.  The same loop runs in `except BaseException:` and, after a
successful `try:`, as "rm refs to cached nodes".  The loop variable keeps the previous `Function`
alive until it is rebound (`prev`: at first the one left by the loop of the checks). -/
def releaseFailed (cache : List (Nat × Int)) :
    List (Nat × Int) → Option Int → Mgr → (Except Err Unit × Option Int × Mgr)
  | [], prev, m => (.ok (), prev, m)
  | (k, _) :: rest, prev, m =>
    match nodeFromInt cache (k : Int) m with
    | (.error e, m1) => (.error e, prev, m1)
    | (.ok u, m1) =>
      let m2 := dropOpt prev m1
      match decref u m2 with
      | (.error e, m3) => (.error e, some u, m3)
      | (.ok _, m3) => releaseFailed cache rest (some u) m3

/-- what `_load_json` does when the `try` block is left: by an exception — `except
BaseException:` releases the shelf's references and re-raises (with `load_order=True`
reordering then stays switched off: `configure` is not reached) — or normally: the shelf's
references are released, `assert_consistent`, `configure(reordering=old_reordering)`.
(The temporaries of a failing frame die when the exception is dropped — after the handler in
Python, before it here: the counts commute.) -/
def jsonFinish (f : JsonFile) (loadOrder : Bool) :
    (Except Err (List Int) × List (Nat × Int) × Option Int × Mgr) → (Except Err Roots × Mgr)
  | (.error e, cache, prev, m1) =>
    -- `except BaseException: … raise`
    let (r, last, m2) := releaseFailed cache cache prev m1
    match r with
    | .ok _ => (.error e, dropOpt last m2)
    | .error e' => (.error e', dropOpt last m2)
  | (.ok us, cache, prev, m) =>
    let roots := f.roots.rebuild us
    -- on an exception below the `Function`s in `roots` die with the frame
    let (r, last, m1) := releaseFailed cache cache prev m
    let fin : M Unit := do
      liftE r
      dmpAssertConsistent
      if loadOrder then
        let _ ← configure (some true)
    match fin m1 with
    | (.ok _, m2) => (.ok roots, dropOpt last m2)
    | (.error e, m2) => (.error e, dropList us (dropOpt last m2))

/-- `_copy.load_json(file_name, bdd, load_order)` for a `dd.autoref.BDD`, on the
content of the file.  The returned references are live `Function`s: each holds one
reference; every other temporary has been released when the call returns.

`old_reordering = bdd.configure(reordering=False)` binds the *dict* that `configure`
returns, so `bdd.configure(reordering=old_reordering)` at the end passes a non-empty
dict (truthy): after a successful `load_order=True` dynamic reordering is always ENABLED. -/
def loadJson (f : JsonFile) (loadOrder : Bool) : M Roots := do
  if loadOrder then
    let _ ← configure (some false)
  fun m => jsonFinish f loadOrder (jsonTry f loadOrder m)

/-- `del` of the `Function`s returned by a load -/
def dropRoots (r : Roots) : M Unit := fun m => (.ok (), dropList r.values m)

end DD
