/-
  DD.TableTypes — shapes of the tables that `harness/extract.py` regenerates
  from /repo's source on every run (Generated/Tables.lean).
-/
namespace DD

/-- an argument of `self.ite(...)` inside `apply` -/
inductive Atom
  | u | v | w | nu | nv | nw | one | mone | bad
deriving Repr, DecidableEq, Inhabited

/-- the body of one `op in (...)` branch of `apply` -/
inductive Templ
  | neg                                   -- `return -u`
  | ite (a b c : Atom)                    -- `return self.ite(a, b, c)`
  | quant (forall_ : Bool) (varsFrom body : Atom)
      -- `qvars = self.support(varsFrom); return self.quantify(body, qvars, forall=forall_)`
  | notImpl                               -- `raise NotImplementedError`
  | bad                                   -- not recognised by the translator
deriving Repr, DecidableEq, Inhabited

structure ApplyRow where
  aliases : List String
  templ : Templ
deriving Repr, DecidableEq, Inhabited

inductive Assoc | left | right
deriving Repr, DecidableEq, Inhabited

end DD
