/-
  DD.Core — `find_or_add`, `_top_cofactor`, `_ite`, reference counters.
  Mirrors dd/bdd.py line by line (see the comments for the Python it models).
-/
import DD.Basic
import Generated.Tables
open Std

namespace DD

/-- `_request_reordering(bdd)` -/
def requestReordering : M Unit := fun m =>
  match m.lastLen with
  | none => (.ok (), m)
  | some l =>
    match m.fireIn with
    | some k =>
      -- harness-controlled trigger: the k-th eligible request fires
      if k ≤ 1 then (.error .needsReordering, { m with fireIn := none })
      else (.ok (), { m with fireIn := some (k - 1) })
    | none =>
      if m.len ≥ Gen.reorderFactor * l then (.error .needsReordering, m) else (.ok (), m)

/-- `self._ref[abs(u)] += 1` -/
def incref (u : Int) : M Unit := fun m =>
  match m.ref[u.natAbs]? with
  | none => (.error .key, m)
  | some c => (.ok (), { m with ref := m.ref.insert u.natAbs (c + 1) })

/-- `decref`: floor at 0 (the Python code warns and returns) -/
def decref (u : Int) : M Unit := fun m =>
  match m.ref[u.natAbs]? with
  | none => (.error .key, m)
  | some c =>
    if c = 0 then (.ok (), m)
    else (.ok (), { m with ref := m.ref.insert u.natAbs (c - 1) })

/-- `ref(u)` -/
def refOf (u : Int) : M Nat := fun m =>
  match m.ref[u.natAbs]? with
  | none => (.error .key, m)
  | some c => (.ok c, m)

/-- `_next_free_int(start)`: smallest `i ≥ start` not in `_succ` -/
def nextFree (s : TreeMap Nat Nd) : Nat → Nat → Nat
  | 0, i => i
  | f+1, i => if i = 1 ∨ s.contains i then nextFree s f (i+1) else i

/-- `find_or_add(i, v, w)` without the reordering request -/
def findOrAddCore (i : Nat) (v w : Int) : M Int := fun m =>
  if m.nvars ≤ i then (.error .value, m) else
  if !m.mem v then (.error .value, m) else
  if !m.mem w then (.error .value, m) else
  let r : Int := if w < 0 then -1 else 1
  let v' := if w < 0 then -v else v
  let w' := if w < 0 then -w else w
  if v' = w' then (.ok (r * v'), m) else
  let t : Nd := ⟨i, v', w'⟩
  match m.pred[t.key]? with
  | some u => (.ok (r * (u : Int)), m)
  | none =>
    let u := m.minFree
    if u ≤ 1 then (.error .assertion, m) else
    if m.tbl.succ.contains u then (.error .assertion, m) else
    let succ' := m.tbl.succ.insert u t
    let m1 : Mgr := { m with
      tbl := { m.tbl with succ := succ' }
      pred := m.pred.insert t.key u
      ref := m.ref.insert u 0
      minFree := nextFree succ' (succ'.size + 2) u }
    match incref v' m1 with
    | (.error e, m2) => (.error e, m2)
    | (.ok _, m2) =>
      match incref w' m2 with
      | (.error e, m3) => (.error e, m3)
      | (.ok _, m3) => (.ok (r * (u : Int)), m3)

/-- `find_or_add(i, v, w)` for a level given as a Python int -/
def findOrAdd (i : Int) (v w : Int) : M Int := fun m =>
  -- `if self._reordering_context: _request_reordering(self)`
  match (if m.ctx then requestReordering m else (.ok (), m)) with
  | (.error e, m1) => (.error e, m1)
  | (.ok _, m1) =>
    if i < 0 then (.error .value, m1) else findOrAddCore i.toNat v w m1

/-- `_top_cofactor(u, i)` -/
def topCofactor (t : Tbl) (u : Int) (i : Nat) : Except Err (Int × Int) :=
  if u.natAbs = 1 then .ok (u, u) else
  match t.succ[u.natAbs]? with
  | none => .error .key
  | some n =>
    if i < n.lvl then .ok (u, u) else
    if n.lvl ≠ i then .error .assertion else
    if u < 0 then .ok (-n.lo, -n.hi) else .ok (n.lo, n.hi)

def liftE (x : Except Err α) : M α := fun m =>
  match x with
  | .ok a => (.ok a, m)
  | .error e => (.error e, m)

/-- `_ite(g, u, v)`; fuel bounds the recursion depth (levels strictly increase).
Written without `do` so that proofs can unfold it. -/
def iteF : Nat → Int → Int → Int → M Int
  | 0, _, _, _ => fun m => (.error .fuel, m)
  | f+1, g, u, v => fun m =>
    if g = 1 then (.ok u, m) else
    if g = -1 then (.ok v, m) else
    match m.cache[iteKey g u v]? with
    | some w => (.ok w, m)
    | none =>
      match m.tbl.levelOf? g, m.tbl.levelOf? u, m.tbl.levelOf? v with
      | some lg, some lu, some lv =>
        let z := min lg (min lu lv)
        match topCofactor m.tbl g z, topCofactor m.tbl u z, topCofactor m.tbl v z with
        | .ok (g0, g1), .ok (u0, u1), .ok (v0, v1) =>
          match iteF f g0 u0 v0 m with
          | (.error e, m1) => (.error e, m1)
          | (.ok p, m1) =>
            match iteF f g1 u1 v1 m1 with
            | (.error e, m2) => (.error e, m2)
            | (.ok q, m2) =>
              match findOrAdd z p q m2 with
              | (.error e, m3) => (.error e, m3)
              | (.ok w, m3) => (.ok w, { m3 with cache := m3.cache.insert (iteKey g u v) w })
        | .error e, _, _ => (.error e, m)
        | _, .error e, _ => (.error e, m)
        | _, _, .error e => (.error e, m)
      | _, _, _ => (.error .key, m)

/-- `_ite` with the fuel the invariant makes sufficient -/
def iteRaw (g u v : Int) : M Int := do
  let m ← M.get
  iteF (m.nvars + 2) g u v

end DD
