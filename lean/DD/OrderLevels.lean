/-
  DD.OrderLevels — `swap` and its callers with the caller's dict of level sets THREADED, as the
  Python code does it.

  `BDD.swap(x, y, all_levels)` iterates over `all_levels[x]`, `all_levels[y]` — a dict computed
  ONCE by the caller (`levels = bdd._levels()` in `_apply_sifting`, `_sort_to_order`,
  `reorder_to_pairs`; in `swap` itself when `all_levels is None`) — and at its end PATCHES the
  two entries from the sets `newx`, `newy` it builds in its three closing loops:
  `all_levels[x] = newy; all_levels[y] = newx`.  The model of DD.Order recomputes the level sets
  from `_succ` at every swap (`takeSwapOrders`: `nodesAt m.tbl j`) and its `checkNewLevels`
  performs the assertions of the closing loops without building the sets.

  Here the dict is explicit: `LevelSets`; `levelSets` is `_levels()`; `checkNewLevelsL` builds
  `newx`, `newy` with the same assertions in the same order; `swapWithL` patches the dict; the
  iteration order of `all_levels[j]` is taken from the recorded schedule as in DD.Order (checked
  to be a permutation of the THREADED set), ascending when no schedule is recorded.  `shiftL`,
  `reorderVarL`, `applySiftingL`, `sortToOrderL`, `reorderToPairsL` thread it as the Python
  functions pass `levels` along.  DDProofs.SwapLevels* prove that the threaded dict always holds
  exactly the level sets, hence that these functions compute what the ones of DD.Order compute.
-/
import DD.Ops
open Std

namespace DD

/-- the caller's `levels` / `all_levels`: level ↦ set of nodes (a list without order meaning) -/
abbrev LevelSets := TreeMap Nat (List Nat)

/-- `bdd._levels()`: one entry per level of a declared variable, holding the nodes whose level
it is (the entry of the terminal's level is popped) -/
def levelSets (m : Mgr) : LevelSets :=
  (m.tbl.vars.toList.map (·.2)).foldl (fun acc j => acc.insert j (nodesAt m.tbl j)) {}

/-- iteration orders of `all_levels[x]`, `all_levels[y]` for this swap, from the THREADED dict
(`KeyError` when an entry is missing) -/
def takeSwapOrdersL (al : LevelSets) (x y : Nat) : M (List Nat × List Nat) := do
  let m ← M.get
  let sx ← M.ofOption .key al[x]?
  let sy ← M.ofOption .key al[y]?
  -- a Python `set`: no repetitions; the model's default iteration order is ascending
  let dx := sortNat (dedup sx)
  let dy := sortNat (dedup sy)
  match m.sched with
  | [] => return (dx, dy)
  | .swap lv :: rest =>
    M.set { m with sched := rest }
    let ox := (lv.lookup x).getD []
    let oy := (lv.lookup y).getD []
    if isPerm ox dx && isPerm oy dy then return (ox, oy) else M.throw .sched
  | _ :: _ => M.throw .sched

/-- `for u in levels[x]: if u not in self._succ: continue; i = self._succ[u][0];
if i == x: newy.add(u) elif i == y: newx.add(u) else: raise AssertionError` -/
def newSetsX (m : Mgr) (x y : Nat) : List (Nat × Int × Int) → List Nat × List Nat →
    M (List Nat × List Nat)
  | [], acc => pure acc
  | (u, _, _) :: rest, (nx, ny) =>
    match m.tbl.succ[u]? with
    | none => newSetsX m x y rest (nx, ny)
    | some n =>
      if n.lvl = x then newSetsX m x y rest (nx, pushNew ny u)
      else if n.lvl = y then newSetsX m x y rest (pushNew nx u, ny)
      else M.throw .assertion

/-- `for u in xfresh: i = self._succ[u][0]; assert i == y; newx.add(u)` -/
def newSetsFresh (m : Mgr) (y : Nat) : List Nat → List Nat → M (List Nat)
  | [], nx => pure nx
  | u :: rest, nx => do
    let n ← M.ofOption .key (m.tbl.succ[u]?)
    M.assert (n.lvl = y)
    newSetsFresh m y rest (pushNew nx u)

/-- `for u in levels[y]: if u not in self._succ: continue; i = self._succ[u][0];
assert i == x; newy.add(u)` -/
def newSetsY (m : Mgr) (x : Nat) : List (Nat × Int × Int) → List Nat → M (List Nat)
  | [], ny => pure ny
  | (u, _, _) :: rest, ny =>
    match m.tbl.succ[u]? with
    | none => newSetsY m x rest ny
    | some n => do
      M.assert (n.lvl = x)
      newSetsY m x rest (pushNew ny u)

/-- the three closing loops of `swap`, building `(newx, newy)` -/
def checkNewLevelsL (x y : Nat) (lx ly : List (Nat × Int × Int)) (xfresh : List Nat) :
    M (List Nat × List Nat) := do
  let m ← M.get
  let (nx, ny) ← newSetsX m x y lx ([], [])
  let nx ← newSetsFresh m y xfresh nx
  let ny ← newSetsY m x ly ny
  return (nx, ny)

/-- `swap` once the iteration orders are fixed; returns the patched dict:
`all_levels[x] = newy; all_levels[y] = newx` -/
def swapWithL (al : LevelSets) (x y : Nat) (oldsize : Nat) (ox oy : List Nat) :
    M ((Nat × Nat) × LevelSets) := do
  let (lx, ly, garbage, xfresh) ← swapNodes x y ox oy
  exchangeNames x y
  collectGarbage (some (garbage.map (fun (k : Nat) => (k : Int))))
  let m ← M.get
  let newsize := m.len
  let (newx, newy) ← checkNewLevelsL x y lx ly xfresh
  return ((oldsize, newsize), (al.insert x newy).insert y newx)

/-- body of `swap` after argument validation -/
def swapBodyL (al : LevelSets) (x y : Nat) : M ((Nat × Nat) × LevelSets) := do
  let m ← M.get
  let oldsize := m.len
  let (ox, oy) ← takeSwapOrdersL al x y
  swapWithL al x y oldsize ox oy

/-- `swap(x, y, all_levels)`; `none` models `all_levels is None` (full collection, then
`all_levels = self._levels()`) -/
def swapL (xa ya : VarOrLevel) (al : Option LevelSets) : M ((Nat × Nat) × LevelSets) := do
  let al ← match al with
    | some al => pure al
    | none => do
      collectGarbage none
      let m ← M.get
      pure (levelSets m)
  let x ← resolveVL xa
  let y ← resolveVL ya
  let m ← M.get
  if !(0 ≤ x && x < m.nvars) then M.throw .value else
  if !(0 ≤ y && y < m.nvars) then M.throw .value else
  let lo := if x > y then y else x
  let hi := if x > y then x else y
  if lo ≥ hi then M.throw .value else
  if hi - lo ≠ 1 then M.throw .value else
  swapBodyL al lo.toNat hi.toNat

def shiftLoopL : Nat → Int → Int → Int → List (Nat × Nat) → LevelSets →
    M (List (Nat × Nat) × LevelSets)
  | 0, i, e, _, sizes, al => if i = e then pure (sizes, al) else M.throw .fuel
  | f+1, i, e, d, sizes, al =>
    if i = e then pure (sizes, al) else do
      let j := i + d
      let ((oldn, n), al) ← swapL (.level i) (.level j) (some al)
      let sizes := assocSet sizes i.toNat oldn
      let sizes := assocSet sizes j.toNat n
      shiftLoopL f j e d sizes al

/-- `_shift(bdd, start, end, levels)` -/
def shiftL (start end_ : Nat) (al : LevelSets) : M (List (Nat × Nat) × LevelSets) := do
  let m ← M.get
  M.assert (start < m.nvars)
  M.assert (end_ < m.nvars)
  let d : Int := if start < end_ then 1 else -1
  shiftLoopL (m.nvars + 1) start end_ d [] al

/-- `_reorder_var(bdd, var, levels)` -/
def reorderVarL (var : String) (al : LevelSets) : M (Nat × LevelSets) := do
  let m ← M.get
  if !m.tbl.vars.contains var then M.throw .value else
  let len0 := m.len
  M.assert (0 < m.nvars)
  let n := m.nvars - 1
  let level ← levelOfVar var
  let (start, end_) := if 2 * level ≥ n then (n, 0) else (0, n)
  let (_, al) ← shiftL level start al
  let (sizes, al) ← shiftL start end_ al
  let k ← M.ofOption .value (argMin sizes)
  let (_, al) ← shiftL end_ k al
  let m ← M.get
  let len1 := m.len
  M.assert ((sizes.lookup k) = some len1)
  M.assert (len1 ≤ len0)
  return (k, al)

/-- `for var in names: _reorder_var(bdd, var, levels)` -/
def siftVarsL : List String → LevelSets → M (Unit × LevelSets)
  | [], al => pure ((), al)
  | var :: rest, al => do
    let (_, al) ← reorderVarL var al
    siftVarsL rest al

/-- `_apply_sifting(bdd)`: `levels = bdd._levels()` once, after the collection -/
def applySiftingL : M Unit := do
  collectGarbage none
  let m ← M.get
  let n := m.len
  let al := levelSets m
  let names ← takeSiftOrder
  if names.isEmpty then M.throw .other else
  let _ ← siftVarsL names al
  let m ← M.get
  M.assert (m.len ≤ n)

/-- one comparison of the bubble sort -/
def sortStepL (order : List (String × Int)) (i : Nat) (al : LevelSets) :
    M (Unit × LevelSets) := do
  checkRoots
  let x ← varAtLevel i
  let y ← varAtLevel (i + 1)
  let p ← M.ofOption .key (order.lookup x)
  let q ← M.ofOption .key (order.lookup y)
  if p > q then
    let (_, al) ← swapL (.level i) (.level (i + 1)) (some al)
    return ((), al)
  else return ((), al)

def sortInnerL (order : List (String × Int)) : List Nat → LevelSets → M (Unit × LevelSets)
  | [], al => pure ((), al)
  | i :: rest, al => do
    let (_, al) ← sortStepL order i al
    sortInnerL order rest al

def sortOuterL (order : List (String × Int)) (n : Nat) : Nat → LevelSets → M (Unit × LevelSets)
  | 0, al => pure ((), al)
  | k+1, al => do
    let (_, al) ← sortInnerL order (List.range (n - 1)) al
    sortOuterL order n k al

/-- `_sort_to_order(bdd, order)`: `levels = bdd._levels()` once -/
def sortToOrderL (order : List (String × Int)) : M Unit := do
  let m ← M.get
  if m.nvars ≠ order.length then M.throw .value else
  let n := order.length
  let _ ← sortOuterL order n n (levelSets m)

/-- `reorder(bdd, order)` -/
def reorderL (order : Option (List (String × Int))) : M Unit :=
  match order with
  | none => applySiftingL
  | some o => sortToOrderL o

/-- one pair of `reorder_to_pairs` -/
def pairStepL (x y : String) (al : LevelSets) : M (Unit × LevelSets) := do
  let jx ← levelOfVar x
  let jy ← levelOfVar y
  let k := if jx ≤ jy then jy - jx else jx - jy
  M.assert (0 < k)
  if k ≠ 1 then
    let (jx, jy) := if jx > jy then (jy, jx) else (jx, jy)
    let (_, al) ← shiftL jx (jy - 1) al
    return ((), al)
  else return ((), al)

def pairsLoopL : List (String × String) → LevelSets → M (Unit × LevelSets)
  | [], al => pure ((), al)
  | (x, y) :: rest, al => do
    let (_, al) ← pairStepL x y al
    pairsLoopL rest al

/-- `reorder_to_pairs(bdd, pairs)`: `levels = bdd._levels()` once -/
def reorderToPairsL (pairs : List (String × String)) : M Unit := do
  let m ← M.get
  let _ ← pairsLoopL pairs (levelSets m)

end DD
