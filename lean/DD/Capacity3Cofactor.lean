/-
  DD.Capacity3Cofactor — `_cofactor` / `BDD.cofactor` (= `let` with Boolean values) over any
  `find_or_add`: the text of `cofactorF`, `cofactorBody`, `cofactor` of DD.Ops with the call
  abstracted (`cofactorFG findOrAdd = cofactorF`), and the instances `max_nodes = cap`.
-/
import DD.Capacity3
open Std

namespace DD

def cofactorFG (foa : Int → Int → Int → M Int) (values : List (Nat × Bool)) :
    Nat → Int → List Nat → HashMap Int Int → M (Int × HashMap Int Int)
  | 0, _, _, _ => fun m => (.error .fuel, m)
  | f+1, u, ordvar, cache => fun m =>
    if u.natAbs = 1 then (.ok (u, cache), m) else
    match cache[u]? with
    | some r => (.ok (r, cache), m)
    | none =>
      match m.tbl.succ[u.natAbs]? with
      | none => (.error .key, m)
      | some n =>
        if n.lo = 0 ∨ n.hi = 0 then (.error .assertion, m) else
        let ordvar := ordvar.dropWhile (· < n.lvl)
        if ordvar.isEmpty then (.ok (u, cache), m) else
        match values.lookup n.lvl with
        | some val =>
          match cofactorFG foa values f (if val then n.hi else n.lo) ordvar cache m with
          | (.error e, m1) => (.error e, m1)
          | (.ok (r, cache), m1) =>
            let r := if u < 0 then -r else r
            (.ok (r, cache.insert u r), m1)
        | none =>
          match cofactorFG foa values f n.lo ordvar cache m with
          | (.error e, m1) => (.error e, m1)
          | (.ok (p, cache), m1) =>
            match cofactorFG foa values f n.hi ordvar cache m1 with
            | (.error e, m2) => (.error e, m2)
            | (.ok (q, cache), m2) =>
              match foa n.lvl p q m2 with
              | (.error e, m3) => (.error e, m3)
              | (.ok r, m3) =>
                let r := if u < 0 then -r else r
                (.ok (r, cache.insert u r), m3)

def cofactorBodyG (foa : Int → Int → Int → M Int) (u : Int) (values : List (Key × Bool)) : M Int := fun m =>
  match mapToLevelE m.tbl (values.map (·.1)) with
  | .error e => (.error e, m)
  | .ok lv =>
    let lvals := (lv.zip (values.map (·.2))).reverse
    let ordvar := sortNat (dedup lv)
    if !m.mem u then (.error .value, m) else
    match cofactorFG foa lvals (m.nvars + 2) u ordvar {} m with
    | (.error e, m1) => (.error e, m1)
    | (.ok (r, _), m1) => (.ok r, m1)

def cofactorG (foa : Int → Int → Int → M Int) (u : Int) (values : List (Key × Bool)) : M Int :=
  tryToReorder (cofactorBodyG foa u values)

/-- `BDD.cofactor` / `let` with Boolean values, of a manager with `max_nodes = cap` -/
def cofactorCap (cap : Nat) : Int → List (Key × Bool) → M Int := cofactorG (findOrAddCap cap)
def cofactorCapL (cap : Nat) : Int → List (Key × Bool) → M Int := cofactorG (findOrAddCapL cap)
def cofactorCapO (cap : Nat) : Int → List (Key × Bool) → M Int := cofactorG (findOrAddCapO cap)

/-- `BDD.let({name: bool}, u)`: the empty dictionary returns `u` -/
def letBoolsG (cof : Int → List (Key × Bool) → M Int) (d : List (Key × Bool)) (u : Int) : M Int :=
  match d with
  | [] => pure u
  | d => cof u d

end DD
