/-
  DD.Dyn — `_ReorderingContext`, `_try_to_reorder`, `configure`, and the two
  smallest decorated entry points (`ite`, `var`).
-/
import DD.Order
open Std

namespace DD

/-- `with _ReorderingContext(bdd): return func(...)`:
returns `none` when a non-nested `_NeedsReordering` was swallowed -/
def withCtx (f : M α) : M (Option α) := fun m =>
  let nested := m.ctx
  match f { m with ctx := true } with
  | (.ok a, m1) => (.ok (some a), { m1 with ctx := nested })
  | (.error e, m1) =>
    let m1 := { m1 with ctx := nested }
    if e = .needsReordering && !nested then (.ok none, m1) else (.error e, m1)

/-- the decorator `_try_to_reorder` -/
def tryToReorder (f : M α) : M α := do
  match ← withCtx f with
  | some a => return a
  | none =>
    -- disable reordering requests while swapping
    M.modify fun m => { m with lastLen := none }
    reorder none
    let m ← M.get
    let lenAfter := m.len
    -- try again (second `with` block: a `_NeedsReordering` here would be swallowed
    -- and `r` unbound; cannot happen because `_last_len is None`)
    -- `try: ... finally: bdd._last_len = GROWTH_FACTOR * len_after`
    fun m0 =>
      match withCtx f m0 with
      | (.ok none, m1) =>
        (.error .other, { m1 with lastLen := some (Gen.growthFactor * lenAfter) })
      | (.ok (some r), m1) =>
        (.ok r, { m1 with lastLen := some (Gen.growthFactor * lenAfter) })
      | (.error e, m1) =>
        (.error e, { m1 with lastLen := some (Gen.growthFactor * lenAfter) })

/-- `BDD.ite` -/
def ite (g u v : Int) : M Int := tryToReorder (iteRaw g u v)

/-- `BDD.var` -/
def var (name : String) : M Int := tryToReorder do
  let m ← M.get
  match m.tbl.vars[name]? with
  | none => M.throw .value
  | some j => findOrAdd j (-1) 1

/-- `configure(reordering=...)`; returns the old value -/
def configure (reordering : Option Bool) : M Bool := do
  let m ← M.get
  let old := m.lastLen.isSome
  match reordering with
  | none => pure ()
  | some true => M.set { m with lastLen := some (max Gen.reorderStarts m.len) }
  | some false => M.set { m with lastLen := none }
  return old

end DD
