/-
  DD.Mdd — model of `dd/mdd.py`: class `MDD` (n-ary nodes `(level, *successors)`,
  first edge regular, complemented edges as negative ints, `_allocate/_release`
  with the `_free` set, `incref/decref/ref`, `find_or_add`, `ite`, `_top_cofactor`,
  `apply`, `collect_garbage`) and the function `bdd_to_mdd(bdd, dvars)`.
  Mirrors the Python line by line; no Mathlib.

  Python `set.pop()` on `_free` is told to the model as a recorded schedule
  (`MddMgr.sched`, the popped integers in order), like `DD.SchedItem` for swaps.
  The iteration order of `bdd.levels(skip_terminals=True)` inside `bdd_to_mdd`
  (insertion order of the `_succ` dict inside one level) is recorded too.
-/
import DD.Apply
open Std

namespace DD

/-- one entry of `dvars`: `name ↦ {'level': …, 'len': …, 'bitnames': […]}` -/
structure MVar where
  name : String
  level : Nat
  len : Nat
  bits : List String := []
deriving Repr, DecidableEq, Inhabited

/-- an MDD node `(level, *successors)` -/
structure MNd where
  lvl : Nat
  kids : List Int
deriving Repr, DecidableEq, Inhabited

/-- key of a node in `_pred`: the tuple `(level, *successors)` -/
def MNd.key (n : MNd) : List Int := (n.lvl : Int) :: n.kids

/-- the part of the MDD manager the denotation reads -/
structure MTbl where
  succ : TreeMap Nat MNd := {}
  /-- `mdd.vars` in dict order -/
  vars : List MVar := []
  /-- `1 in self._succ` (false only for `MDD()` without `dvars`) -/
  term : Bool := true

structure MddMgr where
  tbl : MTbl := {}
  pred : TreeMap (List Int) Nat := {}
  ref : TreeMap Nat Nat := {}
  max : Nat := 1
  /-- `_free`, kept sorted -/
  free : List Nat := []
  cache : TreeMap (List Int) Int := {}
  /-- recorded results of `self._free.pop()` -/
  sched : List Nat := []

instance : Inhabited MddMgr := ⟨{}⟩

namespace MTbl
/-- `len(self.vars)` -/
def nvars (t : MTbl) : Nat := t.vars.length
def node? (t : MTbl) (u : Nat) : Option MNd := t.succ[u]?
/-- `_level_to_var[i]`: a dict comprehension over `vars.items()`, later entries win -/
def varAt? (t : MTbl) (i : Nat) : Option MVar := t.vars.reverse.find? (fun v => v.level == i)
/-- `abs(u) in self._succ` -/
def mem (t : MTbl) (u : Int) : Bool := (u.natAbs == 1 && t.term) || t.succ.contains u.natAbs
/-- `self._succ[abs(u)][0]` -/
def levelOf? (t : MTbl) (u : Int) : Option Nat :=
  if u.natAbs = 1 then (if t.term then some t.nvars else none)
  else (t.succ[u.natAbs]?).map (·.lvl)
end MTbl

/-- `MDD(dvars)`; `none` models `MDD()` -/
def MddMgr.new (dvars : Option (List MVar)) : MddMgr :=
  match dvars with
  | none => { tbl := { term := false } }
  | some dv => { tbl := { vars := dv, term := true }, ref := ({} : TreeMap Nat Nat).insert 1 0 }

namespace MddMgr
def mem (m : MddMgr) (u : Int) : Bool := m.tbl.mem u
/-- `len(mdd)` -/
def len (m : MddMgr) : Nat := m.tbl.succ.size + (if m.tbl.term then 1 else 0)
end MddMgr

/-- the monad of the MDD model: state persists when an exception is raised -/
def MM (α : Type) := MddMgr → Except Err α × MddMgr

namespace MM
@[inline] def pure' (a : α) : MM α := fun m => (.ok a, m)
@[inline] def bind' (x : MM α) (f : α → MM β) : MM β := fun m =>
  match x m with
  | (.ok a, m') => f a m'
  | (.error e, m') => (.error e, m')
instance : Monad MM where
  pure := pure'
  bind := bind'
@[inline] def throw (e : Err) : MM α := fun m => (.error e, m)
@[inline] def get : MM MddMgr := fun m => (.ok m, m)
@[inline] def set (m : MddMgr) : MM Unit := fun _ => (.ok (), m)
@[inline] def modify (f : MddMgr → MddMgr) : MM Unit := fun m => (.ok (), f m)
@[inline] def ofOption (e : Err) : Option α → MM α
  | some a => pure a
  | none => throw e
@[inline] def assert (b : Bool) (e : Err := .assertion) : MM Unit :=
  if b then pure () else throw e
@[inline] def liftE (x : Except Err α) : MM α := fun m =>
  match x with
  | .ok a => (.ok a, m)
  | .error e => (.error e, m)
end MM

/-! ### `_allocate`, `_release` -/

/-- `_allocate()`: pop from `_free` (the popped element is dictated by the recorded
schedule; least element when nothing was recorded) or `_max += 1` -/
def mAllocate : MM Nat := fun m =>
  match m.free with
  | [] => (.ok (m.max + 1), { m with max := m.max + 1 })
  | f0 :: _ =>
    match m.sched with
    | [] => (.ok f0, { m with free := m.free.erase f0 })
    | p :: rest =>
      if m.free.contains p then (.ok p, { m with free := m.free.erase p, sched := rest })
      else (.error .sched, m)

/-- `_release(u)` (`u in self._pred` is always false: the keys of `_pred` are tuples) -/
def mRelease (u : Nat) : MM Unit := fun m =>
  if u > m.max then (.error .assertion, m) else
  if m.free.contains u then (.error .assertion, m) else
  if m.tbl.mem u then (.error .assertion, m) else
  if m.ref.contains u then (.error .assertion, m) else
  (.ok (), { m with free := insertSorted u m.free })

/-! ### reference counters -/

/-- `self._ref[abs(u)] += 1` -/
def mIncref (u : Int) : MM Unit := fun m =>
  match m.ref[u.natAbs]? with
  | none => (.error .key, m)
  | some c => (.ok (), { m with ref := m.ref.insert u.natAbs (c + 1) })

/-- `decref`: `if self._ref[abs(u)] > 0: self._ref[abs(u)] -= 1` -/
def mDecref (u : Int) : MM Unit := fun m =>
  match m.ref[u.natAbs]? with
  | none => (.error .key, m)
  | some c =>
    if c = 0 then (.ok (), m)
    else (.ok (), { m with ref := m.ref.insert u.natAbs (c - 1) })

/-- `ref(u)` -/
def mRefOf (u : Int) : MM Nat := fun m =>
  match m.ref[u.natAbs]? with
  | none => (.error .key, m)
  | some c => (.ok c, m)

/-- `for v in nodes: self.incref(v)` -/
def mIncrefAll : List Int → MM Unit
  | [] => fun m => (.ok (), m)
  | v :: rest => fun m =>
    match mIncref v m with
    | (.ok _, m1) => mIncrefAll rest m1
    | (.error e, m1) => (.error e, m1)

/-! ### `find_or_add` -/

/-- the second half of `find_or_add`: look the canonical tuple `(i, *nodes)` up in `_pred`,
else allocate a number and add the node -/
def mFindOrMake (i : Nat) (nodes : List Int) : MM Nat := fun m =>
  let t : MNd := ⟨i, nodes⟩
  -- already exists ?
  match m.pred[t.key]? with
  | some u => (.ok u, m)
  | none =>
    match mAllocate m with
    | (.error e, m1) => (.error e, m1)
    | (.ok u, m1) =>
      -- `if u in self: raise AssertionError`
      if m1.mem u then (.error .assertion, m1) else
      let m2 : MddMgr := { m1 with
        tbl := { m1.tbl with succ := m1.tbl.succ.insert u t }
        pred := m1.pred.insert t.key u
        ref := m1.ref.insert u 0 }
      match mIncrefAll nodes m2 with
      | (.error e, m3) => (.error e, m3)
      | (.ok _, m3) => (.ok u, m3)

/-- `find_or_add(i, *nodes)` for a level already known to be a natural number -/
def mFindOrAddCore (i : Nat) (nodes : List Int) : MM Int := fun m =>
  -- `if not (0 <= i < len(self.vars))`
  if m.tbl.nvars ≤ i then (.error .value, m) else
  -- `var = self.var_at_level(i)`
  match m.tbl.varAt? i with
  | none => (.error .key, m)
  | some var =>
  -- `if len(nodes) != self.vars[var]['len']`
  if nodes.length ≠ var.len then (.error .value, m) else
  match nodes with
  | [] => (.error .value, m)          -- `if not nodes`
  | n0 :: tl =>
  -- `for u in nodes: if abs(u) not in self`
  if !(n0 :: tl).all m.mem then (.error .value, m) else
  -- canonicity of complemented edges
  if n0 < 0 then
    let nodes' : List Int := (n0 :: tl).map (fun u => -u)
    -- eliminate: `len(set(nodes)) == 1`
    if nodes'.all (fun u => u == -n0) then (.ok (-1 * -n0), m) else
    match mFindOrMake i nodes' m with
    | (.error e, m1) => (.error e, m1)
    | (.ok u, m1) => (.ok (-1 * (u : Int)), m1)
  else
    if (n0 :: tl).all (fun u => u == n0) then (.ok (1 * n0), m) else
    match mFindOrMake i (n0 :: tl) m with
    | (.error e, m1) => (.error e, m1)
    | (.ok u, m1) => (.ok (1 * (u : Int)), m1)

/-- `find_or_add(i, *nodes)` for a level given as a Python int -/
def mFindOrAdd (i : Int) (nodes : List Int) : MM Int := fun m =>
  if i < 0 then (.error .value, m) else mFindOrAddCore i.toNat nodes m

/-! ### `_top_cofactor`, `ite` -/

/-- `_top_cofactor(u, level)` -/
def mTopCofactor (t : MTbl) (u : Int) (level : Nat) : Except Err (List Int) :=
  -- `varname = self.var_at_level(level)`; `n = self.vars[varname]['len']`
  match t.varAt? level with
  | none => .error .key
  | some var =>
  if u.natAbs = 1 then .ok (List.replicate var.len u) else
  match t.succ[u.natAbs]? with
  | none => .error .key
  | some n =>
    if level < n.lvl then .ok (List.replicate var.len u) else
    if level = n.lvl then
      -- `check(node)`: a zero successor raises
      if n.kids.any (fun k => k == 0) then .error .assertion else
      if 0 < u then .ok n.kids else
      if u < 0 then .ok (n.kids.map (fun k => -k)) else .error .assertion
    else .error .assertion

/-- `tuple(itertools.starmap(self.ite, zip(gc, uc, vc)))` -/
def mIteList (rec : Int → Int → Int → MM Int) : List Int → List Int → List Int → MM (List Int)
  | [], _, _ => fun m => (.ok [], m)
  | g :: gs, us, vs => fun m =>
    match us, vs with
    | u :: us, v :: vs =>
      match rec g u v m with
      | (.error e, m1) => (.error e, m1)
      | (.ok w, m1) =>
        match mIteList rec gs us vs m1 with
        | (.error e, m2) => (.error e, m2)
        | (.ok ws, m2) => (.ok (w :: ws), m2)
    | _, _ => (.ok [], m)

/-- `ite(g, u, v)`; the fuel bounds the recursion depth (levels strictly increase) -/
def mIteF : Nat → Int → Int → Int → MM Int
  | 0, _, _, _ => fun m => (.error .fuel, m)
  | f+1, g, u, v => fun m =>
    if g = 1 then (.ok u, m) else
    if g = -1 then (.ok v, m) else
    match m.cache[iteKey g u v]? with
    | some w => (.ok w, m)
    | none =>
      match m.tbl.levelOf? g with
      | none => (.error .key, m)
      | some lg =>
      match m.tbl.levelOf? u with
      | none => (.error .key, m)
      | some lu =>
      match m.tbl.levelOf? v with
      | none => (.error .key, m)
      | some lv =>
      let z := min lg (min lu lv)
      match mTopCofactor m.tbl g z with
      | .error e => (.error e, m)
      | .ok gc =>
      match mTopCofactor m.tbl u z with
      | .error e => (.error e, m)
      | .ok uc =>
      match mTopCofactor m.tbl v z with
      | .error e => (.error e, m)
      | .ok vc =>
      match mIteList (mIteF f) gc uc vc m with
      | (.error e, m1) => (.error e, m1)
      | (.ok nodes, m1) =>
        match mFindOrAddCore z nodes m1 with
        | (.error e, m2) => (.error e, m2)
        | (.ok w, m2) => (.ok w, { m2 with cache := m2.cache.insert (iteKey g u v) w })

/-- `MDD.ite` with the fuel the invariant makes sufficient -/
def mIte (g u v : Int) : MM Int := fun m => mIteF (m.tbl.nvars + 2) g u v m

/-! ### `apply` -/

/-- `v is not None and v not in self` -/
def mddOptNotMem (m : MddMgr) : Option Int → Bool
  | some v => !m.mem v
  | none => false

/-- `MDD.apply(op, u, v, w)`: interpreter of the table regenerated from the source -/
def mApply (op : String) (u : Int) (v w : Option Int) : MM Int := fun m =>
  match assertOperatorArity op v w with
  | .error e => (.error e, m)
  | .ok _ =>
  if !m.mem u then (.error .value, m) else
  if mddOptNotMem m v then (.error .value, m) else
  if mddOptNotMem m w then (.error .value, m) else
  match findRow op Gen.mddApplyTable with
  | none => (.error .value, m)
  | some row =>
    match row.templ with
    | .neg => (.ok (-u), m)
    | .ite a b c =>
      -- the `elif v is None` / `elif w is None` guards
      match v with
      | none => (.error .value, m)
      | some vv =>
      let needsW := a = .w || a = .nw || b = .w || b = .nw || c = .w || c = .nw
      match (if needsW then w else some (w.getD 0)) with
      | none => (.error .value, m)
      | some ww =>
      match atomVal u vv ww a, atomVal u vv ww b, atomVal u vv ww c with
      | .ok a', .ok b', .ok c' => mIte a' b' c' m
      | _, _, _ => (.error .other, m)
    | .quant _ _ _ => (.error .other, m)
    | .notImpl =>
      match v with
      | none => (.error .value, m)
      | some _ => (.error .notImplemented, m)
    | .bad => (.error .other, m)

/-! ### `collect_garbage` -/

def pushNewI (l : List Int) (u : Int) : List Int := if l.contains u then l else l ++ [u]

/-- `for v in nodes: self.decref(v); if not self._ref[abs(v)] and abs(v) != 1: unused.add(abs(v))` -/
def mGcKids : List Int → List Int → MM (List Int)
  | [], work => fun m => (.ok work, m)
  | v :: rest, work => fun m =>
    match mDecref v m with
    | (.error e, m1) => (.error e, m1)
    | (.ok _, m1) =>
      match m1.ref[v.natAbs]? with
      | none => (.error .key, m1)
      | some c =>
        let work := if c = 0 && v.natAbs ≠ 1 then pushNewI work (v.natAbs : Int) else work
        mGcKids rest work m1

/-- one iteration of the `while unused:` loop for the popped element `u` -/
def mGcStep (u : Int) (work : List Int) : MM (List Int) := fun m =>
  if u = 1 then (.error .assertion, m) else
  -- `t = self._succ.pop(u)`
  if u < 0 then (.error .key, m) else
  match m.tbl.succ[u.toNat]? with
  | none => (.error .key, m)
  | some t =>
  let m1 : MddMgr := { m with tbl := { m.tbl with succ := m.tbl.succ.erase u.toNat } }
  -- `u_ = self._pred.pop(t)`
  match m1.pred[t.key]? with
  | none => (.error .key, m1)
  | some u' =>
  let m2 : MddMgr := { m1 with pred := m1.pred.erase t.key }
  -- `uref = self._ref.pop(u)`
  match m2.ref[u.toNat]? with
  | none => (.error .key, m2)
  | some uref =>
  let m3 : MddMgr := { m2 with ref := m2.ref.erase u.toNat }
  match mRelease u.toNat m3 with
  | (.error e, m4) => (.error e, m4)
  | (.ok _, m4) =>
  if u.toNat ≠ u' then (.error .assertion, m4) else
  if uref ≠ 0 then (.error .assertion, m4) else
  if !m4.free.contains u.toNat then (.error .assertion, m4) else
  mGcKids t.kids work m4

def mGcLoop : Nat → List Int → MM Unit
  | _, [] => fun m => (.ok (), m)
  | 0, _ :: _ => fun m => (.error .fuel, m)
  | f+1, u :: rest => fun m =>
    match mGcStep u rest m with
    | (.error e, m1) => (.error e, m1)
    | (.ok work, m1) => mGcLoop f work m1

/-- `{abs(u) for u in roots if not self.ref(u)}` -/
def mUnusedOf : List Int → MM (List Int)
  | [] => fun m => (.ok [], m)
  | u :: rest => fun m =>
    match m.ref[u.natAbs]? with
    | none => (.error .key, m)
    | some c =>
      match mUnusedOf rest m with
      | (.error e, m1) => (.error e, m1)
      | (.ok r, m1) =>
        if c = 0 then (.ok (if r.contains (u.natAbs : Int) then r else (u.natAbs : Int) :: r), m1)
        else (.ok r, m1)

/-- `collect_garbage(roots)`; `none` = `self._ref` -/
def mCollectGarbage (roots : Option (List Int)) : MM Unit := fun m =>
  let rs : List Int := match roots with
    | some r => r
    | none => m.ref.keys.map (fun (k : Nat) => (k : Int))
  match mUnusedOf rs m with
  | (.error e, m1) => (.error e, m1)
  | (.ok unused, m1) =>
    -- keep terminal
    let unused := unused.erase 1
    match mGcLoop (m1.tbl.succ.size + unused.length + 1) unused m1 with
    | (.error e, m2) => (.error e, m2)
    | (.ok _, m2) => (.ok (), { m2 with cache := {} })

/-! ### small queries -/

/-- `mdd.var_at_level(i)` -/
def mVarAtLevel (i : Int) : MM String := fun m =>
  if i < 0 then (.error .key, m) else
  match m.tbl.varAt? i.toNat with
  | none => (.error .key, m)
  | some v => (.ok v.name, m)

/-- `mdd.level_of_var(var)` -/
def mLevelOfVar (name : String) : MM Nat := fun m =>
  match m.tbl.vars.find? (fun v => v.name == name) with
  | none => (.error .key, m)
  | some v => (.ok v.level, m)

/-! ### `bdd_to_mdd` -/

/-- dict semantics of a list of `(key, value)` updates: the last one wins -/
def lastLookup [BEq α] (k : α) (l : List (α × β)) : Option β := l.reverse.lookup k

/-- nodes of the BDD having `u` among their two successors (`pred[u]`) -/
def bddPreds (t : Tbl) (u : Nat) : List Nat :=
  t.succ.foldl (fun acc k n => if n.lo.natAbs = u ∨ n.hi.natAbs = u then acc ++ [k] else acc) []

/-- `_enumerate_integer(bits)`: value `i`, least significant bit first -/
def enumInteger (bits : List String) (i : Nat) : List (Key × Bool) :=
  (List.range bits.length).zip bits |>.map fun (k, b) => (Key.name b, (i >>> k) % 2 == 1)

/-- `bdd.assert_consistent()` (non-terminal part; the terminal is implicit in the model) -/
def bddAssertConsistent : M Unit := fun m =>
  let t := m.tbl
  if !m.roots.all (fun r => t.mem r) then (.error .assertion, m) else
  -- `succ_keys == pred_values`, `pred_keys == succ_values` (set comparisons): every entry of
  -- `_pred` is the triple of its node (that every node has its entry is checked below)
  if !(m.pred.toList.all fun (k, u) =>
      match t.succ[u]? with
      | some n => n.key == k
      | none => false) then (.error .assertion, m) else
  let ok := t.succ.toList.all fun (u, n) =>
    t.mem n.lo && n.lo ≠ 0 && decide (0 < n.hi) && t.mem n.hi &&
    (match t.levelOf? n.lo, t.levelOf? n.hi with
     | some a, some b => decide (n.lvl < a) && decide (n.lvl < b)
     | _, _ => false) &&
    m.pred[n.key]? == some u && m.ref.contains u
  if ok then (.ok (), m) else (.error .assertion, m)

structure B2MOut where
  mdd : MddMgr
  umap : List (Nat × Int)

/-- order of `bdd.levels(skip_terminals=True)`: levels from the last to the first; inside a
level the insertion order of the `_succ` dict (recorded), ascending when not recorded -/
def bddLevelsOrder (t : Tbl) (rec : Option (List Nat)) : Except Err (List Nat) :=
  let dflt : List Nat := (List.range t.nvars).reverse.flatMap (nodesAt t)
  match rec with
  | none => .ok dflt
  | some l =>
    let lv (u : Nat) : Nat := ((t.succ[u]?).map (·.lvl)).getD 0
    let sortedByLevel := (List.range t.nvars).reverse.flatMap (fun j => l.filter (fun u => lv u = j))
    if isPerm l dflt && sortedByLevel == l then .ok l else .error .sched

/-- loop over the values of one integer variable: cofactor and map the edge -/
def b2mSuccs (u : Nat) (bits : List String) (umap : List (Nat × Int)) : List Nat → M (List Int)
  | [] => fun mb => (.ok [], mb)
  | i :: rest => fun mb =>
    -- `x = bdd.cofactor(u, d)`
    match cofactor (u : Int) (enumInteger bits i) mb with
    | (.error e, mb1) => (.error e, mb1)
    | (.ok x, mb1) =>
      -- `umap[abs(z)] if z > 0 else -umap[abs(z)]`
      match umap.lookup x.natAbs with
      | none => (.error .key, mb1)
      | some r =>
        match b2mSuccs u bits umap rest mb1 with
        | (.error e, mb2) => (.error e, mb2)
        | (.ok rs, mb2) => (.ok ((if x > 0 then r else -r) :: rs), mb2)

/-- BDD side of one iteration of the main loop for the kept node `u`: the integer variable
owning its level, and the MDD references of the cofactors for each integer value -/
def b2mIntSucc (bitToVar : List (String × MVar)) (u : Nat) (umap : List (Nat × Int)) :
    M (MVar × List Int) := fun mb =>
  match mb.tbl.succ[u]? with
  | none => (.error .key, mb)
  | some n =>
    -- `bit = bdd.var_at_level(i)`
    match mb.tbl.l2v[n.lvl]? with
    | none => (.error .value, mb)
    | some bit =>
      -- `var = bit_to_var[bit]`
      match lastLookup bit bitToVar with
      | none => (.error .key, mb)
      | some var =>
        match b2mSuccs u var.bits umap (List.range (2 ^ var.bits.length)) mb with
        | (.error e, mb1) => (.error e, mb1)
        | (.ok intSucc, mb1) => (.ok (var, intSucc), mb1)

/-- the main loop `for u, i, v, w in bdd.levels(skip_terminals=True)` -/
def b2mLoop (rm : List Nat) (bitToVar : List (String × MVar)) :
    List Nat → MddMgr → List (Nat × Int) → M B2MOut
  | [], mdd, umap => fun mb => (.ok ⟨mdd, umap⟩, mb)
  | u :: rest, mdd, umap => fun mb =>
    -- ignore function ?
    if rm.contains u then b2mLoop rm bitToVar rest mdd umap mb else
    match b2mIntSucc bitToVar u umap mb with
    | (.error e, mb1) => (.error e, mb1)
    | (.ok (var, intSucc), mb1) =>
      -- add new MDD node at level j
      match mFindOrAdd (var.level : Int) intSucc mdd with
      | (.error e, _) => (.error e, mb1)
      | (.ok r, mdd') =>
        -- `umap[u] = r`
        b2mLoop rm bitToVar rest mdd' ((u, r) :: umap.filter (fun p => p.1 ≠ u)) mb1

/-- what the first part of `bdd_to_mdd` hands to the main loop -/
structure B2MPrep where
  /-- BDD nodes referenced only from inside their zone (`rm`) -/
  rm : List Nat
  bitToVar : List (String × MVar)
  /-- the node table after collection and reordering -/
  tbl : Tbl

/-- target bit order: `for j in range(m): order.extend(dvars[levels[j]]['bitnames'])` -/
def b2mOrder (dvars : List MVar) : Except Err (List String) :=
  let levels : List (Nat × MVar) := dvars.map fun d => (d.level, d)
  let mlen := (dedup (dvars.map (·.level))).length
  (List.range mlen).foldlM (fun (order : List String) j =>
    match lastLookup j levels with
    | none => .error .key
    | some var => .ok (order ++ var.bits)) []

/-- `bit_to_sort = {bit: k for k, bit in enumerate(order)}` -/
def b2mBitToSort (order : List String) : List (String × Nat) := order.zip (List.range order.length)

/-- the dict `bit_to_sort` as an association list with distinct keys -/
def b2mOrderDict (order : List String) : List (String × Int) :=
  (dedup order.reverse).reverse.map fun b => (b, (((lastLookup b (b2mBitToSort order)).getD 0 : Nat) : Int))

/-- zones of bits per integer variable -/
def b2mZones (bitToSort : List (String × Nat)) : List MVar → Except Err (List (String × Nat × Nat))
  | [] => .ok []
  | d :: rest =>
    match d.bits.head?, d.bits.getLast? with
    | some lsb, some msb =>
      match lastLookup lsb bitToSort, lastLookup msb bitToSort with
      | some minLevel, some maxLevel =>
        match b2mZones bitToSort rest with
        | .error e => .error e
        | .ok zs => .ok ((d.name, minLevel, maxLevel) :: zs)
      | _, _ => .error .key
    | _, _ => .error .other                               -- IndexError

/-- `pred[abs(v)].add(u)` needs the successors to be nodes -/
def b2mPredCheck (t : Tbl) : Bool :=
  t.succ.toList.all fun (_, n) => t.mem n.lo && t.mem n.hi

/-- one step of "find BDD nodes mentioned from above": `some true` = add `u` to `rm` -/
def b2mRmOne (m : Mgr) (bitToVar : List (String × MVar)) (zones : List (String × Nat × Nat)) (u : Nat) :
    Except Err Bool :=
  let t := m.tbl
  match m.ref[u]? with
  | none => .error .key
  | some rc =>
    let p := bddPreds t u
    -- has external refs ?
    if rc > p.length then .ok false else
    -- has refs from outside zone ?
    match t.levelOf? (u : Int) with
    | none => .error .key
    | some i =>
      match t.l2v[i]? with
      | none => .error .value
      | some bit =>
        match lastLookup bit bitToVar with
        | none => .error .key
        | some var =>
          match lastLookup var.name zones with
          | none => .error .key
          | some (minLevel, _) =>
            match p.filterMap fun v => (t.succ[v]?).map (·.lvl) with
            | [] => .error .value                             -- `min()` of an empty set
            | l0 :: ls => .ok (!(ls.foldl min l0 < minLevel))

def b2mRm (m : Mgr) (bitToVar : List (String × MVar)) (zones : List (String × Nat × Nat)) :
    List Nat → Except Err (List Nat)
  | [] => .ok []
  | u :: rest =>
    match b2mRmOne m bitToVar zones u with
    | .error e => .error e
    | .ok b =>
      match b2mRm m bitToVar zones rest with
      | .error e => .error e
      | .ok r => .ok (if b then u :: r else r)

/-- map from bits to integers (later entries of the dict update win) -/
def b2mBitToVar (dvars : List MVar) : List (String × MVar) :=
  dvars.flatMap fun d => d.bits.map fun b => (b, d)

/-- `bdd_to_mdd`, up to the main loop: target bit order, `collect_garbage`, `reorder`, zones,
reverse edges, selection of the zone-entry nodes -/
def b2mPrepare (dvars : List MVar) : M B2MPrep := fun mb =>
  -- find target bit order
  match b2mOrder dvars with
  | .error e => (.error e, mb)
  | .ok order =>
  -- reorder
  match collectGarbage none mb with
  | (.error e, m1) => (.error e, m1)
  | (.ok _, m1) =>
  match reorder (some (b2mOrderDict order)) m1 with
  | (.error e, m2) => (.error e, m2)
  | (.ok _, m2) =>
  -- zones of bits per integer var
  match b2mZones (b2mBitToSort order) dvars with
  | .error e => (.error e, m2)
  | .ok zones =>
  -- reverse edges
  if !b2mPredCheck m2.tbl then (.error .key, m2) else
  -- find BDD nodes mentioned from above
  match b2mRm m2 (b2mBitToVar dvars) zones (1 :: m2.tbl.succ.keys) with
  | .error e => (.error e, m2)
  | .ok rm => (.ok ⟨rm, b2mBitToVar dvars, m2.tbl⟩, m2)

/-- `bdd_to_mdd(bdd, dvars)`; `levRec` is the recorded order of `bdd.levels(...)` -/
def bddToMdd (dvars : List MVar) (levRec : Option (List Nat)) : M B2MOut := fun mb =>
  match b2mPrepare dvars mb with
  | (.error e, mb1) => (.error e, mb1)
  | (.ok p, mb1) =>
    -- build layer by layer
    match bddAssertConsistent mb1 with
    | (.error e, mb2) => (.error e, mb2)
    | (.ok _, mb2) =>
      match bddLevelsOrder p.tbl levRec with
      | .error e => (.error e, mb2)
      | .ok ord =>
        -- BDD -> MDD
        b2mLoop p.rm p.bitToVar ord (MddMgr.new (some dvars)) [(1, 1)] mb2

end DD
