/-
  DD.Dddmp — model of `dd/dddmp.py`: the *abstract* content of a text-mode DDDMP
  file (what the PLY header parser leaves in the attributes of `Parser`, plus the
  node lines), `Parser._parse_header`'s table logic, `_parse_body`/`_add_node`,
  and `load` (level re-indexing, bottom-up rebuild with `find_or_add`, roots).

  The lexer/LALR machinery is not modelled: the harness writes the text file and
  this abstract content from the same data and compares the results.

  Python `dict`s are association lists in insertion order (`dictSet` keeps the
  position of an existing key, as Python does), so that every iteration order of
  the code is the order of the model.
-/
import DD.Ops
open Std

namespace DD

/-- a token that is either a name or a number (`varname : name | number`; the
`info` column of a node line after `try: int(info)`) -/
inductive DddmpTok where
  | str (s : String)
  | num (i : Int)
deriving DecidableEq, Repr, Inhabited

/-- how the name reaches `dd.bdd.BDD.vars` in the state dumps -/
def DddmpTok.show : DddmpTok → String
  | .str s => s
  | .num i => toString i

/-! ### Python dictionaries -/

/-- `d[k] = v` -/
def dictSet [DecidableEq κ] : List (κ × ν) → κ → ν → List (κ × ν)
  | [], k, v => [(k, v)]
  | (k', v') :: r, k, v => if k' = k then (k', v) :: r else (k', v') :: dictSet r k v

/-- `d.get(k)` -/
def dictGet [DecidableEq κ] : List (κ × ν) → κ → Option ν
  | [], _ => none
  | (k', v') :: r, k => if k' = k then some v' else dictGet r k

/-- `{k: v for k, v in l}` -/
def dictOf [DecidableEq κ] (l : List (κ × ν)) : List (κ × ν) :=
  l.foldl (fun d kv => dictSet d kv.1 kv.2) []

/-- `sorted(l)` for integers -/
def insertInt (a : Int) : List Int → List Int
  | [] => [a]
  | b :: l => if a ≤ b then a :: b :: l else b :: insertInt a l
def sortInts (l : List Int) : List Int := l.foldr insertInt []

/-- `set(l)` as a duplicate-free list -/
def dedupInts : List Int → List Int
  | [] => []
  | a :: l => if l.contains a then dedupInts l else a :: dedupInts l

/-! ### the abstract file -/

/-- a line `u info index then else` between `.nodes` and `.end` -/
structure DddmpNode where
  u : Int
  info : DddmpTok
  index : Int
  thn : Int
  els : Int
deriving Repr, Inhabited, DecidableEq

/-- attributes of `Parser` after the header has been parsed (`none` = the
header line is absent) and the node lines in file order -/
structure DddmpFile where
  varinfo : Option Int := none
  nnodes : Option Int := none
  nvars : Option Int := none
  nsuppvars : Option Int := none
  suppvarnames : Option (List DddmpTok) := none
  orderedvarnames : Option (List DddmpTok) := none
  ids : Option (List Int) := none
  permids : Option (List Int) := none
  auxids : Option (List Int) := none
  nroots : Option Int := none
  rootids : Option (List Int) := none
  nodes : List DddmpNode := []
  /-- header lines the parser accepts and the loader never reads (`DD/DddmpText.lean`):
  `.ver name-a.b`, `.mode A` (any other mode is refused while parsing), `.dd name`
  (`Parser.bdd_name`), `.add` (`Parser.algebraic_dd = True`: an ADD file is NOT refused) -/
  ver : Option (String × Int × Int) := none
  mode : Option String := none
  ddname : Option String := none
  add : Bool := false
deriving Repr, Inhabited, DecidableEq

/-- `len(x) != n` where `n` may be `None` -/
def lenNe (l : List α) (n : Option Int) : Bool := n != some (l.length : Int)

/-- `Parser._assert_consistent` -/
def dddmpAssertConsistent (f : DddmpFile) : Except Err Unit := do
  match f.suppvarnames with
  | some sv => if lenNe sv f.nsuppvars then throw .assertion
  | none => pure ()
  match f.orderedvarnames with
  | some ov => if lenNe ov f.nvars then throw .assertion
  | none => pure ()
  match f.ids with
  | none => throw .type
  | some l => if lenNe l f.nsuppvars then throw .assertion
  match f.permids with
  | none => throw .type
  | some l => if lenNe l f.nsuppvars then throw .assertion
  match f.auxids with
  | some l => if lenNe l f.nsuppvars then throw .assertion
  | none => pure ()
  match f.rootids with
  | none => throw .type
  | some l => if lenNe l f.nroots then throw .assertion

/-- `{var: k for k, var in enumerate(l)}` -/
def enumDict (l : List DddmpTok) : List (DddmpTok × Int) :=
  dictOf (l.zipIdx.map fun p => (p.1, (p.2 : Int)))

/-- the `info2permid` table of `_parse_header`, by `.varinfo` case -/
def dddmpInfoTable (f : DddmpFile) (ids permids : List Int) : Except Err (List (DddmpTok × Int)) :=
  match f.varinfo with
  | some 0 => pure (dictOf ((ids.zip permids).map fun p => (DddmpTok.num p.1, p.2)))
  | some 1 => pure (dictOf (permids.map fun k => (DddmpTok.num k, k)))
  | some 2 => throw Err.notImplemented
  | some 3 =>
    match f.orderedvarnames with
    | none => throw Err.type          -- `enumerate(None)`
    | some ov => pure (enumDict ov)
  | some 4 => throw Err.notImplemented
  | _ => throw Err.other              -- `Exception('unknown varinfo case')`

/-- ... with the entry for `'T'` -/
def dddmpInfo2permid (f : DddmpFile) (ids permids : List Int) : Except Err (List (DddmpTok × Int)) :=
  match dddmpInfoTable f ids permids with
  | .error e => .error e
  | .ok t =>
    match f.nvars with
    | none => .error .type              -- `None + 1`
    | some n => .ok (dictSet t (.str "T") (n + 1))

/-- `permid2var[k]: k` for an item `k` of `sorted(self.permuted_var_ids)` -/
def dddmpLevelItem (permid2var : List (Int × DddmpTok)) (k : Int) : Except Err (DddmpTok × Int) :=
  match dictGet permid2var k with
  | some var => .ok (var, k)
  | none => .error .key

/-- the `levels` table of `_parse_header` -/
def dddmpLevels (f : DddmpFile) (permids : List Int) : Except Err (List (DddmpTok × Int)) :=
  match f.orderedvarnames with
  | some ov => .ok (enumDict ov)
  | none =>
    match f.suppvarnames with
    | some sv =>
      -- `permid2var = {k: var for k, var in zip(permids, support_vars)}`
      -- `levels = {permid2var[k]: k for k in sorted(permids)}`
      match (sortInts permids).mapM (dddmpLevelItem (dictOf (permids.zip sv))) with
      | .error e => .error e
      | .ok l => .ok (dictOf l)
    | none =>
      -- `levels = {idx: level for level, idx in enumerate(permids)}`
      .ok (dictOf (permids.zipIdx.map fun p => (DddmpTok.num p.1, (p.2 : Int))))

/-- `Parser._parse_header` after the LALR parse: `(info2permid, levels, roots)` -/
def dddmpHeader (f : DddmpFile) :
    Except Err (List (DddmpTok × Int) × List (DddmpTok × Int) × List Int) :=
  match dddmpAssertConsistent f with
  | .error e => .error e
  | .ok _ =>
    match f.ids, f.permids, f.rootids with
    | some ids, some permids, some rootids =>
      match dddmpInfo2permid f ids permids with
      | .error e => .error e
      | .ok i2p =>
        match dddmpLevels f permids with
        | .error e => .error e
        | .ok levels => .ok (i2p, levels, dedupInts rootids)   -- `roots = set(self.rootids)`
    | _, _, _ => .error .type     -- unreachable: `_assert_consistent` raised `TypeError`

/-- an entry of `Parser.bdd`: `(level, low, high)` with `None` for a `0` column -/
structure DddmpEntry where
  lvl : Int
  lo : Option Int
  hi : Option Int
deriving Repr, Inhabited, DecidableEq

/-- one iteration of the loop of `_parse_body` (with `_add_node`) -/
def dddmpAddNode (i2p : List (DddmpTok × Int)) (bdd : List (Int × DddmpEntry)) (n : DddmpNode) :
    Except Err (List (Int × DddmpEntry)) :=
  match dictGet i2p n.info with
  | none => .error .assertion           -- `info not in self.info2permid`
  | some level =>
    -- `_add_node(u, info, index, v, w)`: `v` is the "then" column
    if n.thn < 0 then .error .value else
    let v := if n.thn = 0 then none else some n.thn
    let w := if n.els = 0 then none else some n.els
    -- dddmp stores (high, low); `dd.bdd` uses (low, high)
    .ok (dictSet bdd n.u ⟨level, w, v⟩)

def dddmpBodyLoop (i2p : List (DddmpTok × Int)) :
    List (Int × DddmpEntry) → List DddmpNode → Except Err (List (Int × DddmpEntry))
  | bdd, [] => .ok bdd
  | bdd, n :: rest =>
    match dddmpAddNode i2p bdd n with
    | .error e => .error e
    | .ok bdd' => dddmpBodyLoop i2p bdd' rest

/-- `Parser._parse_body` -/
def dddmpBody (f : DddmpFile) (i2p : List (DddmpTok × Int)) : Except Err (List (Int × DddmpEntry)) :=
  match dddmpBodyLoop i2p [] f.nodes with
  | .error e => .error e
  | .ok bdd => if lenNe bdd f.nnodes then .error .assertion else .ok bdd

/-- `i: perm[k]` for an item `(k, i)` of `enumerate(sorted(perm))` -/
def dddmpPermItem (perm : List (Int × DddmpTok)) (p : Int × Nat) : Except Err (Int × DddmpTok) :=
  match dictGet perm p.1 with
  | some var => .ok ((p.2 : Int), var)
  | none => .error .key

/-- `levels[var]: new_levels[var]` for an item `(var, k)` of `levels` -/
def dddmpO2nItem (newLevels : List (DddmpTok × Int)) (p : DddmpTok × Int) : Except Err (Int × Int) :=
  match dictGet newLevels p.1 with
  | some nk => .ok (p.2, nk)
  | none => .error .key

/-- the re-indexing at the top of `load`: `(new_levels, old2new)` -/
def dddmpReindex (levels : List (DddmpTok × Int)) :
    Except Err (List (DddmpTok × Int) × List (Int × Int)) :=
  -- `perm = {k: var for var, k in levels.items()}`
  let perm := dictOf (levels.map fun p => (p.2, p.1))
  -- `perm = {i: perm[k] for i, k in enumerate(sorted(perm))}`
  match (sortInts (perm.map (·.1))).zipIdx.mapM (dddmpPermItem perm) with
  | .error e => .error e
  | .ok perm2 =>
    let perm2 := dictOf perm2
    -- `new_levels = {var: k for k, var in perm.items()}`
    let newLevels := dictOf (perm2.map fun p => (p.2, p.1))
    -- `old2new = {levels[var]: new_levels[var] for var in levels}`
    match levels.mapM (dddmpO2nItem newLevels) with
    | .error e => .error e
    | .ok o2n => .ok (newLevels, dictOf o2n)

/-- `for var, level in levels.items(): self.add_var(var, level)` -/
def dddmpAddVars : List (DddmpTok × Int) → M Unit
  | [] => pure ()
  | (var, level) :: rest => fun m =>
    match addVar var.show (some level) m with
    | (.error e, m') => (.error e, m')
    | (.ok _, m') => dddmpAddVars rest m'

/-- `_bdd.BDD(new_levels)` -/
def dddmpNewMgr (newLevels : List (DddmpTok × Int)) : Except Err Mgr :=
  -- `_assert_valid_ordering`
  let n := newLevels.length
  let nums := newLevels.map (·.2)
  let okv := (List.range n).all (fun i => nums.contains (i : Int)) &&
    nums.all (fun k => 0 ≤ k && k < (n : Int))
  if !okv then .error .assertion else
  match dddmpAddVars newLevels {} with
  | (.error e, _) => .error e
  | (.ok _, m) => .ok m

/-- `umap = {-1: -1, 1: 1}` -/
def dddmpUmap0 : List (Int × Int) := [(-1, -1), (1, 1)]

/-- body of the inner loop of `load` for the entry `u: (k, v, w)` at pass `j` -/
def dddmpRebuildNode (o2n : List (Int × Int)) (j : Int) (umap : List (Int × Int))
    (e : Int × DddmpEntry) : M (List (Int × Int)) := fun m =>
  match e.2.lo with
  | none =>
    -- terminal
    if e.2.hi.isSome then (.error .assertion, m) else (.ok umap, m)
  | some v =>
    match dictGet o2n e.2.lvl with
    | none => (.error .key, m)
    | some i =>
      if i ≠ j then (.ok umap, m) else
      match dictGet umap (v.natAbs : Int) with
      | none => (.error .key, m)
      | some p =>
        match e.2.hi.bind (dictGet umap) with
        | none => (.error .key, m)     -- `umap[w]`, also for `w is None`
        | some q =>
          let p := if v < 0 then -p else p
          match findOrAdd i p q m with
          | (.error er, m') => (.error er, m')
          | (.ok r, m') => (.ok (dictSet umap (e.1.natAbs : Int) r), m')

/-- `for u, (k, v, w) in bdd_succ.items(): ...` -/
def dddmpRebuildLevel (o2n : List (Int × Int)) (j : Int) :
    List (Int × DddmpEntry) → List (Int × Int) → M (List (Int × Int))
  | [], umap => fun m => (.ok umap, m)
  | e :: rest, umap => fun m =>
    match dddmpRebuildNode o2n j umap e m with
    | (.error er, m') => (.error er, m')
    | (.ok umap', m') => dddmpRebuildLevel o2n j rest umap' m'

/-- `for j in range(n - 1, -1, -1): ...` (`n` counts down) -/
def dddmpRebuild (o2n : List (Int × Int)) (bdd : List (Int × DddmpEntry)) :
    Nat → List (Int × Int) → M (List (Int × Int))
  | 0, umap => fun m => (.ok umap, m)
  | n + 1, umap => fun m =>
    match dddmpRebuildLevel o2n (n : Int) bdd umap m with
    | (.error er, m') => (.error er, m')
    | (.ok umap', m') => dddmpRebuild o2n bdd n umap' m'

/-- `load` up to and including the rebuild loop: the manager (its `roots` still empty),
`umap`, and the `roots` of the header -/
def dddmpLoadCore (f : DddmpFile) : Except Err (Mgr × List (Int × Int) × List Int) :=
  match dddmpHeader f with
  | .error e => .error e
  | .ok (i2p, levels, roots) =>
    match dddmpBody f i2p with
    | .error e => .error e
    | .ok bdd =>
      match dddmpReindex levels with
      | .error e => .error e
      | .ok (newLevels, o2n) =>
        match dddmpNewMgr newLevels with
        | .error e => .error e
        | .ok m0 =>
          match dddmpRebuild o2n bdd newLevels.length dddmpUmap0 m0 with
          | (.error e, _) => .error e
          | (.ok umap, m) => .ok (m, umap, roots)

/-- `umap[abs(r)] if r > 0 else -umap[abs(r)]` -/
def dddmpRootItem (umap : List (Int × Int)) (ρ : Int) : Except Err Int :=
  match dictGet umap (ρ.natAbs : Int) with
  | some r => .ok (if ρ > 0 then r else -r)
  | none => .error .key

/-- everything `load` computes: the manager and `umap` (the latter for the theorems).
The last statement is
`bdd.roots.update(umap[abs(r)] if r > 0 else -umap[abs(r)] for r in roots)`:
the file numbers its nodes independently of the numbering in `bdd`. -/
def loadDddmpU (f : DddmpFile) : Except Err (Mgr × List (Int × Int)) :=
  match dddmpLoadCore f with
  | .error e => .error e
  | .ok (m, umap, roots) =>
    match roots.mapM (dddmpRootItem umap) with
    | .error e => .error e
    | .ok rs => .ok ({ m with roots := dedupInts rs }, umap)

/-- `dd.dddmp.load(fname)` on the abstract content of the file -/
def loadDddmp (f : DddmpFile) : Except Err Mgr :=
  (loadDddmpU f).map (·.1)

/-- HISTORICAL (before the repair of `dd/dddmp.py`, finding F1): `bdd.roots.update(roots)`
stored the node numbers of the file untranslated.  Kept only for the witness theorem
`dddmpPreFix_roots_false`; not the code. -/
def loadDddmpPreFix (f : DddmpFile) : Except Err Mgr :=
  match dddmpLoadCore f with
  | .error e => .error e
  | .ok (m, _, roots) => .ok { m with roots := roots }

/-! ### semantics of a file (the SPECIFICATION `load` is proved against; executable, so
that the driver can print it and the harness can compare it with its own evaluator) -/

/-- the variable a node line is labelled with: the one `levels` puts at the level
that `info2permid` gives to the `info` column -/
def dddmpVarOf (i2p levels : List (DddmpTok × Int)) (info : DddmpTok) : Option DddmpTok :=
  match dictGet i2p info with
  | none => none
  | some k => (levels.find? (fun p => p.2 = k)).map (·.1)

/-- value of the (signed) node number `x` of a file under the assignment `α` of the
variable NAMES, read off the node list: a line labelled `T` is the constant true,
a line `u info _ then else` is `if info then [then] else [else]`, a negative number
is the complement (an unlisted number or exhausted `fuel` reads as false, complemented
for a negative number).  `fuel` bounds the depth. -/
def evalFileF (i2p levels : List (DddmpTok × Int)) (nodes : List DddmpNode) (α : String → Bool) :
    Nat → Int → Bool
  | 0, x => decide (x < 0)
  | fuel + 1, x =>
    (decide (x < 0)) ^^
      (match nodes.find? (fun n => n.u = (x.natAbs : Int)) with
      | none => false
      | some n =>
        if n.info = .str "T" then true else
          match dddmpVarOf i2p levels n.info with
          | none => false
          | some var =>
            if α var.show then evalFileF i2p levels nodes α fuel n.thn
            else evalFileF i2p levels nodes α fuel n.els)

/-- `evalFileF` with the tables of the file's own header and depth `nvars + 2` -/
def evalFile (f : DddmpFile) (α : String → Bool) (x : Int) : Bool :=
  match dddmpHeader f with
  | .ok (i2p, levels, _) => evalFileF i2p levels f.nodes α ((f.nvars.getD 0 + 2).toNat) x
  | .error _ => false

/-! ### the same semantics read off the FORMAT (header lines only, none of the loader's tables)

The DDDMP rule for the variable a node line belongs to:

* `.varinfo 3`: the `info` column is the variable's name (one of `.orderedvarnames`);
* `.varinfo 0`: `info` is the variable's index, an entry `ids[j]`;
* `.varinfo 1`: `info` is the variable's level in the writer, an entry `permids[j]`;
  in both cases the name of the `j`-th support variable is `orderedvarnames[permids[j]]`
  when `.orderedvarnames` is present (it lists ALL variables of the writer by level) and
  `suppvarnames[j]` otherwise.

A file with neither list of names has no names.  The loader then INVENTS one: the variable at
level `L` is the Python `int` `permids[L]` (`levels = {idx: level for level, idx in
enumerate(permids)}`), i.e. the `j`-th support variable is called `permids[permids[j]]`.  That is
the index `ids[j]` of the variable in the writer exactly when `permids[permids[j]] = ids[j]` for
every `j` (e.g. the identity order); `dddmpSuppName` states the loader's convention. -/

/-- first position of `a` in `l` -/
def posOf (a : Int) : List Int → Option Nat
  | [] => none
  | b :: l => if b = a then some 0 else (posOf a l).map (· + 1)

/-- the name of the `j`-th support variable -/
def dddmpSuppName (f : DddmpFile) (j : Nat) : Option DddmpTok :=
  match f.orderedvarnames with
  | some ov =>
    match (f.permids.getD [])[j]? with
    | some k => if 0 ≤ k then ov[k.toNat]? else none
    | none => none
  | none =>
    match f.suppvarnames with
    | some sv => sv[j]?
    | none =>
      -- a file without names: the loader calls the variable at level `L` `permids[L]` (an `int`),
      -- so the `j`-th support variable, at level `permids[j]`, is called `permids[permids[j]]`
      match (f.permids.getD [])[j]? with
      | some k => if 0 ≤ k then ((f.permids.getD [])[k.toNat]?).map .num else none
      | none => none

/-- the variable NAME the `info` column of a non-terminal node line stands for -/
def dddmpNameOf (f : DddmpFile) (info : DddmpTok) : Option DddmpTok :=
  match f.varinfo, info with
  | some 3, _ => if (f.orderedvarnames.getD []).contains info then some info else none
  | some 0, .num i => (posOf i (f.ids.getD [])).bind (dddmpSuppName f)
  | some 1, .num k => (posOf k (f.permids.getD [])).bind (dddmpSuppName f)
  | _, _ => none

/-- `evalFileF` with an arbitrary reading `varOf` of the `info` column -/
def evalNodesF (varOf : DddmpTok → Option DddmpTok) (nodes : List DddmpNode) (α : String → Bool) :
    Nat → Int → Bool
  | 0, x => decide (x < 0)
  | fuel + 1, x =>
    (decide (x < 0)) ^^
      (match nodes.find? (fun n => n.u = (x.natAbs : Int)) with
      | none => false
      | some n =>
        if n.info = .str "T" then true else
          match varOf n.info with
          | none => false
          | some var =>
            if α var.show then evalNodesF varOf nodes α fuel n.thn
            else evalNodesF varOf nodes α fuel n.els)

/-- value of the (signed) node number `x` of the file under the assignment `α` of the variable
names, by the DDDMP rule `dddmpNameOf` — the header lines and the node list only -/
def evalFormat (f : DddmpFile) (α : String → Bool) (x : Int) : Bool :=
  evalNodesF (dddmpNameOf f) f.nodes α ((f.nvars.getD 0 + 2).toNat) x

/-! ### the one-line encoding used by the driver

fields `key=value`; lists separated by `,`; node lines `u:info:index:then:else`
separated by `;`; a token that reads as an integer is a number (as in `int(info)`
and in the grammar rule `varname : name | number`). -/

def parseTok (s : String) : DddmpTok :=
  match s.toInt? with
  | some i => .num i
  | none => .str s

def splitList (s : String) (sep : Char) : List String :=
  if s.isEmpty then [] else (s.split (· == sep)).toList.map (·.toString)

def parseIntList (s : String) : Option (List Int) := (splitList s ',').mapM (·.toInt?)

def parseNodeLine (s : String) : Option DddmpNode :=
  match splitList s ':' with
  | [u, info, index, v, w] => do
    let u ← u.toInt?
    let index ← index.toInt?
    let v ← v.toInt?
    let w ← w.toInt?
    pure ⟨u, parseTok info, index, v, w⟩
  | _ => none

def parseDddmpField (f : DddmpFile) (kv : String) : Option DddmpFile :=
  match kv.splitOn "=" with
  | [k, v] =>
    match k with
    | "varinfo" => v.toInt?.map fun x => { f with varinfo := some x }
    | "nnodes" => v.toInt?.map fun x => { f with nnodes := some x }
    | "nvars" => v.toInt?.map fun x => { f with nvars := some x }
    | "nsuppvars" => v.toInt?.map fun x => { f with nsuppvars := some x }
    | "nroots" => v.toInt?.map fun x => { f with nroots := some x }
    | "suppvarnames" => some { f with suppvarnames := some ((splitList v ',').map parseTok) }
    | "orderedvarnames" => some { f with orderedvarnames := some ((splitList v ',').map parseTok) }
    | "ids" => (parseIntList v).map fun x => { f with ids := some x }
    | "permids" => (parseIntList v).map fun x => { f with permids := some x }
    | "auxids" => (parseIntList v).map fun x => { f with auxids := some x }
    | "rootids" => (parseIntList v).map fun x => { f with rootids := some x }
    | "nodes" => ((splitList v ';').mapM parseNodeLine).map fun x => { f with nodes := x }
    | "text" => some f                    -- path of the text file, for the real code only
    -- header lines the loader never reads
    | "add" => some { f with add := v == "1" }
    | "mode" => some { f with mode := some v }
    | "dd" => some { f with ddname := some v }
    | "ver" => some f
    | _ => none
  | _ => none

def parseDddmpFile (fields : List String) : Option DddmpFile :=
  fields.foldlM parseDddmpField {}

/-- truth table (bit `a` = value under the assignment in which the `k`-th name is bit `k`
of `a`; the convention of `harness/lib.var_masks`) of the file's node number `x` -/
def dddmpTruthTable (f : DddmpFile) (names : List String) (x : Int) : Nat :=
  (List.range (2 ^ names.length)).foldl (fun acc a =>
    let α : String → Bool := fun s =>
      match names.idxOf? s with
      | some k => (a >>> k) % 2 == 1
      | none => false
    if evalFile f α x then acc ||| (1 <<< a) else acc) 0

/-- the same for `evalFormat` -/
def dddmpFormatTable (f : DddmpFile) (names : List String) (x : Int) : Nat :=
  (List.range (2 ^ names.length)).foldl (fun acc a =>
    let α : String → Bool := fun s =>
      match names.idxOf? s with
      | some k => (a >>> k) % 2 == 1
      | none => false
    if evalFormat f α x then acc ||| (1 <<< a) else acc) 0

/-- the file has names (`.orderedvarnames` or `.suppvarnames`) -/
def DddmpFile.named (f : DddmpFile) : Bool := f.orderedvarnames.isSome || f.suppvarnames.isSome

end DD
