/-
  DD.Capacity3Compose — `_compose`, `_vector_compose`, `BDD.compose` (= `let` with functions),
  `_copy_bdd`, `BDD.rename` (= `let` with names), `copy_bdd` over any `find_or_add` and nested
  `ite`: the text of DD.Ops with the two calls abstracted, and the instances `max_nodes = cap`.
-/
import DD.Capacity3Cofactor
open Std

namespace DD

def composeFG (foa iteX : Int → Int → Int → M Int) (j : Nat) :
    Nat → Int → Int → HashMap (Int × Int) Int → M (Int × HashMap (Int × Int) Int)
  | 0, _, _, _ => fun m => (.error .fuel, m)
  | fu+1, f, g, cache => fun m =>
    if f.natAbs = 1 then (.ok (f, cache), m) else
    match cache[(f, g)]? with
    | some r => (.ok (r, cache), m)
    | none =>
      match m.tbl.succ[f.natAbs]? with
      | none => (.error .key, m)
      | some n =>
        if n.lo = 0 ∨ n.hi = 0 then (.error .assertion, m) else
        if j < n.lvl then (.ok (f, cache), m) else
        if n.lvl = j then
          match iteX g n.hi n.lo m with
          | (.error e, m1) => (.error e, m1)
          | (.ok r, m1) =>
            let r := if f < 0 then -r else r
            (.ok (r, cache.insert (f, g) r), m1)
        else
          match m.tbl.levelOf? g with
          | none => (.error .key, m)
          | some k =>
            let z := min n.lvl k
            match topCofactor m.tbl f z, topCofactor m.tbl g z with
            | .error e, _ => (.error e, m)
            | .ok _, .error e => (.error e, m)
            | .ok (f0, f1), .ok (g0, g1) =>
              match composeFG foa iteX j fu f0 g0 cache m with
              | (.error e, m1) => (.error e, m1)
              | (.ok (p, cache), m1) =>
                match composeFG foa iteX j fu f1 g1 cache m1 with
                | (.error e, m2) => (.error e, m2)
                | (.ok (q, cache), m2) =>
                  match foa z p q m2 with
                  | (.error e, m3) => (.error e, m3)
                  | (.ok r, m3) => (.ok (r, cache.insert (f, g) r), m3)

def subOrVarG (foa : Int → Int → Int → M Int) (sub : List (Nat × Int)) (i : Nat) : M Int := fun m =>
  match sub.lookup i with
  | some g => (.ok g, m)
  | none => foa i (-1) 1 m

def vectorComposeFG (foa iteX : Int → Int → Int → M Int) (sub : List (Nat × Int)) :
    Nat → Int → HashMap Nat Int → M (Int × HashMap Nat Int)
  | 0, _, _ => fun m => (.error .fuel, m)
  | fu+1, f, cache => fun m =>
    if f.natAbs = 1 then (.ok (f, cache), m) else
    match cache[f.natAbs]? with
    | some r =>
      if r = 0 then (.error .assertion, m) else
      (.ok ((if f < 0 then -r else r), cache), m)
    | none =>
      match m.tbl.succ[f.natAbs]? with
      | none => (.error .key, m)
      | some n =>
        if n.lo = 0 ∨ n.hi = 0 then (.error .assertion, m) else
        match vectorComposeFG foa iteX sub fu n.lo cache m with
        | (.error e, m1) => (.error e, m1)
        | (.ok (p, cache), m1) =>
          match vectorComposeFG foa iteX sub fu n.hi cache m1 with
          | (.error e, m2) => (.error e, m2)
          | (.ok (q, cache), m2) =>
            match subOrVarG foa sub n.lvl m2 with
            | (.error e, m3) => (.error e, m3)
            | (.ok g, m3) =>
              match iteX g q p m3 with
              | (.error e, m4) => (.error e, m4)
              | (.ok r, m4) =>
                (.ok ((if f < 0 then -r else r), cache.insert f.natAbs r), m4)

def composeBodyG (foa iteX : Int → Int → Int → M Int) (f : Int) (varSub : List (String × Int)) : M Int :=
  fun m =>
  match varSub with
  | [(v, g)] =>
    match levelOfVarE m.tbl v with
    | .error e => (.error e, m)
    | .ok j =>
      match composeFG foa iteX j (2 * m.nvars + 4) f g {} m with
      | (.error e, m1) => (.error e, m1)
      | (.ok (r, _), m1) => (.ok r, m1)
  | _ =>
    match mapME (subLevelE m.tbl) varSub with
    | .error e => (.error e, m)
    | .ok sub =>
      match vectorComposeFG foa iteX sub (m.nvars + 2) f {} m with
      | (.error e, m1) => (.error e, m1)
      | (.ok (r, _), m1) => (.ok r, m1)

def composeG (foa iteX : Int → Int → Int → M Int) (f : Int) (varSub : List (String × Int)) : M Int :=
  tryToReorder (composeBodyG foa iteX f varSub)

/-- `BDD.compose` / `let` with functions, of a manager with `max_nodes = cap` -/
def composeCap (cap : Nat) : Int → List (String × Int) → M Int := composeG (findOrAddCap cap) (iteCap cap)
def composeCapL (cap : Nat) : Int → List (String × Int) → M Int := composeG (findOrAddCapL cap) (iteCapL cap)
def composeCapO (cap : Nat) : Int → List (String × Int) → M Int := composeG (findOrAddCapO cap) (iteCapO cap)

def letRefsG (cmp : Int → List (String × Int) → M Int) (d : List (String × Int)) (u : Int) : M Int :=
  match d with
  | [] => pure u
  | d => cmp u d

end DD
