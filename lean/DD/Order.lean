/-
  DD.Order — `swap`, `_shift`, `_reorder_var`, `_apply_sifting`, `_sort_to_order`,
  `reorder`, `reorder_to_pairs`.
  Python `set` iteration orders are taken from the recorded schedule `Mgr.sched`
  (sorted order when the schedule is empty).
-/
import DD.Gc
open Std

namespace DD

inductive VarOrLevel
  | name (s : String)
  | level (i : Int)
deriving Repr, Inhabited

/-- nodes whose level is `j`, ascending -/
def nodesAt (t : Tbl) (j : Nat) : List Nat :=
  t.succ.foldl (fun acc u n => if n.lvl = j then acc ++ [u] else acc) []

def isPerm (a b : List Nat) : Bool :=
  a.length == b.length && a.all (b.contains ·) && b.all (a.contains ·)

/-- iteration orders of `all_levels[x]`, `all_levels[y]` for this swap -/
def takeSwapOrders (x y : Nat) : M (List Nat × List Nat) := do
  let m ← M.get
  let dx := nodesAt m.tbl x
  let dy := nodesAt m.tbl y
  match m.sched with
  | [] => return (dx, dy)
  | .swap lv :: rest =>
    M.set { m with sched := rest }
    let ox := (lv.lookup x).getD []
    let oy := (lv.lookup y).getD []
    if isPerm ox dx && isPerm oy dy then return (ox, oy) else M.throw .sched
  | _ :: _ => M.throw .sched

/-- `_low_high(u)[0]` -/
def lowHighLevel (u : Int) : M Nat := do
  let m ← M.get
  M.ofOption .key (m.tbl.levelOf? u)

/-- `_swap_cofactor(u, y)` -/
def swapCofactor (u : Int) (y : Nat) : M (Nat × Int × Int) := do
  let m ← M.get
  if u.natAbs = 1 then
    -- terminal: `i = len(vars) > y`
    if y < m.nvars then return (m.nvars, u, u) else M.throw .type
  else
    let n ← M.ofOption .key (m.tbl.succ[u.natAbs]?)
    if y < n.lvl then return (n.lvl, u, u) else return (y, n.lo, n.hi)

def setNode (u : Nat) (n : Nd) : M Unit := do
  let m ← M.get
  M.assert (!m.pred.contains n.key)
  M.set { m with tbl := { m.tbl with succ := m.tbl.succ.insert u n }, pred := m.pred.insert n.key u }

/-- first loop of `swap`: pop the unique-table entries of one level -/
def popLevel (j : Nat) : List Nat → M (List (Nat × Int × Int))
  | [] => pure []
  | u :: rest => do
    let m ← M.get
    let n ← M.ofOption .key (m.tbl.succ[u]?)
    M.assert (n.lvl = j)
    let u' ← M.ofOption .key (m.pred[n.key]?)
    M.modify fun m => { m with pred := m.pred.erase n.key }
    M.assert (u = u')
    let r ← popLevel j rest
    return (u, n.lo, n.hi) :: r

def moveUp (x y : Nat) : List (Nat × Int × Int) → M Unit
  | [] => pure ()
  | (u, v, w) :: rest => do
    let m ← M.get
    let n ← M.ofOption .key (m.tbl.succ[u]?)
    M.assert (n.lvl = y)
    setNode u ⟨x, v, w⟩
    moveUp x y rest

def moveIndep (x y : Nat) : List (Nat × Int × Int) → M (List Nat)
  | [] => pure []
  | (u, v, w) :: rest => do
    let m ← M.get
    let n ← M.ofOption .key (m.tbl.succ[u]?)
    M.assert (n.lvl = x)
    M.assert (v ≠ 0 && w ≠ 0)
    let iv ← lowHighLevel v
    let iw ← lowHighLevel w
    if iv ≤ y || iw ≤ y then
      moveIndep x y rest
    else
      setNode u ⟨y, v, w⟩
      let d ← moveIndep x y rest
      return u :: d

/-- the cofactors `(v0, v1, w0, w1)` of the children `v`, `w` of an x-node w.r.t. `y`, after the
level assertions and the complement fix-up of `v` -/
def depCofactors (v w : Int) (y : Nat) : M (Int × Int × Int × Int) := do
  let (iv, v0, v1) ← swapCofactor v y
  let (iw, w0, w1) ← swapCofactor w y
  M.assert (y ≤ iv && y ≤ iw)
  M.assert (y = iv || y = iw)
  let (v0, v1) := if v < 0 && y = iv then (-v0, -v1) else (v0, v1)
  return (v0, v1, w0, w1)

/-- one iteration of the third loop of `swap`: rebuild the x-node `u = (x, v, w)` that depends
on `y`; returns the nodes to add to `xfresh` -/
def moveDepStep (x y : Nat) (u : Nat) (v w : Int) : M (List Nat) := do
  let m ← M.get
  let n ← M.ofOption .key (m.tbl.succ[u]?)
  M.assert (n.lvl = x)
  M.assert (v ≠ 0 && w ≠ 0)
  decref v
  decref w
  let (v0, v1, w0, w1) ← depCofactors v w y
  let p ← findOrAdd y v0 w0
  let q ← findOrAdd y v1 w1
  M.assert (0 ≤ q)
  M.assert (p ≠ q)
  let lp ← lowHighLevel p
  let lq ← lowHighLevel q
  let fresh := (if lp = y then [p.natAbs] else []) ++ (if lq = y then [q.natAbs] else [])
  setNode u ⟨x, p, q⟩
  incref p
  incref q
  return fresh

def moveDep (x y : Nat) (done : List Nat) :
    List (Nat × Int × Int) → M (List Nat × List Nat)
  | [] => pure ([], [])
  | (u, v, w) :: rest => do
    if done.contains u then moveDep x y done rest else
    let fresh ← moveDepStep x y u v w
    let (g, xf) ← moveDep x y done rest
    return (pushNew (pushNew g v.natAbs) w.natAbs, fresh ++ xf)

/-- `var_at_level(level)` -/
def varAtLevel (i : Int) : M String := do
  let m ← M.get
  if i < 0 then M.throw .value else
  M.ofOption .value (m.tbl.l2v[i.toNat]?)

/-- `level_of_var(var)` -/
def levelOfVar (v : String) : M Nat := do
  let m ← M.get
  M.ofOption .value (m.tbl.vars[v]?)

/-- `for u in levels[j]: if u not in self._succ: continue; i = self._succ[u][0]; assert ok(i)` -/
def checkOld (m : Mgr) (ok : Nat → Bool) : List (Nat × Int × Int) → M Unit
  | [] => pure ()
  | (u, _, _) :: rest =>
    match m.tbl.succ[u]? with
    | none => checkOld m ok rest
    | some n => do
      M.assert (ok n.lvl)
      checkOld m ok rest

/-- `for u in xfresh: i = self._succ[u][0]; assert i == y` -/
def checkFresh (m : Mgr) (y : Nat) : List Nat → M Unit
  | [] => pure ()
  | u :: rest => do
    let n ← M.ofOption .key (m.tbl.succ[u]?)
    M.assert (n.lvl = y)
    checkFresh m y rest

def checkNewLevels (x y : Nat) (lx ly : List (Nat × Int × Int)) (xfresh : List Nat) : M Unit := do
  let m ← M.get
  checkOld m (fun l => l = x || l = y) lx
  checkFresh m y xfresh
  checkOld m (fun l => l = x) ly

/-- the node surgery of `swap`: the five loops before the variables are exchanged -/
def swapNodes (x y : Nat) (ox oy : List Nat) :
    M (List (Nat × Int × Int) × List (Nat × Int × Int) × List Nat × List Nat) := do
  let lx ← popLevel x ox
  let ly ← popLevel y oy
  moveUp x y ly
  let done ← moveIndep x y lx
  let (garbage, xfresh) ← moveDep x y done lx
  return (lx, ly, garbage, xfresh)

/-- `vars[vx] = y; vars[vy] = x; _level_to_var[y] = vx; _level_to_var[x] = vy; _ite_table = dict()` -/
def exchangeNames (x y : Nat) : M Unit := do
  let vx ← varAtLevel x
  M.modify fun m => { m with tbl := { m.tbl with vars := m.tbl.vars.insert vx y } }
  let vy ← varAtLevel y
  M.modify fun m => { m with
    tbl := { m.tbl with
      vars := m.tbl.vars.insert vy x
      l2v := (m.tbl.l2v.insert y vx).insert x vy }
    cache := {} }

/-- `swap` once the iteration orders `ox`, `oy` of the two level sets are fixed -/
def swapWith (x y : Nat) (oldsize : Nat) (ox oy : List Nat) : M (Nat × Nat) := do
  let (lx, ly, garbage, xfresh) ← swapNodes x y ox oy
  exchangeNames x y
  collectGarbage (some (garbage.map (fun (k : Nat) => (k : Int))))
  let m ← M.get
  let newsize := m.len
  checkNewLevels x y lx ly xfresh
  return (oldsize, newsize)

/-- body of `swap` after argument validation (levels `x < y` adjacent) -/
def swapBody (x y : Nat) : M (Nat × Nat) := do
  let m ← M.get
  let oldsize := m.len
  let (ox, oy) ← takeSwapOrders x y
  swapWith x y oldsize ox oy

def resolveVL (a : VarOrLevel) : M Int := do
  let m ← M.get
  match a with
  | .name s => M.ofOption .value (m.tbl.vars[s]?) >>= fun l => pure (l : Int)
  | .level i => pure i

/-- `swap(x, y, all_levels)`; `given = false` models `all_levels is None` -/
def swap (xa ya : VarOrLevel) (given : Bool) : M (Nat × Nat) := do
  if !given then collectGarbage none
  let x ← resolveVL xa
  let y ← resolveVL ya
  let m ← M.get
  if !(0 ≤ x && x < m.nvars) then M.throw .value else
  if !(0 ≤ y && y < m.nvars) then M.throw .value else
  let lo := if x > y then y else x
  let hi := if x > y then x else y
  if lo ≥ hi then M.throw .value else
  if hi - lo ≠ 1 then M.throw .value else
  swapBody lo.toNat hi.toNat

/-- dict update keeping insertion order -/
def assocSet (l : List (Nat × Nat)) (k v : Nat) : List (Nat × Nat) :=
  if l.any (·.1 = k) then l.map (fun p => if p.1 = k then (k, v) else p) else l ++ [(k, v)]

def shiftLoop : Nat → Int → Int → Int → List (Nat × Nat) → M (List (Nat × Nat))
  | 0, i, e, _, sizes => if i = e then pure sizes else M.throw .fuel
  | f+1, i, e, d, sizes =>
    if i = e then pure sizes else do
      let j := i + d
      let (oldn, n) ← swap (.level i) (.level j) true
      let sizes := assocSet sizes i.toNat oldn
      let sizes := assocSet sizes j.toNat n
      shiftLoop f j e d sizes

/-- `_shift(bdd, start, end, levels)` -/
def shift (start end_ : Nat) : M (List (Nat × Nat)) := do
  let m ← M.get
  M.assert (start < m.nvars)
  M.assert (end_ < m.nvars)
  let d : Int := if start < end_ then 1 else -1
  shiftLoop (m.nvars + 1) start end_ d []

/-- `min(sizes, key=sizes.get)`: first key with the least value -/
def argMin : List (Nat × Nat) → Option Nat
  | [] => none
  | (k, v) :: rest =>
    let r := rest.foldl (fun (b : Nat × Nat) p => if p.2 < b.2 then p else b) (k, v)
    some r.1

/-- `_reorder_var(bdd, var, levels)` -/
def reorderVar (var : String) : M Nat := do
  let m ← M.get
  if !m.tbl.vars.contains var then M.throw .value else
  let len0 := m.len
  M.assert (0 < m.nvars)
  let n := m.nvars - 1
  let level ← levelOfVar var
  let (start, end_) := if 2 * level ≥ n then (n, 0) else (0, n)
  let _ ← shift level start
  let sizes ← shift start end_
  let k ← M.ofOption .value (argMin sizes)
  let _ ← shift end_ k
  let m ← M.get
  let len1 := m.len
  M.assert ((sizes.lookup k) = some len1)
  M.assert (len1 ≤ len0)
  return k

/-- order of `for var in names` -/
def takeSiftOrder : M (List String) := do
  let m ← M.get
  let dflt := m.tbl.vars.keys
  match m.sched with
  | [] => return dflt
  | .sift names :: rest =>
    M.set { m with sched := rest }
    if names.length == dflt.length && names.all (dflt.contains ·) && dflt.all (names.contains ·)
    then return names else M.throw .sched
  | _ :: _ => M.throw .sched

/-- `for var in names: _reorder_var(bdd, var, levels)` -/
def siftVars : List String → M Unit
  | [] => pure ()
  | var :: rest => do
    let _ ← reorderVar var
    siftVars rest

/-- `_apply_sifting(bdd)` -/
def applySifting : M Unit := do
  collectGarbage none
  let m ← M.get
  let n := m.len
  let names ← takeSiftOrder
  if names.isEmpty then M.throw .other else  -- `m` unbound in the Python code
  siftVars names
  let m ← M.get
  M.assert (m.len ≤ n)

/-- `for root in bdd.roots: if root not in bdd: raise ValueError` -/
def checkRootsL (m : Mgr) : List Int → M Unit
  | [] => pure ()
  | r :: rest => if !m.mem r then M.throw .value else checkRootsL m rest

def checkRoots : M Unit := do
  let m ← M.get
  checkRootsL m m.roots

/-- one comparison of the bubble sort: levels `i`, `i+1` -/
def sortStep (order : List (String × Int)) (i : Nat) : M Unit := do
  checkRoots
  let x ← varAtLevel i
  let y ← varAtLevel (i + 1)
  let p ← M.ofOption .key (order.lookup x)
  let q ← M.ofOption .key (order.lookup y)
  if p > q then
    let _ ← swap (.level i) (.level (i + 1)) true

/-- `for i in range(n - 1)` -/
def sortInner (order : List (String × Int)) : List Nat → M Unit
  | [] => pure ()
  | i :: rest => do
    sortStep order i
    sortInner order rest

/-- `for k in range(n)` -/
def sortOuter (order : List (String × Int)) (n : Nat) : Nat → M Unit
  | 0 => pure ()
  | k+1 => do
    sortInner order (List.range (n - 1))
    sortOuter order n k

/-- `_sort_to_order(bdd, order)` -/
def sortToOrder (order : List (String × Int)) : M Unit := do
  let m ← M.get
  if m.nvars ≠ order.length then M.throw .value else
  let n := order.length
  sortOuter order n n

/-- `reorder(bdd, order)` -/
def reorder (order : Option (List (String × Int))) : M Unit :=
  match order with
  | none => applySifting
  | some o => sortToOrder o

/-- one pair of `reorder_to_pairs` -/
def pairStep (x y : String) : M Unit := do
  let jx ← levelOfVar x
  let jy ← levelOfVar y
  let k := if jx ≤ jy then jy - jx else jx - jy
  M.assert (0 < k)
  if k ≠ 1 then
    let (jx, jy) := if jx > jy then (jy, jx) else (jx, jy)
    let _ ← shift jx (jy - 1)

/-- `reorder_to_pairs(bdd, pairs)` -/
def reorderToPairs : List (String × String) → M Unit
  | [] => pure ()
  | (x, y) :: rest => do
    pairStep x y
    reorderToPairs rest

end DD
