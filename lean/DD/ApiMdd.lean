/-
  DD.ApiMdd — `dd.mdd.MDD.to_expr`, `MDD.__iter__`, and the graph `dd.mdd._to_dot` builds for
  `MDD.dump`.

  `to_expr(u)` prints, for a node at level `i` with variable `var`,
      `(if (var = j): p, \nelif (var in {j1, j2}): q, …)`      (`! ` after `(` when `u < 0`)
  with one branch per DISTINCT successor (`tuple(set(nodes))`: in set order, which is not
  modelled) listing the values of the variable that lead to it.  The model returns the abstract
  conditional chain `MExpr`, the branches in the order of the LAST occurrence of each distinct
  successor (`dedup`); the harness parses the text the real code returns into the same abstract
  form (branches sorted by their largest value).
-/
import DD.Mdd
open Std

namespace DD

/-- abstract syntax of what `MDD.to_expr` prints -/
inductive MExpr
  | const (b : Bool)
  /-- end of an `if … elif …` chain: no branch applies -/
  | fail
  /-- `if (var in vals): thn, elif …els` -/
  | cond (var : String) (vals : List Nat) (thn els : MExpr)
  /-- `! …` -/
  | neg (e : MExpr)
deriving Repr, Inhabited

/-- `cond[x]`: the positions `j` with `nodes[j] == x` -/
def mIdxOf (kids : List Int) (x : Int) : List Nat :=
  (List.range kids.length).filter fun j => kids[j]? == some x

/-- the chain over the distinct successors `c` with their expressions `e[x]` -/
def mChain (var : String) (kids : List Int) : List (Int × MExpr) → MExpr
  | [] => .fail
  | (x, e) :: rest => .cond var (mIdxOf kids x) e (mChain var kids rest)

/-- `MDD.to_expr(u)`; the fuel bounds the recursion depth (levels strictly increase) -/
def mToExprF : Nat → MTbl → Int → Except Err MExpr
  | 0, _, _ => .error .fuel
  | f+1, t, u =>
    if u = 1 then .ok (.const true) else
    if u = -1 then .ok (.const false) else
    -- `t = self._succ[abs(u)]`
    match t.succ[u.natAbs]? with
    | none => .error .key
    | some n =>
      -- `var = self.var_at_level(i)`
      match t.varAt? n.lvl with
      | none => .error .key
      | some v =>
        -- `c = tuple(set(nodes))`; `e = {x: self.to_expr(x) for x in c}`
        match mapME (fun x => (mToExprF f t x).map fun e => (x, e)) (dedup n.kids) with
        | .error e => .error e
        | .ok [] => .error .other          -- `x = c[0]`: IndexError
        | .ok bs =>
          let s := mChain v.name n.kids bs
          .ok (if u < 0 then .neg s else s)

def mToExpr (t : MTbl) (u : Int) : Except Err MExpr := mToExprF (t.nvars + 2) t u

/-- canonical text of an `MExpr` (the harness prints the parsed Python text the same way) -/
def MExpr.show : MExpr → String
  | .const true => "1"
  | .const false => "0"
  | .fail => "#"
  | .cond v vals thn els =>
    "[" ++ v ++ ":" ++ ".".intercalate (vals.map toString) ++ "?" ++ thn.show ++ ";" ++ els.show ++ "]"
  | .neg e => "!" ++ e.show

/-- value of the printed expression under an assignment of integers to variable NAMES -/
def MExpr.eval (σ : String → Nat) : MExpr → Bool
  | .const b => b
  | .fail => false
  | .cond v vals thn els => if vals.contains (σ v) then thn.eval σ else els.eval σ
  | .neg e => !e.eval σ

/-- the file type `MDD.dump(fname)` infers: `.pdf`, `.dot`, otherwise `ValueError` (after the
graph has been built) -/
def mDumpKind (t : MTbl) (fname : String) : Except Err String :=
  if fname.endsWith ".pdf" then .ok "pdf"
  else if fname.endsWith ".dot" then .ok "dot"
  else .error .value

/-- `iter(mdd)`: the keys of `_succ` -/
def mIterNodes (t : MTbl) : List Nat := (if t.term then [1] else []) ++ t.succ.keys

/-- the graph of `dd.mdd._to_dot(mdd)`: nodes `(u, level, label variable)` and edges
`(u, |v|, j, v < 0)`; `var_at_level` is evaluated for every non-terminal node -/
def mToDot (t : MTbl) : Except Err (List (Nat × Nat × String) × List (Nat × Nat × Nat × Bool)) :=
  let rec go : List (Nat × MNd) → Except Err (List (Nat × Nat × String) × List (Nat × Nat × Nat × Bool))
    | [] => .ok ((if t.term then [(1, t.nvars, "1")] else []), [])
    | (u, n) :: rest =>
      match t.varAt? n.lvl with
      | none => .error .key
      | some v =>
        -- `h = subgraphs[i]`: the layers are `0 .. len(vars)`
        if t.nvars < n.lvl then .error .key else
        match go rest with
        | .error e => .error e
        | .ok (ns, es) =>
          .ok ((u, n.lvl, v.name) :: ns,
               (n.kids.zipIdx.map fun (k, j) => (u, k.natAbs, j, decide (k < 0))) ++ es)
  go t.succ.toList

end DD
