/-
  DD.OrderChoice — `swap` and its callers driven by a CHOICE of iteration orders.

  The Python code iterates over `set`s — `names = set(bdd.vars)` in `_apply_sifting`, the level
  sets `all_levels[x]`, `all_levels[y]` inside `swap` — in an order that the code does not
  control.  A `Choice` is an adversary that picks those orders: `names k l` for the set of variable
  names whose sorted list is `l`, `level k j l` for the level set of level `j` whose sorted list is
  `l`, at the moment when `k` orders have been picked so far (so that the same set may be iterated
  differently at different times, as with Python sets, whose order depends on their history).
  A choice is VALID when every answer is a permutation of the list it was given.

  The functions below are the functions of DD.Order with `takeSwapOrders` / `takeSiftOrder`
  replaced by the choice; they never look at `Mgr.sched`, and they RECORD the orders they were
  given, in the format of a recorded schedule (`log`, appended to).  DDProofs.SchedAccept proves
  that running DD.Order's functions with that record in `Mgr.sched` does exactly what these do:
  every valid choice is realised by a schedule that the model accepts.
-/
import DD.Order
open Std

namespace DD

/-- a choice of iteration orders (see the file header) -/
structure Choice where
  names : Nat → List String → List String
  level : Nat → Nat → List Nat → List Nat

/-- the choice that takes every set in ascending order (what the model does with no schedule) -/
def Choice.default : Choice := ⟨fun _ l => l, fun _ _ l => l⟩

/-- `swap` on validated adjacent levels under the choice `c`; `log` = the orders picked so far -/
def swapBodyC (c : Choice) (x y : Nat) (log : List SchedItem) : M ((Nat × Nat) × List SchedItem) := do
  let m ← M.get
  let ox := c.level log.length x (nodesAt m.tbl x)
  let oy := c.level log.length y (nodesAt m.tbl y)
  let r ← swapWith x y m.len ox oy
  return (r, log ++ [.swap [(x, ox), (y, oy)]])

/-- `swap(x, y, all_levels)` with a dict given (no initial collection) -/
def swapC (c : Choice) (xa ya : VarOrLevel) (log : List SchedItem) : M ((Nat × Nat) × List SchedItem) := do
  let x ← resolveVL xa
  let y ← resolveVL ya
  let m ← M.get
  if !(0 ≤ x && x < m.nvars) then M.throw .value else
  if !(0 ≤ y && y < m.nvars) then M.throw .value else
  let lo := if x > y then y else x
  let hi := if x > y then x else y
  if lo ≥ hi then M.throw .value else
  if hi - lo ≠ 1 then M.throw .value else
  swapBodyC c lo.toNat hi.toNat log

/-- the public `swap(x, y)` (no dict given: a full collection first) -/
def swapPublicC (c : Choice) (xa ya : VarOrLevel) (log : List SchedItem) :
    M ((Nat × Nat) × List SchedItem) := do
  collectGarbage none
  swapC c xa ya log

def shiftLoopC (c : Choice) : Nat → Int → Int → Int → List (Nat × Nat) → List SchedItem →
    M (List (Nat × Nat) × List SchedItem)
  | 0, i, e, _, sizes, log => if i = e then pure (sizes, log) else M.throw .fuel
  | f+1, i, e, d, sizes, log =>
    if i = e then pure (sizes, log) else do
      let j := i + d
      let ((oldn, n), log) ← swapC c (.level i) (.level j) log
      let sizes := assocSet sizes i.toNat oldn
      let sizes := assocSet sizes j.toNat n
      shiftLoopC c f j e d sizes log

def shiftC (c : Choice) (start end_ : Nat) (log : List SchedItem) :
    M (List (Nat × Nat) × List SchedItem) := do
  let m ← M.get
  M.assert (start < m.nvars)
  M.assert (end_ < m.nvars)
  let d : Int := if start < end_ then 1 else -1
  shiftLoopC c (m.nvars + 1) start end_ d [] log

def reorderVarC (c : Choice) (var : String) (log : List SchedItem) : M (Nat × List SchedItem) := do
  let m ← M.get
  if !m.tbl.vars.contains var then M.throw .value else
  let len0 := m.len
  M.assert (0 < m.nvars)
  let n := m.nvars - 1
  let level ← levelOfVar var
  let (start, end_) := if 2 * level ≥ n then (n, 0) else (0, n)
  let (_, log) ← shiftC c level start log
  let (sizes, log) ← shiftC c start end_ log
  let k ← M.ofOption .value (argMin sizes)
  let (_, log) ← shiftC c end_ k log
  let m ← M.get
  let len1 := m.len
  M.assert ((sizes.lookup k) = some len1)
  M.assert (len1 ≤ len0)
  return (k, log)

def siftVarsC (c : Choice) : List String → List SchedItem → M (Unit × List SchedItem)
  | [], log => pure ((), log)
  | var :: rest, log => do
    let (_, log) ← reorderVarC c var log
    siftVarsC c rest log

/-- `_apply_sifting(bdd)` under the choice `c`: returns the record of the orders it was given -/
def applySiftingC (c : Choice) (log : List SchedItem) : M (Unit × List SchedItem) := do
  collectGarbage none
  let m ← M.get
  let n := m.len
  let names := c.names log.length m.tbl.vars.keys
  let log := log ++ [.sift names]
  if names.isEmpty then M.throw .other else
  let (_, log) ← siftVarsC c names log
  let m ← M.get
  M.assert (m.len ≤ n)
  return ((), log)

def sortStepC (c : Choice) (order : List (String × Int)) (i : Nat) (log : List SchedItem) :
    M (Unit × List SchedItem) := do
  checkRoots
  let x ← varAtLevel i
  let y ← varAtLevel (i + 1)
  let p ← M.ofOption .key (order.lookup x)
  let q ← M.ofOption .key (order.lookup y)
  if p > q then
    let (_, log) ← swapC c (.level i) (.level (i + 1)) log
    return ((), log)
  else return ((), log)

def sortInnerC (c : Choice) (order : List (String × Int)) : List Nat → List SchedItem →
    M (Unit × List SchedItem)
  | [], log => pure ((), log)
  | i :: rest, log => do
    let (_, log) ← sortStepC c order i log
    sortInnerC c order rest log

def sortOuterC (c : Choice) (order : List (String × Int)) (n : Nat) : Nat → List SchedItem →
    M (Unit × List SchedItem)
  | 0, log => pure ((), log)
  | k+1, log => do
    let (_, log) ← sortInnerC c order (List.range (n - 1)) log
    sortOuterC c order n k log

def sortToOrderC (c : Choice) (order : List (String × Int)) (log : List SchedItem) :
    M (Unit × List SchedItem) := do
  let m ← M.get
  if m.nvars ≠ order.length then M.throw .value else
  let n := order.length
  sortOuterC c order n n log

/-- `reorder(bdd, order)` under the choice `c` -/
def reorderC (c : Choice) (order : Option (List (String × Int))) (log : List SchedItem) :
    M (Unit × List SchedItem) :=
  match order with
  | none => applySiftingC c log
  | some o => sortToOrderC c o log

/-- one pair of `reorder_to_pairs` -/
def pairStepC (c : Choice) (x y : String) (log : List SchedItem) : M (Unit × List SchedItem) := do
  let jx ← levelOfVar x
  let jy ← levelOfVar y
  let k := if jx ≤ jy then jy - jx else jx - jy
  M.assert (0 < k)
  if k ≠ 1 then
    let (jx, jy) := if jx > jy then (jy, jx) else (jx, jy)
    let (_, log) ← shiftC c jx (jy - 1) log
    return ((), log)
  else return ((), log)

/-- `reorder_to_pairs(bdd, pairs)` under the choice `c` -/
def reorderToPairsC (c : Choice) : List (String × String) → List SchedItem → M (Unit × List SchedItem)
  | [], log => pure ((), log)
  | (x, y) :: rest, log => do
    let (_, log) ← pairStepC c x y log
    reorderToPairsC c rest log

end DD
