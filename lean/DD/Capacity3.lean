/-
  DD.Capacity3 — `_quantify` / `BDD.quantify` over any `find_or_add` and any (decorated) `ite`:
  the text of `quantifyF`, `quantifyBody`, `quantify` of DD.Ops with the two calls abstracted
  (`quantifyFG findOrAdd ite = quantifyF`: `DD.quantifyFG_model`), and the instances of a manager
  with `max_nodes = cap`; `apply` with capacity for EVERY operator (`applyCapQ`: the quantifier
  aliases go through `quantifyCap`).
-/
import DD.Capacity2
open Std

namespace DD

def quantifyFG (foa iteX : Int → Int → Int → M Int) (qvars : List Nat) (forall_ : Bool) :
    Nat → Int → List Nat → HashMap Int Int → M (Int × HashMap Int Int)
  | 0, _, _, _ => fun m => (.error .fuel, m)
  | f+1, u, ordvar, cache => fun m =>
    if u.natAbs = 1 then (.ok (u, cache), m) else
    match cache[u]? with
    | some r => (.ok (r, cache), m)
    | none =>
      match m.tbl.succ[u.natAbs]? with
      | none => (.error .key, m)
      | some n =>
        if n.lo = 0 ∨ n.hi = 0 then (.error .assertion, m) else
        let v := if u < 0 then -n.lo else n.lo
        let w := if u < 0 then -n.hi else n.hi
        let ordvar := ordvar.dropWhile (· < n.lvl)
        if ordvar.isEmpty then (.ok (u, cache), m) else
        match quantifyFG foa iteX qvars forall_ f v ordvar cache m with
        | (.error e, m1) => (.error e, m1)
        | (.ok (p, cache), m1) =>
          match quantifyFG foa iteX qvars forall_ f w ordvar cache m1 with
          | (.error e, m2) => (.error e, m2)
          | (.ok (q, cache), m2) =>
            match (if qvars.contains n.lvl then
                (if forall_ then iteX p q (-1) m2 else iteX p 1 q m2)
              else foa n.lvl p q m2) with
            | (.error e, m3) => (.error e, m3)
            | (.ok r, m3) => (.ok (r, cache.insert u r), m3)

def quantifyBodyG (foa iteX : Int → Int → Int → M Int) (u : Int) (qvars : List Key) (forall_ : Bool) :
    M Int := fun m =>
  match mapToLevelE m.tbl qvars with
  | .error e => (.error e, m)
  | .ok lv =>
    let ordvar := sortNat (dedup lv)
    match quantifyFG foa iteX lv forall_ (m.nvars + 2) u ordvar {} m with
    | (.error e, m1) => (.error e, m1)
    | (.ok (r, _), m1) => (.ok r, m1)

def quantifyG (foa iteX : Int → Int → Int → M Int) (u : Int) (qvars : List Key) (forall_ : Bool) : M Int :=
  tryToReorder (quantifyBodyG foa iteX u qvars forall_)

/-- `BDD.quantify` of a manager with `max_nodes = cap` (abstract / literal `find_or_add`) -/
def quantifyCap (cap : Nat) : Int → List Key → Bool → M Int := quantifyG (findOrAddCap cap) (iteCap cap)
def quantifyCapL (cap : Nat) : Int → List Key → Bool → M Int := quantifyG (findOrAddCapL cap) (iteCapL cap)
def quantifyCapO (cap : Nat) : Int → List Key → Bool → M Int := quantifyG (findOrAddCapO cap) (iteCapO cap)

/-- `BDD.apply` of a manager with `max_nodes = cap`, EVERY operator of the vocabulary -/
def applyCapQ (cap : Nat) : String → Int → Option Int → Option Int → M Int :=
  applyG (iteCap cap) (quantifyCap cap)
def applyCapQL (cap : Nat) : String → Int → Option Int → Option Int → M Int :=
  applyG (iteCapL cap) (quantifyCapL cap)
def applyCapQO (cap : Nat) : String → Int → Option Int → Option Int → M Int :=
  applyG (iteCapO cap) (quantifyCapO cap)

end DD
