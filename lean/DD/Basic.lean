/-
  DD.Basic — state of the model of `dd.bdd.BDD` and the small monad the
  model is written in.  No Mathlib import anywhere under `DD/`.
-/
import Std.Data.TreeMap
import Std.Data.HashMap
open Std

namespace DD

/-- A non-terminal node `(level, low, high)`; `hi` is an `Int` on purpose:
"the high edge is regular" is an invariant, not a type. -/
structure Nd where
  lvl : Nat
  lo : Int
  hi : Int
deriving Repr, DecidableEq, Hashable, Inhabited

instance : LawfulBEq Nd := inferInstance

/-- key of a node in the unique table (`_pred`): the triple `(level, low, high)` -/
def Nd.key (n : Nd) : List Int := [(n.lvl : Int), n.lo, n.hi]

/-- key of the computed table (`_ite_table`) -/
def iteKey (g u v : Int) : List Int := [g, u, v]

/-- Python exceptions, as the harness canonicalises them. -/
inductive Err
  | value | key | type | assertion | runtime | needsReordering
  | notImplemented | fuel | sched | other
deriving Repr, DecidableEq, Inhabited

def Err.toString : Err → String
  | .value => "ValueError"
  | .key => "KeyError"
  | .type => "TypeError"
  | .assertion => "AssertionError"
  | .runtime => "RuntimeError"
  | .needsReordering => "NeedsReordering"
  | .notImplemented => "NotImplementedError"
  | .fuel => "MODEL-OUT-OF-FUEL"
  | .sched => "MODEL-SCHEDULE-MISMATCH"
  | .other => "OtherError"

instance : ToString Err := ⟨Err.toString⟩

/-- The part of the manager the denotation reads. -/
structure Tbl where
  succ : TreeMap Nat Nd := {}
  vars : TreeMap String Nat := {}
  l2v : TreeMap Nat String := {}

/-- Items of a recorded iteration schedule (Python `set` orders). -/
inductive SchedItem
  | sift (names : List String)              -- order of `for var in names`
  | swap (lv : List (Nat × List Nat))       -- order of each `all_levels[j]` at entry of a `swap`
deriving Repr, Inhabited

structure Mgr where
  tbl : Tbl := {}
  pred : TreeMap (List Int) Nat := {}
  ref : TreeMap Nat Nat := (({} : TreeMap Nat Nat).insert 1 1)
  minFree : Nat := 2
  cache : TreeMap (List Int) Int := {}
  lastLen : Option Nat := none
  ctx : Bool := false
  /-- harness-only: fire the reordering request at the k-th eligible call -/
  fireIn : Option Nat := none
  /-- recorded schedule, consumed by sifting / swaps -/
  sched : List SchedItem := []
  /-- `bdd.roots` -/
  roots : List Int := []

instance : Inhabited Mgr := ⟨{}⟩

namespace Tbl
def nvars (t : Tbl) : Nat := t.vars.size
def node? (t : Tbl) (u : Nat) : Option Nd := t.succ[u]?
/-- `abs(u) in self._succ` (the terminal is in `_succ`) -/
def mem (t : Tbl) (u : Int) : Bool := u.natAbs == 1 || t.succ.contains u.natAbs
/-- `self._succ[abs(u)][0]` -/
def levelOf? (t : Tbl) (u : Int) : Option Nat :=
  if u.natAbs = 1 then some t.nvars else (t.succ[u.natAbs]?).map (·.lvl)
end Tbl

namespace Mgr
def nvars (m : Mgr) : Nat := m.tbl.nvars
/-- `len(bdd)` : number of entries of `_succ`, terminal included -/
def len (m : Mgr) : Nat := m.tbl.succ.size + 1
def mem (m : Mgr) (u : Int) : Bool := m.tbl.mem u
end Mgr

/-- The model monad: state persists when an exception is raised. -/
def M (α : Type) := Mgr → Except Err α × Mgr

namespace M
@[inline] def pure' (a : α) : M α := fun m => (.ok a, m)
@[inline] def bind' (x : M α) (f : α → M β) : M β := fun m =>
  match x m with
  | (.ok a, m') => f a m'
  | (.error e, m') => (.error e, m')
instance : Monad M where
  pure := pure'
  bind := bind'
@[inline] def throw (e : Err) : M α := fun m => (.error e, m)
@[inline] def get : M Mgr := fun m => (.ok m, m)
@[inline] def set (m : Mgr) : M Unit := fun _ => (.ok (), m)
@[inline] def modify (f : Mgr → Mgr) : M Unit := fun m => (.ok (), f m)
@[inline] def ofOption (e : Err) : Option α → M α
  | some a => pure a
  | none => throw e
@[inline] def assert (b : Bool) (e : Err := .assertion) : M Unit :=
  if b then pure () else throw e
end M

/-- `-r if u < 0 else r` -/
@[inline] def flip (r u : Int) : Int := if u < 0 then -r else r

end DD
