/-
  DD.DumpDriver — protocol ops of the dump/load slice (exe `ddvdump`).
  File contents travel inside the line, one field per component:

    roots   `N` | `L:4,-5` | `D:f=4,g=-5`
    vars    `a:0,b:1`
    succ    `1:2:N:N,3:1:-1:1`          (id:level:low:high, `N` = None)
    ref     `1:3,2:0`
    nodes   `5:2:F:T,6:1:-5:T`          (JSON node lines in emission order)

  Answers of the `*dump` ops are canonical (dict items sorted); the `*load` ops take the
  content in the order of the file the real code wrote.
-/
import DD.Dump
import DD.Driver
open Std

namespace DD

/-! ### printing -/

def dmpShowOptInt : Option Int → String
  | none => "N"
  | some i => toString i

def Roots.show : Roots → String
  | .none => "N"
  | .list l => "L:" ++ showInts l
  | .dict d => "D:" ++ joinWith "," (d.map fun (k, v) => s!"{k}={v}")

def showVars (l : List (String × Nat)) : String :=
  joinWith "," ((sortBy (fun (a b : String × Nat) => a.1 ≤ b.1) l).map fun (v, i) => s!"{v}:{i}")

def PEntry.show (e : PEntry) : String := s!"{e.id}:{e.lvl}:{dmpShowOptInt e.lo}:{dmpShowOptInt e.hi}"

def showEntries (l : List PEntry) : String :=
  joinWith "," ((sortBy (fun (a b : PEntry) => a.id ≤ b.id) l).map PEntry.show)

def PickleFile.show (f : PickleFile) : String :=
  s!"{showVars f.vars}|{showEntries f.succ}|{f.roots.show}"

def ManagerFile.show (f : ManagerFile) : String :=
  let ref := joinWith "," ((sortBy (fun (a b : Nat × Nat) => a.1 ≤ b.1) f.ref).map fun (u, c) => s!"{u}:{c}")
  s!"{showVars f.vars}|{showInts (sortBy (· ≤ ·) f.roots)}|{showEntries f.pred}|{showEntries f.succ}|{ref}|{f.minFree}"

def showTF (i : Int) : String := if i = 1 then "T" else if i = -1 then "F" else toString i

def JsonFile.show (f : JsonFile) : String :=
  let nodes := joinWith "," (f.nodes.map fun ln => s!"{ln.id}:{ln.lvl}:{showTF ln.lo}:{showTF ln.hi}")
  s!"{showVars f.levelOfVar}|{f.roots.show}|{nodes}"

/-! ### parsing -/

def parseRoots (s : String) : Option Roots :=
  if s == "N" then some .none
  else if s.startsWith "L:" then (parseInts (s.drop 2).toString).map Roots.list
  else if s.startsWith "D:" then
    ((parsePairs (s.drop 2).toString).bind fun ps => ps.mapM fun (k, v) => do
      let v ← parseInt? v
      pure (k, v)).map Roots.dict
  else none

def parseVars (s : String) : Option (List (String × Nat)) :=
  (splitOn1 s ',').mapM fun item =>
    match item.splitOn ":" with
    | [v, l] => (parseNat? l).map fun l => (v, l)
    | _ => none

def parseOptInt (s : String) : Option (Option Int) :=
  if s == "N" then some none else (parseInt? s).map some

def parseEntries (s : String) : Option (List PEntry) :=
  (splitOn1 s ',').mapM fun item =>
    match item.splitOn ":" with
    | [u, l, v, w] => do
      let u ← parseNat? u
      let l ← parseNat? l
      let v ← parseOptInt v
      let w ← parseOptInt w
      pure ⟨u, l, v, w⟩
    | _ => none

def parseRef (s : String) : Option (List (Nat × Nat)) :=
  (splitOn1 s ',').mapM fun item =>
    match item.splitOn ":" with
    | [u, c] => do
      let u ← parseNat? u
      let c ← parseNat? c
      pure (u, c)
    | _ => none

def parseTF (s : String) : Option Int :=
  if s == "T" then some 1 else if s == "F" then some (-1) else parseInt? s

def parseJLines (s : String) : Option (List JLine) :=
  (splitOn1 s ',').mapM fun item =>
    match item.splitOn ":" with
    | [u, l, v, w] => do
      let u ← parseNat? u
      let l ← parseNat? l
      let v ← parseTF v
      let w ← parseTF w
      pure ⟨u, l, v, w⟩
    | _ => none

def showKind : FileKind → String
  | .figure t => "figure:" ++ t
  | .pickle => "pickle"
  | .json => "json"

/-! ### ops -/

def rootsRes (x : M Roots) : M DRes := do
  let r ← x
  return .str r.show

def exceptRes (x : Except Err String) : M DRes := fun m =>
  match x with
  | .ok s => (.ok (.str s), m)
  | .error e => (.error e, m)

/-- the ops of this slice on an existing manager; `none` = not one of them -/
def stepDump (op : String) (args : List String) : Option (M DRes) :=
  match op, args with
  | "pdump", [r] => some <|
    match parseRoots r with
    | some r => fun m => exceptRes ((dumpPickle m r).map PickleFile.show) m
    | none => M.throw .other
  | "pload", [_fh, lv, vars, succ, roots] => some <|
    match parseBool? lv, parseVars vars, parseEntries succ, parseRoots roots with
    | some lv, some vars, some succ, some roots => rootsRes (loadPickle ⟨vars, succ, roots⟩ lv)
    | _, _, _, _ => M.throw .other
  | "pload_auto", [_fh, _hh, lv, vars, succ, roots] => some <|
    match parseBool? lv, parseVars vars, parseEntries succ, parseRoots roots with
    | some lv, some vars, some succ, some roots => rootsRes (loadPickleAutoref ⟨vars, succ, roots⟩ lv)
    | _, _, _, _ => M.throw .other
  | "drop", [_hh, roots] => some <|
    match parseRoots roots with
    | some r => do dropRoots r; return .unit
    | none => M.throw .other
  | "mdump", [] => some fun m => (.ok (.str (dumpManager m).show), m)
  | "jdump", [r] => some <|
    match parseRoots r with
    | some r => fun m => exceptRes ((dumpJson m r).map JsonFile.show) m
    | none => M.throw .other
  | "jload", [_fh, _hh, lo, lov, roots, nodes] => some <|
    match parseBool? lo, parseVars lov, parseRoots roots, parseJLines nodes with
    | some lo, some lov, some roots, some nodes => rootsRes (loadJson ⟨lov, roots, nodes⟩ lo)
    | _, _, _, _ => M.throw .other
  | "assert_consistent", [] => some do dmpAssertConsistent; return .unit
  | _, _ => none

def kindRes (x : Except Err FileKind) : String :=
  match x with
  | .ok k => "ok " ++ showKind k
  | .error e => "err " ++ toString e

/-- one protocol line; lines that are not of this slice go to `DD.stepLine` -/
def stepLineDump (ms : Mgrs) (line : String) : Mgrs × String :=
  let fields0 := line.splitOn "\t"
  let (fields, sched) := match fields0.getLast? with
    | some l => if l.startsWith "S:" then (fields0.dropLast, parseSched (l.drop 2).toString) else (fields0, some [])
    | none => (fields0, some [])
  match fields with
  | [id, "mload", _fh, vars, roots, pred, succ, ref, minFree] =>
    match parseNat? id, parseVars vars, parseInts roots, parseEntries pred, parseEntries succ,
        parseRef ref, parseNat? minFree with
    | some id, some vars, some roots, some pred, some succ, some ref, some minFree =>
      match loadManager ⟨vars, roots, pred, succ, ref, minFree⟩ with
      | .ok m => (ms.insert id m, "ok -")
      | .error e => (ms, "err " ++ toString e)
    | _, _, _, _, _, _, _ => (ms, "err BAD-LINE")
  | [_, "dump_kind", cls, filename, filetype, rootsNone] =>
    let ft := if filetype == "-" then none else some filetype
    if cls == "bdd" then (ms, kindRes (bddDumpKind filename ft))
    else (ms, kindRes (autorefDumpKind filename ft (rootsNone == "1")))
  | [_, "load_kind", cls, filename] =>
    if cls == "bdd" then (ms, kindRes (bddLoadKind filename))
    else (ms, kindRes (autorefLoadKind filename))
  | id :: op :: args =>
    match stepDump op args with
    | none => stepLine ms line
    | some x =>
      match sched, parseNat? id with
      | some sched, some id =>
        match ms[id]? with
        | none => (ms, "err BAD-MGR")
        | some m =>
          let (r, m') := x { m with sched := sched }
          let left := !m'.sched.isEmpty && (match r with | .ok _ => true | .error _ => false)
          let m' := { m' with sched := [] }
          (ms.insert id m', showOut r ++ (if left then " SCHED-LEFT" else ""))
      | _, _ => (ms, "err BAD-LINE")
  | _ => stepLine ms line

end DD
