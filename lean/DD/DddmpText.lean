/-
  DD.DddmpText — the TEXT layer of `dd/dddmp.py`: how the file is cut into a header and a
  list of node lines (`line.startswith('.nodes')` / `line.startswith('.end')`),
  the PLY lexer of the header (`Lexer`: `t_KEYWORD`, `t_NAME`, `t_comment`, `t_newline`,
  `t_NUMBER`, `t_DOT`, `t_MINUS`, `t_ignore`, `t_error`), the LALR(1) header grammar of `Parser`
  with its semantic actions in the order in which PLY runs them (`.mode` other than `A` and
  `.rootnames` are REFUSED during the parse; `.ver`, `.dd`, `.add` are accepted and never read
  again), and the node lines (`line.split(' ')`, `int(..)`).

  `loadDddmpText` = `dd.dddmp.load` on the text of a file; on a text that parses it is
  `loadDddmp` of `DD/Dddmp.lean` on the parsed content.

  Boundary: ASCII text (PLY's `\d` and Python's `int()` / `str.strip()` also accept non-ASCII
  digits and blanks; the driver refuses such input instead of guessing).
-/
import DD.Dddmp
import Generated.Tables
open Std

namespace DD

/-! ### the file as Python reads it -/

/-- `open(fname, 'r')`: universal newlines (`\r\n` and `\r` become `\n`) -/
def pyNewlines : List Char → List Char
  | [] => []
  | '\r' :: '\n' :: r => '\n' :: pyNewlines r
  | '\r' :: r => '\n' :: pyNewlines r
  | c :: r => c :: pyNewlines r

/-- `for line in f`: every line keeps its `\n`; the last one may lack it -/
def pyLinesAux : List Char → List Char → List (List Char)
  | [], [] => []
  | [], acc => [acc.reverse]
  | c :: r, acc => if c = '\n' then ('\n' :: acc).reverse :: pyLinesAux r [] else pyLinesAux r (c :: acc)

def pyLines (s : List Char) : List (List Char) := pyLinesAux (pyNewlines s) []

/-- `line.startswith('.nodes')` (since f9d6f33; before, `'.nodes' in line`: finding F23) -/
def hasNodesMark (l : List Char) : Bool := ['.', 'n', 'o', 'd', 'e', 's'].isPrefixOf l
/-- `line.startswith('.end')` -/
def hasEndMark (l : List Char) : Bool := ['.', 'e', 'n', 'd'].isPrefixOf l

/-- HISTORICAL (before the repair f9d6f33 of `dd/dddmp.py`, finding F23): `sub in line`; the
loader cut the file at the first line that CONTAINED the mark, e.g. in a variable name -/
def isInfixC (sub : List Char) : List Char → Bool
  | [] => sub.isEmpty
  | c :: r => sub.isPrefixOf (c :: r) || isInfixC sub r

/-- the lines `_parse_header` collects: those before the first line that STARTS WITH `.nodes` -/
def dddmpHeaderLines (ls : List (List Char)) : List (List Char) :=
  ls.takeWhile fun l => !hasNodesMark l

/-- the lines `_parse_body` reads: after the first line that starts with `.nodes`, before the
first one after it that STARTS WITH `.end` -/
def dddmpBodyLines (ls : List (List Char)) : List (List Char) :=
  ((ls.dropWhile fun l => !hasNodesMark l).drop 1).takeWhile fun l => !hasEndMark l

/-- `'\n'.join(a)` -/
def joinNl : List (List Char) → List Char
  | [] => []
  | [l] => l
  | l :: r => l ++ '\n' :: joinNl r

/-! ### the lexer of the header -/

inductive HKw
  | ver | add | mode | varinfo | dd | nnodes | nvars | orderedvarnames | nsuppvars
  | suppvarnames | ids | permids | auxids | nroots | rootids | rootnames
deriving DecidableEq, Repr, Inhabited

/-- token types of `Lexer.reserved` -/
def HKw.ofType : String → Option HKw
  | "VERSION" => some .ver
  | "ADD" => some .add
  | "FILEMODE" => some .mode
  | "VARINFO" => some .varinfo
  | "DD" => some .dd
  | "NNODES" => some .nnodes
  | "NVARS" => some .nvars
  | "ORDEREDVARNAMES" => some .orderedvarnames
  | "NSUPPVARS" => some .nsuppvars
  | "SUPPVARNAMES" => some .suppvarnames
  | "IDS" => some .ids
  | "PERMIDS" => some .permids
  | "AUXIDS" => some .auxids
  | "NROOTS" => some .nroots
  | "ROOTIDS" => some .rootids
  | "ROOTNAMES" => some .rootnames
  | _ => none

inductive HTok
  | kw (k : HKw)
  | name (s : String)
  | number (n : Nat)
  | minus
  | dot
deriving DecidableEq, Repr, Inhabited

def dmIsAlpha (c : Char) : Bool := ('a' ≤ c && c ≤ 'z') || ('A' ≤ c && c ≤ 'Z')
def dmIsDigit (c : Char) : Bool := '0' ≤ c && c ≤ '9'
/-- `[a-zA-Z_]` -/
def dmIsNameStart (c : Char) : Bool := dmIsAlpha c || c == '_'
/-- `[a-zA-Z_@0-9'\.]` -/
def dmIsNameChar (c : Char) : Bool :=
  dmIsAlpha c || c == '_' || c == '@' || dmIsDigit c || c == '\'' || c == '.'

/-- `int(..)` of a run of ASCII digits -/
def dmDigitsVal (ds : List Char) : Nat := ds.foldl (fun a c => 10 * a + (c.toNat - 48)) 0

/-- `t.type = self.reserved.get(t.value, 'NAME')` -/
def dmWordTok (v : String) : HTok :=
  match (Gen.dddmpReserved.lookup v).bind HKw.ofType with
  | some k => .kw k
  | none => .name v

/-- the tokens PLY delivers, and whether the scan ended in `t_error` (`Illegal character`).
Order of the alternatives: `t_ignore`; then the master regular expression
`KEYWORD | NAME | comment | newline | NUMBER | DOT | MINUS` (first match). -/
def dddmpLexF : Nat → List Char → List HTok × Bool
  | 0, _ => ([], true)
  | _ + 1, [] => ([], false)
  | f + 1, c :: r =>
    if c == ' ' || c == '\t' then dddmpLexF f r
    else if c == '.' && (match r with | d :: _ => dmIsAlpha d | [] => false) then
      -- `t_KEYWORD`: `\.[a-zA-Z][a-zA-Z]*`
      let (ts, e) := dddmpLexF f (r.dropWhile dmIsAlpha)
      (dmWordTok (String.ofList ('.' :: r.takeWhile dmIsAlpha)) :: ts, e)
    else if dmIsNameStart c then
      -- `t_NAME`
      let (ts, e) := dddmpLexF f (r.dropWhile dmIsNameChar)
      (dmWordTok (String.ofList (c :: r.takeWhile dmIsNameChar)) :: ts, e)
    else if c == '#' then dddmpLexF f (r.dropWhile (· != '\n'))      -- `t_comment`: `\#.*`
    else if c == '\n' then dddmpLexF f r                              -- `t_newline`
    else if dmIsDigit c then
      let (ts, e) := dddmpLexF f (r.dropWhile dmIsDigit)
      (.number (dmDigitsVal (c :: r.takeWhile dmIsDigit)) :: ts, e)
    else if c == '.' then
      let (ts, e) := dddmpLexF f r
      (.dot :: ts, e)
    else if c == '-' then
      let (ts, e) := dddmpLexF f r
      (.minus :: ts, e)
    else ([], true)

def dddmpLex (s : List Char) : List HTok × Bool := dddmpLexF (s.length + 1) s

/-! ### the header grammar, with the semantic actions -/

/-- a reduced `line` of the grammar, with the values of its right-hand side -/
inductive DddmpLine
  | ver (name : String) (a b : Int)
  | mode (s : String)
  | varinfo (n : Int)
  | dd (s : String)
  | nnodes (n : Int)
  | nvars (n : Int)
  | nsuppvars (n : Int)
  | suppvarnames (l : List DddmpTok)
  | orderedvarnames (l : List DddmpTok)
  | ids (l : List Int)
  | permids (l : List Int)
  | auxids (l : List Int)
  | nroots (n : Int)
  | rootids (l : List Int)
  | add
  | rootnames (l : List DddmpTok)
deriving DecidableEq, Repr, Inhabited

/-- the semantic action of a `line` (`p_version` … `p_root_names`) on the attributes of
`Parser`: which header lines are stored, which are IGNORED, which are REFUSED -/
def dddmpApplyLine (f : DddmpFile) : DddmpLine → Except Err DddmpFile
  | .ver n a b => .ok { f with ver := some (n, a, b) }              -- no action
  | .mode s =>                                                       -- `p_text_mode`
    if s = "A" then .ok { f with mode := some s } else .error .other -- `B`: "only text"; else "unknown"
  | .varinfo n => .ok { f with varinfo := some n }
  | .dd s => .ok { f with ddname := some s }                         -- `self.bdd_name`, never read
  | .nnodes n => .ok { f with nnodes := some n }
  | .nvars n => .ok { f with nvars := some n }
  | .nsuppvars n => .ok { f with nsuppvars := some n }
  | .suppvarnames l => .ok { f with suppvarnames := some l }
  | .orderedvarnames l => .ok { f with orderedvarnames := some l }
  | .ids l => .ok { f with ids := some l }
  | .permids l => .ok { f with permids := some l }
  | .auxids l => .ok { f with auxids := some l }
  | .nroots n => .ok { f with nroots := some n }
  | .rootids l => .ok { f with rootids := some l }
  | .add => .ok { f with add := true }                               -- `self.algebraic_dd = True`, never read
  | .rootnames _ => .error .notImplemented                           -- `p_root_names`

/-- the actions of a sequence of lines, in order; the first refusal ends the parse -/
def dddmpApplyLines (f : DddmpFile) : List DddmpLine → Except Err DddmpFile
  | [] => .ok f
  | l :: ls =>
    match dddmpApplyLine f l with
    | .error e => .error e
    | .ok f' => dddmpApplyLines f' ls

/-- `number : NUMBER | MINUS NUMBER` -/
def pNumber : List HTok → Option (Int × List HTok)
  | .number n :: r => some ((n : Int), r)
  | .minus :: .number n :: r => some (-(n : Int), r)
  | _ => none

/-- `varname : name | number` -/
def pVarname : List HTok → Option (DddmpTok × List HTok)
  | .name s :: r => some (.str s, r)
  | ts => (pNumber ts).map fun p => (.num p.1, p.2)

/-- a token with which an item of `integers` may start -/
def startsNumber : HTok → Bool
  | .number _ | .minus => true
  | _ => false

/-- … of `varnames` -/
def startsVarname : HTok → Bool
  | .name _ | .number _ | .minus => true
  | _ => false

/-- `xs : xs x | x` read greedily: items as long as the next token can start one (`none`: a
syntax error inside an item); the result may be empty (the caller refuses that) -/
def pListF (item : List HTok → Option (α × List HTok)) (starts : HTok → Bool) :
    Nat → List HTok → Option (List α × List HTok)
  | 0, _ => none
  | _ + 1, [] => some ([], [])
  | f + 1, t :: ts =>
    if starts t then
      match item (t :: ts) with
      | none => none
      | some (a, r) =>
        match pListF item starts f r with
        | none => none
        | some (l, r') => some (a :: l, r')
    else some ([], t :: ts)

def pIntegers (ts : List HTok) : Option (List Int × List HTok) :=
  match pListF pNumber startsNumber (ts.length + 1) ts with
  | some (a :: l, r) => some (a :: l, r)
  | _ => none

def pVarnames (ts : List HTok) : Option (List DddmpTok × List HTok) :=
  match pListF pVarname startsVarname (ts.length + 1) ts with
  | some (a :: l, r) => some (a :: l, r)
  | _ => none

/-- the right-hand side of the `line` that starts with the keyword `k` -/
def pLine : HKw → List HTok → Option (DddmpLine × List HTok)
  | .ver, .name nm :: .minus :: ts =>          -- `version : VERSION name MINUS number DOT number`
    match pNumber ts with
    | some (a, .dot :: ts') => (pNumber ts').map fun p => (.ver nm a p.1, p.2)
    | _ => none
  | .ver, _ => none
  | .mode, .name s :: r => some (.mode s, r)   -- `mode : FILEMODE NAME`
  | .mode, _ => none
  | .dd, .name s :: r => some (.dd s, r)
  | .dd, _ => none
  | .varinfo, ts => (pNumber ts).map fun p => (.varinfo p.1, p.2)
  | .nnodes, ts => (pNumber ts).map fun p => (.nnodes p.1, p.2)
  | .nvars, ts => (pNumber ts).map fun p => (.nvars p.1, p.2)
  | .nsuppvars, ts => (pNumber ts).map fun p => (.nsuppvars p.1, p.2)
  | .nroots, ts => (pNumber ts).map fun p => (.nroots p.1, p.2)
  | .suppvarnames, ts => (pVarnames ts).map fun p => (.suppvarnames p.1, p.2)
  | .orderedvarnames, ts => (pVarnames ts).map fun p => (.orderedvarnames p.1, p.2)
  | .rootnames, ts => (pVarnames ts).map fun p => (.rootnames p.1, p.2)
  | .ids, ts => (pIntegers ts).map fun p => (.ids p.1, p.2)
  | .permids, ts => (pIntegers ts).map fun p => (.permids p.1, p.2)
  | .auxids, ts => (pIntegers ts).map fun p => (.auxids p.1, p.2)
  | .rootids, ts => (pIntegers ts).map fun p => (.rootids p.1, p.2)
  | .add, ts => some (.add, ts)                -- `algdd : ADD`

/-- the token PLY must have SEEN before it reduces a `line`: every state that ends a line has
its reduction under the lookaheads "a keyword" and "end of input" only (no default reduction:
PLY defaults a state only when it has a single lookahead entry) -/
def lookaheadOk (rest : List HTok) (illegal : Bool) : Bool :=
  match rest with
  | .kw _ :: _ => true
  | [] => !illegal
  | _ => false

/-- `self.parser.parse(lexer=lexer)`: the lines one after the other, each action when PLY
reduces the line, i.e. once the token after it has been delivered and is a keyword or the end;
`illegal`: the token stream ends in `t_error`.  Every failure of the lexer / the grammar /
`.mode` is an `Exception` (`.other`); `.rootnames` is `NotImplementedError`. -/
def dddmpParseHeaderF : Nat → List HTok → Bool → DddmpFile → Except Err DddmpFile
  | 0, _, _, _ => .error .fuel
  | _ + 1, [], illegal, acc => if illegal then .error .other else .ok acc
  | f + 1, .kw k :: ts, illegal, acc =>
    match pLine k ts with
    | none => .error .other
    | some (line, rest) =>
      if !lookaheadOk rest illegal then .error .other else
      match dddmpApplyLine acc line with
      | .error e => .error e
      | .ok acc' => dddmpParseHeaderF f rest illegal acc'
  | _ + 1, _ :: _, _, _ => .error .other

/-- the header text to the attributes of `Parser` (`file : lines` needs one line at least) -/
def dddmpParseHeader (hdr : List Char) : Except Err DddmpFile :=
  match dddmpLex hdr with
  | ([], _) => .error .other
  | (toks, illegal) => dddmpParseHeaderF (toks.length + 1) toks illegal {}

/-! ### the node lines -/

/-- `line.split(' ')` -/
def splitSpaceAux : List Char → List Char → List (List Char)
  | [], acc => [acc.reverse]
  | c :: r, acc => if c = ' ' then acc.reverse :: splitSpaceAux r [] else splitSpaceAux r (c :: acc)

def splitSpace (l : List Char) : List (List Char) := splitSpaceAux l []

/-- the ASCII characters `str.strip()` / `int()` drop -/
def pyIsSpace (c : Char) : Bool :=
  c == ' ' || (9 ≤ c.toNat && c.toNat ≤ 13) || (28 ≤ c.toNat && c.toNat ≤ 31)

def pyStrip (l : List Char) : List Char :=
  ((l.dropWhile pyIsSpace).reverse.dropWhile pyIsSpace).reverse

/-- digits with single `_` between digits -/
def pyDigitsAux : List Char → Nat → Bool → Option Nat
  | [], acc, prevDigit => if prevDigit then some acc else none
  | c :: r, acc, prevDigit =>
    if dmIsDigit c then pyDigitsAux r (10 * acc + (c.toNat - 48)) true
    else if c == '_' && prevDigit then pyDigitsAux r acc false
    else none

/-- `int(s)` for an ASCII `str` (`none` = `ValueError`) -/
def pyInt (l : List Char) : Option Int :=
  match pyStrip l with
  | '-' :: r => (pyDigitsAux r 0 false).map fun n => -(n : Int)
  | '+' :: r => (pyDigitsAux r 0 false).map fun n => (n : Int)
  | r => (pyDigitsAux r 0 false).map fun n => (n : Int)

/-- one line between `.nodes` and `.end`: `u, info, index, v, w = line.split(' ')`, `int` of
four of them, `int(info)` if possible (`none` = `ValueError`) -/
def parseBodyLine (l : List Char) : Option DddmpNode :=
  match splitSpace l with
  | [u, info, index, v, w] =>
    match pyInt u, pyInt index, pyInt v, pyInt w with
    | some u, some index, some v, some w =>
      some ⟨u, match pyInt info with | some k => .num k | none => .str (String.ofList info), index, v, w⟩
    | _, _, _, _ => none
  | _ => none

/-- the longest prefix of parsed lines, and whether a line that does not parse follows -/
def goodPrefix : List (Option DddmpNode) → List DddmpNode × Bool
  | [] => ([], false)
  | none :: _ => ([], true)
  | some n :: r => let (l, b) := goodPrefix r; (n :: l, b)

/-! ### `dd.dddmp.load` on the text of a file -/

/-- the attributes of `Parser` after the header has been parsed -/
def dddmpHeaderOfText (s : List Char) : Except Err DddmpFile :=
  dddmpParseHeader (joinNl (dddmpHeaderLines (pyLines s)))

def dddmpNodesOfText (s : List Char) : List (Option DddmpNode) :=
  (dddmpBodyLines (pyLines s)).map parseBodyLine

/-- `dd.dddmp.load(fname)` for a file with the text `s` -/
def loadDddmpText (s : List Char) : Except Err Mgr :=
  match dddmpHeaderOfText s with
  | .error e => .error e
  | .ok f =>
    -- `_assert_consistent` and the tables, before the body is read
    match dddmpHeader f with
    | .error e => .error e
    | .ok (i2p, _, _) =>
      match goodPrefix (dddmpNodesOfText s) with
      | (nodes, true) =>
        -- the lines before the one that does not parse are processed first
        match dddmpBodyLoop i2p [] nodes with
        | .error e => .error e
        | .ok _ => .error .value
      | (nodes, false) => loadDddmp { f with nodes := nodes }

/-- the content of the file, when every part of it parses -/
def dddmpParseText (s : List Char) : Option DddmpFile :=
  match dddmpHeaderOfText s, goodPrefix (dddmpNodesOfText s) with
  | .ok f, (nodes, false) => some { f with nodes := nodes }
  | _, _ => none

/-! ### driver encoding: the bytes of the file in hexadecimal -/

def dmHexVal (c : Char) : Option Nat :=
  if '0' ≤ c && c ≤ '9' then some (c.toNat - 48)
  else if 'a' ≤ c && c ≤ 'f' then some (c.toNat - 87)
  else none

/-- `none`: malformed, or a byte ≥ 0x80 (outside the text model) -/
def unhexAscii : List Char → Option (List Char)
  | [] => some []
  | a :: b :: r =>
    match dmHexVal a, dmHexVal b, unhexAscii r with
    | some x, some y, some l => if 16 * x + y < 128 then some (Char.ofNat (16 * x + y) :: l) else none
    | _, _, _ => none
  | [_] => none

end DD
