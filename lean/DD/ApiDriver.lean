/-
  DD.ApiDriver — line protocol of slice "api" (exe `ddvapi`).  State = the autoref session
  (BDD managers + live `Function`s) and the MDD managers.  The ops below are handled here; every
  other line goes to the MDD driver (`mdd_*`, `bdd_to_mdd`), the parser driver (`parse`, `lex`,
  `add_expr`) or the autoref driver (which delegates the core protocol to `DD.stepLine`).

  Schedule item understood here (inside the trailing `S:` field): `succ=<u>.<u>…` = the recorded
  `list(bdd._succ)` (dict order) at the time of the call.
-/
import DD.AutoDriver
import DD.MddDriver
import DD.ParseDriver
import DD.ApiCore
import DD.ApiAuto
import DD.ApiMdd
import DD.ApiXCopy
open Std

namespace DD

structure ApiSess where
  a : ASess := {}
  mdds : TreeMap Nat MddMgr := {}

/-- split the `S:` field into the recorded `_succ` order and the remaining items re-joined -/
def splitApiSched (s : String) : Option (Option (List Nat) × String) :=
  (splitOn1 s ';').foldlM (fun (acc : Option (List Nat) × String) item =>
    if item.startsWith "succ=" then
      ((splitOn1 (item.drop 5).toString '.').mapM parseNat?).map fun l => (some l, acc.2)
    else some (acc.1, if acc.2.isEmpty then item else acc.2 ++ ";" ++ item))
    (none, "")

def showOptI : Option Int → String
  | some i => toString i
  | none => "None"

def showLevelItem (it : LevelItem) : String :=
  match it with
  | (u, i, none) => s!"{u}:{i}:None:None"
  | (u, i, some (v, w)) => s!"{u}:{i}:{v}:{w}"

def showVarLevels (l : List (String × Nat)) : String :=
  joinWith "," (l.map fun (v, i) => s!"{v}:{i}")

def parseNameInts (s : String) : Option (List (String × Int)) :=
  (parsePairs s).bind fun ps => ps.mapM fun (k, l) => do
    let l ← parseInt? l; pure (k, l)

def showPick : Option (List (String × Bool)) → String
  | none => "None"
  | some _ => "member"

/-- the recorded order, checked against the node table; ascending when nothing was recorded -/
def succOrd (t : Tbl) (rec : Option (List Nat)) : Except Err (List Nat) :=
  match rec with
  | none => .ok (1 :: t.succ.keys)
  | some l => if succOrderOk t l then .ok l else .error .sched

/-- ops on one `dd.bdd.BDD` manager -/
def stepApiMgr (op : String) (args : List String) (rec : Option (List Nat)) : Option (M DRes) :=
  match op, args with
  | "levels", [skip] =>
    match parseBool? skip with
    | some skip => some fun m =>
      match succOrd m.tbl rec with
      | .error e => (.error e, m)
      | .ok ord => (.ok (.strs ((levelsIter m.tbl skip ord).map showLevelItem)), m)
    | none => some (M.throw .other)
  | "update_predecessors", [] => some fun m =>
    match succOrd m.tbl rec with
    | .error e => (.error e, m)
    | .ok ord => match updatePredecessors ord m with
      | (.ok _, m') => (.ok .unit, m')
      | (.error e, m') => (.error e, m')
  | "pred_drop", [u] =>
    match parseNat? u with
    | some u => some do predDrop u; return .unit
    | none => some (M.throw .other)
  | "pred_clear", [] => some do predClear; return .unit
  | "pred_put", [i, v, w, u] =>
    match parseInt? i, parseInt? v, parseInt? w, parseNat? u with
    | some i, some v, some w, some u => some do predPut [i, v, w] u; return .unit
    | _, _, _, _ => some (M.throw .other)
  | "var_levels", [] => some fun m => (.ok (.str (showVarLevels (varLevels m.tbl))), m)
  | "vars", [] => some fun m => (.ok (.str (showVarLevels (varLevels m.tbl))), m)
  | "ordering", [] => some fun m => (orderingView.map fun _ => DRes.unit, m)
  | "iter", [] => some fun m => (.ok (.nats (iterNodes m.tbl)), m)
  | "str", [] => some fun m =>
    (.ok (.str ("vars=" ++ showVarLevels (varLevels m.tbl) ++ ";roots=" ++
      showInts (sortBy (· ≤ ·) m.roots))), m)
  | "statistics", [] => some fun m => (.ok (.str ("{" ++ joinWith "," (statistics.map fun (k, v) => k ++ ":" ++ v) ++ "}")), m)
  | "pick", [u] =>
    match parseInt? u with
    | some u => some fun m => ((pickOp m.tbl u none).map fun r => .str (showPick r), m)
    | none => some (M.throw .other)
  | "pick", [u, care] =>
    match parseInt? u with
    | some u => some fun m => ((pickOp m.tbl u (some (splitOn1 care ','))).map fun r => .str (showPick r), m)
    | none => some (M.throw .other)
  | "exist", [q, u] =>
    match parseKeys q, parseInt? u with
    | some q, some u => some do return .int (← existOp q u)
    | _, _ => some (M.throw .other)
  | "forall", [q, u] =>
    match parseKeys q, parseInt? u with
    | some q, some u => some do return .int (← forallOp q u)
    | _, _ => some (M.throw .other)
  | "cube_names", [] => some do return .int (← cubeNames [])
  | "cube_names", [names] => some do return .int (← cubeNames (splitOn1 names ','))
  | "true", [] => some (pure (.int 1))
  | "false", [] => some (pure (.int (-1)))
  | "add_int", [i] =>
    match parseInt? i with
    | some i => some do return .int (← addIntA i)
    | none => some (M.throw .other)
  | "assert_int", [n] =>
    match parseInt? n with
    | some n => some (pure (.int n))
    | none => some (M.throw .assertion)
  | "assert_consistent", [] => some do bddAssertConsistent; return .unit
  | _, _ => none

def isApiLineOp (op : String) : Bool :=
  op == "reduction" || op == "copy_m" || op == "mgr_eq" || op == "mgr_ne" || op == "iso_orders"

/-- ops of the autoref layer (`dd.autoref.BDD` methods `a_…`, `Function` methods `f_…`) -/
def stepApiAuto (op : String) (args : List String) (outs : List Nat) : Option (AM DRes) :=
  match op, args, outs with
  | "f_count", [s], [] =>
    match parseHandle? s with
    | some s => some do return .nat (← fCount s none)
    | none => some bad
  | "f_count", [s, n], [] =>
    match parseHandle? s, parseInt? n with
    | some s, some n => some do return .nat (← fCount s (some n))
    | _, _ => some bad
  | "f_pick", [s], [] =>
    match parseHandle? s with
    | some s => some do return .str (showPick (← fPick s none))
    | none => some bad
  | "f_pick", [s, care], [] =>
    match parseHandle? s with
    | some s => some do return .str (showPick (← fPick s (some (splitOn1 care ','))))
    | none => some bad
  | "f_exist", [s, vs], [h] =>
    match parseHandle? s with
    | some s => some do return .int (← fExist s (splitOn1 vs ',') h)
    | none => some bad
  | "f_exist", [s], [h] =>
    match parseHandle? s with
    | some s => some do return .int (← fExist s [] h)
    | none => some bad
  | "f_forall", [s, vs], [h] =>
    match parseHandle? s with
    | some s => some do return .int (← fForall s (splitOn1 vs ',') h)
    | none => some bad
  | "f_forall", [s], [h] =>
    match parseHandle? s with
    | some s => some do return .int (← fForall s [] h)
    | none => some bad
  | "f_let_b", s :: rest, [h] =>
    match parseHandle? s, parseKeyBools (rest.headD "") with
    | some s, some d => some do
      let (r, al) ← fLet (.bools d) s h
      return .str (toString r ++ (if al then " alias" else ""))
    | _, _ => some bad
  | "f_let_r", s :: rest, [h] =>
    match parseHandle? s, parseNameHandles (rest.headD "") with
    | some s, some d => some do
      let (r, al) ← fLet (.funs d) s h
      return .str (toString r ++ (if al then " alias" else ""))
    | _, _ => some bad
  | "f_let_n", s :: rest, [h] =>
    match parseHandle? s, parsePairs (rest.headD "") with
    | some s, some d => some do
      let (r, al) ← fLet (.names d) s h
      return .str (toString r ++ (if al then " alias" else ""))
    | _, _ => some bad
  | "f_hash", [s], [] =>
    match parseHandle? s with
    | some s => some do return .int (← fHash s)
    | none => some bad
  | "f_str", [s], [] =>
    match parseHandle? s with
    | some s => some do return .str (← fStr s)
    | none => some bad
  | "a_pick", [u], [] =>
    match parseHandle? u with
    | some u => some do return .str (showPick (← aPick u none))
    | none => some bad
  | "a_pick", [u, care], [] =>
    match parseHandle? u with
    | some u => some do return .str (showPick (← aPick u (some (splitOn1 care ','))))
    | none => some bad
  | "a_var_at_level", [i], [] =>
    match parseInt? i with
    | some i => some do return .str (← aVarAtLevel i)
    | none => some bad
  | "a_level_of_var", [v], [] => some do return .nat (← aLevelOfVar v)
  | "a_var_levels", [], [] => some do return .str (showVarLevels (← aVarLevels))
  | "a_add_expr", [e], [h] => some do return .int (← aAddExpr (unescape e) h)
  | "a_add_expr", [], [h] => some do return .int (← aAddExpr "" h)
  | "a_assert_consistent", [], [] => some do aAssertConsistent; return .unit
  | "a_str", [], [] => some do
    let (n, k) ← aStr
    return .str s!"{n},{k}"
  | "a_statistics", [], [] => some (pure (.str "{}"))
  | _, _, _ => none

def isApiAutoLineOp (op : String) : Bool := op == "a_eq" || op == "a_ne"

/-- ops on one `dd.mdd.MDD` manager -/
def stepApiMdd (op : String) (args : List String) : Option (MM DRes) :=
  match op, args with
  | "mdd_to_expr", [u] =>
    match parseInt? u with
    | some u => some fun m => ((mToExpr m.tbl u).map fun e => .str e.show, m)
    | none => some (MM.throw .other)
  | "mdd_iter", [] => some fun m => (.ok (.nats (mIterNodes m.tbl)), m)
  | "mdd_dump_kind", [fname] => some fun m =>
    -- `g = _to_dot(self)` runs first: its `KeyError` wins
    (match mToDot m.tbl with
     | .error e => .error e
     | .ok _ => (mDumpKind m.tbl fname).map DRes.str, m)
  | "mdd_to_dot", [] => some fun m =>
    ((mToDot m.tbl).map fun (ns, es) =>
      .str ("N=" ++ joinWith "," ((sortBy (fun (a b : Nat × Nat × String) => a.1 ≤ b.1) ns).map
              fun (u, l, v) => s!"{u}@{l}:{v}") ++
            ";E=" ++ joinWith "," ((sortBy (fun (a b : Nat × Nat × Nat × Bool) =>
                a.1 < b.1 || (a.1 = b.1 && a.2.2.1 ≤ b.2.2.1)) es).map
              fun (u, v, j, c) => s!"{u}>{v}:{j}:{showBool c}")), m)
  | _, _ => none

def showEnum (d : List (Key × Bool)) : String :=
  joinWith "&" (d.map fun (k, b) => (match k with | .name n => n | .lvl i => toString i) ++ "=" ++ showBool b)

/-- one protocol line -/
def stepLineApi (st : ApiSess) (line : String) : ApiSess × String :=
  let fields := line.splitOn "\t"
  let (fields', schedStr) := match fields.getLast? with
    | some l => if l.startsWith "S:" then (fields.dropLast, (l.drop 2).toString) else (fields, "")
    | none => (fields, "")
  let viaAuto : ApiSess × String :=
    let (a', o) := stepLineA st.a line
    ({ st with a := a' }, o)
  match fields' with
  | "reset" :: _ => ({}, "ok -")
  | _ :: "enum_integer" :: rest =>
    -- `dd.mdd._enumerate_integer(bits)`
    let bits := splitOn1 (rest.headD "") ','
    (st, "ok " ++ joinWith "|" ((List.range (2 ^ bits.length)).map fun i => showEnum (enumInteger bits i)))
  | id :: op :: args =>
    match parseNat? id, splitApiSched schedStr with
    | none, _ => viaAuto
    | _, none => (st, "err BAD-SCHEDULE")
    | some id, some (rec, restSched) =>
    if isApiLineOp op then
      match op, args with
      | "reduction", [dst] =>
        match parseNat? dst, st.a.ms[id]? with
        | some dst, some m =>
          match succOrd m.tbl rec with
          | .error e => (st, "err " ++ toString e)
          | .ok ord =>
            let (r, m') := reduction ord m
            let ms := st.a.ms.insert id m'
            match r with
            | .ok b => ({ st with a := { st.a with ms := ms.insert dst b } }, "ok -")
            | .error e => ({ st with a := { st.a with ms := ms } }, "err " ++ toString e)
        | none, _ => (st, "err BAD-LINE")
        | _, none => (st, "err BAD-MGR")
      | "copy_m", [u, dst] =>
        match parseInt? u, parseNat? dst, parseSched restSched with
        | some u, some dst, some sched =>
          if id = dst then (st, showOut (.ok (.int u))) else
          match st.a.ms[id]?, st.a.ms[dst]? with
          | some src, some tgt =>
            let (r, tgt') := copyMethod src.tbl u { tgt with sched := sched }
            let left := !tgt'.sched.isEmpty && (match r with | .ok _ => true | .error _ => false)
            ({ st with a := { st.a with ms := st.a.ms.insert dst { tgt' with sched := [] } } },
              showOut (r.map DRes.int) ++ (if left then " SCHED-LEFT" else ""))
          | _, _ => (st, "err BAD-MGR")
        | _, _, _ => (st, "err BAD-LINE")
      | "mgr_eq", [other] =>
        match parseNat? other with
        | some other =>
          if st.a.ms.contains id && st.a.ms.contains other then
            (st, "ok " ++ (match mgrEq id other with | some b => showBool b | none => "None"))
          else (st, "err BAD-MGR")
        | none => (st, "err BAD-LINE")
      | "mgr_ne", [other] =>
        match parseNat? other with
        | some other =>
          if st.a.ms.contains id && st.a.ms.contains other then (st, "ok " ++ showBool (mgrNe id other))
          else (st, "err BAD-MGR")
        | none => (st, "err BAD-LINE")
      | "iso_orders", [old, new, supp] =>
        match parseNameInts old, parseNameInts new with
        | some old, some new =>
          (st, showOut ((assertIsomorphicOrders old new (splitOn1 supp ',')).map fun _ => DRes.unit))
        | _, _ => (st, "err BAD-LINE")
      | _, _ => (st, "err BAD-LINE")
    else if isXCopyOp op then
      match parseSched restSched, splitOuts args with
      | none, _ => (st, "err BAD-SCHEDULE")
      | _, none => (st, "err BAD-LINE")
      | some sched, some (args', outs) =>
        if outs.any (handleLive st.a) || !(decide outs.Nodup) then (st, "err BAD-HANDLE") else
        let (a', o) := stepXCopy st.a id sched op args' outs
        ({ st with a := a' }, o)
    else if isApiAutoLineOp op then
      match args with
      | [other] =>
        match parseNat? other with
        | some other =>
          if st.a.regs.contains id && st.a.regs.contains other then
            (st, "ok " ++ showBool (if op == "a_eq" then aMgrEq id other else !aMgrEq id other))
          else (st, "err BAD-MGR")
        | none => (st, "err BAD-LINE")
      | _ => (st, "err BAD-LINE")
    else
    match stepApiMgr op args rec with
    | some x =>
      match parseSched restSched, st.a.ms[id]? with
      | none, _ => (st, "err BAD-SCHEDULE")
      | _, none => (st, "err BAD-MGR")
      | some sched, some m =>
        let (r, m') := x { m with sched := sched }
        let left := !m'.sched.isEmpty && (match r with | .ok _ => true | .error _ => false)
        ({ st with a := { st.a with ms := st.a.ms.insert id { m' with sched := [] } } },
          showOut r ++ (if left then " SCHED-LEFT" else ""))
    | none =>
    -- (`->` is also a spelling of implication: a line whose `->` is not followed by handle ids
    -- is not an autoref line)
    let autoHit : Option (AM DRes × List Nat) :=
      match splitOuts args with
      | some (args', outs) => (stepApiAuto op args' outs).map fun x => (x, outs)
      | none => none
    match autoHit with
    | some (x, outs) =>
      match parseSched restSched with
      | none => (st, "err BAD-SCHEDULE")
      | some sched =>
        if outs.any (handleLive st.a) || !(decide outs.Nodup) then (st, "err BAD-HANDLE") else
        let (a', o) := runA st.a id sched x
        ({ st with a := a' }, o)
    | none =>
    match stepApiMdd op args with
    | some x =>
      match st.mdds[id]? with
      | none => (st, "err BAD-MGR")
      | some m =>
        let (r, m') := x m
        ({ st with mdds := st.mdds.insert id m' }, showOut r)
    | none =>
    if isMddOp op || op == "bdd_to_mdd" then
      let (s', o) := stepLineMdd { bdds := st.a.ms, mdds := st.mdds } line
      ({ a := { st.a with ms := s'.bdds }, mdds := s'.mdds }, o)
    else if op == "parse" || op == "lex" || op == "add_expr" then
      let (ms', o) := stepLineParse st.a.ms line
      ({ st with a := { st.a with ms := ms' } }, o)
    else if isAutoOp op then viaAuto
    else
      let (ms', o) := stepLine st.a.ms line
      ({ st with a := { st.a with ms := ms' } }, o)
  | _ => viaAuto

end DD
