/-
  DD.ApiAuto — the methods of `dd.autoref.Function` that come from the mixin class
  `dd._abc.Operator` (`count`, `pick`, `exist`, `forall`, `let`, `__hash__`, `__str__`) and the
  methods of `dd.autoref.BDD` not in `DD.Auto` (`pick`, `var_at_level`, `level_of_var`,
  `var_levels`, `add_expr`, `assert_consistent`, `__eq__`, `__str__`, `statistics`).
  Each is the one-line wrapper the Python source has.
-/
import DD.Auto
import DD.Parse
import DD.Mdd
import DD.ApiCore
open Std

namespace DD

/-! ### `Function` methods inherited from `dd._abc.Operator` -/

/-- `Function.count(nvars)`: `return self.bdd.count(self, nvars)` -/
def fCount (hs : Nat) (n : Option Int) : AM Nat := aCount hs n

/-- `Function.pick(care_vars)`: `return self.bdd.pick(self, care_vars)`; `autoref.BDD.pick` is
inherited from `dd._abc.BDD`: `next(iter(self.pick_iter(u, care_vars)), None)` -/
def aPick (hu : Nat) (care : Option (List String)) : AM (Option (List (String × Bool))) := do
  let l ← aPickIter hu care
  pure l.head?

def fPick (hs : Nat) (care : Option (List String)) : AM (Option (List (String × Bool))) := aPick hs care

/-- `Function.exist(*variables)`: `return self.bdd.exist(variables, self)` -/
def fExist (hs : Nat) (variables : List String) (h : Nat) : AM Int :=
  aQuantify hs (variables.map Key.name) false h

/-- `Function.forall(*variables)`: `return self.bdd.forall(variables, self)` -/
def fForall (hs : Nat) (variables : List String) (h : Nat) : AM Int :=
  aQuantify hs (variables.map Key.name) true h

/-- `Function.let(**definitions)`: `return self.bdd.let(definitions, self)` (keys are names) -/
def fLet (d : ALetArg) (hs : Nat) (h : Nat) : AM (Int × Bool) := aLet d hs h

/-- `hash(f)`: `Function.__hash__` returns `self.node`; CPython reserves the hash value `-1`
(its error marker) and hands out `-2` instead, so the constant `false` hashes to `-2` -/
def pyHash (i : Int) : Int := if i = -1 then -2 else i

def fHash (hs : Nat) : AM Int := do
  let s ← nodeOwn hs
  pure (pyHash s)

/-- `Function.__str__`: `f'@{int(self)}'` -/
def fStr (hs : Nat) : AM String := do
  let s ← nodeOwn hs
  pure s!"@{s}"

/-! ### `dd.autoref.BDD` -/

def aVarAtLevel (i : Int) : AM String := AM.liftM (varAtLevel i)
def aLevelOfVar (v : String) : AM Nat := AM.liftM (levelOfVar v)
def aVarLevels : AM (List (String × Nat)) := AM.liftE fun m => .ok (varLevels m.tbl)

/-- `add_expr(e)`: `r = self._bdd.add_expr(e); return self._wrap(r)` -/
def aAddExpr (e : String) (h : Nat) : AM Int := wrapResult h (addExpr e)

/-- `assert_consistent()`: `self._bdd.assert_consistent()` -/
def aAssertConsistent : AM Unit := AM.liftM bddAssertConsistent

/-- `__str__`: the numbers of variables and of nodes -/
def aStr : AM (Nat × Nat) := AM.liftE fun m => .ok (m.nvars, m.len)

end DD
