/-
  DD.MddDriver — line protocol of the MDD slice (exe `ddvmdd`): state = BDD managers +
  MDD managers; every line that is not an MDD op is delegated to `DD.stepLine`.

  Schedule items understood here (inside the trailing `S:` field, `;`-separated):
    `pop=<n>`          one recorded `self._free.pop()` of `MDD._allocate`
    `lev=<u>.<u>...`   recorded order of `bdd.levels(skip_terminals=True)` in `bdd_to_mdd`
  the remaining items (`swap=...`) are the BDD swap schedule of `DD.parseSched`.
-/
import DD.Mdd
import DD.Driver
open Std

namespace DD

structure MddSession where
  bdds : Mgrs := {}
  mdds : TreeMap Nat MddMgr := {}

/-- `name:level:len:b0.b1...` -/
def parseMVar (s : String) : Option MVar :=
  match s.splitOn ":" with
  | [name, lvl, len, bits] => do
    let lvl ← parseNat? lvl
    let len ← parseNat? len
    pure { name := name, level := lvl, len := len, bits := splitOn1 bits '.' }
  | [name, lvl, len] => do
    let lvl ← parseNat? lvl
    let len ← parseNat? len
    pure { name := name, level := lvl, len := len, bits := [] }
  | _ => none

def parseDvars (s : String) : Option (List MVar) := (splitOn1 s ',').mapM parseMVar

def dumpMddState (m : MddMgr) : String :=
  let vars := joinWith "," (m.tbl.vars.map fun v => s!"{v.name}:{v.level}:{v.len}")
  let succ := joinWith "," (m.tbl.succ.toList.map fun (u, n) =>
    s!"{u}:{n.lvl}:" ++ joinWith "." (n.kids.map toString))
  let ref := joinWith "," (m.ref.toList.map fun (u, c) => s!"{u}:{c}")
  let pred := joinWith "," ((sortBy (fun (a b : Nat × List Int) => a.1 ≤ b.1) (m.pred.toList.map fun (n, u) => (u, n))).map
    fun (u, n) => joinWith ":" (n.map toString) ++ s!">{u}")
  let cache := joinWith "," (m.cache.toList.map
    fun (k, w) => joinWith ":" (k.map toString) ++ s!">{w}")
  s!"vars={vars}|term={showBool m.tbl.term}|succ={succ}|ref={ref}|max={m.max}|free={showNats m.free}|pred={pred}|cache={cache}"

/-- one MDD operation on one MDD manager -/
def stepMdd (op : String) (args : List String) : MM DRes := do
  let m ← MM.get
  match op, args with
  | "mdd_foa", [i, nodes] =>
    match parseInt? i, parseInts nodes with
    | some i, some ns => return .int (← mFindOrAdd i ns)
    | _, _ => MM.throw .other
  | "mdd_ite", [g, u, v] =>
    match parseInt? g, parseInt? u, parseInt? v with
    | some g, some u, some v => return .int (← mIte g u v)
    | _, _, _ => MM.throw .other
  | "mdd_apply", op :: u :: rest =>
    match parseInt? u, rest.mapM parseInt? with
    | some u, some [] => return .int (← mApply op u none none)
    | some u, some [v] => return .int (← mApply op u (some v) none)
    | some u, some [v, w] => return .int (← mApply op u (some v) (some w))
    | _, _ => MM.throw .other
  | "mdd_incref", [u] =>
    match parseInt? u with
    | some u => do mIncref u; return .unit
    | none => MM.throw .other
  | "mdd_decref", [u] =>
    match parseInt? u with
    | some u => do mDecref u; return .unit
    | none => MM.throw .other
  | "mdd_ref", [u] =>
    match parseInt? u with
    | some u => return .nat (← mRefOf u)
    | none => MM.throw .other
  | "mdd_gc", [] => do mCollectGarbage none; return .unit
  | "mdd_gc", [r] =>
    match parseInts r with
    | some r => do mCollectGarbage (some r); return .unit
    | none => MM.throw .other
  | "mdd_len", [] => return .nat m.len
  | "mdd_contains", [u] =>
    match parseInt? u with
    | some u => return .bool (m.mem u)
    | none => MM.throw .other
  | "mdd_succ", [u] =>
    match parseInt? u with
    | some u =>
      if u.natAbs = 1 then
        (if m.tbl.term then return .str s!"{m.tbl.nvars}:None" else MM.throw .key)
      else do
        let n ← MM.ofOption .key (m.tbl.succ[u.natAbs]?)
        return .str (s!"{n.lvl}:" ++ joinWith "." (n.kids.map toString))
    | none => MM.throw .other
  | "mdd_var_at_level", [i] =>
    match parseInt? i with
    | some i => return .str (← mVarAtLevel i)
    | none => MM.throw .other
  | "mdd_level_of_var", [v] => return .nat (← mLevelOfVar v)
  | "mdd_state", [] => return .str (dumpMddState m)
  | _, _ => MM.throw .other

def isMddOp (op : String) : Bool := op.startsWith "mdd_"

/-- split the `S:` field into (pops, levels order, remaining items re-joined) -/
def splitMddSched (s : String) : Option (List Nat × Option (List Nat) × String) :=
  let items := splitOn1 s ';'
  items.foldlM (fun (acc : List Nat × Option (List Nat) × String) item =>
    if item.startsWith "pop=" then
      (parseNat? (item.drop 4).toString).map fun p => (acc.1 ++ [p], acc.2.1, acc.2.2)
    else if item.startsWith "lev=" then
      ((splitOn1 (item.drop 4).toString '.').mapM parseNat?).map fun l => (acc.1, some l, acc.2.2)
    else some (acc.1, acc.2.1, if acc.2.2.isEmpty then item else acc.2.2 ++ ";" ++ item))
    ([], none, "")

def showUmap (umap : List (Nat × Int)) : String :=
  joinWith "," ((sortBy (fun (a b : Nat × Int) => a.1 ≤ b.1) umap).map fun (u, r) => s!"{u}:{r}")

/-- one protocol line -/
def stepLineMdd (st : MddSession) (line : String) : MddSession × String :=
  let fields := line.splitOn "\t"
  let (fields', schedStr) := match fields.getLast? with
    | some l => if l.startsWith "S:" then (fields.dropLast, (l.drop 2).toString) else (fields, "")
    | none => (fields, "")
  match fields' with
  | "reset" :: _ => ({}, "ok -")
  | id :: "mdd_new" :: rest =>
    match parseNat? id, (match rest with
        | [] => some (some [])
        | ["none"] => some none
        | [dv] => (parseDvars dv).map some
        | _ => none) with
    | some id, some dv => ({ st with mdds := st.mdds.insert id (MddMgr.new dv) }, "ok -")
    | _, _ => (st, "err BAD-LINE")
  | id :: "bdd_to_mdd" :: [dv, dst] =>
    match parseNat? id, parseDvars dv, parseNat? dst, splitMddSched schedStr with
    | some id, some dv, some dst, some (_, lev, restSched) =>
      match parseSched restSched, st.bdds[id]? with
      | none, _ => (st, "err BAD-SCHEDULE")
      | _, none => (st, "err BAD-MGR")
      | some sched, some b =>
        let (r, b') := bddToMdd dv lev { b with sched := sched }
        let left := !b'.sched.isEmpty
        let b' := { b' with sched := [] }
        match r with
        | .error e => ({ st with bdds := st.bdds.insert id b' }, "err " ++ toString e)
        | .ok out =>
          ({ bdds := st.bdds.insert id b', mdds := st.mdds.insert dst out.mdd },
           "ok " ++ showUmap out.umap ++ (if left then " SCHED-LEFT" else ""))
    | _, _, _, _ => (st, "err BAD-LINE")
  | id :: op :: args =>
    if isMddOp op then
      match parseNat? id, splitMddSched schedStr with
      | some id, some (pops, _, _) =>
        match st.mdds[id]? with
        | none => (st, "err BAD-MGR")
        | some m =>
          let (r, m') := stepMdd op args { m with sched := pops }
          let left := !m'.sched.isEmpty && (match r with | .ok _ => true | .error _ => false)
          let m' := { m' with sched := [] }
          ({ st with mdds := st.mdds.insert id m' }, showOut r ++ (if left then " SCHED-LEFT" else ""))
      | _, _ => (st, "err BAD-LINE")
    else
      let (bs, o) := stepLine st.bdds line
      ({ st with bdds := bs }, o)
  | _ =>
    let (bs, o) := stepLine st.bdds line
    ({ st with bdds := bs }, o)

end DD
