/-
  DD.ApiCore — the part of the public surface of `dd.bdd.BDD` that no other model file covers:

    `levels(skip_terminals)`, `reduction()`, `update_predecessors()`, `__eq__` / `__ne__`
    (inherited from the protocol class), `__iter__`, `__str__`, `vars` / `var_levels` /
    `ordering`, `statistics()`, `pick` (inherited), `exist` / `forall` / `copy` (method aliases),
    `cube` on an iterable of names, `true` / `false`, `_assert_int`, `_assert_isomorphic_orders`.

  Python iterates `self._succ` (a `dict`) in insertion order, which is history the model does not
  keep (`succ` is a sorted map).  Where that order is observable (`levels`, hence the node numbers
  `reduction` hands out; `update_predecessors` when two nodes carry the same triple) the functions
  below take it as an argument `ord` = `list(self._succ)`, recorded by the harness; the theorems
  hold for EVERY listing of the stored nodes.
-/
import DD.Apply
import DD.MgrCopy
open Std

namespace DD

/-! ### `levels` -/

/-- `ord` lists the keys of `self._succ` — the terminal `1` and every stored node — each once
(the Boolean test the driver runs on a recorded order) -/
def succOrderOk (t : Tbl) (ord : List Nat) : Bool :=
  decide ord.Nodup && ord.contains 1 &&
  ord.all (fun u => u == 1 || t.succ.contains u) && t.succ.keys.all (fun u => ord.contains u)

/-- one tuple `(u, i, v, w)` yielded by `levels`; `v = w = None` for the terminal -/
abbrev LevelItem := Nat × Nat × Option (Int × Int)

/-- `(j, v, w) = self._succ[u]; if i != j: continue; yield u, i, v, w` (the terminal `1` is
`(len(self.vars), None, None)`) -/
def levelItem? (t : Tbl) (i : Nat) (u : Nat) : Option LevelItem :=
  if u = 1 then (if t.nvars = i then some (1, i, none) else none) else
  match t.succ[u]? with
  | some n => if n.lvl = i then some (u, i, some (n.lo, n.hi)) else none
  | none => none

/-- the inner loop `for u, (j, v, w) in self._succ.items(): …` at level `i` -/
def levelsAt (t : Tbl) (ord : List Nat) (i : Nat) : List LevelItem :=
  ord.filterMap (levelItem? t i)

/-- `BDD.levels(skip_terminals)`: `n = len(self.vars) - 1 if skip_terminals else len(self.vars)`,
`for i in range(n, -1, -1)` — the bottom level first -/
def levelsIter (t : Tbl) (skip : Bool) (ord : List Nat) : List LevelItem :=
  (List.range (if skip then t.nvars else t.nvars + 1)).reverse.flatMap (levelsAt t ord)

/-! ### `reduction` -/

/-- the state of the loop of `reduction`: the new manager `bdd` and `umap` -/
abbrev RedSt := Mgr × TreeMap Nat Int

/-- one iteration of `for u, i, v, w in levels:` -/
def reductionStep (it : LevelItem) (st : RedSt) : Except Err RedSt :=
  match it with
  | (_, _, none) => .error .type             -- `abs(None)`; the terminal is never yielded here
  | (u, i, some (v, w)) =>
    -- `if u <= 0: raise AssertionError(u)`
    if u = 0 then .error .assertion else
    -- `p, q = umap[abs(v)], umap[abs(w)]`
    match st.2[v.natAbs]? with
    | none => .error .key
    | some p =>
      match st.2[w.natAbs]? with
      | none => .error .key
      | some q =>
        -- `r = bdd.find_or_add(i, _flip(p, v), _flip(q, w))`
        match findOrAdd (i : Int) (flip p v) (flip q w) st.1 with
        | (.error e, _) => .error e
        | (.ok r, b') =>
          -- `if r <= 0: raise AssertionError(r)`;  `umap[u] = r`
          if r ≤ 0 then .error .assertion else .ok (b', st.2.insert u r)

def reductionLoop : List LevelItem → RedSt → Except Err RedSt
  | [], st => .ok st
  | it :: its, st =>
    match reductionStep it st with
    | .error e => .error e
    | .ok st' => reductionLoop its st'

/-- `for v in self.roots: bdd.roots.add(_flip(umap[abs(v)], v))` -/
def reductionRoots (umap : TreeMap Nat Int) : List Int → Except Err (List Int)
  | [] => .ok []
  | v :: vs =>
    match umap[v.natAbs]? with
    | none => .error .key
    | some p =>
      match reductionRoots umap vs with
      | .error e => .error e
      | .ok rs => .ok (flip p v :: rs)

/-- the manager `BDD(self.vars)` creates: the constructor checks `_assert_valid_ordering` and
re-declares the variables at their levels (the same two maps, as in `DD.mgrCopy`); no node -/
def freshLike (t : Tbl) : Mgr := { tbl := { vars := t.vars, l2v := t.l2v } }

/-- the body of `reduction` (reads the node table and `roots` of `self`, builds a new manager) -/
def reductionBody (t : Tbl) (roots : List Int) (ord : List Nat) : Except Err Mgr :=
  if !copyValidOrdering t then .error .assertion else
  match reductionLoop (levelsIter t true ord) (freshLike t, ({} : TreeMap Nat Int).insert 1 1) with
  | .error e => .error e
  | .ok (b, umap) =>
    match reductionRoots umap roots with
    | .error e => .error e
    | .ok rs => .ok { b with roots := dedup rs }

/-- `BDD.reduction()` — decorated with `_try_to_reorder` (on `self`, which it never changes: every
`find_or_add` is a call on the NEW manager, whose reordering is not enabled) -/
def reduction (ord : List Nat) : M Mgr :=
  tryToReorder fun m => (reductionBody m.tbl m.roots ord, m)

/-! ### `update_predecessors` -/

/-- `for u, t in self._succ.items(): if abs(u) == 1: continue; self._pred[t] = u` -/
def updPredStep (t : Tbl) (p : TreeMap (List Int) Nat) (u : Nat) : TreeMap (List Int) Nat :=
  if u = 1 then p else
  match t.succ[u]? with
  | some n => p.insert n.key u
  | none => p

def updatePredecessors (ord : List Nat) : M Unit := fun m =>
  (.ok (), { m with pred := ord.foldl (updPredStep m.tbl) m.pred })

/-- harness only (the situation the docstring of `BDD` describes: `_succ` was filled without
`find_or_add`): forget the unique-table entry of node `u` / of every node -/
def predDrop (u : Nat) : M Unit := fun m =>
  match m.tbl.succ[u]? with
  | some n => (.ok (), { m with pred := m.pred.erase n.key })
  | none => (.error .key, m)

def predClear : M Unit := fun m => (.ok (), { m with pred := {} })

/-- harness only: an entry of `_pred` for a triple that need not be stored -/
def predPut (k : List Int) (u : Nat) : M Unit := fun m => (.ok (), { m with pred := m.pred.insert k u })

/-! ### comparisons of managers -/

/-- `dd.bdd.BDD.__eq__` is inherited from the protocol class `dd._abc.BDD`, whose body is a
docstring: the value is `None` for ANY two managers (the same object included) -/
def mgrEq (_a _b : Nat) : Option Bool := none

/-- `!=` (no `__ne__` is defined: Python negates the truth value of `__eq__`) -/
def mgrNe (a b : Nat) : Bool :=
  match mgrEq a b with
  | some r => !r
  | none => true

/-- `dd.autoref.BDD.__eq__`: `self._bdd is other._bdd` — identity of the wrapped manager; managers
are addressed by their id in a session -/
def aMgrEq (a b : Nat) : Bool := a == b

/-! ### views -/

/-- `bdd.vars` / `bdd.var_levels` (a copy of the same `dict`) -/
def varLevels (t : Tbl) : List (String × Nat) := t.vars.toList

/-- `bdd.ordering`: `raise DeprecationWarning(...)` -/
def orderingView : Except Err Unit := .error .other

/-- `iter(bdd)`: the keys of `_succ` -/
def iterNodes (t : Tbl) : List Nat := 1 :: t.succ.keys

/-- `statistics()`: the default implementation, an empty `dict` -/
def statistics : List (String × String) := []

/-- `pick(u, care_vars)` (inherited from `dd._abc.BDD`): `next(iter(self.pick_iter(u, care_vars)), None)`;
WHICH assignment comes first is not specified (set iteration inside `_enumerate_minterms`) -/
def pickOp (t : Tbl) (u : Int) (care : Option (List String)) :
    Except Err (Option (List (String × Bool))) :=
  match pickIter t u care with
  | .error e => .error e
  | .ok l => .ok l.head?

/-- keys of `{k: … for k in l}` in dict order: every name at its FIRST position -/
def dictKeys (l : List String) : List String := (dedup l.reverse).reverse

/-- `cube(dvars)` for an iterable of names that is not a `dict`: `{k: True for k in dvars}` -/
def cubeNames (names : List String) : M Int := cube ((dictKeys names).map fun k => (k, true))

/-- `BDD.copy(u, other)` = `copy_bdd(u, self, other)` -/
def copyMethod (src : Tbl) (u : Int) : M Int := copyBdd src u

/-- `_assert_valid_ordering(levels)` for a `dict` given as a list of items -/
def apiValidOrdering (levels : List (String × Int)) : Bool :=
  let n := levels.length
  let nums := levels.map (·.2)
  (List.range n).all (fun i => nums.contains (i : Int)) && nums.all (fun k => 0 ≤ k && k < n)

def insertByLevel (a : String × Int) : List (String × Int) → List (String × Int)
  | [] => [a]
  | b :: l => if a.2 ≤ b.2 then a :: b :: l else b :: insertByLevel a l

/-- `sorted(s, key=s.get)` (stable) -/
def namesByLevel (l : List (String × Int)) : List String :=
  (l.foldr insertByLevel []).map (·.1)

/-- `_assert_isomorphic_orders(old, new, support)` -/
def assertIsomorphicOrders (old new : List (String × Int)) (support : List String) : Except Err Unit :=
  if !apiValidOrdering old then .error .assertion else
  if !apiValidOrdering new then .error .assertion else
  let s := old.filter fun kv => support.contains kv.1
  let t := new.filter fun kv => support.contains kv.1
  if namesByLevel s == namesByLevel t then .ok () else .error .assertion

end DD
