/-
  DD.CWrap — the ASSUMED meaning of the C library functions that the Cython back ends
  call (CUDD, CUDD's ZDD functions, Sylvan, BuDDy), an evaluator of the expression trees
  that `harness/cpyx.py` extracts from the `apply` methods, and the reference-discipline
  checker that runs over the extracted event traces.

  TRUSTED BASE.  Nothing here is derived from the C libraries (they are not available in
  this environment and nothing is compiled or run): the tables below are transcribed by
  hand from the libraries' documentation

  * CUDD 3.0.0, `cudd/cuddBddIte.c`, `cuddBddAbs.c`, `cuddZddSetop.c`, `cuddAPI.c`, `cuddRef.c`,
  * Sylvan `sylvan_bdd.h` (`sylvan_and`, …, `sylvan_exists(a, qvars)`),
  * BuDDy 2.4 `bddop.c` / `kernel.c`.

  Everything proved in DDProps/C19.lean is relative to these tables and to the reader.

  Reading of ZDDs: `dd.cudd_zdd` represents a Boolean function over the declared variables
  by the family of its satisfying assignments, so the set operations are read pointwise
  (`Cudd_zddIntersect` = ∧, `Cudd_zddUnion` = ∨, `Cudd_zddDiff(a, b)` = a ∧ ¬b) and
  `Cudd_ReadZddOne(mgr, 0)` is the universe, i.e. TRUE.
-/
import DD.CTableTypes
namespace DD

/-! ### propositional meaning of the C calls -/

/-- C calls without node argument: constants -/
def cConst : String → Option Bool
  | "Cudd_ReadOne" => some true            -- the constant 1 node
  | "Cudd_ReadLogicZero" => some false     -- complement of the constant 1 (BDD false)
  | "Cudd_ReadZddOne/0" => some true       -- ZDD universe from level 0: every assignment
  | "Cudd_ReadZero" => some false          -- arithmetic 0 = the empty family (ZDD false)
  | "sylvan_true" => some true
  | "sylvan_false" => some false
  | "bdd_true" => some true
  | "bdd_false" => some false
  | _ => none

/-- unary C calls -/
def cUn : String → Option (Bool → Bool)
  | "Cudd_Not" => some (!·)                -- complements the pointer
  | "sylvan_not" => some (!·)
  | "bdd_not" => some (!·)
  | _ => none

/-- binary C calls (node arguments in source order) -/
def cBin : String → Option (Bool → Bool → Bool)
  | "Cudd_bddAnd" => some (· && ·)
  | "Cudd_bddOr" => some (· || ·)
  | "Cudd_bddXor" => some (· != ·)
  | "Cudd_bddXnor" => some (· == ·)
  | "Cudd_bddNand" => some fun a b => !(a && b)
  | "Cudd_bddNor" => some fun a b => !(a || b)
  | "Cudd_zddIntersect" => some (· && ·)
  | "Cudd_zddUnion" => some (· || ·)
  | "Cudd_zddDiff" => some fun a b => a && !b
  | "sylvan_and" => some (· && ·)
  | "sylvan_or" => some (· || ·)
  | "sylvan_xor" => some (· != ·)
  | "sylvan_imp" => some fun a b => !a || b
  | "sylvan_biimp" => some (· == ·)
  | "sylvan_equiv" => some (· == ·)
  | "sylvan_diff" => some fun a b => a && !b
  | "bdd_and" => some (· && ·)
  | "bdd_or" => some (· || ·)
  | "bdd_xor" => some (· != ·)
  | "bdd_imp" => some fun a b => !a || b
  | "bdd_biimp" => some (· == ·)
  | _ => none

/-- ternary C calls: if-then-else -/
def cTer : String → Option (Bool → Bool → Bool → Bool)
  | "Cudd_bddIte" => some fun a b c => if a then b else c
  | "Cudd_zddIte" => some fun a b c => if a then b else c
  | "cuddZddIte" => some fun a b c => if a then b else c
  | "sylvan_ite" => some fun a b c => if a then b else c
  | "bdd_ite" => some fun a b c => if a then b else c
  | _ => none

def COperand.val (u v w : Bool) : COperand → Bool
  | .u => u | .v => v | .w => w

/-- value of an extracted expression under an operand valuation; `none` when the tree
contains a call without an assumed propositional meaning (quantifiers, unknown functions,
`.unknown`) -/
def evalC : CExpr → Bool → Bool → Bool → Option Bool
  | .arg o, u, v, w => some (o.val u v w)
  | .c0 f, _, _, _ => cConst f
  | .c1 f a, u, v, w =>
    match cUn f, evalC a u v w with
    | some g, some x => some (g x)
    | _, _ => none
  | .c2 f a b, u, v, w =>
    match cBin f, evalC a u v w, evalC b u v w with
    | some g, some x, some y => some (g x y)
    | _, _, _ => none
  | .c3 f a b c, u, v, w =>
    match cTer f, evalC a u v w, evalC b u v w, evalC c u v w with
    | some g, some x, some y, some z => some (g x y z)
    | _, _, _, _ => none
  | .unknown _, _, _, _ => none

/-- the operands an expression mentions -/
def CExpr.uses (o : COperand) : CExpr → Bool
  | .arg p => p == o
  | .c0 _ => false
  | .c1 _ a => a.uses o
  | .c2 _ a b => a.uses o || b.uses o
  | .c3 _ a b c => a.uses o || b.uses o || c.uses o
  | .unknown _ => true

/-! ### quantifiers: which operand is quantified, which supplies the variables -/

/-- Quantifier functions: `(universal?, position of the quantified node, position of the
node that gives the variables)` among the node arguments.  All of them take the function
first and the variable cube second:
`Cudd_bddExistAbstract(mgr, f, cube)`, `Cudd_bddUnivAbstract(mgr, f, cube)`,
`sylvan_exists(a, qvars)`, `sylvan_forall(a, qvars)`, `bdd_exist(r, var)`,
`bdd_forall(r, var)`, and the module's own `_exist_root(mgr, u, cube)`,
`_forall_root(mgr, u, cube)` of `cudd_zdd.pyx` (the latter two are read from their
definition in the same file: `u` is recursed on, `cube` only selects levels). -/
def cQuantSig : String → Option (Bool × Nat × Nat)
  | "Cudd_bddUnivAbstract" => some (true, 0, 1)
  | "Cudd_bddExistAbstract" => some (false, 0, 1)
  | "sylvan_forall" => some (true, 0, 1)
  | "sylvan_exists" => some (false, 0, 1)
  | "bdd_forall" => some (true, 0, 1)
  | "bdd_exist" => some (false, 0, 1)
  | "_forall_root" => some (true, 0, 1)
  | "_exist_root" => some (false, 0, 1)
  | _ => none

/-- how the variables are obtained from the operand that supplies them -/
inductive VarsMode
  | cubeArg      -- the operand's node is passed as the cube (it must BE a positive cube)
  | supportOf    -- `self.support(operand)` is turned into a cube: any operand works
deriving Repr, DecidableEq, Inhabited

structure QuantRoles where
  forall_ : Bool
  varsFrom : COperand
  body : COperand
  mode : VarsMode
deriving Repr, DecidableEq, Inhabited

/-- the operand whose variables a cube-position expression denotes -/
def cVarsOf : CExpr → Option (COperand × VarsMode)
  | .arg o => some (o, .cubeArg)
  | .c1 "_dict_to_zdd" (.c1 "support" (.arg o)) => some (o, .supportOf)
  | _ => none

def cRoles : CExpr → Option QuantRoles
  | .c2 f a b =>
    match cQuantSig f with
    | some (fa, 0, 1) =>
      match a, cVarsOf b with
      | .arg body, some (o, m) => some ⟨fa, o, body, m⟩
      | _, _ => none
    | some (fa, 1, 0) =>
      match b, cVarsOf a with
      | .arg body, some (o, m) => some ⟨fa, o, body, m⟩
      | _, _ => none
    | _ => none
  | _ => none

/-! ### reference discipline

Assumed behaviour of the libraries' reference counting:

* `fresh`: the call may create nodes (and may therefore garbage-collect or reorder); its
  result is returned *without* a reference owned by the caller (CUDD: "the result has
  reference count 0 / is not referenced"; Sylvan and BuDDy results are unprotected until
  `sylvan_ref` / `bdd_addref`).
* `owned`: the result comes with one reference that the caller must give back
  (`Dddmp_cuddBddLoad` references the roots it loads).
* `borrowed`: no node is created: pointer arithmetic (`Cudd_Not`, `Cudd_Regular`), a child
  pointer (`Cudd_T`, `cuddE`, `sylvan_low`), or a permanently referenced constant /
  projection node; also a raw address converted back to a pointer, and the collision-chain
  pointer `DdNode.next` (no reference is attached to that field).
* `permanent`: the call may create nodes (like `fresh`), but its result is a BDD projection
  function, which the CUDD manager itself references for as long as it lives
  (`Cudd_bddIthVar`: `dd->vars[i]`, referenced in `cuddInsertSubtables` / `ddResizeTable`), so the
  result needs no protection by the caller.

References kept in CONTAINERS (a C array from `PyMem_Malloc`, a Python `dict`, CUDD's
`DdHashTable`): a container is created by the function (`alloc`, `cnew`) or belongs to the caller
(`cparam`).  `store c x` moves one reference that the function holds on `x` into `c` (the ghost
list `owned`); when the function holds none, `c` merely borrows `x` (somebody else must keep it
alive).  `derefAll c fn` is the loop that dereferences EVERY element once: it gives back exactly
what was stored (and whatever a function of the same module that was handed `c` has stored:
`mayHold`), so it is refused on a container with borrowed elements, on a container that was
already released, and on an array when the loop bound differs from the allocated size.  At the
end of every path a container created by the function must hold nothing (and, reported apart as
`arrayLeak`, an array must have been freed); a container of the caller is either left alone —
references stored into it are handed on with it — or consumed (released AND freed).  Assumed: a C
library function does not keep the array it is given beyond the call.
-/
inductive NodeKind
  | fresh | owned | borrowed | permanent
deriving Repr, DecidableEq, Inhabited

def producerKind : String → Option NodeKind
  -- (the most frequent ones first: the kernel tries the literals in this order)
  | "DD_ZERO" | "cuddE" | "cuddT" | "DD_ONE" => some .borrowed
  | "cuddCacheLookup2Zdd" => some .fresh
  -- CUDD BDD
  | "Cudd_bddAnd" | "Cudd_bddOr" | "Cudd_bddXor" | "Cudd_bddXnor" | "Cudd_bddIte"
  | "Cudd_bddExistAbstract" | "Cudd_bddUnivAbstract" | "Cudd_bddAndAbstract"
  | "Cudd_Support" | "Cudd_bddCompose" | "Cudd_bddVectorCompose" | "Cudd_Cofactor"
  | "Cudd_bddSwapVariables" | "Cudd_bddRestrict" | "Cudd_CubeArrayToBdd"
  | "Cudd_bddComputeCube" | "Cudd_bddTransfer" | "Cudd_bddTransferRename"
  | "cuddUniqueInter" | "Cudd_bddNewVar" | "Cudd_bddNewVarAtLevel" => some .fresh
  | "Cudd_bddIthVar" => some .permanent
  | "Dddmp_cuddBddLoad" => some .owned
  | "Cudd_Not" | "Cudd_Regular" | "Cudd_T" | "Cudd_E" | "Cudd_ReadOne" | "Cudd_ReadLogicZero"
  | "_int_to_ddref" | "<DdRef>" | "DdNode.next" => some .borrowed
  -- CUDD ZDD
  | "Cudd_zddDiff" | "Cudd_zddIntersect" | "Cudd_zddUnion" | "Cudd_zddIte" | "cuddZddIte"
  | "Cudd_zddIthVar" | "Cudd_zddSupport" | "Cudd_zddSubset0" | "Cudd_zddSubset1"
  | "Cudd_zddPortFromBdd" | "Cudd_zddPortToBdd" | "cuddUniqueInterZdd" => some .fresh
  | "Cudd_ReadZddOne" | "Cudd_ReadZero" => some .borrowed
  -- Sylvan
  | "sylvan_and" | "sylvan_or" | "sylvan_xor" | "sylvan_imp" | "sylvan_biimp" | "sylvan_equiv"
  | "sylvan_diff" | "sylvan_ite" | "sylvan_exists" | "sylvan_forall" | "sylvan_and_exists"
  | "sylvan_ithvar" | "sylvan_nithvar" | "sylvan_support" | "sylvan_compose"
  | "sylvan_restrict" | "sylvan_constrain" => some .fresh
  | "sylvan_not" | "sylvan_low" | "sylvan_high" | "sylvan_true" | "sylvan_false" => some .borrowed
  -- BuDDy
  | "bdd_and" | "bdd_or" | "bdd_xor" | "bdd_not" | "bdd_imp" | "bdd_biimp" | "bdd_ite"
  | "bdd_apply" | "bdd_exist" | "bdd_forall" | "bdd_appex" | "bdd_appall" | "bdd_makeset"
  | "bdd_replace" | "bdd_ithvar" | "bdd_nithvar" | "bdd_support" => some .fresh
  | "bdd_true" | "bdd_false" | "bdd_low" | "bdd_high" => some .borrowed
  | _ => none

/-- calls that return a handle whose node the MANAGER keeps referenced for as long as it lives (a BDD
projection function, `permanent` above): when the local name of such a handle is rebound, the node
stays alive.  Tied to the source by `permanentHandles_ok` (DDProps/C19): in every back end where a
path relies on this, the method is followed and wraps nothing but the result of a `permanent` call. -/
def permanentHandleCalls : List String := ["self.var"]

/-- functions that add one reference to their argument -/
def isRefFn : String → Bool
  | "Cudd_Ref" | "cuddRef" | "sylvan_ref" | "bdd_addref" => true
  | "_incref" | "incref" => true           -- the wrappers' own methods (checked as `refApi`)
  | _ => false

/-- functions that take one reference away from their argument (`Cudd_Deref` / `cuddDeref`
decrement without freeing; the recursive ones also release the children of a dead node) -/
def isDerefFn : String → Bool
  | "Cudd_RecursiveDeref" | "Cudd_RecursiveDerefZdd" | "Cudd_IterDerefBdd" | "Cudd_Deref"
  | "cuddDeref" | "sylvan_deref" | "bdd_delref" => true
  | "_decref" | "decref" => true           -- the wrappers' own methods (checked as `refApi`)
  | _ => false

/-- CUDD's non-recursive dereference: the count is decremented and nothing else happens — the node
is not declared dead, its children keep the references it holds on them.  Right only for a node
that is handed on alive (`cuddRef(r); …; cuddDeref(r); return r`); a node that is DROPPED after it is
never reclaimed together with what it refers to. -/
def isPlainDerefFn : String → Bool
  | "Cudd_Deref" | "cuddDeref" => true
  | _ => false

/-- the dereference functions of each back end (the wrappers' own methods aside): a BDD function on
a ZDD node, or the other way round, corrupts the library's bookkeeping of dead nodes -/
def allowedDerefs : Backend → List String
  | .cudd => ["Cudd_RecursiveDeref", "Cudd_IterDerefBdd", "Cudd_Deref", "cuddDeref", "_decref", "decref"]
  | .cuddZdd => ["Cudd_RecursiveDerefZdd", "Cudd_Deref", "cuddDeref", "_decref", "decref"]
  | .sylvan => ["sylvan_deref", "decref"]
  | .buddy => ["bdd_delref", "decref"]

/-- with which of them a handle gives its reference back for good (`__dealloc__`): the one that
reclaims the node and releases its children -/
def disposalDerefs : Backend → List String
  | .cudd => ["Cudd_RecursiveDeref", "Cudd_IterDerefBdd"]
  | .cuddZdd => ["Cudd_RecursiveDerefZdd"]
  | .sylvan => ["sylvan_deref"]
  | .buddy => ["bdd_delref"]

/-- dereference functions that FREE a node whose count drops to zero, and then release its
children in turn -/
def isRecursiveDerefFn : String → Bool
  | "Cudd_RecursiveDeref" | "Cudd_RecursiveDerefZdd" | "Cudd_IterDerefBdd" => true
  | _ => false

/-- bookkeeping of one node value along a path -/
structure NodeSt where
  id : Nat
  kind : NodeKind
  held : Int        -- references this function owns on the node right now
  refs : Nat        -- `ref` events so far
  derefs : Nat
  wraps : Nat
  null : Bool       -- the path assumes the node is NULL / invalid
  exposed : Bool    -- was unprotected (fresh, no reference, no handle) while a later call may have collected it
  madeFrom : List Nat := []   -- the node arguments of the call that produced it (it refers to them)
  inCont : Nat := 0           -- references that containers followed on this path hold on the node
  fromCont : Option Nat := none   -- loaded from this container (alive as long as the container refers to it)
  plainDropped : Bool := false    -- its last reference went away through a NON-recursive dereference and it was not handed on since
deriving Repr, Inhabited

abbrev PathSt := List NodeSt

def PathSt.node? (s : PathSt) (x : Nat) : Option NodeSt :=
  List.find? (fun n => n.id == x) s

def PathSt.set (s : PathSt) (n : NodeSt) : PathSt :=
  n :: s.filter (fun m => m.id != n.id)

/-- a node is protected when this function holds a reference, a handle wraps it, it is
borrowed from somebody who holds it, or it is NULL -/
def NodeSt.protected_ (n : NodeSt) : Bool :=
  n.kind == .borrowed || n.kind == .permanent || n.held > 0 || n.wraps > 0 || n.null || n.inCont > 0

inductive PathVerdict
  | ok
  | bad (why : String) (x : Nat)
  | arrayLeak (c : Nat)     -- everything else is fine, but the C array `c` is not freed on this path
deriving Repr, DecidableEq, Inhabited

/-- what must hold of every node when a path ends -/
def endOk (s : PathSt) : PathVerdict :=
  match List.find? (fun (n : NodeSt) => n.held != 0) s with
  | some n => .bad "path ends while holding (or having given away) a reference" n.id
  | none =>
    match List.find? (fun (n : NodeSt) => decide (n.wraps > 1)) s with
    | some n => .bad "node wrapped more than once" n.id
    | none => .ok

/-- a `produce` event: the arguments must not have been exposed; a node-creating call exposes
every node that is unprotected at this moment -/
def produceStep (loc : List String) (float : Bool) (s : PathSt) (x : Nat) (fn : String)
    (args : List Nat) : Except PathVerdict PathSt :=
  -- a `cdef DdRef` function defined in the same `.pyx` (`loc`) may create nodes and hands its
  -- result over without a reference, like the C functions it is built from
  match (match producerKind fn with
         | some k => some k
         | none => if loc.contains fn then some NodeKind.fresh else none) with
  | none => .error (.bad ("C function without an assumed reference behaviour: " ++ fn) x)
  | some k =>
    match (if float then args.find? (fun a => (s.node? a).any (·.exposed)) else none) with
    | some a => .error (.bad ("unprotected node passed to " ++ fn ++ " after a node-creating call") a)
    | none =>
      let s' := if k == .borrowed then s else
        s.map fun n => if n.protected_ then n else { n with exposed := true }
      let init : Int := if k == .owned then 1 else 0
      .ok (s'.set ⟨x, k, init, 0, 0, 0, false, false, args, 0, none, false⟩)

/-! #### containers -/

inductive ContKind
  | array     -- `PyMem_Malloc`: must be freed by this function
  | pyobj     -- `dict()`: a Python object, reclaimed by Python
  | param     -- belongs to the caller
deriving Repr, DecidableEq, Inhabited

/-- bookkeeping of one container along a path -/
structure ContSt where
  id : Nat
  kind : ContKind
  size : String := ""          -- text of the number of elements allocated
  owned : List Nat := []       -- nodes of which one reference was moved into the container (with repetition)
  borrowed : List Nat := []    -- nodes stored without a reference
  mayHold : Bool := false      -- was handed to a function of the same module, which may have stored references
  released : Bool := false     -- every element was dereferenced and nothing was stored since
  everReleased : Bool := false -- every element was dereferenced at some moment of the path
  freed : Bool := false
  filling : Bool := false      -- (array) inside, or thrown out of, a loop that stores into it: slots are missing
  filled : Bool := false       -- (array) a loop that stores into it ran until its iterator was exhausted
  nulled : Bool := false       -- (array) every slot was set to NULL before anything was stored
deriving Repr, Inhabited

def findCont (cs : List ContSt) (c : Nat) : Option ContSt :=
  List.find? (fun k => k.id == c) cs

def setCont (cs : List ContSt) (k : ContSt) : List ContSt :=
  k :: cs.filter (fun m => m.id != k.id)

def isAllocFn : String → Bool
  | "PyMem_Malloc" => true
  | _ => false

def isFreeFn : String → Bool
  | "PyMem_Free" | "FREE" => true
  | _ => false

/-- what must hold of the containers when a path ends -/
def contsEndOk (cs : List ContSt) : PathVerdict :=
  match List.find? (fun (k : ContSt) => k.kind != .param && (!k.owned.isEmpty || k.mayHold)) cs with
  | some k => .bad "path ends while a container of this function still holds references" k.id
  | none =>
    match List.find? (fun (k : ContSt) => k.kind == .param && k.everReleased != k.freed) cs with
    | some k => .bad "a container of the caller is released without being consumed (or freed without being released)" k.id
    | none =>
      match List.find? (fun (k : ContSt) => k.kind == .array && !k.freed) cs with
      | some k => .arrayLeak k.id
      | none => .ok

def endOkC (s : PathSt) (cs : List ContSt) : PathVerdict :=
  match endOk s with
  | .ok => contsEndOk cs
  | v => v

/-- `for each element of c: fn(mgr, element)` -/
def derefAllStep (float : Bool) (guarded : Bool) (s : PathSt) (cs : List ContSt) (c : Nat) (fn bound : String) :
    Except PathVerdict (PathSt × List ContSt) :=
  if !isDerefFn fn then .error (.bad ("not a dereference function: " ++ fn) c) else
  match findCont cs c with
  | none => .error (.bad "the elements of an untracked container are dereferenced" c)
  | some k =>
    if k.freed then .error (.bad "container used after it was freed" c) else
    if !k.borrowed.isEmpty then
      .error (.bad "every element is dereferenced, but the container only borrows some of them" c) else
    if k.released then .error (.bad "the references of the container were already given back" c) else
    if k.kind == .array && k.size != bound then
      .error (.bad "the loop that gives the references back does not run over the allocated size" c) else
    -- every slot is read: all of them must have been written -- by a completed fill, or (when the
    -- loop skips the NULL slots) by the initialisation `c[i] = NULL` of the whole array
    if k.kind == .array && (k.filling || !k.filled) && !(guarded && k.nulled) then
      .error (.bad "every slot of an array is dereferenced, but the loop that fills it was not completed (or there is none)" c) else
    -- the references of the container go away …
    let s1 := s.map fun n => { n with inCont := n.inCont - k.owned.count n.id }
    -- … and with them what only the container kept alive: its elements that were loaded before,
    -- and (recursive dereference) every node that is unprotected at this moment — the result of a
    -- call that was given the container may BE one of its elements, so there is no `madeFrom`
    -- exception here
    let s2 := if float then
        s1.map fun n =>
          if n.fromCont == some c || (isRecursiveDerefFn fn && !n.protected_) then { n with exposed := true }
          else n
      else s1
    .ok (s2, setCont cs { k with owned := [], mayHold := false, released := true, everReleased := true })

/-- per enclosing loop iteration: the references the function held on each node when the iteration began -/
abbrev LoopStack := List (List (Nat × Int))

/-- how a path ends: it reaches a `return` / `raise` / an exception from a callee in the state
`(s, cs)`, or an event in its middle is refused (`stop (.bad …)`) or shows that the path cannot be
taken (`stop .ok`) -/
inductive PathEnd
  | fin (s : PathSt) (cs : List ContSt)
  | stop (v : PathVerdict)
deriving Repr, Inhabited

def heldSnapshot (s : PathSt) : List (Nat × Int) := s.map fun n => (n.id, n.held)

/-- every node holds what it held when the iteration began (a node made inside it: nothing) -/
def iterationNeutral (snap : List (Nat × Int)) (s : PathSt) : Option Nat :=
  (List.find? (fun (n : NodeSt) => n.held != ((snap.find? (·.1 == n.id)).map (·.2)).getD 0) s).map (·.id)

/-- Run the events of one path.  `float` selects the additional check that an unprotected
fresh node is never used after a later node-creating call (or a recursive dereference). -/
def runPathS (loc : List String) (float : Bool) (returnsNode : Bool) :
    LoopStack → PathSt → List ContSt → List CEv → PathEnd
  | _, s, cs, [] => .fin s cs
  | ls, s, cs, ev :: rest =>
    match ev with
    | .param x _ =>
      runPathS loc float returnsNode ls (s.set ⟨x, .borrowed, 0, 0, 0, 0, false, false, [], 0, none, false⟩) cs rest
    | .produce x fn args =>
      match produceStep loc float s x fn args with
      | .error v => .stop v
      | .ok s' => runPathS loc float returnsNode ls s' cs rest
    | .ref x fn =>
      if !isRefFn fn then .stop (.bad ("not a reference function: " ++ fn) x) else
      match s.node? x with
      | none => .stop (.bad "ref of an untracked node" x)
      | some n =>
        if float && n.exposed then .stop (.bad "unprotected node used after a node-creating call or a recursive dereference" x) else
        runPathS loc float returnsNode ls
          (s.set { n with held := n.held + 1, refs := n.refs + 1, plainDropped := false }) cs rest
    | .deref x fn =>
      if !isDerefFn fn then .stop (.bad ("not a dereference function: " ++ fn) x) else
      match s.node? x with
      | none => .stop (.bad "deref of an untracked node" x)
      | some n =>
        if n.held + (n.wraps : Int) < 1 then .stop (.bad "deref without a reference to give back" x) else
        -- a RECURSIVE dereference frees what only `x` kept alive: like a node-creating call it
        -- exposes every node that is unprotected at this moment — a fresh result that may be a
        -- descendant of, or equal to, the released temporary.  Not exposed: a fresh node that was
        -- made FROM `x` (a parent built by the call that took `x` as an argument holds its own
        -- reference on `x`, so `x` does not die)
        let pd := isPlainDerefFn fn && decide (n.held - 1 ≤ 0) && n.wraps == 0 && n.inCont == 0
        let s1 := s.set { n with held := n.held - 1, derefs := n.derefs + 1, plainDropped := pd }
        -- (`x` itself included: once nothing else holds it, it is freed by the recursive dereference)
        let s2 := if float && isRecursiveDerefFn fn then
            s1.map fun k =>
              if k.protected_ || k.madeFrom.contains x then k else { k with exposed := true }
          else s1
        runPathS loc float returnsNode ls s2 cs rest
    | .wrap x =>
      match s.node? x with
      | none => .stop (.bad "wrap of an untracked node" x)
      | some n =>
        if float && n.exposed then .stop (.bad "unprotected node used after a node-creating call or a recursive dereference" x) else
        runPathS loc float returnsNode ls (s.set { n with wraps := n.wraps + 1, plainDropped := false }) cs rest
    | .initCall x =>
      match s.node? x with
      | none => .stop (.bad "init of an untracked node" x)
      | some n => runPathS loc float returnsNode ls (s.set { n with wraps := n.wraps + 1 }) cs rest
    | .isNull x =>
      match s.node? x with
      | none => runPathS loc float returnsNode ls s cs rest
      | some n =>
        -- a call that would hand over a reference hands over none when it returns NULL
        let held := if n.kind == .owned && n.refs == 0 && n.derefs == 0 then 0 else n.held
        runPathS loc float returnsNode ls (s.set { n with null := true, held := held }) cs rest
    | .guard _ _ => runPathS loc float returnsNode ls s cs rest
    | .retHandle => .fin s cs
    | .retNode x =>
      if !returnsNode then .stop (.bad "a raw node is returned to Python without a handle" x) else
      match s.node? x with
      | none => .stop (.bad "return of an untracked node" x)
      | some n =>
        if float && n.exposed then .stop (.bad "unprotected node used after a node-creating call or a recursive dereference" x) else
        .fin (s.set { n with plainDropped := false }) cs     -- handed to the caller alive
    | .retNull => .fin s cs
    | .raise _ => .fin s cs
    | .raiseIn _ _ => .fin s cs
    -- which slots of an array were filled: only "the loop that fills it ran to its end"
    | .fillBegin c =>
      match findCont cs c with
      | none => .stop (.bad "a loop stores into an untracked array" c)
      | some k => runPathS loc float returnsNode ls s (setCont cs { k with filling := true }) rest
    | .fillEnd c =>
      match findCont cs c with
      | none => .stop (.bad "a loop stores into an untracked array" c)
      | some k => runPathS loc float returnsNode ls s (setCont cs { k with filling := false, filled := true }) rest
    -- the handle through which `x` was reached is gone (its name was rebound): unless the handle is
    -- one that the manager keeps alive for ever (`permanentHandleCalls`), or the function or a
    -- container of it holds a reference on `x`, nothing protects `x` any more
    | .handleDrop x via =>
      match s.node? x with
      | none => runPathS loc float returnsNode ls s cs rest
      | some n =>
        if permanentHandleCalls.contains via || n.held > 0 || n.inCont > 0 || n.wraps > 0 then
          runPathS loc float returnsNode ls s cs rest
        else runPathS loc float returnsNode ls (s.set { n with exposed := true }) cs rest
    -- every iteration of a loop is reference-neutral: the unrolling (0, 1, 2 iterations) then stands
    -- for any number of iterations
    | .iterBegin => runPathS loc float returnsNode (heldSnapshot s :: ls) s cs rest
    | .iterBreak => runPathS loc float returnsNode ls.tail s cs rest
    | .iterEnd =>
      match ls with
      | [] => .stop (.bad "end of a loop iteration outside a loop" 0)
      | snap :: ls' =>
        match iterationNeutral snap s with
        | some x => .stop (.bad "a loop iteration ends holding (or having given away) a reference it did not hold when it began" x)
        | none => runPathS loc float returnsNode ls' s cs rest
    -- containers
    | .alloc c fn size =>
      if !isAllocFn fn then .stop (.bad ("not an allocation function: " ++ fn) c) else
      runPathS loc float returnsNode ls s (setCont cs { id := c, kind := .array, size := size }) rest
    | .cnew c _ => runPathS loc float returnsNode ls s (setCont cs { id := c, kind := .pyobj }) rest
    | .cparam c _ => runPathS loc float returnsNode ls s (setCont cs { id := c, kind := .param }) rest
    | .store c x =>
      match findCont cs c with
      | none => .stop (.bad "store into an untracked container" c)
      | some k =>
        match s.node? x with
        | none => .stop (.bad "store of an untracked node" x)
        | some n =>
          if k.freed then .stop (.bad "container used after it was freed" c) else
          if float && n.exposed then .stop (.bad "unprotected node used after a node-creating call or a recursive dereference" x) else
          if n.held > 0 then
            -- one reference of this function moves into the container
            runPathS loc float returnsNode ls
              (s.set { n with held := n.held - 1, inCont := n.inCont + 1, plainDropped := false })
              (setCont cs { k with owned := x :: k.owned, released := false }) rest
          else
            runPathS loc float returnsNode ls (s.set { n with plainDropped := false })
              (setCont cs { k with borrowed := x :: k.borrowed }) rest
    | .load x c =>
      match findCont cs c with
      | none => .stop (.bad "load from an untracked container" c)
      | some k =>
        if k.freed then .stop (.bad "container used after it was freed" c) else
        -- an element: kept alive by whoever filled the container, until its references are given back
        runPathS loc float returnsNode ls
          (s.set ⟨x, .borrowed, 0, 0, 0, 0, false, k.released, [], 0, some c, false⟩) cs rest
    | .passC c fn =>
      match findCont cs c with
      | none => .stop (.bad "an untracked container is handed to a call" c)
      | some k =>
        if k.freed then .stop (.bad "container used after it was freed" c) else
        if k.kind == .array && (k.filling || !k.filled) then
          .stop (.bad ("an array is handed to " ++ fn ++ ", but the loop that fills it was not completed (or there is none)") c) else
        if float && k.released then
          .stop (.bad ("container handed to " ++ fn ++ " after its references were given back") c) else
        if float && k.borrowed.any (fun y => (s.node? y).any (·.exposed)) then
          .stop (.bad ("container with an unprotected element handed to " ++ fn ++ " after a node-creating call") c) else
        -- a function of the same module may store references into a container of ours
        let k' := if loc.contains fn && k.kind != .param then { k with mayHold := true, released := false } else k
        runPathS loc float returnsNode ls s (setCont cs k') rest
    | .derefAll c fn bound =>
      match derefAllStep float false s cs c fn bound with
      | .error v => .stop v
      | .ok (s', cs') => runPathS loc float returnsNode ls s' cs' rest
    | .derefNonNull c fn bound =>
      match derefAllStep float true s cs c fn bound with
      | .error v => .stop v
      | .ok (s', cs') => runPathS loc float returnsNode ls s' cs' rest
    | .nullInit c bound =>
      match findCont cs c with
      | none => .stop (.bad "the slots of an untracked array are initialised" c)
      | some k =>
        if k.kind != .array || k.size != bound then
          .stop (.bad "the loop that initialises the slots does not run over the allocated size" c) else
        if !k.owned.isEmpty || !k.borrowed.isEmpty || k.mayHold || k.freed then
          .stop (.bad "the slots of an array are overwritten with NULL after something was stored" c) else
        runPathS loc float returnsNode ls s (setCont cs { k with nulled := true }) rest
    | .free c fn =>
      if !isFreeFn fn then .stop (.bad ("not a deallocation function: " ++ fn) c) else
      match findCont cs c with
      | none => .stop (.bad "free of an untracked container" c)
      | some k =>
        if k.freed then .stop (.bad "container freed twice" c) else
        if k.kind == .pyobj then .stop (.bad "a Python object is freed" c) else
        runPathS loc float returnsNode ls s (setCont cs { k with freed := true }) rest
    | .refNonPos x =>
      match s.node? x with
      | none => runPathS loc float returnsNode ls s cs rest
      | some n =>
        -- the path assumes `x.ref <= 0`.  While this function, a handle or a container holds a
        -- reference on `x` the count is at least 1 (CUDD's counters saturate, they never wrap):
        -- the path cannot be taken, nothing is to be checked on it
        if n.held > 0 || n.wraps > 0 || n.inCont > 0 then .stop .ok else
        runPathS loc float returnsNode ls s cs rest
    -- the counter of a handle: only `init` / `__dealloc__` / `incref` / `decref` may change it
    | .fieldAdd h _ => .stop (.bad ("the counter `_ref` of a handle is changed outside init / __dealloc__ / incref / decref: " ++ h) 0)
    | .fieldSet h _ => .stop (.bad ("the counter `_ref` of a handle is changed outside init / __dealloc__ / incref / decref: " ++ h) 0)
    | .fieldTest _ _ _ _ => runPathS loc float returnsNode ls s cs rest
    | .handleNode _ _ => runPathS loc float returnsNode ls s cs rest
    | .setField x f y =>
      -- `x.next = y`: the collision chain of the unique table, (ab)used as a traversal mark; the
      -- field carries no reference, nothing moves
      if f != "next" then .stop (.bad ("a node is stored into a field without an assumed meaning: " ++ f) x) else
      match s.node? x, s.node? y with
      | some _, some m =>
        if float && m.exposed then .stop (.bad "unprotected node used after a node-creating call or a recursive dereference" y) else
        runPathS loc float returnsNode ls s cs rest
      | _, _ => .stop (.bad "field store on an untracked node" x)

def runPathC (loc : List String) (float : Bool) (returnsNode : Bool) (s : PathSt) (cs : List ContSt)
    (evs : List CEv) : PathVerdict :=
  match runPathS loc float returnsNode [] s cs evs with
  | .fin s' cs' => endOkC s' cs'
  | .stop v => v

def runPath (loc : List String) (float : Bool) (returnsNode : Bool) (s : PathSt) (evs : List CEv) :
    PathVerdict :=
  runPathC loc float returnsNode s [] evs

/-- `ok`, or nothing worse than an array that is not freed (reported apart: `pathArraysFreed`) -/
def PathVerdict.refsOk : PathVerdict → Bool
  | .ok => true
  | .arrayLeak _ => true
  | .bad _ _ => false

def pathBalanced (loc : List String) (m : CMethod) (p : CPath) : Bool :=
  (runPath loc false m.returnsNode [] p.events).refsOk

def pathNoFloat (loc : List String) (m : CMethod) (p : CPath) : Bool :=
  (runPath loc true m.returnsNode [] p.events).refsOk

/-- every C array allocated on the path is freed on it -/
def pathArraysFreed (loc : List String) (m : CMethod) (p : CPath) : Bool :=
  -- (a path without `alloc` has nothing to free: not run again)
  !p.events.any (fun e => match e with | .alloc .. => true | _ => false) ||
  match runPath loc false m.returnsNode [] p.events with
  | .arrayLeak _ => false
  | _ => true

/-- a node whose last reference went away through a non-recursive dereference is dropped: reported
apart from the balance (`refTraces_noPlainDrop`), like an array that is not freed -/
def pathPlainDrop (loc : List String) (m : CMethod) (p : CPath) : Bool :=
  (p.events.any fun e => match e with | .deref _ fn => isPlainDerefFn fn | _ => false) &&
  match runPathS loc false m.returnsNode [] [] [] p.events with
  | .fin s _ => s.any (·.plainDropped)
  | .stop _ => false

/-- every dereference uses a function of the method's back end; `__dealloc__` uses the one that
reclaims the node -/
def derefKindsOk (m : CMethod) : Bool :=
  m.paths.all fun p => p.events.all fun e =>
    match e with
    | .deref _ fn | .derefAll _ fn _ | .derefNonNull _ fn _ =>
      (allowedDerefs m.backend).contains fn &&
      (m.role != .handleDealloc || (disposalDerefs m.backend).contains fn)
    | _ => true

/-- how a path ends, for the reviewed lists: the name of an explicit `raise`, the site of an
exception from a callee, `return` -/
def endLabel : List CEv → String
  | [] => "return"
  | [.raise e] => e
  | [.raiseIn site _] => site
  | _ :: r => endLabel r

/-- the path ends by raising `exc` -/
def endsInRaiseOf (exc : String) : List CEv → Bool
  | [] => false
  | [.raise e] => e == exc
  | [.raiseIn site _] => site == exc
  | _ :: r => endsInRaiseOf exc r

/-- the path assumes `x.ref <= 0` although a reference on `x` is held: it cannot be taken -/
def pathInfeasible (loc : List String) (m : CMethod) (p : CPath) : Bool :=
  p.events.any (fun e => match e with | .refNonPos _ => true | _ => false) &&
  runPath loc false m.returnsNode [] p.events == .ok &&
  runPath loc false m.returnsNode [] (p.events.filter fun e => match e with | .refNonPos _ => false | _ => true) != .ok

/-! #### exceptions raised inside callees

A call that may raise a Python exception (classified by the reader from the callee's NAME: anything
but a C function declared in an `extern` block / the `.pxd` / cimported from libc, and the module's
own `cdef` functions that contain no `raise`/`assert` and call only such functions) gives an extra
path that ends in `raiseIn site line` right after the arguments were evaluated: the callee had no
effect on what THIS function holds (every callee is checked on its own), the enclosing `finally`
blocks run, `except` handlers that may match are entered.  Such a path must end like any other:
holding no reference, every own container empty — or it is one of `knownExceptionLeaks`
(DD/CWrapReviewed.lean), identified by function, site and WHAT is still held. -/

def CPath.exceptional (p : CPath) : Bool :=
  match p.events.getLast? with
  | some (.raiseIn _ _) => true
  | _ => false

def CPath.exitSite (p : CPath) : String :=
  match p.events.getLast? with
  | some (.raiseIn site _) => site
  | _ => ""

/-- how the node `x` came into the path: the parameter text, the C function, `load` -/
def nodeDescr (x : Nat) : List CEv → String
  | [] => "?"
  | .param y w :: r => if x == y then w else nodeDescr x r
  | .produce y fn _ :: r => if x == y then fn else nodeDescr x r
  | .load y _ :: r => if x == y then "load" else nodeDescr x r
  | _ :: r => nodeDescr x r

def insertById (n : NodeSt) : List NodeSt → List NodeSt
  | [] => [n]
  | m :: r => if n.id ≤ m.id then n :: m :: r else m :: insertById n r

def sortById (s : List NodeSt) : List NodeSt := s.foldr insertById []

def insertCont (n : ContSt) : List ContSt → List ContSt
  | [] => [n]
  | m :: r => if n.id ≤ m.id then n :: m :: r else m :: insertCont n r

def ContKind.name : ContKind → String
  | .array => "array" | .pyobj => "pyobj" | .param => "param"

/-- what the function still owns when a path ends: per node (in the order of their numbers) the
references held; per own container that still holds references (or was handed to a function of the
module, which may have stored some) one entry; per array that is not freed one entry -/
def summaryOf (evs : List CEv) (s : PathSt) (cs : List ContSt) : List (String × Int) :=
  let cs' := cs.foldr insertCont []
  ((sortById s).filter (·.held != 0)).map (fun n => (nodeDescr n.id evs, n.held)) ++
    ((cs'.filter fun k => k.kind != .param && (!k.owned.isEmpty || k.mayHold)).map
      fun k => ("container " ++ k.kind.name, (0 : Int))) ++
    ((cs'.filter fun k => k.kind == .array && !k.freed).map fun _ => ("array not freed", (0 : Int)))

def exitSummary (loc : List String) (m : CMethod) (p : CPath) : Option (List (String × Int)) :=
  match runPathS loc false m.returnsNode [] [] [] p.events with
  | .stop _ => none
  | .fin s cs => some (summaryOf p.events s cs)

/-- one run of the path: `none` when it is balanced (or cannot be taken), else what is still owned
(`refused` when a `finally` / `except` block on the way out is refused) -/
def exitLeak (refused : List (String × Int)) (loc : List String) (m : CMethod) (p : CPath) :
    Option (List (String × Int)) :=
  match runPathS loc false m.returnsNode [] [] [] p.events with
  | .stop v => if v.refsOk then none else some refused
  | .fin s cs => if (endOkC s cs).refsOk then none else some (summaryOf p.events s cs)

/-! ### the handle: one reference in, one reference out -/

def countRef (x : Nat) : List CEv → Nat
  | [] => 0
  | .ref y _ :: r => (if x == y then 1 else 0) + countRef x r
  | _ :: r => countRef x r

def countDerefAll : List CEv → Nat
  | [] => 0
  | .deref _ _ :: r => 1 + countDerefAll r
  | _ :: r => countDerefAll r

def countRefAll : List CEv → Nat
  | [] => 0
  | .ref _ _ :: r => 1 + countRefAll r
  | _ :: r => countRefAll r

def endsInRaise : List CEv → Bool
  | [] => false
  | [.raise _] => true
  | [.raiseIn _ _] => true
  | _ :: r => endsInRaise r

def hasGuard (c : String) (h : Bool) (es : List CEv) : Bool :=
  es.any fun e => match e with
    | .guard c' h' => c' == c && h' == h
    | _ => false

/-- `wrap(bdd, node)`: exactly one path, which hands the node parameter to `init` once and
touches no reference itself -/
def wrapFnOk (m : CMethod) : Bool :=
  (match m.paths.filter (fun p => !p.exceptional) with
   | [p] =>
     (match p.events with
      | [.param x _, .initCall y, .retHandle] => x == y
      | _ => false)
   | _ => false) &&
  -- `Function()` or `init` raises: nothing was taken before
  (m.paths.all fun p => !p.exceptional || p.events.all fun e =>
    match e with | .param .. | .raiseIn .. => true | _ => false)

/-- `Function.init(node, bdd)` / `Function.__cinit__(node)`: every path that does not raise
takes exactly one reference, on the parameter, and gives none back; a raising path takes none -/
def initOk (m : CMethod) : Bool :=
  !m.paths.isEmpty &&
  m.paths.any (fun p => !endsInRaise p.events) &&
  m.paths.all fun p =>
    match p.events with
    | .param x _ :: es =>
      countDerefAll es == 0 &&
      (if endsInRaise es then countRefAll es == 0
       else countRef x es == 1 && countRefAll es == 1 && es.all fun e =>
         match e with | .ref _ fn => isRefFn fn | _ => true)
    | _ => false

/-! #### the counter `_ref` of a CUDD handle

`dd.cudd.Function` / `dd.cudd_zdd.Function` carry `cdef public int _ref`, documented as a lower
bound on the reference count of the node; the wrappers maintain it as THE NUMBER OF LIBRARY
REFERENCES THE HANDLE OWNS: `init` sets it to 1 and takes one, `incref` adds one and takes one,
`decref` subtracts one and gives one back, `__dealloc__` gives back one unless the counter is 0.
The invariant is checked per path: the change of the counter equals the references taken minus
the references given back; the counter is never decremented unless the path conditions imply
that it is positive; `__dealloc__` gives nothing back only where they imply that it is 0.

The value of the counter is followed as an interval `[lo, hi]` (unknown ends = `none`) refined
by the path conditions `h._ref <rel> k`; a path with contradictory conditions cannot be taken. -/

structure FieldSt where
  lo : Option Int := none
  hi : Option Int := none
  delta : Int := 0
  handle : Option String := none
deriving Repr, Inhabited

def FieldSt.feasible (f : FieldSt) : Bool :=
  match f.lo, f.hi with
  | some a, some b => decide (a ≤ b)
  | _, _ => true

def FieldSt.atMost (f : FieldSt) (k : Int) : FieldSt :=
  { f with hi := match f.hi with | none => some k | some b => some (if b ≤ k then b else k) }

def FieldSt.atLeast (f : FieldSt) (k : Int) : FieldSt :=
  { f with lo := match f.lo with | none => some k | some a => some (if a ≥ k then a else k) }

def FieldSt.notEq (f : FieldSt) (k : Int) : FieldSt :=
  let f1 := if f.lo == some k then { f with lo := some (k + 1) } else f
  if f1.hi == some k then { f1 with hi := some (k - 1) } else f1

/-- the interval after assuming `value <rel> k` (`holds`) or its negation; `none`: unknown relation -/
def FieldSt.assume (f : FieldSt) (rel : String) (k : Int) (holds : Bool) : Option FieldSt :=
  match rel, holds with
  | "==", true | "!=", false => some ((f.atMost k).atLeast k)
  | "==", false | "!=", true => some (f.notEq k)
  | "<", true | ">=", false => some (f.atMost (k - 1))
  | "<", false | ">=", true => some (f.atLeast k)
  | "<=", true | ">", false => some (f.atMost k)
  | "<=", false | ">", true => some (f.atLeast (k + 1))
  | _, _ => none

inductive FieldVerdict
  | infeasible
  | bad (why : String)
  | done (f : FieldSt)
deriving Repr, Inhabited

def FieldSt.sameHandle (f : FieldSt) (h : String) : Bool :=
  match f.handle with
  | none => true
  | some g => g == h

def fieldRun : FieldSt → List CEv → FieldVerdict
  | f, [] => .done f
  | f, ev :: rest =>
    match ev with
    | .fieldTest h rel k holds =>
      if !f.sameHandle h then .bad "the counters of two handles on one path" else
      match f.assume rel k holds with
      | none => .bad ("unknown relation " ++ rel)
      | some f' => if f'.feasible then fieldRun { f' with handle := some h } rest else .infeasible
    | .fieldAdd h k =>
      if !f.sameHandle h then .bad "the counters of two handles on one path" else
      -- a decrement needs path conditions that make the counter large enough
      if k < 0 && !(match f.lo with | some a => decide (a + k ≥ 0) | none => false) then
        .bad "the counter is decremented where it is not known to be positive" else
      fieldRun { lo := f.lo.map (· + k), hi := f.hi.map (· + k), delta := f.delta + k, handle := some h } rest
    | .fieldSet h k =>
      if !f.sameHandle h then .bad "the counters of two handles on one path" else
      match f.lo, f.hi with
      | some a, some b =>
        if a != b then .bad "the counter is overwritten where its value is not known" else
        fieldRun { lo := some k, hi := some k, delta := f.delta + (k - a), handle := some h } rest
      | _, _ => .bad "the counter is overwritten where its value is not known"
    | _ => fieldRun f rest

def netRefs (es : List CEv) : Int := (countRefAll es : Int) - (countDerefAll es : Int)

def CEv.isFieldEv : CEv → Bool
  | .fieldAdd .. | .fieldSet .. | .fieldTest .. => true
  | _ => false

def CEv.isFieldWrite : CEv → Bool
  | .fieldAdd .. | .fieldSet .. => true
  | _ => false

/-- the function works on a handle (`h.node`), not on a raw node (`_incref(u: DdRef)`) -/
def handleBased (role : CRole) (es : List CEv) : Bool :=
  role == .handleInit || role == .handleDealloc ||
  es.any fun e => match e with | .handleNode .. => true | _ => false

/-- One path of `init` / `__dealloc__` / `incref` / `decref` of a back end whose handles carry the
counter.  Documented exception: `decref(u, _direct=True)` gives a library reference back and
leaves the counter alone (`dd/_copy.py` uses it to hand a reference over to another handle). -/
def fieldPathOkA (assumeDirectDecrefHandsOver : Bool) (role : CRole) (es : List CEv) : Bool :=
  -- a fresh object: Cython zero-initialises the attribute
  let start : FieldSt := if role == .handleInit then { lo := some 0, hi := some 0 } else {}
  match fieldRun start es with
  | .infeasible => true
  | .bad _ => false
  | .done f =>
    (if handleBased role es then
       (if assumeDirectDecrefHandsOver && role == .refDec && hasGuard "_direct" true es then f.delta == 0
        else f.delta == netRefs es)
     else !es.any CEv.isFieldWrite) &&
    -- `__dealloc__` may keep everything only when the handle owns nothing
    (role != .handleDealloc || endsInRaise es || netRefs es != 0 || f.hi == some 0) &&
    -- after `init` the counter is known, and it is what was taken
    (role != .handleInit || endsInRaise es || (f.lo == some (netRefs es) && f.hi == some (netRefs es)))

/-- NAMED ASSUMPTION `directDecrefHandsOver`: whoever calls `decref(u, _direct=True)` gives back a
library reference that was taken OUTSIDE the counter of the handle `u` (by `incref` on another
handle of the same node), so the counter must stay as it is.  True of the only callers in the
package, `dd/_copy.py` `_load_json` (`Gen.cDirectDecrefUsers`, `directDecref_users`); for any other
caller the invariant "`_ref` = library references the handle owns" breaks.  Without the assumption
exactly the `_direct` paths of the two `decref` methods fail (`directDecref_only_exception`). -/
def assumeDirectDecref : Bool := true

def fieldPathOk (role : CRole) (es : List CEv) : Bool := fieldPathOkA assumeDirectDecref role es

def fieldMethodOkA (a : Bool) (hasField : Bool) (m : CMethod) : Bool :=
  if hasField then m.paths.all fun p => fieldPathOkA a m.role p.events
  else m.paths.all fun p => !p.events.any CEv.isFieldEv

def fieldMethodOk (hasField : Bool) (m : CMethod) : Bool := fieldMethodOkA assumeDirectDecref hasField m

/-- `Function.__dealloc__`: a path that does not raise gives back exactly one reference (on the
node attribute), or none — which `fieldPathOk` accepts only where the path conditions say that the
handle's counter is 0 (the reference was already given back through `decref`), and only in a
back end whose handles have the counter; never takes one -/
def deallocOk (hasField : Bool) (m : CMethod) : Bool :=
  !m.paths.isEmpty &&
  m.paths.any (fun p => !endsInRaise p.events && countDerefAll p.events == 1) &&
  m.paths.all fun p =>
    countRefAll p.events == 0 &&
    (p.events.all fun e => match e with | .deref _ fn => isDerefFn fn | _ => true) &&
    (endsInRaise p.events && countDerefAll p.events == 0 ||
     !endsInRaise p.events &&
       (countDerefAll p.events == 1 || countDerefAll p.events == 0 && hasField))

/-- `incref` / `decref` / `_incref` / `_decref`: the explicit counters; each path that does not
raise moves exactly one reference in the direction the name says -/
def refApiOk (inc : Bool) (m : CMethod) : Bool :=
  !m.paths.isEmpty &&
  m.paths.all fun p =>
    (p.events.all fun e => match e with
      | .ref _ fn => isRefFn fn | .deref _ fn => isDerefFn fn | _ => true) &&
    (if endsInRaise p.events then countRefAll p.events == 0 && countDerefAll p.events == 0
     else if inc then countRefAll p.events == 1 && countDerefAll p.events == 0
     else countRefAll p.events == 0 && countDerefAll p.events == 1)

def CEv.isContEv : CEv → Bool
  | .alloc .. | .cnew .. | .cparam .. | .store .. | .load .. | .passC .. | .derefAll .. | .free ..
  | .refNonPos .. | .setField .. | .fillBegin .. | .fillEnd .. | .handleDrop .. | .nullInit ..
  | .derefNonNull .. => true
  | _ => false

/-- the functions with a special role keep no reference in a container -/
def noContEvents (m : CMethod) : Bool :=
  m.paths.all fun p => p.events.all fun e => !e.isContEv

/-- `hasField`: the handles of the back end carry the counter `_ref` (`Gen.cRefFieldBackends`) -/
def methodOkF (hasField : Bool) (loc : List String) (m : CMethod) : Bool :=
  match m.role with
  | .plain => m.paths.all fun p => p.exceptional || pathBalanced loc m p
  | .wrapFn => wrapFnOk m && noContEvents m && fieldMethodOk false m
  | .handleInit => initOk m && noContEvents m && fieldMethodOk hasField m
  | .handleDealloc => deallocOk hasField m && noContEvents m && fieldMethodOk hasField m
  | .refInc => refApiOk true m && noContEvents m && fieldMethodOk hasField m
  | .refDec => refApiOk false m && noContEvents m && fieldMethodOk hasField m

def methodOk (loc : List String) (m : CMethod) : Bool := methodOkF false loc m

end DD
