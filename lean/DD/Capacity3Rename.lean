/-
  DD.Capacity3Rename — `_copy_bdd`, `BDD.rename` (= `let` with names), `copy_bdd(u, from, to)`
  over any `find_or_add` and nested `ite`, and the instances `max_nodes = cap` (the capacity is
  the TARGET manager's).
-/
import DD.Capacity3Compose
open Std

namespace DD

def copyBddFG (foa iteX : Int → Int → Int → M Int) (src : Option Tbl) (levelMap : List (Nat × Nat)) :
    Nat → Int → HashMap Nat Int → M (Int × HashMap Nat Int)
  | 0, _, _ => fun m => (.error .fuel, m)
  | fu+1, u, cache => fun m =>
    if u.natAbs = 1 then (.ok (u, cache), m) else
    match cache[u.natAbs]? with
    | some r =>
      if ¬ 0 < r then (.error .assertion, m) else
      (.ok ((if u < 0 then -r else r), cache), m)
    | none =>
      match (src.getD m.tbl).succ[u.natAbs]? with
      | none => (.error .key, m)
      | some n =>
        if n.lo = 0 ∨ n.hi = 0 then (.error .assertion, m) else
        match copyBddFG foa iteX src levelMap fu n.lo cache m with
        | (.error e, m1) => (.error e, m1)
        | (.ok (p, cache), m1) =>
          match copyBddFG foa iteX src levelMap fu n.hi cache m1 with
          | (.error e, m2) => (.error e, m2)
          | (.ok (q, cache), m2) =>
            if ¬ 0 < p * n.lo then (.error .assertion, m2) else
            if ¬ 0 < q then (.error .assertion, m2) else
            match levelMap.lookup n.lvl with
            | none => (.error .key, m2)
            | some jnew =>
              match foa jnew (-1) 1 m2 with
              | (.error e, m3) => (.error e, m3)
              | (.ok g, m3) =>
                match iteX g q p m3 with
                | (.error e, m4) => (.error e, m4)
                | (.ok r, m4) =>
                  if ¬ 0 < r then (.error .assertion, m4) else
                  (.ok ((if u < 0 then -r else r), cache.insert u.natAbs r), m4)

def renameBodyG (foa iteX : Int → Int → Int → M Int) (u : Int) (dvars : List (String × String)) : M Int :=
  fun m =>
  if !m.mem u then (.error .value, m) else
  if dvars.isEmpty then (.ok u, m) else
  match renameMap m.tbl dvars with
  | .error e => (.error e, m)
  | .ok lm =>
    match copyBddFG foa iteX none lm (m.nvars + 2) u {} m with
    | (.error e, m1) => (.error e, m1)
    | (.ok (r, _), m1) => (.ok r, m1)

def renameG (foa iteX : Int → Int → Int → M Int) (u : Int) (dvars : List (String × String)) : M Int :=
  tryToReorder (renameBodyG foa iteX u dvars)

def copyBddBodyG (foa iteX : Int → Int → Int → M Int) (src : Tbl) (u : Int) : M Int := fun m =>
  match copyBddFG foa iteX (some src) (copyMap src m.tbl) (src.nvars + 2) u {} m with
  | (.error e, m1) => (.error e, m1)
  | (.ok (r, _), m1) => (.ok r, m1)

def copyBddG (foa iteX : Int → Int → Int → M Int) (src : Tbl) (u : Int) : M Int :=
  tryToReorder (copyBddBodyG foa iteX src u)

def renameCap (cap : Nat) : Int → List (String × String) → M Int := renameG (findOrAddCap cap) (iteCap cap)
def renameCapL (cap : Nat) : Int → List (String × String) → M Int := renameG (findOrAddCapL cap) (iteCapL cap)
def renameCapO (cap : Nat) : Int → List (String × String) → M Int := renameG (findOrAddCapO cap) (iteCapO cap)
def copyBddCap (cap : Nat) : Tbl → Int → M Int := copyBddG (findOrAddCap cap) (iteCap cap)
def copyBddCapL (cap : Nat) : Tbl → Int → M Int := copyBddG (findOrAddCapL cap) (iteCapL cap)
def copyBddCapO (cap : Nat) : Tbl → Int → M Int := copyBddG (findOrAddCapO cap) (iteCapO cap)

def letNamesG (ren : Int → List (String × String) → M Int) (d : List (String × String)) (u : Int) : M Int :=
  match d with
  | [] => pure u
  | d => ren u d

end DD
