/-
  DD.Auto — model of `dd/autoref.py`: a `dd.bdd.BDD` manager plus a registry of
  live `Function` objects (handles).

  * `Function.__init__`  = `wrapF` : membership test, `manager.incref(node)`, handle registered
  * `Function.__del__`   = `drop`  : handle unregistered (`node = None`), `manager.decref(node)` once
  * every `autoref.BDD` method = the `u in self` tests that the method performs,
    the core operation of `dd.bdd.BDD`, `_wrap` of the integer result
  * temporaries created inside methods (`__le__`, `succ`, …) are explicit
    `wrapF`/`drop` pairs, dropped in the order CPython 3.12 releases them.

  Handle ids are chosen by the caller (the harness); ids of temporaries are taken
  above every live id and are gone when the operation returns.

  `g = f` in Python creates no `Function`: there is nothing to model (the harness
  never needs two names for one object).  The methods that return *the operand
  itself* (`let({}, u)`, `copy(u, same manager)`) are modelled as returning an
  alias: no handle is created, no count changes.  "Copies of handles" that do
  create a second `Function` on the same node are `copy.copy(f)`
  (`Function.__copy__`), `_add_int(int(f))`, `copy_bdd(f, f.bdd)`, `~ ~f`,
  `succ/low/high` of a parent, `true`/`false`.  (`copy.deepcopy` and pickling of a
  `Function` clone the manager as well; they are out of scope.)
-/
import DD.Apply
open Std

namespace DD

/-- an `autoref.BDD` with its live `Function`s; `foreign` = live `Function`s of the
other managers of the session (read-only, filled in by the driver; no operation
changes it and no invariant mentions it) -/
structure AMgr where
  m : Mgr := {}
  handles : TreeMap Nat Int := {}
  foreign : TreeMap Nat Int := {}

instance : Inhabited AMgr := ⟨{}⟩

/-- the model monad of the autoref layer (state persists on error) -/
def AM (α : Type) := AMgr → Except Err α × AMgr

namespace AM
@[inline] def pure' (x : α) : AM α := fun a => (.ok x, a)
@[inline] def bind' (x : AM α) (f : α → AM β) : AM β := fun a =>
  match x a with
  | (.ok v, a') => f v a'
  | (.error e, a') => (.error e, a')
instance : Monad AM where
  pure := pure'
  bind := bind'
@[inline] def throw (e : Err) : AM α := fun a => (.error e, a)
@[inline] def get : AM AMgr := fun a => (.ok a, a)
/-- `if not b: raise e` -/
@[inline] def check (b : Bool) (e : Err) : AM Unit := if b then pure' () else throw e
/-- run a core operation on the wrapped manager (`self._bdd.<op>(...)`) -/
@[inline] def liftM (x : M α) : AM α := fun a =>
  match x a.m with
  | (r, m') => (r, { a with m := m' })
/-- a pure read of the wrapped manager -/
@[inline] def liftE (x : Mgr → Except Err α) : AM α := fun a => (x a.m, a)
/-- run `cleanup` whatever the outcome of `x` (values popped from the Python
frame when it is left normally or by an exception) -/
@[inline] def finally' (x : AM α) (cleanup : AM Unit) : AM α := fun a =>
  match x a with
  | (r, a') => (r, (cleanup a').2)
/-- run `cleanup` only when `x` raises -/
@[inline] def onErr (x : AM α) (cleanup : AM Unit) : AM α := fun a =>
  match x a with
  | (.ok v, a') => (.ok v, a')
  | (.error e, a') => (.error e, (cleanup a').2)
end AM

/-! ### handles -/

/-- `Function(u, bdd)`: `if node not in bdd._bdd: raise ValueError`, `manager.incref(node)` -/
def wrapF (h : Nat) (u : Int) : AM Unit := fun a =>
  if !a.m.mem u then (.error .value, a) else
  match incref u a.m with
  | (.ok _, m') => (.ok (), { a with m := m', handles := a.handles.insert h u })
  | (.error e, m') => (.error e, { a with m := m' })

/-- `BDD._wrap(u)`: the same test, then `Function(u, self)` -/
def wrap (h : Nat) (u : Int) : AM Unit := fun a =>
  if !a.m.mem u then (.error .value, a) else wrapF h u a

/-- `Function.__del__`: `node = self.node; self.node = None; self.manager.decref(node)`.
An exception inside `__del__` is not propagated by CPython. -/
def drop (h : Nat) : AM Unit := fun a =>
  match a.handles[h]? with
  | none => (.error .other, a)
  | some u => (.ok (), { a with m := (decref u a.m).2, handles := a.handles.erase h })

/-- an id above every live handle of the session (for temporaries) -/
def freshH : AM Nat := fun a =>
  let k1 := match a.handles.maxKey? with | some k => k + 1 | none => 0
  let k2 := match a.foreign.maxKey? with | some k => k + 1 | none => 0
  (.ok (max k1 k2), a)

/-- `u.node` without any test (`low.node` in `find_or_add`, values of `let`, …) -/
def nodeAny (h : Nat) : AM Int := fun a =>
  match a.handles[h]? with
  | some u => (.ok u, a)
  | none =>
    match a.foreign[h]? with
    | some u => (.ok u, a)
    | none => (.error .other, a)

/-- `u.node` of a `Function` that the harness promises to be one of this manager
(`self` of a `Function` method) -/
def nodeOwn (h : Nat) : AM Int := fun a =>
  match a.handles[h]? with
  | some u => (.ok u, a)
  | none => (.error .other, a)

/-- `if self.bdd is not other.bdd: raise ValueError`, then `other.node` -/
def nodeSame (h : Nat) : AM Int := fun a =>
  match a.handles[h]? with
  | some u => (.ok u, a)
  | none =>
    match a.foreign[h]? with
    | some _ => (.error .value, a)
    | none => (.error .other, a)

/-- `if u not in self: raise ValueError(u)` (`BDD.__contains__`: `self is not u.bdd`
raises `ValueError` as well), then `u.node` -/
def nodeIn (h : Nat) : AM Int := do
  let u ← nodeSame h
  let a ← AM.get
  AM.check (a.m.mem u) .value
  return u

/-- an optional operand -/
def optNode (f : Nat → AM Int) : Option Nat → AM (Option Int)
  | none => pure none
  | some h => do let u ← f h; pure (some u)

/-- `r = self._bdd.<op>(...); return self._wrap(r)` -/
def wrapResult (h : Nat) (core : M Int) : AM Int := do
  let r ← AM.liftM core
  wrap h r
  return r

/-! ### `autoref.BDD` methods -/

def aVar (name : String) (h : Nat) : AM Int := wrapResult h (var name)

/-- the properties `true` / `false` -/
def aConst (b : Bool) (h : Nat) : AM Int := wrapResult h (pure (if b then 1 else -1))

def aApply (op : String) (hu : Nat) (hv hw : Option Nat) (h : Nat) : AM Int := do
  let u ← nodeIn hu
  AM.check (!(hv.isNone && hw.isSome)) .value
  let v ← optNode nodeIn hv
  let w ← optNode nodeIn hw
  wrapResult h (apply op u v w)

def aIte (hg hu hv : Nat) (h : Nat) : AM Int := do
  let g ← nodeIn hg
  let u ← nodeIn hu
  let v ← nodeIn hv
  wrapResult h (ite g u v)

/-- argument of `autoref.BDD.let` (homogeneous dictionaries) -/
inductive ALetArg
  | bools (d : List (Key × Bool))
  | funs (d : List (String × Nat))
  | names (d : List (String × String))
deriving Inhabited

def ALetArg.isEmpty : ALetArg → Bool
  | .bools d => d.isEmpty
  | .funs d => d.isEmpty
  | .names d => d.isEmpty

/-- `{var: node_of(value) for var, value in definitions.items()}`: no test of the manager
the values belong to -/
def nodesAny : List (String × Nat) → AM (List (String × Int))
  | [] => pure []
  | (k, hv) :: rest => do
    let v ← nodeAny hv
    let r ← nodesAny rest
    pure ((k, v) :: r)

def aLetArgs : ALetArg → AM LetArg
  | .bools d => pure (.bools d)
  | .names d => pure (.names d)
  | .funs d => do let l ← nodesAny d; pure (.refs l)

/-- `BDD.let(definitions, u)`; the flag says that the operand itself is returned
(`not definitions`): no new `Function` -/
def aLet (d : ALetArg) (hu : Nat) (h : Nat) : AM (Int × Bool) := do
  let u ← nodeIn hu
  if d.isEmpty then pure (u, true) else do
    let d' ← aLetArgs d
    let r ← wrapResult h (letOp d' u)
    pure (r, false)

def aQuantify (hu : Nat) (qvars : List Key) (forall_ : Bool) (h : Nat) : AM Int := do
  let u ← nodeIn hu
  wrapResult h (quantify u qvars forall_)

def aCube (dvars : List (String × Bool)) (h : Nat) : AM Int := wrapResult h (cube dvars)

/-- `find_or_add(var, low, high)`: no membership tests of its own -/
def aFindOrAdd (var : String) (hlow hhigh : Nat) (h : Nat) : AM Int := do
  let level ← AM.liftM (levelOfVar var)
  let lo ← nodeAny hlow
  let hi ← nodeAny hhigh
  wrapResult h (findOrAdd level lo hi)

/-- `dd.bdd.BDD._add_int(i)` -/
def addIntA (i : Int) : M Int := do
  let m ← M.get
  if !m.mem i then M.throw .value
  return i

def aAddInt (i : Int) (h : Nat) : AM Int := wrapResult h (addIntA i)

def aImage (pre : Bool) (ht hs : Nat) (rn : List (Key × Key)) (qvars : List Key) (forall_ : Bool)
    (h : Nat) : AM Int := do
  let t ← nodeOwn ht
  let s ← nodeSame hs
  wrapResult h (if pre then preimage t s rn qvars forall_ else image t s rn qvars forall_)

/-- module-level `copy_bdd(u, target)` with `target` the manager of `u` itself:
`_bdd.copy_bdd` returns `u.node`, which is wrapped in a *new* `Function` -/
def aCopyBddSame (hu : Nat) (h : Nat) : AM Int := do
  let u ← nodeOwn hu
  wrapResult h (pure u)

/-! read-only methods -/

def aContains (hu : Nat) : AM Bool := do
  let u ← nodeSame hu
  let a ← AM.get
  return a.m.mem u

def aCount (hu : Nat) (n : Option Int) : AM Nat := do
  let u ← nodeIn hu
  AM.liftE fun m => count m.tbl u n

def aSupport (hu : Nat) : AM (List String) := do
  let u ← nodeIn hu
  AM.liftE fun m => support m.tbl u

def aSupportLevels (hu : Nat) : AM (List Nat) := do
  let u ← nodeIn hu
  AM.liftE fun m => supportLevels m.tbl u

def aPickIter (hu : Nat) (care : Option (List String)) : AM (List (List (String × Bool))) := do
  let u ← nodeIn hu
  AM.liftE fun m => pickIter m.tbl u care

def aToExpr (hu : Nat) : AM String := do
  let u ← nodeIn hu
  AM.liftE fun m => toExpr m.tbl u

/-- `dd.bdd.BDD.succ(u)`: `self._succ[abs(u)]` -/
def succOf (t : Tbl) (u : Int) : Except Err (Nat × Option (Int × Int)) :=
  if u.natAbs = 1 then .ok (t.nvars, none) else
  match t.succ[u.natAbs]? with
  | none => .error .key
  | some n => .ok (n.lvl, some (n.lo, n.hi))

/-- `wrap(v), wrap(w)` of `BDD.succ`: the first wrapper dies when the second raises -/
def aSuccWrap (h1 h2 : Nat) (v w : Int) : AM Unit := do
  wrap h1 v
  AM.onErr (wrap h2 w) (drop h1)

/-- `BDD.succ(u)`: `(i, wrap(v), wrap(w))`; no membership test on `u` -/
def aSucc (hu : Nat) (h1 h2 : Nat) : AM (Nat × Option (Int × Int)) := do
  let u ← nodeAny hu
  let p ← AM.liftE fun m => succOf m.tbl u
  match p.2 with
  | none => pure (p.1, none)
  | some (v, w) => do
    aSuccWrap h1 h2 v w
    pure (p.1, some (v, w))

def aIncref (hu : Nat) : AM Unit := do
  let u ← nodeAny hu
  AM.liftM (incref u)

def aDecref (hu : Nat) : AM Unit := do
  let u ← nodeAny hu
  AM.liftM (decref u)

def aCollectGarbage : AM Unit := AM.liftM (collectGarbage none)
def aReorder (order : Option (List (String × Int))) : AM Unit := AM.liftM (reorder order)
def aConfigure (r : Option Bool) : AM Bool := AM.liftM (configure r)
def aDeclare (names : List String) : AM Unit := AM.liftM (declare names)
def aAddVar (name : String) (level : Option Int) : AM Nat := AM.liftM (addVar name level)

/-! ### `Function` methods -/

/-- `Function._apply(op, other)`: no membership test; `Function(u, self.bdd)` -/
def fApply (op : String) (hs : Nat) (ho : Option Nat) (h : Nat) : AM Int := do
  let s ← nodeOwn hs
  let o ← optNode nodeSame ho
  let r ← AM.liftM (apply op s o none)
  wrapF h r
  return r

/-- `Function.__copy__` (`copy.copy(f)`): `Function(self.node, self.bdd)` — a new
`Function` on the same node, with its own reference -/
def fCopy (hs : Nat) (h : Nat) : AM Int := do
  let s ← nodeOwn hs
  wrapF h s
  pure s

/-- `Function.__eq__` (no temporaries) -/
def fEq (hs ho : Nat) : AM Bool := do
  let s ← nodeOwn hs
  let o ← nodeSame ho
  return s == o

/-- `Function.__ne__`: the manager test, then `not (self == other)` -/
def fNe (hs ho : Nat) : AM Bool := do
  let _ ← nodeSame ho
  let r ← fEq hs ho
  return !r

/-- `other | t1` inside `__le__`: `other._apply('or', t1)` → the `Function` `t2` -/
def fLeOr (ho : Nat) (n1 : Int) (t2 : Nat) : AM Int := do
  let o ← nodeSame ho
  let n2 ← AM.liftM (apply "or" o (some n1) none)
  wrapF t2 n2
  pure n2

/-- `Function.__le__`: `(other | ~ self) == self.bdd.true`.
CPython 3.12: `t1 = ~self`; `t2 = other | t1`; `t1` released when the binary
operation has been evaluated (or has raised); `t3 = self.bdd.true`; comparison;
`t2` released, then `t3`. -/
def fLe (hs ho : Nat) : AM Bool := do
  let s ← nodeOwn hs
  let t1 ← freshH
  let n1 ← AM.liftM (apply "not" s none none)
  wrapF t1 n1
  let t2 ← freshH
  let n2 ← AM.finally' (fLeOr ho n1 t2) (drop t1)
  let t3 ← freshH
  AM.onErr (wrap t3 1) (drop t2)
  drop t2
  drop t3
  return n2 == 1

/-- an operand of a comparison that is not a `Function`: `None`, or anything else (an `int`, a
`str`, a `Function` of another class) -/
inductive AOther
  | none_
  | other
deriving Repr, DecidableEq, Inhabited

/-- `f == x`, `f != x`, `f <= x`, `f < x` with `x` not a `Function`: `== None` is `False`, `!= None`
is `True` (`if other is None`), everything else `raise NotImplementedError` (`<=`, `<` also for
`None`).  Nothing changes. -/
def fCmpOther (op : String) (hs : Nat) (x : AOther) : AM Bool := do
  let _ ← nodeOwn hs
  if op == "eq" && x == .none_ then pure false
  else if op == "ne" && x == .none_ then pure true
  else AM.throw .notImplemented

/-- `f ^ g`: `dd.autoref.Function` defines no `__xor__` (nor `__rxor__`), so the interpreter raises
`TypeError`; nothing changes (`bdd.apply('xor', f, g)` is the way) -/
def fXor (hs ho : Nat) : AM Int := do
  let _ ← nodeOwn hs
  let _ ← nodeAny ho
  AM.throw .type

/-- `Function.__lt__`: `self <= other and self != other` -/
def fLt (hs ho : Nat) : AM Bool := do
  let le ← fLe hs ho
  if le then fNe hs ho else pure false

/-- `Function.low` / `Function.high`: the stored child, not adjusted for the sign of `self` -/
def fChild (high : Bool) (hs : Nat) (h : Nat) : AM (Option Int) := do
  let s ← nodeOwn hs
  let (_, c) ← AM.liftE fun m => succOf m.tbl s
  match c with
  | none => pure none
  | some (v, w) => do
    wrapF h (if high then w else v)
    pure (some (if high then w else v))

def fLevel (hs : Nat) : AM Nat := do
  let s ← nodeOwn hs
  let (i, _) ← AM.liftE fun m => succOf m.tbl s
  return i

/-- `Function.var` -/
def fVar (hs : Nat) : AM (Option String) := do
  let s ← nodeOwn hs
  let (i, c) ← AM.liftE fun m => succOf m.tbl s
  match c with
  | none => return none
  | some _ =>
    let v ← AM.liftM (varAtLevel i)
    return some v

def fRef (hs : Nat) : AM Nat := do
  let s ← nodeOwn hs
  AM.liftM (refOf s)

/-- `Function.__len__` / `dag_size` -/
def fLen (hs : Nat) : AM Nat := do
  let s ← nodeOwn hs
  let d ← AM.liftE fun m => descendants m.tbl [s]
  return d.length

def fSupport (hs : Nat) : AM (List String) := do
  let s ← nodeOwn hs
  AM.liftE fun m => support m.tbl s

def fToExpr (hs : Nat) : AM String := do
  let s ← nodeOwn hs
  AM.liftE fun m => toExpr m.tbl s

/-! ### shutdown of the manager: `dd.bdd.BDD.__del__` -/

/-- `if self._ref[1] > 0: self.decref(1)`; `self.collect_garbage()`;
`AssertionError` when a count is nonzero -/
def shutdown : M Unit := do
  let c ← refOf 1
  (if c > 0 then decref 1 else pure ())
  collectGarbage none
  let m ← M.get
  M.assert (!(m.ref.toList.any (fun (kv : Nat × Nat) => kv.2 != 0)))

/-! ### two managers: `BDD.copy(u, other)`, module `copy_bdd(u, target)`, `copy_vars` -/

/-- `BDD.copy(u, other)` with `other is not self`; runs in `dst`; the source is only read.
`self is other` is the alias case, handled by the driver (`aCopySame`). -/
def aCopyTo (src : AMgr) (hu : Nat) (h : Nat) : AM Int := fun dst =>
  match nodeIn hu src with
  | (.error e, _) => (.error e, dst)
  | (.ok u, _) => wrapResult h (copyBdd src.m.tbl u) dst

/-- `BDD.copy(u, self)`: `u not in self` test, then the operand itself -/
def aCopySame (hu : Nat) : AM Int := nodeIn hu

/-- module `copy_bdd(u, target)` with another target: no test on `u` -/
def aCopyBddTo (src : AMgr) (hu : Nat) (h : Nat) : AM Int := fun dst =>
  match nodeOwn hu src with
  | (.error e, _) => (.error e, dst)
  | (.ok u, _) => wrapResult h (copyBdd src.m.tbl u) dst

/-- `copy_vars(source, target)`: `target.add_var(var, level)` for `var in source.vars`
(dict order = order of declaration, passed in by the driver as `names`) -/
def copyVarStep (src : Tbl) (v : String) : M Unit :=
  match src.vars[v]? with
  | none => M.throw .value
  | some l => fun m => match addVar v (some (l : Int)) m with
    | (.ok _, m') => (.ok (), m')
    | (.error e, m') => (.error e, m')

def copyVarsCore (src : Tbl) (names : List String) : M Unit := do
  let dflt := src.vars.keys
  if !(names.length == dflt.length && names.all (dflt.contains ·)) then M.throw .sched
  for v in names do
    copyVarStep src v

def aCopyVars (src : Tbl) (names : List String) : AM Unit := AM.liftM (copyVarsCore src names)

end DD
