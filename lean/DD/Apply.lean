/-
  DD.Apply — `BDD.apply` as an interpreter of the table regenerated from the
  current source (`Gen.applyTable`), `assert_operator_arity`, `cube`.
-/
import DD.Ops
import Generated.Tables
open Std

namespace DD

/-- `_utils.assert_operator_arity(op, v, w, 'bdd')` over the regenerated vocabulary -/
def assertOperatorArity (op : String) (v w : Option Int) : Except Err Unit :=
  if !Gen.allOps.contains op then .error .value else
  if Gen.unaryOps.contains op then
    (if v.isSome then .error .value else if w.isSome then .error .value else .ok ())
  else if Gen.binaryOps.contains op then
    (if v.isNone then .error .value else if w.isSome then .error .value else .ok ())
  else if Gen.ternaryOps.contains op then
    (if v.isNone then .error .value else if w.isNone then .error .value else .ok ())
  else .ok ()

def atomVal (u v w : Int) : Atom → Except Err Int
  | .u => .ok u
  | .v => .ok v
  | .w => .ok w
  | .nu => .ok (-u)
  | .nv => .ok (-v)
  | .nw => .ok (-w)
  | .one => .ok 1
  | .mone => .ok (-1)
  | .bad => .error .other

def findRow (op : String) : List ApplyRow → Option ApplyRow
  | [] => none
  | r :: rest => if r.aliases.contains op then some r else findRow op rest

/-- `BDD.apply(op, u, v, w)` -/
def apply (op : String) (u : Int) (v w : Option Int) : M Int := do
  liftE (assertOperatorArity op v w)
  let m ← M.get
  if !m.mem u then M.throw .value
  match v with
  | some v => if !m.mem v then M.throw .value
  | none => pure ()
  match w with
  | some w => if !m.mem w then M.throw .value
  | none => pure ()
  match findRow op Gen.applyTable with
  | none => M.throw .value
  | some row =>
    match row.templ with
    | .neg => return -u
    | .ite a b c =>
      -- the `elif v is None` / `elif w is None` guards
      let vv ← M.ofOption .value v
      let needsW := a = .w || a = .nw || b = .w || b = .nw || c = .w || c = .nw
      let ww ← (if needsW then M.ofOption .value w else pure (w.getD 0))
      let a ← liftE (atomVal u vv ww a)
      let b ← liftE (atomVal u vv ww b)
      let c ← liftE (atomVal u vv ww c)
      ite a b c
    | .quant fa frm body =>
      let vv ← M.ofOption .value v
      let f ← liftE (atomVal u vv 0 frm)
      let b ← liftE (atomVal u vv 0 body)
      let q ← liftE (support m.tbl f)
      quantify b (q.map Key.name) fa
    | .notImpl => M.throw .notImplemented
    | .bad => M.throw .other

/-- `BDD.cube(dvars)` -/
def cube (dvars : List (String × Bool)) : M Int := tryToReorder do
  let mut r : Int := 1
  for (name, val) in dvars do
    let u ← var name
    let u := if val then u else -u
    r ← apply "and" u (some r) none
  return r

end DD
