/-
  DD.Apply — `BDD.apply` as an interpreter of the table regenerated from the
  current source (`Gen.applyTable`), `assert_operator_arity`, `cube`.
-/
import DD.Ops
import Generated.Tables
open Std

namespace DD

/-- `_utils.assert_operator_arity(op, v, w, 'bdd')` over the regenerated vocabulary -/
def assertOperatorArity (op : String) (v w : Option Int) : Except Err Unit :=
  if !Gen.allOps.contains op then .error .value else
  if Gen.unaryOps.contains op then
    (if v.isSome then .error .value else if w.isSome then .error .value else .ok ())
  else if Gen.binaryOps.contains op then
    (if v.isNone then .error .value else if w.isSome then .error .value else .ok ())
  else if Gen.ternaryOps.contains op then
    (if v.isNone then .error .value else if w.isNone then .error .value else .ok ())
  else .ok ()

def atomVal (u v w : Int) : Atom → Except Err Int
  | .u => .ok u
  | .v => .ok v
  | .w => .ok w
  | .nu => .ok (-u)
  | .nv => .ok (-v)
  | .nw => .ok (-w)
  | .one => .ok 1
  | .mone => .ok (-1)
  | .bad => .error .other

def findRow (op : String) : List ApplyRow → Option ApplyRow
  | [] => none
  | r :: rest => if r.aliases.contains op then some r else findRow op rest

def atomUsesW : Atom → Bool
  | .w | .nw => true
  | _ => false

/-- `abs(x) not in self` for an optional operand -/
def optNotMem (m : Mgr) : Option Int → Bool
  | some x => !m.mem x
  | none => false

/-- `BDD.apply(op, u, v, w)`; written without `do` so that proofs can unfold it -/
def apply (op : String) (u : Int) (v w : Option Int) : M Int := fun m =>
  match assertOperatorArity op v w with
  | .error e => (.error e, m)
  | .ok _ =>
    if !m.mem u then (.error .value, m) else
    if optNotMem m v then (.error .value, m) else
    if optNotMem m w then (.error .value, m) else
    match findRow op Gen.applyTable with
    | none => (.error .value, m)
    | some row =>
      match row.templ with
      | .neg => (.ok (-u), m)
      | .ite a b c =>
        -- the `elif v is None` / `elif w is None` guards
        match v with
        | none => (.error .value, m)
        | some vv =>
          match (if atomUsesW a || atomUsesW b || atomUsesW c then w else some (w.getD 0)) with
          | none => (.error .value, m)
          | some ww =>
            match atomVal u vv ww a, atomVal u vv ww b, atomVal u vv ww c with
            | .ok a, .ok b, .ok c => ite a b c m
            | .error e, _, _ => (.error e, m)
            | _, .error e, _ => (.error e, m)
            | _, _, .error e => (.error e, m)
      | .quant fa frm body =>
        match v with
        | none => (.error .value, m)
        | some vv =>
          match atomVal u vv 0 frm, atomVal u vv 0 body with
          | .ok f, .ok b =>
            match support m.tbl f with
            | .error e => (.error e, m)
            | .ok q => quantify b (q.map Key.name) fa m
          | .error e, _ => (.error e, m)
          | _, .error e => (.error e, m)
      | .notImpl => (.error .notImplemented, m)
      | .bad => (.error .other, m)

/-- `BDD.cube(dvars)` -/
def cube (dvars : List (String × Bool)) : M Int := tryToReorder do
  let mut r : Int := 1
  for (name, val) in dvars do
    let u ← var name
    let u := if val then u else -u
    r ← apply "and" u (some r) none
  return r

end DD
