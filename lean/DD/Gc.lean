/-
  DD.Gc — `collect_garbage` (full and rooted).
  The Python worklist is a `set` popped in arbitrary order; the result does not
  depend on that order (proved in DDProofs), the model pops the list head.
-/
import DD.Core
open Std

namespace DD

/-- `self._ref[w]` with a *signed* key (used for the high edge in `collect_garbage`) -/
def refOfExact (w : Int) : M Nat := fun m =>
  if w < 0 then (.error .key, m) else
  match m.ref[w.toNat]? with
  | none => (.error .key, m)
  | some c => (.ok c, m)

def pushNew (l : List Nat) (u : Nat) : List Nat := if l.contains u then l else l ++ [u]

/-- one iteration of the `while unused:` loop for the popped node `u` -/
def gcStep (u : Nat) (work : List Nat) : M (List Nat) := do
  if u = 1 then M.throw .assertion
  let m ← M.get
  -- `i, v, w = self._succ.pop(u)`
  let n ← M.ofOption .key (m.tbl.succ[u]?)
  M.modify fun m => { m with tbl := { m.tbl with succ := m.tbl.succ.erase u } }
  -- `u_ = self._pred.pop((i, v, w))`
  let u' ← M.ofOption .key (m.pred[n.key]?)
  M.modify fun m => { m with pred := m.pred.erase n.key }
  -- `uref = self._ref.pop(u)`
  let uref ← M.ofOption .key (m.ref[u]?)
  M.modify fun m => { m with ref := m.ref.erase u, minFree := min u m.minFree }
  M.assert (u = u')
  M.assert (uref = 0)
  let m ← M.get
  M.assert (1 < m.minFree)
  decref n.lo
  decref n.hi
  let rv ← refOf n.lo
  let work := if rv = 0 && n.lo.natAbs ≠ 1 then pushNew work n.lo.natAbs else work
  let rw ← refOfExact n.hi
  let work := if rw = 0 && n.hi ≠ 1 then pushNew work n.hi.natAbs else work
  return work

def gcLoop : Nat → List Nat → M Unit
  | _, [] => pure ()
  | 0, _ :: _ => M.throw .fuel
  | f+1, u :: rest => do
    let work ← gcStep u rest
    gcLoop f work

/-- `not self._ref[abs(u)]` for every root, then `set(map(abs, ...))` minus the terminal -/
def unusedOf : List Int → M (List Nat)
  | [] => pure []
  | u :: rest => do
    let c ← refOf u
    let r ← unusedOf rest
    if c = 0 && u.natAbs ≠ 1 then return pushNew r u.natAbs else return r

/-- `collect_garbage(roots)`; `none` = scan every node -/
def collectGarbage (roots : Option (List Int) := none) : M Unit := do
  let m ← M.get
  let n := m.len
  let rs : List Int := match roots with
    | some r => r
    | none => m.ref.keys.map (fun (k : Nat) => (k : Int))
  let unused ← unusedOf rs
  gcLoop (m.tbl.succ.size + 1) unused
  M.modify fun m => { m with cache := {} }
  let m ← M.get
  M.assert (m.len ≤ n)

end DD
