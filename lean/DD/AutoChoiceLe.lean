/-
  DD.AutoChoiceLe — `Function.__le__` / `__lt__` of `dd.autoref` (DD.Auto: `fLe`, `fLt`) with the
  iteration orders of a reordering served inside `other | ~self` chosen by an oracle (`DD.Choice`).
-/
import DD.AutoChoice
open Std

namespace DD

/-- `other | t1` inside `__le__` under the choice `c` -/
def fLeOrC (c : Choice) (ho : Nat) (n1 : Int) (t2 : Nat) : AM (Int × List SchedItem) := do
  let o ← nodeSame ho
  let p ← AM.liftM (applyC c "or" o (some n1) none [])
  wrapF t2 p.1
  pure p

/-- what `__le__` does after `t2 = other | t1`: `t3 = self.bdd.true`, the comparison, the releases -/
def fLeTail (t2 : Nat) (n2 : Int) : AM Bool := do
  let t3 ← freshH
  AM.onErr (wrap t3 1) (drop t2)
  drop t2
  drop t3
  return n2 == 1

/-- `Function.__le__` under the choice `c` -/
def fLeC (c : Choice) (hs ho : Nat) : AM (Bool × List SchedItem) := do
  let s ← nodeOwn hs
  let t1 ← freshH
  let n1 ← AM.liftM (apply "not" s none none)
  wrapF t1 n1
  let t2 ← freshH
  let p ← AM.finally' (fLeOrC c ho n1 t2) (drop t1)
  let b ← fLeTail t2 p.1
  pure (b, p.2)

/-- `Function.__lt__` under the choice `c` -/
def fLtC (c : Choice) (hs ho : Nat) : AM (Bool × List SchedItem) := do
  let p ← fLeC c hs ho
  let b ← (if p.1 then fNe hs ho else pure false)
  pure (b, p.2)

end DD
