/-
  DD.MgrCopy — `BDD.__copy__` (`copy.copy(bdd)`): a NEW manager with the same variable order,
  node table, unique table, reference counts, `_min_free` and `roots`; the computed table of
  the copy starts EMPTY, dynamic reordering is not enabled in it, no context is open.
-/
import DD.Basic
open Std

namespace DD

/-- `_assert_valid_ordering(self.vars)` as run by the constructor `BDD(self.vars)` inside
`__copy__`: the levels are exactly `0 .. n-1` -/
def copyValidOrdering (t : Tbl) : Bool :=
  let n := t.vars.size
  let nums := t.vars.toList.map (·.2)
  (List.range n).all (fun i => nums.contains i) && nums.all (fun k => k < n)

/-- `BDD.__copy__`: the constructor re-declares the variables at their levels (same two maps),
then `_pred`, `_succ`, `_ref`, `_min_free`, `roots` are copied; `_ite_table`, `_last_len`,
`_reordering_context` are those of a fresh manager -/
def mgrCopy (m : Mgr) : Except Err Mgr :=
  if !copyValidOrdering m.tbl then .error .assertion else
  .ok { tbl := m.tbl, pred := m.pred, ref := m.ref, minFree := m.minFree, roots := m.roots }

end DD
