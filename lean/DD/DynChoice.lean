/-
  DD.DynChoice — the decorator `_try_to_reorder` with the iteration orders of the sifting between
  the two attempts CHOSEN by an oracle (`DD.Choice`, DD.OrderChoice) instead of read from a
  recorded schedule.  Same text as `DD.tryToReorder`, with `reorderC c none` in place of
  `reorder none`; returns the record of the orders that were picked.
-/
import DD.Apply
import DD.OrderChoice
open Std

namespace DD

/-- `_try_to_reorder` under the choice `c` -/
def tryToReorderC {α} (c : Choice) (f : M α) (log : List SchedItem) : M (α × List SchedItem) := do
  match ← withCtx f with
  | some a => return (a, log)
  | none =>
    M.modify fun m => { m with lastLen := none }
    let (_, log) ← reorderC c none log
    let m ← M.get
    let lenAfter := m.len
    fun m0 =>
      match withCtx f m0 with
      | (.ok none, m1) =>
        (.error .other, { m1 with lastLen := some (Gen.growthFactor * lenAfter) })
      | (.ok (some r), m1) =>
        (.ok (r, log), { m1 with lastLen := some (Gen.growthFactor * lenAfter) })
      | (.error e, m1) =>
        (.error e, { m1 with lastLen := some (Gen.growthFactor * lenAfter) })

/-- `BDD.apply(op, u, v, w)` under the choice `c`: the text of `DD.apply`, the decorated `ite` /
`quantify` it ends in replaced by their choice-driven versions -/
def applyC (c : Choice) (op : String) (u : Int) (v w : Option Int) (log : List SchedItem) :
    M (Int × List SchedItem) := fun m =>
  match assertOperatorArity op v w with
  | .error e => (.error e, m)
  | .ok _ =>
    if !m.mem u then (.error .value, m) else
    if optNotMem m v then (.error .value, m) else
    if optNotMem m w then (.error .value, m) else
    match findRow op Gen.applyTable with
    | none => (.error .value, m)
    | some row =>
      match row.templ with
      | .neg => (.ok (-u, log), m)
      | .ite a b c' =>
        match v with
        | none => (.error .value, m)
        | some vv =>
          match (if atomUsesW a || atomUsesW b || atomUsesW c' then w else some (w.getD 0)) with
          | none => (.error .value, m)
          | some ww =>
            match atomVal u vv ww a, atomVal u vv ww b, atomVal u vv ww c' with
            | .ok a, .ok b, .ok c' => tryToReorderC c (iteRaw a b c') log m
            | .error e, _, _ => (.error e, m)
            | _, .error e, _ => (.error e, m)
            | _, _, .error e => (.error e, m)
      | .quant fa frm body =>
        match v with
        | none => (.error .value, m)
        | some vv =>
          match atomVal u vv 0 frm, atomVal u vv 0 body with
          | .ok f, .ok b =>
            match support m.tbl f with
            | .error e => (.error e, m)
            | .ok q => tryToReorderC c (quantifyBody b (q.map Key.name) fa) log m
          | .error e, _ => (.error e, m)
          | _, .error e => (.error e, m)
      | .notImpl => (.error .notImplemented, m)
      | .bad => (.error .other, m)

/-- `BDD.let(definitions, u)` under the choice `c` -/
def letOpC (c : Choice) (d : LetArg) (u : Int) (log : List SchedItem) : M (Int × List SchedItem) :=
  match d with
  | .bools [] | .refs [] | .names [] => pure (u, log)
  | .bools d => tryToReorderC c (cofactorBody u d) log
  | .refs d => tryToReorderC c (composeBody u d) log
  | .names d => tryToReorderC c (renameBody u d) log

/-- module-level `image(...)` under the choice `c` -/
def imageC (c : Choice) (trans source : Int) (rn : List (Key × Key)) (qvars : List Key)
    (forall_ : Bool) (log : List SchedItem) : M (Int × List SchedItem) := fun m =>
  match qvarsByName m.tbl qvars with
  | .error e => (.error e, m)
  | .ok qn => tryToReorderC c (imageBody trans source (renameByName m.tbl rn) qn forall_) log m

/-- module-level `preimage(...)` under the choice `c` -/
def preimageC (c : Choice) (trans target : Int) (rn : List (Key × Key)) (qvars : List Key)
    (forall_ : Bool) (log : List SchedItem) : M (Int × List SchedItem) := fun m =>
  match qvarsByName m.tbl qvars with
  | .error e => (.error e, m)
  | .ok qn => tryToReorderC c (preimageBody trans target (renameByName m.tbl rn) qn forall_) log m

end DD
