/-
  DD.AutoChoiceMore — the copies between two `autoref` managers (DD.Auto: `BDD.copy(u, other)`,
  module `copy_bdd(u, target)`) with the iteration orders of a reordering served in the TARGET
  chosen by an oracle (`DD.Choice`).
-/
import DD.AutoChoice
open Std

namespace DD

def aCopyToC (c : Choice) (src : AMgr) (hu : Nat) (h : Nat) : AM (Int × List SchedItem) := fun dst =>
  match nodeIn hu src with
  | (.error e, _) => (.error e, dst)
  | (.ok u, _) => wrapResultC h (tryToReorderC c (copyBddBody src.m.tbl u) []) dst

def aCopyBddToC (c : Choice) (src : AMgr) (hu : Nat) (h : Nat) : AM (Int × List SchedItem) := fun dst =>
  match nodeOwn hu src with
  | (.error e, _) => (.error e, dst)
  | (.ok u, _) => wrapResultC h (tryToReorderC c (copyBddBody src.m.tbl u) []) dst

end DD
