/-
  DD.Capacity — the capacity `max_nodes` of `dd.bdd.BDD`, as a LAYER over DD.Core / DD.Dyn
  (the state `Mgr` and the existing functions are untouched; the capacity is a parameter).

  Python (`dd/bdd.py`):

      self.max_nodes = sys.maxsize                       # __init__
      ...
      # find_or_add, after the unique-table miss:
      u = self._min_free
      if u <= 1: raise AssertionError
      if u in self._succ: raise AssertionError
      self._pred[t] = u
      self._succ[u] = t
      self._ref[u] = 0
      try:
          self._min_free = self._next_free_int(u)
      except RuntimeError:                               # commit 9f1005b
          del self._pred[t]; del self._succ[u]; del self._ref[u]
          raise
      self.incref(v); self.incref(w)

      def _next_free_int(self, start):
          if start < 1: raise ValueError                 # unreachable: `u > 1` was asserted
          for i in range(start, self.max_nodes):
              if i not in self._succ: return i
          raise RuntimeError('full: ...')

  `max_nodes` is consulted NOWHERE else: `collect_garbage` lowers `_min_free` with
  `min(u, self._min_free)`, `swap` only goes through `find_or_add`, `__copy__` and the pickle
  of the manager copy the attribute.  Boundary: the node is stored at `u = _min_free` and the
  search runs over `range(u, max_nodes)` with `u` itself occupied, so the call is refused iff
  no integer in `(u, max_nodes)` is free — in particular whenever `max_nodes ≤ u + 1`; a
  manager can therefore never use the index `max_nodes - 1`.

  Three variants of what is left behind by a refusal, as one function `findOrAddCapWith`
  parametrised by the handler of the `except` clause:
    * `findOrAddCapLit`  — the code as it is: the three entries are deleted again (`erase`);
    * `findOrAddCapOld`  — the code before 9f1005b: nothing is undone (witness of what the
                            theorems detect);
    * `findOrAddCapCore` — the manager as it was (what `Lit` leaves, up to the representation of
                            the three dictionaries: `DD.findOrAddCapLit_same`); the recursive
                            layer is built on this one.
-/
import DD.Dyn
open Std

namespace DD

/-- `_next_free_int(start)` with `max_nodes = cap`: `for i in range(start, cap)`; `none` is the
`RuntimeError('full')`.  Same fuel convention as `nextFree` (fuel `size + 2` always suffices). -/
def nextFreeCap (s : TreeMap Nat Nd) (cap : Nat) : Nat → Nat → Option Nat
  | 0, i => if i < cap then some i else none
  | f+1, i =>
    if cap ≤ i then none else
    if i = 1 ∨ s.contains i then nextFreeCap s cap f (i+1) else some i

/-- `find_or_add(i, v, w)` without the reordering request, with `max_nodes = cap`;
`onFull m m1 t` is the state left by the `except RuntimeError` clause, given the manager `m` of
the call, the manager `m1` in which the node `t` has been stored at `m.minFree`. -/
def findOrAddCapWith (onFull : Mgr → Mgr → Nd → Mgr) (cap : Nat) (i : Nat) (v w : Int) : M Int :=
  fun m =>
  if m.nvars ≤ i then (.error .value, m) else
  if !m.mem v then (.error .value, m) else
  if !m.mem w then (.error .value, m) else
  let r : Int := if w < 0 then -1 else 1
  let v' := if w < 0 then -v else v
  let w' := if w < 0 then -w else w
  if v' = w' then (.ok (r * v'), m) else
  let t : Nd := ⟨i, v', w'⟩
  match m.pred[t.key]? with
  | some u => (.ok (r * (u : Int)), m)
  | none =>
    let u := m.minFree
    if u ≤ 1 then (.error .assertion, m) else
    if m.tbl.succ.contains u then (.error .assertion, m) else
    -- `self._pred[t] = u; self._succ[u] = t; self._ref[u] = 0`
    let succ' := m.tbl.succ.insert u t
    let m1 : Mgr := { m with
      tbl := { m.tbl with succ := succ' }
      pred := m.pred.insert t.key u
      ref := m.ref.insert u 0 }
    -- `try: self._min_free = self._next_free_int(u)`
    match nextFreeCap succ' cap (succ'.size + 2) u with
    | none => (.error .runtime, onFull m m1 t)
    | some mf =>
      let m1 : Mgr := { m1 with minFree := mf }
      match incref v' m1 with
      | (.error e, m2) => (.error e, m2)
      | (.ok _, m2) =>
        match incref w' m2 with
        | (.error e, m3) => (.error e, m3)
        | (.ok _, m3) => (.ok (r * (u : Int)), m3)

/-- `del self._pred[t]; del self._succ[u]; del self._ref[u]` (`u = m.minFree`, still the value
of `_min_free`: the assignment did not happen) -/
def undoStore (m m1 : Mgr) (t : Nd) : Mgr :=
  { m1 with
    tbl := { m1.tbl with succ := m1.tbl.succ.erase m.minFree }
    pred := m1.pred.erase t.key
    ref := m1.ref.erase m.minFree }

/-- the code as it is (commit 9f1005b): the stored node is deleted again -/
def findOrAddCapLit : Nat → Nat → Int → Int → M Int :=
  findOrAddCapWith undoStore

/-- the code BEFORE 9f1005b: the `RuntimeError` propagates with the node stored, its
successors not counted and `_min_free` naming the stored node -/
def findOrAddCapOld : Nat → Nat → Int → Int → M Int :=
  findOrAddCapWith (fun _ m1 _ => m1)

/-- the refusal leaves the manager of the call -/
def findOrAddCapCore : Nat → Nat → Int → Int → M Int :=
  findOrAddCapWith (fun m _ _ => m)

/-- `find_or_add(i, v, w)` for a level given as a Python int, over any of the variants
(`foa` = the part after the reordering request and the sign test of the level) -/
def findOrAddOver (foa : Nat → Int → Int → M Int) (i : Int) (v w : Int) : M Int := fun m =>
  match (if m.ctx then requestReordering m else (.ok (), m)) with
  | (.error e, m1) => (.error e, m1)
  | (.ok _, m1) =>
    if i < 0 then (.error .value, m1) else foa i.toNat v w m1

/-- `find_or_add` of a manager with `max_nodes = cap` -/
def findOrAddCap (cap : Nat) : Int → Int → Int → M Int := findOrAddOver (findOrAddCapCore cap)
def findOrAddCapL (cap : Nat) : Int → Int → Int → M Int := findOrAddOver (findOrAddCapLit cap)
def findOrAddCapO (cap : Nat) : Int → Int → Int → M Int := findOrAddOver (findOrAddCapOld cap)

/-- the last step of `_ite`: `self._ite_table[(g, u, v)] = w; return w` -/
def cachePut (g u v w : Int) : M Int := fun m3 =>
  (.ok w, { m3 with cache := m3.cache.insert (iteKey g u v) w })

/-- `_ite(g, u, v)` over any `find_or_add`: the text of `iteF` with the three calls in sequence
written with `M.bind'` (`iteG findOrAdd = iteF`: `DD.iteG_findOrAdd`) -/
def iteG (foa : Int → Int → Int → M Int) : Nat → Int → Int → Int → M Int
  | 0, _, _, _ => fun m => (.error .fuel, m)
  | f+1, g, u, v => fun m =>
    if g = 1 then (.ok u, m) else
    if g = -1 then (.ok v, m) else
    match m.cache[iteKey g u v]? with
    | some w => (.ok w, m)
    | none =>
      match m.tbl.levelOf? g, m.tbl.levelOf? u, m.tbl.levelOf? v with
      | some lg, some lu, some lv =>
        let z := min lg (min lu lv)
        match topCofactor m.tbl g z, topCofactor m.tbl u z, topCofactor m.tbl v z with
        | .ok (g0, g1), .ok (u0, u1), .ok (v0, v1) =>
          M.bind' (iteG foa f g0 u0 v0) (fun p =>
            M.bind' (iteG foa f g1 u1 v1) (fun q =>
              M.bind' (foa z p q) (cachePut g u v))) m
        | .error e, _, _ => (.error e, m)
        | _, .error e, _ => (.error e, m)
        | _, _, .error e => (.error e, m)
      | _, _, _ => (.error .key, m)

/-- `_ite` with the fuel the invariant makes sufficient, over any `find_or_add` -/
def iteRawG (foa : Int → Int → Int → M Int) (g u v : Int) : M Int := fun m =>
  iteG foa (m.nvars + 2) g u v m

/-- `_ite` of a manager with `max_nodes = cap` -/
def iteCapF (cap : Nat) : Nat → Int → Int → Int → M Int := iteG (findOrAddCap cap)
def iteCapRaw (cap : Nat) : Int → Int → Int → M Int := iteRawG (findOrAddCap cap)

/-- `BDD.ite` of a manager with `max_nodes = cap` -/
def iteCap (cap : Nat) (g u v : Int) : M Int := tryToReorder (iteCapRaw cap g u v)

/-- the body of `BDD.var` over any `find_or_add` -/
def varBodyG (foa : Int → Int → Int → M Int) (name : String) : M Int := fun m =>
  match m.tbl.vars[name]? with
  | none => (.error .value, m)
  | some j => foa (j : Int) (-1) 1 m

/-- `BDD.var` of a manager with `max_nodes = cap` -/
def varCap (cap : Nat) (name : String) : M Int := tryToReorder (varBodyG (findOrAddCap cap) name)

/-- the same three entry points on the LITERAL `find_or_add` (what the driver runs) -/
def iteCapL (cap : Nat) (g u v : Int) : M Int := tryToReorder (iteRawG (findOrAddCapL cap) g u v)
def varCapL (cap : Nat) (name : String) : M Int := tryToReorder (varBodyG (findOrAddCapL cap) name)
/-- and on the un-repaired one (driver op `*_old`, used to show what the check detects) -/
def iteCapO (cap : Nat) (g u v : Int) : M Int := tryToReorder (iteRawG (findOrAddCapO cap) g u v)
def varCapO (cap : Nat) (name : String) : M Int := tryToReorder (varBodyG (findOrAddCapO cap) name)

end DD

namespace DD

/-! ### `swap` over any `find_or_add`

`BDD.swap` reaches `find_or_add` in its third loop (`p = self.find_or_add(y, v0, w0)`,
`q = self.find_or_add(y, v1, w1)`), AFTER the unique-table entries of both levels were popped,
the nodes of level `y` moved up, and the children of the node being rebuilt decref'ed.  The text
below is `moveDepStep`, `moveDep`, `swapNodes`, `swapWith`, `swapBody`, `swap` of DD.Order with
`findOrAdd` abstracted (`swapG findOrAdd = swap`: `DD.swapG_findOrAdd`).  A `RuntimeError` of
`find_or_add` propagates from the middle of the rewrite: nothing in `swap` undoes the first two
loops (finding F22; `DD.swapCap_breaks_inv`). -/

def moveDepStepG (foa : Int → Int → Int → M Int) (x y : Nat) (u : Nat) (v w : Int) : M (List Nat) := do
  let m ← M.get
  let n ← M.ofOption .key (m.tbl.succ[u]?)
  M.assert (n.lvl = x)
  M.assert (v ≠ 0 && w ≠ 0)
  decref v
  decref w
  let (v0, v1, w0, w1) ← depCofactors v w y
  let p ← foa y v0 w0
  let q ← foa y v1 w1
  M.assert (0 ≤ q)
  M.assert (p ≠ q)
  let lp ← lowHighLevel p
  let lq ← lowHighLevel q
  let fresh := (if lp = y then [p.natAbs] else []) ++ (if lq = y then [q.natAbs] else [])
  setNode u ⟨x, p, q⟩
  incref p
  incref q
  return fresh

def moveDepG (foa : Int → Int → Int → M Int) (x y : Nat) (done : List Nat) :
    List (Nat × Int × Int) → M (List Nat × List Nat)
  | [] => pure ([], [])
  | (u, v, w) :: rest => do
    if done.contains u then moveDepG foa x y done rest else
    let fresh ← moveDepStepG foa x y u v w
    let (g, xf) ← moveDepG foa x y done rest
    return (pushNew (pushNew g v.natAbs) w.natAbs, fresh ++ xf)

def swapNodesG (foa : Int → Int → Int → M Int) (x y : Nat) (ox oy : List Nat) :
    M (List (Nat × Int × Int) × List (Nat × Int × Int) × List Nat × List Nat) := do
  let lx ← popLevel x ox
  let ly ← popLevel y oy
  moveUp x y ly
  let done ← moveIndep x y lx
  let (garbage, xfresh) ← moveDepG foa x y done lx
  return (lx, ly, garbage, xfresh)

def swapWithG (foa : Int → Int → Int → M Int) (x y : Nat) (oldsize : Nat) (ox oy : List Nat) :
    M (Nat × Nat) := do
  let (lx, ly, garbage, xfresh) ← swapNodesG foa x y ox oy
  exchangeNames x y
  collectGarbage (some (garbage.map (fun (k : Nat) => (k : Int))))
  let m ← M.get
  let newsize := m.len
  checkNewLevels x y lx ly xfresh
  return (oldsize, newsize)

def swapBodyG (foa : Int → Int → Int → M Int) (x y : Nat) : M (Nat × Nat) := do
  let m ← M.get
  let oldsize := m.len
  let (ox, oy) ← takeSwapOrders x y
  swapWithG foa x y oldsize ox oy

/-- `swap(x, y, all_levels)` over any `find_or_add` -/
def swapG (foa : Int → Int → Int → M Int) (xa ya : VarOrLevel) (given : Bool) : M (Nat × Nat) := do
  if !given then collectGarbage none
  let x ← resolveVL xa
  let y ← resolveVL ya
  let m ← M.get
  if !(0 ≤ x && x < m.nvars) then M.throw .value else
  if !(0 ≤ y && y < m.nvars) then M.throw .value else
  let lo := if x > y then y else x
  let hi := if x > y then x else y
  if lo ≥ hi then M.throw .value else
  if hi - lo ≠ 1 then M.throw .value else
  swapBodyG foa lo.toNat hi.toNat

/-- `BDD.swap` of a manager with `max_nodes = cap` (abstract and literal `find_or_add`) -/
def swapCap (cap : Nat) : VarOrLevel → VarOrLevel → Bool → M (Nat × Nat) := swapG (findOrAddCap cap)
def swapCapL (cap : Nat) : VarOrLevel → VarOrLevel → Bool → M (Nat × Nat) := swapG (findOrAddCapL cap)

end DD
