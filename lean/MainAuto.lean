import DD.AutoDriver
open DD

partial def loopA (h : IO.FS.Stream) (out : IO.FS.Stream) (s : ASess) : IO Unit := do
  let line ← h.getLine
  if line.isEmpty then return ()
  let line := if line.endsWith "\n" then (line.dropEnd 1).toString else line
  let (s', o) := stepLineA s line
  out.putStrLn o
  loopA h out s'

def main : IO Unit := do
  let stdin ← IO.getStdin
  let stdout ← IO.getStdout
  loopA stdin stdout {}
  stdout.flush
