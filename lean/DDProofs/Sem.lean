/-
  DDProofs.Sem — denotation of references, the structural invariant `WF`,
  fuel stability, unfolding lemmas.  (Variables are *levels* here; names enter
  through `l2v` in `denN`.)
-/
import DD.Basic
import Std.Data.TreeMap.Lemmas
open Std

namespace DD

/-- `abs(u) in self._succ` as a proposition -/
def Tbl.Mem (m : Tbl) (u : Int) : Prop := u.natAbs = 1 ∨ (m.node? u.natAbs).isSome

instance (m : Tbl) (u : Int) : Decidable (m.Mem u) := by unfold Tbl.Mem; infer_instance

/-- `self._succ[abs(u)][0]`, total -/
def Tbl.levelOf (m : Tbl) (u : Int) : Nat :=
  if u.natAbs = 1 then m.nvars else
  match m.node? u.natAbs with
  | some n => n.lvl
  | none => m.nvars

abbrev Asg := Nat → Bool

def denF (m : Tbl) : Nat → Int → Asg → Bool
  | 0, _, _ => false
  | f+1, u, a =>
    if u.natAbs = 1 then decide (0 < u) else
    match m.node? u.natAbs with
    | none => false
    | some n => (decide (u < 0)) ^^ (if a n.lvl then denF m f n.hi a else denF m f n.lo a)

def den (m : Tbl) (u : Int) (a : Asg) : Bool := denF m (m.nvars + 1) u a

structure WF (m : Tbl) : Prop where
  lvl_lt : ∀ u n, m.node? u = some n → n.lvl < m.nvars
  lo_mem : ∀ u n, m.node? u = some n → m.Mem n.lo
  hi_mem : ∀ u n, m.node? u = some n → m.Mem n.hi
  lo_lt : ∀ u n, m.node? u = some n → n.lvl < m.levelOf n.lo
  hi_lt : ∀ u n, m.node? u = some n → n.lvl < m.levelOf n.hi
  ge_two : ∀ u n, m.node? u = some n → 2 ≤ u
  hi_pos : ∀ u n, m.node? u = some n → 0 < n.hi
  lo_ne_hi : ∀ u n, m.node? u = some n → n.lo ≠ n.hi

theorem levelOf_le (m : Tbl) (hw : WF m) (u : Int) : m.levelOf u ≤ m.nvars := by
  unfold Tbl.levelOf
  split
  · exact Nat.le_refl _
  · split
    · next n h => exact Nat.le_of_lt (hw.lvl_lt _ _ h)
    · exact Nat.le_refl _

/-- fuel stability: enough fuel gives the same value -/
theorem denF_stable (m : Tbl) (hw : WF m) :
    ∀ f u a, m.Mem u → m.nvars + 1 ≤ f + m.levelOf u → denF m f u a = denF m (f+1) u a := by
  intro f
  induction f with
  | zero =>
    intro u a hm hf
    have := levelOf_le m hw u
    omega
  | succ f ih =>
    intro u a hm hf
    rw [denF, denF]
    by_cases h1 : u.natAbs = 1
    · simp [h1]
    · simp only [h1, if_false]
      rcases hm with hm | hm
      · exact absurd hm h1
      · obtain ⟨n, hn⟩ := Option.isSome_iff_exists.mp hm
        simp only [hn]
        have hl : m.levelOf u = n.lvl := by simp [Tbl.levelOf, h1, hn]
        have h2 := hw.hi_lt _ _ hn
        have h3 := hw.lo_lt _ _ hn
        rw [ih n.hi a (hw.hi_mem _ _ hn) (by omega), ih n.lo a (hw.lo_mem _ _ hn) (by omega)]

theorem denF_ge (m : Tbl) (hw : WF m) (u : Int) (a : Asg) (hm : m.Mem u) :
    ∀ k, denF m (m.nvars + 1 + k) u a = den m u a := by
  intro k
  induction k with
  | zero => rfl
  | succ k ih =>
    rw [← ih]
    exact (denF_stable m hw (m.nvars + 1 + k) u a hm (by omega)).symm

/-- unfolding equation for den at a node -/
theorem den_node (m : Tbl) (hw : WF m) (u : Int) (n : Nd) (a : Asg)
    (h1 : u.natAbs ≠ 1) (hn : m.node? u.natAbs = some n) :
    den m u a = ((decide (u < 0)) ^^ (if a n.lvl then den m n.hi a else den m n.lo a)) := by
  have hm : m.Mem u := Or.inr (by simp [hn])
  rw [← denF_ge m hw u a hm 1]
  show denF m (m.nvars + 1 + 1) u a = _
  rw [denF]
  simp only [h1, if_false, hn]
  rfl

theorem den_one (m : Tbl) (a : Asg) : den m 1 a = true := by simp [den, denF]
theorem den_neg_one (m : Tbl) (a : Asg) : den m (-1) a = false := by simp [den, denF]

theorem den_neg (m : Tbl) (hw : WF m) (u : Int) (a : Asg) (hm : m.Mem u) : den m (-u) a = !den m u a := by
  unfold den
  rw [denF, denF]
  simp only [Int.natAbs_neg]
  by_cases h1 : u.natAbs = 1
  · have := Int.natAbs_eq u
    rw [h1] at this
    rcases this with h | h <;> subst h <;> simp
  · simp only [h1, if_false]
    rcases hm with hm | hm
    · exact absurd hm h1
    · obtain ⟨n, hn⟩ := Option.isSome_iff_exists.mp hm
      simp only [hn]
      have hu : u ≠ 0 := by
        intro h; subst h
        have := hw.ge_two _ _ hn
        simp at this
      have : (decide (-u < 0)) = !(decide (u < 0)) := by
        by_cases h : u < 0 <;> simp [h] <;> omega
      rw [this]
      cases (decide (u < 0)) <;> simp


end DD
