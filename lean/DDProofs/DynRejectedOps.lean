/-
  DDProofs.DynRejectedOps — the decorated operations with ARBITRARY (possibly invalid) arguments
  and dynamic reordering possibly ENABLED: the bodies are total in the sense `TotE` (whatever
  they return or raise, only nodes were added; the reordering signal only from an armed context),
  hence by `tryToReorder_total_dyn` every decorated call — `ite`, `var`, `quantify`, `cofactor`,
  `compose`, `rename`, `let`, `apply`, `cube`, `copy_bdd` — leaves `DynKept` and never raises the
  internal signal.  Where an abort-aware specification exists for valid operands (DynOutcome,
  DynCofactor, DynQuantify, DynSubst) it is reused; the failure cases (unknown nodes, undeclared
  names, unknown levels) are proved here.
-/
import DDProofs.DynRejected
import DDProofs.DynCube
import DDProofs.ReachTotal
open Std

namespace DD

/-! ### `_ite`, the node of a variable -/

/-- `_ite` with an operand that is not a node: nothing is changed, and the answer (a `KeyError`,
or an operand returned as is when the condition is a constant) is not the signal -/
theorem iteF_nonmem (m : Mgr) (hI : Inv m) (f : Nat) (g u v : Int)
    (hall : ¬ (m.tbl.Mem g ∧ m.tbl.Mem u ∧ m.tbl.Mem v)) :
    (iteF (f + 1) g u v m).2 = m ∧ (iteF (f + 1) g u v m).1 ≠ .error .needsReordering := by
  unfold iteF
  by_cases hg1 : g = 1
  · simp [hg1]
  · simp only [hg1, if_false]
    by_cases hgm : g = -1
    · simp [hgm]
    · simp only [hgm, if_false]
      cases hc : m.cache[iteKey g u v]? with
      | some w =>
        exfalso
        have he := hI.cache g u v w hc
        exact hall ⟨he.mg, he.mu, he.mv⟩
      | none =>
        simp only
        by_cases hg : m.tbl.Mem g
        · by_cases hu : m.tbl.Mem u
          · have hv : ¬ m.tbl.Mem v := fun hv => hall ⟨hg, hu, hv⟩
            rw [levelOf?_none_of_not_mem _ _ hv]
            split <;> simp_all
          · rw [levelOf?_none_of_not_mem _ _ hu]
            split <;> simp_all
        · rw [levelOf?_none_of_not_mem _ _ hg]
          simp

/-- `_ite` on ARBITRARY integers, requests possibly armed -/
theorem iteF_totE (m : Mgr) (hI : Inv m) (g u v : Int) :
    TotE m (iteF (m.nvars + 2) g u v m) := by
  by_cases hall : m.tbl.Mem g ∧ m.tbl.Mem u ∧ m.tbl.Mem v
  · exact (iteF_out (m.nvars + 2) m g u v hI hall.1 hall.2.1 hall.2.2 (by omega)).tot
  · obtain ⟨h1, h2⟩ := iteF_nonmem m hI (m.nvars + 1) g u v hall
    refine ⟨?_, fun he => absurd he h2⟩
    rw [h1]; exact StepK.refl hI

theorem iteRaw_totE (m : Mgr) (hI : Inv m) (g u v : Int) : TotE m (iteRaw g u v m) := by
  rw [iteRaw_eq]; exact iteF_totE m hI g u v

/-- the decorated `ite` nested in a context, arbitrary operands -/
theorem ite_nested_totE (m : Mgr) (hI : Inv m) (hc : m.ctx = true) (g u v : Int) :
    TotE m (ite g u v m) :=
  TotE.nested hc (iteRaw_totE m hI g u v)

/-- `find_or_add(j, -1, 1)` for ANY level `j` (an unknown level is refused) -/
theorem varNode_totE (m : Mgr) (hI : Inv m) (j : Nat) : TotE m (findOrAdd (j : Int) (-1) 1 m) := by
  by_cases hj : j < m.nvars
  · exact (varNode_out m hI j hj).tot
  · have hnn : ¬ ((j : Int) < 0) := by omega
    have hcore : ∀ m' : Mgr, m'.nvars = m.nvars →
        findOrAddCore j (-1) 1 m' = (.error .value, m') := by
      intro m' hn
      unfold findOrAddCore
      have : m'.nvars ≤ j := by omega
      simp [this]
    unfold findOrAdd
    by_cases hc : m.ctx = true
    · rw [if_pos hc]
      have hsk : ∀ f, StepK m { m with fireIn := f } := fun f =>
        ⟨hI.setFire f, Ext.refl _, ⟨rfl, rfl, rfl, rfl, rfl, rfl⟩, RefKeep.of_eq rfl rfl⟩
      rcases requestReordering_cases m with ⟨f, hr⟩ | ⟨f, hr, harm⟩
      · rw [hr]
        simp only [hnn, if_false, Int.toNat_natCast]
        exact TotE.of_eq (TotE.err (hsk f) .value (by simp)) (hcore { m with fireIn := f } rfl).symm
      · rw [hr]
        exact ⟨hsk f, fun _ => ⟨hc, harm⟩⟩
    · rw [if_neg hc]
      simp only [hnn, if_false, Int.toNat_natCast]
      exact TotE.of_eq (TotE.same hI (.error .value) (by simp)) (hcore m rfl).symm

/-- the body of `BDD.var(name)` for ANY name -/
theorem varBody_totE (m : Mgr) (hI : Inv m) (name : String) : TotE m (varBody name m) := by
  rw [varBody_eq]
  split
  · exact TotE.same hI _ (by simp)
  · exact varNode_totE m hI _

/-- the decorated `var` nested in a context -/
theorem var_nested_totE (m : Mgr) (hI : Inv m) (hc : m.ctx = true) (name : String) :
    TotE m (var name m) := by
  rw [var_eq]
  exact TotE.nested hc (varBody_totE m hI name)

/-! ### `cofactor`, `quantify` -/

/-- the body of `BDD.cofactor(u, values)` for ANY node and ANY dictionary -/
theorem cofactorBody_totE (m : Mgr) (hI : Inv m) (u : Int) (values : List (Key × Bool)) :
    TotE m (cofactorBody u values m) := by
  unfold cofactorBody
  cases hlv : mapToLevelE m.tbl (values.map (·.1)) with
  | error e =>
    exact TotE.same hI _ (by
      intro h; cases h
      exact mapToLevelE_noNR _ _ hlv)
  | ok lv =>
    simp only
    by_cases hu : m.tbl.Mem u
    · have hmem : m.mem u = true := (Mgr.mem_iff m u).mpr hu
      simp only [hmem, Bool.not_true, Bool.false_eq_true, if_false]
      have h := cofactorF_out ((lv.zip (values.map (·.2))).reverse) (m.nvars + 2) m u
        (sortNat (dedup lv)) {} hI hu (CofMemo.empty _ _)
        (fun j hj _ => (mem_ordvar j lv).mpr (lookup_zip_reverse_mem lv _ j hj)) (by omega)
      have ht := Outcome.tot h
      split
      · next heq => exact ht.err_of heq
      · next heq => exact TotE.ok (ht.step_of heq) _
    · have hm : m.mem u = false := (Tbl.mem_false_iff _ _).mpr hu
      simp only [hm, Bool.not_false, if_true]
      exact TotE.same hI _ (by simp)

/-- the body of `BDD.quantify(u, qvars, forall)` for ANY node and ANY set of names / levels -/
theorem quantifyBody_totE (m : Mgr) (hI : Inv m) (hc : m.ctx = true) (u : Int) (qvars : List Key)
    (fa : Bool) : TotE m (quantifyBody u qvars fa m) := by
  unfold quantifyBody
  cases hlv : mapToLevelE m.tbl qvars with
  | error e =>
    exact TotE.same hI _ (by
      intro h; cases h
      exact mapToLevelE_noNR _ _ hlv)
  | ok lv =>
    simp only
    by_cases hu : m.tbl.Mem u
    · have h := quantifyF_out lv fa (m.nvars + 2) m u (sortNat (dedup lv)) {} hI (Or.inl hc) hu
        (QMemo.empty _ _ _) (fun j hj _ => (mem_ordvar j _).mpr hj) (by omega)
      have ht := Outcome.tot h
      split
      · next heq => exact ht.err_of heq
      · next heq => exact TotE.ok (ht.step_of heq) _
    · obtain ⟨h1, h2⟩ := not_mem_cases hu
      have : quantifyF lv fa (m.nvars + 2) u (sortNat (dedup lv)) {} m = (.error .key, m) := by
        show quantifyF lv fa ((m.nvars + 1) + 1) u (sortNat (dedup lv)) {} m = _
        unfold quantifyF
        simp only [h1, if_false, hashMap_empty_get, h2]
      rw [this]
      exact TotE.same hI _ (by simp)

/-- the decorated `quantify` nested in a context -/
theorem quantify_nested_totE (m : Mgr) (hI : Inv m) (hc : m.ctx = true) (u : Int)
    (qvars : List Key) (fa : Bool) : TotE m (quantify u qvars fa m) :=
  TotE.nested hc (quantifyBody_totE m hI hc u qvars fa)

/-! ### `compose` -/

theorem subOrVar_totE (sub : List (Nat × Int)) (i : Nat) (m : Mgr) (hI : Inv m) :
    TotE m (subOrVar sub i m) := by
  unfold subOrVar
  split
  · exact TotE.same hI _ (by simp)
  · exact varNode_totE m hI i

/-- `_vector_compose` for ANY node, ANY substitution (unknown nodes included), any memo -/
theorem vectorComposeF_totE (sub : List (Nat × Int)) :
    ∀ (fu : Nat) (f : Int) (cache : HashMap Nat Int) (m : Mgr), Inv m → m.ctx = true →
    TotE m (vectorComposeF sub fu f cache m) := by
  intro fu
  induction fu with
  | zero => intro f cache m hI _; exact TotE.same hI _ (by simp)
  | succ fu ih =>
    intro f cache m hI hc
    unfold vectorComposeF
    split
    · exact TotE.same hI _ (by simp)
    split
    · split <;> exact TotE.same hI _ (by simp)
    split
    · exact TotE.same hI _ (by simp)
    split
    · exact TotE.same hI _ (by simp)
    split
    · next heq => exact (ih _ _ m hI hc).err_of heq
    next heq =>
    have s1 : StepK m _ := (ih _ _ m hI hc).step_of heq
    have c1 := hc; rw [← s1.frame.ctx] at c1
    split
    · next heq => exact ((ih _ _ _ s1.inv c1).err_of heq).trans s1
    next heq =>
    have s2 : StepK m _ := s1.trans ((ih _ _ _ s1.inv c1).step_of heq)
    have c2 := hc; rw [← s2.frame.ctx] at c2
    split
    · next heq => exact ((subOrVar_totE _ _ _ s2.inv).err_of heq).trans s2
    next heq =>
    have s3 : StepK m _ := s2.trans ((subOrVar_totE _ _ _ s2.inv).step_of heq)
    have c3 := hc; rw [← s3.frame.ctx] at c3
    split
    · next heq => exact ((ite_nested_totE _ s3.inv c3 _ _ _).err_of heq).trans s3
    next heq =>
    exact TotE.ok (s3.trans ((ite_nested_totE _ s3.inv c3 _ _ _).step_of heq)) _

/-- `_compose(f, j, g)` when `g` is NOT a node: nothing is built before the failure, or only
`ite` ran (which is total) -/
theorem composeF_top_totE (j : Nat) (fu : Nat) (f g : Int) (m : Mgr) (hI : Inv m)
    (hc : m.ctx = true) (hg : ¬ m.tbl.Mem g) : TotE m (composeF j (fu + 1) f g {} m) := by
  unfold composeF
  split
  · exact TotE.same hI _ (by simp)
  split
  · exact TotE.same hI _ (by simp)
  split
  · exact TotE.same hI _ (by simp)
  split
  · exact TotE.same hI _ (by simp)
  split
  · exact TotE.same hI _ (by simp)
  split
  · split
    · next heq => exact (ite_nested_totE m hI hc _ _ _).err_of heq
    · next heq => exact TotE.ok ((ite_nested_totE m hI hc _ _ _).step_of heq) _
  · rw [levelOf?_none_of_not_mem _ _ hg]
    exact TotE.same hI _ (by simp)

/-- the body of `BDD.compose(f, var_sub)` for ANY node and ANY dictionary -/
theorem composeBody_totE (m : Mgr) (hI : Inv m) (hc : m.ctx = true) (f : Int)
    (varSub : List (String × Int)) : TotE m (composeBody f varSub m) := by
  unfold composeBody
  split
  · next v g =>
    cases hlv : levelOfVarE m.tbl v with
    | error e =>
      exact TotE.same hI _ (by
        intro h; cases h
        exact levelOfVarE_noNR _ _ hlv)
    | ok j =>
      simp only
      have ht : TotE m (composeF j (2 * m.nvars + 4) f g {} m) := by
        by_cases hf : m.tbl.Mem f
        · by_cases hg : m.tbl.Mem g
          · exact Outcome.tot (composeF_out j (2 * m.nvars + 4) m f g {} hI (Or.inl hc) hf hg
              (KMemo.empty _ _) (by omega))
          · exact composeF_top_totE j (2 * m.nvars + 3) f g m hI hc hg
        · obtain ⟨h1, h2⟩ := not_mem_cases hf
          have : composeF j (2 * m.nvars + 4) f g {} m = (.error .key, m) := by
            show composeF j ((2 * m.nvars + 3) + 1) f g {} m = _
            unfold composeF
            simp only [h1, if_false, hashMap_empty_get, h2]
          rw [this]
          exact TotE.same hI _ (by simp)
      split
      · next heq => exact ht.err_of heq
      · next heq => exact TotE.ok (ht.step_of heq) _
  · cases hsub : mapME (subLevelE m.tbl) varSub with
    | error e =>
      exact TotE.same hI _ (by
        intro h; cases h
        exact mapME_noNR _ (subLevelE_noNR _) _ hsub)
    | ok sub =>
      simp only
      have ht := vectorComposeF_totE sub (m.nvars + 2) f {} m hI hc
      split
      · next heq => exact ht.err_of heq
      · next heq => exact TotE.ok (ht.step_of heq) _

/-! ### `rename`, `copy_bdd` -/

/-- `_copy_bdd` for ANY node, ANY level map, ANY source table (not even well formed), any memo -/
theorem copyBddF_totE (src : Option Tbl) (lm : List (Nat × Nat)) :
    ∀ (fu : Nat) (u : Int) (cache : HashMap Nat Int) (m : Mgr), Inv m → m.ctx = true →
    TotE m (copyBddF src lm fu u cache m) := by
  intro fu
  induction fu with
  | zero => intro u cache m hI _; exact TotE.same hI _ (by simp)
  | succ fu ih =>
    intro u cache m hI hc
    unfold copyBddF
    split
    · exact TotE.same hI _ (by simp)
    split
    · split <;> exact TotE.same hI _ (by simp)
    split
    · exact TotE.same hI _ (by simp)
    split
    · exact TotE.same hI _ (by simp)
    split
    · next heq => exact (ih _ _ m hI hc).err_of heq
    next heq =>
    have s1 : StepK m _ := (ih _ _ m hI hc).step_of heq
    have c1 := hc; rw [← s1.frame.ctx] at c1
    split
    · next heq => exact ((ih _ _ _ s1.inv c1).err_of heq).trans s1
    next heq =>
    have s2 : StepK m _ := s1.trans ((ih _ _ _ s1.inv c1).step_of heq)
    have c2 := hc; rw [← s2.frame.ctx] at c2
    split
    · exact TotE.err s2 _ (by simp)
    split
    · exact TotE.err s2 _ (by simp)
    split
    · exact TotE.err s2 _ (by simp)
    split
    · next heq => exact ((varNode_totE _ s2.inv _).err_of heq).trans s2
    next heq =>
    have s3 : StepK m _ := s2.trans ((varNode_totE _ s2.inv _).step_of heq)
    have c3 := hc; rw [← s3.frame.ctx] at c3
    split
    · next heq => exact ((ite_nested_totE _ s3.inv c3 _ _ _).err_of heq).trans s3
    next heq =>
    have s4 : StepK m _ := s3.trans ((ite_nested_totE _ s3.inv c3 _ _ _).step_of heq)
    split
    · exact TotE.err s4 _ (by simp)
    · exact TotE.ok s4 _

/-- the body of `rename(u, bdd, dvars)` for ANY node and ANY renaming -/
theorem renameBody_totE (m : Mgr) (hI : Inv m) (hc : m.ctx = true) (u : Int)
    (dvars : List (String × String)) : TotE m (renameBody u dvars m) := by
  unfold renameBody
  split
  · exact TotE.same hI _ (by simp)
  split
  · exact TotE.same hI _ (by simp)
  cases hlm : renameMap m.tbl dvars with
  | error e =>
    exact TotE.same hI _ (by
      intro h; cases h
      exact renameMap_noNR _ _ hlm)
  | ok lm =>
    simp only
    have ht := copyBddF_totE none lm (m.nvars + 2) u {} m hI hc
    split
    · next heq => exact ht.err_of heq
    · next heq => exact TotE.ok (ht.step_of heq) _

/-- the body of `copy_bdd(u, from_bdd, to_bdd)` for ANY source table and ANY (foreign) node -/
theorem copyBddBody_totE (src : Tbl) (m : Mgr) (hI : Inv m) (hc : m.ctx = true) (u : Int) :
    TotE m (copyBddBody src u m) := by
  unfold copyBddBody
  have ht := copyBddF_totE (some src) (copyMap src m.tbl) (src.nvars + 2) u {} m hI hc
  split
  · next heq => exact ht.err_of heq
  · next heq => exact TotE.ok (ht.step_of heq) _

/-! ### `apply` (it is not decorated itself: it calls the decorated `ite` / `quantify`) -/

theorem atomVal_noNR (u v w : Int) (a : Atom) : atomVal u v w a ≠ .error .needsReordering := by
  cases a <;> simp [atomVal]

theorem except_mapM_noNR {α β : Type} (f : α → Except Err β)
    (hf : ∀ a, f a ≠ .error .needsReordering) :
    ∀ l : List α, l.mapM f ≠ .error .needsReordering := by
  intro l
  induction l with
  | nil => simp [pure, Except.pure]
  | cons a l ih =>
    rw [List.mapM_cons]
    cases hfa : f a with
    | error e =>
      simp only [bind, Except.bind]
      intro h
      cases h
      exact hf a hfa
    | ok b =>
      cases hl : l.mapM f with
      | error e =>
        simp only [bind, Except.bind]
        intro h
        cases h
        exact ih hl
      | ok bs => simp [bind, Except.bind, pure, Except.pure]

theorem supportF_noNR : ∀ (f : Nat) (t : Tbl) (u : Int) (acc : List Nat × List Nat),
    supportF f t u acc ≠ .error .needsReordering := by
  intro f
  induction f with
  | zero => intro t u acc; simp [supportF]
  | succ f ih =>
    intro t u acc
    obtain ⟨levels, nodes⟩ := acc
    unfold supportF
    split
    · simp
    dsimp only
    split
    · simp
    split
    · simp
    split
    · simp
    split
    · simp
    split
    · next e heq => intro h; cases h; exact ih _ _ _ heq
    · exact ih _ _ _

theorem support_noNR (t : Tbl) (u : Int) : support t u ≠ .error .needsReordering := by
  unfold support supportLevels
  split
  · next e heq =>
    split at heq
    · next e' heq' =>
      intro h; cases h; cases heq
      exact supportF_noNR _ _ _ _ heq'
    · cases heq
  · apply except_mapM_noNR
    intro i
    split <;> simp

/-- `apply` NESTED in a context (as `cube` calls it) with ANY operator string, arity, operands -/
theorem apply_nested_totE (m : Mgr) (hI : Inv m) (hc : m.ctx = true) (op : String) (u : Int)
    (v w : Option Int) : TotE m (apply op u v w m) := by
  have same : ∀ e : Err, e ≠ .needsReordering → TotE m ((.error e, m) : Except Err Int × Mgr) :=
    fun e he => TotE.same hI _ (by simpa using he)
  unfold apply
  split
  · next e heq =>
    refine same e ?_
    intro he; subst he
    unfold assertOperatorArity at heq
    repeat' split at heq
    all_goals simp at heq
  split
  · exact same _ (by simp)
  split
  · exact same _ (by simp)
  split
  · exact same _ (by simp)
  split
  · exact same _ (by simp)
  split
  · exact TotE.same hI _ (by simp)
  · split
    · exact same _ (by simp)
    split
    · exact same _ (by simp)
    split
    · exact ite_nested_totE m hI hc _ _ _
    · exact same _ (fun he => by subst he; exact atomVal_noNR _ _ _ _ (by assumption))
    · exact same _ (fun he => by subst he; exact atomVal_noNR _ _ _ _ (by assumption))
    · exact same _ (fun he => by subst he; exact atomVal_noNR _ _ _ _ (by assumption))
  · split
    · exact same _ (by simp)
    split
    · split
      · next e heq => exact same e (fun he => by subst he; exact support_noNR _ _ heq)
      · exact quantify_nested_totE m hI hc _ _ _
    · exact same _ (fun he => by subst he; exact atomVal_noNR _ _ _ _ (by assumption))
    · exact same _ (fun he => by subst he; exact atomVal_noNR _ _ _ _ (by assumption))
  · exact same _ (by simp)
  · exact same _ (by simp)

/-! ### `cube` -/

theorem cubeStep_totE (m : Mgr) (hI : Inv m) (hc : m.ctx = true) (x : String × Bool) (r : Int) :
    TotE m (cubeStep x r m) := by
  unfold cubeStep
  refine TotE.bind (var_nested_totE m hI hc x.1) ?_
  intro g m1 hs1
  have hc1 : m1.ctx = true := by rw [hs1.frame.ctx]; exact hc
  refine TotE.bind (apply_nested_totE m1 hs1.inv hc1 "and" _ (some r) none) ?_
  intro r' m2 hs2
  exact TotE.ok (StepK.refl hs2.inv) _

theorem cubeLoop_totE : ∀ (l : List (String × Bool)) (m : Mgr) (r : Int), Inv m → m.ctx = true →
    TotE m (forIn l r cubeStep m)
  | [], m, r, hI, _ => by
    show TotE m ((Pure.pure r : M Int) m)
    exact TotE.ok (StepK.refl hI) r
  | x :: l, m, r, hI, hc => by
    rw [List.forIn_cons]
    refine TotE.bind (cubeStep_totE m hI hc x r) ?_
    intro s m1 hs1
    have hc1 : m1.ctx = true := by rw [hs1.frame.ctx]; exact hc
    cases s with
    | done b => exact TotE.ok (StepK.refl hs1.inv) b
    | yield b => exact cubeLoop_totE l m1 b hs1.inv hc1

/-- the body of `BDD.cube(dvars)` for ANY names (undeclared ones included) -/
theorem cubeBody_totE (m : Mgr) (hI : Inv m) (hc : m.ctx = true) (dvars : List (String × Bool)) :
    TotE m (cubeBody dvars m) := by
  unfold cubeBody
  refine TotE.bind (cubeLoop_totE dvars m 1 hI hc) ?_
  intro r m1 hs
  exact TotE.ok (StepK.refl hs.inv) r

/-! ### the decorated calls: whatever the arguments, reordering enabled or not -/

/-- `BDD.ite(g, u, v)` on ARBITRARY integers -/
theorem ite_total_dyn (ext : Nat → Nat) (hS : SiftContract ext) (m : Mgr) (hD : DynInv ext m)
    (g u v : Int) : DynTotal ext m (ite g u v m) :=
  tryToReorder_total_dyn ext hS (iteRaw g u v) (fun m0 hI _ _ => iteRaw_totE m0 hI g u v) m hD

/-- `BDD.var(name)` for ANY name -/
theorem var_total_dyn (ext : Nat → Nat) (hS : SiftContract ext) (m : Mgr) (hD : DynInv ext m)
    (name : String) : DynTotal ext m (var name m) := by
  rw [var_eq]
  exact tryToReorder_total_dyn ext hS _ (fun m0 hI _ _ => varBody_totE m0 hI name) m hD

/-- `BDD.quantify(u, qvars, forall)` for ANY node and ANY names / levels -/
theorem quantify_total_dyn (ext : Nat → Nat) (hS : SiftContract ext) (m : Mgr) (hD : DynInv ext m)
    (u : Int) (qvars : List Key) (fa : Bool) : DynTotal ext m (quantify u qvars fa m) :=
  tryToReorder_total_dyn ext hS (quantifyBody u qvars fa)
    (fun m0 hI hc _ => quantifyBody_totE m0 hI hc u qvars fa) m hD

/-- `BDD.cofactor(u, values)` for ANY node and ANY dictionary -/
theorem cofactor_total_dyn (ext : Nat → Nat) (hS : SiftContract ext) (m : Mgr) (hD : DynInv ext m)
    (u : Int) (values : List (Key × Bool)) : DynTotal ext m (cofactor u values m) :=
  tryToReorder_total_dyn ext hS (cofactorBody u values)
    (fun m0 hI _ _ => cofactorBody_totE m0 hI u values) m hD

/-- `BDD.compose(f, var_sub)` for ANY node and ANY dictionary (undeclared names, unknown nodes) -/
theorem compose_total_dyn (ext : Nat → Nat) (hS : SiftContract ext) (m : Mgr) (hD : DynInv ext m)
    (f : Int) (varSub : List (String × Int)) : DynTotal ext m (compose f varSub m) :=
  tryToReorder_total_dyn ext hS (composeBody f varSub)
    (fun m0 hI hc _ => composeBody_totE m0 hI hc f varSub) m hD

/-- `BDD.rename(u, dvars)` for ANY node and ANY renaming -/
theorem rename_total_dyn (ext : Nat → Nat) (hS : SiftContract ext) (m : Mgr) (hD : DynInv ext m)
    (u : Int) (dvars : List (String × String)) : DynTotal ext m (rename u dvars m) :=
  tryToReorder_total_dyn ext hS (renameBody u dvars)
    (fun m0 hI hc _ => renameBody_totE m0 hI hc u dvars) m hD

/-- `BDD.let(definitions, u)` for ANY node and ANY (homogeneous) dictionary -/
theorem letOp_total_dyn (ext : Nat → Nat) (hS : SiftContract ext) (m : Mgr) (hD : DynInv ext m)
    (d : LetArg) (u : Int) : DynTotal ext m (letOp d u m) := by
  unfold letOp
  split
  · exact DynTotal.same hD _ (by simp)
  · exact DynTotal.same hD _ (by simp)
  · exact DynTotal.same hD _ (by simp)
  · exact cofactor_total_dyn ext hS m hD _ _
  · exact compose_total_dyn ext hS m hD _ _
  · exact rename_total_dyn ext hS m hD _ _

/-- `BDD.cube(dvars)` for ANY names -/
theorem cube_total_dyn (ext : Nat → Nat) (hS : SiftContract ext) (m : Mgr) (hD : DynInv ext m)
    (dvars : List (String × Bool)) : DynTotal ext m (cube dvars m) := by
  rw [cube_eq]
  exact tryToReorder_total_dyn ext hS _ (fun m0 hI hc _ => cubeBody_totE m0 hI hc dvars) m hD

/-- `copy_bdd(u, from_bdd, to_bdd)` into the manager, for ANY source table and ANY node (a node
foreign to the source included) -/
theorem copyBdd_total_dyn (ext : Nat → Nat) (hS : SiftContract ext) (m : Mgr) (hD : DynInv ext m)
    (src : Tbl) (u : Int) : DynTotal ext m (copyBdd src u m) :=
  tryToReorder_total_dyn ext hS (copyBddBody src u)
    (fun m0 hI hc _ => copyBddBody_totE src m0 hI hc u) m hD

/-- `BDD.apply(op, u, v, w)` with ANY operator string, arity and operands, quantifier aliases
included -/
theorem apply_total_dyn (ext : Nat → Nat) (hS : SiftContract ext) (m : Mgr) (hD : DynInv ext m)
    (op : String) (u : Int) (v w : Option Int) : DynTotal ext m (apply op u v w m) := by
  have same : ∀ e : Err, e ≠ .needsReordering →
      DynTotal ext m ((.error e, m) : Except Err Int × Mgr) :=
    fun e he => DynTotal.same hD _ (by simpa using he)
  unfold apply
  split
  · next e heq =>
    refine same e ?_
    intro he; subst he
    unfold assertOperatorArity at heq
    repeat' split at heq
    all_goals simp at heq
  split
  · exact same _ (by simp)
  split
  · exact same _ (by simp)
  split
  · exact same _ (by simp)
  split
  · exact same _ (by simp)
  split
  · exact DynTotal.same hD _ (by simp)
  · split
    · exact same _ (by simp)
    split
    · exact same _ (by simp)
    split
    · exact ite_total_dyn ext hS m hD _ _ _
    · exact same _ (fun he => by subst he; exact atomVal_noNR _ _ _ _ (by assumption))
    · exact same _ (fun he => by subst he; exact atomVal_noNR _ _ _ _ (by assumption))
    · exact same _ (fun he => by subst he; exact atomVal_noNR _ _ _ _ (by assumption))
  · split
    · exact same _ (by simp)
    split
    · split
      · next e heq => exact same e (fun he => by subst he; exact support_noNR _ _ heq)
      · exact quantify_total_dyn ext hS m hD _ _ _
    · exact same _ (fun he => by subst he; exact atomVal_noNR _ _ _ _ (by assumption))
    · exact same _ (fun he => by subst he; exact atomVal_noNR _ _ _ _ (by assumption))
  · exact same _ (by simp)
  · exact same _ (by simp)

end DD
