/-
  DDProofs.Reach4 — "for EVERY history", the wider alphabet.

  `UOp4` = `UOp3` (user operations, explicit reorderings, `undeclare_vars`, `configure`) plus

    `.cube dvars`                      `bdd.cube(dvars)`
    `.addExpr s`                       `bdd.add_expr(s)`                  ANY text
    `.image t s rename qvars forall`   `image(t, s, rename, qvars, bdd)`  names or levels, any
    `.preimage t s rename qvars forall`
    `.gcRooted roots`                  `bdd.collect_garbage(roots)`       any integers
    `.reorderToPairs sch pairs`        `reorder_to_pairs(bdd, pairs)`     any dictionary
    `.copyFrom src u`                  `copy_bdd(u, from_bdd, bdd)`       ANY source table, any `u`
    `.loadPickle f levels`             `bdd.load(file, levels)`           ANY content of the file

  all with ARBITRARY arguments, accepted or rejected, dynamic reordering enabled or not.  Guards
  (`OpGuard4`): those of `UOp3`; for `reorder_to_pairs` the recorded schedule must be a possible
  one (the model does not answer `MODEL-SCHEDULE-MISMATCH`); for `load(…, levels=True)` that the
  file's `vars` is a dict — pairwise distinct names, a fact about the model's list of items, not
  about the caller (`loadGuard`; nothing for `levels=False`).  NOT guards: well-formedness of the source table of
  a copy, of the pickle content, of the text, of the renaming; operands held — none of them is
  needed for the invariant (they are hypotheses where RESULTS are described: C05, C11, C12, C13).

  The decorated operations go through ONE generic lemma, `tryToReorder_step4`: a body that is
  `TotE` on arbitrary arguments (only adds nodes, signal only from an armed context) makes a good
  step whatever the switch and the number of variables — two variables: `tryToReorder_total_dyn`
  (C17); fewer and not enabled: `tryToReorder_total_off`; fewer and enabled: `tryToReorder_few`.

    `step4_inv`, `step4_heldSame`, `step4_held`, `step4_noSignal`, `step4_switch`
    `reachable4_inv`  : from the empty manager
    `reachable4_from` : from ANY good state — after the constructor `BDD(levels)`, a `copy.copy`,
                        a `reduction()`, a load: the history continues in the new manager.
-/
import DDProofs.Reach3
import DDProofs.Reach4Order
import DDProofs.Reach4Load
import DDProofs.Reach4Image
import DDProofs.DynRejectedExpr
open Std

namespace DD

/-! ### operations -/

inductive UOp4
  | op (o : UOp3)
  | cube (dvars : List (String × Bool))
  | addExpr (s : String)
  | image (trans source : Int) (rename : List (Key × Key)) (qvars : List Key) (forall_ : Bool)
  | preimage (trans target : Int) (rename : List (Key × Key)) (qvars : List Key) (forall_ : Bool)
  | gcRooted (roots : List Int)
  | reorderToPairs (sch : List SchedItem) (pairs : List (String × String))
  | copyFrom (src : Tbl) (u : Int)
  | loadPickle (f : PickleFile) (levels : Bool)

def runOp4 : UOp4 → Mgr → Except Err Res × Mgr
  | .op o, m => runOp3 o m
  | .cube d, m => mapRes .ref (cube d m)
  | .addExpr s, m => mapRes .ref (addExpr s m)
  | .image t s rn q fa, m => mapRes .ref (image t s rn q fa m)
  | .preimage t s rn q fa, m => mapRes .ref (preimage t s rn q fa m)
  | .gcRooted rs, m => mapRes (fun _ => .unit) (collectGarbage (some rs) m)
  | .reorderToPairs sch ps, m => withSched sch (reorderToPairs ps) (fun _ => .unit) m
  | .copyFrom src u, m => mapRes .ref (copyBdd src u m)
  | .loadPickle f l, m => mapRes (fun _ => .unit) (loadPickle f l m)

def ledger4 : UOp4 → Mgr → (Nat → Nat) → (Nat → Nat)
  | .op o, m, ext => ledger3 o m ext
  | _, _, ext => ext

def OpGuard4 (m : Mgr) (ext : Nat → Nat) : UOp4 → Prop
  | .op o => OpGuard3 m ext o
  | .reorderToPairs sch ps => isSchedErr (reorderToPairs ps { m with sched := sch }).1 = false
  | .loadPickle f l => loadGuard f l m = true
  | _ => True

instance (m : Mgr) (ext : Nat → Nat) (op : UOp4) : Decidable (OpGuard4 m ext op) := by
  cases op <;> simp only [OpGuard4] <;> infer_instance

/-- the switch after a call, given the switch before it -/
def UOp4.switchAfter : UOp4 → Bool → Bool
  | .op o, old => o.switchAfter old
  | _, old => old

/-! ### what a step establishes -/

structure Step4 (m : Mgr) (ext ext' : Nat → Nat) (res : Except Err Res × Mgr) : Prop where
  good : Good3 res.2 ext'
  held : Held2 ext m res.2
  noSignal : res.1 ≠ .error .needsReordering
  /-- outside the situation "reordering enabled, fewer than two variables" -/
  switch : (m.lastLen.isSome = true → 2 ≤ m.nvars) → res.2.lastLen.isSome = m.lastLen.isSome

theorem Step3.step4 {m : Mgr} {ext ext' : Nat → Nat} {res : Except Err Res × Mgr}
    (h : Step3 m ext ext' res) : Step4 m ext ext' res :=
  ⟨h.good, h.held, h.noSignal, fun _ => h.switch⟩

/-- a step that only adds nodes (counts exact for the same ledger) -/
theorem step4_of_stepK {α : Type} {m : Mgr} {ext : Nat → Nat} (h : Good3 m ext) (g : α → Res)
    (x : Except Err α × Mgr) (hs : StepK m x.2) (hns : x.1 ≠ .error .needsReordering) :
    Step4 m ext ext (mapRes g x) :=
  ⟨h.stepK hs, held2_of_stepK h hs, mapRes_noSignal g x hns,
    fun _ => by show x.2.lastLen.isSome = _; rw [hs.frame.lastLen]⟩

/-- a rejected call that changed nothing -/
theorem step4_same {α : Type} {m : Mgr} {ext : Nat → Nat} (h : Good3 m ext) (g : α → Res)
    (r : Except Err α) (hr : r ≠ .error .needsReordering) : Step4 m ext ext (mapRes g (r, m)) :=
  step4_of_stepK h g (r, m) (StepK.refl h.inv) hr

/-! ### the decorator, generic -/

/-- **GENERIC**: `_try_to_reorder` around a body that accepts arbitrary arguments, from ANY good
state — reordering enabled or not, any number of variables -/
theorem tryToReorder_step4 {α : Type} (ext : Nat → Nat) (f : M α)
    (hbody : ∀ m0 : Mgr, Inv m0 → m0.ctx = true → TotE m0 (f m0))
    (m : Mgr) (h : Good3 m ext) (g : α → Res) : Step4 m ext ext (mapRes g (tryToReorder f m)) := by
  by_cases h2 : 2 ≤ m.nvars
  · exact (step3_of_dynTotal h g _ (tryToReorder_total_dyn ext (siftContract ext) f
      (fun m0 hI hc _ => hbody m0 hI hc) m (h.dynInv h2))).step4
  · by_cases hoff : m.lastLen = none
    · obtain ⟨hns, hk, hrk⟩ := tryToReorder_total_off f hbody m h.inv hoff
      exact step4_of_stepK h g _ ⟨hk.inv, hk.ext, hk.frame, hrk⟩ hns
    · obtain ⟨hg, hh, hns⟩ := tryToReorder_few ext f (fun m0 hI hc _ => hbody m0 hI hc) m h (by omega)
      refine ⟨hg, hh, mapRes_noSignal g _ hns, fun hsafe => ?_⟩
      have : m.lastLen.isSome = true := by
        cases hl : m.lastLen with
        | none => exact absurd hl hoff
        | some l => rfl
      exact absurd (hsafe this) h2

/-! ### the new operations -/

theorem cube_step4 (m : Mgr) (ext : Nat → Nat) (h : Good3 m ext) (d : List (String × Bool)) :
    Step4 m ext ext (mapRes .ref (cube d m)) := by
  rw [cube_eq]
  exact tryToReorder_step4 ext _ (fun m0 hI hc => cubeBody_totE m0 hI hc d) m h _

theorem addExpr_step4 (m : Mgr) (ext : Nat → Nat) (h : Good3 m ext) (s : String) :
    Step4 m ext ext (mapRes .ref (addExpr s m)) :=
  tryToReorder_step4 ext (addExprToks (tokenize s))
    (fun m0 hI hc => addExprToks_totE (tokenize s) m0 hI hc) m h _

theorem copyFrom_step4 (m : Mgr) (ext : Nat → Nat) (h : Good3 m ext) (src : Tbl) (u : Int) :
    Step4 m ext ext (mapRes .ref (copyBdd src u m)) :=
  tryToReorder_step4 ext (copyBddBody src u)
    (fun m0 hI hc => copyBddBody_totE src m0 hI hc u) m h _

theorem qvarsByName_noSignal (t : Tbl) (q : List Key) : qvarsByName t q ≠ .error .needsReordering := by
  unfold qvarsByName
  split
  · next e heq => intro he; cases he; exact mapToLevelE_noNR t q heq
  · apply mapME_noNR
    intro j
    split <;> simp

theorem image_step4 (m : Mgr) (ext : Nat → Nat) (h : Good3 m ext) (t s : Int)
    (rn : List (Key × Key)) (q : List Key) (fa : Bool) :
    Step4 m ext ext (mapRes .ref (image t s rn q fa m)) := by
  unfold image
  split
  · next e heq =>
    exact step4_same h _ _ (fun he => qvarsByName_noSignal m.tbl q (by rw [heq]; cases he; rfl))
  · exact tryToReorder_step4 ext _ (fun m0 hI hc => imageBody_totE_r4 t s _ _ fa m0 hI hc) m h _

theorem preimage_step4 (m : Mgr) (ext : Nat → Nat) (h : Good3 m ext) (t s : Int)
    (rn : List (Key × Key)) (q : List Key) (fa : Bool) :
    Step4 m ext ext (mapRes .ref (preimage t s rn q fa m)) := by
  unfold preimage
  split
  · next e heq =>
    exact step4_same h _ _ (fun he => qvarsByName_noSignal m.tbl q (by rw [heq]; cases he; rfl))
  · exact tryToReorder_step4 ext _ (fun m0 hI hc => preimageBody_totE_r4 t s _ _ fa m0 hI hc) m h _

/-- `collect_garbage(roots)`, any roots -/
theorem gcRooted_step4 (m : Mgr) (ext : Nat → Nat) (h : Good3 m ext) (rs : List Int) :
    Step4 m ext ext (mapRes (fun _ => Res.unit) (collectGarbage (some rs) m)) := by
  rcases collectGarbage_rooted_cases rs m ext h.inv h.exact with ⟨m', he, hp⟩ | he
  · rw [he]
    refine ⟨⟨hp.inv, h.order.congr hp.sub.vars hp.sub.l2v, hp.refExact, ?_, ?_, ?_⟩, ?_, ?_, ?_⟩
    · show m'.ctx = false
      rw [hp.sub.ctx]; exact h.ctx
    · show m'.sched = []
      rw [hp.sub.sched]; exact h.sched
    · show m'.roots = []
      rw [hp.sub.roots]; exact h.roots
    · intro u hpos
      have hmem : m'.tbl.Mem u := hp.refExact.mem_of_ext_pos hpos
      exact ⟨hmem, fun σ => denN_of_same_l2v hp.sub.l2v u σ (fun a => hp.den_eq u hmem a)⟩
    · intro hh; cases hh
    · intro _
      show m'.lastLen.isSome = _
      rw [hp.sub.lastLen]
  · rw [he]
    exact step4_same h _ _ (by simp)

/-- `reorder_to_pairs`, any dictionary, any recorded schedule the model accepts -/
theorem reorderToPairs_step4 (m : Mgr) (ext : Nat → Nat) (h : Good3 m ext) (sch : List SchedItem)
    (ps : List (String × String))
    (hg : isSchedErr (reorderToPairs ps { m with sched := sch }).1 = false) :
    Step4 m ext ext (withSched sch (reorderToPairs ps) (fun _ => Res.unit) m) ∧
    ReorderRel ext m (withSched sch (reorderToPairs ps) (fun _ => Res.unit) m).2 := by
  have hk := reorderToPairs_keep (swapOK ext) ps { m with sched := sch } (h.reorderInv sch)
  obtain ⟨⟨hR, hrel⟩, herr⟩ := hk.sched (isSchedErr_false hg)
  have hns : (withSched sch (reorderToPairs ps) (fun _ => Res.unit) m).1 ≠ .error .needsReordering := by
    apply withSched_noSignal
    intro he
    exact (herr _ he).ne_signal rfl
  revert hns
  show (withSched sch (reorderToPairs ps) (fun _ => Res.unit) m).1 ≠ _ →
    Step4 m ext ext ((withSched sch (reorderToPairs ps) (fun _ => Res.unit) m).1,
      { (reorderToPairs ps { m with sched := sch }).2 with sched := [] }) ∧
    ReorderRel ext m { (reorderToPairs ps { m with sched := sch }).2 with sched := [] }
  generalize (withSched sch (reorderToPairs ps) (fun _ => Res.unit) m).1 = r1
  generalize (reorderToPairs ps { m with sched := sch }).2 = m' at hR hrel ⊢
  intro hns
  have hl : m'.lastLen = m.lastLen := hrel.lastLen
  have hc : m'.ctx = m.ctx := hrel.ctx
  have hr : m'.roots = m.roots := hrel.roots
  have hG' : Good3 { m' with sched := [] } ext :=
    ⟨hR.inv.setSched [], hR.order, hR.refExact.congr rfl rfl, by show m'.ctx = false; rw [hc]; exact h.ctx,
      rfl, by show m'.roots = []; rw [hr]; exact h.roots⟩
  refine ⟨⟨hG', ?_, hns, ?_⟩, ⟨hrel.held, hrel.names, hrel.nvars, hr, hc, hl, fun _ => rfl⟩⟩
  · intro u hu
    have hx : HeldX ext u := Or.inr hu
    exact ⟨hx.mem hG'.exact, fun σ =>
      heldX_denN_of_heldSame h.inv hR.inv h.exact hR.refExact hrel.held hx σ⟩
  · intro _
    show m'.lastLen.isSome = _
    rw [hl]

theorem loadPickle_step4 (m : Mgr) (ext : Nat → Nat) (h : Good3 m ext) (f : PickleFile) (l : Bool)
    (hg : loadGuard f l m = true) :
    Step4 m ext ext (mapRes (fun _ => Res.unit) (loadPickle f l m)) := by
  have hs := loadPickle_step ext f l m h hg
  exact ⟨hs.good, hs.held, mapRes_noSignal _ _ hs.noSignal,
    fun _ => by show (loadPickle f l m).2.lastLen.isSome = _; rw [hs.lastLen]⟩

/-! ### one step -/

theorem switchSafe_of (m : Mgr) (o : UOp3) (h : m.lastLen.isSome = true → 2 ≤ m.nvars) :
    SwitchSafe m o := fun _ _ hen _ => h hen

/-- every operation of `UOp4` except `configure` -/
theorem step4_all (m : Mgr) (ext : Nat → Nat) (op : UOp4) (h : Good3 m ext) (hg : OpGuard4 m ext op) :
    Good3 (runOp4 op m).2 (ledger4 op m ext) ∧ Held2 ext m (runOp4 op m).2 ∧
    (runOp4 op m).1 ≠ .error .needsReordering ∧
    ((m.lastLen.isSome = true → 2 ≤ m.nvars) →
      (runOp4 op m).2.lastLen.isSome = op.switchAfter m.lastLen.isSome) := by
  have of4 : ∀ {res : Except Err Res × Mgr}, Step4 m ext ext res →
      Good3 res.2 ext ∧ Held2 ext m res.2 ∧ res.1 ≠ .error .needsReordering ∧
      ((m.lastLen.isSome = true → 2 ≤ m.nvars) → res.2.lastLen.isSome = m.lastLen.isSome) :=
    fun hs => ⟨hs.good, hs.held, hs.noSignal, hs.switch⟩
  cases op with
  | op o =>
    exact ⟨step3_inv m ext o h hg, step3_heldSame m ext o h hg, step3_noSignal m ext o h hg,
      fun hsafe => step3_switch m ext o h hg (switchSafe_of m o hsafe)⟩
  | cube d => exact of4 (cube_step4 m ext h d)
  | addExpr s => exact of4 (addExpr_step4 m ext h s)
  | image t s rn q fa => exact of4 (image_step4 m ext h t s rn q fa)
  | preimage t s rn q fa => exact of4 (preimage_step4 m ext h t s rn q fa)
  | gcRooted rs => exact of4 (gcRooted_step4 m ext h rs)
  | reorderToPairs sch ps => exact of4 (reorderToPairs_step4 m ext h sch ps hg).1
  | copyFrom src u => exact of4 (copyFrom_step4 m ext h src u)
  | loadPickle f l => exact of4 (loadPickle_step4 m ext h f l hg)

/-- **`step4_inv`**: every operation with every argument, accepted or rejected, reordering
enabled or not, leads from a good state to a good state -/
theorem step4_inv (m : Mgr) (ext : Nat → Nat) (op : UOp4) (h : Good3 m ext) (hg : OpGuard4 m ext op) :
    Good3 (runOp4 op m).2 (ledger4 op m ext) := (step4_all m ext op h hg).1

/-- every operation keeps every reference the user holds: still a node, same function BY NAME -/
theorem step4_heldSame (m : Mgr) (ext : Nat → Nat) (op : UOp4) (h : Good3 m ext) (hg : OpGuard4 m ext op) :
    Held2 ext m (runOp4 op m).2 := (step4_all m ext op h hg).2.1

/-- the internal signal `_NeedsReordering` never reaches the user -/
theorem step4_noSignal (m : Mgr) (ext : Nat → Nat) (op : UOp4) (h : Good3 m ext) (hg : OpGuard4 m ext op) :
    (runOp4 op m).1 ≠ .error .needsReordering := (step4_all m ext op h hg).2.2.1

/-- only `configure` changes whether dynamic reordering is enabled (outside "enabled, fewer than
two variables") -/
theorem step4_switch (m : Mgr) (ext : Nat → Nat) (op : UOp4) (h : Good3 m ext) (hg : OpGuard4 m ext op)
    (hsafe : m.lastLen.isSome = true → 2 ≤ m.nvars) :
    (runOp4 op m).2.lastLen.isSome = op.switchAfter m.lastLen.isSome :=
  (step4_all m ext op h hg).2.2.2 hsafe

/-- the ledger entry of `k` changes only by the user's own `incref` / `decref` of `k` -/
theorem ledger4_eq (op : UOp4) (m : Mgr) (ext : Nat → Nat) (k : Nat)
    (h : ∀ v : Int, v.natAbs = k → op ≠ .op (.op (.base (.incref v))) ∧ op ≠ .op (.op (.base (.decref v)))) :
    ledger4 op m ext k = ext k := by
  cases op with
  | op o =>
    exact ledger3_eq o m ext k (fun v hv =>
      ⟨fun hh => (h v hv).1 (by rw [hh]), fun hh => (h v hv).2 (by rw [hh])⟩)
  | _ => rfl

/-- **`step4_held`**: across EVERY step a reference `u` the user holds is a node before and after,
under the same number, denotes the same function of the variable NAMES, and its counter is
`stored edges + the user's references (+ 1 for the terminal)` for the ledger after the step -/
theorem step4_held (m : Mgr) (ext : Nat → Nat) (op : UOp4) (h : Good3 m ext) (hg : OpGuard4 m ext op)
    (u : Int) (hu : 0 < ext u.natAbs) :
    m.tbl.Mem u ∧ (runOp4 op m).2.tbl.Mem u ∧
    (∀ σ, denN (runOp4 op m).2.tbl u σ = denN m.tbl u σ) ∧
    (runOp4 op m).2.ref[u.natAbs]? =
      some (indeg (runOp4 op m).2.tbl u.natAbs + ledger4 op m ext u.natAbs +
        (if u.natAbs = 1 then 1 else 0)) := by
  obtain ⟨hm', hd⟩ := step4_heldSame m ext op h hg u hu
  exact ⟨h.exact.mem_of_ext_pos hu, hm', hd, (step4_inv m ext op h hg).exact.get hm'⟩

/-- a REJECTED call does not touch the user's ledger -/
theorem rejected4_ledger (m : Mgr) (ext : Nat → Nat) (op : UOp4) (h : Good3 m ext) (hg : OpGuard4 m ext op)
    (e : Err) (hrej : (runOp4 op m).1 = .error e) : ledger4 op m ext = ext := by
  cases op with
  | op o => exact rejected3_ledger m ext o h hg e hrej
  | _ => rfl

/-! ### histories -/

def step4 (op : UOp4) (s : St) : St := ⟨(runOp4 op s.m).2, ledger4 op s.m s.ext⟩

def run4 : List UOp4 → St → St
  | [], s => s
  | op :: ops, s => run4 ops (step4 op s)

def Ops4Guarded : List UOp4 → St → Prop
  | [], _ => True
  | op :: ops, s => OpGuard4 s.m s.ext op ∧ Ops4Guarded ops (step4 op s)

def results4 : List UOp4 → St → List (Except Err Res)
  | [], _ => []
  | op :: ops, s => (runOp4 op s.m).1 :: results4 ops (step4 op s)

instance decOps4Guarded : (ops : List UOp4) → (s : St) → Decidable (Ops4Guarded ops s)
  | [], _ => isTrue trivial
  | op :: ops, s => by
    unfold Ops4Guarded
    exact @instDecidableAnd _ _ _ (decOps4Guarded ops (step4 op s))

theorem run4_append (a b : List UOp4) (s : St) : run4 (a ++ b) s = run4 b (run4 a s) := by
  induction a generalizing s with
  | nil => rfl
  | cons op a ih => exact ih (step4 op s)

theorem ops4Guarded_append (a b : List UOp4) (s : St) :
    Ops4Guarded (a ++ b) s ↔ (Ops4Guarded a s ∧ Ops4Guarded b (run4 a s)) := by
  induction a generalizing s with
  | nil => simp [Ops4Guarded, run4]
  | cons op a ih =>
    simp only [List.cons_append, Ops4Guarded, run4, ih (step4 op s), and_assoc]

/-- **`reachable4_from`**: a guarded history from ANY good state — the empty manager, the manager
a constructor `BDD(levels)` made, a `copy.copy`, the result of `reduction()`, a manager that
files were loaded into — ends in a good state -/
theorem reachable4_from (ops : List UOp4) (s : St) (h : Good3 s.m s.ext) (hg : Ops4Guarded ops s) :
    Good3 (run4 ops s).m (run4 ops s).ext := by
  induction ops generalizing s with
  | nil => exact h
  | cons op ops ih => exact ih (step4 op s) (step4_inv s.m s.ext op h hg.1) hg.2

/-- **`reachable4_inv`**: every state reached from the empty manager by a guarded history -/
theorem reachable4_inv (ops : List UOp4) (hg : Ops4Guarded ops St.init) :
    Good3 (run4 ops St.init).m (run4 ops St.init).ext :=
  reachable4_from ops St.init Good3.init hg

/-- the histories of DDProofs.Reach3 are histories -/
theorem run4_op (ops : List UOp3) (s : St) : run4 (ops.map .op) s = run3 ops s := by
  induction ops generalizing s with
  | nil => rfl
  | cons op ops ih => exact ih (step3 op s)

theorem ops4Guarded_op (ops : List UOp3) (s : St) :
    Ops4Guarded (ops.map .op) s ↔ Ops3Guarded ops s := by
  induction ops generalizing s with
  | nil => exact Iff.rfl
  | cons op ops ih => exact and_congr Iff.rfl (ih (step3 op s))

/-- a reference the user holds and does not release stays a node and keeps its function of the
variable NAMES through ANY guarded continuation, from any good state -/
theorem run4_held (ops : List UOp4) (s : St) (h : Good3 s.m s.ext) (hg : Ops4Guarded ops s) (u : Int)
    (hheld : ∀ (pre post : List UOp4), ops = pre ++ post → 0 < (run4 pre s).ext u.natAbs) :
    (run4 ops s).m.tbl.Mem u ∧ ∀ σ, denN (run4 ops s).m.tbl u σ = denN s.m.tbl u σ := by
  induction ops generalizing s with
  | nil => exact ⟨h.exact.mem_of_ext_pos (hheld [] [] rfl), fun _ => rfl⟩
  | cons op ops ih =>
    have h0 : 0 < s.ext u.natAbs := hheld [] (op :: ops) rfl
    obtain ⟨-, hd1⟩ := step4_heldSame s.m s.ext op h hg.1 u h0
    obtain ⟨hm2, hd2⟩ := ih (step4 op s) (step4_inv s.m s.ext op h hg.1) hg.2
      (fun pre post he => hheld (op :: pre) post (by rw [he]; rfl))
    exact ⟨hm2, fun σ => (hd2 σ).trans (hd1 σ)⟩

/-- with the default iteration order and `levels=False` every new call is admissible in every
good state, whatever its arguments -/
theorem guard4_default (m : Mgr) (ext : Nat → Nat) (h : Good3 m ext) :
    (∀ ps, OpGuard4 m ext (.reorderToPairs [] ps)) ∧ (∀ f, OpGuard4 m ext (.loadPickle f false)) := by
  refine ⟨fun ps => ?_, fun f => loadGuard_false f m⟩
  have hk := reorderToPairs_keep (swapOK0 ext) ps { m with sched := [] } ⟨h.reorderInv [], rfl⟩
  apply isSchedErr_of_ne
  intro he
  exact (hk.total.2 _ he).ne_sched rfl

end DD
