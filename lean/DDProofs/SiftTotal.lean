/-
  DDProofs.SiftTotal — sifting never raises: the size bookkeeping of `_shift` / `_reorder_var` /
  `_apply_sifting` against the abstract swap contract plus "the number of nodes is a function of
  the order and of the held functions" (`SiftEnv2.size`, discharged by `len_determined`).

  * `assocSet` / `argMin` : the `sizes` dict and `min(sizes, key=sizes.get)`.
  * `shift_sizes` : `_shift(s, e)` returns a dict that maps EVERY level `p` between `s` and `e` to
    the number of nodes of a state in which the variable has been moved from `s` to `p`.
  * `reorderVar_total` : both size assertions of `_reorder_var` hold.
  * `applySifting_total` : `_apply_sifting` returns normally.
-/
import DDProofs.ShiftAbs
open Std

namespace DD

/-! ### the `sizes` dict -/

def NodupKeys (l : List (Nat × Nat)) : Prop := (l.map (·.1)).Nodup

theorem assocSet_cons (k0 v0 : Nat) (rest : List (Nat × Nat)) (k v : Nat) :
    assocSet ((k0, v0) :: rest) k v =
      if k0 = k then (k, v) :: rest.map (fun p => if p.1 = k then (k, v) else p)
      else (k0, v0) :: assocSet rest k v := by
  unfold assocSet
  by_cases h0 : k0 = k
  · simp [h0]
  · simp only [List.any_cons, h0, decide_false, Bool.false_or, List.map_cons, if_false]
    split
    · rfl
    · rfl

theorem lookup_map_other (rest : List (Nat × Nat)) (k v k' : Nat) (h : k' ≠ k) :
    (rest.map (fun p => if p.1 = k then (k, v) else p)).lookup k' = rest.lookup k' := by
  induction rest with
  | nil => rfl
  | cons a r ih =>
    obtain ⟨a1, a2⟩ := a
    by_cases ha : a1 = k
    · subst ha
      have : (k' == a1) = false := by simp [h]
      simp [List.lookup, this, ih]
    · simp only [List.map_cons, ha, if_false, List.lookup]
      rw [ih]

theorem lookup_assocSet (l : List (Nat × Nat)) (k v k' : Nat) :
    (assocSet l k v).lookup k' = if k' = k then some v else l.lookup k' := by
  induction l with
  | nil =>
    unfold assocSet
    by_cases h : k' = k
    · simp [List.lookup, h]
    · have : (k' == k) = false := by simp [h]
      simp [List.lookup, h, this]
  | cons a rest ih =>
    obtain ⟨k0, v0⟩ := a
    rw [assocSet_cons]
    by_cases h0 : k0 = k
    · subst h0
      simp only [if_true]
      by_cases h : k' = k0
      · simp [List.lookup, h]
      · have : (k' == k0) = false := by simp [h]
        simp only [List.lookup, this, h, if_false]
        exact lookup_map_other rest k0 v k' h
    · simp only [h0, if_false]
      by_cases h : k' = k0
      · subst h
        simp [List.lookup, h0]
      · have : (k' == k0) = false := by simp [h]
        simp only [List.lookup, this]
        exact ih

theorem keys_map_replace (rest : List (Nat × Nat)) (k v : Nat) :
    (rest.map (fun p => if p.1 = k then (k, v) else p)).map (·.1) = rest.map (·.1) := by
  induction rest with
  | nil => rfl
  | cons b r ih =>
    simp only [List.map_cons, ih]
    congr 1
    split
    · next h => exact h.symm
    · rfl

theorem keys_assocSet (l : List (Nat × Nat)) (k v : Nat) :
    (assocSet l k v).map (·.1) = if k ∈ l.map (·.1) then l.map (·.1) else l.map (·.1) ++ [k] := by
  induction l with
  | nil => simp [assocSet]
  | cons a rest ih =>
    obtain ⟨k0, v0⟩ := a
    rw [assocSet_cons]
    by_cases h0 : k0 = k
    · subst h0
      simp only [if_true, List.map_cons, List.mem_cons, true_or]
      rw [keys_map_replace]
    · simp only [h0, if_false, List.map_cons, ih, List.mem_cons]
      have : ¬ k = k0 := fun e => h0 e.symm
      simp only [this, false_or]
      split <;> simp

theorem NodupKeys.assocSet {l : List (Nat × Nat)} (h : NodupKeys l) (k v : Nat) :
    NodupKeys (assocSet l k v) := by
  unfold NodupKeys at *
  rw [keys_assocSet]
  split
  · exact h
  · next hk =>
    rw [List.nodup_append]
    refine ⟨h, by simp, ?_⟩
    intro a ha b hb
    rw [List.mem_singleton] at hb
    subst hb
    intro e; subst e; exact hk ha

theorem sizes_mem_of_lookup {l : List (Nat × Nat)} {k v : Nat} (h : l.lookup k = some v) : (k, v) ∈ l := by
  induction l with
  | nil => cases h
  | cons a r ih =>
    obtain ⟨a1, a2⟩ := a
    simp only [List.lookup] at h
    split at h
    · next e => rw [beq_iff_eq] at e; cases h; subst e; exact List.mem_cons_self
    · exact List.mem_cons_of_mem _ (ih h)

theorem sizes_lookup_of_mem {l : List (Nat × Nat)} (hn : NodupKeys l) {k v : Nat} (h : (k, v) ∈ l) :
    l.lookup k = some v := by
  induction l with
  | nil => cases h
  | cons a r ih =>
    obtain ⟨a1, a2⟩ := a
    unfold NodupKeys at hn
    simp only [List.map_cons, List.nodup_cons] at hn
    rcases List.mem_cons.mp h with e | h'
    · cases e; simp [List.lookup]
    · have hne : k ≠ a1 := by
        intro e; subst e
        exact hn.1 (List.mem_map.mpr ⟨(k, v), h', rfl⟩)
      have : (k == a1) = false := by simp [hne]
      simp only [List.lookup, this]
      exact ih hn.2 h'

theorem foldl_min (rest : List (Nat × Nat)) : ∀ (b : Nat × Nat),
    (rest.foldl (fun (b : Nat × Nat) p => if p.2 < b.2 then p else b) b = b ∨
      rest.foldl (fun (b : Nat × Nat) p => if p.2 < b.2 then p else b) b ∈ rest) ∧
    (rest.foldl (fun (b : Nat × Nat) p => if p.2 < b.2 then p else b) b).2 ≤ b.2 ∧
    ∀ p ∈ rest, (rest.foldl (fun (b : Nat × Nat) p => if p.2 < b.2 then p else b) b).2 ≤ p.2 := by
  induction rest with
  | nil => intro b; simp
  | cons a r ih =>
    intro b
    simp only [List.foldl_cons]
    by_cases hab : a.2 < b.2
    · simp only [hab, if_true]
      obtain ⟨h1, h2, h3⟩ := ih a
      refine ⟨Or.inr ?_, by omega, ?_⟩
      · rcases h1 with h1 | h1
        · rw [h1]; exact List.mem_cons_self
        · exact List.mem_cons_of_mem _ h1
      · intro p hp
        rcases List.mem_cons.mp hp with rfl | hp
        · exact h2
        · exact h3 p hp
    · simp only [hab, if_false]
      obtain ⟨h1, h2, h3⟩ := ih b
      refine ⟨?_, h2, ?_⟩
      · rcases h1 with h1 | h1
        · exact Or.inl h1
        · exact Or.inr (List.mem_cons_of_mem _ h1)
      · intro p hp
        rcases List.mem_cons.mp hp with rfl | hp
        · omega
        · exact h3 p hp

/-- `min(sizes, key=sizes.get)` returns a key with the least value -/
theorem argMin_spec (l : List (Nat × Nat)) (hn : NodupKeys l) (k : Nat) (h : argMin l = some k) :
    ∃ v, l.lookup k = some v ∧ ∀ k' v', l.lookup k' = some v' → v ≤ v' := by
  cases l with
  | nil => cases h
  | cons a rest =>
    obtain ⟨k0, v0⟩ := a
    simp only [argMin, Option.some.injEq] at h
    obtain ⟨h1, h2, h3⟩ := foldl_min rest (k0, v0)
    generalize hr : rest.foldl (fun (b : Nat × Nat) p => if p.2 < b.2 then p else b) (k0, v0) = r at h h1 h2 h3
    obtain ⟨rk, rv⟩ := r
    simp only at h h2 h3
    subst h
    have hmem : (rk, rv) ∈ (k0, v0) :: rest := by
      rcases h1 with h1 | h1
      · rw [h1]; exact List.mem_cons_self
      · exact List.mem_cons_of_mem _ h1
    refine ⟨rv, sizes_lookup_of_mem hn hmem, ?_⟩
    intro k' v' hl
    rcases List.mem_cons.mp (sizes_mem_of_lookup hl) with e | e
    · cases e; exact h2
    · exact h3 _ e

/-! ### compositions of shifts -/

theorem shiftPerm_snoc_up (s i j : Nat) (h : s ≤ i) :
    shiftPerm s i (swp i (i + 1) j) = shiftPerm s (i + 1) j := by
  unfold shiftPerm swp
  repeat' split
  all_goals omega

theorem shiftPerm_snoc_down (s i j : Nat) (h : i + 1 ≤ s) :
    shiftPerm s (i + 1) (swp i (i + 1) j) = shiftPerm s i j := by
  unfold shiftPerm swp
  repeat' split
  all_goals omega

/-- going from `s` to `e` and back to a level `k` in between is going from `s` to `k` -/
theorem shiftPerm_back (s e k j : Nat) (h : (s ≤ k ∧ k ≤ e) ∨ (e ≤ k ∧ k ≤ s)) :
    shiftPerm s e (shiftPerm e k j) = shiftPerm s k j := by
  unfold shiftPerm
  repeat' split
  all_goals omega

section Abs
variable {E : Err → Prop} {P : Mgr → Prop} {R : Mgr → Mgr → Prop}

/-- a state in which the variable that was at level `s` of `m0` has been moved to level `p` -/
def AtPos (P : Mgr → Prop) (R : Mgr → Mgr → Prop) (m0 : Mgr) (s p : Nat) (mp : Mgr) : Prop :=
  P mp ∧ R m0 mp ∧ mp.nvars = m0.nvars ∧ mp.roots = m0.roots ∧
    ∀ j, mp.tbl.l2v[j]? = m0.tbl.l2v[shiftPerm s p j]?

/-- the recorded sizes are sizes of states with the variable at the recorded level, and every level
of the range `lo..hi` has been recorded -/
structure SizesOK (P : Mgr → Prop) (R : Mgr → Mgr → Prop) (m0 : Mgr) (s lo hi : Nat)
    (sizes : List (Nat × Nat)) : Prop where
  nodup : NodupKeys sizes
  sound : ∀ p v, sizes.lookup p = some v → lo ≤ p ∧ p ≤ hi ∧ ∃ mp, AtPos P R m0 s p mp ∧ v = mp.len
  cover : lo < hi → ∀ p, lo ≤ p → p ≤ hi → (sizes.lookup p).isSome

theorem SizesOK.nil (m0 : Mgr) (s : Nat) : SizesOK P R m0 s s s [] :=
  ⟨List.nodup_nil, (fun _ _ h => by cases h), (fun h => by omega)⟩

/-- `_shift` towards the bottom, with the size bookkeeping -/
theorem shiftLoop_up_sizes (S : SwapOK E P R) (m0 : Mgr) (s : Nat) :
    ∀ (dist f i : Nat) (sizes : List (Nat × Nat)) (m : Mgr),
    AtPos P R m0 s i m → s ≤ i → i + dist < m0.nvars → dist ≤ f → SizesOK P R m0 s s i sizes →
    OkOr E (fun sz m' => AtPos P R m0 s (i + dist) m' ∧ SizesOK P R m0 s s (i + dist) sz)
      (shiftLoop f (i : Int) ((i + dist : Nat) : Int) 1 sizes m) := by
  intro dist
  induction dist with
  | zero =>
    intro f i sizes m hA _ _ _ hS
    have : shiftLoop f (i : Int) ((i + 0 : Nat) : Int) 1 sizes m = (.ok sizes, m) := by
      cases f <;> simp [shiftLoop, M.pure_eq]
    rw [this]
    exact ⟨hA, hS⟩
  | succ dist ih =>
    intro f i sizes m hA hsi hlt hf hS
    obtain ⟨hP, hR, hn, hr, hl⟩ := hA
    obtain ⟨f', rfl⟩ : ∃ f', f = f' + 1 := ⟨f - 1, by omega⟩
    have hne : ¬ ((i : Int) = ((i + (dist + 1) : Nat) : Int)) := by omega
    unfold shiftLoop
    simp only [hne, if_false]
    have hi1 : i + 1 < m.nvars := by rw [hn]; omega
    rw [M.bind_eq, swap_levels_eq m i hi1]
    have hs := S.step m i hP hi1
    generalize swapBody i (i + 1) m = res at hs
    obtain ⟨r, m1⟩ := res
    cases r with
    | error e => exact hs
    | ok r =>
      obtain ⟨hP1, hR1, he1, hr1⟩ := hs
      simp only
      have e1 : (i : Int) + 1 = ((i + 1 : Nat) : Int) := by omega
      have e2 : ((i + (dist + 1) : Nat) : Int) = ((i + 1 + dist : Nat) : Int) := by omega
      rw [e1, e2]
      have hA1 : AtPos P R m0 s (i + 1) m1 := by
        refine ⟨hP1, S.trans _ _ _ hR hR1, he1.nvars.trans hn, he1.roots.trans hr, ?_⟩
        intro j
        rw [he1.l2v, hl, shiftPerm_snoc_up s i j hsi]
      have hA0 : AtPos P R m0 s i m := ⟨hP, hR, hn, hr, hl⟩
      have hS1 : SizesOK P R m0 s s (i + 1)
          (assocSet (assocSet sizes (i : Int).toNat r.1) ((i + 1 : Nat) : Int).toNat r.2) := by
        simp only [Int.toNat_natCast]
        rw [hr1]
        refine ⟨(hS.nodup.assocSet _ _).assocSet _ _, ?_, ?_⟩
        · intro p v hpv
          rw [lookup_assocSet, lookup_assocSet] at hpv
          by_cases h1 : p = i + 1
          · simp only [h1, if_true, Option.some.injEq] at hpv
            subst h1
            exact ⟨by omega, by omega, m1, hA1, hpv.symm⟩
          · simp only [h1, if_false] at hpv
            by_cases h2 : p = i
            · simp only [h2, if_true, Option.some.injEq] at hpv
              subst h2
              exact ⟨hsi, by omega, m, hA0, hpv.symm⟩
            · simp only [h2, if_false] at hpv
              obtain ⟨a, b, c⟩ := hS.sound p v hpv
              exact ⟨a, by omega, c⟩
        · intro _ p hp1 hp2
          rw [lookup_assocSet, lookup_assocSet]
          by_cases h1 : p = i + 1
          · simp [h1]
          · by_cases h2 : p = i
            · simp [h1, h2]
            · simp only [h1, h2, if_false]
              exact hS.cover (by omega) p hp1 (by omega)
      have h2 := ih f' (i + 1) _ m1 hA1 (by omega) (by omega) (by omega) hS1
      refine OkOr.mono ?_ h2
      intro sz m2 ⟨hA2, hS2⟩
      have e : i + 1 + dist = i + (dist + 1) := by omega
      rw [e] at hA2 hS2
      exact ⟨hA2, hS2⟩

/-- `_shift` towards the top, with the size bookkeeping -/
theorem shiftLoop_down_sizes (S : SwapOK E P R) (m0 : Mgr) (s : Nat) :
    ∀ (dist f e : Nat) (sizes : List (Nat × Nat)) (m : Mgr),
    AtPos P R m0 s (e + dist) m → e + dist ≤ s → s < m0.nvars → dist ≤ f →
    SizesOK P R m0 s (e + dist) s sizes →
    OkOr E (fun sz m' => AtPos P R m0 s e m' ∧ SizesOK P R m0 s e s sz)
      (shiftLoop f ((e + dist : Nat) : Int) (e : Int) (-1) sizes m) := by
  intro dist
  induction dist with
  | zero =>
    intro f e sizes m hA _ _ _ hS
    have : shiftLoop f ((e + 0 : Nat) : Int) (e : Int) (-1) sizes m = (.ok sizes, m) := by
      cases f <;> simp [shiftLoop, M.pure_eq]
    rw [this]
    exact ⟨hA, hS⟩
  | succ dist ih =>
    intro f e sizes m hA hes hsn hf hS
    have hA0 := hA
    obtain ⟨hP, hR, hn, hr, hl⟩ := hA
    obtain ⟨f', rfl⟩ : ∃ f', f = f' + 1 := ⟨f - 1, by omega⟩
    have hne : ¬ (((e + (dist + 1) : Nat) : Int) = (e : Int)) := by omega
    unfold shiftLoop
    simp only [hne, if_false]
    have e0 : ((e + (dist + 1) : Nat) : Int) = ((e + dist : Nat) : Int) + 1 := by omega
    have e1 : ((e + (dist + 1) : Nat) : Int) + -1 = ((e + dist : Nat) : Int) := by omega
    have hi1 : e + dist + 1 < m.nvars := by rw [hn]; omega
    rw [e1, M.bind_eq, e0, swap_levels_eq' m (e + dist) hi1]
    have hs := S.step m (e + dist) hP hi1
    generalize swapBody (e + dist) (e + dist + 1) m = res at hs
    obtain ⟨r, m1⟩ := res
    cases r with
    | error err => exact hs
    | ok r =>
      obtain ⟨hP1, hR1, he1, hr1⟩ := hs
      simp only
      have hA1 : AtPos P R m0 s (e + dist) m1 := by
        refine ⟨hP1, S.trans _ _ _ hR hR1, he1.nvars.trans hn, he1.roots.trans hr, ?_⟩
        intro j
        rw [he1.l2v, hl]
        have := shiftPerm_snoc_down s (e + dist) j (by omega)
        rw [show e + (dist + 1) = e + dist + 1 by omega, this]
      have hS1 : SizesOK P R m0 s (e + dist) s
          (assocSet (assocSet sizes (((e + dist : Nat) : Int) + 1).toNat r.1)
            ((e + dist : Nat) : Int).toNat r.2) := by
        have t1 : (((e + dist : Nat) : Int) + 1).toNat = e + dist + 1 := by omega
        rw [t1, Int.toNat_natCast, hr1]
        refine ⟨(hS.nodup.assocSet _ _).assocSet _ _, ?_, ?_⟩
        · intro p v hpv
          rw [lookup_assocSet, lookup_assocSet] at hpv
          by_cases h1 : p = e + dist
          · simp only [h1, if_true, Option.some.injEq] at hpv
            subst h1
            exact ⟨by omega, by omega, m1, hA1, hpv.symm⟩
          · simp only [h1, if_false] at hpv
            by_cases h2 : p = e + dist + 1
            · simp only [h2, if_true, Option.some.injEq] at hpv
              subst h2
              refine ⟨by omega, by omega, m, ?_, hpv.symm⟩
              rw [show e + dist + 1 = e + (dist + 1) by omega]; exact hA0
            · simp only [h2, if_false] at hpv
              obtain ⟨a, b, c⟩ := hS.sound p v hpv
              exact ⟨by omega, b, c⟩
        · intro _ p hp1 hp2
          rw [lookup_assocSet, lookup_assocSet]
          by_cases h1 : p = e + dist
          · simp [h1]
          · by_cases h2 : p = e + dist + 1
            · simp [h1, h2]
            · simp only [h1, h2, if_false]
              exact hS.cover (by omega) p (by omega) hp2
      exact ih f' e _ m1 hA1 (by omega) hsn (by omega) hS1

/-- **`_shift(s, e)` with its `sizes` result** -/
theorem shift_sizes (S : SwapOK E P R) (m : Mgr) (hP : P m) (s e : Nat) (hs : s < m.nvars)
    (he : e < m.nvars) :
    OkOr E (fun sz m' => AtPos P R m s e m' ∧ SizesOK P R m s (min s e) (max s e) sz) (shift s e m) := by
  have hA : AtPos P R m s s m := ⟨hP, S.refl m, rfl, rfl, fun j => by rw [shiftPerm_self]⟩
  unfold shift
  simp only [M.bind_eq, M.get_eq, hs, he, decide_true, M.assert_true]
  by_cases hlt : s < e
  · simp only [hlt, if_true]
    obtain ⟨d, rfl⟩ : ∃ d, e = s + d := ⟨e - s, by omega⟩
    have := shiftLoop_up_sizes S m s d (m.nvars + 1) s [] m hA (Nat.le_refl _) he (by omega) (SizesOK.nil m s)
    refine OkOr.mono ?_ this
    intro sz m' ⟨a, b⟩
    rw [show min s (s + d) = s by omega, show max s (s + d) = s + d by omega]
    exact ⟨a, b⟩
  · simp only [hlt, if_false]
    obtain ⟨d, rfl⟩ : ∃ d, s = e + d := ⟨s - e, by omega⟩
    have := shiftLoop_down_sizes S m (e + d) d (m.nvars + 1) e [] m hA (Nat.le_refl _) hs (by omega)
      (SizesOK.nil m (e + d))
    refine OkOr.mono ?_ this
    intro sz m' ⟨a, b⟩
    rw [show min (e + d) e = e by omega, show max (e + d) e = e + d by omega]
    exact ⟨a, b⟩

/-! ### sifting -/

/-- the swap contract plus: the initial collection establishes `P` from `P0`, consuming the
recorded iteration order keeps `P`, and the number of nodes is a function of the order and of
the `R`-class -/
structure SiftEnv2 (E : Err → Prop) (P0 P : Mgr → Prop) (R : Mgr → Mgr → Prop) : Prop
    extends SwapOK E P R where
  gc : ∀ m, P0 m → ∃ m', collectGarbage none m = (.ok (), m') ∧ P m' ∧ R m m' ∧
    m'.tbl.vars = m.tbl.vars
  sched : ∀ m s, P m → (m.sched = [] → s = []) → P { m with sched := s } ∧ R m { m with sched := s }
  /-- the iteration order of `for var in names`: any permutation of the declared names -/
  order : ∀ m, P m → OkOr E (fun names m' => (∃ s, m' = { m with sched := s } ∧ (m.sched = [] → s = [])) ∧
    names.length = m.tbl.vars.size ∧ ∀ v ∈ names, m.tbl.vars.contains v = true) (takeSiftOrder m)
  size : ∀ m0 m1 m2, P m1 → P m2 → R m0 m1 → R m0 m2 → m1.nvars = m2.nvars →
    (∀ j : Nat, m1.tbl.l2v[j]? = m2.tbl.l2v[j]?) → m1.len = m2.len

/-- **`_reorder_var` returns normally**: with at least two variables, for every schedule -/
theorem reorderVar_total {P0 : Mgr → Prop} (Ev : SiftEnv2 E P0 P R) (m : Mgr) (hP : P m) (var : String)
    (hv : m.tbl.vars.contains var = true) (h2 : 2 ≤ m.nvars) :
    OkOr E (fun _ m' => P m' ∧ R m m' ∧ m'.nvars = m.nvars ∧ m'.len ≤ m.len ∧
        ∀ v, m.tbl.vars.contains v = true → m'.tbl.vars.contains v = true) (reorderVar var m) := by
  have S := Ev.toSwapOK
  have hV := S.vars m hP
  rw [TreeMap.contains_eq_isSome_getElem?] at hv
  obtain ⟨level, hl⟩ := Option.isSome_iff_exists.mp hv
  have hlt := hV.lvl_lt hl
  unfold reorderVar
  rw [M.bind_ok (M.get_eq m)]
  have hc : ¬ ((!m.tbl.vars.contains var) = true) := by
    rw [TreeMap.contains_eq_isSome_getElem?, hl]; simp
  rw [if_neg hc]
  have h0 : decide (0 < m.nvars) = true := by simp; omega
  rw [h0, M.bind_ok (M.assert_true _ _), M.bind_ok (levelOfVar_ok m var level hl)]
  generalize hse : (if 2 * level ≥ m.nvars - 1 then (m.nvars - 1, 0) else (0, m.nvars - 1)) = se
  obtain ⟨start, end_⟩ := se
  have hnn : m.nvars = m.tbl.nvars := rfl
  have hst : start < m.nvars ∧ end_ < m.nvars ∧ start ≠ end_ ∧
      ((start ≤ level ∧ level ≤ end_) ∨ (end_ ≤ level ∧ level ≤ start)) := by
    split at hse <;> cases hse <;> omega
  dsimp only
  -- first shift: to the start
  refine OkOr.bind (shift_sizes S m hP level start hlt hst.1) ?_
  intro _ m1 ⟨hA1, _⟩
  obtain ⟨hP1, hR1, hn1, hr1, hl1⟩ := hA1
  -- second shift: across all levels, recording sizes
  refine OkOr.bind (shift_sizes S m1 hP1 start end_ (by rw [hn1]; exact hst.1)
    (by rw [hn1]; exact hst.2.1)) ?_
  intro sizes m2 ⟨hA2, hS2⟩
  obtain ⟨hP2, hR2, hn2, hr2, hl2⟩ := hA2
  have hrange : min start end_ < max start end_ := by omega
  -- the best level
  have hcov := hS2.cover hrange
  have hne : sizes ≠ [] := by
    intro e
    have := hcov start (by omega) (by omega)
    rw [e] at this; cases this
  obtain ⟨k, hk⟩ := argMin_some sizes hne
  rw [hk, M.bind_ok (M.ofOption_some _ _ _)]
  obtain ⟨vk, hvk, hmin⟩ := argMin_spec sizes hS2.nodup k hk
  obtain ⟨hk1, hk2, mk, hAk, hvk'⟩ := hS2.sound k vk hvk
  have hkn : k < m2.nvars := by rw [hn2, hn1]; omega
  -- third shift: back to the best level
  refine OkOr.bind (shift_sizes S m2 hP2 end_ k (by rw [hn2, hn1]; exact hst.2.1) hkn) ?_
  intro _ m3 ⟨hA3, _⟩
  obtain ⟨hP3, hR3, hn3, hr3, hl3⟩ := hA3
  rw [M.bind_ok (M.get_eq m3)]
  -- `m3` has the same order as the recorded state `mk`
  have hR13 : R m1 m3 := S.trans _ _ _ hR2 hR3
  have hsame : m3.len = mk.len := by
    apply Ev.size m1 m3 mk hP3 hAk.1 hR13 hAk.2.1 (by rw [hn3, hn2, hAk.2.2.1])
    intro j
    rw [hl3, hl2, hAk.2.2.2.2, shiftPerm_back start end_ k j (by omega)]
  -- the state recorded for the original level has the original order
  obtain ⟨vl, hvl⟩ := Option.isSome_iff_exists.mp (hcov level (by omega) (by omega))
  obtain ⟨_, _, ml, hAl, hvl'⟩ := hS2.sound level vl hvl
  have hlen0 : ml.len = m.len := by
    apply Ev.size m ml m hAl.1 hP (S.trans _ _ _ hR1 hAl.2.1) (S.refl m) (by rw [hAl.2.2.1, hn1])
    intro j
    rw [hAl.2.2.2.2, hl1, shiftPerm_inv]
  have hle : m3.len ≤ m.len := by
    have := hmin level vl hvl
    rw [hsame, ← hvk', ← hlen0, ← hvl']
    exact this
  have ha : sizes.lookup k = some m3.len := by rw [hvk, hvk', hsame]
  simp only [ha, hle, decide_true]
  rw [M.bind_ok (M.assert_true _ _), M.bind_ok (M.assert_true _ _)]
  refine ⟨hP3, S.trans _ _ _ hR1 hR13, hn3.trans (hn2.trans hn1), hle, ?_⟩
  -- declared variables stay declared: the names are permuted
  intro v hv'
  rw [TreeMap.contains_eq_isSome_getElem?] at hv' ⊢
  obtain ⟨i, hi⟩ := Option.isSome_iff_exists.mp hv'
  have hV3 := S.vars m3 hP3
  have hil := hV.lvl_lt hi
  have h1 : m.tbl.l2v[i]? = some v := (hV.inv v i).mp hi
  -- the level of `v` in `m3`
  let g := fun a => shiftPerm k end_ (shiftPerm end_ start (shiftPerm start level a))
  have hg : m3.tbl.l2v[g i]? = some v := by
    rw [hl3, hl2, hl1]
    show m.tbl.l2v[shiftPerm level start (shiftPerm start end_ (shiftPerm end_ k
      (shiftPerm k end_ (shiftPerm end_ start (shiftPerm start level i)))))]? = some v
    rw [shiftPerm_inv, shiftPerm_inv, shiftPerm_inv]
    exact h1
  rw [(hV3.inv v (g i)).mpr hg]; rfl

theorem siftVars_total {P0 : Mgr → Prop} (Ev : SiftEnv2 E P0 P R) : ∀ (names : List String) (m : Mgr),
    P m → 2 ≤ m.nvars → (∀ v ∈ names, m.tbl.vars.contains v = true) →
    OkOr E (fun _ m' => P m' ∧ R m m' ∧ m'.len ≤ m.len) (siftVars names m) := by
  have S := Ev.toSwapOK
  intro names
  induction names with
  | nil => intro m hP _ _; exact ⟨hP, S.refl m, Nat.le_refl _⟩
  | cons v rest ih =>
    intro m hP h2 hd
    unfold siftVars
    refine OkOr.bind (reorderVar_total Ev m hP v (hd v List.mem_cons_self) h2) ?_
    intro _ m1 ⟨hP1, hR1, hn1, hl1, hd1⟩
    refine OkOr.mono ?_
      (ih m1 hP1 (by rw [hn1]; exact h2) (fun w hw => hd1 w (hd w (List.mem_cons_of_mem _ hw))))
    intro _ m2 ⟨hP2, hR2, hl2⟩
    exact ⟨hP2, S.trans _ _ _ hR1 hR2, Nat.le_trans hl2 hl1⟩

/-- **Sifting returns normally**: with at least two variables, for every schedule -/
theorem applySifting_total {P0 : Mgr → Prop} (Ev : SiftEnv2 E P0 P R) (m : Mgr) (hP : P0 m)
    (h2 : 2 ≤ m.nvars) :
    OkOr E (fun _ m' => P m' ∧ R m m') (applySifting m) := by
  have S := Ev.toSwapOK
  obtain ⟨mg, hrun, hPg, hRg, hvg⟩ := Ev.gc m hP
  have hng : mg.nvars = m.nvars := by show mg.tbl.vars.size = _; rw [hvg]; rfl
  unfold applySifting
  rw [M.bind_ok hrun, M.bind_ok (M.get_eq mg)]
  refine OkOr.bind (Ev.order mg hPg) ?_
  rintro names mb ⟨⟨s, rfl, hs0⟩, hlen, hdecl⟩
  obtain ⟨hPb, hRb⟩ := Ev.sched mg s hPg hs0
  have hne : ¬ (names.isEmpty = true) := by
    intro he
    have : names = [] := List.isEmpty_iff.mp he
    subst this
    have : mg.nvars = mg.tbl.vars.size := rfl
    simp at hlen
    omega
  rw [if_neg hne]
  refine OkOr.bind (siftVars_total Ev names _ hPb (by show 2 ≤ mg.nvars; omega) hdecl) ?_
  intro _ mc ⟨hPc, hRc, hlc⟩
  rw [M.bind_ok (M.get_eq mc)]
  have hle : mc.len ≤ mg.len := hlc
  simp only [hle, decide_true]
  exact ⟨hPc, S.trans _ _ _ hRg (S.trans _ _ _ hRb hRc)⟩

end Abs

end DD
