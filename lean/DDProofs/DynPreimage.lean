/-
  DDProofs.DynPreimage — the branch of `_preimage_of` for partners that are NOT neighbours
  (`preimageFallback`): rename the target with `_copy_bdd` and the full level map, conjoin with
  `bdd.ite(trans, r, -1)`, quantify with `bdd.quantify` — three calls nested in the decorator's
  context.  Abort-aware: the documented result `Q qvars. trans ∧ rename(target)`, or abort by a
  reordering request having only added nodes.  No condition relates the renaming to the variable
  order, and none of the hypotheses behind findings F5 / F5b is needed on this branch
  (`_copy_bdd` rebuilds every level with `ite(var, q, p)`: a substitution).
-/
import DDProofs.DynImage
import DDProofs.DynCube
import DDProofs.ImageWrap
open Std

namespace DD

/-! ### `copyBddK` on a level map with natural-number values is `copyBddF` -/

theorem lookup_map_keyLvl (lm : List (Nat × Nat)) (k : Nat) :
    (lm.map fun p => (p.1, Key.lvl (p.2 : Int))).lookup k =
      (lm.lookup k).map fun j => Key.lvl (j : Int) := by
  induction lm with
  | nil => rfl
  | cons p l ih =>
    rw [List.map_cons, List.lookup_cons, List.lookup_cons, ih]
    cases k == p.1 <;> rfl

theorem copyBddK_eq_F (lm : List (Nat × Nat)) :
    ∀ (fu : Nat) (u : Int) (cache : HashMap Nat Int) (m : Mgr),
      copyBddK (lm.map fun p => (p.1, Key.lvl (p.2 : Int))) fu u cache m =
        copyBddF none lm fu u cache m := by
  intro fu
  induction fu with
  | zero => intro u cache m; rfl
  | succ fu ih =>
    intro u cache m
    unfold copyBddK copyBddF
    simp only [Option.getD_none, ih, lookup_map_keyLvl]
    split
    · rfl
    split
    · rfl
    split
    · rfl
    split
    · rfl
    split
    · rfl
    split
    · rfl
    split
    · rfl
    split
    · rfl
    cases lm.lookup _ with
    | none => rfl
    | some j => rfl

/-! ### the full level map of `_preimage_of` -/

/-- the level map by natural numbers: level `j` goes to `renOf pairs j` -/
def lmNat (n : Nat) (pairs : List (Int × Int)) : List (Nat × Nat) :=
  (List.range n).map fun j => (j, renOf pairs j)

theorem lookup_range_map {β} (f : Nat → β) (n i : Nat) (hi : i < n) :
    ((List.range n).map fun j => (j, f j)).lookup i = some (f i) := by
  induction n with
  | zero => omega
  | succ n ih =>
    rw [List.range_succ, List.map_append, List.lookup_append]
    by_cases h : i < n
    · rw [ih h]; rfl
    · have : i = n := by omega
      subst this
      have hnone : ((List.range i).map fun j => (j, f j)).lookup i = none := by
        rw [List.lookup_eq_none_iff]
        intro p hp
        obtain ⟨j, hj, rfl⟩ := List.mem_map.mp hp
        have := List.mem_range.mp hj
        simp
        omega
      rw [hnone]
      simp

theorem lmNat_lookup (n : Nat) (pairs : List (Int × Int)) (i : Nat) (hi : i < n) :
    (lmNat n pairs).lookup i = some (renOf pairs i) := lookup_range_map _ n i hi

/-- looking a level up in a renaming without bad keys is looking it up in its level pairs -/
theorem lookup_lvl_intPairs : ∀ (rn : List (Key × Key)), badKeys rn = [] → ∀ j : Int,
    rn.lookup (Key.lvl j) = ((intPairs rn).lookup j).map Key.lvl := by
  intro rn
  induction rn with
  | nil => intro _ _; rfl
  | cons x rest ih =>
    intro hb j
    obtain ⟨k, v⟩ := x
    cases k with
    | name s =>
      have hb' : badKeys rest = [] := by
        unfold badKeys at hb ⊢
        rw [List.filterMap_cons] at hb
        exact hb
      have hi : intPairs ((Key.name s, v) :: rest) = intPairs rest := by
        unfold intPairs
        rw [List.filterMap_cons]
      rw [hi, List.lookup_cons, ← ih hb' j]
      have : (Key.lvl j == Key.name s) = false := by simp
      rw [this]
    | lvl a =>
      cases v with
      | name s =>
        exfalso
        unfold badKeys at hb
        rw [List.filterMap_cons] at hb
        simp at hb
      | lvl b =>
        have hb' : badKeys rest = [] := by
          unfold badKeys at hb ⊢
          rw [List.filterMap_cons] at hb
          exact hb
        have hi : intPairs ((Key.lvl a, Key.lvl b) :: rest) = (a, b) :: intPairs rest := by
          unfold intPairs
          rw [List.filterMap_cons]
        rw [hi, List.lookup_cons, List.lookup_cons, ih hb' j]
        by_cases he : j = a
        · subst he
          simp
        · have h1 : (Key.lvl j == Key.lvl a) = false := by
            simp only [beq_eq_false_iff_ne, ne_eq]
            exact fun h => he (Key.lvl.inj h)
          have h2 : (j == a) = false := by simpa using he
          rw [h1, h2]

/-- with no bad keys and non-negative values, the level map of `_preimage_of` is `lmNat` -/
theorem preimageLevelMap_eq (n : Nat) (rn : List (Key × Key)) (hb : badKeys rn = [])
    (hval : ∀ p, p ∈ intPairs rn → 0 ≤ p.2) :
    preimageLevelMap n rn =
      (lmNat n (intPairs rn)).map fun p => (p.1, Key.lvl (p.2 : Int)) := by
  unfold preimageLevelMap lmNat
  rw [List.map_map]
  apply List.map_congr_left
  intro j _
  simp only [Function.comp]
  rw [lookup_lvl_intPairs rn hb, ← renOf_eq (intPairs rn) hval j]
  cases (intPairs rn).lookup (j : Int) <;> rfl

/-! ### `quantify` over levels, nested in a context -/

/-- the decorated `quantify`, called with a set of levels from inside a context -/
theorem quantify_levels_out (m : Mgr) (hI : Inv m) (hc : m.ctx = true) (u : Int)
    (hu : m.tbl.Mem u) (fa : Bool) (q : List Nat) (hql : ∀ i, i ∈ q → m.tbl.l2v.contains i = true) :
    Outcome m (fun r m' => m'.tbl.Mem r ∧ ∀ a, den m'.tbl r a = true ↔ qsem fa q (den m.tbl u) a)
      (quantify u (q.map fun (i : Nat) => Key.lvl (i : Int)) fa m) := by
  have hW := hI.wf.toWF
  unfold quantify
  apply Outcome.nested hc
  unfold quantifyBody
  rw [mapToLevelE_levels m.tbl q hql]
  simp only
  rcases (quantifyF_out q fa (m.nvars + 2) m u (sortNat (dedup q)) {} hI (Or.inl hc) hu
    (QMemo.empty _ _ _) (fun j hj _ => (mem_ordvar j _).mpr hj) (by omega)).cases with
    ⟨r, c, m1, he, hs, _, hp⟩ | ⟨m1, he, hs, ha⟩
  · rw [he]
    refine ⟨hs, hp.mr, fun a => ?_⟩
    rw [hp.den a, den_ext_fun hs.ext hW u hu]
  · rw [he]; exact ⟨rfl, hs, ha⟩

/-! ### the fallback branch -/

/-- what the branch returns: `Q q. trans ∧ target[rename]`, levels -/
def PreFallbackPost (fa : Bool) (q : List Nat) (pairs : List (Int × Int)) (trans target : Int)
    (t : Tbl) (r : Int) (t' : Tbl) : Prop :=
  t'.Mem r ∧ ∀ a, den t' r a = true ↔
    qsem fa q (fun b => den t trans b && den t target (fun j => b (renOf pairs j))) a

/-- the branch of `_preimage_of` for partners that are not neighbours, inside a context: for a
renaming whose level pairs are declared levels (no undeclared name as a value) and quantified
levels that are declared, ANY order: the documented result, or abort having only added nodes -/
theorem preimageFallback_out (m : Mgr) (hI : Inv m) (hc : m.ctx = true) (trans target : Int)
    (hu : m.tbl.Mem trans) (hv : m.tbl.Mem target) (fa : Bool) (rn : List (Key × Key))
    (q : List Nat) (hb : badKeys rn = [])
    (hlv : ∀ p, p ∈ intPairs rn →
      0 ≤ p.1 ∧ p.1 < (m.nvars : Int) ∧ 0 ≤ p.2 ∧ p.2 < (m.nvars : Int))
    (hql : ∀ i, i ∈ q → m.tbl.l2v.contains i = true) :
    Outcome m (fun r m' => PreFallbackPost fa q (intPairs rn) trans target m.tbl r m'.tbl)
      (preimageFallback trans target rn q fa m) := by
  have hW := hI.wf.toWF
  have hnv : m.nvars = m.tbl.nvars := rfl
  generalize hpairs : intPairs rn = pairs at hlv ⊢
  have hrlt : ∀ i, i < m.tbl.nvars → renOf pairs i < m.tbl.nvars := fun i hi =>
    renOf_lt pairs m.nvars (fun p hp => (hlv p hp).2.2.2) i hi
  unfold preimageFallback
  rw [preimageLevelMap_eq m.nvars rn hb (by rw [hpairs]; exact fun p hp => (hlv p hp).2.2.1),
    copyBddK_eq_F, hpairs]
  -- rename
  rcases (copyBddF_out none (lmNat m.nvars pairs) m.tbl hW (m.nvars + 2) m target {} hI (Or.inl hc)
    (Ext.refl _) hv (CMemo.empty _ _ _)
    (fun i hi => ⟨_, lmNat_lookup m.nvars pairs i (hi.lt_nvars hW), hrlt i (hi.lt_nvars hW)⟩)
    (by omega)).cases with
    ⟨r1, c1, m1, he1, hs1, _, hp1⟩ | ⟨m1, he1, hs1, ha1⟩
  rotate_left
  · rw [he1]; exact ⟨rfl, hs1, ha1⟩
  rw [he1]
  simp only
  have hW1 := hs1.inv.wf.toWF
  have hc1 : m1.ctx = true := by rw [hs1.frame.ctx]; exact hc
  have hd1 : ∀ a, den m1.tbl r1 a = den m.tbl target (fun j => a (renOf pairs j)) := by
    intro a
    rw [hp1.den a]
    apply den_agree_ge m.tbl hW target hv
    intro i _ hi
    simp only [cmap, lmNat_lookup m.nvars pairs i hi]
  -- conjoin
  rcases (ite_nested_spec m1 hs1.inv (Or.inl hc1) trans r1 (-1) (hs1.ext.mem hu) hp1.mr
    (mem_neg_one _)).cases with
    ⟨r2, m2, he2, hs2, hp2⟩ | ⟨m2, he2, hs2, ha2⟩
  rotate_left
  · rw [he2]; exact Outcome.abort hs1 hs2 ha2
  rw [he2]
  simp only
  have hs12 := hs1.trans hs2
  have hc2 : m2.ctx = true := by rw [hs12.frame.ctx]; exact hc
  have hd2 : ∀ a, den m2.tbl r2 a =
      (den m.tbl trans a && den m.tbl target (fun j => a (renOf pairs j))) := by
    intro a
    rw [hp2.den a, den_neg_one, hd1 a, den_ext hs1.ext hW trans a hu]
    cases den m.tbl trans a <;> simp
  -- quantify
  have hql2 : ∀ i, i ∈ q → m2.tbl.l2v.contains i = true := by
    intro i hi
    rw [hs12.frame.l2v]; exact hql i hi
  rcases (quantify_levels_out m2 hs2.inv hc2 r2 hp2.mem fa q hql2).cases with
    ⟨r3, m3, he3, hs3, hm3, hd3⟩ | ⟨m3, he3, hs3, ha3⟩
  rotate_left
  · rw [he3]; exact Outcome.abort hs12 hs3 ha3
  rw [he3]
  refine ⟨hs12.trans hs3, hm3, fun a => ?_⟩
  rw [hd3 a]
  have : den m2.tbl r2 = fun b => den m.tbl trans b && den m.tbl target (fun j => b (renOf pairs j)) :=
    funext hd2
  rw [this]

end DD
