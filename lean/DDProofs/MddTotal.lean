/-
  DDProofs.MddTotal — `bdd_to_mdd` returns normally (and then `B2MOK` holds): none of the code's
  assertions or lookups can fail.  `assert_consistent()` needs that the unique table `_pred` has no
  stray entries (`PredExact`); DDProofs.MddPredShape derives it from "every key of `_pred` is a
  triple" (`KeysShaped`), which `collect_garbage` and `swap` preserve.
-/
import DDProofs.MddTotalLoop
import DDProofs.MddPredShape
open Std

namespace DD

theorem umapOK_init (dvars : List MVar) (m2 : Mgr) (hz : ZoneOK dvars m2.tbl) :
    UmapOK (semB dvars m2.tbl) (Lb dvars m2) (MddMgr.new (some dvars)) [(1, 1)] ∧
    UmapKeys (Qb m2) [(1, 1)] := by
  constructor
  · constructor
    intro x r hl
    by_cases hx : x = 1
    · subst hx
      simp [List.lookup_cons] at hl
      subst hl
      refine ⟨Or.inl rfl, ?_, ?_⟩
      · rw [MTbl.levelOf_term _ 1 rfl]
        show zoneLevel dvars m2.tbl (m2.tbl.levelOf ((1 : Nat) : Int)) ≤ dvars.length
        rw [levelOf_term m2.tbl _ (by simp)]
        unfold zoneLevel
        rw [hz.order.l2v_none]
        exact Nat.le_refl _
      · intro α _
        rw [denM_one]
        show true = semB dvars m2.tbl ((1 : Nat) : Int) α
        rw [semB_nat]
        exact (den_one _ _).symm
    · have : (x == 1) = false := by simpa using hx
      simp [List.lookup_cons, this] at hl
  · intro x r hl
    by_cases hx : x = 1
    · subst hx; exact Or.inl rfl
    · have : (x == 1) = false := by simpa using hx
      simp [List.lookup_cons, this] at hl

/-- `bdd_to_mdd`, for any instance of the swap contract: it returns normally with `B2MOK`, or with
the exception the contract allows, or — when an order of `bdd.levels()` was recorded that does not
fit — with the model's `MODEL-SCHEDULE-MISMATCH` -/
theorem bddToMdd_gen (ext : Nat → Nat) (mb : Mgr) (h : ReorderInv ext mb) (dvars : List MVar)
    (hd : DvarsFull mb.tbl dvars) (lev : Option (List Nat)) {E : Err → Prop} {P : Mgr → Prop}
    (S : SwapOK E P (ReorderRel ext))
    (hP : ∀ m, P m → ReorderInv ext m ∧ NoGarbage m)
    (hP1 : ∀ m1, collectGarbage none mb = (.ok (), m1) → ReorderInv ext m1 → NoGarbage m1 →
      m1.sched = mb.sched → P m1)
    (hpe : ∀ m, P m → PredExact m) :
    OkOr (fun e => E e ∨ (lev.isSome = true ∧ e = Err.sched))
      (fun out mb' => B2MOK ext dvars mb out mb' ∧ P mb') (bddToMdd dvars lev mb) := by
  have G := b2mPrepare_gen ext mb h dvars hd S hP hP1
  cases hprep : b2mPrepare dvars mb with
  | mk r m2 =>
    rw [hprep] at G
    cases r with
    | error e =>
      have : bddToMdd dvars lev mb = (.error e, m2) := by
        unfold bddToMdd; rw [hprep]
      rw [this]
      exact Or.inl G
    | ok p =>
      obtain ⟨hPrep, hng, hrm, hPm2⟩ := G
      have hI2 := hPrep.inv
      have hac := bddAssertConsistent_ok m2 ext hI2.inv hI2.refExact
        (fun r hr => (Mgr.mem_iff m2 r).mp ((swapOK ext).roots m2 hI2 r hr)) (hpe m2 hPm2)
      cases hord : bddLevelsOrder p.tbl lev with
      | error e =>
        have hes : e = Err.sched ∧ lev.isSome = true := by
          unfold bddLevelsOrder at hord
          simp only at hord
          split at hord
          · cases hord
          · split at hord
            · cases hord
            · cases hord; exact ⟨rfl, rfl⟩
        have : bddToMdd dvars lev mb = (.error e, m2) := by
          unfold bddToMdd; rw [hprep]; simp only; rw [hac]; simp only; rw [hord]
        rw [this]
        exact Or.inr ⟨hes.2, hes.1⟩
      | ok ord =>
        have hW2 := hI2.inv.wf.toWF
        have hordm : ∀ u, u ∈ ord ↔ (m2.tbl.node? u).isSome = true := by
          intro u
          have := bddLevelsOrder_mem p.tbl (by rw [hPrep.tbl]; exact hW2) lev ord hord u
          rw [hPrep.tbl] at this
          exact this
        have hsorted : ord.Pairwise (fun a b => lvOf m2.tbl b ≤ lvOf m2.tbl a) := by
          have := bddLevelsOrder_sorted p.tbl lev ord hord
          rw [hPrep.tbl] at this
          exact this
        obtain ⟨hU0, hQ0⟩ := umapOK_init dvars m2 hPrep.zone
        obtain ⟨out, hloop⟩ := b2mLoop_total dvars m2 hI2.inv hPrep.zone hd.len p.rm hrm ord hsorted
          hordm ord [] (MddMgr.new (some dvars)) [(1, 1)] rfl (MInv.init dvars) rfl rfl hU0 hQ0
          (by simp [List.lookup_cons]) (fun x hx => by cases hx)
        have hr : bddToMdd dvars lev mb = (.ok out, m2) := by
          unfold bddToMdd; rw [hprep]; simp only; rw [hac]; simp only; rw [hord]; simp only
          rw [hPrep.btv]; exact hloop
        rw [hr]
        exact ⟨bddToMdd_spec ext mb h dvars hd.toDvarsOK lev out m2 hr, hPm2⟩

/-- a description of the integer variables only depends on the declared names -/
theorem DvarsFull.transfer {t t' : Tbl} {dvars : List MVar} (h : DvarsFull t dvars)
    (hn : ∀ v : String, t'.vars.contains v = t.vars.contains v) : DvarsFull t' dvars := by
  refine ⟨⟨h.levels, h.bits.trans ?_⟩, h.names, h.nonempty, h.len⟩
  rw [List.perm_ext_iff_of_nodup TreeMap.nodup_keys TreeMap.nodup_keys]
  intro a
  rw [TreeMap.mem_keys, TreeMap.mem_keys, TreeMap.mem_iff_contains, TreeMap.mem_iff_contains, hn a]

/-- the swap contract, extended with "every key of `_pred` is a triple" -/
theorem swapOK_shaped {E : Err → Prop} {P : Mgr → Prop} {R : Mgr → Mgr → Prop} (S : SwapOK E P R) :
    SwapOK E (fun m => P m ∧ KeysShaped m) R := by
  refine ⟨S.refl, S.trans, fun m h => S.vars m h.1, fun m h => S.roots m h.1, ?_⟩
  intro m i h hi
  have hs := S.step m i h.1 hi
  cases hrun : swapBody i (i + 1) m with
  | mk r m' =>
    rw [hrun] at hs
    cases r with
    | error e => exact hs
    | ok a =>
      obtain ⟨h1, h2, h3, h4⟩ := hs
      exact ⟨⟨h1, h.2.le (Shp.swapBody _ _ m _ m' hrun)⟩, h2, h3, h4⟩

/-- for every recorded schedule: `bdd_to_mdd` returns normally (and is correct), the only
alternative being the model's own report that the recorded iteration orders do not fit -/
theorem bddToMdd_okOrSched (ext : Nat → Nat) (mb : Mgr) (h : ReorderInv ext mb) (hks : KeysShaped mb)
    (dvars : List MVar) (hd : DvarsFull mb.tbl dvars) (lev : Option (List Nat)) :
    OkOrSched (fun out mb' => B2MOK ext dvars mb out mb' ∧ KeysShaped mb') (bddToMdd dvars lev mb) := by
  refine OkOr.mono (fun _ _ hq => ⟨hq.1, hq.2.2⟩) <| OkOr.monoE ?_ (bddToMdd_gen ext mb h dvars hd lev (swapOK_shaped (swapOKng ext))
    (fun m hm => hm.1)
    (fun m1 hgc a b _ => ⟨⟨a, b⟩, hks.le (Shp.collectGarbage none mb _ m1 hgc)⟩)
    (fun m hm => hm.2.exact hm.1.1.inv))
  rintro e (he | ⟨_, he⟩) <;> exact he

/-- with no recorded schedule (the model iterates in ascending order): total -/
theorem bddToMdd_total (ext : Nat → Nat) (mb : Mgr) (h : ReorderInv ext mb) (hks : KeysShaped mb)
    (hs : mb.sched = []) (dvars : List MVar) (hd : DvarsFull mb.tbl dvars) :
    ∃ out mb', bddToMdd dvars none mb = (.ok out, mb') ∧ B2MOK ext dvars mb out mb' ∧
      KeysShaped mb' ∧ mb'.sched = [] := by
  have := bddToMdd_gen ext mb h dvars hd none (swapOK_shaped (swapOKng0 ext))
    (fun m hm => hm.1.1)
    (fun m1 hgc a b c => ⟨⟨⟨a, b⟩, by rw [c]; exact hs⟩, hks.le (Shp.collectGarbage none mb _ m1 hgc)⟩)
    (fun m hm => hm.2.exact hm.1.1.1.inv)
  have h2 : OkOr NoErr (fun out mb' => B2MOK ext dvars mb out mb' ∧ KeysShaped mb' ∧ mb'.sched = [])
      (bddToMdd dvars none mb) := by
    have h3 := OkOr.monoE (E' := NoErr) (by
      rintro e (he | ⟨hc, _⟩)
      · exact he
      · cases hc) this
    exact OkOr.mono (fun _ _ hq => ⟨hq.1, hq.2.2, hq.2.1.2⟩) h3
  exact h2.total

end DD
