/-
  DDProofs.ReachLite — the part of the manager invariant that EVERY model function keeps
  for ARBITRARY arguments (unknown nodes, bad levels, undeclared names, any memo, any fuel):

    `Lite ext m` = every stored edge points to a node (`Closed`) ∧ the counters are exact
                   w.r.t. the user's ledger `ext` (`RefExact`) ∧ reordering is off.

  and the reordering signal is never raised (`_NeedsReordering` cannot appear when
  `_last_len is None`), so the decorator `_try_to_reorder` never enters `reorder`.
  The proofs are structural inductions over the recursions: the only mutations are
  `find_or_add` (which checks its children itself) and computed-table insertions.
  Used by `step_inv` (DDProofs.Reach) for the reference-count clause of every operation,
  accepted or rejected.
-/
import DD.Apply
import DDProofs.RefCount
import DDProofs.Total
open Std

namespace DD

/-- the argument-independent part of the invariant -/
structure Lite (ext : Nat → Nat) (m : Mgr) : Prop where
  closed : m.tbl.Closed
  exact : RefExact m ext
  off : m.lastLen = none

/-- outcome of a call: the state is `Lite` and the result is not the reordering signal -/
def LiteOut (ext : Nat → Nat) {α : Type} (x : Except Err α × Mgr) : Prop :=
  Lite ext x.2 ∧ x.1 ≠ .error .needsReordering

theorem Lite.congr {ext : Nat → Nat} {m m' : Mgr} (h : Lite ext m) (h1 : m'.tbl = m.tbl)
    (h2 : m'.ref = m.ref) (h3 : m'.lastLen = m.lastLen) : Lite ext m' :=
  ⟨by rw [h1]; exact h.closed, h.exact.congr h1 h2, by rw [h3]; exact h.off⟩

theorem Lite.ok {ext : Nat → Nat} {m : Mgr} {α : Type} (h : Lite ext m) (a : α) :
    LiteOut ext ((.ok a, m) : Except Err α × Mgr) := ⟨h, by simp⟩

theorem Lite.err {ext : Nat → Nat} {m : Mgr} {α : Type} (h : Lite ext m) (e : Err)
    (he : e ≠ .needsReordering) : LiteOut ext ((.error e, m) : Except Err α × Mgr) :=
  ⟨h, by simpa using he⟩

theorem Lite.setCtx {ext : Nat → Nat} {m : Mgr} (h : Lite ext m) (c : Bool) :
    Lite ext { m with ctx := c } := h.congr rfl rfl rfl

theorem Lite.setCache {ext : Nat → Nat} {m : Mgr} (h : Lite ext m) (c : TreeMap (List Int) Int) :
    Lite ext { m with cache := c } := h.congr rfl rfl rfl

/-! ### `find_or_add` -/

theorem incref_err {u : Int} {m m' : Mgr} {e : Err} (h : incref u m = (.error e, m')) : e = .key := by
  unfold incref at h
  split at h
  · simp only [Prod.mk.injEq, Except.error.injEq] at h; exact h.1.symm
  · simp at h

theorem findOrAddCore_noNR (m : Mgr) (i : Nat) (v w : Int) :
    (findOrAddCore i v w m).1 ≠ .error .needsReordering := by
  unfold findOrAddCore
  split
  · simp
  split
  · simp
  split
  · simp
  dsimp only
  generalize (if w < 0 then -v else v) = v'
  generalize (if w < 0 then -w else w) = w'
  generalize (if w < 0 then (-1:Int) else 1) = r
  split
  · simp
  split
  · simp
  split
  · simp
  split
  · simp
  split
  · next e m2 he => rw [incref_err he]; simp
  · split
    · next e m3 he => rw [incref_err he]; simp
    · simp

theorem findOrAddCore_closed (m : Mgr) (ext : Nat → Nat) (h : Lite ext m) (i : Nat) (v w : Int) :
    (findOrAddCore i v w m).2.tbl.Closed ∧ (findOrAddCore i v w m).2.lastLen = m.lastLen := by
  rcases findOrAddCore_cases m i v w h.exact.isSome with
    he | ⟨hmv, hmw, -, hfree, n, c1, c2, hlo, hhi, -, -, -, he⟩
  · rw [he]; exact ⟨h.closed, rfl⟩
  · rw [he]
    refine ⟨?_, rfl⟩
    have hnode : ∀ k, ({ m.tbl with succ := m.tbl.succ.insert m.minFree n } : Tbl).node? k =
        if m.minFree = k then some n else m.tbl.node? k := by
      intro k
      simp only [Tbl.node?, TreeMap.getElem?_insert, compare_eq_iff_eq]
    have hmono : ∀ x : Int, m.tbl.Mem x →
        ({ m.tbl with succ := m.tbl.succ.insert m.minFree n } : Tbl).Mem x := by
      intro x hx
      rcases hx with hx | hx
      · exact Or.inl hx
      · right
        rw [hnode]
        split
        · rfl
        · exact hx
    have habs : ∀ (x y : Int), x.natAbs = y.natAbs → m.tbl.Mem y → m.tbl.Mem x := by
      intro x y hxy hy
      unfold Tbl.Mem at *
      rw [hxy]; exact hy
    intro k x hk
    show ({ m.tbl with succ := m.tbl.succ.insert m.minFree n } : Tbl).Mem x.lo ∧
      ({ m.tbl with succ := m.tbl.succ.insert m.minFree n } : Tbl).Mem x.hi
    have hk' : ({ m.tbl with succ := m.tbl.succ.insert m.minFree n } : Tbl).node? k = some x := hk
    rw [hnode] at hk'
    split at hk'
    · cases hk'
      exact ⟨hmono _ (habs _ _ hlo hmv), hmono _ (habs _ _ hhi hmw)⟩
    · have := h.closed k x hk'
      exact ⟨hmono _ this.1, hmono _ this.2⟩

theorem findOrAddCore_lite (ext : Nat → Nat) (m : Mgr) (h : Lite ext m) (i : Nat) (v w : Int) :
    LiteOut ext (findOrAddCore i v w m) := by
  have hc := findOrAddCore_closed m ext h i v w
  exact ⟨⟨hc.1, findOrAddCore_refExact_of_closed m ext i v w h.closed h.exact, by rw [hc.2]; exact h.off⟩,
    findOrAddCore_noNR m i v w⟩

theorem requestReordering_off (m : Mgr) (h : m.lastLen = none) : requestReordering m = (.ok (), m) := by
  unfold requestReordering
  rw [h]

/-- with reordering off the request is transparent -/
theorem findOrAdd_off_eq (m : Mgr) (h : m.lastLen = none) (i : Int) (v w : Int) :
    findOrAdd i v w m = if i < 0 then (.error .value, m) else findOrAddCore i.toNat v w m := by
  unfold findOrAdd
  by_cases hc : m.ctx = true
  · simp only [hc, if_true, requestReordering_off m h]
  · simp only [hc, Bool.false_eq_true, if_false]

theorem findOrAdd_lite (ext : Nat → Nat) (m : Mgr) (h : Lite ext m) (i : Int) (v w : Int) :
    LiteOut ext (findOrAdd i v w m) := by
  rw [findOrAdd_off_eq m h.off]
  split
  · exact h.err _ (by simp)
  · exact findOrAddCore_lite ext m h _ v w

/-! ### the decorator -/

/-- `_try_to_reorder` around a body that keeps `Lite`: the signal is never raised, `reorder` is
never entered -/
theorem tryToReorder_lite {α : Type} (ext : Nat → Nat) (f : M α)
    (hf : ∀ m, Lite ext m → LiteOut ext (f m)) (m : Mgr) (h : Lite ext m) :
    LiteOut ext (tryToReorder f m) := by
  have h1 := hf { m with ctx := true } (h.setCtx true)
  generalize hres : f { m with ctx := true } = res at h1
  obtain ⟨r, m1⟩ := res
  cases r with
  | ok a =>
    rw [tryToReorder_ok f m a m1 hres]
    exact (h1.1.setCtx _).ok a
  | error e =>
    have hne : e ≠ .needsReordering := fun hh => h1.2 (by rw [hh])
    rw [tryToReorder_err f m e m1 hres hne]
    exact (h1.1.setCtx _).err e hne

/-- the state and the result of the decorated call, in terms of the body run with the flag set -/
theorem tryToReorder_eq {α : Type} (ext : Nat → Nat) (f : M α)
    (hf : ∀ m, Lite ext m → LiteOut ext (f m)) (m : Mgr) (h : Lite ext m) :
    tryToReorder f m = ((f { m with ctx := true }).1, { (f { m with ctx := true }).2 with ctx := m.ctx }) := by
  have h1 := hf { m with ctx := true } (h.setCtx true)
  generalize hres : f { m with ctx := true } = res at h1
  obtain ⟨r, m1⟩ := res
  cases r with
  | ok a => rw [tryToReorder_ok f m a m1 hres]
  | error e =>
    have hne : e ≠ .needsReordering := fun hh => h1.2 (by rw [hh])
    rw [tryToReorder_err f m e m1 hres hne]

/-! ### pure helpers never raise the signal -/

theorem topCofactor_noNR (t : Tbl) (u : Int) (i : Nat) : topCofactor t u i ≠ .error .needsReordering := by
  unfold topCofactor
  split
  · simp
  split
  · simp
  split
  · simp
  split
  · simp
  split <;> simp

theorem mapME_noNR {α β : Type} (f : α → Except Err β) (hf : ∀ a, f a ≠ .error .needsReordering) :
    ∀ l : List α, mapME f l ≠ .error .needsReordering := by
  intro l
  induction l with
  | nil => simp [mapME]
  | cons a l ih =>
    unfold mapME
    split
    · next e he => intro hh; cases hh; exact hf a he
    · split
      · next e he => intro hh; cases hh; exact ih he
      · simp

theorem keyVarLevel_noNR (t : Tbl) (k : Key) : keyVarLevel t k ≠ .error .needsReordering := by
  unfold keyVarLevel
  split
  · split <;> simp
  · simp

theorem mapToLevelE_noNR (t : Tbl) (keys : List Key) : mapToLevelE t keys ≠ .error .needsReordering := by
  unfold mapToLevelE
  split
  · simp
  · have key : ∀ (b : Bool) (x : List Nat) (c : Prop) [Decidable c] (l : List Key),
        (if (!b) = true then (if c then Except.ok x else Except.error Err.value)
          else mapME (keyVarLevel t) l) ≠ .error .needsReordering := by
      intro b x c _ l
      split
      · split <;> simp
      · exact mapME_noNR _ (keyVarLevel_noNR t) _
    exact key _ _ _ _

theorem levelOfVarE_noNR (t : Tbl) (v : String) : levelOfVarE t v ≠ .error .needsReordering := by
  unfold levelOfVarE
  split <;> simp

theorem subLevelE_noNR (t : Tbl) (vg : String × Int) : subLevelE t vg ≠ .error .needsReordering := by
  unfold subLevelE
  split
  · next e he => intro hh; cases hh; exact levelOfVarE_noNR t vg.1 he
  · simp

theorem renameMap_noNR (t : Tbl) (dvars : List (String × String)) :
    renameMap t dvars ≠ .error .needsReordering := by
  unfold renameMap
  apply mapME_noNR
  intro vl
  split <;> simp

end DD

namespace DD

/-! ### `_ite` -/

theorem LiteOut.of_eq {ext : Nat → Nat} {α : Type} {x y : Except Err α × Mgr} (h : LiteOut ext x)
    (e : x = y) : LiteOut ext y := e ▸ h

theorem LiteOut.reErr {ext : Nat → Nat} {α β : Type} {e : Err} {m : Mgr}
    (h : LiteOut ext ((.error e, m) : Except Err α × Mgr)) :
    LiteOut ext ((.error e, m) : Except Err β × Mgr) :=
  ⟨h.1, by have := h.2; simpa using this⟩

theorem noNR_of_eq {α : Type} {x : Except Err α} {e : Err} (h : x ≠ .error .needsReordering)
    (he : x = .error e) : e ≠ .needsReordering := fun hh => h (hh ▸ he)

theorem iteF_lite (ext : Nat → Nat) : ∀ (f : Nat) (g u v : Int) (m : Mgr), Lite ext m →
    LiteOut ext (iteF f g u v m) := by
  intro f
  induction f with
  | zero => intro g u v m h; exact h.err _ (by simp)
  | succ f ih =>
    intro g u v m h
    unfold iteF
    split
    · exact h.ok _
    split
    · exact h.ok _
    split
    · exact h.ok _
    split
    · dsimp only
      split
      · split
        · next heq => exact (ih _ _ _ _ h).of_eq heq
        next heq =>
        have h1 := (ih _ _ _ _ h).of_eq heq
        split
        · next heq => exact (ih _ _ _ _ h1.1).of_eq heq
        next heq =>
        have h2 := (ih _ _ _ _ h1.1).of_eq heq
        split
        · next heq => exact (findOrAdd_lite ext _ h2.1 _ _ _).of_eq heq
        next heq =>
        have h3 := (findOrAdd_lite ext _ h2.1 _ _ _).of_eq heq
        exact (h3.1.setCache _).ok _
      · next he => exact h.err _ (noNR_of_eq (topCofactor_noNR _ _ _) he)
      · next he _ => exact h.err _ (noNR_of_eq (topCofactor_noNR _ _ _) he)
      · next he _ _ => exact h.err _ (noNR_of_eq (topCofactor_noNR _ _ _) he)
    · exact h.err _ (by simp)

/-- exact counts through `_ite` for ARBITRARY operands and fuel, same ledger (local version; the
primed name avoids a clash with the lemma of the dynamic-reordering slice) -/
theorem iteF_refExact' (m : Mgr) (ext : Nat → Nat) (hc : m.tbl.Closed) (hr : RefExact m ext)
    (hoff : m.lastLen = none) (f : Nat) (g u v : Int) :
    RefExact (iteF f g u v m).2 ext ∧ (iteF f g u v m).2.tbl.Closed :=
  have h := iteF_lite ext f g u v m ⟨hc, hr, hoff⟩
  ⟨h.1.exact, h.1.closed⟩

theorem iteRaw_lite (ext : Nat → Nat) (g u v : Int) (m : Mgr) (h : Lite ext m) :
    LiteOut ext (iteRaw g u v m) := by
  have : iteRaw g u v m = iteF (m.nvars + 2) g u v m := by
    simp [iteRaw, bind, M.bind', M.get]
  rw [this]; exact iteF_lite ext _ g u v m h

/-- public `ite`, arbitrary operands -/
theorem ite_lite (ext : Nat → Nat) (g u v : Int) (m : Mgr) (h : Lite ext m) :
    LiteOut ext (ite g u v m) :=
  tryToReorder_lite ext _ (iteRaw_lite ext g u v) m h

end DD

namespace DD

/-! ### the recursions of `cofactor`, `quantify`, `compose`, `rename` -/

theorem cofactorF_lite (ext : Nat → Nat) (values : List (Nat × Bool)) :
    ∀ (f : Nat) (u : Int) (ordvar : List Nat) (cache : HashMap Int Int) (m : Mgr), Lite ext m →
    LiteOut ext (cofactorF values f u ordvar cache m) := by
  intro f
  induction f with
  | zero => intro u ordvar cache m h; exact h.err _ (by simp)
  | succ f ih =>
    intro u ordvar cache m h
    unfold cofactorF
    split
    · exact h.ok _
    split
    · exact h.ok _
    split
    · exact h.err _ (by simp)
    split
    · exact h.err _ (by simp)
    dsimp only
    split
    · exact h.ok _
    split
    · split
      · next heq => exact (ih _ _ _ _ h).of_eq heq
      next heq =>
      have h1 := (ih _ _ _ _ h).of_eq heq
      exact h1.1.ok _
    · split
      · next heq => exact (ih _ _ _ _ h).of_eq heq
      next heq =>
      have h1 := (ih _ _ _ _ h).of_eq heq
      split
      · next heq => exact (ih _ _ _ _ h1.1).of_eq heq
      next heq =>
      have h2 := (ih _ _ _ _ h1.1).of_eq heq
      split
      · next heq => exact ((findOrAdd_lite ext _ h2.1 _ _ _).of_eq heq).reErr
      next heq =>
      have h3 := (findOrAdd_lite ext _ h2.1 _ _ _).of_eq heq
      exact h3.1.ok _

theorem quantifyF_lite (ext : Nat → Nat) (qvars : List Nat) (fa : Bool) :
    ∀ (f : Nat) (u : Int) (ordvar : List Nat) (cache : HashMap Int Int) (m : Mgr), Lite ext m →
    LiteOut ext (quantifyF qvars fa f u ordvar cache m) := by
  intro f
  induction f with
  | zero => intro u ordvar cache m h; exact h.err _ (by simp)
  | succ f ih =>
    intro u ordvar cache m h
    unfold quantifyF
    split
    · exact h.ok _
    split
    · exact h.ok _
    split
    · exact h.err _ (by simp)
    split
    · exact h.err _ (by simp)
    dsimp only
    split
    · exact h.ok _
    split
    · next heq => exact (ih _ _ _ _ h).of_eq heq
    next heq =>
    have h1 := (ih _ _ _ _ h).of_eq heq
    split
    · next heq => exact (ih _ _ _ _ h1.1).of_eq heq
    next heq =>
    have h2 := (ih _ _ _ _ h1.1).of_eq heq
    have h3 : ∀ p q n (m2 : Mgr), Lite ext m2 → LiteOut ext
        (if qvars.contains n = true then (if fa = true then ite p q (-1) m2 else ite p 1 q m2)
         else findOrAdd n p q m2) := by
      intro p q n m2 hm2
      split
      · split
        · exact ite_lite ext _ _ _ m2 hm2
        · exact ite_lite ext _ _ _ m2 hm2
      · exact findOrAdd_lite ext m2 hm2 _ _ _
    split
    · next heq => exact ((h3 _ _ _ _ h2.1).of_eq heq).reErr
    next heq =>
    have h4 := (h3 _ _ _ _ h2.1).of_eq heq
    exact h4.1.ok _

end DD

namespace DD

theorem composeF_lite (ext : Nat → Nat) (j : Nat) :
    ∀ (fu : Nat) (f g : Int) (cache : HashMap (Int × Int) Int) (m : Mgr), Lite ext m →
    LiteOut ext (composeF j fu f g cache m) := by
  intro fu
  induction fu with
  | zero => intro f g cache m h; exact h.err _ (by simp)
  | succ fu ih =>
    intro f g cache m h
    unfold composeF
    split
    · exact h.ok _
    split
    · exact h.ok _
    split
    · exact h.err _ (by simp)
    split
    · exact h.err _ (by simp)
    split
    · exact h.ok _
    split
    · split
      · next heq => exact ((ite_lite ext _ _ _ _ h).of_eq heq).reErr
      next heq =>
      have h1 := (ite_lite ext _ _ _ _ h).of_eq heq
      exact h1.1.ok _
    · split
      · exact h.err _ (by simp)
      dsimp only
      split
      · next he => exact h.err _ (noNR_of_eq (topCofactor_noNR _ _ _) he)
      · next he => exact h.err _ (noNR_of_eq (topCofactor_noNR _ _ _) he)
      · split
        · next heq => exact (ih _ _ _ _ h).of_eq heq
        next heq =>
        have h1 := (ih _ _ _ _ h).of_eq heq
        split
        · next heq => exact (ih _ _ _ _ h1.1).of_eq heq
        next heq =>
        have h2 := (ih _ _ _ _ h1.1).of_eq heq
        split
        · next heq => exact ((findOrAdd_lite ext _ h2.1 _ _ _).of_eq heq).reErr
        next heq =>
        have h3 := (findOrAdd_lite ext _ h2.1 _ _ _).of_eq heq
        exact h3.1.ok _

theorem subOrVar_lite (ext : Nat → Nat) (sub : List (Nat × Int)) (i : Nat) (m : Mgr) (h : Lite ext m) :
    LiteOut ext (subOrVar sub i m) := by
  unfold subOrVar
  split
  · exact h.ok _
  · exact findOrAdd_lite ext m h _ _ _

theorem vectorComposeF_lite (ext : Nat → Nat) (sub : List (Nat × Int)) :
    ∀ (fu : Nat) (f : Int) (cache : HashMap Nat Int) (m : Mgr), Lite ext m →
    LiteOut ext (vectorComposeF sub fu f cache m) := by
  intro fu
  induction fu with
  | zero => intro f cache m h; exact h.err _ (by simp)
  | succ fu ih =>
    intro f cache m h
    unfold vectorComposeF
    split
    · exact h.ok _
    split
    · split
      · exact h.err _ (by simp)
      · exact h.ok _
    split
    · exact h.err _ (by simp)
    split
    · exact h.err _ (by simp)
    split
    · next heq => exact (ih _ _ _ h).of_eq heq
    next heq =>
    have h1 := (ih _ _ _ h).of_eq heq
    split
    · next heq => exact (ih _ _ _ h1.1).of_eq heq
    next heq =>
    have h2 := (ih _ _ _ h1.1).of_eq heq
    split
    · next heq => exact ((subOrVar_lite ext _ _ _ h2.1).of_eq heq).reErr
    next heq =>
    have h3 := (subOrVar_lite ext _ _ _ h2.1).of_eq heq
    split
    · next heq => exact ((ite_lite ext _ _ _ _ h3.1).of_eq heq).reErr
    next heq =>
    have h4 := (ite_lite ext _ _ _ _ h3.1).of_eq heq
    exact h4.1.ok _

theorem copyBddF_lite (ext : Nat → Nat) (src : Option Tbl) (lm : List (Nat × Nat)) :
    ∀ (fu : Nat) (u : Int) (cache : HashMap Nat Int) (m : Mgr), Lite ext m →
    LiteOut ext (copyBddF src lm fu u cache m) := by
  intro fu
  induction fu with
  | zero => intro u cache m h; exact h.err _ (by simp)
  | succ fu ih =>
    intro u cache m h
    unfold copyBddF
    split
    · exact h.ok _
    split
    · split
      · exact h.err _ (by simp)
      · exact h.ok _
    split
    · exact h.err _ (by simp)
    split
    · exact h.err _ (by simp)
    split
    · next heq => exact (ih _ _ _ h).of_eq heq
    next heq =>
    have h1 := (ih _ _ _ h).of_eq heq
    split
    · next heq => exact (ih _ _ _ h1.1).of_eq heq
    next heq =>
    have h2 := (ih _ _ _ h1.1).of_eq heq
    split
    · exact h2.1.err _ (by simp)
    split
    · exact h2.1.err _ (by simp)
    split
    · exact h2.1.err _ (by simp)
    split
    · next heq => exact ((findOrAdd_lite ext _ h2.1 _ _ _).of_eq heq).reErr
    next heq =>
    have h3 := (findOrAdd_lite ext _ h2.1 _ _ _).of_eq heq
    split
    · next heq => exact ((ite_lite ext _ _ _ _ h3.1).of_eq heq).reErr
    next heq =>
    have h4 := (ite_lite ext _ _ _ _ h3.1).of_eq heq
    split
    · exact h4.1.err _ (by simp)
    · exact h4.1.ok _

end DD

namespace DD

/-! ### the public operations -/

theorem cofactorBody_lite (ext : Nat → Nat) (u : Int) (values : List (Key × Bool)) (m : Mgr)
    (h : Lite ext m) : LiteOut ext (cofactorBody u values m) := by
  unfold cofactorBody
  split
  · next he => exact h.err _ (noNR_of_eq (mapToLevelE_noNR _ _) he)
  dsimp only
  split
  · exact h.err _ (by simp)
  split
  · next heq => exact ((cofactorF_lite ext _ _ _ _ _ _ h).of_eq heq).reErr
  next heq =>
  have h1 := (cofactorF_lite ext _ _ _ _ _ _ h).of_eq heq
  exact h1.1.ok _

theorem cofactor_lite (ext : Nat → Nat) (u : Int) (values : List (Key × Bool)) (m : Mgr)
    (h : Lite ext m) : LiteOut ext (cofactor u values m) :=
  tryToReorder_lite ext _ (cofactorBody_lite ext u values) m h

theorem quantifyBody_lite (ext : Nat → Nat) (u : Int) (qvars : List Key) (fa : Bool) (m : Mgr)
    (h : Lite ext m) : LiteOut ext (quantifyBody u qvars fa m) := by
  unfold quantifyBody
  split
  · next he => exact h.err _ (noNR_of_eq (mapToLevelE_noNR _ _) he)
  dsimp only
  split
  · next heq => exact ((quantifyF_lite ext _ _ _ _ _ _ _ h).of_eq heq).reErr
  next heq =>
  have h1 := (quantifyF_lite ext _ _ _ _ _ _ _ h).of_eq heq
  exact h1.1.ok _

theorem quantify_lite (ext : Nat → Nat) (u : Int) (qvars : List Key) (fa : Bool) (m : Mgr)
    (h : Lite ext m) : LiteOut ext (quantify u qvars fa m) :=
  tryToReorder_lite ext _ (quantifyBody_lite ext u qvars fa) m h

theorem composeBody_lite (ext : Nat → Nat) (f : Int) (varSub : List (String × Int)) (m : Mgr)
    (h : Lite ext m) : LiteOut ext (composeBody f varSub m) := by
  unfold composeBody
  split
  · split
    · next he => exact h.err _ (noNR_of_eq (levelOfVarE_noNR _ _) he)
    split
    · next heq => exact ((composeF_lite ext _ _ _ _ _ _ h).of_eq heq).reErr
    next heq =>
    have h1 := (composeF_lite ext _ _ _ _ _ _ h).of_eq heq
    exact h1.1.ok _
  · split
    · next he => exact h.err _ (noNR_of_eq (mapME_noNR _ (subLevelE_noNR _) _) he)
    split
    · next heq => exact ((vectorComposeF_lite ext _ _ _ _ _ h).of_eq heq).reErr
    next heq =>
    have h1 := (vectorComposeF_lite ext _ _ _ _ _ h).of_eq heq
    exact h1.1.ok _

theorem compose_lite (ext : Nat → Nat) (f : Int) (varSub : List (String × Int)) (m : Mgr)
    (h : Lite ext m) : LiteOut ext (compose f varSub m) :=
  tryToReorder_lite ext _ (composeBody_lite ext f varSub) m h

theorem renameBody_lite (ext : Nat → Nat) (u : Int) (dvars : List (String × String)) (m : Mgr)
    (h : Lite ext m) : LiteOut ext (renameBody u dvars m) := by
  unfold renameBody
  split
  · exact h.err _ (by simp)
  split
  · exact h.ok _
  split
  · next he => exact h.err _ (noNR_of_eq (renameMap_noNR _ _) he)
  split
  · next heq => exact ((copyBddF_lite ext _ _ _ _ _ _ h).of_eq heq).reErr
  next heq =>
  have h1 := (copyBddF_lite ext _ _ _ _ _ _ h).of_eq heq
  exact h1.1.ok _

theorem rename_lite (ext : Nat → Nat) (u : Int) (dvars : List (String × String)) (m : Mgr)
    (h : Lite ext m) : LiteOut ext (rename u dvars m) :=
  tryToReorder_lite ext _ (renameBody_lite ext u dvars) m h

/-- `BDD.let(definitions, u)` -/
theorem letOp_lite (ext : Nat → Nat) (d : LetArg) (u : Int) (m : Mgr) (h : Lite ext m) :
    LiteOut ext (letOp d u m) := by
  unfold letOp
  split
  · exact h.ok _
  · exact h.ok _
  · exact h.ok _
  · exact cofactor_lite ext _ _ m h
  · exact compose_lite ext _ _ m h
  · exact rename_lite ext _ _ m h

/-- the body of `BDD.var` -/
def varBody (name : String) : M Int := do
  let m ← M.get
  match m.tbl.vars[name]? with
  | none => M.throw .value
  | some j => findOrAdd j (-1) 1

theorem var_eq (name : String) : var name = tryToReorder (varBody name) := rfl

theorem varBody_eq (name : String) (m : Mgr) :
    varBody name m = match m.tbl.vars[name]? with
      | none => (.error .value, m)
      | some j => findOrAdd (j : Int) (-1) 1 m := by
  simp only [varBody, bind, M.bind', M.get]
  cases m.tbl.vars[name]? <;> rfl

theorem varBody_lite (ext : Nat → Nat) (name : String) (m : Mgr) (h : Lite ext m) :
    LiteOut ext (varBody name m) := by
  rw [varBody_eq]
  split
  · exact h.err _ (by simp)
  · exact findOrAdd_lite ext m h _ _ _

theorem var_lite (ext : Nat → Nat) (name : String) (m : Mgr) (h : Lite ext m) :
    LiteOut ext (var name m) :=
  tryToReorder_lite ext _ (varBody_lite ext name) m h

/-- `apply` with any operator, arity and operands: the state stays `Lite` -/
theorem apply_lite (ext : Nat → Nat) (op : String) (u : Int) (v w : Option Int) (m : Mgr)
    (h : Lite ext m) : Lite ext (apply op u v w m).2 := by
  unfold apply
  split
  · exact h
  split
  · exact h
  split
  · exact h
  split
  · exact h
  split
  · exact h
  split
  · exact h
  · split
    · exact h
    split
    · exact h
    split
    · exact (ite_lite ext _ _ _ m h).1
    · exact h
    · exact h
    · exact h
  · split
    · exact h
    split
    · split
      · exact h
      · exact (quantify_lite ext _ _ _ m h).1
    · exact h
    · exact h
  · exact h
  · exact h

end DD
