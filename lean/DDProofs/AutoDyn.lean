/-
  DDProofs.AutoDyn — discharge of the autoref hypotheses that involve REORDERING:
    * explicit `reorder()` / `reorder(order)` (C07), in every mode;
    * the decorated operations with dynamic reordering ENABLED (C09 transparency
      theorems), mode `off = false`, for held operands and declared names.
-/
import DDProofs.AutoCore
import DDProofs.AutoFew
import DDProps.C09
open Std

namespace DD

/-! ### explicit reordering (C07) -/

/-- what C07 gives for a reordering that returns normally -/
theorem minv_of_reorder {off : Bool} {ext : Nat → Nat} {m m' : Mgr} (hm : AutoMInv off ext m)
    (hR : ReorderInv ext m') (hs : m'.sched = []) (hrel : ReorderRel ext m m') :
    AutoMInv off ext m' ∧ HeldExt m.tbl m'.tbl ext := by
  refine ⟨⟨hR.inv, hR.order, hR.refExact, by rw [hrel.ctx]; exact hm.ctx, hs,
    by rw [hrel.roots]; exact hm.roots, hm.mode.transfer hrel.lastLen (by rw [hrel.nvars]; exact Nat.le_refl _)⟩, ?_⟩
  intro u _ hpos
  have hx : HeldX ext u := Or.inr hpos
  exact ⟨hx.mem hR.refExact, fun σ =>
    heldX_denN_of_heldSame hm.inv hR.inv hm.counts hR.refExact hrel.held hx σ⟩

/-- `reorder(bdd)` (sifting) with at least two variables (with one, the code raises
`ValueError`: C07 `sift_single_variable_raises`) -/
theorem reorder_sift_keepsAt {off : Bool} (m : Mgr) (h2 : 2 ≤ m.nvars) :
    CoreKeepsAt off m (reorder none) := by
  intro ext hm r m' he
  obtain ⟨m2, hrun, hR, _, hs, hrel⟩ := C07_sift_total ext m hm.reorderInv h2 hm.sched
  rw [hrun] at he
  cases he
  exact minv_of_reorder hm hR hs hrel

/-- `reorder(bdd, order)` for a complete order of the declared variables -/
theorem reorder_order_keepsAt {off : Bool} (m : Mgr) (o : List (String × Int)) (ho : ReqOrder o m) :
    CoreKeepsAt off m (reorder (some o)) := by
  intro ext hm r m' he
  obtain ⟨m2, hrun, hR, hs, hrel, _⟩ := C07_reorder_order_total ext m hm.reorderInv hm.sched o ho
  rw [hrun] at he
  cases he
  exact minv_of_reorder hm hR hs hrel

theorem aReorder_sift_keepsAt {off : Bool} (a : AMgr) (h2 : 2 ≤ a.m.nvars) (h : Nat) :
    AKeepsAt off a h (aReorder none) :=
  aReorder_keepsAt a none (reorder_sift_keepsAt a.m h2) h

theorem aReorder_order_keepsAt {off : Bool} (a : AMgr) (o : List (String × Int)) (ho : ReqOrder o a.m)
    (h : Nat) : AKeepsAt off a h (aReorder (some o)) :=
  aReorder_keepsAt a (some o) (reorder_order_keepsAt a.m o ho) h

/-! ### dynamic reordering ENABLED (mode `off = false`): the C09 transparency theorems -/

/-- the ledger of exact counts is unique -/
theorem RefExact.ext_unique {m : Mgr} {ext ext' : Nat → Nat} (h : RefExact m ext) (h' : RefExact m ext') :
    ext = ext' := by
  funext k
  cases hr : m.ref[k]? with
  | none => rw [h.extZero k hr, h'.extZero k hr]
  | some c =>
    have h1 := h.cnt k c hr
    have h2 := h'.cnt k c hr
    omega

/-- what the caller of a decorated operation observes (C09) is what the autoref layer needs -/
theorem minv_of_dynPost {α : Type} {ext : Nat → Nat} {m m' : Mgr} {Doc : Tbl → α → Tbl → Prop} {r : α}
    (hm : AutoMInv false ext m) (hp : DynPostG ext Doc m r m') :
    AutoMInv false ext m' ∧ HeldExt m.tbl m'.tbl ext :=
  ⟨⟨hp.inv.inv, hp.inv.order, hp.inv.refs, hp.inv.ctx, hp.inv.sched, by rw [hp.roots]; exact hm.roots,
    fun h => nomatch h⟩,
   fun u _ hpos => hp.held u (Or.inr hpos)⟩

/-- packaging: a decorated operation that C09 proves transparent in the state `a.m` for the ledger
of live handles -/
theorem keepsAtDyn_of {α : Type} {op : M α} (a : AMgr) (hi : AInv false a) {Doc : Tbl → α → Tbl → Prop}
    (h : ∃ r m', op a.m = (.ok r, m') ∧ DynPostG (hext a) Doc a.m r m') : CoreKeepsAt false a.m op := by
  intro ext hm r m' he
  have hx : ext = hext a := RefExact.ext_unique hm.counts hi.counts
  subst hx
  obtain ⟨r0, m0, h0, hp⟩ := h
  rw [h0] at he
  cases he
  exact minv_of_dynPost hm hp

theorem heldX_of_handle (a : AMgr) {j : Nat} {u : Int} (hj : a.handles[j]? = some u) : HeldX (hext a) u :=
  Or.inr (hext_pos_of_handle a j u hj)

theorem nodeIn_handle (hu : Nat) (a : AMgr) (u : Int) (h : (nodeIn hu a).1 = .ok u) :
    a.handles[hu]? = some u := by
  unfold nodeIn at h
  change (AM.bind' (nodeSame hu) _ a).1 = _ at h
  unfold AM.bind' at h
  have h1 := nodeSame_read hu a
  cases hx : nodeSame hu a with
  | mk r1 a1 =>
    rw [hx] at h h1
    simp only at h1
    subst h1
    cases r1 with
    | error e => simp only at h; cases h
    | ok u' =>
      have hh := nodeSame_handle hu a1 u' (by rw [hx])
      simp only at h
      change (AM.bind' AM.get _ a1).1 = _ at h
      unfold AM.bind' AM.get at h
      simp only at h
      change (AM.bind' (AM.check (a1.m.mem u') .value) _ a1).1 = _ at h
      unfold AM.bind' AM.check at h
      cases hm : a1.m.mem u' with
      | false => rw [hm] at h; simp [AM.throw] at h
      | true =>
        rw [hm] at h
        simp only [if_true, AM.pure'] at h
        change (Except.ok u' : Except Err Int) = _ at h
        cases h
        exact hh

/-- `ite(g, u, v)` with dynamic reordering possibly enabled (the request may fire at any node
creation): all three operands are live `Function`s of this manager -/
theorem aIte_keepsAtDyn (a : AMgr) (hg hu hv h : Nat) : AKeepsAt false a h (aIte hg hu hv h) := by
  intro hi
  revert hi
  unfold aIte
  intro hi
  refine AKeepsAt.bind_read a (nodeIn_read hg) (fun g h1 => ?_) hi
  refine AKeepsAt.bind_read a (nodeIn_read hu) (fun u h2 => ?_)
  refine AKeepsAt.bind_read a (nodeIn_read hv) (fun v h3 => ?_)
  exact wrapResult_keepsAt a ((ite_keepsDyn g u v).at a.m) h

/-- an operation with a single operand (`~`, `not`, `!`, or a refused call) never changes the manager -/
theorem apply_unary_state (op : String) (u : Int) (m : Mgr) : (apply op u none none m).2 = m := by
  unfold apply
  cases assertOperatorArity op none none with
  | error e => rfl
  | ok _ =>
    simp only
    repeat' split
    all_goals rfl

theorem apply_unary_keeps {off : Bool} (op : String) (u : Int) : CoreKeeps off (apply op u none none) :=
  CoreKeeps.of_read (apply_unary_state op u)

theorem optNode_some_handle (hv : Nat) (a : AMgr) (vo : Option Int)
    (h : (optNode nodeIn (some hv) a).1 = .ok vo) : ∃ v, vo = some v ∧ a.handles[hv]? = some v := by
  unfold optNode at h
  change (AM.bind' (nodeIn hv) _ a).1 = _ at h
  unfold AM.bind' at h
  have h1 := nodeIn_read hv a
  cases hx : nodeIn hv a with
  | mk r1 a1 =>
    rw [hx] at h h1
    simp only at h1
    subst h1
    cases r1 with
    | error e => simp only at h; cases h
    | ok v =>
      simp only at h
      change (Except.ok (some v) : Except Err (Option Int)) = _ at h
      cases h
      exact ⟨v, rfl, nodeIn_handle hv a1 v (by rw [hx])⟩

theorem optNode_none_val (a : AMgr) (wo : Option Int) (f : Nat → AM Int)
    (h : (optNode f none a).1 = .ok wo) : wo = none := by
  unfold optNode at h
  change (Except.ok none : Except Err (Option Int)) = _ at h
  cases h; rfl

/-- `apply(op, u, v)` for every binary propositional alias, reordering possibly enabled -/
theorem aApply_binary_keepsAtDyn (a : AMgr) (op : String) (c : Conn) (hc : docConn op = some c)
    (h2 : c.arity = 2) (hq1 : c ≠ .forall_) (hq2 : c ≠ .exists_)
    (hall : Gen.allOps.contains op = true) (hu hv h : Nat) :
    AKeepsAt false a h (aApply op hu (some hv) none h) := by
  intro hi
  revert hi
  unfold aApply
  intro hi
  refine AKeepsAt.bind_read a (nodeIn_read hu) (fun u h1 => ?_) hi
  refine AKeepsAt.bind_read a (ARead.check _ _) (fun _ _ => ?_)
  refine AKeepsAt.bind_read a (optNode_read nodeIn_read _) (fun vo h3 => ?_)
  refine AKeepsAt.bind_read a (optNode_read nodeIn_read _) (fun wo h4 => ?_)
  obtain ⟨v, rfl, hvh⟩ := optNode_some_handle hv a vo h3
  have := optNode_none_val a wo nodeIn h4
  subst this
  exact wrapResult_keepsAt a ((apply_keepsDyn op u (some v) none).at a.m) h

/-- `var(name)`, reordering possibly enabled: a declared name is transparent, an undeclared one
is refused without any change -/
theorem var_keepsAtDyn (a : AMgr) (hi : AInv false a) (name : String) :
    CoreKeepsAt false a.m (var name) := by
  cases hd : a.m.tbl.vars[name]? with
  | none =>
    intro ext hm r m' he
    rw [var_undeclared a.m name hd] at he
    cases he
    exact ⟨hm, HeldExt.refl _ _⟩
  | some j =>
    have hdecl : a.m.tbl.vars.contains name = true := by
      rw [TreeMap.contains_eq_isSome_getElem?, hd]; rfl
    exact (var_keepsDyn name).at a.m

theorem aVar_keepsAtDyn (a : AMgr) (name : String) (h : Nat) : AKeepsAt false a h (aVar name h) :=
  fun hi => wrapResult_keepsAt a (var_keepsAtDyn a hi name) h hi

/-- `quantify(u, names, forall)` / `exist` / `forall` over declared names -/
theorem aQuantify_keepsAtDyn (a : AMgr) (hu : Nat) (names : List String) (fa : Bool)
    (hdecl : ∀ s ∈ names, a.m.tbl.vars.contains s = true) (h : Nat) :
    AKeepsAt false a h (aQuantify hu (names.map Key.name) fa h) := by
  intro hi
  revert hi
  unfold aQuantify
  intro hi
  refine AKeepsAt.bind_read a (nodeIn_read hu) (fun u h1 => ?_) hi
  exact wrapResult_keepsAt a ((quantify_keepsDyn u _ fa).at a.m) h

/-- `cube(dvars)` over declared names -/
theorem aCube_keepsAtDyn (a : AMgr) (d : List (String × Bool))
    (hdecl : ∀ p ∈ d, a.m.tbl.vars.contains p.1 = true) (h : Nat) :
    AKeepsAt false a h (aCube d h) :=
  fun hi => wrapResult_keepsAt a ((cube_keepsDyn d).at a.m) h hi

/-- `f & g`, `f | g`, `f.implies(g)`, `f.equiv(g)` (any binary propositional alias) -/
theorem fApply_binary_keepsAtDyn (a : AMgr) (op : String) (c : Conn) (hc : docConn op = some c)
    (h2 : c.arity = 2) (hq1 : c ≠ .forall_) (hq2 : c ≠ .exists_)
    (hall : Gen.allOps.contains op = true) (hs ho h : Nat) :
    AKeepsAt false a h (fApply op hs (some ho) h) := by
  intro hi
  revert hi
  unfold fApply
  intro hi
  refine AKeepsAt.bind_read a (nodeOwn_read hs) (fun s h1 => ?_) hi
  refine AKeepsAt.bind_read a (optNode_read nodeSame_read _) (fun oo h3 => ?_)
  -- the second operand
  have hoo : ∃ o, oo = some o ∧ a.handles[ho]? = some o := by
    unfold optNode at h3
    change (AM.bind' (nodeSame ho) _ a).1 = _ at h3
    unfold AM.bind' at h3
    have hr := nodeSame_read ho a
    cases hx : nodeSame ho a with
    | mk r1 a1 =>
      rw [hx] at h3 hr
      simp only at hr
      subst hr
      cases r1 with
      | error e => simp only at h3; cases h3
      | ok o =>
        simp only at h3
        change (Except.ok (some o) : Except Err (Option Int)) = _ at h3
        cases h3
        exact ⟨o, rfl, nodeSame_handle ho a1 o (by rw [hx])⟩
  obtain ⟨o, rfl, hoh⟩ := hoo
  refine fun hi' => liftM_wrapF_keepsAt a ((apply_keepsDyn op s (some o) none).at a.m) h hi'

/-- `~f` (any unary alias): never changes the manager, any mode -/
theorem fApply_unary_keeps {off : Bool} (op : String) (hs h : Nat) : AKeeps off h (fApply op hs none h) := by
  intro a
  show AKeepsAt off a h (fApply op hs none h)
  unfold fApply
  refine AKeepsAt.bind_read a (nodeOwn_read hs) (fun s _ => ?_)
  refine AKeepsAt.bind_read a (optNode_read nodeSame_read none) (fun o ho => ?_)
  have := optNode_none_val a o nodeSame ho
  subst this
  exact liftM_wrapF_keepsAt a ((apply_unary_keeps op s).at a.m) h

/-- `f <= g` / `f < g` with reordering possibly enabled: `~f` never reorders; `g | ~f` is the C09
binary case with both operands held (one of them by the temporary `Function`) -/
theorem orKeepsDyn (b : AMgr) (hb : AInv false b) (j1 j2 : Nat) (u v : Int)
    (h1 : b.handles[j1]? = some u) (h2 : b.handles[j2]? = some v) :
    CoreKeepsAt false b.m (apply "or" u (some v) none) :=
  (apply_keepsDyn "or" u (some v) none).at b.m

theorem fLe_keepsDyn (hs ho : Nat) : AKeeps0 false (fLe hs ho) :=
  fLe_keeps0 (fun u => apply_unary_keeps "not" u) orKeepsDyn hs ho

theorem fLt_keepsDyn (hs ho : Nat) : AKeeps0 false (fLt hs ho) :=
  fLt_keeps0 (fun u => apply_unary_keeps "not" u) orKeepsDyn hs ho

/-- `let` with Boolean values / with names, reordering possibly enabled, declared names -/
theorem aLet_bools_keepsAtDyn (a : AMgr) (vals : List (String × Bool)) (hne : vals ≠ [])
    (hdecl : ∀ p ∈ vals, a.m.tbl.vars.contains p.1 = true) (hu h : Nat) :
    AKeepsAt false a h (aLet (.bools (boolKeys vals)) hu h) := by
  intro hi
  revert hi
  unfold aLet
  intro hi
  refine AKeepsAt.bind_read a (nodeIn_read hu) (fun u h1 => ?_) hi
  have hemp : (ALetArg.bools (boolKeys vals)).isEmpty = false := by
    cases vals with
    | nil => exact absurd rfl hne
    | cons x xs => rfl
  rw [hemp]
  simp only [Bool.false_eq_true, if_false]
  refine AKeepsAt.bind_read a (aLetArgs_read _) (fun d' hd' => ?_)
  have : d' = LetArg.bools (boolKeys vals) := by
    change (Except.ok (LetArg.bools (boolKeys vals)) : Except Err LetArg) = .ok d' at hd'
    cases hd'; rfl
  subst this
  refine fun hi' => (AKeepsAt.then_read' a (wrapResult_keepsAt a ((letOp_keepsDyn _ u).at a.m) h) fun _ => ARead.pure _) hi'

theorem aLet_names_keepsAtDyn (a : AMgr) (dvars : List (String × String)) (hne : dvars ≠ [])
    (hd : ∀ p ∈ dvars, a.m.tbl.vars.contains p.2 = true) (hu h : Nat) :
    AKeepsAt false a h (aLet (.names dvars) hu h) := by
  intro hi
  revert hi
  unfold aLet
  intro hi
  refine AKeepsAt.bind_read a (nodeIn_read hu) (fun u h1 => ?_) hi
  have hemp : (ALetArg.names dvars).isEmpty = false := by
    cases dvars with
    | nil => exact absurd rfl hne
    | cons x xs => rfl
  rw [hemp]
  simp only [Bool.false_eq_true, if_false]
  refine AKeepsAt.bind_read a (aLetArgs_read _) (fun d' hd' => ?_)
  have : d' = LetArg.names dvars := by
    change (Except.ok (LetArg.names dvars) : Except Err LetArg) = .ok d' at hd'
    cases hd'; rfl
  subst this
  refine fun hi' => (AKeepsAt.then_read' a (wrapResult_keepsAt a ((letOp_keepsDyn _ u).at a.m) h) fun _ => ARead.pure _) hi'

/-- `apply('ite', u, v, w)` -/
theorem aApply_ite_keepsAtDyn (a : AMgr) (op : String) (hc : docConn op = some .ite)
    (hall : Gen.allOps.contains op = true) (hu hv hw h : Nat) :
    AKeepsAt false a h (aApply op hu (some hv) (some hw) h) := by
  intro hi
  revert hi
  unfold aApply
  intro hi
  refine AKeepsAt.bind_read a (nodeIn_read hu) (fun u h1 => ?_) hi
  refine AKeepsAt.bind_read a (ARead.check _ _) (fun _ _ => ?_)
  refine AKeepsAt.bind_read a (optNode_read nodeIn_read _) (fun vo h3 => ?_)
  refine AKeepsAt.bind_read a (optNode_read nodeIn_read _) (fun wo h4 => ?_)
  obtain ⟨v, rfl, hvh⟩ := optNode_some_handle hv a vo h3
  obtain ⟨w, rfl, hwh⟩ := optNode_some_handle hw a wo h4
  exact wrapResult_keepsAt a ((apply_keepsDyn op u (some v) (some w)).at a.m) h

/-- `BDD.copy(u, other)` into a target `a` in which reordering may be enabled (fix F4b: the copy
runs inside the target's decorator) -/
theorem aCopyTo_keepsAtDyn (a src : AMgr) {offS : Bool} (hsrc : AInv offS src) (hu h : Nat)
    (hpre : ∀ u, (nodeIn hu src).1 = .ok u → CopyPre src.m.tbl u a.m.tbl) :
    AKeepsAt false a h (aCopyTo src hu h) := by
  intro hi
  refine aCopyTo_keepsAt a src hu h (fun u hu' => ?_) hi
  have hmem : src.m.tbl.Mem u := hsrc.hmem hu u (nodeIn_handle hu src u hu')
  exact (copyBdd_keepsDyn src.m.tbl u).at a.m

/-! ### `apply` with a quantifier alias, `let` with `Function` values, `declare` — reordering
possibly enabled -/

theorem varsOK_of_orderOK {t : Tbl} (h : OrderOK t) : VarsOK t := by
  refine ⟨h.total, fun i j hi hj he => ?_⟩
  obtain ⟨v, hv⟩ := h.total i hi
  obtain ⟨w, hw⟩ := h.total j hj
  have e1 : t.nameOf i = v := by simp [Tbl.nameOf, hv]
  have e2 : t.nameOf j = w := by simp [Tbl.nameOf, hw]
  rw [e1, e2] at he
  subst he
  have a := (h.inv v i).mpr hv
  have b := (h.inv v j).mpr hw
  rw [a] at b
  cases b; rfl

/-- `support(u)` of a stored node succeeds and returns declared names -/
theorem support_declared (m : Mgr) (hI : Inv m) (hO : OrderOK m.tbl) (u : Int) (hu : m.tbl.Mem u) :
    ∃ names, support m.tbl u = .ok names ∧ ∀ s ∈ names, m.tbl.vars.contains s = true := by
  obtain ⟨ls, _, _, hdep, hs⟩ := support_spec' hI.wf (varsOK_of_orderOK hO) u hu
  refine ⟨_, hs, fun s hs' => ?_⟩
  obtain ⟨i, hi, rfl⟩ := List.mem_map.mp hs'
  have hlt : i < m.tbl.nvars := dependsOn_lt_nvars hI.wf hu ((hdep i).mp hi)
  have hl := (varsOK_of_orderOK hO).l2v_eq hlt
  have hv := (hO.inv _ i).mpr hl
  rw [TreeMap.contains_eq_isSome_getElem?, hv]; rfl

/-- `apply('\A' | '\E' | 'forall' | 'exists', u, v)`: `v` is quantified over the support of `u` -/
theorem aApply_quant_keepsAtDyn (a : AMgr) (op : String) (c : Conn) (hc : docConn op = some c)
    (hq : c = .forall_ ∨ c = .exists_) (hall : Gen.allOps.contains op = true) (hu hv h : Nat) :
    AKeepsAt false a h (aApply op hu (some hv) none h) := by
  intro hi
  revert hi
  unfold aApply
  intro hi
  refine AKeepsAt.bind_read a (nodeIn_read hu) (fun u h1 => ?_) hi
  refine AKeepsAt.bind_read a (ARead.check _ _) (fun _ _ => ?_)
  refine AKeepsAt.bind_read a (optNode_read nodeIn_read _) (fun vo h3 => ?_)
  refine AKeepsAt.bind_read a (optNode_read nodeIn_read _) (fun wo h4 => ?_)
  obtain ⟨v, rfl, hvh⟩ := optNode_some_handle hv a vo h3
  have := optNode_none_val a wo nodeIn h4
  subst this
  have hmu : a.m.tbl.Mem u := hi.hmem hu u (nodeIn_handle hu a u h1)
  obtain ⟨names, hsupp, hdecl⟩ := support_declared a.m hi.inv hi.order u hmu
  exact wrapResult_keepsAt a ((apply_keepsDyn op u (some v) none).at a.m) h

/-- the values of `let` that are `Function`s of this manager -/
theorem nodesAny_own (a : AMgr) : ∀ (d : List (String × Nat)) (l : List (String × Int)),
    (∀ p ∈ d, ∃ v, a.handles[p.2]? = some v) → (nodesAny d a).1 = .ok l →
    l.map (·.1) = d.map (·.1) ∧ ∀ p ∈ l, HeldX (hext a) p.2
  | [], l, _, h => by
    change (Except.ok [] : Except Err (List (String × Int))) = .ok l at h
    cases h
    exact ⟨rfl, fun p hp => nomatch hp⟩
  | (k, hv) :: rest, l, hown, h => by
    unfold nodesAny at h
    change (AM.bind' (nodeAny hv) _ a).1 = _ at h
    unfold AM.bind' at h
    have hr := nodeAny_read hv a
    obtain ⟨v, hvh⟩ := hown (k, hv) List.mem_cons_self
    have hx : nodeAny hv a = (.ok v, a) := by unfold nodeAny; rw [hvh]
    rw [hx] at h
    simp only at h
    change (AM.bind' (nodesAny rest) _ a).1 = _ at h
    unfold AM.bind' at h
    have hr2 := nodesAny_read rest a
    cases hx2 : nodesAny rest a with
    | mk r2 a2 =>
      rw [hx2] at h hr2
      simp only at hr2
      subst hr2
      cases r2 with
      | error e => simp only at h; cases h
      | ok l' =>
        simp only at h
        change (Except.ok ((k, v) :: l') : Except Err (List (String × Int))) = .ok l at h
        cases h
        obtain ⟨e1, e2⟩ := nodesAny_own a2 rest l'
          (fun p hp => hown p (List.mem_cons_of_mem _ hp)) (by rw [hx2])
        refine ⟨by simp [e1], fun p hp => ?_⟩
        rcases List.mem_cons.mp hp with rfl | hp'
        · exact heldX_of_handle a2 hvh
        · exact e2 p hp'

/-- `let` with `Function` values of this manager, declared names -/
theorem aLet_funs_keepsAtDyn (a : AMgr) (d : List (String × Nat)) (hne : d ≠ [])
    (hdecl : ∀ p ∈ d, a.m.tbl.vars.contains p.1 = true)
    (hown : ∀ p ∈ d, ∃ v, a.handles[p.2]? = some v) (hu h : Nat) :
    AKeepsAt false a h (aLet (.funs d) hu h) := by
  intro hi
  revert hi
  unfold aLet
  intro hi
  refine AKeepsAt.bind_read a (nodeIn_read hu) (fun u h1 => ?_) hi
  have hemp : (ALetArg.funs d).isEmpty = false := by
    cases d with
    | nil => exact absurd rfl hne
    | cons x xs => rfl
  rw [hemp]
  simp only [Bool.false_eq_true, if_false]
  refine AKeepsAt.bind_read a (aLetArgs_read _) (fun d' hd' => ?_)
  -- `d'` is `.refs l` for the nodes of the handles
  have hd'' : ∃ l, d' = LetArg.refs l ∧ (nodesAny d a).1 = .ok l := by
    unfold aLetArgs at hd'
    change (AM.bind' (nodesAny d) _ a).1 = _ at hd'
    unfold AM.bind' at hd'
    have hr := nodesAny_read d a
    cases hx : nodesAny d a with
    | mk r1 a1 =>
      rw [hx] at hd' hr
      simp only at hr
      subst hr
      cases r1 with
      | error e => simp only at hd'; cases hd'
      | ok l =>
        simp only at hd'
        change (Except.ok (LetArg.refs l) : Except Err LetArg) = .ok d' at hd'
        cases hd'
        exact ⟨l, rfl, rfl⟩
  obtain ⟨l, rfl, hl⟩ := hd''
  obtain ⟨hk, hheld⟩ := nodesAny_own a d l hown hl
  have hlne : l ≠ [] := by
    intro h0
    rw [h0] at hk
    cases d with
    | nil => exact hne rfl
    | cons x xs => simp at hk
  have hldecl : ∀ p ∈ l, a.m.tbl.vars.contains p.1 = true := by
    intro p hp
    have : p.1 ∈ l.map (·.1) := List.mem_map.mpr ⟨p, hp, rfl⟩
    rw [hk] at this
    obtain ⟨q, hq, hq1⟩ := List.mem_map.mp this
    rw [← hq1]; exact hdecl q hq
  refine fun hi' => (AKeepsAt.then_read' a (wrapResult_keepsAt a ((letOp_keepsDyn _ u).at a.m) h)
    fun _ => ARead.pure _) hi'

/-- sequencing of core operations, one start state -/
theorem CoreKeepsAt.bind {off : Bool} {α β : Type} {x : M α} {f : α → M β} {m : Mgr}
    (hx : CoreKeepsAt off m x)
    (hf : ∀ v m1, x m = (.ok v, m1) → CoreKeepsAt off m1 (f v)) : CoreKeepsAt off m (x >>= f) := by
  intro ext hm r m' he
  have e : (x >>= f) m = M.bind' x f m := rfl
  rw [e] at he
  unfold M.bind' at he
  cases hxm : x m with
  | mk r1 m1 =>
    rw [hxm] at he
    obtain ⟨i1, h1⟩ := hx ext hm r1 m1 hxm
    cases r1 with
    | error e' => simp only at he; cases he; exact ⟨i1, h1⟩
    | ok v =>
      simp only at he
      obtain ⟨i2, h2⟩ := hf v m1 hxm ext i1 r m' he
      exact ⟨i2, h1.trans h2⟩

theorem CoreKeepsAt.pure {off : Bool} {α : Type} (v : α) (m : Mgr) : CoreKeepsAt off m (pure v : M α) := by
  intro ext hm r m' he
  cases he
  exact ⟨hm, HeldExt.refl _ _⟩

/-- `declare(*names)` in EVERY mode (`add_var` never reorders) -/
theorem declare_keeps {off : Bool} (names : List String) : CoreKeeps off (declare names) := by
  refine ⟨fun m => ?_⟩
  unfold declare
  refine CoreKeepsAt.bind ?_ (fun _ m1 _ => CoreKeepsAt.pure _ m1)
  induction names generalizing m with
  | nil => exact CoreKeepsAt.pure _ m
  | cons v rest ih =>
    rw [List.forIn_cons]
    refine CoreKeepsAt.bind (CoreKeepsAt.bind (addVar_keepsAt m v none (fun l hl => nomatch hl))
      (fun _ m1 _ => CoreKeepsAt.pure _ m1)) (fun s m1 _ => ?_)
    cases s with
    | done b => exact CoreKeepsAt.pure _ m1
    | yield b => exact ih m1

theorem aDeclare_keepsAll {off : Bool} (ns : List String) (h : Nat) : AKeeps off h (aDeclare ns) :=
  aDeclare_keeps ns (declare_keeps ns) h
/-- `image(trans, source, rename, qvars, forall)` of autoref with dynamic reordering possibly
enabled (repair of F4c: the arguments become names, the body runs inside the decorator): operands
are live `Function`s, renaming and quantified variables by declared names, the code's own
preconditions by name -/
theorem aImage_image_keepsAtDyn (a : AMgr) (ht hs : Nat) (l : List (String × String))
    (qs : List String) (fa : Bool) (h : Nat)
    (hpre : ∀ t s, a.handles[ht]? = some t → a.handles[hs]? = some s →
      ImagePre t s l qs a.m.tbl) :
    AKeepsAt false a h (aImage false ht hs (l.map fun p => (Key.name p.1, Key.name p.2))
      (qs.map Key.name) fa h) := by
  intro hi
  revert hi
  unfold aImage
  intro hi
  refine AKeepsAt.bind_read a (nodeOwn_read ht) (fun t h1 => ?_) hi
  refine AKeepsAt.bind_read a (nodeSame_read hs) (fun s h2 => ?_)
  have ht' := nodeOwn_handle ht a t h1
  have hs' := nodeSame_handle hs a s h2
  exact wrapResult_keepsAt a ((image_keepsDyn t s _ _ fa).at a.m) h

/-- `preimage(trans, target, rename, qvars, forall)` of autoref with dynamic reordering possibly
enabled: the frame (invariant, counts, every live `Function` keeps its node and its meaning) -/
theorem aImage_preimage_keepsAtDyn (a : AMgr) (ht hs : Nat) (l : List (String × String))
    (qs : List String) (fa : Bool) (h : Nat)
    (hpre : ∀ s, a.handles[hs]? = some s → PreimagePreN s l qs a.m.tbl) :
    AKeepsAt false a h (aImage true ht hs (l.map fun p => (Key.name p.1, Key.name p.2))
      (qs.map Key.name) fa h) := by
  intro hi
  revert hi
  unfold aImage
  intro hi
  refine AKeepsAt.bind_read a (nodeOwn_read ht) (fun t h1 => ?_) hi
  refine AKeepsAt.bind_read a (nodeSame_read hs) (fun s h2 => ?_)
  have ht' := nodeOwn_handle ht a t h1
  have hs' := nodeSame_handle hs a s h2
  exact wrapResult_keepsAt a ((preimage_keepsDyn t s _ _ fa).at a.m) h

end DD
