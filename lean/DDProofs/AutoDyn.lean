/-
  DDProofs.AutoDyn — discharge of the autoref hypotheses that involve REORDERING:
    * explicit `reorder()` / `reorder(order)` (C07), in every mode;
    * the decorated operations with dynamic reordering ENABLED (C09 transparency
      theorems), mode `off = false`, for held operands and declared names.
-/
import DDProofs.AutoCore
import DDProps.C09
open Std

namespace DD

/-! ### explicit reordering (C07) -/

/-- what C07 gives for a reordering that returns normally -/
theorem minv_of_reorder {off : Bool} {ext : Nat → Nat} {m m' : Mgr} (hm : MInv off ext m)
    (hR : ReorderInv ext m') (hs : m'.sched = []) (hrel : ReorderRel ext m m') :
    MInv off ext m' ∧ HeldExt m.tbl m'.tbl ext := by
  refine ⟨⟨hR.inv, hR.order, hR.refExact, by rw [hrel.ctx]; exact hm.ctx, hs,
    by rw [hrel.roots]; exact hm.roots, fun ho => by rw [hrel.lastLen]; exact hm.mode ho⟩, ?_⟩
  intro u _ hpos
  have hx : HeldX ext u := Or.inr hpos
  exact ⟨hx.mem hR.refExact, fun σ =>
    heldX_denN_of_heldSame hm.inv hR.inv hm.counts hR.refExact hrel.held hx σ⟩

/-- `reorder(bdd)` (sifting) with at least two variables (with one, the code raises
`ValueError`: C07 `sift_single_variable_raises`) -/
theorem reorder_sift_keepsAt {off : Bool} (m : Mgr) (h2 : 2 ≤ m.nvars) :
    CoreKeepsAt off m (reorder none) := by
  intro ext hm r m' he
  obtain ⟨m2, hrun, hR, _, hs, hrel⟩ := C07_sift_total ext m hm.reorderInv h2 hm.sched
  rw [hrun] at he
  cases he
  exact minv_of_reorder hm hR hs hrel

/-- `reorder(bdd, order)` for a complete order of the declared variables -/
theorem reorder_order_keepsAt {off : Bool} (m : Mgr) (o : List (String × Int)) (ho : ReqOrder o m) :
    CoreKeepsAt off m (reorder (some o)) := by
  intro ext hm r m' he
  obtain ⟨m2, hrun, hR, hs, hrel, _⟩ := C07_reorder_order_total ext m hm.reorderInv hm.sched o ho
  rw [hrun] at he
  cases he
  exact minv_of_reorder hm hR hs hrel

theorem aReorder_sift_keepsAt {off : Bool} (a : AMgr) (h2 : 2 ≤ a.m.nvars) (h : Nat) :
    AKeepsAt off a h (aReorder none) :=
  aReorder_keepsAt a none (reorder_sift_keepsAt a.m h2) h

theorem aReorder_order_keepsAt {off : Bool} (a : AMgr) (o : List (String × Int)) (ho : ReqOrder o a.m)
    (h : Nat) : AKeepsAt off a h (aReorder (some o)) :=
  aReorder_keepsAt a (some o) (reorder_order_keepsAt a.m o ho) h

end DD
