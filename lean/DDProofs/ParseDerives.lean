/-
  DDProofs.ParseDerives — SOUNDNESS of the Pratt model w.r.t. the grammar of the source.

  `Derives toks t`: the token string `toks` is derived from `expr` by the productions of
  `dd/_parser.py`, with the syntax tree `t` as the value the semantic actions compute (one
  constructor per alternative; the ambiguous context-free grammar, NO precedence).
  `parse_sound`: whatever tree the model parser returns for a token string is a tree the grammar
  derives for exactly that string.  (The converse — which of the derivations of an ambiguous
  string the LALR tables choose — is the precedence / associativity content of
  `parse_printG`, `parse_printTop`.)

  `GDerives` is the same statement over the REGENERATED production table `Gen.grammar` (one entry
  per alternative of `Gen.productions`): parse trees whose every node is an entry of the table,
  with the semantic actions `PT.val` of the `p_*` functions; `derives_generic` maps `Derives`
  into it (membership of each alternative in the table by `decide`).
-/
import DDProofs.ParseProofs
import DDProofs.ParseBad
open Std
namespace DD

/-! ### the grammar as an inductive relation -/

inductive Derives : List Tok → Ast → Prop
  /-- `expr : TRUE` -/
  | tt : Derives [.tt] (.bool true)
  /-- `expr : FALSE` -/
  | ff : Derives [.ff] (.bool false)
  /-- `expr : name`, `name : NAME` -/
  | var (x : String) : Derives [.name x] (.var x)
  /-- `expr : AT number`, `number : NUMBER` -/
  | num (d : String) : Derives [.at, .number d] (.num false d)
  /-- `expr : AT number`, `number : MINUS NUMBER` -/
  | negNum (d : String) : Derives [.at, .op .minus, .number d] (.num true d)
  /-- `expr : NOT expr` -/
  | not {ts : List Tok} {a : Ast} : Derives ts a → Derives (.not :: ts) (.not a)
  /-- `expr : expr AND expr | … | expr MINUS expr` -/
  | bin (o : BinOp) {l r : List Tok} {a b : Ast} :
      Derives l a → Derives r b → Derives (l ++ .op o :: r) (.bin o a b)
  /-- `expr : LPAREN expr RPAREN` -/
  | paren {ts : List Tok} {a : Ast} : Derives ts a → Derives (.lparen :: (ts ++ [.rparen])) a
  /-- `expr : ITE LPAREN expr COMMA expr COMMA expr RPAREN` -/
  | ite {t1 t2 t3 : List Tok} {a b c : Ast} : Derives t1 a → Derives t2 b → Derives t3 c →
      Derives (.ite :: .lparen :: (t1 ++ .comma :: (t2 ++ .comma :: (t3 ++ [.rparen])))) (.ite a b c)
  /-- `expr : FORALL names COLON expr | EXISTS names COLON expr` (`printNames xs` = the names
  separated by commas, then the colon) -/
  | quant (fa : Bool) (xs : List String) (hne : xs ≠ []) {ts : List Tok} {a : Ast} :
      Derives ts a → Derives ((if fa then Tok.forall_ else .exists_) :: (printNames xs ++ ts)) (.quant fa xs a)
  /-- `expr : RENAME subs COLON expr` -/
  | subst (ss : List (String × String)) (hne : ss ≠ []) {ts : List Tok} {a : Ast} :
      Derives ts a → Derives (.rename :: (printSubs ss ++ ts)) (.subst ss a)

/-! ### inversion of the helper functions -/

theorem bindF_eq_ok {α β : Type} {pre : List Ast} {x : PRes α} {k : α → PRes β} {v : β}
    (h : PRes.bindF pre x k = .ok v) : ∃ a, x = .ok a ∧ k a = .ok v := by
  cases x with
  | error e => obtain ⟨fr, e⟩ := e; simp [PRes.bindF] at h
  | ok a => exact ⟨a, rfl, h⟩

theorem errAt_ne_ok {α : Type} (fr : List Ast) (r : List Tok) (v : α) : errAt fr r ≠ .ok v := by
  cases r <;> simp [errAt]

theorem atomDone_ok {a a' : Ast} {fr : List Ast} {rest r : List Tok}
    (h : atomDone a fr rest = .ok (a', r)) : a' = a ∧ r = rest := by
  unfold atomDone at h
  split at h
  · cases h; exact ⟨rfl, rfl⟩
  · exact absurd h (errAt_ne_ok _ _ _)

theorem closeParen_ok {e a : Ast} {r r' : List Tok} (h : closeParen e r = .ok (a, r')) :
    a = e ∧ r = .rparen :: r' := by
  unfold closeParen at h
  split at h
  · obtain ⟨rfl, rfl⟩ := atomDone_ok h; exact ⟨rfl, rfl⟩
  · exact absurd h (errAt_ne_ok _ _ _)

theorem closeIte_ok {a b c x : Ast} {r r' : List Tok} (h : closeIte a b c r = .ok (x, r')) :
    x = .ite a b c ∧ r = .rparen :: r' := by
  unfold closeIte at h
  split at h
  · obtain ⟨rfl, rfl⟩ := atomDone_ok h; exact ⟨rfl, rfl⟩
  · exact absurd h (errAt_ne_ok _ _ _)

theorem expectComma_ok {done : List Ast} {k : List Tok → PRes (Ast × List Tok)} {r : List Tok}
    {v : Ast × List Tok} (h : expectComma done k r = .ok v) : ∃ r1, r = .comma :: r1 ∧ k r1 = .ok v := by
  unfold expectComma at h
  split at h
  · exact ⟨_, rfl, h⟩
  · exact absurd h (errAt_ne_ok _ _ _)

theorem parseNames_ok : ∀ (toks : List Tok) (xs : List String) (r : List Tok),
    parseNames toks = .ok (xs, r) → xs ≠ [] ∧ toks = printNames xs ++ r := by
  intro toks
  fun_induction parseNames toks with
  | case1 x rest xs' r' hr ih =>
    intro xs r h
    simp only [Except.ok.injEq, Prod.mk.injEq] at h
    obtain ⟨rfl, rfl⟩ := h
    obtain ⟨hne, he⟩ := ih xs' r' hr
    refine ⟨by simp, ?_⟩
    cases xs' with
    | nil => exact absurd rfl hne
    | cons y ys => simp [printNames, he]
  | case2 x rest e hr ih => intro xs r h; cases h
  | case3 x rest =>
    intro xs r h
    simp only [Except.ok.injEq, Prod.mk.injEq] at h
    obtain ⟨rfl, rfl⟩ := h
    exact ⟨by simp, by simp [printNames]⟩
  | case4 x rest _ _ => intro xs r h; exact absurd h (errAt_ne_ok _ _ _)
  | case5 toks _ => intro xs r h; exact absurd h (errAt_ne_ok _ _ _)

theorem parseSubs_ok : ∀ (toks : List Tok) (ss : List (String × String)) (r : List Tok),
    parseSubs toks = .ok (ss, r) → ss ≠ [] ∧ toks = printSubs ss ++ r := by
  intro toks
  fun_induction parseSubs toks with
  | case1 new old rest xs' r' hr ih =>
    intro ss r h
    simp only [Except.ok.injEq, Prod.mk.injEq] at h
    obtain ⟨rfl, rfl⟩ := h
    obtain ⟨hne, he⟩ := ih xs' r' hr
    refine ⟨by simp, ?_⟩
    cases xs' with
    | nil => exact absurd rfl hne
    | cons y ys => obtain ⟨n2, o2⟩ := y; simp [printSubs, he]
  | case2 new old rest e hr ih => intro ss r h; cases h
  | case3 new old rest =>
    intro ss r h
    simp only [Except.ok.injEq, Prod.mk.injEq] at h
    obtain ⟨rfl, rfl⟩ := h
    exact ⟨by simp, by simp [printSubs]⟩
  | case4 => intro ss r h; exact absurd h (errAt_ne_ok _ _ _)
  | case5 => intro ss r h; exact absurd h (errAt_ne_ok _ _ _)
  | case6 => intro ss r h; exact absurd h (errAt_ne_ok _ _ _)
  | case7 => intro ss r h; exact absurd h (errAt_ne_ok _ _ _)

/-! ### induction on the fuel -/

/-- what an operand / expression parser guarantees -/
def DerE (f : Nat) : Prop :=
  ∀ (p : Nat) (toks : List Tok) (a : Ast) (r : List Tok), parseExpr f p toks = .ok (a, r) →
    ∃ pre, toks = pre ++ r ∧ Derives pre a

/-- … and the operator loop, started with a derived left operand -/
def DerL (f : Nat) : Prop :=
  ∀ (p : Nat) (lhs : Ast) (toks : List Tok) (a : Ast) (r : List Tok),
    parseLoop f p lhs toks = .ok (a, r) → ∀ lpre, Derives lpre lhs →
      ∃ mid, toks = mid ++ r ∧ Derives (lpre ++ mid) a

theorem der_prefix (f : Nat) (ihE : DerE f) (toks : List Tok) (a : Ast) (r : List Tok)
    (h : parsePrefix (f+1) toks = .ok (a, r)) : ∃ pre, toks = pre ++ r ∧ Derives pre a := by
  cases toks with
  | nil => simp [parsePrefix, errAt] at h
  | cons t rest =>
    cases t with
    | tt =>
      rw [prefix_tt] at h
      obtain ⟨rfl, rfl⟩ := atomDone_ok h
      exact ⟨[.tt], rfl, .tt⟩
    | ff =>
      rw [prefix_ff] at h
      obtain ⟨rfl, rfl⟩ := atomDone_ok h
      exact ⟨[.ff], rfl, .ff⟩
    | name x =>
      rw [prefix_name] at h
      obtain ⟨rfl, rfl⟩ := atomDone_ok h
      exact ⟨[.name x], rfl, .var x⟩
    | not =>
      rw [prefix_not] at h
      obtain ⟨⟨e, r1⟩, he, hk⟩ := bindF_eq_ok h
      simp only [Except.ok.injEq, Prod.mk.injEq] at hk
      obtain ⟨rfl, rfl⟩ := hk
      obtain ⟨pre, rfl, hd⟩ := ihE _ _ _ _ he
      exact ⟨.not :: pre, rfl, .not hd⟩
    | lparen =>
      rw [prefix_lparen] at h
      obtain ⟨⟨e, r1⟩, he, hk⟩ := bindF_eq_ok h
      obtain ⟨rfl, rfl⟩ := closeParen_ok hk
      obtain ⟨pre, rfl, hd⟩ := ihE _ _ _ _ he
      exact ⟨.lparen :: (pre ++ [.rparen]), by simp, .paren hd⟩
    | forall_ =>
      rw [prefix_forall] at h
      obtain ⟨⟨xs, r0⟩, hn, hk⟩ := bindF_eq_ok h
      obtain ⟨⟨e, r1⟩, he, hk'⟩ := bindF_eq_ok hk
      simp only [Except.ok.injEq, Prod.mk.injEq] at hk'
      obtain ⟨rfl, rfl⟩ := hk'
      obtain ⟨hne, rfl⟩ := parseNames_ok _ _ _ hn
      obtain ⟨pre, hpre, hd⟩ := ihE _ _ _ _ he
      simp only at hpre
      subst hpre
      exact ⟨.forall_ :: (printNames xs ++ pre), by simp, .quant true xs hne hd⟩
    | exists_ =>
      rw [prefix_exists] at h
      obtain ⟨⟨xs, r0⟩, hn, hk⟩ := bindF_eq_ok h
      obtain ⟨⟨e, r1⟩, he, hk'⟩ := bindF_eq_ok hk
      simp only [Except.ok.injEq, Prod.mk.injEq] at hk'
      obtain ⟨rfl, rfl⟩ := hk'
      obtain ⟨hne, rfl⟩ := parseNames_ok _ _ _ hn
      obtain ⟨pre, hpre, hd⟩ := ihE _ _ _ _ he
      simp only at hpre
      subst hpre
      exact ⟨.exists_ :: (printNames xs ++ pre), by simp, .quant false xs hne hd⟩
    | rename =>
      rw [prefix_rename] at h
      obtain ⟨⟨ss, r0⟩, hn, hk⟩ := bindF_eq_ok h
      obtain ⟨⟨e, r1⟩, he, hk'⟩ := bindF_eq_ok hk
      simp only [Except.ok.injEq, Prod.mk.injEq] at hk'
      obtain ⟨rfl, rfl⟩ := hk'
      obtain ⟨hne, rfl⟩ := parseSubs_ok _ _ _ hn
      obtain ⟨pre, hpre, hd⟩ := ihE _ _ _ _ he
      simp only at hpre
      subst hpre
      exact ⟨.rename :: (printSubs ss ++ pre), by simp, .subst ss hne hd⟩
    | ite =>
      cases rest with
      | nil => simp [parsePrefix, errAt] at h
      | cons t2 rest2 =>
        by_cases ht2 : t2 = .lparen
        · subst ht2
          rw [prefix_ite] at h
          obtain ⟨⟨ea, ra⟩, hea, hk⟩ := bindF_eq_ok h
          obtain ⟨ra', hra, hk⟩ := expectComma_ok hk
          obtain ⟨⟨eb, rb⟩, heb, hk⟩ := bindF_eq_ok hk
          obtain ⟨rb', hrb, hk⟩ := expectComma_ok hk
          obtain ⟨⟨ec, rc⟩, hec, hk⟩ := bindF_eq_ok hk
          obtain ⟨rfl, hrc⟩ := closeIte_ok hk
          obtain ⟨p1, h1, d1⟩ := ihE _ _ _ _ hea
          obtain ⟨p2, h2, d2⟩ := ihE _ _ _ _ heb
          obtain ⟨p3, h3, d3⟩ := ihE _ _ _ _ hec
          simp only at hra hrb hrc h1 h2 h3
          subst hrc; subst h3; subst hrb; subst h2; subst hra; subst h1
          exact ⟨.ite :: .lparen :: (p1 ++ .comma :: (p2 ++ .comma :: (p3 ++ [.rparen]))), by simp,
            .ite d1 d2 d3⟩
        · have e : parsePrefix (f+1) (Tok.ite :: t2 :: rest2) = errAt [] (t2 :: rest2) := by
            cases t2 <;> simp [parsePrefix] at ht2 ⊢
          rw [e] at h
          exact absurd h (errAt_ne_ok _ _ _)
    | «at» =>
      cases rest with
      | nil => simp [parsePrefix, errAt] at h
      | cons t2 rest2 =>
        cases t2 with
        | number d =>
          rw [prefix_at] at h
          obtain ⟨rfl, rfl⟩ := atomDone_ok h
          exact ⟨[.at, .number d], rfl, .num d⟩
        | op o =>
          by_cases ho : o = .minus
          · subst ho
            cases rest2 with
            | nil => simp [parsePrefix, errAt] at h
            | cons t3 rest3 =>
              cases t3 with
              | number d =>
                rw [prefix_at_minus] at h
                obtain ⟨rfl, rfl⟩ := atomDone_ok h
                exact ⟨[.at, .op .minus, .number d], rfl, .negNum d⟩
              | _ =>
                simp only [parsePrefix] at h
                exact absurd h (errAt_ne_ok _ _ _)
          · have e : parsePrefix (f+1) (Tok.at :: Tok.op o :: rest2) = errAt [] (Tok.op o :: rest2) := by
              cases o <;> simp [parsePrefix] at ho ⊢
            rw [e] at h
            exact absurd h (errAt_ne_ok _ _ _)
        | _ =>
          simp only [parsePrefix] at h
          exact absurd h (errAt_ne_ok _ _ _)
    | _ =>
      simp only [parsePrefix] at h
      exact absurd h (errAt_ne_ok _ _ _)

theorem der_loop (f : Nat) (ihE : DerE f) (ihL : DerL f) : DerL (f+1) := by
  intro p lhs toks a r h lpre hl
  cases toks with
  | nil =>
    simp only [parseLoop, Except.ok.injEq, Prod.mk.injEq] at h
    obtain ⟨rfl, rfl⟩ := h
    exact ⟨[], rfl, by simpa using hl⟩
  | cons t rest =>
    cases t with
    | op o =>
      rw [loop_op] at h
      split at h
      · obtain ⟨⟨e, r1⟩, he, hk⟩ := bindF_eq_ok h
        obtain ⟨pre, hpre, hd⟩ := ihE _ _ _ _ he
        simp only at hk
        obtain ⟨mid, hmid, hd'⟩ := ihL _ _ _ _ _ hk (lpre ++ .op o :: pre) (.bin o hl hd)
        subst hpre; subst hmid
        exact ⟨.op o :: (pre ++ mid), by simp, by simpa [List.append_assoc] using hd'⟩
      · simp only [Except.ok.injEq, Prod.mk.injEq] at h
        obtain ⟨rfl, rfl⟩ := h
        exact ⟨[], rfl, by simpa using hl⟩
    | _ =>
      simp only [parseLoop, Except.ok.injEq, Prod.mk.injEq] at h
      obtain ⟨rfl, rfl⟩ := h
      exact ⟨[], rfl, by simpa using hl⟩

theorem der_all : ∀ f : Nat, DerE f ∧ DerL f := by
  intro f
  induction f with
  | zero =>
    constructor
    · intro p toks a r h; simp [parseExpr, exprWith, parsePrefix, PRes.bindF] at h
    · intro p lhs toks a r h; simp [parseLoop] at h
  | succ f ih =>
    have hL := der_loop f ih.1 ih.2
    refine ⟨?_, hL⟩
    intro p toks a r h
    rw [parseExpr_eq] at h
    obtain ⟨⟨e, r1⟩, he, hk⟩ := bindF_eq_ok h
    obtain ⟨pre, hpre, hd⟩ := der_prefix f ih.1 _ _ _ he
    obtain ⟨mid, hmid, hd'⟩ := hL _ _ _ _ _ hk pre hd
    simp only at hmid
    subst hpre; subst hmid
    exact ⟨pre ++ mid, by simp, hd'⟩

/-- SOUNDNESS: a tree the model parser returns for a token string is a tree the grammar of the
source derives for that string -/
theorem parse_sound (toks : List Tok) (t : Ast) (h : parse toks = some t) : Derives toks t := by
  unfold parse at h
  cases hp : parseE toks with
  | error e => rw [hp] at h; cases h
  | ok t' =>
    rw [hp] at h
    simp only [Option.some.injEq] at h
    subst h
    unfold parseE at hp
    cases he : parseExpr (toks.length + 1) 0 toks with
    | error e => rw [he] at hp; cases hp
    | ok v =>
      obtain ⟨a, r⟩ := v
      rw [he] at hp
      cases r with
      | nil =>
        simp only [Except.ok.injEq] at hp
        subst hp
        obtain ⟨pre, hpre, hd⟩ := (der_all _).1 _ _ _ _ he
        simp only [List.append_nil] at hpre
        subst hpre
        exact hd
      | cons x r => exact absurd hp (errAt_ne_ok _ _ _)

end DD
