/-
  DDProofs.SchedNatural — the node surgery of `swap` and `collect_garbage` neither read nor write
  the recorded schedule: running them with ANOTHER schedule in the state gives the same answer and
  the same state up to that schedule (`SN x`: `x (setS s m) = ((x m).1, setS s (x m).2)`).

  This is what makes a recorded schedule *a priori* meaningful: while the first items are being
  consumed, the later items sit in `m.sched`; `SN` says that they do not influence what happens
  until they are reached (DDProofs.SchedAccept).
-/
import DD.Order
import DDProofs.MonadM
open Std

namespace DD

/-- put the schedule `s` into the state -/
def setS (s : List SchedItem) (m : Mgr) : Mgr := { m with sched := s }

theorem setS_setS (s s' : List SchedItem) (m : Mgr) : setS s (setS s' m) = setS s m := rfl
theorem setS_self (m : Mgr) : setS m.sched m = m := rfl

/-- `x` is natural in the recorded schedule: it neither reads nor writes it -/
def SN {α} (x : M α) : Prop := ∀ (s : List SchedItem) (m : Mgr), x (setS s m) = ((x m).1, setS s (x m).2)

theorem SN.pure {α} (a : α) : SN (pure a : M α) := fun _ _ => rfl
theorem SN.throw {α} (e : Err) : SN (M.throw e : M α) := fun _ _ => rfl
theorem SN.assert (b : Bool) (e : Err) : SN (M.assert b e) := by
  intro s m; cases b <;> rfl
theorem SN.ofOption {α} (e : Err) (o : Option α) : SN (M.ofOption e o) := by
  intro s m; cases o <;> rfl

theorem SN.throw_bind {α β} (e : Err) (f : α → M β) : SN (M.throw e >>= f) := fun _ _ => rfl

theorem SN.bind {α β} {x : M α} {f : α → M β} (hx : SN x) (hf : ∀ a, SN (f a)) : SN (x >>= f) := by
  intro s m
  rw [M.bind_eq, M.bind_eq, hx s m]
  generalize x m = r
  obtain ⟨r, m1⟩ := r
  cases r with
  | ok a => exact hf a s m1
  | error e => rfl

/-- `let m ← M.get; …` when the continuation uses the state it got only through fields other
than the schedule -/
theorem SN.get {β} {f : Mgr → M β} (hins : ∀ s m0, f (setS s m0) = f m0) (hf : ∀ m0, SN (f m0)) :
    SN (M.get >>= f) := by
  intro s m
  show f (setS s m) (setS s m) = ((f m m).1, setS s (f m m).2)
  rw [hins s m]
  exact hf m s m

theorem SN.modify (g : Mgr → Mgr) (hg : ∀ s m, g (setS s m) = setS s (g m)) : SN (M.modify g) := by
  intro s m
  show ((Except.ok ()), g (setS s m)) = _
  rw [hg s m]
  rfl

theorem SN.ite {α} (c : Prop) [Decidable c] {x y : M α} (hx : SN x) (hy : SN y) :
    SN (if c then x else y) := by
  split
  · exact hx
  · exact hy

/-- a computation given as a function of the state that returns the state unchanged or with
fields other than the schedule changed: checked by unfolding -/
theorem SN.of_eq {α} {x : M α} (h : ∀ s m, x (setS s m) = ((x m).1, setS s (x m).2)) : SN x := h

/-! ### the counters -/

theorem incref_sn (u : Int) : SN (incref u) := by
  intro s m
  unfold incref
  show (match m.ref[u.natAbs]? with
    | none => ((Except.error Err.key : Except Err Unit), setS s m)
    | some c => (.ok (), { setS s m with ref := m.ref.insert u.natAbs (c + 1) })) = _
  cases m.ref[u.natAbs]? <;> rfl

theorem decref_sn (u : Int) : SN (decref u) := by
  intro s m
  unfold decref
  show (match m.ref[u.natAbs]? with
    | none => ((Except.error Err.key : Except Err Unit), setS s m)
    | some c => if c = 0 then (.ok (), setS s m)
        else (.ok (), { setS s m with ref := m.ref.insert u.natAbs (c - 1) })) = _
  cases m.ref[u.natAbs]? with
  | none => rfl
  | some c => by_cases hc : c = 0 <;> simp [hc] <;> rfl

theorem refOf_sn (u : Int) : SN (refOf u) := by
  intro s m
  unfold refOf
  show (match m.ref[u.natAbs]? with
    | none => ((Except.error Err.key : Except Err Nat), setS s m)
    | some c => (.ok c, setS s m)) = _
  cases m.ref[u.natAbs]? <;> rfl

theorem refOfExact_sn (w : Int) : SN (refOfExact w) := by
  intro s m
  unfold refOfExact
  show (if w < 0 then ((Except.error Err.key : Except Err Nat), setS s m) else
    match m.ref[w.toNat]? with
    | none => (.error .key, setS s m)
    | some c => (.ok c, setS s m)) = _
  split
  · rfl
  · cases m.ref[w.toNat]? <;> rfl

/-! ### `find_or_add` -/

theorem SN.of_run {α} {x : M α}
    (h : ∀ s m r m', x m = (r, m') → x (setS s m) = (r, setS s m')) : SN x := by
  intro s m
  exact h s m _ _ rfl

theorem requestReordering_sn : SN requestReordering := by
  refine SN.of_run fun s m r m' h => ?_
  unfold requestReordering at h ⊢
  simp only [setS] at h ⊢
  cases hl : m.lastLen with
  | none =>
    rw [hl] at h
    cases h
    simp only [hl]
  | some l =>
    rw [hl] at h
    simp only at h ⊢
    cases hk : m.fireIn with
    | some k =>
      rw [hk] at h
      simp only at h ⊢
      by_cases hc : k ≤ 1
      · rw [if_pos hc] at h ⊢
        cases h
        simp only [hl]
      · rw [if_neg hc] at h ⊢
        cases h
        simp only [hl]
    | none =>
      rw [hk] at h
      simp only at h ⊢
      by_cases hc : m.len ≥ Gen.reorderFactor * l
      · rw [if_pos hc] at h
        cases h
        have hc' : ({ m with lastLen := some l, fireIn := none, sched := s } : Mgr).len ≥
          Gen.reorderFactor * l := hc
        simp only [hc', ↓reduceIte, hl, hk]
      · rw [if_neg hc] at h
        cases h
        have hc' : ¬ ({ m with lastLen := some l, fireIn := none, sched := s } : Mgr).len ≥
          Gen.reorderFactor * l := hc
        simp only [hc', ↓reduceIte, hl, hk]

/-- the state in which `find_or_add` has entered the new node `(i, v', w')` at `min_free` -/
def foaNew (i : Nat) (v' w' : Int) (m : Mgr) : Mgr :=
  { m with
    tbl := { m.tbl with succ := m.tbl.succ.insert m.minFree ⟨i, v', w'⟩ }
    pred := m.pred.insert (⟨i, v', w'⟩ : Nd).key m.minFree
    ref := m.ref.insert m.minFree 0
    minFree := nextFree (m.tbl.succ.insert m.minFree ⟨i, v', w'⟩)
      ((m.tbl.succ.insert m.minFree ⟨i, v', w'⟩).size + 2) m.minFree }

theorem foaNew_setS (i : Nat) (v' w' : Int) (s : List SchedItem) (m : Mgr) :
    foaNew i v' w' (setS s m) = setS s (foaNew i v' w' m) := rfl

/-- the two `incref`s and the answer of the branch of `find_or_add` that creates a node -/
def foaTail (r0 v' w' : Int) (u : Nat) : M Int := fun m1 =>
  match incref v' m1 with
  | (.error e, m2) => (.error e, m2)
  | (.ok _, m2) =>
    match incref w' m2 with
    | (.error e, m3) => (.error e, m3)
    | (.ok _, m3) => (.ok (r0 * (u : Int)), m3)

theorem foaTail_sn (r0 v' w' : Int) (u : Nat) : SN (foaTail r0 v' w' u) := by
  intro s m1
  unfold foaTail
  rw [incref_sn v' s m1]
  generalize incref v' m1 = r2
  obtain ⟨r2, m2⟩ := r2
  cases r2 with
  | error e => rfl
  | ok u2 =>
    simp only
    rw [incref_sn w' s m2]
    generalize incref w' m2 = r3
    obtain ⟨r3, m3⟩ := r3
    cases r3 <;> rfl

theorem findOrAddCore_sn (i : Nat) (v w : Int) : SN (findOrAddCore i v w) := by
  intro s m
  have key : ∀ m : Mgr, findOrAddCore i v w m =
      if m.nvars ≤ i then (.error .value, m) else
      if !m.mem v then (.error .value, m) else
      if !m.mem w then (.error .value, m) else
      if (if w < 0 then -v else v) = (if w < 0 then -w else w) then
        (.ok ((if w < 0 then -1 else 1) * (if w < 0 then -v else v)), m) else
      match m.pred[(⟨i, if w < 0 then -v else v, if w < 0 then -w else w⟩ : Nd).key]? with
      | some u => (.ok ((if w < 0 then -1 else 1) * (u : Int)), m)
      | none =>
        if m.minFree ≤ 1 then (.error .assertion, m) else
        if m.tbl.succ.contains m.minFree then (.error .assertion, m) else
        foaTail (if w < 0 then -1 else 1) (if w < 0 then -v else v) (if w < 0 then -w else w) m.minFree
          (foaNew i (if w < 0 then -v else v) (if w < 0 then -w else w) m) := fun m => rfl
  rw [key (setS s m), key m]
  show (if m.nvars ≤ i then ((Except.error Err.value : Except Err Int), setS s m) else
      if !m.mem v then (.error .value, setS s m) else
      if !m.mem w then (.error .value, setS s m) else
      if (if w < 0 then -v else v) = (if w < 0 then -w else w) then
        (.ok ((if w < 0 then -1 else 1) * (if w < 0 then -v else v)), setS s m) else
      match m.pred[(⟨i, if w < 0 then -v else v, if w < 0 then -w else w⟩ : Nd).key]? with
      | some u => (.ok ((if w < 0 then -1 else 1) * (u : Int)), setS s m)
      | none =>
        if m.minFree ≤ 1 then (.error .assertion, setS s m) else
        if m.tbl.succ.contains m.minFree then (.error .assertion, setS s m) else
        foaTail (if w < 0 then -1 else 1) (if w < 0 then -v else v) (if w < 0 then -w else w) m.minFree
          (setS s (foaNew i (if w < 0 then -v else v) (if w < 0 then -w else w) m))) = _
  generalize (if w < 0 then -v else v) = v'
  generalize (if w < 0 then -w else w) = w'
  generalize (if w < 0 then (-1 : Int) else 1) = r0
  split
  · rfl
  split
  · rfl
  split
  · rfl
  split
  · rfl
  cases m.pred[(⟨i, v', w'⟩ : Nd).key]? with
  | some u => rfl
  | none =>
    simp only
    split
    · rfl
    split
    · rfl
    exact foaTail_sn _ _ _ _ s _

theorem findOrAdd_sn (i : Int) (v w : Int) : SN (findOrAdd i v w) := by
  intro s m
  have key : ∀ m : Mgr, findOrAdd i v w m =
      match (if m.ctx then requestReordering m else (.ok (), m)) with
      | (.error e, m1) => (.error e, m1)
      | (.ok _, m1) => if i < 0 then (.error .value, m1) else findOrAddCore i.toNat v w m1 := fun m => rfl
  rw [key (setS s m), key m]
  show (match (if m.ctx then requestReordering (setS s m) else (.ok (), setS s m)) with
      | (.error e, m1) => ((Except.error e : Except Err Int), m1)
      | (.ok _, m1) => if i < 0 then (.error .value, m1) else findOrAddCore i.toNat v w m1) = _
  cases m.ctx with
  | false =>
    simp only [Bool.false_eq_true, if_false]
    split
    · rfl
    · exact findOrAddCore_sn _ v w s m
  | true =>
    simp only [if_true]
    rw [requestReordering_sn s m]
    generalize requestReordering m = r1
    obtain ⟨r1, m1⟩ := r1
    cases r1 with
    | error e => rfl
    | ok u =>
      simp only
      split
      · rfl
      · exact findOrAddCore_sn _ v w s m1

/-! ### the node surgery of `swap` -/

theorem lowHighLevel_sn (u : Int) : SN (lowHighLevel u) := by
  unfold lowHighLevel
  exact SN.get (fun _ _ => rfl) (fun _ => SN.ofOption _ _)

theorem swapCofactor_sn (u : Int) (y : Nat) : SN (swapCofactor u y) := by
  unfold swapCofactor
  refine SN.get (fun _ _ => rfl) (fun m0 => ?_)
  refine SN.ite _ (SN.ite _ (SN.pure _) (SN.throw _)) ?_
  exact SN.bind (SN.ofOption _ _) (fun n => SN.ite _ (SN.pure _) (SN.pure _))

theorem depCofactors_sn (v w : Int) (y : Nat) : SN (depCofactors v w y) := by
  unfold depCofactors
  refine SN.bind (swapCofactor_sn v y) (fun p1 => ?_)
  obtain ⟨iv, v0, v1⟩ := p1
  refine SN.bind (swapCofactor_sn w y) (fun p2 => ?_)
  obtain ⟨iw, w0, w1⟩ := p2
  refine SN.bind (SN.assert _ _) (fun _ => ?_)
  refine SN.bind (SN.assert _ _) (fun _ => ?_)
  exact SN.pure _

theorem setNode_sn (u : Nat) (n : Nd) : SN (setNode u n) := by
  intro s m
  have key : ∀ m : Mgr, setNode u n m =
      if (!m.pred.contains n.key) = true then
        (.ok (), { m with tbl := { m.tbl with succ := m.tbl.succ.insert u n }, pred := m.pred.insert n.key u })
      else (.error .assertion, m) := by
    intro m
    unfold setNode
    simp only [M.bind_eq, M.get_eq]
    cases h : (!m.pred.contains n.key) <;> rfl
  rw [key (setS s m), key m]
  show (if (!m.pred.contains n.key) = true then
        ((Except.ok () : Except Err Unit), { setS s m with tbl := { m.tbl with succ := m.tbl.succ.insert u n }, pred := m.pred.insert n.key u })
      else (.error .assertion, setS s m)) = _
  split <;> rfl

theorem popLevel_sn (j : Nat) : ∀ l : List Nat, SN (popLevel j l) := by
  intro l
  induction l with
  | nil => exact SN.pure _
  | cons u rest ih =>
    unfold popLevel
    refine SN.get (fun _ _ => rfl) (fun m0 => ?_)
    refine SN.bind (SN.ofOption _ _) (fun n => ?_)
    refine SN.bind (SN.assert _ _) (fun _ => ?_)
    refine SN.bind (SN.ofOption _ _) (fun u' => ?_)
    refine SN.bind (SN.modify _ (fun _ _ => rfl)) (fun _ => ?_)
    refine SN.bind (SN.assert _ _) (fun _ => ?_)
    exact SN.bind ih (fun r => SN.pure _)

theorem moveUp_sn (x y : Nat) : ∀ l : List (Nat × Int × Int), SN (moveUp x y l) := by
  intro l
  induction l with
  | nil => exact SN.pure _
  | cons t rest ih =>
    obtain ⟨u, v, w⟩ := t
    unfold moveUp
    refine SN.get (fun _ _ => rfl) (fun m0 => ?_)
    refine SN.bind (SN.ofOption _ _) (fun n => ?_)
    refine SN.bind (SN.assert _ _) (fun _ => ?_)
    exact SN.bind (setNode_sn _ _) (fun _ => ih)

theorem moveIndep_sn (x y : Nat) : ∀ l : List (Nat × Int × Int), SN (moveIndep x y l) := by
  intro l
  induction l with
  | nil => exact SN.pure _
  | cons t rest ih =>
    obtain ⟨u, v, w⟩ := t
    unfold moveIndep
    refine SN.get (fun _ _ => rfl) (fun m0 => ?_)
    refine SN.bind (SN.ofOption _ _) (fun n => ?_)
    refine SN.bind (SN.assert _ _) (fun _ => ?_)
    refine SN.bind (SN.assert _ _) (fun _ => ?_)
    refine SN.bind (lowHighLevel_sn _) (fun iv => ?_)
    refine SN.bind (lowHighLevel_sn _) (fun iw => ?_)
    refine SN.ite _ ih ?_
    refine SN.bind (setNode_sn _ _) (fun _ => ?_)
    exact SN.bind ih (fun d => SN.pure _)

theorem moveDepStep_sn (x y u : Nat) (v w : Int) : SN (moveDepStep x y u v w) := by
  unfold moveDepStep
  refine SN.get (fun _ _ => rfl) (fun m0 => ?_)
  refine SN.bind (SN.ofOption _ _) (fun n => ?_)
  refine SN.bind (SN.assert _ _) (fun _ => ?_)
  refine SN.bind (SN.assert _ _) (fun _ => ?_)
  refine SN.bind (decref_sn _) (fun _ => ?_)
  refine SN.bind (decref_sn _) (fun _ => ?_)
  refine SN.bind (depCofactors_sn _ _ _) (fun q => ?_)
  obtain ⟨v0, v1, w0, w1⟩ := q
  refine SN.bind (findOrAdd_sn _ _ _) (fun p => ?_)
  refine SN.bind (findOrAdd_sn _ _ _) (fun q => ?_)
  refine SN.bind (SN.assert _ _) (fun _ => ?_)
  refine SN.bind (SN.assert _ _) (fun _ => ?_)
  refine SN.bind (lowHighLevel_sn _) (fun lp => ?_)
  refine SN.bind (lowHighLevel_sn _) (fun lq => ?_)
  refine SN.bind (setNode_sn _ _) (fun _ => ?_)
  refine SN.bind (incref_sn _) (fun _ => ?_)
  refine SN.bind (incref_sn _) (fun _ => ?_)
  exact SN.pure _

theorem moveDep_sn (x y : Nat) (done : List Nat) : ∀ l : List (Nat × Int × Int), SN (moveDep x y done l) := by
  intro l
  induction l with
  | nil => exact SN.pure _
  | cons t rest ih =>
    obtain ⟨u, v, w⟩ := t
    unfold moveDep
    refine SN.ite _ ih ?_
    refine SN.bind (moveDepStep_sn _ _ _ _ _) (fun fresh => ?_)
    refine SN.bind ih (fun p => ?_)
    obtain ⟨g, xf⟩ := p
    exact SN.pure _

theorem swapNodes_sn (x y : Nat) (ox oy : List Nat) : SN (swapNodes x y ox oy) := by
  unfold swapNodes
  refine SN.bind (popLevel_sn _ _) (fun lx => ?_)
  refine SN.bind (popLevel_sn _ _) (fun ly => ?_)
  refine SN.bind (moveUp_sn _ _ _) (fun _ => ?_)
  refine SN.bind (moveIndep_sn _ _ _) (fun done => ?_)
  refine SN.bind (moveDep_sn _ _ _ _) (fun p => ?_)
  obtain ⟨g, xf⟩ := p
  exact SN.pure _

theorem varAtLevel_sn (i : Int) : SN (varAtLevel i) := by
  unfold varAtLevel
  refine SN.get (fun _ _ => rfl) (fun m0 => ?_)
  exact SN.ite _ (SN.throw _) (SN.ofOption _ _)

theorem exchangeNames_sn (x y : Nat) : SN (exchangeNames x y) := by
  unfold exchangeNames
  refine SN.bind (varAtLevel_sn _) (fun vx => ?_)
  refine SN.bind (SN.modify _ (fun _ _ => rfl)) (fun _ => ?_)
  refine SN.bind (varAtLevel_sn _) (fun vy => ?_)
  exact SN.modify _ (fun _ _ => rfl)

/-! ### `collect_garbage` -/

theorem gcStep_sn (u : Nat) (work : List Nat) : SN (gcStep u work) := by
  unfold gcStep
  dsimp only
  refine SN.ite (u = 1) (SN.throw_bind _ _) ?_
  refine SN.get (fun _ _ => rfl) (fun m0 => ?_)
  refine SN.bind (SN.ofOption _ _) (fun n => ?_)
  refine SN.bind (SN.modify _ (fun _ _ => rfl)) (fun _ => ?_)
  refine SN.bind (SN.ofOption _ _) (fun u' => ?_)
  refine SN.bind (SN.modify _ (fun _ _ => rfl)) (fun _ => ?_)
  refine SN.bind (SN.ofOption _ _) (fun uref => ?_)
  refine SN.bind (SN.modify _ (fun _ _ => rfl)) (fun _ => ?_)
  refine SN.bind (SN.assert _ _) (fun _ => ?_)
  refine SN.bind (SN.assert _ _) (fun _ => ?_)
  refine SN.get (fun _ _ => rfl) (fun m1 => ?_)
  refine SN.bind (SN.assert _ _) (fun _ => ?_)
  refine SN.bind (decref_sn _) (fun _ => ?_)
  refine SN.bind (decref_sn _) (fun _ => ?_)
  refine SN.bind (refOf_sn _) (fun rv => ?_)
  refine SN.bind (refOfExact_sn _) (fun rw => ?_)
  exact SN.pure _

theorem gcLoop_sn : ∀ (f : Nat) (work : List Nat), SN (gcLoop f work) := by
  intro f
  induction f with
  | zero =>
    intro work
    cases work with
    | nil => exact SN.pure _
    | cons u rest => exact SN.throw _
  | succ f ih =>
    intro work
    cases work with
    | nil => exact SN.pure _
    | cons u rest =>
      unfold gcLoop
      exact SN.bind (gcStep_sn u rest) (fun w => ih w)

theorem unusedOf_sn : ∀ l : List Int, SN (unusedOf l) := by
  intro l
  induction l with
  | nil => exact SN.pure _
  | cons u rest ih =>
    unfold unusedOf
    refine SN.bind (refOf_sn _) (fun c => ?_)
    refine SN.bind ih (fun r => ?_)
    exact SN.ite _ (SN.pure _) (SN.pure _)

theorem collectGarbage_sn (roots : Option (List Int)) : SN (collectGarbage roots) := by
  unfold collectGarbage
  refine SN.get (fun _ _ => rfl) (fun m0 => ?_)
  refine SN.bind (unusedOf_sn _) (fun unused => ?_)
  refine SN.bind (gcLoop_sn _ _) (fun _ => ?_)
  refine SN.bind (SN.modify _ (fun _ _ => rfl)) (fun _ => ?_)
  refine SN.get (fun _ _ => rfl) (fun m1 => ?_)
  exact SN.assert _ _

/-! ### the closing loops and the whole swap -/

theorem checkOld_sn (m0 : Mgr) (ok : Nat → Bool) : ∀ l : List (Nat × Int × Int), SN (checkOld m0 ok l) := by
  intro l
  induction l with
  | nil => exact SN.pure _
  | cons t rest ih =>
    obtain ⟨u, v, w⟩ := t
    unfold checkOld
    cases m0.tbl.succ[u]? with
    | none => exact ih
    | some n => exact SN.bind (SN.assert _ _) (fun _ => ih)

theorem checkFresh_sn (m0 : Mgr) (y : Nat) : ∀ l : List Nat, SN (checkFresh m0 y l) := by
  intro l
  induction l with
  | nil => exact SN.pure _
  | cons u rest ih =>
    unfold checkFresh
    refine SN.bind (SN.ofOption _ _) (fun n => ?_)
    exact SN.bind (SN.assert _ _) (fun _ => ih)

theorem checkOld_setS (s : List SchedItem) (m0 : Mgr) (ok : Nat → Bool) :
    ∀ l : List (Nat × Int × Int), checkOld (setS s m0) ok l = checkOld m0 ok l := by
  intro l
  induction l with
  | nil => rfl
  | cons t rest ih =>
    obtain ⟨u, v, w⟩ := t
    unfold checkOld
    show (match m0.tbl.succ[u]? with
      | none => checkOld (setS s m0) ok rest
      | some n => do M.assert (ok n.lvl); checkOld (setS s m0) ok rest) = _
    rw [ih]
    rfl

theorem checkFresh_setS (s : List SchedItem) (m0 : Mgr) (y : Nat) :
    ∀ l : List Nat, checkFresh (setS s m0) y l = checkFresh m0 y l := by
  intro l
  induction l with
  | nil => rfl
  | cons u rest ih =>
    unfold checkFresh
    show (do let n ← M.ofOption .key (m0.tbl.succ[u]?); M.assert (n.lvl = y); checkFresh (setS s m0) y rest) = _
    rw [ih]

theorem checkNewLevels_sn (x y : Nat) (lx ly : List (Nat × Int × Int)) (xf : List Nat) :
    SN (checkNewLevels x y lx ly xf) := by
  unfold checkNewLevels
  refine SN.get (fun s m0 => ?_) (fun m0 => ?_)
  · simp only [checkOld_setS, checkFresh_setS]
  refine SN.bind (checkOld_sn _ _ _) (fun _ => ?_)
  refine SN.bind (checkFresh_sn _ _ _) (fun _ => ?_)
  exact checkOld_sn _ _ _

/-- **`swap` for fixed iteration orders neither reads nor writes the recorded schedule** -/
theorem swapWith_sn (x y oldsize : Nat) (ox oy : List Nat) : SN (swapWith x y oldsize ox oy) := by
  unfold swapWith
  refine SN.bind (swapNodes_sn _ _ _ _) (fun p => ?_)
  obtain ⟨lx, ly, g, xf⟩ := p
  refine SN.bind (exchangeNames_sn _ _) (fun _ => ?_)
  refine SN.bind (collectGarbage_sn _) (fun _ => ?_)
  refine SN.get (fun _ _ => rfl) (fun m0 => ?_)
  refine SN.bind (checkNewLevels_sn _ _ _ _ _) (fun _ => ?_)
  exact SN.pure _

end DD
