/-
  DDProofs.RejectedOrder — `swap` / `reorder` with bad arguments (C17, "bad order"): the
  arguments are validated before anything is touched.  With the levels given (`all_levels`, as
  the drivers call it) a refused `swap` changes nothing; the public `swap(x, y)` first runs the
  full collection and then validates, so the state after its refusal is the state after
  `collect_garbage()`.
-/
import DDProofs.OrderAbs
import DDProofs.Reach
open Std
namespace DD

/-- `swap(x, y, levels)` with levels that are not two adjacent valid levels: `ValueError`,
nothing changes -/
theorem swap_given_bad_levels (m : Mgr) (x y : Int)
    (hbad : ¬ (0 ≤ x ∧ x < m.nvars ∧ 0 ≤ y ∧ y < m.nvars ∧ (y - x = 1 ∨ x - y = 1))) :
    swap (.level x) (.level y) true m = (.error .value, m) := by
  unfold swap
  simp only [resolveVL, M.bind_eq, M.pure_eq, M.get_eq, Bool.not_true, Bool.false_eq_true, if_false]
  by_cases h1 : 0 ≤ x ∧ x < m.nvars
  · by_cases h2 : 0 ≤ y ∧ y < m.nvars
    · have h3 : ¬ (y - x = 1 ∨ x - y = 1) := fun h => hbad ⟨h1.1, h1.2, h2.1, h2.2, h⟩
      simp only [h1.1, h1.2, h2.1, h2.2, decide_true, Bool.and_self, Bool.not_true,
        Bool.false_eq_true, if_false]
      by_cases hxy : x > y
      · have h4 : ¬ (y ≥ x) := by omega
        have h5 : x - y ≠ 1 := by omega
        simp only [hxy, if_true, h4, if_false, h5, ne_eq, not_false_eq_true]
        rfl
      · simp only [hxy, if_false]
        by_cases h4 : x ≥ y
        · simp only [h4, if_true]; rfl
        · have h5 : y - x ≠ 1 := by omega
          simp only [h4, if_false, h5, ne_eq, not_false_eq_true, if_true]
          rfl
    · have : (!(decide (0 ≤ y) && decide (y < (m.nvars : Int)))) = true := by
        simp only [Bool.not_eq_true', Bool.and_eq_false_iff, decide_eq_false_iff_not]
        by_cases h : 0 ≤ y
        · right; exact fun h' => h2 ⟨h, h'⟩
        · left; exact h
      simp only [h1.1, h1.2, decide_true, Bool.and_self, Bool.not_true, Bool.false_eq_true, if_false,
        this, if_true]
      rfl
  · have : (!(decide (0 ≤ x) && decide (x < (m.nvars : Int)))) = true := by
      simp only [Bool.not_eq_true', Bool.and_eq_false_iff, decide_eq_false_iff_not]
      by_cases h : 0 ≤ x
      · right; exact fun h' => h1 ⟨h, h'⟩
      · left; exact h
    simp only [this, if_true]
    rfl

/-- the public `swap(x, y)` = full collection, then `swap(x, y, levels)` -/
theorem swap_public_unfold (xa ya : VarOrLevel) (m : Mgr) :
    swap xa ya false m = match collectGarbage none m with
      | (.ok _, m') => swap xa ya true m'
      | (.error e, m') => (.error e, m') := by
  unfold swap
  simp only [Bool.not_false, if_true, Bool.not_true, Bool.false_eq_true, if_false]
  show M.bind' _ _ m = _
  unfold M.bind'
  cases collectGarbage none m with
  | mk r m' =>
    cases r with
    | ok a => rfl
    | error e => rfl

/-- the public `swap(x, y)` refused: `ValueError` in the state left by the collection, which is
good again for the same ledger (everything held survives with its meaning: `GcFullPost`) -/
theorem swap_public_rejected (m : Mgr) (ext : Nat → Nat) (h : GoodState m ext) (x y : Int)
    (hbad : ¬ (0 ≤ x ∧ x < m.nvars ∧ 0 ≤ y ∧ y < m.nvars ∧ (y - x = 1 ∨ x - y = 1))) :
    ∃ m', swap (.level x) (.level y) false m = (.error .value, m') ∧ GcFullPost m ext m' ∧
      GoodState m' ext := by
  obtain ⟨m', he, hp, hg⟩ := collectGarbage_good m ext h
  refine ⟨m', ?_, hp, hg⟩
  rw [swap_public_unfold, he]
  have hn : m'.nvars = m.nvars := by
    show m'.tbl.vars.size = m.tbl.vars.size
    rw [hp.sub.vars]
  exact swap_given_bad_levels m' x y (by rw [hn]; exact hbad)

/-- `reorder(bdd, order)` with an order that does not list every variable: `ValueError`,
nothing changes -/
theorem reorder_bad_length (m : Mgr) (order : List (String × Int)) (h : m.nvars ≠ order.length) :
    reorder (some order) m = (.error .value, m) := by
  unfold reorder sortToOrder
  simp [M.bind_eq, M.get_eq, h, M.throw]

/-- `swap` of an undeclared name -/
theorem swap_unknown_name (m : Mgr) (s : String) (ya : VarOrLevel) (h : m.tbl.vars[s]? = none) :
    swap (.name s) ya true m = (.error .value, m) := by
  unfold swap
  simp [resolveVL, M.bind_eq, M.get_eq, h, M.ofOption, M.throw]
end DD
