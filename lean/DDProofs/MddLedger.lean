/-
  DDProofs.MddLedger — the ledger of references the user holds; exact counts under `incref` /
  `decref`; the fresh manager.
-/
import DDProofs.MddGc
open Std

namespace DD

/-- the ledger after taking one more reference to `u` -/
def mExtInc (ext : Nat → Nat) (u : Int) : Nat → Nat := fun x => if x = u.natAbs then ext x + 1 else ext x
/-- the ledger after releasing one reference to `u` -/
def mExtDec (ext : Nat → Nat) (u : Int) : Nat → Nat := fun x => if x = u.natAbs then ext x - 1 else ext x

theorem mIncref_exact (u : Int) (m : MddMgr) (ext : Nat → Nat) (hu : m.tbl.Mem u)
    (hx : MRefExact m ext) (m' : MddMgr) (hi : mIncref u m = (.ok (), m')) :
    MRefExact m' (mExtInc ext u) := by
  unfold mIncref at hi
  split at hi
  · simp at hi
  · next c hc =>
    simp only [Prod.mk.injEq, true_and] at hi
    subst hi
    have hcnt := hx.cnt u.natAbs hu
    rw [hc] at hcnt
    simp only [Option.some.injEq] at hcnt
    constructor
    · intro x hxm
      show (m.ref.insert u.natAbs (c + 1))[x]? = some (m.tbl.indeg (m.max + 1) x + mExtInc ext u x)
      rw [natmap_getElem?_insert]
      unfold mExtInc
      by_cases hux : u.natAbs = x
      · subst hux
        simp only [if_true, Option.some.injEq]
        omega
      · have : ¬ x = u.natAbs := fun e => hux e.symm
        simp only [hux, this, if_false]
        exact hx.cnt x hxm
    · intro x hx1 hxn
      unfold mExtInc
      have hne : ¬ x = u.natAbs := by
        intro e; subst e
        rcases hu with h1 | h1
        · exact hx1 h1
        · have : m.tbl.node? u.natAbs = none := hxn
          rw [this] at h1; cases h1
      simp only [hne, if_false]
      exact hx.extZero x hx1 hxn

theorem mDecref_exact (u : Int) (m : MddMgr) (ext : Nat → Nat) (hu : m.tbl.Mem u)
    (hheld : 0 < ext u.natAbs)
    (hx : MRefExact m ext) (m' : MddMgr) (hi : mDecref u m = (.ok (), m')) :
    MRefExact m' (mExtDec ext u) := by
  unfold mDecref at hi
  split at hi
  · simp at hi
  · next c hc =>
    have hcnt := hx.cnt u.natAbs hu
    rw [hc] at hcnt
    simp only [Option.some.injEq] at hcnt
    split at hi
    · omega
    · simp only [Prod.mk.injEq, true_and] at hi
      subst hi
      constructor
      · intro x hxm
        show (m.ref.insert u.natAbs (c - 1))[x]? = some (m.tbl.indeg (m.max + 1) x + mExtDec ext u x)
        rw [natmap_getElem?_insert]
        unfold mExtDec
        by_cases hux : u.natAbs = x
        · subst hux
          simp only [if_true, Option.some.injEq]
          omega
        · have : ¬ x = u.natAbs := fun e => hux e.symm
          simp only [hux, this, if_false]
          exact hx.cnt x hxm
      · intro x hx1 hxn
        unfold mExtDec
        have hne : ¬ x = u.natAbs := by
          intro e; subst e
          rcases hu with h1 | h1
          · exact hx1 h1
          · have : m.tbl.node? u.natAbs = none := hxn
            rw [this] at h1; cases h1
        simp only [hne, if_false]
        exact hx.extZero x hx1 hxn

/-- a fresh `MDD(dvars)` has exact counts for the empty ledger -/
theorem MRefExact.init (dv : List MVar) : MRefExact (MddMgr.new (some dv)) (fun _ => 0) := by
  constructor
  · intro u hu
    have hnone : ∀ p, (MddMgr.new (some dv)).tbl.node? p = none := by
      intro p; simp [MddMgr.new, MTbl.node?]
    rcases hu with rfl | h1
    · have : (MddMgr.new (some dv)).tbl.indeg ((MddMgr.new (some dv)).max + 1) 1 = 0 := by
        unfold MTbl.indeg
        simp [MddMgr.new, sumRange, MTbl.node?, edgesInto]
      rw [this]
      simp [MddMgr.new]
    · rw [hnone u] at h1; cases h1
  · intro _ _ _; rfl

end DD
