/-
  DDProofs.SatList — list lemmas for the model's `sortNat`, `dedup`, `pushNew`
  and a pigeonhole principle for duplicate-free lists of bounded naturals.
-/
import DD.Ops
open Std

namespace DD

theorem mem_insertSorted {a x : Nat} {l : List Nat} : x ∈ insertSorted a l ↔ x = a ∨ x ∈ l := by
  induction l with
  | nil => simp [insertSorted]
  | cons b l ih =>
    unfold insertSorted
    split
    · simp
    · simp only [List.mem_cons, ih]
      constructor
      · rintro (h | h | h) <;> simp [h]
      · rintro (h | h | h) <;> simp [h]

theorem insertSorted_perm (a : Nat) (l : List Nat) : (insertSorted a l).Perm (a :: l) := by
  induction l with
  | nil => simp [insertSorted]
  | cons b l ih =>
    unfold insertSorted
    split
    · exact List.Perm.refl _
    · exact (List.Perm.cons b ih).trans (List.Perm.swap a b l)

theorem sortNat_perm (l : List Nat) : (sortNat l).Perm l := by
  induction l with
  | nil => exact List.Perm.refl _
  | cons a l ih =>
    show (insertSorted a (sortNat l)).Perm (a :: l)
    exact (insertSorted_perm a _).trans (List.Perm.cons a ih)

theorem mem_sortNat {x : Nat} {l : List Nat} : x ∈ sortNat l ↔ x ∈ l := (sortNat_perm l).mem_iff

theorem length_sortNat (l : List Nat) : (sortNat l).length = l.length := (sortNat_perm l).length_eq

theorem insertSorted_sorted {a : Nat} {l : List Nat} (h : l.Pairwise (· ≤ ·)) :
    (insertSorted a l).Pairwise (· ≤ ·) := by
  induction l with
  | nil => simp [insertSorted]
  | cons b l ih =>
    unfold insertSorted
    rw [List.pairwise_cons] at h
    split
    · next hab =>
      refine List.pairwise_cons.mpr ⟨?_, List.pairwise_cons.mpr h⟩
      intro x hx
      rcases List.mem_cons.mp hx with hx | hx
      · omega
      · have := h.1 x hx; omega
    · next hab =>
      refine List.pairwise_cons.mpr ⟨?_, ih h.2⟩
      intro x hx
      rcases mem_insertSorted.mp hx with hx | hx
      · omega
      · exact h.1 x hx

theorem sortNat_sorted (l : List Nat) : (sortNat l).Pairwise (· ≤ ·) := by
  induction l with
  | nil => exact List.Pairwise.nil
  | cons a l ih => exact insertSorted_sorted ih

theorem sortNat_nodup {l : List Nat} (h : l.Nodup) : (sortNat l).Nodup :=
  (sortNat_perm l).nodup_iff.mpr h

/-- a duplicate-free list is sorted strictly -/
theorem sortNat_strict {l : List Nat} (h : l.Nodup) : (sortNat l).Pairwise (· < ·) := by
  have h1 := sortNat_sorted l
  have h2 : (sortNat l).Pairwise (· ≠ ·) := sortNat_nodup h
  exact (h1.and h2).imp (fun ⟨h, h'⟩ => by omega)

/-- a strictly sorted list is determined by its members -/
theorem strict_sorted_ext {l1 l2 : List Nat} (h1 : l1.Pairwise (· < ·)) (h2 : l2.Pairwise (· < ·))
    (h : ∀ x, x ∈ l1 ↔ x ∈ l2) : l1 = l2 := by
  induction l1 generalizing l2 with
  | nil =>
    cases l2 with
    | nil => rfl
    | cons b l2 => exact absurd ((h b).mpr (by simp)) (by simp)
  | cons a l1 ih =>
    cases l2 with
    | nil => exact absurd ((h a).mp (by simp)) (by simp)
    | cons b l2 =>
      rw [List.pairwise_cons] at h1 h2
      have hab : a = b := by
        have ha := (h a).mp (by simp)
        have hb := (h b).mpr (by simp)
        rcases List.mem_cons.mp ha with ha | ha
        · exact ha
        · rcases List.mem_cons.mp hb with hb | hb
          · exact hb.symm
          · have := h1.1 b hb; have := h2.1 a ha; omega
      subst hab
      congr 1
      apply ih h1.2 h2.2
      intro x
      constructor
      · intro hx
        rcases List.mem_cons.mp ((h x).mp (List.mem_cons_of_mem _ hx)) with e | e
        · have := h1.1 x hx; omega
        · exact e
      · intro hx
        rcases List.mem_cons.mp ((h x).mpr (List.mem_cons_of_mem _ hx)) with e | e
        · have := h2.1 x hx; omega
        · exact e

/-! ### pigeonhole -/

theorem nodup_bounded_length : ∀ (n : Nat) (l : List Nat), l.Nodup → (∀ x ∈ l, x < n) → l.length ≤ n := by
  intro n
  induction n with
  | zero =>
    intro l _ hb
    cases l with
    | nil => simp
    | cons a l => exact absurd (hb a (by simp)) (by omega)
  | succ n ih =>
    intro l hn hb
    by_cases hmem : n ∈ l
    · have := ih (l.erase n) (hn.erase n) (by
        intro x hx
        have := (hn.mem_erase_iff).mp hx
        have := hb x this.2
        omega)
      rw [List.length_erase_of_mem hmem] at this
      omega
    · have := ih l hn (by
        intro x hx
        have := hb x hx
        have : x ≠ n := fun e => hmem (e ▸ hx)
        omega)
      omega

theorem nodup_full : ∀ (n : Nat) (l : List Nat), l.Nodup → (∀ x ∈ l, x < n) → l.length = n →
    ∀ x, x < n → x ∈ l := by
  intro n
  induction n with
  | zero => intro l _ _ _ x hx; omega
  | succ n ih =>
    intro l hn hb hl x hx
    by_cases hmem : n ∈ l
    · by_cases hxn : x = n
      · subst hxn; exact hmem
      · have := ih (l.erase n) (hn.erase n) (by
          intro y hy
          have := (hn.mem_erase_iff).mp hy
          have := hb y this.2
          omega) (by rw [List.length_erase_of_mem hmem]; omega) x (by omega)
        exact List.mem_of_mem_erase this
    · have := nodup_bounded_length n l hn (by
        intro y hy
        have := hb y hy
        have : y ≠ n := fun e => hmem (e ▸ hy)
        omega)
      omega

/-! ### `dedup`, `pushNew` -/

theorem mem_dedup {α} [BEq α] [LawfulBEq α] {x : α} {l : List α} : x ∈ dedup l ↔ x ∈ l := by
  induction l with
  | nil => simp [dedup]
  | cons a l ih =>
    simp only [dedup]
    split
    · next h =>
      rw [List.contains_iff_mem] at h
      rw [ih, List.mem_cons]
      constructor
      · exact Or.inr
      · rintro (rfl | h')
        · exact ih.mp h
        · exact h'
    · simp [ih]

theorem nodup_dedup {α} [BEq α] [LawfulBEq α] (l : List α) : (dedup l).Nodup := by
  induction l with
  | nil => simp [dedup]
  | cons a l ih =>
    simp only [dedup]
    split
    · exact ih
    · next h =>
      rw [List.contains_iff_mem] at h
      exact List.nodup_cons.mpr ⟨h, ih⟩

theorem mem_pushNew {x u : Nat} {l : List Nat} : x ∈ pushNew l u ↔ x ∈ l ∨ x = u := by
  unfold pushNew
  split
  · next h =>
    rw [List.contains_iff_mem] at h
    constructor
    · exact Or.inl
    · rintro (h' | rfl)
      · exact h'
      · exact h
  · simp

end DD
