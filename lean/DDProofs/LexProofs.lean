/-
  DDProofs.LexProofs — the tokenizer reads the canonical text of a token string back:
  `tokenize (spell toks) = toks` (canonical spellings, one space after every token), hence
  the text of every lexically well-formed formula is parsed back to its tree.
  The tokenizer's longest match over `Gen.spellings` is local (it never looks past the space),
  so each operator spelling is settled by `decide` on the regenerated table.
-/
import DDProofs.ParseProofs
namespace DD

/-- canonical spelling of a token -/
def Tok.text : Tok → String
  | .lparen => "(" | .rparen => ")" | .comma => "," | .colon => ":" | .div => "/" | .at => "@"
  | .not => "~" | .forall_ => "\\A" | .exists_ => "\\E" | .rename => "\\S"
  | .ite => "ite" | .tt => "TRUE" | .ff => "FALSE"
  | .op o => o.value
  | .name s => s
  | .number d => d
  | .bad => "$"

theorem isPrefixChars_local (l a rest : List Char) (hl : ' ' ∉ l) :
    isPrefixChars l (a ++ ' ' :: rest) = isPrefixChars l (a ++ [' ']) := by
  induction l generalizing a with
  | nil => simp [isPrefixChars]
  | cons x l ih =>
    cases a with
    | nil =>
      have : (x == ' ') = false := by
        simp only [beq_eq_false_iff_ne, ne_eq]
        exact fun h => hl (by simp [h])
      simp [isPrefixChars, this]
    | cons y a =>
      simp only [List.cons_append, isPrefixChars]
      rw [ih a (fun h => hl (by simp [h]))]

theorem longestSpelling_local (tbl : List (String × String × String)) (a rest : List Char)
    (best : Option ((String × String) × Nat))
    (h : ∀ r ∈ tbl, ' ' ∉ r.1.toList) :
    longestSpelling (a ++ ' ' :: rest) tbl best = longestSpelling (a ++ [' ']) tbl best := by
  induction tbl generalizing best with
  | nil => rfl
  | cons r tbl ih =>
    obtain ⟨sp, ty, val⟩ := r
    simp only [longestSpelling]
    rw [isPrefixChars_local _ _ _ (h (sp, ty, val) (by simp))]
    exact ih _ (fun r hr => h r (by simp [hr]))

theorem spellings_no_space : ∀ r ∈ Gen.spellings, ' ' ∉ r.1.toList := by decide

example : longestSpelling ("=>".toList ++ [' ']) Gen.spellings none = some (("IMPLIES", "=>"), 2) := by decide


theorem lexIgnore_chars : Gen.lexIgnore.toList = [' ', '\t'] := by decide

/-- conditions on the first characters under which the tokenizer reaches the operator table -/
def preOk : List Char → Bool
  | c :: cs => !Gen.lexIgnore.toList.contains c && !isNameStart c &&
      !(c == '\\' && cs.head? == some '*') && !(c == '\n') && !(c == '(' && cs.head? == some '*')
  | [] => false

theorem tokenizeF_spelling (f : Nat) (c : Char) (cs : List Char) (ty val : String) (n : Nat) (t : Tok)
    (hpre : preOk (c :: cs) = true)
    (h6 : longestSpelling (c :: cs) Gen.spellings none = some ((ty, val), n))
    (h7 : tokOfRow ty val = some t) :
    tokenizeF (f+1) (c :: cs) = t :: tokenizeF f ((c :: cs).drop n) := by
  simp only [preOk, Bool.and_eq_true, Bool.not_eq_true'] at hpre
  obtain ⟨⟨⟨⟨h1, h2⟩, h3⟩, h4⟩, h5⟩ := hpre
  rw [tokenizeF]
  simp only [h1, h2, h3, h4, h5, h6, h7, Bool.false_eq_true, if_false]

theorem preOk_local (a rest : List Char) (ha : a ≠ []) :
    preOk (a ++ ' ' :: rest) = preOk (a ++ [' ']) := by
  cases a with
  | nil => exact absurd rfl ha
  | cons c a' =>
    cases a' <;> simp [preOk]

/-- one step of the tokenizer on an operator / delimiter spelling followed by a space -/
theorem step_row (a : List Char) (ty val : String) (t : Tok) (f : Nat) (rest : List Char)
    (ha : a ≠ [])
    (hpre : preOk (a ++ [' ']) = true)
    (h6 : longestSpelling (a ++ [' ']) Gen.spellings none = some ((ty, val), a.length))
    (h7 : tokOfRow ty val = some t) :
    tokenizeF (f+1) (a ++ ' ' :: rest) = t :: tokenizeF f (' ' :: rest) := by
  have h6' := longestSpelling_local Gen.spellings a rest none spellings_no_space
  rw [h6] at h6'
  have hp := preOk_local a rest ha
  rw [hpre] at hp
  obtain ⟨c, a', rfl⟩ : ∃ c a', a = c :: a' := by
    cases a with
    | nil => exact absurd rfl ha
    | cons c a' => exact ⟨c, a', rfl⟩
  have := tokenizeF_spelling f c (a' ++ ' ' :: rest) ty val (c :: a').length t hp h6' h7
  simpa using this


/-! ### fixed tokens -/

def fixedOps : List Tok :=
  [.lparen, .rparen, .comma, .colon, .div, .at, .not, .forall_, .exists_, .rename] ++ BinOp.all.map Tok.op

def rowOf : Tok → String × String
  | .lparen => ("LPAREN", "(") | .rparen => ("RPAREN", ")") | .comma => ("COMMA", ",")
  | .colon => ("COLON", ":") | .div => ("DIV", "/") | .at => ("AT", "@") | .not => ("NOT", "!")
  | .forall_ => ("FORALL", "\\A") | .exists_ => ("EXISTS", "\\E") | .rename => ("RENAME", "\\S")
  | .op o => (o.type, o.value)
  | _ => ("", "")

theorem fixedOps_ok : (fixedOps.all fun t =>
    t.text.toList != [] && preOk (t.text.toList ++ [' ']) &&
    longestSpelling (t.text.toList ++ [' ']) Gen.spellings none == some (rowOf t, t.text.toList.length) &&
    tokOfRow (rowOf t).1 (rowOf t).2 == some t) = true := by decide

theorem step_fixed (t : Tok) (ht : t ∈ fixedOps) (f : Nat) (rest : List Char) :
    tokenizeF (f+1) (t.text.toList ++ ' ' :: rest) = t :: tokenizeF f (' ' :: rest) := by
  have h := List.all_eq_true.mp fixedOps_ok t ht
  simp only [Bool.and_eq_true, bne_iff_ne, ne_eq, beq_iff_eq] at h
  obtain ⟨⟨⟨h1, h2⟩, h3⟩, h4⟩ := h
  exact step_row _ _ _ t f rest h1 h2 h3 h4

/-! ### words: names and keywords -/

def asciiDigits : List Char := "0123456789".toList
def nameStarts : List Char := "ABCDEFGHIJKLMNOPQRSTUVWXYZabcdefghijklmnopqrstuvwxyz_".toList
def nameTail : List Char := nameStarts ++ asciiDigits ++ ['\'']

theorem nameStarts_ok : ∀ c ∈ nameStarts,
    isNameStart c = true ∧ Gen.lexIgnore.toList.contains c = false := by decide

theorem nameTail_ok : ∀ c ∈ nameTail, isNameChar c = true := by decide

theorem tokenizeF_word (f : Nat) (c : Char) (cs : List Char) (hc : c ∈ nameStarts) :
    tokenizeF (f+1) (c :: cs) =
      nameTok (String.ofList ((c :: cs).takeWhile isNameChar)) ::
        tokenizeF f ((c :: cs).dropWhile isNameChar) := by
  obtain ⟨h1, h2⟩ := nameStarts_ok c hc
  rw [tokenizeF]
  simp only [h1, h2, Bool.false_eq_true, if_false, if_true]

/-- a word: first character of a NAME, then NAME characters -/
def isWord (w : List Char) : Prop :=
  ∃ c cs, w = c :: cs ∧ c ∈ nameStarts ∧ ∀ x ∈ cs, x ∈ nameTail

theorem step_word (w : List Char) (hw : isWord w) (f : Nat) (rest : List Char) :
    tokenizeF (f+1) (w ++ ' ' :: rest) = nameTok (String.ofList w) :: tokenizeF f (' ' :: rest) := by
  obtain ⟨c, cs, rfl, hc, hcs⟩ := hw
  have hall : ∀ x ∈ c :: cs, isNameChar x = true := by
    intro x hx
    rcases List.mem_cons.mp hx with rfl | hx
    · exact nameTail_ok _ (by simp [nameTail, hc])
    · exact nameTail_ok _ (hcs x hx)
  have hsp : isNameChar ' ' = false := by decide
  have e := tokenizeF_word f c (cs ++ ' ' :: rest) hc
  rw [List.cons_append, e]
  have ht : ((c :: cs) ++ ' ' :: rest).takeWhile isNameChar = c :: cs := by
    rw [List.takeWhile_append_of_pos hall]
    simp [List.takeWhile, hsp]
  have hd : ((c :: cs) ++ ' ' :: rest).dropWhile isNameChar = ' ' :: rest := by
    rw [List.dropWhile_append_of_pos hall]
    simp [List.dropWhile, hsp]
  rw [List.cons_append] at ht hd
  rw [ht, hd]

/-! ### numbers -/

theorem asciiDigits_ok : ∀ c ∈ asciiDigits,
    Gen.lexIgnore.toList.contains c = false ∧ isNameStart c = false ∧ (c == '\\') = false ∧
    (c == '\n') = false ∧ (c == '(') = false ∧ isDigitU c = true ∧
    (Gen.spellings.all fun r => match r.1.toList with | x :: _ => x != c | [] => false) = true := by decide

theorem longestSpelling_none (c : Char) (cs : List Char) (tbl : List (String × String × String))
    (h : (tbl.all fun r => match r.1.toList with | x :: _ => x != c | [] => false) = true) :
    longestSpelling (c :: cs) tbl none = none := by
  induction tbl with
  | nil => rfl
  | cons r tbl ih =>
    obtain ⟨sp, ty, val⟩ := r
    simp only [List.all_cons, Bool.and_eq_true] at h
    obtain ⟨h1, h2⟩ := h
    simp only [longestSpelling]
    have : isPrefixChars sp.toList (c :: cs) = false := by
      cases hs : sp.toList with
      | nil => simp [hs] at h1
      | cons x xs =>
        simp [hs] at h1
        simp [isPrefixChars]
        intro hx; exact absurd hx h1
    rw [this]
    exact ih h2


theorem tokenizeF_number (f : Nat) (c : Char) (cs : List Char) (hc : c ∈ asciiDigits) :
    tokenizeF (f+1) (c :: cs) =
      .number (String.ofList ((c :: cs).takeWhile isDigitU)) ::
        tokenizeF f ((c :: cs).dropWhile isDigitU) := by
  obtain ⟨h1, h2, h3, h4, h5, h6, h7⟩ := asciiDigits_ok c hc
  rw [tokenizeF]
  simp only [h1, h2, h3, h4, h5, h6, longestSpelling_none c cs _ h7, Bool.false_and,
    Bool.false_eq_true, if_false, if_true]

theorem step_number (d : List Char) (hne : d ≠ []) (hd : ∀ x ∈ d, x ∈ asciiDigits)
    (f : Nat) (rest : List Char) :
    tokenizeF (f+1) (d ++ ' ' :: rest) = .number (String.ofList d) :: tokenizeF f (' ' :: rest) := by
  obtain ⟨c, cs, rfl⟩ : ∃ c cs, d = c :: cs := by
    cases d with
    | nil => exact absurd rfl hne
    | cons c cs => exact ⟨c, cs, rfl⟩
  have hall : ∀ x ∈ c :: cs, isDigitU x = true := fun x hx => (asciiDigits_ok x (hd x hx)).2.2.2.2.2.1
  have hsp : isDigitU ' ' = false := by decide
  have e := tokenizeF_number f c (cs ++ ' ' :: rest) (hd c (by simp))
  rw [List.cons_append, e]
  have ht : ((c :: cs) ++ ' ' :: rest).takeWhile isDigitU = c :: cs := by
    rw [List.takeWhile_append_of_pos hall]
    simp [List.takeWhile, hsp]
  have hdr : ((c :: cs) ++ ' ' :: rest).dropWhile isDigitU = ' ' :: rest := by
    rw [List.dropWhile_append_of_pos hall]
    simp [List.dropWhile, hsp]
  rw [List.cons_append] at ht hdr
  rw [ht, hdr]

/-! ### every token -/

/-- tokens that have a text: names are NAMEs that are not reserved, numbers are ASCII digits -/
def Tok.LexWF : Tok → Prop
  | .name s => isWord s.toList ∧ Gen.reserved.lookup s = none
  | .number d => d.toList ≠ [] ∧ ∀ x ∈ d.toList, x ∈ asciiDigits
  | .bad => False
  | _ => True

theorem isWord_of_check (w : List Char)
    (h : (match w with | c :: cs => decide (c ∈ nameStarts) && cs.all (fun x => decide (x ∈ nameTail)) | [] => false) = true) :
    isWord w := by
  cases w with
  | nil => simp at h
  | cons c cs =>
    simp only [Bool.and_eq_true, decide_eq_true_eq, List.all_eq_true] at h
    exact ⟨c, cs, rfl, h.1, h.2⟩

theorem step_tok (t : Tok) (ht : t.LexWF) (f : Nat) (rest : List Char) :
    tokenizeF (f+1) (t.text.toList ++ ' ' :: rest) = t :: tokenizeF f (' ' :: rest) := by
  cases t with
  | name s =>
    obtain ⟨hw, hr⟩ := ht
    have := step_word s.toList hw f rest
    rw [String.ofList_toList] at this
    simpa [Tok.text, nameTok, hr] using this
  | number d =>
    obtain ⟨hne, hd⟩ := ht
    have := step_number d.toList hne hd f rest
    rw [String.ofList_toList] at this
    simpa [Tok.text] using this
  | bad => exact absurd ht (by simp [Tok.LexWF])
  | ite =>
    have := step_word "ite".toList (isWord_of_check _ (by decide)) f rest
    rw [String.ofList_toList] at this
    have e : nameTok "ite" = .ite := by decide
    rw [e] at this
    exact this
  | tt =>
    have := step_word "TRUE".toList (isWord_of_check _ (by decide)) f rest
    rw [String.ofList_toList] at this
    have e : nameTok "TRUE" = .tt := by decide
    rw [e] at this
    exact this
  | ff =>
    have := step_word "FALSE".toList (isWord_of_check _ (by decide)) f rest
    rw [String.ofList_toList] at this
    have e : nameTok "FALSE" = .ff := by decide
    rw [e] at this
    exact this
  | op o => exact step_fixed _ (by cases o <;> decide) f rest
  | lparen => exact step_fixed _ (by decide) f rest
  | rparen => exact step_fixed _ (by decide) f rest
  | comma => exact step_fixed _ (by decide) f rest
  | colon => exact step_fixed _ (by decide) f rest
  | div => exact step_fixed _ (by decide) f rest
  | «at» => exact step_fixed _ (by decide) f rest
  | not => exact step_fixed _ (by decide) f rest
  | forall_ => exact step_fixed _ (by decide) f rest
  | exists_ => exact step_fixed _ (by decide) f rest
  | rename => exact step_fixed _ (by decide) f rest

theorem text_ne_nil (t : Tok) (ht : t.LexWF) : t.text.toList ≠ [] := by
  cases t with
  | name s =>
    obtain ⟨⟨c, cs, h, _⟩, _⟩ := ht
    simp [Tok.text, h]
  | number d => exact ht.1
  | bad => exact absurd ht (by simp [Tok.LexWF])
  | op o => cases o <;> decide
  | _ => decide

/-- the text of a token string: canonical spellings, each followed by one space -/
def spellChars (toks : List Tok) : List Char := toks.flatMap fun t => t.text.toList ++ [' ']

def spell (toks : List Tok) : String := String.ofList (spellChars toks)

theorem tokenizeF_space (f : Nat) (rest : List Char) :
    tokenizeF (f+1) (' ' :: rest) = tokenizeF f rest := by
  have h : Gen.lexIgnore.toList.contains ' ' = true := by decide
  rw [tokenizeF]
  simp only [h, if_true]

theorem tokenizeF_spell : ∀ (toks : List Tok), (∀ t ∈ toks, t.LexWF) → ∀ f, (spellChars toks).length < f →
    tokenizeF f (spellChars toks) = toks
  | [], _, f, hf => by
    obtain ⟨f0, rfl⟩ := fuel_succ hf
    simp [spellChars, tokenizeF]
  | t :: ts, h, f, hf => by
    have ht := h t (by simp)
    have hne := text_ne_nil t ht
    have e : spellChars (t :: ts) = t.text.toList ++ ' ' :: spellChars ts := by
      simp [spellChars]
    rw [e] at hf ⊢
    have hlen : 0 < t.text.toList.length := List.length_pos_iff.mpr hne
    obtain ⟨f0, rfl⟩ := fuel_succ hf
    rw [step_tok t ht]
    obtain ⟨f1, rfl⟩ : ∃ f1, f0 = f1 + 1 := ⟨f0 - 1, by simp at hf; omega⟩
    rw [tokenizeF_space]
    rw [tokenizeF_spell ts (fun t' ht' => h t' (by simp [ht'])) f1 (by simp at hf; omega)]

/-- lexing the canonical text of a token string gives the token string -/
theorem tokenize_spell (toks : List Tok) (h : ∀ t ∈ toks, t.LexWF) : tokenize (spell toks) = toks := by
  unfold tokenize spell
  rw [String.toList_ofList, ← String.length_toList, String.toList_ofList]
  exact tokenizeF_spell toks h _ (Nat.lt_succ_self _)


def nameOk (s : String) : Prop := isWord s.toList ∧ Gen.reserved.lookup s = none

/-- lexically well-formed trees: names are NAME tokens that are not reserved words,
node numbers are non-empty strings of ASCII digits -/
def Ast.LexWF : Ast → Prop
  | .var x => nameOk x
  | .bool _ => True
  | .num _ d => d.toList ≠ [] ∧ ∀ x ∈ d.toList, x ∈ asciiDigits
  | .not e => e.LexWF
  | .bin _ l r => l.LexWF ∧ r.LexWF
  | .ite a b c => a.LexWF ∧ b.LexWF ∧ c.LexWF
  | .quant _ ns e => (∀ x ∈ ns, nameOk x) ∧ e.LexWF
  | .subst ss e => (∀ s ∈ ss, nameOk s.1 ∧ nameOk s.2) ∧ e.LexWF

theorem mem_paren {tok : Tok} {b : Bool} {l : List Tok} (h : tok ∈ paren b l) :
    tok = .lparen ∨ tok = .rparen ∨ tok ∈ l := by
  cases b
  · simp [paren] at h
    exact Or.inr (Or.inr h)
  · simp [paren] at h
    rcases h with h | h | h
    · exact Or.inl h
    · exact Or.inr (Or.inr h)
    · exact Or.inr (Or.inl h)

theorem lexWF_paren {b : Bool} {l : List Tok} (h : ∀ tok ∈ l, tok.LexWF) :
    ∀ tok ∈ paren b l, tok.LexWF := by
  intro tok ht
  rcases mem_paren ht with rfl | rfl | h'
  · trivial
  · trivial
  · exact h tok h'

theorem lexWF_printNames : ∀ (ns : List String), (∀ x ∈ ns, nameOk x) → ∀ tok ∈ printNames ns, tok.LexWF
  | [], _, tok, ht => by simp [printNames] at ht; subst ht; trivial
  | [x], h, tok, ht => by
    simp [printNames] at ht
    rcases ht with rfl | rfl
    · exact h x (by simp)
    · trivial
  | x :: y :: xs, h, tok, ht => by
    simp only [printNames, List.mem_cons] at ht
    rcases ht with rfl | rfl | ht
    · exact h x (by simp)
    · trivial
    · exact lexWF_printNames (y :: xs) (fun z hz => h z (by simp [hz])) tok ht

theorem lexWF_printSubs : ∀ (ss : List (String × String)), (∀ s ∈ ss, nameOk s.1 ∧ nameOk s.2) →
    ∀ tok ∈ printSubs ss, tok.LexWF
  | [], _, tok, ht => by simp [printSubs] at ht; subst ht; trivial
  | [(new, old)], h, tok, ht => by
    simp [printSubs] at ht
    rcases ht with rfl | rfl | rfl | rfl
    · exact (h (new, old) (by simp)).1
    · trivial
    · exact (h (new, old) (by simp)).2
    · trivial
  | (new, old) :: s :: ss, h, tok, ht => by
    simp only [printSubs, List.mem_cons] at ht
    rcases ht with rfl | rfl | rfl | rfl | ht
    · exact (h (new, old) (by simp)).1
    · trivial
    · exact (h (new, old) (by simp)).2
    · trivial
    · exact lexWF_printSubs (s :: ss) (fun z hz => h z (by simp [hz])) tok ht

theorem lexWF_printRaw (ex : Ast → Bool) : ∀ (t : Ast), t.LexWF → ∀ tok ∈ printRaw ex t, tok.LexWF := by
  intro t
  induction t with
  | var x => intro h tok ht; simp [printRaw] at ht; subst ht; exact h
  | bool b => intro _ tok ht; cases b <;> simp [printRaw] at ht <;> subst ht <;> trivial
  | num neg d =>
    intro h tok ht
    cases neg <;> simp [printRaw] at ht
    · rcases ht with rfl | rfl
      · trivial
      · exact h
    · rcases ht with rfl | rfl | rfl
      · trivial
      · trivial
      · exact h
  | not e ih =>
    intro h tok ht
    simp only [printRaw, List.mem_cons] at ht
    rcases ht with rfl | ht
    · trivial
    · exact lexWF_paren (ih h) tok ht
  | bin o l r ihl ihr =>
    intro h tok ht
    simp only [printRaw, List.mem_append, List.mem_cons] at ht
    rcases ht with ht | rfl | ht
    · exact lexWF_paren (ihl h.1) tok ht
    · trivial
    · exact lexWF_paren (ihr h.2) tok ht
  | ite a b c iha ihb ihc =>
    intro h tok ht
    simp only [printRaw, List.mem_append, List.mem_cons, List.not_mem_nil, or_false] at ht
    rcases ht with rfl | rfl | ht | rfl | ht | rfl | ht | rfl
    · trivial
    · trivial
    · exact lexWF_paren (iha h.1) tok ht
    · trivial
    · exact lexWF_paren (ihb h.2.1) tok ht
    · trivial
    · exact lexWF_paren (ihc h.2.2) tok ht
    · trivial
  | quant fa ns e ih =>
    intro h tok ht
    simp only [printRaw, List.mem_append, List.mem_cons] at ht
    rcases ht with rfl | ht | ht
    · cases fa <;> trivial
    · exact lexWF_printNames ns h.1 tok ht
    · exact lexWF_paren (ih h.2) tok ht
  | subst ss e ih =>
    intro h tok ht
    simp only [printRaw, List.mem_append, List.mem_cons] at ht
    rcases ht with rfl | ht | ht
    · trivial
    · exact lexWF_printSubs ss h.1 tok ht
    · exact lexWF_paren (ih h.2) tok ht

/-- the text of a formula — canonical spellings separated by spaces, parentheses where the
precedence table requires them and wherever `ex` adds redundant ones — is read back as the tree -/
theorem parse_tokenize_spell (ex : Ast → Bool) (t : Ast) (hwf : t.WF) (hlex : t.LexWF) :
    parse (tokenize (spell (printG ex t))) = some t := by
  have h : ∀ tok ∈ printG ex t, tok.LexWF := lexWF_paren (lexWF_printRaw ex t hlex)
  rw [tokenize_spell _ h, parse_printG ex t hwf]

example : spell (printMin (.bin .and (.var "a") (.bin .or (.var "b") (.not (.var "c'"))))) = "a & ( b | ~ c' ) " := by
  decide

/-! ### a decidable check of lexical well-formedness (for examples) -/

def wordCheck : List Char → Bool
  | c :: cs => decide (c ∈ nameStarts) && cs.all (fun x => decide (x ∈ nameTail))
  | [] => false

def nameCheck (s : String) : Bool := wordCheck s.toList && (Gen.reserved.lookup s).isNone

def Ast.lexOk : Ast → Bool
  | .var x => nameCheck x
  | .bool _ => true
  | .num _ d => !d.toList.isEmpty && d.toList.all (fun x => decide (x ∈ asciiDigits))
  | .not e => e.lexOk
  | .bin _ l r => l.lexOk && r.lexOk
  | .ite a b c => a.lexOk && b.lexOk && c.lexOk
  | .quant _ ns e => ns.all nameCheck && e.lexOk
  | .subst ss e => ss.all (fun s => nameCheck s.1 && nameCheck s.2) && e.lexOk

theorem nameOk_of_check {s : String} (h : nameCheck s = true) : nameOk s := by
  simp only [nameCheck, Bool.and_eq_true, Option.isNone_iff_eq_none] at h
  exact ⟨isWord_of_check _ h.1, h.2⟩

theorem lexOk_sound : ∀ t : Ast, t.lexOk = true → t.LexWF := by
  intro t
  induction t with
  | var x => intro h; exact nameOk_of_check h
  | bool b => intro _; trivial
  | num neg d =>
    intro h
    simp only [Ast.lexOk, Bool.and_eq_true, Bool.not_eq_true', List.isEmpty_eq_false_iff,
      List.all_eq_true, decide_eq_true_eq] at h
    exact ⟨h.1, h.2⟩
  | not e ih => intro h; exact ih h
  | bin o l r ihl ihr =>
    intro h
    simp only [Ast.lexOk, Bool.and_eq_true] at h
    exact ⟨ihl h.1, ihr h.2⟩
  | ite a b c iha ihb ihc =>
    intro h
    simp only [Ast.lexOk, Bool.and_eq_true] at h
    exact ⟨iha h.1.1, ihb h.1.2, ihc h.2⟩
  | quant fa ns e ih =>
    intro h
    simp only [Ast.lexOk, Bool.and_eq_true, List.all_eq_true] at h
    exact ⟨fun x hx => nameOk_of_check (h.1 x hx), ih h.2⟩
  | subst ss e ih =>
    intro h
    simp only [Ast.lexOk, Bool.and_eq_true, List.all_eq_true] at h
    exact ⟨fun x hx => ⟨nameOk_of_check (h.1 x hx).1, nameOk_of_check (h.1 x hx).2⟩, ih h.2⟩

end DD
