/-
  DDProofs.LexProofs — the tokenizer reads the canonical text of a token string back:
  `tokenize (spell toks) = toks` (canonical spellings, one space after every token), hence
  the text of every lexically well-formed formula is parsed back to its tree.
  The tokenizer's longest match over `Gen.spellings` is local (it never looks past the space),
  so each operator spelling is settled by `decide` on the regenerated table.
-/
import DDProofs.ParseProofs
namespace DD

/-- canonical spelling of a token -/
def Tok.text : Tok → String
  | .lparen => "(" | .rparen => ")" | .comma => "," | .colon => ":" | .div => "/" | .at => "@"
  | .not => "~" | .forall_ => "\\A" | .exists_ => "\\E" | .rename => "\\S"
  | .ite => "ite" | .tt => "TRUE" | .ff => "FALSE"
  | .op o => o.value
  | .name s => s
  | .number d => d
  | .bad => "$"

theorem isPrefixChars_local (l a rest : List Char) (hl : ' ' ∉ l) :
    isPrefixChars l (a ++ ' ' :: rest) = isPrefixChars l (a ++ [' ']) := by
  induction l generalizing a with
  | nil => simp [isPrefixChars]
  | cons x l ih =>
    cases a with
    | nil =>
      have : (x == ' ') = false := by
        simp only [beq_eq_false_iff_ne, ne_eq]
        exact fun h => hl (by simp [h])
      simp [isPrefixChars, this]
    | cons y a =>
      simp only [List.cons_append, isPrefixChars]
      rw [ih a (fun h => hl (by simp [h]))]

theorem longestSpelling_local (tbl : List (String × String × String)) (a rest : List Char)
    (best : Option ((String × String) × Nat))
    (h : ∀ r ∈ tbl, ' ' ∉ r.1.toList) :
    longestSpelling (a ++ ' ' :: rest) tbl best = longestSpelling (a ++ [' ']) tbl best := by
  induction tbl generalizing best with
  | nil => rfl
  | cons r tbl ih =>
    obtain ⟨sp, ty, val⟩ := r
    simp only [longestSpelling]
    rw [isPrefixChars_local _ _ _ (h (sp, ty, val) (by simp))]
    exact ih _ (fun r hr => h r (by simp [hr]))

theorem spellings_no_space : ∀ r ∈ Gen.spellings, ' ' ∉ r.1.toList := by decide

example : longestSpelling ("=>".toList ++ [' ']) Gen.spellings none = some (("IMPLIES", "=>"), 2) := by decide


theorem lexIgnore_chars : Gen.lexIgnore.toList = [' ', '\t'] := by decide

/-- conditions on the first characters under which the tokenizer reaches the operator table -/
def preOk : List Char → Bool
  | c :: cs => !Gen.lexIgnore.toList.contains c && !isNameStart c &&
      !(c == '\\' && cs.head? == some '*') && !(c == '\n') && !(c == '(' && cs.head? == some '*')
  | [] => false

theorem tokenizeF_spelling (f : Nat) (c : Char) (cs : List Char) (ty val : String) (n : Nat) (t : Tok)
    (hpre : preOk (c :: cs) = true)
    (h6 : longestSpelling (c :: cs) Gen.spellings none = some ((ty, val), n))
    (h7 : tokOfRow ty val = some t) :
    tokenizeF (f+1) (c :: cs) = t :: tokenizeF f ((c :: cs).drop n) := by
  simp only [preOk, Bool.and_eq_true, Bool.not_eq_true'] at hpre
  obtain ⟨⟨⟨⟨h1, h2⟩, h3⟩, h4⟩, h5⟩ := hpre
  rw [tokenizeF]
  simp only [h1, h2, h3, h4, h5, h6, h7, Bool.false_eq_true, if_false]

theorem preOk_local (a rest : List Char) (ha : a ≠ []) :
    preOk (a ++ ' ' :: rest) = preOk (a ++ [' ']) := by
  cases a with
  | nil => exact absurd rfl ha
  | cons c a' =>
    cases a' <;> simp [preOk]

/-- one step of the tokenizer on an operator / delimiter spelling followed by a space -/
theorem step_row (a : List Char) (ty val : String) (t : Tok) (f : Nat) (rest : List Char)
    (ha : a ≠ [])
    (hpre : preOk (a ++ [' ']) = true)
    (h6 : longestSpelling (a ++ [' ']) Gen.spellings none = some ((ty, val), a.length))
    (h7 : tokOfRow ty val = some t) :
    tokenizeF (f+1) (a ++ ' ' :: rest) = t :: tokenizeF f (' ' :: rest) := by
  have h6' := longestSpelling_local Gen.spellings a rest none spellings_no_space
  rw [h6] at h6'
  have hp := preOk_local a rest ha
  rw [hpre] at hp
  obtain ⟨c, a', rfl⟩ : ∃ c a', a = c :: a' := by
    cases a with
    | nil => exact absurd rfl ha
    | cons c a' => exact ⟨c, a', rfl⟩
  have := tokenizeF_spelling f c (a' ++ ' ' :: rest) ty val (c :: a').length t hp h6' h7
  simpa using this


/-! ### fixed tokens -/

def fixedOps : List Tok :=
  [.lparen, .rparen, .comma, .colon, .div, .at, .not, .forall_, .exists_, .rename] ++ BinOp.all.map Tok.op

def tokRowOf : Tok → String × String
  | .lparen => ("LPAREN", "(") | .rparen => ("RPAREN", ")") | .comma => ("COMMA", ",")
  | .colon => ("COLON", ":") | .div => ("DIV", "/") | .at => ("AT", "@") | .not => ("NOT", "!")
  | .forall_ => ("FORALL", "\\A") | .exists_ => ("EXISTS", "\\E") | .rename => ("RENAME", "\\S")
  | .op o => (o.type, o.value)
  | _ => ("", "")

theorem fixedOps_ok : (fixedOps.all fun t =>
    t.text.toList != [] && preOk (t.text.toList ++ [' ']) &&
    longestSpelling (t.text.toList ++ [' ']) Gen.spellings none == some (tokRowOf t, t.text.toList.length) &&
    tokOfRow (tokRowOf t).1 (tokRowOf t).2 == some t) = true := by decide

theorem step_fixed (t : Tok) (ht : t ∈ fixedOps) (f : Nat) (rest : List Char) :
    tokenizeF (f+1) (t.text.toList ++ ' ' :: rest) = t :: tokenizeF f (' ' :: rest) := by
  have h := List.all_eq_true.mp fixedOps_ok t ht
  simp only [Bool.and_eq_true, bne_iff_ne, ne_eq, beq_iff_eq] at h
  obtain ⟨⟨⟨h1, h2⟩, h3⟩, h4⟩ := h
  exact step_row _ _ _ t f rest h1 h2 h3 h4

/-! ### words: names and keywords -/

def asciiDigits : List Char := "0123456789".toList
def nameStarts : List Char := "ABCDEFGHIJKLMNOPQRSTUVWXYZabcdefghijklmnopqrstuvwxyz_".toList
def nameTail : List Char := nameStarts ++ asciiDigits ++ ['\'']

theorem nameStarts_ok : ∀ c ∈ nameStarts,
    isNameStart c = true ∧ Gen.lexIgnore.toList.contains c = false := by decide

theorem nameTail_ok : ∀ c ∈ nameTail, isNameChar c = true := by decide

theorem tokenizeF_word (f : Nat) (c : Char) (cs : List Char) (hc : c ∈ nameStarts) :
    tokenizeF (f+1) (c :: cs) =
      nameTok (String.ofList ((c :: cs).takeWhile isNameChar)) ::
        tokenizeF f ((c :: cs).dropWhile isNameChar) := by
  obtain ⟨h1, h2⟩ := nameStarts_ok c hc
  rw [tokenizeF]
  simp only [h1, h2, Bool.false_eq_true, if_false, if_true]

/-- a word: first character of a NAME, then NAME characters -/
def isWord (w : List Char) : Prop :=
  ∃ c cs, w = c :: cs ∧ c ∈ nameStarts ∧ ∀ x ∈ cs, x ∈ nameTail

theorem step_word (w : List Char) (hw : isWord w) (f : Nat) (rest : List Char) :
    tokenizeF (f+1) (w ++ ' ' :: rest) = nameTok (String.ofList w) :: tokenizeF f (' ' :: rest) := by
  obtain ⟨c, cs, rfl, hc, hcs⟩ := hw
  have hall : ∀ x ∈ c :: cs, isNameChar x = true := by
    intro x hx
    rcases List.mem_cons.mp hx with rfl | hx
    · exact nameTail_ok _ (by simp [nameTail, hc])
    · exact nameTail_ok _ (hcs x hx)
  have hsp : isNameChar ' ' = false := by decide
  have e := tokenizeF_word f c (cs ++ ' ' :: rest) hc
  rw [List.cons_append, e]
  have ht : ((c :: cs) ++ ' ' :: rest).takeWhile isNameChar = c :: cs := by
    rw [List.takeWhile_append_of_pos hall]
    simp [List.takeWhile, hsp]
  have hd : ((c :: cs) ++ ' ' :: rest).dropWhile isNameChar = ' ' :: rest := by
    rw [List.dropWhile_append_of_pos hall]
    simp [List.dropWhile, hsp]
  rw [List.cons_append] at ht hd
  rw [ht, hd]

/-! ### numbers -/

theorem asciiDigits_ok : ∀ c ∈ asciiDigits,
    Gen.lexIgnore.toList.contains c = false ∧ isNameStart c = false ∧ (c == '\\') = false ∧
    (c == '\n') = false ∧ (c == '(') = false ∧ isDigitU c = true ∧
    (Gen.spellings.all fun r => match r.1.toList with | x :: _ => x != c | [] => false) = true := by decide

theorem longestSpelling_none (c : Char) (cs : List Char) (tbl : List (String × String × String))
    (h : (tbl.all fun r => match r.1.toList with | x :: _ => x != c | [] => false) = true) :
    longestSpelling (c :: cs) tbl none = none := by
  induction tbl with
  | nil => rfl
  | cons r tbl ih =>
    obtain ⟨sp, ty, val⟩ := r
    simp only [List.all_cons, Bool.and_eq_true] at h
    obtain ⟨h1, h2⟩ := h
    simp only [longestSpelling]
    have : isPrefixChars sp.toList (c :: cs) = false := by
      cases hs : sp.toList with
      | nil => simp [hs] at h1
      | cons x xs =>
        simp [hs] at h1
        simp [isPrefixChars]
        intro hx; exact absurd hx h1
    rw [this]
    exact ih h2


theorem tokenizeF_number (f : Nat) (c : Char) (cs : List Char) (hc : c ∈ asciiDigits) :
    tokenizeF (f+1) (c :: cs) =
      .number (String.ofList ((c :: cs).takeWhile isDigitU)) ::
        tokenizeF f ((c :: cs).dropWhile isDigitU) := by
  obtain ⟨h1, h2, h3, h4, h5, h6, h7⟩ := asciiDigits_ok c hc
  rw [tokenizeF]
  simp only [h1, h2, h3, h4, h5, h6, longestSpelling_none c cs _ h7, Bool.false_and,
    Bool.false_eq_true, if_false, if_true]

theorem step_number (d : List Char) (hne : d ≠ []) (hd : ∀ x ∈ d, x ∈ asciiDigits)
    (f : Nat) (rest : List Char) :
    tokenizeF (f+1) (d ++ ' ' :: rest) = .number (String.ofList d) :: tokenizeF f (' ' :: rest) := by
  obtain ⟨c, cs, rfl⟩ : ∃ c cs, d = c :: cs := by
    cases d with
    | nil => exact absurd rfl hne
    | cons c cs => exact ⟨c, cs, rfl⟩
  have hall : ∀ x ∈ c :: cs, isDigitU x = true := fun x hx => (asciiDigits_ok x (hd x hx)).2.2.2.2.2.1
  have hsp : isDigitU ' ' = false := by decide
  have e := tokenizeF_number f c (cs ++ ' ' :: rest) (hd c (by simp))
  rw [List.cons_append, e]
  have ht : ((c :: cs) ++ ' ' :: rest).takeWhile isDigitU = c :: cs := by
    rw [List.takeWhile_append_of_pos hall]
    simp [List.takeWhile, hsp]
  have hdr : ((c :: cs) ++ ' ' :: rest).dropWhile isDigitU = ' ' :: rest := by
    rw [List.dropWhile_append_of_pos hall]
    simp [List.dropWhile, hsp]
  rw [List.cons_append] at ht hdr
  rw [ht, hdr]

/-! ### every token -/

/-- tokens that have a text: names are NAMEs that are not reserved, numbers are ASCII digits -/
def Tok.LexWF : Tok → Prop
  | .name s => isWord s.toList ∧ Gen.reserved.lookup s = none
  | .number d => d.toList ≠ [] ∧ ∀ x ∈ d.toList, x ∈ asciiDigits
  | .bad => False
  | _ => True

theorem isWord_of_check (w : List Char)
    (h : (match w with | c :: cs => decide (c ∈ nameStarts) && cs.all (fun x => decide (x ∈ nameTail)) | [] => false) = true) :
    isWord w := by
  cases w with
  | nil => simp at h
  | cons c cs =>
    simp only [Bool.and_eq_true, decide_eq_true_eq, List.all_eq_true] at h
    exact ⟨c, cs, rfl, h.1, h.2⟩

theorem step_tok (t : Tok) (ht : t.LexWF) (f : Nat) (rest : List Char) :
    tokenizeF (f+1) (t.text.toList ++ ' ' :: rest) = t :: tokenizeF f (' ' :: rest) := by
  cases t with
  | name s =>
    obtain ⟨hw, hr⟩ := ht
    have := step_word s.toList hw f rest
    rw [String.ofList_toList] at this
    simpa [Tok.text, nameTok, hr] using this
  | number d =>
    obtain ⟨hne, hd⟩ := ht
    have := step_number d.toList hne hd f rest
    rw [String.ofList_toList] at this
    simpa [Tok.text] using this
  | bad => exact absurd ht (by simp [Tok.LexWF])
  | ite =>
    have := step_word "ite".toList (isWord_of_check _ (by decide)) f rest
    rw [String.ofList_toList] at this
    have e : nameTok "ite" = .ite := by decide
    rw [e] at this
    exact this
  | tt =>
    have := step_word "TRUE".toList (isWord_of_check _ (by decide)) f rest
    rw [String.ofList_toList] at this
    have e : nameTok "TRUE" = .tt := by decide
    rw [e] at this
    exact this
  | ff =>
    have := step_word "FALSE".toList (isWord_of_check _ (by decide)) f rest
    rw [String.ofList_toList] at this
    have e : nameTok "FALSE" = .ff := by decide
    rw [e] at this
    exact this
  | op o => exact step_fixed _ (by cases o <;> decide) f rest
  | lparen => exact step_fixed _ (by decide) f rest
  | rparen => exact step_fixed _ (by decide) f rest
  | comma => exact step_fixed _ (by decide) f rest
  | colon => exact step_fixed _ (by decide) f rest
  | div => exact step_fixed _ (by decide) f rest
  | «at» => exact step_fixed _ (by decide) f rest
  | not => exact step_fixed _ (by decide) f rest
  | forall_ => exact step_fixed _ (by decide) f rest
  | exists_ => exact step_fixed _ (by decide) f rest
  | rename => exact step_fixed _ (by decide) f rest

theorem text_ne_nil (t : Tok) (ht : t.LexWF) : t.text.toList ≠ [] := by
  cases t with
  | name s =>
    obtain ⟨⟨c, cs, h, _⟩, _⟩ := ht
    simp [Tok.text, h]
  | number d => exact ht.1
  | bad => exact absurd ht (by simp [Tok.LexWF])
  | op o => cases o <;> decide
  | _ => decide

/-- the text of a token string: canonical spellings, each followed by one space -/
def spellChars (toks : List Tok) : List Char := toks.flatMap fun t => t.text.toList ++ [' ']

def spell (toks : List Tok) : String := String.ofList (spellChars toks)

theorem tokenizeF_space (f : Nat) (rest : List Char) :
    tokenizeF (f+1) (' ' :: rest) = tokenizeF f rest := by
  have h : Gen.lexIgnore.toList.contains ' ' = true := by decide
  rw [tokenizeF]
  simp only [h, if_true]

theorem tokenizeF_spell : ∀ (toks : List Tok), (∀ t ∈ toks, t.LexWF) → ∀ f, (spellChars toks).length < f →
    tokenizeF f (spellChars toks) = toks
  | [], _, f, hf => by
    obtain ⟨f0, rfl⟩ := fuel_succ hf
    simp [spellChars, tokenizeF]
  | t :: ts, h, f, hf => by
    have ht := h t (by simp)
    have hne := text_ne_nil t ht
    have e : spellChars (t :: ts) = t.text.toList ++ ' ' :: spellChars ts := by
      simp [spellChars]
    rw [e] at hf ⊢
    have hlen : 0 < t.text.toList.length := List.length_pos_iff.mpr hne
    obtain ⟨f0, rfl⟩ := fuel_succ hf
    rw [step_tok t ht]
    obtain ⟨f1, rfl⟩ : ∃ f1, f0 = f1 + 1 := ⟨f0 - 1, by simp at hf; omega⟩
    rw [tokenizeF_space]
    rw [tokenizeF_spell ts (fun t' ht' => h t' (by simp [ht'])) f1 (by simp at hf; omega)]

/-- lexing the canonical text of a token string gives the token string -/
theorem tokenize_spell (toks : List Tok) (h : ∀ t ∈ toks, t.LexWF) : tokenize (spell toks) = toks := by
  unfold tokenize spell
  rw [String.toList_ofList, ← String.length_toList, String.toList_ofList]
  exact tokenizeF_spell toks h _ (Nat.lt_succ_self _)


def nameOk (s : String) : Prop := isWord s.toList ∧ Gen.reserved.lookup s = none

/-- lexically well-formed trees: names are NAME tokens that are not reserved words,
node numbers are non-empty strings of ASCII digits -/
def Ast.LexWF : Ast → Prop
  | .var x => nameOk x
  | .bool _ => True
  | .num _ d => d.toList ≠ [] ∧ ∀ x ∈ d.toList, x ∈ asciiDigits
  | .not e => e.LexWF
  | .bin _ l r => l.LexWF ∧ r.LexWF
  | .ite a b c => a.LexWF ∧ b.LexWF ∧ c.LexWF
  | .quant _ ns e => (∀ x ∈ ns, nameOk x) ∧ e.LexWF
  | .subst ss e => (∀ s ∈ ss, nameOk s.1 ∧ nameOk s.2) ∧ e.LexWF

theorem mem_paren {tok : Tok} {b : Bool} {l : List Tok} (h : tok ∈ paren b l) :
    tok = .lparen ∨ tok = .rparen ∨ tok ∈ l := by
  cases b
  · simp [paren] at h
    exact Or.inr (Or.inr h)
  · simp [paren] at h
    rcases h with h | h | h
    · exact Or.inl h
    · exact Or.inr (Or.inr h)
    · exact Or.inr (Or.inl h)

theorem lexWF_paren {b : Bool} {l : List Tok} (h : ∀ tok ∈ l, tok.LexWF) :
    ∀ tok ∈ paren b l, tok.LexWF := by
  intro tok ht
  rcases mem_paren ht with rfl | rfl | h'
  · trivial
  · trivial
  · exact h tok h'

theorem lexWF_printNames : ∀ (ns : List String), (∀ x ∈ ns, nameOk x) → ∀ tok ∈ printNames ns, tok.LexWF
  | [], _, tok, ht => by simp [printNames] at ht; subst ht; trivial
  | [x], h, tok, ht => by
    simp [printNames] at ht
    rcases ht with rfl | rfl
    · exact h x (by simp)
    · trivial
  | x :: y :: xs, h, tok, ht => by
    simp only [printNames, List.mem_cons] at ht
    rcases ht with rfl | rfl | ht
    · exact h x (by simp)
    · trivial
    · exact lexWF_printNames (y :: xs) (fun z hz => h z (by simp [hz])) tok ht

theorem lexWF_printSubs : ∀ (ss : List (String × String)), (∀ s ∈ ss, nameOk s.1 ∧ nameOk s.2) →
    ∀ tok ∈ printSubs ss, tok.LexWF
  | [], _, tok, ht => by simp [printSubs] at ht; subst ht; trivial
  | [(new, old)], h, tok, ht => by
    simp [printSubs] at ht
    rcases ht with rfl | rfl | rfl | rfl
    · exact (h (new, old) (by simp)).1
    · trivial
    · exact (h (new, old) (by simp)).2
    · trivial
  | (new, old) :: s :: ss, h, tok, ht => by
    simp only [printSubs, List.mem_cons] at ht
    rcases ht with rfl | rfl | rfl | rfl | ht
    · exact (h (new, old) (by simp)).1
    · trivial
    · exact (h (new, old) (by simp)).2
    · trivial
    · exact lexWF_printSubs (s :: ss) (fun z hz => h z (by simp [hz])) tok ht

theorem lexWF_printRaw (ex : Ast → Bool) : ∀ (t : Ast), t.LexWF → ∀ tok ∈ printRaw ex t, tok.LexWF := by
  intro t
  induction t with
  | var x => intro h tok ht; simp [printRaw] at ht; subst ht; exact h
  | bool b => intro _ tok ht; cases b <;> simp [printRaw] at ht <;> subst ht <;> trivial
  | num neg d =>
    intro h tok ht
    cases neg <;> simp [printRaw] at ht
    · rcases ht with rfl | rfl
      · trivial
      · exact h
    · rcases ht with rfl | rfl | rfl
      · trivial
      · trivial
      · exact h
  | not e ih =>
    intro h tok ht
    simp only [printRaw, List.mem_cons] at ht
    rcases ht with rfl | ht
    · trivial
    · exact lexWF_paren (ih h) tok ht
  | bin o l r ihl ihr =>
    intro h tok ht
    simp only [printRaw, List.mem_append, List.mem_cons] at ht
    rcases ht with ht | rfl | ht
    · exact lexWF_paren (ihl h.1) tok ht
    · trivial
    · exact lexWF_paren (ihr h.2) tok ht
  | ite a b c iha ihb ihc =>
    intro h tok ht
    simp only [printRaw, List.mem_append, List.mem_cons, List.not_mem_nil, or_false] at ht
    rcases ht with rfl | rfl | ht | rfl | ht | rfl | ht | rfl
    · trivial
    · trivial
    · exact lexWF_paren (iha h.1) tok ht
    · trivial
    · exact lexWF_paren (ihb h.2.1) tok ht
    · trivial
    · exact lexWF_paren (ihc h.2.2) tok ht
    · trivial
  | quant fa ns e ih =>
    intro h tok ht
    simp only [printRaw, List.mem_append, List.mem_cons] at ht
    rcases ht with rfl | ht | ht
    · cases fa <;> trivial
    · exact lexWF_printNames ns h.1 tok ht
    · exact lexWF_paren (ih h.2) tok ht
  | subst ss e ih =>
    intro h tok ht
    simp only [printRaw, List.mem_append, List.mem_cons] at ht
    rcases ht with rfl | ht | ht
    · trivial
    · exact lexWF_printSubs ss h.1 tok ht
    · exact lexWF_paren (ih h.2) tok ht

/-- the text of a formula — canonical spellings separated by spaces, parentheses where the
precedence table requires them and wherever `ex` adds redundant ones — is read back as the tree -/
theorem parse_tokenize_spell (ex : Ast → Bool) (t : Ast) (hwf : t.WF) (hlex : t.LexWF) :
    parse (tokenize (spell (printG ex t))) = some t := by
  have h : ∀ tok ∈ printG ex t, tok.LexWF := lexWF_paren (lexWF_printRaw ex t hlex)
  rw [tokenize_spell _ h, parse_printG ex t hwf]

example : spell (printMin (.bin .and (.var "a") (.bin .or (.var "b") (.not (.var "c'"))))) = "a & ( b | ~ c' ) " := by
  decide

/-! ### a decidable check of lexical well-formedness (for examples) -/

def wordCheck : List Char → Bool
  | c :: cs => decide (c ∈ nameStarts) && cs.all (fun x => decide (x ∈ nameTail))
  | [] => false

def nameCheck (s : String) : Bool := wordCheck s.toList && (Gen.reserved.lookup s).isNone

def Ast.lexOk : Ast → Bool
  | .var x => nameCheck x
  | .bool _ => true
  | .num _ d => !d.toList.isEmpty && d.toList.all (fun x => decide (x ∈ asciiDigits))
  | .not e => e.lexOk
  | .bin _ l r => l.lexOk && r.lexOk
  | .ite a b c => a.lexOk && b.lexOk && c.lexOk
  | .quant _ ns e => ns.all nameCheck && e.lexOk
  | .subst ss e => ss.all (fun s => nameCheck s.1 && nameCheck s.2) && e.lexOk

theorem nameOk_of_check {s : String} (h : nameCheck s = true) : nameOk s := by
  simp only [nameCheck, Bool.and_eq_true, Option.isNone_iff_eq_none] at h
  exact ⟨isWord_of_check _ h.1, h.2⟩

theorem lexOk_sound : ∀ t : Ast, t.lexOk = true → t.LexWF := by
  intro t
  induction t with
  | var x => intro h; exact nameOk_of_check h
  | bool b => intro _; trivial
  | num neg d =>
    intro h
    simp only [Ast.lexOk, Bool.and_eq_true, Bool.not_eq_true', List.isEmpty_eq_false_iff,
      List.all_eq_true, decide_eq_true_eq] at h
    exact ⟨h.1, h.2⟩
  | not e ih => intro h; exact ih h
  | bin o l r ihl ihr =>
    intro h
    simp only [Ast.lexOk, Bool.and_eq_true] at h
    exact ⟨ihl h.1, ihr h.2⟩
  | ite a b c iha ihb ihc =>
    intro h
    simp only [Ast.lexOk, Bool.and_eq_true] at h
    exact ⟨iha h.1.1, ihb h.1.2, ihc h.2⟩
  | quant fa ns e ih =>
    intro h
    simp only [Ast.lexOk, Bool.and_eq_true, List.all_eq_true] at h
    exact ⟨fun x hx => nameOk_of_check (h.1 x hx), ih h.2⟩
  | subst ss e ih =>
    intro h
    simp only [Ast.lexOk, Bool.and_eq_true, List.all_eq_true] at h
    exact ⟨fun x hx => ⟨nameOk_of_check (h.1 x hx).1, nameOk_of_check (h.1 x hx).2⟩, ih h.2⟩


/-! ### single-character tokens followed by anything -/

/-- all spellings that start with `c` are the one-character spelling `c` of row `row` -/
def singleFirst (c : Char) (row : String × String) (tbl : List (String × String × String)) : Bool :=
  tbl.all fun r => match r.1.toList with
    | x :: xs => x != c || (xs.isEmpty && (r.2.1, r.2.2) == row)
    | [] => false

theorem longestSpelling_single_some (c : Char) (cs : List Char) (row : String × String) :
    ∀ (tbl : List (String × String × String)), singleFirst c row tbl = true →
    longestSpelling (c :: cs) tbl (some (row, 1)) = some (row, 1) := by
  intro tbl
  induction tbl with
  | nil => intro _; rfl
  | cons r tbl ih =>
    intro h
    obtain ⟨sp, ty, val⟩ := r
    simp only [singleFirst, List.all_cons, Bool.and_eq_true] at h
    obtain ⟨h1, h2⟩ := h
    simp only [longestSpelling]
    cases hs : sp.toList with
    | nil => simp [hs] at h1
    | cons x xs =>
      simp only [hs, Bool.or_eq_true, bne_iff_ne, ne_eq, Bool.and_eq_true, List.isEmpty_iff,
        beq_iff_eq] at h1
      by_cases hx : x = c
      · subst hx
        rcases h1 with h1 | ⟨hxs, _⟩
        · exact absurd rfl h1
        · subst hxs
          simp only [isPrefixChars, beq_self_eq_true, Bool.and_self, if_true, List.length_cons,
            List.length_nil, Nat.lt_irrefl, if_false]
          exact ih h2
      · have : isPrefixChars (x :: xs) (c :: cs) = false := by
          simp [isPrefixChars, hx]
        rw [this]
        exact ih h2

theorem longestSpelling_single (c : Char) (cs : List Char) (row : String × String) :
    ∀ (tbl : List (String × String × String)), singleFirst c row tbl = true →
    (tbl.any fun r => r.1.toList == [c]) = true →
    longestSpelling (c :: cs) tbl none = some (row, 1) := by
  intro tbl
  induction tbl with
  | nil => intro _ h; simp at h
  | cons r tbl ih =>
    intro h hany
    obtain ⟨sp, ty, val⟩ := r
    have h' := h
    simp only [singleFirst, List.all_cons, Bool.and_eq_true] at h
    obtain ⟨h1, h2⟩ := h
    simp only [longestSpelling]
    cases hs : sp.toList with
    | nil => simp [hs] at h1
    | cons x xs =>
      simp only [hs, Bool.or_eq_true, bne_iff_ne, ne_eq, Bool.and_eq_true, List.isEmpty_iff,
        beq_iff_eq] at h1
      by_cases hx : x = c
      · subst hx
        rcases h1 with h1 | ⟨hxs, hrow⟩
        · exact absurd rfl h1
        · subst hxs
          simp only [isPrefixChars, beq_self_eq_true, Bool.and_self, if_true, List.length_cons,
            List.length_nil]
          rw [hrow]
          exact longestSpelling_single_some x cs row tbl h2
      · have : isPrefixChars (x :: xs) (c :: cs) = false := by
          simp [isPrefixChars, hx]
        rw [this]
        simp only [List.any_cons, hs, Bool.or_eq_true, beq_iff_eq, List.cons.injEq] at hany
        rcases hany with ⟨hxc, _⟩ | hany
        · exact absurd hxc hx
        · exact ih h2 hany

/-- the single-character tokens of `to_expr` texts -/
def singles : List (Char × Tok) := [('(', .lparen), (')', .rparen), (',', .comma), ('~', .not)]

theorem singles_ok : (singles.all fun ct =>
    !Gen.lexIgnore.toList.contains ct.1 && !isNameStart ct.1 && !(ct.1 == '\\') && !(ct.1 == '\n') &&
    singleFirst ct.1 (tokRowOf ct.2) Gen.spellings && (Gen.spellings.any fun r => r.1.toList == [ct.1]) &&
    tokOfRow (tokRowOf ct.2).1 (tokRowOf ct.2).2 == some ct.2) = true := by decide

theorem step_single (c : Char) (t : Tok) (hct : (c, t) ∈ singles) (f : Nat) (cs : List Char)
    (hstar : c = '(' → cs.head? ≠ some '*') :
    tokenizeF (f+1) (c :: cs) = t :: tokenizeF f cs := by
  have h := List.all_eq_true.mp singles_ok (c, t) hct
  simp only [Bool.and_eq_true, Bool.not_eq_true', beq_iff_eq] at h
  obtain ⟨⟨⟨⟨⟨⟨h1, h2⟩, h3⟩, h4⟩, h5⟩, h6⟩, h7⟩ := h
  have hp : preOk (c :: cs) = true := by
    simp only [preOk, h1, h2, h3, h4, Bool.not_false, Bool.true_and, Bool.false_and, Bool.and_true,
      Bool.not_eq_true', Bool.and_eq_false_iff]
    by_cases hc : c = '('
    · right
      have := hstar hc
      simpa using this
    · left
      simpa using hc
  have := tokenizeF_spelling f c cs _ _ 1 t hp (longestSpelling_single c cs _ _ h5 h6) h7
  simpa using this

/-! ### words followed by a delimiter or the end of the text -/

/-- nothing, or a character that cannot continue a NAME -/
def delimOk : List Char → Prop
  | [] => True
  | d :: _ => isNameChar d = false

theorem step_word' (w : List Char) (hw : isWord w) (f : Nat) (rest : List Char) (hr : delimOk rest) :
    tokenizeF (f+1) (w ++ rest) = nameTok (String.ofList w) :: tokenizeF f rest := by
  obtain ⟨c, cs, rfl, hc, hcs⟩ := hw
  have hall : ∀ x ∈ c :: cs, isNameChar x = true := by
    intro x hx
    rcases List.mem_cons.mp hx with rfl | hx
    · exact nameTail_ok _ (by simp [nameTail, hc])
    · exact nameTail_ok _ (hcs x hx)
  have e := tokenizeF_word f c (cs ++ rest) hc
  rw [List.cons_append, e]
  have ht : ((c :: cs) ++ rest).takeWhile isNameChar = c :: cs := by
    rw [List.takeWhile_append_of_pos hall]
    cases rest with
    | nil => simp
    | cons d r => simp [List.takeWhile, delimOk] at hr ⊢; simp [hr]
  have hd : ((c :: cs) ++ rest).dropWhile isNameChar = rest := by
    rw [List.dropWhile_append_of_pos hall]
    cases rest with
    | nil => simp
    | cons d r => simp [List.dropWhile, delimOk] at hr ⊢; simp [hr]
  rw [List.cons_append] at ht hd
  rw [ht, hd]


/-! ### the texts written by `to_expr` -/

/-- syntax trees in the image of `to_expr` -/
inductive TE : Ast → Prop
  | tt : TE (.bool true)
  | ff : TE (.bool false)
  | var (x : String) : nameOk x → TE (.var x)
  | ite (v : String) (q p : Ast) : nameOk v → TE q → TE p → TE (.ite (.var v) q p)
  | neg (e : Ast) : TE e → TE (.not e)

/-- `to_expr` parenthesises exactly the negations -/
def isNot : Ast → Bool
  | .not _ => true
  | _ => false

/-- characters of the text `to_expr` writes for a tree of its image -/
def teChars : Ast → List Char
  | .bool true => "TRUE".toList
  | .bool false => "FALSE".toList
  | .var x => x.toList
  | .ite (.var v) q p =>
    "ite(".toList ++ (v.toList ++ (", ".toList ++ (teChars q ++ (", ".toList ++ (teChars p ++ [')'])))))
  | .not e => "(~ ".toList ++ (teChars e ++ [')'])
  | _ => []

theorem nameOk_head {x : String} (h : nameOk x) : ∃ c cs, x.toList = c :: cs ∧ c ∈ nameStarts := by
  obtain ⟨⟨c, cs, h1, h2, _⟩, _⟩ := h
  exact ⟨c, cs, h1, h2⟩

theorem tokenizeF_nil (f : Nat) : tokenizeF (f+1) [] = [] := by simp [tokenizeF]

theorem nameStarts_not_star : ∀ c ∈ nameStarts, c ≠ '*' := by decide

theorem TE_lvl {e : Ast} (h : TE e) : decide (e.lvl < notPrec) = false := by
  cases h <;> (simp only [Ast.lvl]; exact decide_eq_false (by omega))

theorem isNot_not (e : Ast) : isNot (.not e) = true := rfl

/-- lexing the text of a `to_expr` tree, followed by `rest` -/
theorem tokenizeF_te : ∀ (a : Ast), TE a → ∀ (f : Nat) (rest : List Char) (res : List Tok),
    (teChars a ++ rest).length < f → delimOk rest →
    (∀ f', rest.length < f' → tokenizeF f' rest = res) →
    tokenizeF f (teChars a ++ rest) = printG isNot a ++ res := by
  intro a ha
  induction ha with
  | tt =>
    intro f rest res hf hr hk
    obtain ⟨f0, rfl⟩ := fuel_succ hf
    have hf0 : rest.length < f0 := by
      have : ("TRUE".toList).length = 4 := by decide
      simp only [teChars, List.length_append, this] at hf; omega
    have := step_word' "TRUE".toList (isWord_of_check _ (by decide)) f0 rest hr
    rw [String.ofList_toList] at this
    have e : nameTok "TRUE" = .tt := by decide
    rw [e, hk f0 hf0] at this
    simpa [teChars, printG, printRaw, paren, isNot] using this
  | ff =>
    intro f rest res hf hr hk
    obtain ⟨f0, rfl⟩ := fuel_succ hf
    have hf0 : rest.length < f0 := by
      have : ("FALSE".toList).length = 5 := by decide
      simp only [teChars, List.length_append, this] at hf; omega
    have := step_word' "FALSE".toList (isWord_of_check _ (by decide)) f0 rest hr
    rw [String.ofList_toList] at this
    have e : nameTok "FALSE" = .ff := by decide
    rw [e, hk f0 hf0] at this
    simpa [teChars, printG, printRaw, paren, isNot] using this
  | var x hx =>
    intro f rest res hf hr hk
    obtain ⟨f0, rfl⟩ := fuel_succ hf
    obtain ⟨c, cs, hxc, _⟩ := nameOk_head hx
    have hf0 : rest.length < f0 := by
      simp only [teChars, List.length_append, hxc, List.length_cons] at hf; omega
    have := step_word' x.toList hx.1 f0 rest hr
    rw [String.ofList_toList] at this
    have e : nameTok x = .name x := by simp [nameTok, hx.2]
    rw [e, hk f0 hf0] at this
    simpa [teChars, printG, printRaw, paren, isNot] using this
  | ite v q p hv _ _ ihq ihp =>
    intro f rest res hf hr hk
    obtain ⟨c, cs, hvc, hcst⟩ := nameOk_head hv
    -- the characters
    have e0 : teChars (.ite (.var v) q p) ++ rest =
        "ite".toList ++ ('(' :: (v.toList ++ (',' :: ' ' :: (teChars q ++
          (',' :: ' ' :: (teChars p ++ (')' :: rest))))))) := by
      have e1 : "ite(".toList = "ite".toList ++ ['('] := by decide
      have e2 : ", ".toList = [',', ' '] := by decide
      simp only [teChars, e1, e2, List.append_assoc, List.cons_append, List.nil_append]
    rw [e0] at hf ⊢
    have hl3 : ("ite".toList).length = 3 := by decide
    simp only [List.length_append, List.length_cons, hl3] at hf
    -- `ite`
    obtain ⟨f1, rfl⟩ := fuel_succ hf
    have s1 := step_word' "ite".toList (isWord_of_check _ (by decide)) f1
      ('(' :: (v.toList ++ (',' :: ' ' :: (teChars q ++ (',' :: ' ' :: (teChars p ++ (')' :: rest)))))))
      (by simp only [delimOk]; decide)
    rw [String.ofList_toList] at s1
    have eite : nameTok "ite" = .ite := by decide
    rw [eite] at s1
    rw [s1]
    -- `(`
    obtain ⟨f2, rfl⟩ : ∃ f2, f1 = f2 + 1 := ⟨f1 - 1, by omega⟩
    rw [step_single '(' .lparen (by decide) f2 _ (by
      intro _; rw [hvc]; simp only [List.cons_append, List.head?_cons, ne_eq, Option.some.injEq]
      exact nameStarts_not_star c hcst)]
    -- the variable
    obtain ⟨f3, rfl⟩ : ∃ f3, f2 = f3 + 1 := ⟨f2 - 1, by omega⟩
    have s3 := step_word' v.toList hv.1 f3
      (',' :: ' ' :: (teChars q ++ (',' :: ' ' :: (teChars p ++ (')' :: rest))))) (by simp only [delimOk]; decide)
    rw [String.ofList_toList] at s3
    have ev : nameTok v = .name v := by simp [nameTok, hv.2]
    rw [ev] at s3
    rw [s3]
    -- `, `
    have hvl : 0 < v.toList.length := by rw [hvc]; simp
    obtain ⟨f4, rfl⟩ : ∃ f4, f3 = f4 + 1 := ⟨f3 - 1, by omega⟩
    rw [step_single ',' .comma (by decide) f4 _ (by intro h; exact absurd h (by decide))]
    obtain ⟨f5, rfl⟩ : ∃ f5, f4 = f5 + 1 := ⟨f4 - 1, by omega⟩
    rw [tokenizeF_space]
    -- q, then `, `, p, `)`
    have hq := ihq f5 (',' :: ' ' :: (teChars p ++ (')' :: rest)))
      (Tok.comma :: (printG isNot p ++ (Tok.rparen :: res)))
      (by simp only [List.length_append, List.length_cons]; omega)
      (by simp only [delimOk]; decide)
      (by
        intro f' hf'
        simp only [List.length_cons, List.length_append] at hf'
        obtain ⟨g1, rfl⟩ : ∃ g1, f' = g1 + 1 := ⟨f' - 1, by omega⟩
        rw [step_single ',' .comma (by decide) g1 _ (by intro h; exact absurd h (by decide))]
        obtain ⟨g2, rfl⟩ : ∃ g2, g1 = g2 + 1 := ⟨g1 - 1, by omega⟩
        rw [tokenizeF_space]
        have hp := ihp g2 (')' :: rest) (Tok.rparen :: res)
          (by simp only [List.length_append, List.length_cons]; omega)
          (by simp only [delimOk]; decide)
          (by
            intro f'' hf''
            simp only [List.length_cons] at hf''
            obtain ⟨g3, rfl⟩ : ∃ g3, f'' = g3 + 1 := ⟨f'' - 1, by omega⟩
            rw [step_single ')' .rparen (by decide) g3 _ (by intro h; exact absurd h (by decide))]
            rw [hk g3 (by omega)])
        rw [hp])
    rw [hq]
    simp [printG, printRaw, paren, isNot]
  | neg e hte ih =>
    intro f rest res hf hr hk
    have e0 : teChars (.not e) ++ rest = '(' :: '~' :: ' ' :: (teChars e ++ (')' :: rest)) := by
      have e1 : "(~ ".toList = ['(', '~', ' '] := by decide
      simp only [teChars, e1, List.append_assoc, List.cons_append, List.nil_append]
    rw [e0] at hf ⊢
    simp only [List.length_append, List.length_cons] at hf
    obtain ⟨f1, rfl⟩ := fuel_succ hf
    rw [step_single '(' .lparen (by decide) f1 _ (by intro _; simp)]
    obtain ⟨f2, rfl⟩ : ∃ f2, f1 = f2 + 1 := ⟨f1 - 1, by omega⟩
    rw [step_single '~' .not (by decide) f2 _ (by intro h; exact absurd h (by decide))]
    obtain ⟨f3, rfl⟩ : ∃ f3, f2 = f3 + 1 := ⟨f2 - 1, by omega⟩
    rw [tokenizeF_space]
    have he := ih f3 (')' :: rest) (Tok.rparen :: res)
      (by simp only [List.length_append, List.length_cons]; omega)
      (by simp only [delimOk]; decide)
      (by
        intro f' hf'
        simp only [List.length_cons] at hf'
        obtain ⟨g, rfl⟩ : ∃ g, f' = g + 1 := ⟨f' - 1, by omega⟩
        rw [step_single ')' .rparen (by decide) g _ (by intro h; exact absurd h (by decide))]
        rw [hk g (by omega)])
    rw [he]
    simp [printG, printRaw, paren, isNot_not, TE_lvl hte]

end DD
