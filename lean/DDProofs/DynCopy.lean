/-
  DDProofs.DynCopy — `copy_bdd(u, from_bdd, to_bdd)` into a target manager with dynamic reordering
  enabled (the body runs inside the target's `_try_to_reorder`, fix F4b): instance of the generic
  transparency theorem.  The source manager is only read, so its table is a parameter.
-/
import DDProofs.DynSift
open Std

namespace DD

/-- documented result of `copy_bdd` in the target: the same function of the variable names, and
the copy of a regular reference is regular -/
def CopyDoc (s : Tbl) (u : Int) (_t : Tbl) (r : Int) (t' : Tbl) : Prop :=
  t'.Mem r ∧ (0 < r ↔ 0 < u) ∧ ∀ σ, denN t' r σ = denN s u σ

/-- every variable of the support of the source function is declared in the target -/
def CopyPre (s : Tbl) (u : Int) (t : Tbl) : Prop :=
  ∀ i v, InSupp s u i → s.l2v[i]? = some v → t.vars.contains v = true

theorem copyBddBody_out (s : Tbl) (hS : WF s) (hOs : OrderOK s) (m0 : Mgr) (hI0 : Inv m0)
    (hq : Quiet m0) (hO : OrderOK m0.tbl) (u : Int) (hu : s.Mem u) (hsup : CopyPre s u m0.tbl) :
    Outcome m0 (fun r m1 => CopyDoc s u m0.tbl r m1.tbl) (copyBddBody s u m0) := by
  have hVs := hOs.varsBij
  have hVm := hO.varsBij
  have hlook : ∀ i v, InSupp s u i → s.l2v[i]? = some v →
      ∃ j, (copyMap s m0.tbl).lookup i = some j ∧ m0.tbl.vars[v]? = some j := by
    intro i v hi hv
    obtain ⟨j, hj⟩ := (vars_contains_iff m0.tbl v).mp (hsup i v hi hv)
    refine ⟨j, ?_, hj⟩
    unfold copyMap
    apply lookup_filterMap_unique (fun x => m0.tbl.vars[x]?) v i j hj
    · exact TreeMap.mem_toList_iff_getElem?_eq_some.mpr (hVs.l2v _ _ hv)
    · intro v' hv'
      exact hVs.inj (TreeMap.mem_toList_iff_getElem?_eq_some.mp hv') (hVs.l2v _ _ hv)
  have hname : ∀ i, InSupp s u i → ∃ v, s.l2v[i]? = some v := by
    intro i hi
    obtain ⟨v, hv⟩ := hVs.onto i (hi.lt_nvars hS)
    exact ⟨v, hVs.v2l _ _ hv⟩
  unfold copyBddBody
  rcases (copyBddF_out (some s) (copyMap s m0.tbl) s hS (s.nvars + 2) m0 u {} hI0 hq rfl hu
    (CMemo.empty _ _ _)
    (by
      intro i hi
      obtain ⟨v, hv⟩ := hname i hi
      obtain ⟨j, hj, hjv⟩ := hlook i v hi hv
      exact ⟨j, hj, hVm.lt _ _ hjv⟩)
    (by omega)).cases with ⟨r, c, m1, he, hs, _, hp⟩ | ⟨m1, he, hs, ha⟩
  rotate_left
  · rw [he]; exact ⟨rfl, hs, ha⟩
  rw [he]
  refine ⟨hs, hp.mr, hp.sign, fun σ => ?_⟩
  unfold denN
  rw [hp.den]
  apply den_agree_supp s hS u hu
  intro i hi
  obtain ⟨v, hv⟩ := hname i hi
  obtain ⟨j, hj, hjv⟩ := hlook i v hi hv
  have hl2v : m1.tbl.l2v = m0.tbl.l2v := hs.frame.l2v
  simp [cmap, hj, Tbl.lift, Tbl.nameOf, hv, hl2v, hVm.v2l _ _ hjv]

/-- C09 for `copy_bdd` into a manager with dynamic reordering enabled -/
theorem copyBdd_transparent (ext : Nat → Nat) (hSc : SiftContract ext) (s : Tbl) (hS : WF s)
    (hOs : OrderOK s) (m : Mgr) (hD : DynInv ext m) (u : Int) (hu : s.Mem u)
    (hsup : CopyPre s u m.tbl) :
    ∃ r m', copyBdd s u m = (.ok r, m') ∧ DynPostG ext (CopyDoc s u) m r m' := by
  unfold copyBdd
  refine tryToReorder_transparent ext hSc (copyBddBody s u) [] (CopyPre s u) (CopyDoc s u)
    ?_ ?_ (fun _ _ _ _ _ _ hd => hd) m hD (fun _ h => by cases h) hsup
  · intro m0 hI0 hc hO hpre _
    exact copyBddBody_out s hS hOs m0 hI0 (Or.inl hc) hO u hu hpre
  · intro t t' hB hpre i v hi hv
    rw [hB.names v]; exact hpre i v hi hv

end DD
