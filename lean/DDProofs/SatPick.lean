/-
  DDProofs.SatPick — `satIterF` (cubes of the paths to the true terminal) and `pickIter`.
-/
import DDProofs.SatSupport
open Std

namespace DD

/-- a (level) assignment agrees with a cube -/
def Agrees (a : Asg) (c : List (Nat × Bool)) : Prop := ∀ p ∈ c, a p.1 = p.2

/-- two cubes give opposite values to a common key -/
def Incompat {κ} (c1 c2 : List (κ × Bool)) : Prop := ∃ i b, (i, b) ∈ c1 ∧ (i, !b) ∈ c2

theorem Agrees.not_incompat {a : Asg} {c1 c2 : List (Nat × Bool)} (h1 : Agrees a c1) (h2 : Agrees a c2) :
    ¬ Incompat c1 c2 := by
  rintro ⟨i, b, hb1, hb2⟩
  have e1 := h1 _ hb1
  have e2 := h2 _ hb2
  simp only at e1 e2
  rw [e1] at e2
  cases b <;> simp at e2

theorem satIterF_spec {t : Tbl} (hw : WFU t) :
    ∀ f u cube value, t.Mem u → t.nvars + 1 ≤ f + t.levelOf u →
      (∀ p ∈ cube, p.1 < t.levelOf u) → (cube.map (·.1)).Nodup →
      ∃ L, satIterF f t u cube value = .ok L ∧
        (∀ c ∈ L, (∀ p ∈ cube, p ∈ c) ∧ (c.map (·.1)).Nodup ∧
          (∀ p ∈ c, p ∈ cube ∨ dependsOn t u p.1) ∧ (∀ a, Agrees a c → den t u a = value)) ∧
        (∀ a, Agrees a cube → den t u a = value → ∃ c ∈ L, Agrees a c) ∧
        L.Pairwise Incompat := by
  have hW := hw.toWF
  intro f
  induction f with
  | zero => intro u _ _ _ hf; have := levelOf_le t hW u; omega
  | succ f ih =>
    intro u cube value hm hf hlt hnd
    rcases hm.cases with h1 | ⟨h1, n, hn⟩
    · rcases abs_one h1 with hu | hu <;> subst hu
      · cases value
        · refine ⟨[], by simp [satIterF], by simp, ?_, List.Pairwise.nil⟩
          intro a _ h; rw [den_one] at h; cases h
        · refine ⟨[cube], by simp [satIterF], ?_, ?_, List.pairwise_singleton _ _⟩
          · intro c hc
            rw [List.mem_singleton] at hc; subst hc
            exact ⟨fun _ h => h, hnd, fun _ h => Or.inl h, fun a _ => den_one t a⟩
          · intro a ha _; exact ⟨cube, by simp, ha⟩
      · cases value
        · refine ⟨[cube], by simp [satIterF], ?_, ?_, List.pairwise_singleton _ _⟩
          · intro c hc
            rw [List.mem_singleton] at hc; subst hc
            exact ⟨fun _ h => h, hnd, fun _ h => Or.inl h, fun a _ => den_neg_one t a⟩
          · intro a ha _; exact ⟨cube, by simp, ha⟩
        · refine ⟨[], by simp [satIterF], by simp, ?_, List.Pairwise.nil⟩
          intro a _ h; rw [den_neg_one] at h; cases h
    · have hl := levelOf_node t u n h1 hn
      have h2 := hW.lo_lt _ _ hn
      have h3 := hW.hi_lt _ _ hn
      rw [hl] at hlt
      -- the filtered cube is the cube
      have hfil : cube.filter (fun p => decide (p.1 ≠ n.lvl)) = cube := by
        apply List.filter_eq_self.mpr
        intro p hp; have := hlt p hp; simp; omega
      have hnd' : ∀ b : Bool, (((n.lvl, b) :: cube).map (·.1)).Nodup := by
        intro b
        simp only [List.map_cons]
        refine List.nodup_cons.mpr ⟨?_, hnd⟩
        intro hmem
        obtain ⟨p, hp, hp1⟩ := List.mem_map.mp hmem
        have := hlt p hp; omega
      have hlt' : ∀ b : Bool, ∀ l', n.lvl < l' → ∀ p ∈ (n.lvl, b) :: cube, p.1 < l' := by
        intro b l' hl' p hp
        rcases List.mem_cons.mp hp with hp | hp
        · subst hp; exact hl'
        · have := hlt p hp; omega
      obtain ⟨value', hv'⟩ : ∃ v, v = if u < 0 then !value else value := ⟨_, rfl⟩
      have hval : ∀ (a : Asg) (x : Bool), (((decide (u < 0)) ^^ x) = value) ↔ x = value' := by
        intro a x
        by_cases hneg : u < 0 <;> cases x <;> cases value <;> simp [hv', hneg]
      obtain ⟨L0, e0, i0, c0, p0⟩ := ih n.lo ((n.lvl, false) :: cube) value' (hW.lo_mem _ _ hn)
        (by omega) (hlt' false _ h2) (hnd' false)
      obtain ⟨L1, e1, i1, c1, p1⟩ := ih n.hi ((n.lvl, true) :: cube) value' (hW.hi_mem _ _ hn)
        (by omega) (hlt' true _ h3) (hnd' true)
      have hdep : ∀ (b : Bool) (v : Int), (v = n.lo ∨ v = n.hi) → ∀ p : Nat × Bool,
          (p ∈ (n.lvl, b) :: cube ∨ dependsOn t v p.1) → (p ∈ cube ∨ dependsOn t u p.1) := by
        intro b v hv p hp
        rcases hp with hp | hp
        · rcases List.mem_cons.mp hp with hp | hp
          · subst hp; exact Or.inr (node_depends_on_own_level hw h1 hn)
          · exact Or.inl hp
        · right
          have hne : p.1 ≠ n.lvl := by
            intro he
            rcases hv with hv | hv <;> subst hv
            · exact dependsOn_lt hW (hW.lo_mem _ _ hn) (by omega) hp
            · exact dependsOn_lt hW (hW.hi_mem _ _ hn) (by omega) hp
          rw [dependsOn_node hW h1 hn hne]
          rcases hv with hv | hv <;> subst hv
          · exact Or.inl hp
          · exact Or.inr hp
      refine ⟨L0 ++ L1, ?_, ?_, ?_, ?_⟩
      · unfold satIterF
        simp only [h1, if_false, hn, hW.zero_test hn, Bool.false_eq_true, hfil]
        simp only [ne_eq, decide_not] at hfil ⊢
        rw [← hv', e0, e1]
      · intro c hc
        rcases List.mem_append.mp hc with hc | hc
        · obtain ⟨s, nd, dep, frc⟩ := i0 c hc
          refine ⟨fun p hp => s p (List.mem_cons_of_mem _ hp), nd,
            fun p hp => hdep false n.lo (Or.inl rfl) p (dep p hp), ?_⟩
          intro a ha
          have hav : a n.lvl = false := ha (n.lvl, false) (s _ (by simp))
          rw [den_node t hW u n a h1 hn, hav]
          simp only [Bool.false_eq_true, if_false]
          exact (hval a _).mpr (frc a ha)
        · obtain ⟨s, nd, dep, frc⟩ := i1 c hc
          refine ⟨fun p hp => s p (List.mem_cons_of_mem _ hp), nd,
            fun p hp => hdep true n.hi (Or.inr rfl) p (dep p hp), ?_⟩
          intro a ha
          have hav : a n.lvl = true := ha (n.lvl, true) (s _ (by simp))
          rw [den_node t hW u n a h1 hn, hav]
          simp only [if_true]
          exact (hval a _).mpr (frc a ha)
      · intro a ha hd
        rw [den_node t hW u n a h1 hn] at hd
        by_cases hav : a n.lvl = true
        · rw [hav] at hd; simp only [if_true] at hd
          obtain ⟨c, hc, hac⟩ := c1 a (by
            intro p hp
            rcases List.mem_cons.mp hp with hp | hp
            · subst hp; exact hav
            · exact ha p hp) ((hval a _).mp hd)
          exact ⟨c, List.mem_append_right _ hc, hac⟩
        · have hav' : a n.lvl = false := by simpa using hav
          rw [hav'] at hd; simp only [Bool.false_eq_true, if_false] at hd
          obtain ⟨c, hc, hac⟩ := c0 a (by
            intro p hp
            rcases List.mem_cons.mp hp with hp | hp
            · subst hp; exact hav'
            · exact ha p hp) ((hval a _).mp hd)
          exact ⟨c, List.mem_append_left _ hc, hac⟩
      · rw [List.pairwise_append]
        refine ⟨p0, p1, ?_⟩
        intro x hx y hy
        exact ⟨n.lvl, false, (i0 x hx).1 _ (by simp), (i1 y hy).1 _ (by simp)⟩

end DD

namespace DD

/-! ### names -/

/-- the variable name at a level (`_level_to_var`) -/
def Tbl.nameOf (t : Tbl) (i : Nat) : String := (t.l2v[i]?).getD ""

/-- `_level_to_var` names every level and is injective (part of the manager invariant
`vars`/`_level_to_var` are inverse bijections) -/
structure VarsOK (t : Tbl) : Prop where
  total : ∀ i, i < t.nvars → ∃ v, t.l2v[i]? = some v
  inj : ∀ i j, i < t.nvars → j < t.nvars → t.nameOf i = t.nameOf j → i = j

theorem VarsOK.l2v_eq {t : Tbl} (hv : VarsOK t) {i : Nat} (hi : i < t.nvars) :
    t.l2v[i]? = some (t.nameOf i) := by
  obtain ⟨v, h⟩ := hv.total i hi
  simp [Tbl.nameOf, h]

abbrev AsgN := String → Bool

/-- the level assignment induced by an assignment to names -/
def Tbl.lift (t : Tbl) (σ : AsgN) : Asg := fun i => σ (t.nameOf i)

/-- denotation as a function of variable names -/
def denN (t : Tbl) (u : Int) (σ : AsgN) : Bool := den t u (t.lift σ)

def AgreesN (σ : AsgN) (m : List (String × Bool)) : Prop := ∀ p ∈ m, σ p.1 = p.2

theorem mapM_ok {α β} (f : α → Except Err β) (g : α → β) (l : List α) (h : ∀ x ∈ l, f x = .ok (g x)) :
    l.mapM f = .ok (l.map g) := by
  induction l with
  | nil => rfl
  | cons a l ih =>
    rw [List.mapM_cons, h a (by simp), ih (fun x hx => h x (List.mem_cons_of_mem _ hx))]
    rfl

/-- `support(u)`: the names of the levels the function depends on, by ascending level -/
theorem support_spec' {t : Tbl} (hw : WFU t) (hv : VarsOK t) (u : Int) (hm : t.Mem u) :
    ∃ ls, supportLevels t u = .ok ls ∧ ls.Pairwise (· < ·) ∧ (∀ i, i ∈ ls ↔ dependsOn t u i) ∧
      support t u = .ok (ls.map t.nameOf) := by
  obtain ⟨ls, e, p, s⟩ := supportLevels_spec' hw u hm
  refine ⟨ls, e, p, s, ?_⟩
  unfold support
  rw [e]
  apply mapM_ok
  intro i hi
  rw [hv.l2v_eq (dependsOn_lt_nvars hw hm ((s i).mp hi))]

/-! ### `allAssignments` -/

theorem allAssignments_keys : ∀ (bits : List String) x, x ∈ allAssignments bits → x.map (·.1) = bits := by
  intro bits
  induction bits with
  | nil => intro x hx; simp [allAssignments] at hx; subst hx; rfl
  | cons b bs ih =>
    intro x hx
    simp only [allAssignments, List.mem_append, List.mem_map] at hx
    rcases hx with ⟨y, hy, rfl⟩ | ⟨y, hy, rfl⟩ <;> simp [ih y hy]

theorem Incompat.symm {κ} {c1 c2 : List (κ × Bool)} (h : Incompat c1 c2) : Incompat c2 c1 := by
  obtain ⟨i, b, h1, h2⟩ := h
  exact ⟨i, !b, h2, by simpa using h1⟩

theorem allAssignments_pairwise : ∀ (bits : List String), (allAssignments bits).Pairwise Incompat := by
  intro bits
  induction bits with
  | nil => simp [allAssignments]
  | cons b bs ih =>
    simp only [allAssignments]
    rw [List.pairwise_append]
    refine ⟨?_, ?_, ?_⟩
    · apply List.Pairwise.map _ _ ih
      rintro x y ⟨i, c, h1, h2⟩
      exact ⟨i, c, List.mem_cons_of_mem _ h1, List.mem_cons_of_mem _ h2⟩
    · apply List.Pairwise.map _ _ ih
      rintro x y ⟨i, c, h1, h2⟩
      exact ⟨i, c, List.mem_cons_of_mem _ h1, List.mem_cons_of_mem _ h2⟩
    · intro x hx y hy
      obtain ⟨x', _, rfl⟩ := List.mem_map.mp hx
      obtain ⟨y', _, rfl⟩ := List.mem_map.mp hy
      exact ⟨b, false, by simp, by simp⟩

theorem allAssignments_complete (σ : AsgN) : ∀ (bits : List String),
    bits.map (fun v => (v, σ v)) ∈ allAssignments bits := by
  intro bits
  induction bits with
  | nil => simp [allAssignments]
  | cons b bs ih =>
    simp only [allAssignments, List.map_cons, List.mem_append, List.mem_map]
    cases h : σ b
    · left; exact ⟨_, ih, rfl⟩
    · right; exact ⟨_, ih, rfl⟩

theorem allAssignments_length : ∀ (bits : List String), (allAssignments bits).length = 2 ^ bits.length := by
  intro bits
  induction bits with
  | nil => rfl
  | cons b bs ih =>
    simp only [allAssignments, List.length_append, List.length_map, ih, List.length_cons]
    rw [Nat.pow_succ]; omega

/-! ### `pick_iter` -/

/-- the named version of a level cube -/
def Tbl.nameCube (t : Tbl) (c : List (Nat × Bool)) : List (String × Bool) :=
  c.map fun p => (t.nameOf p.1, p.2)

/-- the minterms `_enumerate_minterms` makes of a named cube -/
def minterms (care : List String) (cube : List (String × Bool)) : List (List (String × Bool)) :=
  let bits := (dedup care).filter fun b => !(cube.any (·.1 = b))
  (allAssignments bits).map fun a => a ++ cube

/-- `pickIter` computes: the minterms of the named cubes of `satIterF` -/
theorem pickIter_eq {t : Tbl} (hw : WFU t) (hv : VarsOK t) (u : Int) (hm : t.Mem u)
    (care : Option (List String)) (supp : List String) (hs : support t u = .ok supp)
    (cubes : List (List (Nat × Bool))) (hc : satIterF (t.nvars + 2) t u [] true = .ok cubes)
    (hk : ∀ c ∈ cubes, ∀ p ∈ c, p.1 < t.nvars) :
    pickIter t u care = .ok ((cubes.map t.nameCube).flatMap (minterms (care.getD supp))) := by
  unfold pickIter
  rw [(Tbl.mem_iff t u).mpr hm, hs, hc]
  simp only [Bool.not_true, Bool.false_eq_true, if_false]
  have key : ∀ F : List (Nat × Bool) → Except Err (List (String × Bool)),
      (∀ c ∈ cubes, F c = .ok (t.nameCube c)) → cubes.mapM F = .ok (cubes.map t.nameCube) :=
    fun F h => mapM_ok F _ cubes h
  rw [key]
  · rfl
  · intro c hc'
    apply mapM_ok
    rintro ⟨i, b⟩ hp
    simp only [hv.l2v_eq (hk c hc' _ hp)]

theorem keys_functional {κ} {m : List (κ × Bool)} (hnd : (m.map (·.1)).Nodup) {i : κ} {b b' : Bool}
    (h1 : (i, b) ∈ m) (h2 : (i, b') ∈ m) : b = b' := by
  induction m with
  | nil => simp at h1
  | cons p m ih =>
    simp only [List.map_cons, List.nodup_cons] at hnd
    rcases List.mem_cons.mp h1 with h1 | h1 <;> rcases List.mem_cons.mp h2 with h2 | h2
    · rw [← h1] at h2; exact (Prod.mk.inj h2).2.symm
    · exfalso; apply hnd.1; rw [← h1]; exact List.mem_map.mpr ⟨_, h2, rfl⟩
    · exfalso; apply hnd.1; rw [← h2]; exact List.mem_map.mpr ⟨_, h1, rfl⟩
    · exact ih hnd.2 h1 h2

theorem not_incompat_self {κ} {m : List (κ × Bool)} (hnd : (m.map (·.1)).Nodup) : ¬ Incompat m m := by
  rintro ⟨i, b, h1, h2⟩
  have := keys_functional hnd h1 h2
  cases b <;> simp at this

theorem pairwise_symm_mem {α} {R : α → α → Prop} (hs : ∀ x y, R x y → R y x) {l : List α}
    (hp : l.Pairwise R) {x y : α} (hx : x ∈ l) (hy : y ∈ l) (hne : x ≠ y) : R x y := by
  induction l with
  | nil => simp at hx
  | cons a l ih =>
    rw [List.pairwise_cons] at hp
    rcases List.mem_cons.mp hx with hx1 | hx1 <;> rcases List.mem_cons.mp hy with hy1 | hy1
    · exact absurd (hx1.trans hy1.symm) hne
    · rw [hx1]; exact hp.1 y hy1
    · rw [hy1]; exact hs _ _ (hp.1 x hx1)
    · exact ih hp.2 hx1 hy1

theorem AgreesN.not_incompat {σ : AsgN} {c1 c2 : List (String × Bool)} (h1 : AgreesN σ c1)
    (h2 : AgreesN σ c2) : ¬ Incompat c1 c2 := by
  rintro ⟨i, b, hb1, hb2⟩
  have e1 := h1 _ hb1
  have e2 := h2 _ hb2
  simp only at e1 e2
  rw [e1] at e2
  cases b <;> simp at e2

/-- the main statement about `pick_iter` -/
theorem pickIter_spec' {t : Tbl} (hw : WFU t) (hv : VarsOK t) (u : Int) (hm : t.Mem u)
    (care : Option (List String)) :
    ∃ supp L, support t u = .ok supp ∧ pickIter t u care = .ok L ∧
      (∀ m ∈ L, (∀ σ, AgreesN σ m → denN t u σ = true) ∧
        (∀ v ∈ care.getD supp, v ∈ m.map (·.1)) ∧ (m.map (·.1)).Nodup ∧
        (care = none → ∀ v, v ∈ m.map (·.1) ↔ v ∈ supp)) ∧
      L.Pairwise Incompat ∧
      (∀ σ, denN t u σ = true → ∃ m ∈ L, AgreesN σ m) := by
  have hW := hw.toWF
  obtain ⟨ls, _, _, hls, hs⟩ := support_spec' hw hv u hm
  obtain ⟨cubes, hc, hi, hcov, hpw⟩ := satIterF_spec hw (t.nvars + 2) u [] true hm (by omega)
    (by simp) (by simp)
  have hk : ∀ c ∈ cubes, ∀ p ∈ c, p.1 < t.nvars := by
    intro c hc' p hp
    rcases (hi c hc').2.2.1 p hp with h | h
    · simp at h
    · exact dependsOn_lt_nvars hw hm h
  refine ⟨_, _, hs, pickIter_eq hw hv u hm care _ hs cubes hc hk, ?_, ?_, ?_⟩
  · intro m hmem
    obtain ⟨cN, hcN, hmm⟩ := List.mem_flatMap.mp hmem
    obtain ⟨c, hc', rfl⟩ := List.mem_map.mp hcN
    obtain ⟨x, hx, rfl⟩ := List.mem_map.mp hmm
    have hxk := allAssignments_keys _ x hx
    obtain ⟨_, cnd, cdep, cfrc⟩ := hi c hc'
    have hkeys : (x ++ t.nameCube c).map (·.1) =
        ((dedup (care.getD (ls.map t.nameOf))).filter fun b => !((t.nameCube c).any (·.1 = b))) ++
          (c.map (·.1)).map t.nameOf := by
      rw [List.map_append, hxk]; simp [Tbl.nameCube, List.map_map, Function.comp_def]
    have hcube_key : ∀ v, v ∈ (c.map (·.1)).map t.nameOf ↔ (t.nameCube c).any (·.1 = v) = true := by
      intro v
      simp [Tbl.nameCube]
    refine ⟨?_, ?_, ?_, ?_⟩
    · intro σ hσ
      apply cfrc
      intro p hp
      have := hσ (t.nameOf p.1, p.2) (List.mem_append_right _ (List.mem_map.mpr ⟨p, hp, rfl⟩))
      exact this
    · intro v hvc
      rw [hkeys, List.mem_append]
      by_cases hin : (t.nameCube c).any (·.1 = v) = true
      · exact Or.inr ((hcube_key v).mpr hin)
      · left
        rw [List.mem_filter]
        have hin' : (t.nameCube c).any (·.1 = v) = false := Bool.eq_false_iff.mpr hin
        exact ⟨mem_dedup.mpr hvc, by rw [hin']; rfl⟩
    · rw [hkeys, List.nodup_append]
      refine ⟨(nodup_dedup _).sublist List.filter_sublist, ?_, ?_⟩
      · -- names of distinct levels are distinct
        rw [List.Nodup, List.pairwise_map]
        refine List.Pairwise.imp_of_mem ?_ cnd
        intro i j hi' hj' hne he
        obtain ⟨p, hp, rfl⟩ := List.mem_map.mp hi'
        obtain ⟨q, hq, rfl⟩ := List.mem_map.mp hj'
        exact hne (hv.inj _ _ (hk c hc' p hp) (hk c hc' q hq) he)
      · intro a ha b hb hab
        subst hab
        rw [List.mem_filter] at ha
        have := (hcube_key a).mp hb
        rw [this] at ha
        simp at ha
    · intro hnone v
      subst hnone
      simp only [Option.getD_none] at hkeys
      rw [hkeys, List.mem_append]
      constructor
      · rintro (h | h)
        · exact mem_dedup.mp (List.mem_filter.mp h).1
        · obtain ⟨i, hi', rfl⟩ := List.mem_map.mp h
          obtain ⟨p, hp, rfl⟩ := List.mem_map.mp hi'
          apply List.mem_map.mpr ⟨p.1, ?_, rfl⟩
          rcases cdep p hp with h | h
          · simp at h
          · exact (hls _).mpr h
      · intro hvs
        by_cases hin : (t.nameCube c).any (·.1 = v) = true
        · exact Or.inr ((hcube_key v).mpr hin)
        · left
          rw [List.mem_filter]
          have hin' : (t.nameCube c).any (·.1 = v) = false := Bool.eq_false_iff.mpr hin
          exact ⟨mem_dedup.mpr hvs, by rw [hin']; rfl⟩
  · rw [List.pairwise_flatMap]
    constructor
    · intro cN _
      unfold minterms
      apply List.Pairwise.map _ _ (allAssignments_pairwise _)
      rintro x y ⟨i, b, h1, h2⟩
      exact ⟨i, b, List.mem_append_left _ h1, List.mem_append_left _ h2⟩
    · rw [List.pairwise_map]
      refine hpw.imp ?_
      rintro c1 c2 ⟨i, b, h1, h2⟩ x hx y hy
      obtain ⟨x', _, rfl⟩ := List.mem_map.mp hx
      obtain ⟨y', _, rfl⟩ := List.mem_map.mp hy
      exact ⟨t.nameOf i, b, List.mem_append_right _ (List.mem_map.mpr ⟨(i, b), h1, rfl⟩),
        List.mem_append_right _ (List.mem_map.mpr ⟨(i, !b), h2, rfl⟩)⟩
  · intro σ hσ
    obtain ⟨c, hc', hac⟩ := hcov (t.lift σ) (by intro p hp; simp at hp) hσ
    refine ⟨_, List.mem_flatMap.mpr ⟨t.nameCube c, List.mem_map.mpr ⟨c, hc', rfl⟩,
      List.mem_map.mpr ⟨_, allAssignments_complete σ _, rfl⟩⟩, ?_⟩
    intro p hp
    rcases List.mem_append.mp hp with hp | hp
    · obtain ⟨v, _, rfl⟩ := List.mem_map.mp hp
      rfl
    · obtain ⟨q, hq, rfl⟩ := List.mem_map.mp hp
      exact hac q hq

end DD

namespace DD

/-- every model is covered by exactly one yielded assignment -/
theorem pickIter_unique {L : List (List (String × Bool))} (hpw : L.Pairwise Incompat)
    {σ : AsgN} {m m' : List (String × Bool)} (hm : m ∈ L) (hm' : m' ∈ L)
    (h : AgreesN σ m) (h' : AgreesN σ m') : m' = m := by
  apply Classical.byContradiction
  intro hne
  exact AgreesN.not_incompat h' h (pairwise_symm_mem (fun _ _ => Incompat.symm) hpw hm' hm hne)

theorem minterms_ne_nil (care : List String) (cube : List (String × Bool)) : minterms care cube ≠ [] := by
  unfold minterms
  intro h
  have := congrArg List.length h
  simp only [List.length_map, allAssignments_length, List.length_nil] at this
  have : 0 < 2 ^ ((dedup care).filter fun b => !(cube.any (·.1 = b))).length := Nat.pow_pos (by omega)
  omega

/-- `pick_iter` yields nothing exactly for the reference `-1` (so `pick` returns `None`
exactly for `false`) -/
theorem pickIter_nil_iff {t : Tbl} (hw : WFU t) (hv : VarsOK t) (u : Int) (hm : t.Mem u)
    (care : Option (List String)) :
    ∃ L, pickIter t u care = .ok L ∧ (L = [] ↔ u = -1) := by
  have hW := hw.toWF
  obtain ⟨ls, _, _, hls, hs⟩ := support_spec' hw hv u hm
  obtain ⟨cubes, hc, hi, hcov, _⟩ := satIterF_spec hw (t.nvars + 2) u [] true hm (by omega)
    (by simp) (by simp)
  have hk : ∀ c ∈ cubes, ∀ p ∈ c, p.1 < t.nvars := by
    intro c hc' p hp
    rcases (hi c hc').2.2.1 p hp with h | h
    · simp at h
    · exact dependsOn_lt_nvars hw hm h
  refine ⟨_, pickIter_eq hw hv u hm care _ hs cubes hc hk, ?_⟩
  constructor
  · intro hnil
    have hcn : cubes = [] := by
      cases cubes with
      | nil => rfl
      | cons c rest =>
        exfalso
        simp only [List.map_cons, List.flatMap_cons, List.append_eq_nil_iff] at hnil
        exact minterms_ne_nil _ _ hnil.1
    subst hcn
    apply (canonical t hw u (-1) hm (Or.inl rfl)).mp
    intro a
    rw [den_neg_one]
    cases hd : den t u a
    · rfl
    · obtain ⟨c, hc', _⟩ := hcov a (by intro p hp; simp at hp) hd
      simp at hc'
  · intro hu
    subst hu
    have : satIterF (t.nvars + 2) t (-1) [] true = .ok [] := by simp [satIterF]
    rw [this] at hc; cases hc
    rfl

end DD
