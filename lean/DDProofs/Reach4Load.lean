/-
  DDProofs.Reach4Load — `BDD.load(file, levels)` (pickle) on ANY content, as a step of a history.

  The loader has two phases.  (1) `loadVars` declares the variables of the file with `add_var`;
  with `levels=False` they are appended below the existing ones, with `levels=True` at the level
  the file says — and then `add_var`'s undocumented obligation applies (no gap, finding F7):
  `loadVarsGuard` asks for it at each of these calls.  (2) `loadAll` rebuilds the nodes with
  `find_or_add(j, -1, 1)` and the undecorated `_ite`, outside any reordering context: whatever the
  content (dangling successors, cycles cut by the recursion limit, levels that are not in the
  file's table …) only nodes are added and the counts stay exact for the same ledger (`StepK`).
  A load that RAISES — in either phase — leaves such a state as well.
-/
import DD.Dump
import DDProofs.Reach3
import DDProofs.DumpProofs
open Std

namespace DD

/-! ### phase 2: the nodes -/

/-- outcome of a part of the loader: only nodes were added (counts exact for the same ledger),
and the answer is not the internal signal -/
def LoadOut {α : Type} (m : Mgr) (res : Except Err α × Mgr) : Prop :=
  StepK m res.2 ∧ res.1 ≠ .error .needsReordering

theorem LoadOut.same {α : Type} {m : Mgr} (hI : Inv m) (r : Except Err α)
    (hr : r ≠ .error .needsReordering) : LoadOut m (r, m) := ⟨StepK.refl hI, hr⟩

theorem LoadOut.trans {α : Type} {m m1 : Mgr} {res : Except Err α × Mgr} (hs : StepK m m1)
    (h : LoadOut m1 res) : LoadOut m res := ⟨hs.trans h.1, h.2⟩

/-- outside a reordering context a `TotE` outcome never is the signal -/
theorem LoadOut.of_totE {α : Type} {m : Mgr} {res : Except Err α × Mgr} (h : TotE m res)
    (hc : m.ctx = false) : LoadOut m res :=
  ⟨h.1, fun he => by have := (h.2 he).1; rw [hc] at this; cases this⟩

theorem LoadOut.reErr {α β : Type} {m m' : Mgr} {e : Err}
    (h : LoadOut m ((.error e, m') : Except Err α × Mgr)) :
    LoadOut m ((.error e, m') : Except Err β × Mgr) :=
  ⟨h.1, fun he => h.2 (by cases he; rfl)⟩

theorem iteRaw_loadOut (m : Mgr) (hI : Inv m) (hc : m.ctx = false) (g u v : Int) :
    LoadOut m (iteRaw g u v m) := LoadOut.of_totE (iteRaw_totE m hI g u v) hc

theorem varNode_loadOut (m : Mgr) (hI : Inv m) (hc : m.ctx = false) (j : Nat) :
    LoadOut m (findOrAdd (j : Int) (-1) 1 m) := LoadOut.of_totE (varNode_totE m hI j) hc

/-- `_load(u, succ, umap, level_map)` on ANY table of the file, any fuel -/
theorem loadNodeF_loadOut (succ : List PEntry) (lm : List (Nat × Nat)) :
    ∀ (fuel : Nat) (u : Int) (umap : TreeMap Int Int) (m : Mgr), Inv m → m.ctx = false →
      LoadOut m (loadNodeF succ lm fuel u umap m) := by
  intro fuel
  induction fuel with
  | zero => intro u umap m hI _; exact LoadOut.same hI _ (by simp)
  | succ f ih =>
    intro u umap m hI hc
    simp only [loadNodeF]
    split
    · exact LoadOut.same hI _ (by simp)
    split
    · split
      · exact LoadOut.same hI _ (by simp)
      · split <;> exact LoadOut.same hI _ (by simp)
    split
    · exact LoadOut.same hI _ (by simp)
    split
    · exact LoadOut.same hI _ (by simp)
    split
    · -- both children
      rename_i _ _ _ j _ _ _ v w _ _
      have k1 := ih v umap m hI hc
      cases h1 : loadNodeF succ lm f v umap m with
      | mk r1 m1 =>
        rw [h1] at k1
        cases r1 with
        | error e => exact k1.reErr
        | ok pr =>
          obtain ⟨p, umap1⟩ := pr
          dsimp only
          have c1 : m1.ctx = false := by rw [k1.1.frame.ctx]; exact hc
          have k2 := ih w umap1 m1 k1.1.inv c1
          cases h2 : loadNodeF succ lm f w umap1 m1 with
          | mk r2 m2 =>
            rw [h2] at k2
            cases r2 with
            | error e => exact LoadOut.trans k1.1 k2.reErr
            | ok qr =>
              obtain ⟨q, umap2⟩ := qr
              dsimp only
              have c2 : m2.ctx = false := by rw [k2.1.frame.ctx]; exact c1
              have k3 := varNode_loadOut m2 k2.1.inv c2 j
              cases h3 : findOrAdd (j : Int) (-1) 1 m2 with
              | mk r3 m3 =>
                rw [h3] at k3
                cases r3 with
                | error e => exact LoadOut.trans (k1.1.trans k2.1) k3.reErr
                | ok g =>
                  dsimp only
                  have c3 : m3.ctx = false := by rw [k3.1.frame.ctx]; exact c2
                  have k4 := iteRaw_loadOut m3 k3.1.inv c3 g q p
                  cases h4 : iteRaw g q p m3 with
                  | mk r4 m4 =>
                    rw [h4] at k4
                    have K : StepK m m4 := ((k1.1.trans k2.1).trans k3.1).trans k4.1
                    cases r4 with
                    | error e => exact ⟨K, fun he => k4.2 (by cases he; rfl)⟩
                    | ok r =>
                      dsimp only
                      split
                      · exact ⟨K, by simp⟩
                      · exact ⟨K, by simp⟩
    · exact LoadOut.same hI _ (by simp)
    · rename_i v _ _
      have k1 := ih v umap m hI hc
      cases h1 : loadNodeF succ lm f v umap m with
      | mk r1 m1 =>
        rw [h1] at k1
        cases r1 with
        | error e => exact k1.reErr
        | ok pr => exact ⟨k1.1, by simp⟩

theorem loadAll_loadOut (succ : List PEntry) (lm : List (Nat × Nat)) (fuel : Nat) :
    ∀ (es : List PEntry) (umap : TreeMap Int Int) (m : Mgr), Inv m → m.ctx = false →
      LoadOut m (loadAll succ lm fuel es umap m) := by
  intro es
  induction es with
  | nil => intro umap m hI _; exact LoadOut.same hI _ (by simp)
  | cons e rest ih =>
    intro umap m hI hc
    simp only [loadAll]
    split
    · exact ih umap m hI hc
    · have k1 := loadNodeF_loadOut succ lm fuel (e.id : Int) umap m hI hc
      cases h1 : loadNodeF succ lm fuel (e.id : Int) umap m with
      | mk r1 m1 =>
        rw [h1] at k1
        cases r1 with
        | error er => exact k1.reErr
        | ok pr =>
          dsimp only
          exact LoadOut.trans k1.1 (ih pr.2 m1 k1.1.inv (by rw [k1.1.frame.ctx]; exact hc))

/-! ### phase 1: the variables -/

/-- the obligation of `add_var(name, level)` (no level gap, F7) at each declaration that
`load(…, levels=True)` makes; nothing for `levels=False` -/
def loadVarsGuard (levels : Bool) (n : Nat) : List (String × Nat) → Mgr → Bool
  | [], _ => true
  | (var, i) :: rest, m =>
    if ¬ i < n then true else
    (!levels || m.tbl.vars.contains var || decide ((i : Int) ≤ (m.nvars : Int))) &&
    match addVar var (if levels then some (i : Int) else none) m with
    | (.error _, _) => true
    | (.ok _, m1) => loadVarsGuard levels n rest m1

theorem loadVarsGuard_false (n : Nat) : ∀ (vs : List (String × Nat)) (m : Mgr),
    loadVarsGuard false n vs m = true := by
  intro vs
  induction vs with
  | nil => intro m; rfl
  | cons x rest ih =>
    intro m
    obtain ⟨var, i⟩ := x
    unfold loadVarsGuard
    split
    · rfl
    · simp only [Bool.not_false, Bool.true_or, Bool.true_and]
      split
      · rfl
      · exact ih _

theorem Held2.trans {ext : Nat → Nat} {a b c : Mgr} (h1 : Held2 ext a b) (h2 : Held2 ext b c) :
    Held2 ext a c := fun u hu =>
  ⟨(h2 u hu).1, fun σ => ((h2 u hu).2 σ).trans ((h1 u hu).2 σ)⟩

theorem Held2.refl {ext : Nat → Nat} {m : Mgr} (h : Good3 m ext) : Held2 ext m m :=
  fun u hu => ⟨h.exact.mem_of_ext_pos hu, fun _ => rfl⟩

/-- what a phase of the loader establishes -/
structure LoadStep (m : Mgr) (ext : Nat → Nat) {α : Type} (res : Except Err α × Mgr) : Prop where
  good : Good3 res.2 ext
  held : Held2 ext m res.2
  lastLen : res.2.lastLen = m.lastLen
  noSignal : res.1 ≠ .error .needsReordering
  /-- declared variables stay declared, at their level -/
  vars : ∀ (v : String) (i : Nat), m.tbl.vars[v]? = some i → res.2.tbl.vars[v]? = some i

theorem loadVars_step (ext : Nat → Nat) (levels : Bool) (n : Nat) :
    ∀ (vs : List (String × Nat)) (lm : List (Nat × Nat)) (m : Mgr), Good3 m ext →
      loadVarsGuard levels n vs m = true → LoadStep m ext (loadVars levels n vs lm m) := by
  intro vs
  induction vs with
  | nil => intro lm m h _; exact ⟨h, Held2.refl h, rfl, by simp [loadVars], fun _ _ hv => hv⟩
  | cons x rest ih =>
    intro lm m h hg
    obtain ⟨var, i⟩ := x
    unfold loadVarsGuard at hg
    simp only [loadVars]
    by_cases hi : i < n
    · simp only [hi, not_true_eq_false, if_false, Bool.and_eq_true, Bool.or_eq_true,
        Bool.not_eq_true', decide_eq_true_eq] at hg ⊢
      obtain ⟨hgap, hrest⟩ := hg
      have hguard : ∀ l : Int, (if levels = true then some (i : Int) else none) = some l →
          m.tbl.vars[var]? = none → l ≤ (m.nvars : Int) := by
        intro l hl hnew
        rcases hgap with (hlev | hdecl) | hle
        · rw [hlev] at hl; simp at hl
        · rw [TreeMap.contains_eq_isSome_getElem?, hnew] at hdecl; cases hdecl
        · cases levels with
          | false => simp at hl
          | true => simp at hl; rw [← hl]; exact hle
      have hs := declare_step3 m ext h var (if levels = true then some (i : Int) else none) hguard
      have hvars : ∀ (v : String) (k : Nat), m.tbl.vars[v]? = some k →
          (addVar var (if levels = true then some (i : Int) else none) m).2.tbl.vars[v]? = some k := by
        intro v k hv
        rcases addVar_cases m h.order var _ hguard with he | ⟨hnew, he⟩
        · rw [he]; exact hv
        · rw [he]
          exact (addVar_new_spec m h.inv h.order var hnew _ rfl).2.2.2.2.1 v k hv
      cases h1 : addVar var (if levels = true then some (i : Int) else none) m with
      | mk r1 m1 =>
        rw [h1] at hrest hvars
        have hs' : Step3 m ext ext ((mapRes Res.lvl (r1, m1))) := by rw [← h1]; exact hs
        have hl1 : m1.lastLen = m.lastLen := by
          have := addVar_frame2 m ext h.inv h.order h.exact var _ hguard
          rcases addVar_cases m h.order var _ hguard with he | ⟨-, he⟩
          · rw [h1] at he; simp only at he; rw [he]
          · rw [h1] at he; cases he; rfl
        cases r1 with
        | error e =>
          exact ⟨hs'.good, hs'.held, hl1, fun he => hs'.noSignal (by cases he; rfl), hvars⟩
        | ok j =>
          simp only at hrest
          have hr := ih ((i, j) :: lm) m1 hs'.good hrest
          exact ⟨hr.good, Held2.trans hs'.held hr.held, hr.lastLen.trans hl1, hr.noSignal,
            fun v k hv => hr.vars v k (hvars v k hv)⟩
    · simp only [hi, not_false_eq_true, if_true]
      exact ⟨h, Held2.refl h, rfl, by simp, fun _ _ hv => hv⟩

/-! ### the whole call -/

/-- the documented-by-finding obligation of `load`: none for `levels=False`; for `levels=True`
the no-gap obligation of each `add_var` it makes -/
def loadGuard (f : PickleFile) (levels : Bool) (m : Mgr) : Bool :=
  loadVarsGuard levels f.vars.length f.vars m

theorem loadGuard_false (f : PickleFile) (m : Mgr) : loadGuard f false m = true :=
  loadVarsGuard_false _ _ _

theorem exceptMap_noSignal {α β : Type} (g : α → β) {x : Except Err α}
    (h : x ≠ .error .needsReordering) : x.map g ≠ .error .needsReordering := by
  cases x with
  | error e => intro he; exact h (by simp only [Except.map] at he; cases he; rfl)
  | ok a => simp [Except.map]

theorem Roots.mapE_noSignal {f : Int → Except Err Int} (hf : ∀ u, f u ≠ .error .needsReordering)
    (r : Roots) : r.mapE f ≠ .error .needsReordering := by
  cases r with
  | none => simp [Roots.mapE]
  | list l => exact exceptMap_noSignal _ (except_mapM_noNR f hf l)
  | dict d =>
    exact exceptMap_noSignal _ (except_mapM_noNR _ (fun kv => exceptMap_noSignal _ (hf kv.2)) d)

theorem mapRoots_noSignal (umap : TreeMap Int Int) (r : Roots) :
    mapRoots umap r ≠ .error .needsReordering := by
  have hn : ∀ u, mapNode umap u ≠ .error .needsReordering := by
    intro u
    unfold mapNode
    split
    · simp
    · split <;> simp
  intro he
  unfold mapRoots at he
  split at he
  · cases he
  · exact Roots.mapE_noSignal hn _ he

/-- **`BDD.load(file, levels)`, ANY content**: returning or raising, the state is good for the
same ledger, every held reference keeps its function by name, the switch is untouched, the
declared variables keep their levels, the internal signal is not raised -/
theorem loadPickle_step (ext : Nat → Nat) (f : PickleFile) (levels : Bool) (m : Mgr) (h : Good3 m ext)
    (hg : loadGuard f levels m = true) : LoadStep m ext (loadPickle f levels m) := by
  unfold loadPickle
  have hrefuse : LoadStep m ext ((.error .value, m) : Except Err Roots × Mgr) :=
    ⟨h, Held2.refl h, rfl, (fun he => by cases he), fun _ _ hv => hv⟩
  split
  · exact hrefuse
  split
  · exact hrefuse
  have k1 := loadVars_step ext levels f.vars.length f.vars [] m h hg
  cases h1 : loadVars levels f.vars.length f.vars [] m with
  | mk r1 m1 =>
    rw [h1] at k1
    cases r1 with
    | error e => exact ⟨k1.good, k1.held, k1.lastLen, fun he => k1.noSignal (by cases he; rfl), k1.vars⟩
    | ok lm =>
      dsimp only
      have k2 := loadAll_loadOut f.succ lm (f.vars.length + f.succ.length + 2) f.succ {} m1
        k1.good.inv k1.good.ctx
      cases h2 : loadAll f.succ lm (f.vars.length + f.succ.length + 2) f.succ {} m1 with
      | mk r2 m2 =>
        rw [h2] at k2
        have hG2 : Good3 m2 ext := k1.good.stepK k2.1
        have hH2 : Held2 ext m m2 := Held2.trans k1.held (held2_of_stepK k1.good k2.1)
        have hl2 : m2.lastLen = m.lastLen := k2.1.frame.lastLen.trans k1.lastLen
        have hv2 : ∀ (v : String) (i : Nat), m.tbl.vars[v]? = some i → m2.tbl.vars[v]? = some i := by
          intro v i hv
          have : m2.tbl.vars = m1.tbl.vars := k2.1.frame.vars
          rw [this]; exact k1.vars v i hv
        cases r2 with
        | error e => exact ⟨hG2, hH2, hl2, fun he => k2.2 (by cases he; rfl), hv2⟩
        | ok umap => exact ⟨hG2, hH2, hl2, mapRoots_noSignal umap f.roots, hv2⟩

end DD
