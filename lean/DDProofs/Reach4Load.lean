/-
  DDProofs.Reach4Load — `BDD.load(file, levels)` (pickle) on ANY content, as a step of a history.

  The loader has two phases.  (1) `loadVars` declares the variables of the file with `add_var`;
  with `levels=False` they are appended below the existing ones, with `levels=True` at the level
  the file says — after the two pre-checks of `_load_pickle`, which make the order gap-free again
  when the loop ends (DDProofs.LoadVarsOrder; the only hypothesis is that `vars` is a dict:
  distinct names, `loadGuard`).  (2) `loadAll` rebuilds the nodes with
  `find_or_add(j, -1, 1)` and the undecorated `_ite`, outside any reordering context: whatever the
  content (dangling successors, cycles cut by the recursion limit, levels that are not in the
  file's table …) only nodes are added and the counts stay exact for the same ledger (`StepK`).
  A load that RAISES — in either phase — leaves such a state as well.
-/
import DD.Dump
import DDProofs.Reach3
import DDProofs.DumpProofs
import DDProofs.LoadRejected
open Std

namespace DD

/-! ### phase 2: the nodes -/

/-- outcome of a part of the loader: only nodes were added (counts exact for the same ledger),
and the answer is not the internal signal -/
def LoadOut {α : Type} (m : Mgr) (res : Except Err α × Mgr) : Prop :=
  StepK m res.2 ∧ res.1 ≠ .error .needsReordering

theorem LoadOut.same {α : Type} {m : Mgr} (hI : Inv m) (r : Except Err α)
    (hr : r ≠ .error .needsReordering) : LoadOut m (r, m) := ⟨StepK.refl hI, hr⟩

theorem LoadOut.trans {α : Type} {m m1 : Mgr} {res : Except Err α × Mgr} (hs : StepK m m1)
    (h : LoadOut m1 res) : LoadOut m res := ⟨hs.trans h.1, h.2⟩

/-- outside a reordering context a `TotE` outcome never is the signal -/
theorem LoadOut.of_totE {α : Type} {m : Mgr} {res : Except Err α × Mgr} (h : TotE m res)
    (hc : m.ctx = false) : LoadOut m res :=
  ⟨h.1, fun he => by have := (h.2 he).1; rw [hc] at this; cases this⟩

theorem LoadOut.reErr {α β : Type} {m m' : Mgr} {e : Err}
    (h : LoadOut m ((.error e, m') : Except Err α × Mgr)) :
    LoadOut m ((.error e, m') : Except Err β × Mgr) :=
  ⟨h.1, fun he => h.2 (by cases he; rfl)⟩

theorem iteRaw_loadOut (m : Mgr) (hI : Inv m) (hc : m.ctx = false) (g u v : Int) :
    LoadOut m (iteRaw g u v m) := LoadOut.of_totE (iteRaw_totE m hI g u v) hc

theorem varNode_loadOut (m : Mgr) (hI : Inv m) (hc : m.ctx = false) (j : Nat) :
    LoadOut m (findOrAdd (j : Int) (-1) 1 m) := LoadOut.of_totE (varNode_totE m hI j) hc

/-- `_load(u, succ, umap, level_map)` on ANY table of the file, any fuel -/
theorem loadNodeF_loadOut (succ : List PEntry) (lm : List (Nat × Nat)) :
    ∀ (fuel : Nat) (u : Int) (umap : TreeMap Int Int) (m : Mgr), Inv m → m.ctx = false →
      LoadOut m (loadNodeF succ lm fuel u umap m) := by
  intro fuel
  induction fuel with
  | zero => intro u umap m hI _; exact LoadOut.same hI _ (by simp)
  | succ f ih =>
    intro u umap m hI hc
    simp only [loadNodeF]
    split
    · exact LoadOut.same hI _ (by simp)
    split
    · split
      · exact LoadOut.same hI _ (by simp)
      · split <;> exact LoadOut.same hI _ (by simp)
    split
    · exact LoadOut.same hI _ (by simp)
    split
    · exact LoadOut.same hI _ (by simp)
    split
    · -- both children
      rename_i _ _ _ j _ _ _ v w _ _
      have k1 := ih v umap m hI hc
      cases h1 : loadNodeF succ lm f v umap m with
      | mk r1 m1 =>
        rw [h1] at k1
        cases r1 with
        | error e => exact k1.reErr
        | ok pr =>
          obtain ⟨p, umap1⟩ := pr
          dsimp only
          have c1 : m1.ctx = false := by rw [k1.1.frame.ctx]; exact hc
          have k2 := ih w umap1 m1 k1.1.inv c1
          cases h2 : loadNodeF succ lm f w umap1 m1 with
          | mk r2 m2 =>
            rw [h2] at k2
            cases r2 with
            | error e => exact LoadOut.trans k1.1 k2.reErr
            | ok qr =>
              obtain ⟨q, umap2⟩ := qr
              dsimp only
              have c2 : m2.ctx = false := by rw [k2.1.frame.ctx]; exact c1
              have k3 := varNode_loadOut m2 k2.1.inv c2 j
              cases h3 : findOrAdd (j : Int) (-1) 1 m2 with
              | mk r3 m3 =>
                rw [h3] at k3
                cases r3 with
                | error e => exact LoadOut.trans (k1.1.trans k2.1) k3.reErr
                | ok g =>
                  dsimp only
                  have c3 : m3.ctx = false := by rw [k3.1.frame.ctx]; exact c2
                  have k4 := iteRaw_loadOut m3 k3.1.inv c3 g q p
                  cases h4 : iteRaw g q p m3 with
                  | mk r4 m4 =>
                    rw [h4] at k4
                    have K : StepK m m4 := ((k1.1.trans k2.1).trans k3.1).trans k4.1
                    cases r4 with
                    | error e => exact ⟨K, fun he => k4.2 (by cases he; rfl)⟩
                    | ok r =>
                      dsimp only
                      split
                      · exact ⟨K, by simp⟩
                      · exact ⟨K, by simp⟩
    · exact LoadOut.same hI _ (by simp)
    · rename_i v _ _
      have k1 := ih v umap m hI hc
      cases h1 : loadNodeF succ lm f v umap m with
      | mk r1 m1 =>
        rw [h1] at k1
        cases r1 with
        | error e => exact k1.reErr
        | ok pr => exact ⟨k1.1, by simp⟩

theorem loadAll_loadOut (succ : List PEntry) (lm : List (Nat × Nat)) (fuel : Nat) :
    ∀ (es : List PEntry) (umap : TreeMap Int Int) (m : Mgr), Inv m → m.ctx = false →
      LoadOut m (loadAll succ lm fuel es umap m) := by
  intro es
  induction es with
  | nil => intro umap m hI _; exact LoadOut.same hI _ (by simp)
  | cons e rest ih =>
    intro umap m hI hc
    simp only [loadAll]
    split
    · exact ih umap m hI hc
    · have k1 := loadNodeF_loadOut succ lm fuel (e.id : Int) umap m hI hc
      cases h1 : loadNodeF succ lm fuel (e.id : Int) umap m with
      | mk r1 m1 =>
        rw [h1] at k1
        cases r1 with
        | error er => exact k1.reErr
        | ok pr =>
          dsimp only
          exact LoadOut.trans k1.1 (ih pr.2 m1 k1.1.inv (by rw [k1.1.frame.ctx]; exact hc))

/-! ### phase 1: the variables -/

theorem Held2.trans {ext : Nat → Nat} {a b c : Mgr} (h1 : Held2 ext a b) (h2 : Held2 ext b c) :
    Held2 ext a c := fun u hu =>
  ⟨(h2 u hu).1, fun σ => ((h2 u hu).2 σ).trans ((h1 u hu).2 σ)⟩

theorem Held2.refl {ext : Nat → Nat} {m : Mgr} (h : Good3 m ext) : Held2 ext m m :=
  fun u hu => ⟨h.exact.mem_of_ext_pos hu, fun _ => rfl⟩

/-- what a load establishes -/
structure LoadStep (m : Mgr) (ext : Nat → Nat) {α : Type} (res : Except Err α × Mgr) : Prop where
  good : Good3 res.2 ext
  held : Held2 ext m res.2
  lastLen : res.2.lastLen = m.lastLen
  noSignal : res.1 ≠ .error .needsReordering
  /-- declared variables stay declared, at their level -/
  vars : ∀ (v : String) (i : Nat), m.tbl.vars[v]? = some i → res.2.tbl.vars[v]? = some i

/-- a step that may DECLARE variables (at any free level) and add nodes keeps the meaning by NAME
of every node: the old levels keep their names -/
theorem denN_of_keptV {m m' : Mgr} (hI : Inv m) (hO : OrderOK m.tbl) (hO' : OrderOK m'.tbl)
    (k : KeptV m m') (u : Int) (hu : m.tbl.Mem u) (σ : AsgN) : denN m'.tbl u σ = denN m.tbl u σ := by
  unfold denN
  rw [k.den u hu]
  apply den_agree_ge m.tbl hI.wf.toWF u hu
  intro i _ hi
  unfold Tbl.lift Tbl.nameOf
  obtain ⟨v, hv⟩ := hO.total i hi
  have h1 : m.tbl.vars[v]? = some i := (hO.inv v i).mpr hv
  rw [hv, (hO'.inv v i).mp (k.vars v i h1)]

theorem loadVars_noSignal (levels : Bool) (n : Nat) :
    ∀ (vs : List (String × Nat)) (lm : List (Nat × Nat)) (m : Mgr),
      (loadVars levels n vs lm m).1 ≠ .error .needsReordering := by
  intro vs
  induction vs with
  | nil => intro lm m; simp [loadVars]
  | cons x rest ih =>
    intro lm m
    obtain ⟨var, i⟩ := x
    simp only [loadVars]
    split
    · simp
    · have hn := addVar_noSignal m var (if levels = true then some (i : Int) else none)
      cases h1 : addVar var (if levels = true then some (i : Int) else none) m with
      | mk r1 m1 =>
        rw [h1] at hn
        cases r1 with
        | error e => exact fun he => hn (by cases he; rfl)
        | ok j => exact ih _ m1

/-! ### the whole call -/

/-- the only hypothesis on the file: with `levels=True`, `vars` is a dict — its names are pairwise
distinct (the model keeps the items of the dict as a list).  Nothing for `levels=False`.  The two
pre-checks of `_load_pickle` (the file's levels are a permutation of `0..n-1`; every pair agrees
with the manager) then make the declaration loop gap-free at its END (transient gaps inside the
call do not matter): DDProofs.LoadVarsOrder. -/
def loadGuard (f : PickleFile) (levels : Bool) (_m : Mgr) : Bool :=
  !levels || decide ((f.vars.map (·.1)).Nodup)

theorem loadGuard_false (f : PickleFile) (m : Mgr) : loadGuard f false m = true := rfl

theorem exceptMap_noSignal {α β : Type} (g : α → β) {x : Except Err α}
    (h : x ≠ .error .needsReordering) : x.map g ≠ .error .needsReordering := by
  cases x with
  | error e => intro he; exact h (by simp only [Except.map] at he; cases he; rfl)
  | ok a => simp [Except.map]

theorem Roots.mapE_noSignal {f : Int → Except Err Int} (hf : ∀ u, f u ≠ .error .needsReordering)
    (r : Roots) : r.mapE f ≠ .error .needsReordering := by
  cases r with
  | none => simp [Roots.mapE]
  | list l => exact exceptMap_noSignal _ (except_mapM_noNR f hf l)
  | dict d =>
    exact exceptMap_noSignal _ (except_mapM_noNR _ (fun kv => exceptMap_noSignal _ (hf kv.2)) d)

theorem mapRoots_noSignal (umap : TreeMap Int Int) (r : Roots) :
    mapRoots umap r ≠ .error .needsReordering := by
  have hn : ∀ u, mapNode umap u ≠ .error .needsReordering := by
    intro u
    unfold mapNode
    split
    · simp
    · split <;> simp
  intro he
  unfold mapRoots at he
  split at he
  · cases he
  · exact Roots.mapE_noSignal hn _ he

/-- the answer of `BDD.load` is never the internal signal -/
theorem loadPickle_noSignal (f : PickleFile) (levels : Bool) (m : Mgr) (hI : Inv m) (hc : m.ctx = false) :
    (loadPickle f levels m).1 ≠ .error .needsReordering := by
  rw [loadPickle_eq]
  split
  · simp
  split
  · simp
  unfold loadPickleBody
  have kv := (loadVars_keptV levels f.vars.length f.vars [] m hI).1
  have hn := loadVars_noSignal levels f.vars.length f.vars [] m
  cases h1 : loadVars levels f.vars.length f.vars [] m with
  | mk r1 m1 =>
    rw [h1] at kv hn
    cases r1 with
    | error e => exact fun he => hn (by cases he; rfl)
    | ok lm =>
      dsimp only
      have k2 := loadAll_loadOut f.succ lm (f.vars.length + f.succ.length + 2) f.succ {} m1
        kv.inv (by rw [kv.ctx]; exact hc)
      cases h2 : loadAll f.succ lm (f.vars.length + f.succ.length + 2) f.succ {} m1 with
      | mk r2 m2 =>
        rw [h2] at k2
        cases r2 with
        | error e => exact fun he => k2.2 (by cases he; rfl)
        | ok umap => exact mapRoots_noSignal umap f.roots

/-- **`BDD.load(file, levels)`, ANY content**: returning or raising, the state is good for the
same ledger, every held reference keeps its function by name, the switch is untouched, the
declared variables keep their levels, the internal signal is not raised -/
theorem loadPickle_step (ext : Nat → Nat) (f : PickleFile) (levels : Bool) (m : Mgr) (h : Good3 m ext)
    (hg : loadGuard f levels m = true) : LoadStep m ext (loadPickle f levels m) := by
  have hl := loadPickle_leaves f levels m h.inv h.ctx
  have hnd : levels = true → (f.vars.map (·.1)).Nodup := by
    intro hlv
    unfold loadGuard at hg
    rw [hlv] at hg
    simpa using hg
  have hO' := hl.order h.order hnd
  refine ⟨⟨hl.kept.inv, hO', hl.counts ext h.exact, hl.kept.ctx.trans h.ctx,
    hl.kept.sched.trans h.sched, hl.kept.roots.trans h.roots⟩, ?_, hl.kept.lastLen,
    loadPickle_noSignal f levels m h.inv h.ctx, hl.kept.vars⟩
  intro u hu
  have hmu := h.exact.mem_of_ext_pos hu
  exact ⟨hl.kept.mem hmu, fun σ => denN_of_keptV h.inv h.order hO' hl.kept u hmu σ⟩

end DD
