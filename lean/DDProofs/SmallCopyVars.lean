/-
  DDProofs.SmallCopyVars — `copy_vars` leaves the TARGET in a state with the full invariant
  (C11): declaring more variables (same node table) keeps `Inv`, every denotation and the exact
  counts; a target whose two order maps equal those of a source with a good order has a good
  order.
-/
import DDProofs.CopyVars
import DDProofs.Undeclare
import DDProofs.RefCount
open Std

namespace DD

theorem denF_more_fuel (t : Tbl) (hw : WF t) (u : Int) (a : Asg) (hu : t.Mem u) :
    ∀ d, denF t (t.nvars + 1 + d) u a = denF t (t.nvars + 1) u a := by
  intro d
  induction d with
  | zero => rfl
  | succ d ih =>
    rw [← ih]
    exact (denF_stable t hw (t.nvars + 1 + d) u a hu (by omega)).symm

/-- a manager with the same nodes, tables and counts but MORE declared variables (what a run of
`add_var` calls produces) keeps the invariant; every reference denotes what it denoted -/
theorem Inv.more_vars {m m' : Mgr} (hI : Inv m) (hs : m'.tbl.succ = m.tbl.succ)
    (hp : m'.pred = m.pred) (hr : m'.ref = m.ref) (hc : m'.cache = m.cache)
    (hf : m'.minFree = m.minFree) (hn : m.tbl.nvars ≤ m'.tbl.nvars) :
    Inv m' ∧ (∀ u, m.tbl.Mem u → m'.tbl.Mem u ∧ ∀ a, den m'.tbl u a = den m.tbl u a) := by
  have hW := hI.wf.toWF
  have hnode : ∀ k, m'.tbl.node? k = m.tbl.node? k := fun k => by simp [Tbl.node?, hs]
  have hmem : ∀ u, m'.tbl.Mem u ↔ m.tbl.Mem u := fun u => by simp [Tbl.Mem, hnode]
  obtain ⟨d, hd⟩ := Nat.exists_eq_add_of_le hn
  have hden : ∀ u, m.tbl.Mem u → ∀ a, den m'.tbl u a = den m.tbl u a := by
    intro u hu a
    unfold den
    rw [denF_succ_eq (t := m.tbl) (t' := m'.tbl) hs, hd]
    have := denF_more_fuel m.tbl hW u a hu d
    rw [show m.tbl.nvars + d + 1 = m.tbl.nvars + 1 + d by omega]
    exact this
  have hlvT : ∀ u : Int, u.natAbs = 1 → m.tbl.levelOf u = m.tbl.nvars := by
    intro u h1; simp [Tbl.levelOf, h1]
  have hlv : ∀ u : Int, m.tbl.levelOf u ≤ m'.tbl.levelOf u ∧
      (u.natAbs ≠ 1 → m.tbl.Mem u → m'.tbl.levelOf u = m.tbl.levelOf u) := by
    intro u
    unfold Tbl.levelOf
    by_cases h1 : u.natAbs = 1
    · simp only [h1, if_true]
      exact ⟨hn, fun h => absurd rfl h⟩
    · simp only [h1, if_false, hnode]
      cases hh : m.tbl.node? u.natAbs with
      | none =>
        refine ⟨by simpa using hn, fun _ hm => ?_⟩
        rcases hm with hm | hm
        · exact absurd hm h1
        · rw [hh] at hm; cases hm
      | some n => simp
  have hwf : WFU m'.tbl := by
    refine ⟨⟨?_, ?_, ?_, ?_, ?_, ?_, ?_, ?_⟩, ?_⟩
    · intro k n hk; rw [hnode] at hk; have := hW.lvl_lt _ _ hk; omega
    · intro k n hk; rw [hnode] at hk; exact (hmem _).mpr (hW.lo_mem _ _ hk)
    · intro k n hk; rw [hnode] at hk; exact (hmem _).mpr (hW.hi_mem _ _ hk)
    · intro k n hk; rw [hnode] at hk; have := hW.lo_lt _ _ hk; have := (hlv n.lo).1; omega
    · intro k n hk; rw [hnode] at hk; have := hW.hi_lt _ _ hk; have := (hlv n.hi).1; omega
    · intro k n hk; rw [hnode] at hk; exact hW.ge_two _ _ hk
    · intro k n hk; rw [hnode] at hk; exact hW.hi_pos _ _ hk
    · intro k n hk; rw [hnode] at hk; exact hW.lo_ne_hi _ _ hk
    · intro k k' n hk hk'; rw [hnode] at hk hk'; exact hI.wf.unique _ _ _ hk hk'
  refine ⟨⟨hwf, ?_, by rw [hf]; exact hI.freeGe, by rw [hf, hnode]; exact hI.free,
    by rw [hr]; exact hI.refOne, ?_, ?_⟩, fun u hu => ⟨(hmem u).mpr hu, hden u hu⟩⟩
  · intro n u; rw [hp, hnode]; exact hI.pred n u
  · intro u n hk; rw [hnode] at hk; rw [hr]; exact hI.refDom u n hk
  · intro g u v w hc'
    rw [hc] at hc'
    have he := hI.cache g u v w hc'
    refine ⟨he.gnt, (hmem _).mpr he.mg, (hmem _).mpr he.mu, (hmem _).mpr he.mv, (hmem _).mpr he.mw, ?_, ?_⟩
    · have hg := (hlv g).2 he.gnt he.mg
      have hgl : m.tbl.levelOf g < m.tbl.nvars := by
        rcases he.mg with h | h
        · exact absurd h he.gnt
        · obtain ⟨n, hnn⟩ := Option.isSome_iff_exists.mp h
          have : m.tbl.levelOf g = n.lvl := by simp [Tbl.levelOf, he.gnt, hnn]
          rw [this]; exact hW.lvl_lt _ _ hnn
      have hl := he.lvl
      have h3 := (hlv w).1
      have hu' : m'.tbl.levelOf u = m.tbl.levelOf u ∨ m.tbl.levelOf u = m.tbl.nvars := by
        by_cases c : u.natAbs = 1
        · right; exact hlvT u c
        · left; exact (hlv u).2 c he.mu
      have hv' : m'.tbl.levelOf v = m.tbl.levelOf v ∨ m.tbl.levelOf v = m.tbl.nvars := by
        by_cases c : v.natAbs = 1
        · right; exact hlvT v c
        · left; exact (hlv v).2 c he.mv
      have h1 := (hlv u).1
      have h2 := (hlv v).1
      omega
    · intro a
      rw [hden w he.mw, hden g he.mg, hden u he.mu, hden v he.mv]; exact he.den a

/-- exact counts only read the node table and `ref` -/
theorem RefExact.same_nodes {m m' : Mgr} {ext : Nat → Nat} (h : RefExact m ext)
    (hs : m'.tbl.succ = m.tbl.succ) (hr : m'.ref = m.ref) : RefExact m' ext := by
  have hnode : ∀ k, m'.tbl.node? k = m.tbl.node? k := fun k => by simp [Tbl.node?, hs]
  refine ⟨?_, ?_, by rw [hr]; exact h.extZero⟩
  · intro u; rw [hr, hnode]; exact h.dom u
  · intro u c hc; rw [hr] at hc; rw [indeg_congr hnode]; exact h.cnt u c hc

/-- a table whose two order maps answer like those of a table with a good order has a good order
(and as many variables) -/
theorem OrderOK.of_lookups {src t : Tbl} (hO : OrderOK src)
    (hv : ∀ v : String, t.vars[v]? = src.vars[v]?) (hl : ∀ i : Nat, t.l2v[i]? = src.l2v[i]?) :
    OrderOK t ∧ t.nvars = src.nvars := by
  have hn : t.nvars = src.nvars := by
    unfold Tbl.nvars
    apply TreeMap_size_eq_of_bij
    · intro v i h; rw [hv] at h; exact hO.lt v i h
    · intro v w i h1 h2
      rw [hv] at h1 h2
      have a := (hO.inv v i).mp h1
      have b := (hO.inv w i).mp h2
      rw [a] at b; exact Option.some.inj b
    · intro i hi
      obtain ⟨v, h⟩ := hO.total i hi
      exact ⟨v, by rw [hv]; exact (hO.inv v i).mpr h⟩
  refine ⟨⟨?_, ?_, ?_⟩, hn⟩
  · intro v i; rw [hv, hl]; exact hO.inv v i
  · intro v i h; rw [hv] at h; rw [hn]; exact hO.lt v i h
  · intro i hi; rw [hn] at hi; rw [hl]; exact hO.total i hi

/-- a map all of whose entries are entries of another one is not larger -/
theorem treeMap_size_le_of_sub (t t' : TreeMap String Nat)
    (h : ∀ (v : String) (i : Nat), t[v]? = some i → t'[v]? = some i) : t.size ≤ t'.size := by
  rw [← TreeMap.length_keys, ← TreeMap.length_keys]
  apply List.Nodup.length_le_of_subset TreeMap.nodup_keys
  intro v hv
  rw [TreeMap.mem_keys, TreeMap.mem_iff_isSome_getElem?] at hv ⊢
  obtain ⟨i, hi⟩ := Option.isSome_iff_exists.mp hv
  rw [h v i hi]; rfl

/-- `copy_vars` on a target with the invariant: the target afterwards has the invariant, a good
order, as many variables as the source, the same exact counts, and every reference of the
target denotes what it denoted -/
theorem copyVarsCore_inv (src : Tbl) (hO : OrderOK src) (names : List String)
    (hperm : names.Perm src.vars.keys) (m : Mgr) (hc : VarsCompat src m.tbl) :
    ∃ m', copyVarsCore src names m = (.ok (), m') ∧
      OrderOK m'.tbl ∧ m'.tbl.nvars = src.nvars ∧ m.tbl.nvars ≤ m'.tbl.nvars ∧
      (Inv m → Inv m' ∧ ∀ u, m.tbl.Mem u → m'.tbl.Mem u ∧ ∀ a, den m'.tbl u a = den m.tbl u a) ∧
      (∀ ext, RefExact m ext → RefExact m' ext) := by
  obtain ⟨m', hrun, hv, hl, c1, c2, c3, c4, c5, -⟩ := copyVarsCore_spec src hO names hperm m hc
  obtain ⟨ho, hn⟩ := hO.of_lookups hv hl
  have hle : m.tbl.nvars ≤ m'.tbl.nvars := by
    unfold Tbl.nvars
    apply treeMap_size_le_of_sub
    intro v i h
    rw [hv]; exact hc.vars v i h
  exact ⟨m', hrun, ho, hn, hle, fun hI => hI.more_vars c1 c3 c2 c4 c5 hle,
    fun ext hr => hr.same_nodes c1 c2⟩

end DD
