/-
  DDProofs.DynCube — `BDD.cube(dvars)`: a loop of the decorated `var` and `apply('and', …)`
  inside the decorator.  The nested calls run inside the context, where the decorator is
  transparent and re-raises the reordering signal; the whole loop is abort-aware, and the
  decorated `cube` is an instance of the generic transparency theorem.
-/
import DDProofs.DynCopy
import DDProofs.QuantCor
open Std

namespace DD

/-- a decorated call NESTED in a context has the outcome of its body -/
theorem Outcome.nested {α} {f : M α} {m : Mgr} {P : α → Mgr → Prop} (hc : m.ctx = true)
    (h : Outcome m P (f m)) : Outcome m P (tryToReorder f m) := by
  rw [tryToReorder_nested f m hc]
  rcases h.cases with ⟨r, m1, he, hs, hp⟩ | ⟨m1, he, hs, ha⟩
  · rw [he]
    have h1 : m1.ctx = true := by rw [hs.frame.ctx]; exact hc
    show Outcome m P (.ok r, { m1 with ctx := true })
    rw [Mgr.setCtx_self m1 h1]
    exact ⟨hs, hp⟩
  · rw [he]
    have h1 : m1.ctx = true := by rw [hs.frame.ctx]; exact hc
    show Outcome m P (.error .needsReordering, { m1 with ctx := true })
    rw [Mgr.setCtx_self m1 h1]
    exact ⟨rfl, hs, ha⟩

/-- sequencing two abort-aware computations -/
theorem Outcome.bind {α β} {x : M α} {f : α → M β} {m : Mgr} {P : α → Mgr → Prop}
    {Q : β → Mgr → Prop} (hx : Outcome m P (x m))
    (hf : ∀ a m1, StepK m m1 → P a m1 → Outcome m1 (fun b m2 => StepK m m2 → Q b m2) (f a m1)) :
    Outcome m Q ((x >>= f) m) := by
  show Outcome m Q (M.bind' x f m)
  unfold M.bind'
  rcases hx.cases with ⟨a, m1, he, hs, hp⟩ | ⟨m1, he, hs, ha⟩
  · rw [he]
    simp only
    rcases (hf a m1 hs hp).cases with ⟨b, m2, he2, hs2, hq⟩ | ⟨m2, he2, hs2, ha2⟩
    · rw [he2]; exact ⟨hs.trans hs2, hq (hs.trans hs2)⟩
    · rw [he2]; exact Outcome.abort hs hs2 ha2
  · rw [he]; exact ⟨rfl, hs, ha⟩

/-- the decorated `var` nested in a context -/
theorem var_nested_out (m : Mgr) (hI : Inv m) (hc : m.ctx = true) (hO : OrderOK m.tbl)
    (name : String) (hdecl : m.tbl.vars.contains name = true) :
    Outcome m (fun g m' => m'.tbl.Mem g ∧ ∀ σ, denN m'.tbl g σ = σ name) (var name m) := by
  rw [var_eq_dynVarBody]
  apply Outcome.nested hc
  obtain ⟨j, hj⟩ := (vars_contains_iff m.tbl name).mp hdecl
  have hb : dynVarBody name m = findOrAdd (j : Int) (-1) 1 m := by
    simp [dynVarBody, bind, M.bind', M.get, hj]
  rw [hb]
  refine (varNode_out m hI j (hO.lt name j hj)).mono ?_
  intro g m1 hs ⟨hg, _, hd⟩
  refine ⟨hg, fun σ => ?_⟩
  unfold denN
  rw [hd]
  show σ (m1.tbl.nameOf j) = σ name
  have hl : m1.tbl.l2v = m.tbl.l2v := hs.frame.l2v
  have : m1.tbl.nameOf j = name := by
    unfold Tbl.nameOf; rw [hl]; exact hO.nameOf_level hj
  rw [this]

/-- `apply(op, u, v)` for a binary propositional alias, inside a context or with requests
disabled: the documented connective, or abort having only added nodes -/
theorem apply_binary_out (m : Mgr) (hI : Inv m) (hq : Quiet m) (op : String) (c : Conn)
    (hc : docConn op = some c) (h2 : c.arity = 2) (hq1 : c ≠ .forall_) (hq2 : c ≠ .exists_)
    (hall : Gen.allOps.contains op = true) (u v : Int) (mu : m.tbl.Mem u) (mv : m.tbl.Mem v) :
    Outcome m (fun r m' => m'.tbl.Mem r ∧
        ∀ a, den m'.tbl r a = c.eval (den m.tbl u a) (den m.tbl v a) false)
      (apply op u (some v) none m) := by
  have hW := hI.wf.toWF
  obtain ⟨row, a, b, d, hrow, ht, hoa, hob, hod, hwa, hwb, hwd, htab⟩ :=
    table_binary op c hc h2 hq1 hq2 hall
  have hv' := vocab_complete
  unfold vocabComplete at hv'
  simp only [Bool.and_eq_true, List.all_eq_true] at hv'
  have hmem : op ∈ Gen.allOps := by simpa using hall
  have har := hv'.2 op hmem
  rw [hc] at har
  simp only [h2, Bool.and_eq_true, beq_iff_eq] at har
  have hun : Gen.unaryOps.contains op = false := by
    have := har.1.1; simpa using this.symm
  have hbi : Gen.binaryOps.contains op = true := by
    have := har.1.2; simpa using this.symm
  have harity : assertOperatorArity op (some v) none = .ok () := by
    unfold assertOperatorArity
    rw [hall, hun, hbi]
    rfl
  obtain ⟨xa, hxa, mxa, dxa⟩ := atomVal_den m.tbl hW u v 0 mu mv a hoa hwa
  obtain ⟨xb, hxb, mxb, dxb⟩ := atomVal_den m.tbl hW u v 0 mu mv b hob hwb
  obtain ⟨xd, hxd, mxd, dxd⟩ := atomVal_den m.tbl hW u v 0 mu mv d hod hwd
  have heq : apply op u (some v) none m = ite xa xb xd m := by
    unfold apply
    have hmu : m.mem u = true := (Mgr.mem_iff m u).mpr mu
    have hmv : m.mem v = true := (Mgr.mem_iff m v).mpr mv
    simp only [harity, hmu, hmv, optNotMem, Bool.not_true, Bool.false_eq_true, if_false, hrow, ht,
      hwa, hwb, hwd, Bool.or_self, Option.getD_none, hxa, hxb, hxd]
  rw [heq]
  refine (ite_nested_spec m hI hq xa xb xd mxa mxb mxd).mono ?_
  intro r m' _ hp
  refine ⟨hp.mem, fun asg => ?_⟩
  rw [hp.den asg, dxa asg false, dxb asg false, dxd asg false]
  exact htab _ _ _

/-! ### the loop of `cube` -/

/-- one iteration of the loop of `cube` -/
def cubeStep (x : String × Bool) (r : Int) : M (ForInStep Int) := do
  let u ← var x.1
  let u : Int := if x.2 then u else -u
  let r ← apply "and" u (some r) none
  pure (ForInStep.yield r)

/-- the body of `BDD.cube` -/
def cubeBody (dvars : List (String × Bool)) : M Int :=
  forIn dvars (1 : Int) cubeStep >>= fun r => pure r

theorem cube_eq (dvars : List (String × Bool)) : cube dvars = tryToReorder (cubeBody dvars) := by
  unfold cube cubeBody
  have hf : (fun (x : String × Bool) (__s : Int) =>
      (match x with
      | (name, val) => do
        let u ← var name
        let u : Int := if val then u else -u
        let r ← apply "and" u (some __s) none
        pure (ForInStep.yield r) : M (ForInStep Int))) = cubeStep := by
    funext x r
    obtain ⟨n, v⟩ := x
    rfl
  show tryToReorder (forIn dvars (1 : Int) _ >>= fun r => pure r) = _
  rw [hf]

theorem and_eval (x y : Bool) : Conn.and.eval x y false = (x && y) := by
  cases x <;> cases y <;> rfl

theorem cubeStep_out (m : Mgr) (hI : Inv m) (hc : m.ctx = true) (hO : OrderOK m.tbl)
    (name : String) (val : Bool) (hdecl : m.tbl.vars.contains name = true) (r : Int)
    (hr : m.tbl.Mem r) :
    Outcome m (fun s m' => ∃ r', s = ForInStep.yield r' ∧ m'.tbl.Mem r' ∧
        ∀ σ, denN m'.tbl r' σ = ((σ name == val) && denN m.tbl r σ))
      (cubeStep (name, val) r m) := by
  have hW := hI.wf.toWF
  unfold cubeStep
  refine Outcome.bind (var_nested_out m hI hc hO name hdecl) ?_
  intro g m1 hs1 ⟨hg, hdg⟩
  have hW1 := hs1.inv.wf.toWF
  have hmr1 : m1.tbl.Mem r := hs1.ext.mem hr
  have hgu : m1.tbl.Mem (if val then g else -g) := by
    cases val
    · exact mem_neg hg
    · exact hg
  have hc1 : m1.ctx = true := by rw [hs1.frame.ctx]; exact hc
  refine Outcome.bind (apply_binary_out m1 hs1.inv (Or.inl hc1) "and" .and (by decide) (by decide)
    (by decide) (by decide) (by decide) _ r hgu hmr1) ?_
  intro r' m2 hs2 ⟨hr', hd'⟩
  refine ⟨StepK.refl hs2.inv, fun _ _ => ⟨r', rfl, hr', fun σ => ?_⟩⟩
  have hl2 : m2.tbl.lift σ = m1.tbl.lift σ := by
    unfold Tbl.lift Tbl.nameOf; rw [hs2.frame.l2v]
  unfold denN
  rw [hd', and_eval, hl2]
  have e1 : den m1.tbl r (m1.tbl.lift σ) = denN m.tbl r σ := hs1.denN hW hr σ
  have e2 : den m1.tbl (if val then g else -g) (m1.tbl.lift σ) = (σ name == val) := by
    have := hdg σ
    unfold denN at this
    cases val
    · simp only [Bool.false_eq_true, if_false]
      rw [den_neg m1.tbl hW1 g _ hg, this]
      cases σ name <;> rfl
    · simp only [if_true]
      rw [this]
      cases σ name <;> rfl
  rw [e1, e2]
  rfl

theorem cubeLoop_out : ∀ (l : List (String × Bool)) (m : Mgr) (r : Int), Inv m → m.ctx = true →
    OrderOK m.tbl → (∀ p ∈ l, m.tbl.vars.contains p.1 = true) → m.tbl.Mem r →
    Outcome m (fun r' m' => m'.tbl.Mem r' ∧
        ∀ σ, denN m'.tbl r' σ = (denN m.tbl r σ && l.all fun p => σ p.1 == p.2))
      (forIn l r cubeStep m)
  | [], m, r, hI, _, _, _, hr => by
    show Outcome m _ ((Pure.pure r : M Int) m)
    exact ⟨StepK.refl hI, hr, fun σ => by simp⟩
  | (name, val) :: l, m, r, hI, hc, hO, hdecl, hr => by
    rw [List.forIn_cons]
    refine Outcome.bind (cubeStep_out m hI hc hO name val (hdecl _ List.mem_cons_self) r hr) ?_
    intro s m1 hs1 ⟨r1, hs, hr1, hd1⟩
    subst hs
    have hc1 : m1.ctx = true := by rw [hs1.frame.ctx]; exact hc
    have hdecl1 : ∀ p ∈ l, m1.tbl.vars.contains p.1 = true := by
      intro p hp
      rw [hs1.names p.1]; exact hdecl p (List.mem_cons_of_mem _ hp)
    refine (cubeLoop_out l m1 r1 hs1.inv hc1 (hO.frame hs1.frame) hdecl1 hr1).mono ?_
    intro r2 m2 _ ⟨hr2, hd2⟩ _
    refine ⟨hr2, fun σ => ?_⟩
    rw [hd2 σ, hd1 σ]
    simp only [List.all_cons]
    cases (σ name == val) <;> cases denN m.tbl r σ <;> simp

/-- documented result of `cube(dvars)`: the conjunction of the literals, by name -/
def CubeDoc (dvars : List (String × Bool)) (_t : Tbl) (r : Int) (t' : Tbl) : Prop :=
  t'.Mem r ∧ ∀ σ, denN t' r σ = dvars.all fun p => σ p.1 == p.2

theorem cubeBody_out (m0 : Mgr) (hI0 : Inv m0) (hc : m0.ctx = true) (hO : OrderOK m0.tbl)
    (dvars : List (String × Bool)) (hdecl : ∀ p ∈ dvars, m0.tbl.vars.contains p.1 = true) :
    Outcome m0 (fun r m1 => CubeDoc dvars m0.tbl r m1.tbl) (cubeBody dvars m0) := by
  unfold cubeBody
  refine Outcome.bind (cubeLoop_out dvars m0 1 hI0 hc hO hdecl (mem_one _)) ?_
  intro r m1 hs ⟨hr, hd⟩
  refine ⟨StepK.refl hs.inv, fun _ => ⟨hr, fun σ => ?_⟩⟩
  rw [hd σ]
  unfold denN
  rw [den_one]
  rfl

/-- C09 for `cube` over declared variable names -/
theorem cube_transparent (ext : Nat → Nat) (hS : SiftContract ext) (m : Mgr) (hD : DynInv ext m)
    (dvars : List (String × Bool)) (hdecl : ∀ p ∈ dvars, m.tbl.vars.contains p.1 = true) :
    ∃ r m', cube dvars m = (.ok r, m') ∧ DynPostG ext (CubeDoc dvars) m r m' := by
  rw [cube_eq]
  refine tryToReorder_transparent ext hS (cubeBody dvars) []
    (fun t => ∀ p ∈ dvars, t.vars.contains p.1 = true) (CubeDoc dvars)
    ?_ ?_ (fun _ _ _ _ _ _ hd => hd) m hD (fun _ h => by cases h) hdecl
  · intro m0 hI0 hc hO hpre _
    exact cubeBody_out m0 hI0 hc hO dvars hpre
  · intro t t' hB hpre p hp
    rw [hB.names p.1]; exact hpre p hp

/-! ### the quantifier aliases of `apply` -/

/-- C09 for `apply('\A' | '\E' | 'forall' | 'exists', u, v)`: with `names` the answer of
`support(u)` (all declared), the call is `quantify(v, names, …)` -/
theorem apply_quant_transparent (ext : Nat → Nat) (hS : SiftContract ext) (m : Mgr)
    (hD : DynInv ext m) (op : String) (c : Conn) (hc : docConn op = some c)
    (hq : c = .forall_ ∨ c = .exists_) (hall : Gen.allOps.contains op = true)
    (u v : Int) (hu : m.tbl.Mem u) (hv : HeldX ext v)
    (names : List String) (hsupp : support m.tbl u = .ok names)
    (hdecl : ∀ s ∈ names, m.tbl.vars.contains s = true) :
    ∃ r m', apply op u (some v) none m = (.ok r, m') ∧
      DynPostG ext (QuantDoc (decide (c = .forall_)) names v) m r m' := by
  obtain ⟨row, hrow, ht⟩ := table_quant op c hc hq hall
  have hv' := vocab_complete
  unfold vocabComplete at hv'
  simp only [Bool.and_eq_true, List.all_eq_true] at hv'
  have hmem : op ∈ Gen.allOps := by simpa using hall
  have har := hv'.2 op hmem
  rw [hc] at har
  have h2 : c.arity = 2 := by rcases hq with h | h <;> subst h <;> rfl
  simp only [h2, Bool.and_eq_true, beq_iff_eq] at har
  have hun : Gen.unaryOps.contains op = false := by
    have := har.1.1; simpa using this.symm
  have hbi : Gen.binaryOps.contains op = true := by
    have := har.1.2; simpa using this.symm
  have harity : assertOperatorArity op (some v) none = .ok () := by
    unfold assertOperatorArity
    rw [hall, hun, hbi]
    rfl
  have mv : m.tbl.Mem v := hv.mem hD.refs
  have heq : apply op u (some v) none m =
      quantify v (names.map Key.name) (decide (c = .forall_)) m := by
    unfold apply
    have hmu : m.mem u = true := (Mgr.mem_iff m u).mpr hu
    have hmv : m.mem v = true := (Mgr.mem_iff m v).mpr mv
    simp only [harity, hmu, hmv, optNotMem, Bool.not_true, Bool.false_eq_true, if_false, hrow, ht,
      atomVal, hsupp]
  rw [heq]
  exact quantify_transparent ext hS m hD v hv _ names hdecl

/-! ### chaining two decorated calls: the intermediate result is `incref`ed (as autoref does) -/

theorem HeldX.extInc {ext : Nat → Nat} {u : Int} (h : HeldX ext u) (k : Nat) :
    HeldX (DD.extInc ext k) u := by
  rcases h with h | h
  · exact Or.inl h
  · refine Or.inr ?_
    unfold DD.extInc
    split <;> omega

theorem HeldX.extInc_self (ext : Nat → Nat) (u : Int) : HeldX (DD.extInc ext u.natAbs) u := by
  refine Or.inr ?_
  simp [DD.extInc]

/-- taking a reference on a result keeps the state "between two calls", for the ledger with
that reference added -/
theorem DynInv.incref {ext : Nat → Nat} {m : Mgr} (h : DynInv ext m) (u : Int) (hu : m.tbl.Mem u) :
    ∃ m', incref u m = (.ok (), m') ∧ DynInv (extInc ext u.natAbs) m' ∧ m'.tbl = m.tbl ∧
      m'.lastLen = m.lastLen := by
  obtain ⟨c, _, he, hr⟩ := incref_spec m ext u h.refs hu
  have hk := incref_kept m h.inv u
  rw [he] at hk
  refine ⟨_, he, ⟨hk.inv, h.order, hr, h.ctx, h.sched, ?_, h.nvars⟩, rfl, rfl⟩
  intro r hr'
  have := h.roots r hr'
  unfold DD.extInc
  split <;> omega

/-- two decorated calls in a row, e.g. the expression `ite(g, u, v) /\ w`: the result of the first
is `incref`ed before the second (what the autoref wrapper does — otherwise a reordering in the
second call may collect it); a reordering request may fire in either call. -/
theorem ite_then_and_transparent (ext : Nat → Nat) (m : Mgr) (hD : DynInv ext m)
    (hS : ∀ e, SiftContract e) (g u v w : Int)
    (hg : HeldX ext g) (hu : HeldX ext u) (hv : HeldX ext v) (hw : HeldX ext w) :
    ∃ r1 m1, ite g u v m = (.ok r1, m1) ∧ ∃ m1', incref r1 m1 = (.ok (), m1') ∧
      ∃ r2 m2, apply "and" r1 (some w) none m1' = (.ok r2, m2) ∧
        DynInv (extInc ext r1.natAbs) m2 ∧ m2.tbl.Mem r2 ∧
        ∀ σ, denN m2.tbl r2 σ =
          ((if denN m.tbl g σ then denN m.tbl u σ else denN m.tbl v σ) && denN m.tbl w σ) := by
  obtain ⟨r1, m1, he1, hp1⟩ := ite_transparent ext (hS ext) m hD g u v hg hu hv
  obtain ⟨m1', hinc, hD1, htbl, _⟩ := hp1.inv.incref r1 hp1.doc.1
  obtain ⟨r2, m2, he2, hp2⟩ := apply_binary_transparent (extInc ext r1.natAbs) (hS _) m1' hD1
    "and" .and (by decide) (by decide) (by decide) (by decide) (by decide) r1 w
    (HeldX.extInc_self ext r1) (hw.extInc _)
  refine ⟨r1, m1, he1, m1', hinc, r2, m2, he2, hp2.inv, hp2.doc.1, fun σ => ?_⟩
  rw [hp2.doc.2 σ, and_eval, htbl, hp1.doc.2 σ, (hp1.held w hw).2 σ]

end DD
