/-
  DDProofs.Reach2Order — the explicit reordering calls with ARBITRARY arguments, as steps of a
  history: `bdd.swap(x, y)` (any names / levels), `reorder(bdd)` (any number of variables),
  `reorder(bdd, order)` (any dictionary), `undeclare_vars(*names)` (any names).

  C07 states what the calls do on good arguments (`OkOrSched`: returned with the postcondition, or
  the model's own schedule-mismatch report).  Here: whatever the arguments, the call either is
  such a report, or — returned OR RAISED, possibly half-way through a bubble sort — leaves a
  state in which the reordering invariant holds and every held reference means what it meant
  (`KeepOr`).  All statements are generic in the contract `SwapOK E P R` of an adjacent swap, so
  they hold for every recorded schedule (`E` = schedule report) and, with no recorded schedule,
  without any exception of the model (`E` = nothing).
-/
import DDProofs.SwapDrivers
import DDProofs.SiftFinal
import DDProofs.RejectedOrder
import DDProofs.Undeclare
open Std

namespace DD

/-! ### outcomes of calls that may be rejected half-way -/

/-- the exceptions a refused reordering call raises: `ValueError`, `KeyError`, and the
`UnboundLocalError` of sifting a manager without variables — never an assertion, never the
internal signal -/
def RejErr (e : Err) : Prop := e = .value ∨ e = .key ∨ e = .other

theorem RejErr.ne_sched {e : Err} (h : RejErr e) : e ≠ .sched := by
  rcases h with rfl | rfl | rfl <;> decide

theorem RejErr.ne_signal {e : Err} (h : RejErr e) : e ≠ .needsReordering := by
  rcases h with rfl | rfl | rfl <;> decide

/-- the call ended with an exception in `E`, or — returned, or raised one of `RejErr` — in a
state satisfying `Q` -/
def KeepOr {α} (E : Err → Prop) (Q : Mgr → Prop) : Except Err α × Mgr → Prop
  | (.ok _, m') => Q m'
  | (.error e, m') => E e ∨ (RejErr e ∧ Q m')

theorem KeepOr.of_okOr {α} {E : Err → Prop} {Q : α → Mgr → Prop} {Q' : Mgr → Prop}
    {r : Except Err α × Mgr} (h : OkOr E Q r) (hq : ∀ a m', Q a m' → Q' m') : KeepOr E Q' r := by
  obtain ⟨r, m'⟩ := r
  cases r with
  | ok a => exact hq a m' h
  | error e => exact Or.inl h

theorem KeepOr.mono {α} {E : Err → Prop} {Q Q' : Mgr → Prop} {r : Except Err α × Mgr}
    (h : KeepOr E Q r) (hq : ∀ m', Q m' → Q' m') : KeepOr E Q' r := by
  obtain ⟨r, m'⟩ := r
  cases r with
  | ok a => exact hq m' h
  | error e => exact h.imp id (fun ⟨a, b⟩ => ⟨a, hq m' b⟩)

/-- a rejected call -/
theorem KeepOr.err {α} {E : Err → Prop} {Q : Mgr → Prop} {e : Err} {m' : Mgr} (he : RejErr e)
    (hq : Q m') : KeepOr E Q ((.error e, m') : Except Err α × Mgr) := Or.inr ⟨he, hq⟩

/-- sequencing: an exception of the first part ends the call -/
theorem KeepOr.bind {α β} {E : Err → Prop} {x : M α} {f : α → M β} {m : Mgr} {Q Q' : Mgr → Prop}
    (hx : KeepOr E Q (x m)) (hq : ∀ m1, Q m1 → Q' m1)
    (hf : ∀ a m1, x m = (.ok a, m1) → Q m1 → KeepOr E Q' (f a m1)) :
    KeepOr E Q' ((x >>= f) m) := by
  rw [M.bind_eq]
  generalize hres : x m = r at hx
  obtain ⟨r, m1⟩ := r
  cases r with
  | ok a => exact hf a m1 hres hx
  | error e => exact hx.imp id (fun ⟨a, b⟩ => ⟨a, hq m1 b⟩)

/-- with no exception allowed: the state satisfies `Q` and the answer is not the schedule report -/
theorem KeepOr.total {α} {Q : Mgr → Prop} {r : Except Err α × Mgr} (h : KeepOr NoErr Q r) :
    Q r.2 ∧ r.1 ≠ .error .sched := by
  obtain ⟨r, m'⟩ := r
  cases r with
  | ok a => exact ⟨h, fun hh => by cases hh⟩
  | error e =>
    rcases h with h | ⟨h1, h2⟩
    · exact h.elim
    · exact ⟨h2, fun hh => by cases hh; exact h1.ne_sched rfl⟩

/-- when the answer is not the schedule report: the state satisfies `Q` -/
theorem KeepOr.sched {α} {Q : Mgr → Prop} {r : Except Err α × Mgr} (h : KeepOr SchedErr Q r)
    (hne : r.1 ≠ .error .sched) : Q r.2 := by
  obtain ⟨r, m'⟩ := r
  cases r with
  | ok a => exact h
  | error e =>
    rcases h with h | ⟨_, h2⟩
    · exact absurd (by rw [show e = Err.sched from h]) hne
    · exact h2

/-- the answer is never the internal signal `_NeedsReordering` -/
theorem KeepOr.noSignal {α} {Q : Mgr → Prop} {r : Except Err α × Mgr} (h : KeepOr SchedErr Q r) :
    r.1 ≠ .error .needsReordering := by
  obtain ⟨r, m'⟩ := r
  cases r with
  | ok a => intro hh; cases hh
  | error e =>
    intro hh
    cases hh
    rcases h with h | ⟨h1, _⟩
    · cases h
    · exact h1.ne_signal rfl

/-- an exception that is returned is one of `ValueError`, `KeyError`, `UnboundLocalError` (or the
model's schedule report) -/
theorem KeepOr.rejErr {α} {Q : Mgr → Prop} {r : Except Err α × Mgr} (h : KeepOr SchedErr Q r)
    (e : Err) (he : r.1 = .error e) : e = .sched ∨ RejErr e := by
  obtain ⟨r, m'⟩ := r
  cases r with
  | ok a => cases he
  | error e' =>
    cases he
    exact h.imp id (fun h => h.1)

section Abs
variable {E : Err → Prop} {P : Mgr → Prop} {R : Mgr → Mgr → Prop}

/-! ### `reorder(bdd, order)` with ANY dictionary -/

/-- one comparison of the bubble sort, whatever `order` contains: a missing name is a `KeyError`
before anything is touched -/
theorem sortStep_keep (S : SwapOK E P R) (order : List (String × Int)) (m : Mgr) (i : Nat)
    (hP : P m) (hi : i + 1 < m.nvars) :
    KeepOr E (fun m' => P m' ∧ R m m' ∧ m'.nvars = m.nvars) (sortStep order i m) := by
  have hO := S.vars m hP
  obtain ⟨x, hx⟩ := hO.total i (by have : m.nvars = m.tbl.nvars := rfl; omega)
  obtain ⟨y, hy⟩ := hO.total (i + 1) hi
  have here : P m ∧ R m m ∧ m.nvars = m.nvars := ⟨hP, S.refl m, rfl⟩
  unfold sortStep
  rw [M.bind_ok (checkRoots_ok m (S.roots m hP)), M.bind_ok (varAtLevel_ok m i x hx)]
  have hy' : varAtLevel ((i : Int) + 1) m = (.ok y, m) := varAtLevel_ok m (i + 1) y hy
  rw [M.bind_ok hy']
  cases hp : order.lookup x with
  | none =>
    simp only [M.bind_eq, M.ofOption_none]
    exact KeepOr.err (Or.inr (Or.inl rfl)) here
  | some p =>
    cases hq : order.lookup y with
    | none =>
      simp only [M.bind_eq, M.ofOption_some, M.ofOption_none]
      exact KeepOr.err (Or.inr (Or.inl rfl)) here
    | some q =>
      simp only [M.bind_eq, M.ofOption_some]
      by_cases hgt : p > q
      · simp only [hgt, if_true]
        rw [M.bind_eq, swap_levels_eq m i hi]
        have := S.step m i hP hi
        generalize swapBody i (i + 1) m = res at this
        obtain ⟨r, m'⟩ := res
        cases r with
        | error e => exact Or.inl this
        | ok r =>
          obtain ⟨hP', hR, he, _⟩ := this
          exact ⟨hP', hR, he.nvars⟩
      · simp only [hgt, if_false]
        exact here

theorem sortInner_keep (S : SwapOK E P R) (order : List (String × Int)) (n : Nat) :
    ∀ (l : List Nat) (m : Mgr), P m → m.nvars = n → (∀ i ∈ l, i + 1 < n) →
    KeepOr E (fun m' => P m' ∧ R m m' ∧ m'.nvars = n) (sortInner order l m) := by
  intro l
  induction l with
  | nil =>
    intro m hP hn _
    exact ⟨hP, S.refl m, hn⟩
  | cons i rest ih =>
    intro m hP hn hl
    unfold sortInner
    have h1 := sortStep_keep S order m i hP (by rw [hn]; exact hl i List.mem_cons_self)
    refine KeepOr.bind h1 (fun m1 ⟨a, b, c⟩ => ⟨a, b, c.trans hn⟩) ?_
    intro _ m1 _ ⟨hP1, hR1, hn1⟩
    refine (ih m1 hP1 (hn1.trans hn) (fun j hj => hl j (List.mem_cons_of_mem _ hj))).mono ?_
    intro m2 ⟨hP2, hR2, hn2⟩
    exact ⟨hP2, S.trans _ _ _ hR1 hR2, hn2⟩

theorem sortOuter_keep (S : SwapOK E P R) (order : List (String × Int)) (n : Nat) :
    ∀ (k : Nat) (m : Mgr), P m → m.nvars = n →
    KeepOr E (fun m' => P m' ∧ R m m' ∧ m'.nvars = n) (sortOuter order n k m) := by
  intro k
  induction k with
  | zero =>
    intro m hP hn
    exact ⟨hP, S.refl m, hn⟩
  | succ k ih =>
    intro m hP hn
    unfold sortOuter
    have h1 := sortInner_keep S order n (List.range (n - 1)) m hP hn
      (fun i hi => by have := List.mem_range.mp hi; omega)
    refine KeepOr.bind h1 (fun _ h => h) ?_
    intro _ m1 _ ⟨hP1, hR1, hn1⟩
    refine (ih m1 hP1 hn1).mono ?_
    intro m2 ⟨hP2, hR2, hn2⟩
    exact ⟨hP2, S.trans _ _ _ hR1 hR2, hn2⟩

/-- **`reorder(bdd, order)` with ANY `order`** (wrong length, names missing, ranks repeated or
out of range): returned or raised, after however many swaps, the state satisfies `P` and is
`R`-related to the state of the call -/
theorem reorderTo_keep (S : SwapOK E P R) (order : List (String × Int)) (m : Mgr) (hP : P m) :
    KeepOr E (fun m' => P m' ∧ R m m' ∧ m'.nvars = m.nvars) (reorder (some order) m) := by
  by_cases hne : m.nvars ≠ order.length
  · rw [reorder_bad_length m order hne]
    exact KeepOr.err (Or.inl rfl) ⟨hP, S.refl m, rfl⟩
  · show KeepOr E _ (sortToOrder order m)
    unfold sortToOrder
    simp only [M.bind_eq, M.get_eq, hne, if_false]
    have hlen : order.length = m.nvars := by omega
    rw [hlen]
    exact sortOuter_keep S order m.nvars m.nvars m hP rfl

/-! ### `bdd.swap(x, y)` with ANY arguments -/

theorem resolveVL_cases (a : VarOrLevel) (m : Mgr) :
    (∃ i : Int, resolveVL a m = (.ok i, m) ∧ ∀ n : Nat, i = (n : Int) → Resolves m a n) ∨
    resolveVL a m = (.error .value, m) := by
  cases a with
  | name s =>
    cases hs : m.tbl.vars[s]? with
    | none =>
      right
      unfold resolveVL
      simp only [M.bind_eq, M.get_eq, hs, M.ofOption_none]
    | some l =>
      left
      refine ⟨(l : Int), ?_, ?_⟩
      · unfold resolveVL
        simp only [M.bind_eq, M.get_eq, hs, M.ofOption_some, M.pure_eq]
      · intro n hn
        have : l = n := by omega
        subst this
        exact hs
  | level j =>
    left
    exact ⟨j, rfl, fun n hn => hn⟩

/-- only the values of the two arguments matter -/
theorem swap_given_congr (m : Mgr) (xa ya : VarOrLevel) (x y : Int)
    (hx : resolveVL xa m = (.ok x, m)) (hy : resolveVL ya m = (.ok y, m)) :
    swap xa ya true m = swap (.level x) (.level y) true m := by
  have hx' : resolveVL (.level x) m = (.ok x, m) := rfl
  have hy' : resolveVL (.level y) m = (.ok y, m) := rfl
  unfold swap
  simp only [Bool.not_true, Bool.false_eq_true, if_false]
  rw [M.bind_ok hx, M.bind_ok hy, M.bind_ok hx', M.bind_ok hy']

theorem swap_given_unresolved_left (m : Mgr) (xa ya : VarOrLevel)
    (hx : resolveVL xa m = (.error .value, m)) : swap xa ya true m = (.error .value, m) := by
  unfold swap
  simp only [Bool.not_true, Bool.false_eq_true, if_false]
  rw [M.bind_err hx]

theorem swap_given_unresolved_right (m : Mgr) (xa ya : VarOrLevel) (x : Int)
    (hx : resolveVL xa m = (.ok x, m)) (hy : resolveVL ya m = (.error .value, m)) :
    swap xa ya true m = (.error .value, m) := by
  unfold swap
  simp only [Bool.not_true, Bool.false_eq_true, if_false]
  rw [M.bind_ok hx, M.bind_err hy]

/-- `swap(x, y, levels)`: the arguments denote two adjacent valid levels (in either order), or
the call raises `ValueError` and nothing changes -/
theorem swap_given_cases (m : Mgr) (xa ya : VarOrLevel) :
    (∃ x a b : Nat, x + 1 < m.nvars ∧ Resolves m xa a ∧ Resolves m ya b ∧
      ((a = x ∧ b = x + 1) ∨ (a = x + 1 ∧ b = x))) ∨
    swap xa ya true m = (.error .value, m) := by
  rcases resolveVL_cases xa m with ⟨x, hx, hrx⟩ | hx
  · rcases resolveVL_cases ya m with ⟨y, hy, hry⟩ | hy
    · by_cases hgood : 0 ≤ x ∧ x < m.nvars ∧ 0 ≤ y ∧ y < m.nvars ∧ (y - x = 1 ∨ x - y = 1)
      · left
        obtain ⟨h1, h2, h3, h4, h5⟩ := hgood
        rcases h5 with h5 | h5
        · exact ⟨x.toNat, x.toNat, y.toNat, by omega, hrx _ (by omega), hry _ (by omega),
            Or.inl ⟨rfl, by omega⟩⟩
        · exact ⟨y.toNat, x.toNat, y.toNat, by omega, hrx _ (by omega), hry _ (by omega),
            Or.inr ⟨by omega, rfl⟩⟩
      · right
        rw [swap_given_congr m xa ya x y hx hy]
        exact swap_given_bad_levels m x y hgood
    · right; exact swap_given_unresolved_right m xa ya x hx hy
  · right; exact swap_given_unresolved_left m xa ya hx

/-- **`bdd.swap(x, y)` with ANY arguments**: the full collection runs first; then either the two
adjacent levels are exchanged, or `ValueError` is raised in the state left by the collection -/
theorem swapPublic_keep (S : SwapOK E P R) (m : Mgr) (xa ya : VarOrLevel)
    (hgc : ∃ mg, collectGarbage none m = (.ok (), mg) ∧ P mg ∧ R m mg) :
    KeepOr E (fun m' => P m' ∧ R m m') (swap xa ya false m) := by
  obtain ⟨mg, hrun, hPg, hRg⟩ := hgc
  rw [swap_public_eq, M.bind_ok hrun]
  rcases swap_given_cases mg xa ya with ⟨x, a, b, hx, ha, hb, hab⟩ | hbad
  · rw [swap_eq_body mg xa ya x a b hx ha hb hab]
    refine KeepOr.of_okOr (S.step mg x hPg hx) ?_
    intro r m' ⟨hP', hR', _, _⟩
    exact ⟨hP', S.trans _ _ _ hRg hR'⟩
  · rw [hbad]
    exact KeepOr.err (Or.inl rfl) ⟨hPg, hRg⟩

end Abs

/-! ### `reorder(bdd)` with fewer than two variables -/

theorem shift_same (m : Mgr) (s : Nat) (hs : s < m.nvars) : shift s s m = (.ok [], m) := by
  unfold shift
  simp only [M.bind_eq, M.get_eq, hs, decide_true, M.assert_true]
  show shiftLoop (m.nvars + 1) (s : Int) (s : Int) _ [] m = _
  unfold shiftLoop
  simp only [if_true, M.pure_eq]

/-- with exactly one variable `_reorder_var` calls `min` on an empty dict: `ValueError`, nothing
changed (`sift_single_variable_raises`, for every manager) -/
theorem reorderVar_one (m : Mgr) (hO : OrderOK m.tbl) (h1 : m.nvars = 1) (var : String)
    (hv : m.tbl.vars.contains var = true) : reorderVar var m = (.error .value, m) := by
  obtain ⟨l, hl⟩ : ∃ l, m.tbl.vars[var]? = some l := by
    rw [TreeMap.contains_eq_isSome_getElem?] at hv
    exact Option.isSome_iff_exists.mp hv
  have hl0 : l = 0 := by
    have := hO.lt var l hl
    have : m.nvars = m.tbl.nvars := rfl
    omega
  subst hl0
  have hpos : 0 < m.nvars := by omega
  have ha : M.assert (decide (0 < m.nvars)) .assertion m = (.ok (), m) := by
    simp only [hpos, decide_true, M.assert_true]
  unfold reorderVar
  rw [M.bind_ok (M.get_eq m)]
  simp only [hv, Bool.not_true, Bool.false_eq_true, if_false]
  rw [M.bind_ok ha, M.bind_ok (levelOfVar_ok m var 0 hl)]
  simp only [h1, Nat.sub_self, Nat.mul_zero, ge_iff_le, Nat.le_refl, if_true]
  rw [M.bind_ok (shift_same m 0 hpos), M.bind_ok (shift_same m 0 hpos)]
  simp only [argMin, M.ofOption_none, M.bind_eq]

/-- **`reorder(bdd)` with fewer than two variables**: after the collection the call raises
(`ValueError` with one variable, `UnboundLocalError` with none) in the state left by the
collection, up to the consumed schedule -/
theorem sift_few_vars (m mg : Mgr) (hgc : collectGarbage none m = (.ok (), mg))
    (hO : OrderOK mg.tbl) (hfew : mg.nvars < 2) :
    (∃ e mb, reorder none m = (.error e, mb) ∧
      (e = .sched ∨ (RejErr e ∧ ∃ s, mb = { mg with sched := s } ∧ (mg.sched = [] → s = [])))) := by
  show ∃ e mb, applySifting m = (.error e, mb) ∧ _
  unfold applySifting
  rw [M.bind_ok hgc, M.bind_ok (M.get_eq mg)]
  have hord := takeSiftOrder_outcome mg
  generalize hres : takeSiftOrder mg = res at hord
  obtain ⟨r, mb⟩ := res
  cases r with
  | error e =>
    rw [M.bind_err hres]
    exact ⟨e, mb, rfl, Or.inl hord⟩
  | ok names =>
    obtain ⟨⟨s, rfl, hs0⟩, hlen, hdecl⟩ := hord
    rw [M.bind_ok hres]
    have hsz : mg.nvars = mg.tbl.vars.size := rfl
    cases names with
    | nil =>
      simp only [List.isEmpty_nil, if_true]
      exact ⟨.other, _, rfl, Or.inr ⟨Or.inr (Or.inr rfl), s, rfl, hs0⟩⟩
    | cons v rest =>
      have hrest : rest = [] := by
        cases rest with
        | nil => rfl
        | cons w r2 => simp only [List.length_cons] at hlen; omega
      subst hrest
      have h1 : ({ mg with sched := s } : Mgr).nvars = 1 := by
        show mg.nvars = 1
        simp only [List.length_cons, List.length_nil] at hlen
        omega
      have hrv := reorderVar_one { mg with sched := s } hO h1 v (hdecl v List.mem_cons_self)
      simp only [List.isEmpty_cons, Bool.false_eq_true, if_false]
      unfold siftVars
      rw [M.bind_err (M.bind_err hrv)]
      exact ⟨.value, _, rfl, Or.inr ⟨Or.inl rfl, s, rfl, hs0⟩⟩

/-! ### `undeclare_vars`: the counts stay exact -/

/-- the in-degree only depends on the children of the stored nodes -/
theorem indeg_congr_slots {t t' : Tbl} (u : Nat) (h : ∀ k, slotCount t' u k = slotCount t u k) :
    indeg t' u = indeg t u := by
  let b := max t.bound t'.bound
  have hb : ∀ j x, t.node? j = some x → j < b := fun j x hj => by
    have := t.lt_bound hj; omega
  have hb' : ∀ j x, t'.node? j = some x → j < b := fun j x hj => by
    have := t'.lt_bound hj; omega
  rw [indeg_eq_upTo t u b hb, indeg_eq_upTo t' u b hb']
  generalize b = c
  induction c with
  | zero => rfl
  | succ c ih => simp only [indegUpTo, ih, h]

theorem Relabel.indeg {t t' : Tbl} {f : Nat → Nat} (h : Relabel t t' f) (u : Nat) :
    indeg t' u = indeg t u := by
  apply indeg_congr_slots
  intro k
  unfold slotCount
  rw [h.node k]
  cases t.node? k with
  | none => rfl
  | some n => rfl

/-- relabeling the levels keeps the counts exact for the same ledger -/
theorem RefExact.of_relabel {m m' : Mgr} {ext : Nat → Nat} {f : Nat → Nat} (h : RefExact m ext)
    (hr : Relabel m.tbl m'.tbl f) (href : m'.ref = m.ref) : RefExact m' ext := by
  refine ⟨?_, ?_, ?_⟩
  · intro u
    rw [href, hr.node u, h.dom u]
    cases m.tbl.node? u <;> simp
  · intro u c hc
    rw [href] at hc
    rw [hr.indeg u]
    exact h.cnt u c hc
  · intro u hu
    rw [href] at hu
    exact h.extZero u hu

/-! ### a decidable sufficient check for `ReqOrder` -/

/-- `order` has one entry per declared variable, names every level's variable, all ranks are in
`0..n-1` and no two names share a rank -/
def reqOrderB (order : List (String × Int)) (m : Mgr) : Bool :=
  decide (order.length = m.nvars) &&
  (List.range m.nvars).all (fun i => match m.tbl.l2v[i]? with
    | some v => (order.lookup v).isSome
    | none => false) &&
  order.all (fun p => decide (0 ≤ p.2) && decide (p.2 < (m.nvars : Int))) &&
  order.all (fun p => order.all (fun p' => p.2 != p'.2 || p.1 == p'.1))

theorem mem_of_lookup {l : List (String × Int)} {v : String} {p : Int} (h : l.lookup v = some p) :
    (v, p) ∈ l := by
  obtain ⟨l1, l2, rfl, -⟩ := List.lookup_eq_some_iff.mp h
  simp

theorem reqOrder_of_check {order : List (String × Int)} {m : Mgr} (h : reqOrderB order m = true) :
    ReqOrder order m := by
  unfold reqOrderB at h
  simp only [Bool.and_eq_true, decide_eq_true_eq, List.all_eq_true] at h
  obtain ⟨⟨⟨hlen, hcov⟩, hrange⟩, hinj⟩ := h
  refine ⟨hlen, ?_, ?_, ?_⟩
  · intro i hi
    have := hcov i (List.mem_range.mpr hi)
    cases hl : m.tbl.l2v[i]? with
    | none => rw [hl] at this; cases this
    | some v =>
      rw [hl] at this
      obtain ⟨p, hp⟩ := Option.isSome_iff_exists.mp this
      exact ⟨v, p, rfl, hp⟩
  · intro v p hp
    have := hrange (v, p) (mem_of_lookup hp)
    simp only [Bool.and_eq_true, decide_eq_true_eq] at this
    exact this
  · intro v v' p hp hp'
    have := hinj (v, p) (mem_of_lookup hp) (v', p) (mem_of_lookup hp')
    simp only [bne_self_eq_false, Bool.false_or, beq_iff_eq] at this
    exact this

end DD
