/-
  DDProofs.Reach4NewCore — the constructor `BDD(levels)` (`newMgrCore`; `DD.newMgr` of the driver
  is the same function, DDProofs.Reach4New): histories need not start from `BDD()`.

  `_assert_valid_ordering(levels)` checks that the levels are `0..n-1`; the variables are then
  declared one by one AT THEIR LEVEL, in dictionary order — with `{'a': 1, 'b': 0}` level 1 is
  occupied while level 0 is still free (a transient gap; `add_var` on its own would leave it,
  finding F7).  For a dictionary (pairwise distinct names) that passes the check the constructor
  returns a manager without nodes whose two maps are inverse bijections onto `0..n-1`: a good
  state with nothing held (`newMgrCore_good`).  Otherwise it raises `AssertionError` and there is no
  manager (`newMgrCore_refused`).
-/
import DD.NewMgrCore
import DDProofs.Reach4Parts
import Mathlib.Data.List.Perm.Subperm
open Std

namespace DD

/-- `_assert_valid_ordering(levels)` -/
def newMgrCheck (levels : List (String × Int)) : Bool :=
  ((List.range levels.length).all fun i => (levels.map (·.2)).contains (i : Int)) &&
  (levels.map (·.2)).all fun k => decide (0 ≤ k) && decide (k < (levels.length : Int))

theorem newMgrCore_refused (levels : List (String × Int)) (h : newMgrCheck levels = false) :
    newMgrCore levels = (.error .assertion, {}) := by
  unfold newMgrCore
  unfold newMgrCheck at h
  simp only [h, Bool.not_false, if_true]

/-- a manager without nodes -/
def nodeFree (vars : TreeMap String Nat) (l2v : TreeMap Nat String) : Mgr :=
  { tbl := { vars := vars, l2v := l2v } }

theorem nodeFree_node? (vars : TreeMap String Nat) (l2v : TreeMap Nat String) (u : Nat) :
    (nodeFree vars l2v).tbl.node? u = none := by
  simp [nodeFree, Tbl.node?]

theorem nodeFree_inv (vars : TreeMap String Nat) (l2v : TreeMap Nat String) : Inv (nodeFree vars l2v) := by
  refine ⟨⟨⟨?_, ?_, ?_, ?_, ?_, ?_, ?_, ?_⟩, ?_⟩, ?_, ?_, ?_, ?_, ?_, ?_⟩
  all_goals first
    | (intro u n h; rw [nodeFree_node?] at h; cases h)
    | (intro u u' n h; rw [nodeFree_node?] at h; cases h)
    | skip
  · intro n u
    rw [nodeFree_node?]
    show (∅ : TreeMap (List Int) Nat)[n.key]? = some u ↔ _
    simp
  · show 2 ≤ 2
    exact Nat.le_refl _
  · exact nodeFree_node? _ _ _
  · show ((∅ : TreeMap Nat Nat).insert 1 1).contains 1 = true
    simp
  · intro g u v w h
    have : (∅ : TreeMap (List Int) Int)[iteKey g u v]? = some w := h
    simp at this

theorem nodeFree_refExact (vars : TreeMap String Nat) (l2v : TreeMap Nat String) :
    RefExact (nodeFree vars l2v) (fun _ => 0) := by
  have href : ∀ u, (nodeFree vars l2v).ref[u]? = if u = 1 then some 1 else none := by
    intro u
    show ((∅ : TreeMap Nat Nat).insert 1 1)[u]? = _
    rw [TreeMap.getElem?_insert]
    by_cases h : u = 1
    · subst h; simp
    · have : ¬ (1 = u) := fun hh => h hh.symm
      simp [h, this]
  refine ⟨?_, ?_, ?_⟩
  · intro u
    rw [href, nodeFree_node?]
    by_cases h : u = 1 <;> simp [h]
  · intro u c hc
    rw [href] at hc
    by_cases h : u = 1
    · subst h
      simp at hc
      subst hc
      have : indeg (nodeFree vars l2v).tbl 1 = 0 := by
        cases hz : indeg (nodeFree vars l2v).tbl 1 with
        | zero => rfl
        | succ z =>
          obtain ⟨k, n, hk, -⟩ := indeg_pos (t := (nodeFree vars l2v).tbl) (u := 1) (by omega)
          rw [nodeFree_node?] at hk
          cases hk
      simp [this]
    · simp [h] at hc
  · intro u _; rfl

/-- `add_var(v, l)` for a new name at a free level `l ≥ 0` — any free level, gaps allowed -/
theorem addVar_at (m : Mgr) (v : String) (l : Nat) (hnew : m.tbl.vars[v]? = none)
    (hfree : m.tbl.l2v[l]? = none) :
    addVar v (some (l : Int)) m = (.ok l, { m with tbl := { m.tbl with
      vars := m.tbl.vars.insert v l, l2v := m.tbl.l2v.insert l v } }) := by
  unfold addVar
  simp only [bind, M.bind', M.get, hnew, Option.getD_some]
  have h0 : ¬ ((l : Int) < 0) := by omega
  simp only [h0, if_false, pure, M.pure', Int.toNat_natCast, hfree, M.set]
  rfl

/-- the declaration loop of the constructor on a node-free manager: names new, levels free -/
theorem newMgr_loop : ∀ (levels : List (String × Int)) (vars : TreeMap String Nat)
    (l2v : TreeMap Nat String),
    (levels.map (·.1)).Nodup → (levels.map (·.2)).Nodup →
    (∀ p ∈ levels, 0 ≤ p.2 ∧ vars[p.1]? = none ∧ l2v[p.2.toNat]? = none) →
    ∃ vars' l2v',
      (forIn levels PUnit.unit fun (x : String × Int) (_ : PUnit) => do
          let _ ← addVar x.fst (some x.snd)
          pure (ForInStep.yield PUnit.unit)) (nodeFree vars l2v) =
          ((Except.ok PUnit.unit : Except Err PUnit), nodeFree vars' l2v') ∧
      (∀ (v : String) (i : Nat), vars'[v]? = some i ↔ (vars[v]? = some i ∨ (v, (i : Int)) ∈ levels)) ∧
      (∀ (i : Nat) (v : String), l2v'[i]? = some v ↔ (l2v[i]? = some v ∨ (v, (i : Int)) ∈ levels)) ∧
      vars'.size = vars.size + levels.length := by
  intro levels
  induction levels with
  | nil =>
    intro vars l2v _ _ _
    exact ⟨vars, l2v, rfl, fun v i => by simp, fun i v => by simp, rfl⟩
  | cons p rest ih =>
    intro vars l2v hn1 hn2 hall
    obtain ⟨v, l⟩ := p
    obtain ⟨hl0, hnew, hfree⟩ := hall (v, l) List.mem_cons_self
    simp only [List.map_cons, List.nodup_cons] at hn1 hn2
    have hl : l = ((l.toNat : Nat) : Int) := by omega
    have hstep := addVar_at (nodeFree vars l2v) v l.toNat hnew hfree
    rw [← hl] at hstep
    have hst : ({ nodeFree vars l2v with tbl := { (nodeFree vars l2v).tbl with
        vars := (nodeFree vars l2v).tbl.vars.insert v l.toNat,
        l2v := (nodeFree vars l2v).tbl.l2v.insert l.toNat v } } : Mgr) =
        nodeFree (vars.insert v l.toNat) (l2v.insert l.toNat v) := rfl
    rw [hst] at hstep
    have hrest : ∀ p ∈ rest, 0 ≤ p.2 ∧ (vars.insert v l.toNat)[p.1]? = none ∧
        (l2v.insert l.toNat v)[p.2.toNat]? = none := by
      intro p hp
      obtain ⟨h0, h1, h2⟩ := hall p (List.mem_cons_of_mem _ hp)
      refine ⟨h0, ?_, ?_⟩
      · rw [TreeMap.getElem?_insert]
        have : v ≠ p.1 := fun he => hn1.1 (by rw [he]; exact List.mem_map_of_mem hp)
        simp [this, h1]
      · rw [TreeMap.getElem?_insert]
        have : l ≠ p.2 := fun he => hn2.1 (by rw [he]; exact List.mem_map_of_mem hp)
        have : l.toNat ≠ p.2.toNat := by omega
        simp [this, h2]
    obtain ⟨vars', l2v', hrun, hv, hl2, hsz⟩ := ih (vars.insert v l.toNat) (l2v.insert l.toNat v)
      hn1.2 hn2.2 hrest
    refine ⟨vars', l2v', ?_, ?_, ?_, ?_⟩
    · rw [List.forIn_cons]
      show M.bind' _ _ _ = _
      unfold M.bind'
      have : (do let _ ← addVar v (some l); pure (ForInStep.yield PUnit.unit) : M (ForInStep PUnit))
          (nodeFree vars l2v) = (.ok (ForInStep.yield PUnit.unit), nodeFree (vars.insert v l.toNat) (l2v.insert l.toNat v)) := by
        show M.bind' _ _ _ = _
        unfold M.bind'
        rw [hstep]
        rfl
      rw [this]
      exact hrun
    · intro w i
      rw [hv w i, TreeMap.getElem?_insert]
      by_cases hw : v = w
      · subst hw
        simp only [compare_self, ↓reduceIte, Option.some.injEq, List.mem_cons, Prod.mk.injEq, true_and, hnew,
          reduceCtorEq, false_or]
        constructor
        · rintro (h | h)
          · left; omega
          · right; exact h
        · rintro (h | h)
          · left; omega
          · right; exact h
      · have hc : compare v w ≠ .eq := fun h => hw (compare_eq_iff_eq.mp h)
        simp only [hc, ↓reduceIte, List.mem_cons, Prod.mk.injEq]
        constructor
        · rintro (h | h)
          · exact Or.inl h
          · exact Or.inr (Or.inr h)
        · rintro (h | ⟨h, -⟩ | h)
          · exact Or.inl h
          · exact absurd h.symm hw
          · exact Or.inr h
    · intro i w
      rw [hl2 i w, TreeMap.getElem?_insert]
      by_cases hi : l.toNat = i
      · subst hi
        simp only [compare_self, ↓reduceIte, Option.some.injEq, List.mem_cons, Prod.mk.injEq, hfree,
          reduceCtorEq, false_or]
        constructor
        · rintro (h | h)
          · left; exact ⟨h.symm, by omega⟩
          · right; exact h
        · rintro (⟨h, -⟩ | h)
          · left; exact h.symm
          · right; exact h
      · have hc : compare l.toNat i ≠ .eq := fun h => hi (compare_eq_iff_eq.mp h)
        simp only [hc, ↓reduceIte, List.mem_cons, Prod.mk.injEq]
        constructor
        · rintro (h | h)
          · exact Or.inl h
          · exact Or.inr (Or.inr h)
        · rintro (h | ⟨-, h⟩ | h)
          · exact Or.inl h
          · exact absurd (by omega) hi
          · exact Or.inr h
    · rw [hsz, TreeMap.size_insert]
      have : vars.contains v = false := by
        rw [TreeMap.contains_eq_isSome_getElem?, hnew]; rfl
      simp only [this, Bool.false_eq_true, ↓reduceIte, List.length_cons]
      omega

/-- the levels that pass `_assert_valid_ordering` are pairwise distinct -/
theorem newMgrCheck_nodup (levels : List (String × Int)) (h : newMgrCheck levels = true) :
    (levels.map (·.2)).Nodup ∧ (∀ p ∈ levels, 0 ≤ p.2 ∧ p.2 < (levels.length : Int)) ∧
    ∀ i, i < levels.length → ∃ v, (v, (i : Int)) ∈ levels := by
  unfold newMgrCheck at h
  simp only [Bool.and_eq_true, List.all_eq_true, List.mem_range, List.contains_iff_mem, List.mem_map,
    decide_eq_true_eq] at h
  obtain ⟨hcov, hrng⟩ := h
  refine ⟨?_, fun p hp => hrng p.2 ⟨p, hp, rfl⟩, ?_⟩
  · -- `0..n-1` is a duplicate-free sublist (up to order) of the `n` levels: they are a permutation
    have hsub : (List.range levels.length).map (fun (i : Nat) => (i : Int)) ⊆ levels.map (·.2) := by
      intro k hk
      obtain ⟨i, hi, rfl⟩ := List.mem_map.mp hk
      obtain ⟨p, hp, he⟩ := hcov i (List.mem_range.mp hi)
      exact List.mem_map.mpr ⟨p, hp, he⟩
    have hnd : ((List.range levels.length).map (fun (i : Nat) => (i : Int))).Nodup := by
      rw [List.Nodup, List.pairwise_map]
      exact List.nodup_range.imp (fun hab h => hab (by omega))
    have hperm := (List.subperm_of_subset hnd hsub).perm_of_length_le (by simp)
    exact hperm.nodup_iff.mp hnd
  · intro i hi
    obtain ⟨p, hp, he⟩ := hcov i hi
    exact ⟨p.1, by rw [← he]; exact hp⟩

/-- **`BDD(levels)`**: for a dictionary (distinct names) whose levels are `0..n-1` the constructor
returns a good manager: no node, the two maps inverse bijections giving every variable the level
asked for, counts exact with nothing held, reordering not enabled -/
theorem newMgrCore_good (levels : List (String × Int)) (hnames : (levels.map (·.1)).Nodup)
    (hchk : newMgrCheck levels = true) :
    (newMgrCore levels).1 = .ok () ∧ GoodParts (newMgrCore levels).2 (fun _ => 0) ∧
    (∀ (v : String) (i : Nat), (newMgrCore levels).2.tbl.vars[v]? = some i ↔ (v, (i : Int)) ∈ levels) ∧
    (∀ u : Nat, (newMgrCore levels).2.tbl.node? u = none) := by
  obtain ⟨hnd, hrng, hcov⟩ := newMgrCheck_nodup levels hchk
  obtain ⟨vars', l2v', hrun, hv, hl, hsz⟩ := newMgr_loop levels {} {} hnames hnd
    (fun p hp => ⟨(hrng p hp).1, by simp, by simp⟩)
  have hnm : newMgrCore levels = (.ok (), nodeFree vars' l2v') := by
    unfold newMgrCore
    have hc : (!(((List.range levels.length).all fun i => (levels.map (·.2)).contains (i : Int)) &&
        (levels.map (·.2)).all fun k => decide (0 ≤ k) && decide (k < (levels.length : Int)))) = false := by
      have := hchk
      unfold newMgrCheck at this
      rw [this]; rfl
    simp only [hc, Bool.false_eq_true, if_false]
    show M.bind' _ _ _ = _
    unfold M.bind'
    have h0 : (({} : Mgr)) = nodeFree {} {} := rfl
    rw [h0, hrun]
    rfl
  rw [hnm]
  have hv' : ∀ (v : String) (i : Nat), vars'[v]? = some i ↔ (v, (i : Int)) ∈ levels := by
    intro v i; rw [hv v i]; simp
  have hl' : ∀ (i : Nat) (v : String), l2v'[i]? = some v ↔ (v, (i : Int)) ∈ levels := by
    intro i v; rw [hl i v]; simp
  have hn : (nodeFree vars' l2v').tbl.nvars = levels.length := by
    show vars'.size = _
    rw [hsz]; simp
  refine ⟨rfl, ⟨nodeFree_inv _ _, ?_, nodeFree_refExact _ _, rfl, rfl, rfl, rfl⟩, hv', nodeFree_node? _ _⟩
  refine ⟨fun v i => ?_, fun v i h => ?_, fun i hi => ?_⟩
  · show vars'[v]? = some i ↔ l2v'[i]? = some v
    rw [hv', hl']
  · rw [hn]
    have := (hrng (v, (i : Int)) ((hv' v i).mp h)).2
    simp only at this
    omega
  · rw [hn] at hi
    obtain ⟨v, hvm⟩ := hcov i hi
    exact ⟨v, (hl' i v).mpr hvm⟩

/-- non-vacuity: the order `{'a': 1, 'b': 0}` — after the first declaration level 1 is occupied
and level 0 is not -/
example : (newMgrCore [("a", 1), ("b", 0)]).1 = .ok () ∧
    GoodParts (newMgrCore [("a", 1), ("b", 0)]).2 (fun _ => 0) :=
  let h := newMgrCore_good [("a", 1), ("b", 0)] (by decide) (by decide)
  ⟨h.1, h.2.1⟩

example : newMgrCore [("a", 2), ("b", 0)] = (.error .assertion, {}) := newMgrCore_refused _ (by decide)

end DD
