/-
  DDProofs.ApiXCopyAuto — `dd._copy.copy_bdd(u, target)` on the autoref layer: the invariant with
  the count equation is kept in the target (every temporary `Function` of the recursion is gone,
  one new handle for the result), every live `Function` keeps its node and meaning.
-/
import DDProofs.ApiXCopyProofs
import DDProofs.AutoCore
open Std

namespace DD

/-- the core of `dd._copy.copy_bdd` under the caller's obligation (every variable of the support
declared in the target), reordering not enabled -/
theorem xcopyBody_keepsAtOff (s : Tbl) (hS : WF s) (hOs : OrderOK s) (u : Int) (hu : s.Mem u)
    (m : Mgr) (hO : OrderOK m.tbl) (hsup : CopyPreA s u m.tbl) :
    CoreKeepsAt true m (xcopyBody s u) :=
  keepsAtOff_of
    (fun _ hi _ ho => by
      obtain ⟨r, m', he, hI', hE, _, hF, _⟩ :=
        xcopyBody_spec s hS (varsBij_of_orderOK hOs) m hi ho (varsBij_of_orderOK hO) u hu hsup
      rw [he]; exact ⟨hI', hE, hF⟩)
    (fun ext hl => (xcopyBody_lite ext s u m hl).1.exact)

theorem aXCopyTo_keepsAtOff (a src : AMgr) {offS : Bool} (hsrc : AInv offS src) (hu h : Nat)
    (hpre : ∀ u, (nodeOwn hu src).1 = .ok u → CopyPreA src.m.tbl u a.m.tbl) :
    AKeepsAt true a h (aXCopyTo src hu h) := by
  intro hi hfr r a' he
  unfold aXCopyTo at he
  cases hx : nodeOwn hu src with
  | mk r1 s1 =>
    rw [hx] at he
    cases r1 with
    | error e =>
      simp only at he; cases he
      exact ⟨hi, fun _ _ => rfl, fun j u hj => ⟨hi.hmem j u hj, fun _ => rfl⟩⟩
    | ok u =>
      simp only at he
      have hmem : src.m.tbl.Mem u := by
        unfold nodeOwn at hx
        cases hh : src.handles[hu]? with
        | none => rw [hh] at hx; cases hx
        | some v =>
          rw [hh] at hx
          cases hx
          exact hsrc.hmem hu u hh
      exact wrapResult_keepsAt a
        (xcopyBody_keepsAtOff src.m.tbl hsrc.inv.wf.toWF hsrc.order u hmem a.m hi.order
          (hpre u (by rw [hx]))) h hi hfr r a' he

end DD
