/-
  DDProofs.ApiXCopyAuto — `dd._copy.copy_bdd(u, target)` on the autoref layer: the invariant with
  the count equation is kept in the target (every temporary `Function` of the recursion is gone,
  one new handle for the result), every live `Function` keeps its node and meaning.
-/
import DDProofs.ApiXCopyProofs
import DDProofs.AutoCore
import DDProofs.XCopyAuto
open Std

namespace DD

/-- the core of `dd._copy.copy_bdd` under the caller's obligation (every variable of the support
declared in the target), reordering not enabled -/
theorem xcopyBody_keepsAtOff (s : Tbl) (hS : WF s) (hOs : OrderOK s) (u : Int) (hu : s.Mem u)
    (m : Mgr) (hO : OrderOK m.tbl) (hsup : CopyPreA s u m.tbl) :
    CoreKeepsAt true m (xcopyBody s u) :=
  keepsAtOff_of
    (fun _ hi _ ho => by
      obtain ⟨r, m', he, hI', hE, _, hF, _⟩ :=
        xcopyBody_spec s hS (varsBij_of_orderOK hOs) m hi ho (varsBij_of_orderOK hO) u hu hsup
      rw [he]; exact ⟨hI', hE, hF⟩)
    (fun ext hl => (xcopyBody_lite ext s u m hl).1.exact)

/-- `dd._copy.copy_bdd` over autoref as the code runs it (`DD.aXCopyRun`: every intermediate
result a `Function`): target in ANY mode, ANY arguments — DDProofs.XCopyAuto; the hypothesis on the
support is not needed for the invariant (it is for the VALUE, `C08_xcopy_value`) -/
theorem aXCopyTo_keepsAtOff (a src : AMgr) {offS : Bool} (hsrc : AInv offS src) (hu h : Nat)
    (_hpre : ∀ u, (nodeOwn hu src).1 = .ok u → CopyPreA src.m.tbl u a.m.tbl) :
    AKeepsAt true a h (aXCopyTo src hu h) :=
  aXCopyTo_keepsAll a src hsrc hu h

end DD
