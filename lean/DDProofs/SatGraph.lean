/-
  DDProofs.SatGraph — the exported abstract graph (`graphOf`, `toDot`, `toNx`) evaluates
  to the denotation.
-/
import DDProofs.SatSupport
open Std

namespace DD

/-- exported graph: nodes `(u, level)`, edges `(src, dst, value, complement)` -/
abbrev Graph := List (Nat × Nat) × List (Nat × Nat × Bool × Bool)

/-- Evaluation of an exported graph at a node (the value of the *regular* reference to the
node): at the terminal `true`; elsewhere read the node's level label, follow ANY edge whose
`value` mark equals the assignment's value at that level, and flip the result when the edge
carries a complement mark.  Relational, so that a multigraph with repeated edges is covered. -/
inductive EvalG (g : Graph) (a : Asg) : Nat → Bool → Prop
  | term {l : Nat} : (1, l) ∈ g.1 → EvalG g a 1 true
  | step {u l v : Nat} {c b : Bool} : u ≠ 1 → (u, l) ∈ g.1 → (u, v, a l, c) ∈ g.2 →
      EvalG g a v b → EvalG g a u (b ^^ c)

/-- evaluation from a (possibly complemented) root reference -/
def EvalRoot (g : Graph) (a : Asg) (r : Int) (b : Bool) : Prop :=
  ∃ b', EvalG g a r.natAbs b' ∧ b = ((decide (r < 0)) ^^ b')

def loEdge (u : Nat) (n : Nd) : Nat × Nat × Bool × Bool := (u, n.lo.natAbs, false, decide (n.lo < 0))
def hiEdge (u : Nat) (n : Nd) : Nat × Nat × Bool × Bool := (u, n.hi.natAbs, true, false)

/-- what makes an exported graph faithful to the table -/
structure GraphOK (t : Tbl) (g : Graph) : Prop where
  nodes : ∀ u l, (u, l) ∈ g.1 → t.Mem (u : Int) ∧ l = t.levelOf (u : Int)
  edges : ∀ e ∈ g.2, ∃ n, t.succ[e.1]? = some n ∧ (e = loEdge e.1 n ∨ e = hiEdge e.1 n)
  closed : ∀ u l, (u, l) ∈ g.1 → ∀ n, t.succ[u]? = some n →
    loEdge u n ∈ g.2 ∧ hiEdge u n ∈ g.2 ∧
    (∃ l', (n.lo.natAbs, l') ∈ g.1) ∧ (∃ l', (n.hi.natAbs, l') ∈ g.1)

theorem den_natAbs {t : Tbl} (hw : WF t) {u : Int} (hm : t.Mem u) (a : Asg) :
    den t u a = ((decide (u < 0)) ^^ den t (u.natAbs : Int) a) := by
  by_cases h : u < 0
  · have : (u.natAbs : Int) = -u := by omega
    rw [this, den_neg t hw u a hm]; simp [h]
  · have : (u.natAbs : Int) = u := by omega
    rw [this]; simp [h]

theorem den_nat_node {t : Tbl} (hw : WF t) {u : Nat} {n : Nd} (hn : t.succ[u]? = some n) (a : Asg) :
    den t (u : Int) a = if a n.lvl then den t (n.hi.natAbs : Int) a
      else ((decide (n.lo < 0)) ^^ den t (n.lo.natAbs : Int) a) := by
  have h1 : (u : Int).natAbs ≠ 1 := by simpa using hw.node_ne_one hn
  rw [den_node t hw (u : Int) n a h1 (by simpa [Tbl.node?] using hn)]
  have : ¬ ((u : Int) < 0) := by omega
  simp only [this, decide_false, Bool.false_bne]
  rw [den_natAbs hw (hw.lo_mem _ _ hn), den_natAbs hw (hw.hi_mem _ _ hn)]
  have := hw.hi_pos _ _ hn
  have h' : ¬ (n.hi < 0) := by omega
  simp [h']

theorem evalG_sound {t : Tbl} (hw : WF t) {g : Graph} (hg : GraphOK t g) {a : Asg} {u : Nat} {b : Bool}
    (h : EvalG g a u b) : b = den t (u : Int) a := by
  induction h with
  | term _ => exact (den_one t a).symm
  | @step u l v c b hu hnode hedge _ ih =>
    obtain ⟨n, hn, he⟩ := hg.edges _ hedge
    simp only at hn
    have hl : l = n.lvl := by
      rw [(hg.nodes u l hnode).2]
      exact levelOf_node t (u : Int) n (by simpa using hu) (by simpa [Tbl.node?] using hn)
    rw [den_nat_node hw hn a, ← hl]
    rcases he with he | he
    · simp only [loEdge, Prod.mk.injEq, true_and] at he
      obtain ⟨hv, hal, hc⟩ := he
      subst hv hc
      rw [hal, ← ih]; simp [Bool.xor_comm]
    · simp only [hiEdge, Prod.mk.injEq, true_and] at he
      obtain ⟨hv, hal, hc⟩ := he
      subst hv hc
      rw [hal, ← ih]; simp

theorem evalG_complete {t : Tbl} (hw : WF t) {g : Graph} (hg : GraphOK t g) (a : Asg) :
    ∀ r : Int, t.Mem r → (∃ l, (r.natAbs, l) ∈ g.1) → EvalG g a r.natAbs (den t (r.natAbs : Int) a) := by
  apply ref_induction hw
  · intro r h1 ⟨l, hl⟩
    rw [h1] at hl ⊢
    have : den t ((1 : Nat) : Int) a = true := den_one t a
    rw [this]; exact EvalG.term hl
  · intro r n h1 hn ihlo ihhi ⟨l, hl⟩
    obtain ⟨elo, ehi, mlo, mhi⟩ := hg.closed _ _ hl n hn
    have hlv : l = n.lvl := by
      rw [(hg.nodes _ _ hl).2, levelOf_natAbs]; exact levelOf_node t r n h1 hn
    rw [den_nat_node hw hn a]
    by_cases hal : a n.lvl = true
    · simp only [hal, if_true]
      have := EvalG.step (a := a) h1 hl (by rw [hlv, hal]; exact ehi) (ihhi mhi)
      simpa using this
    · have hal' : a n.lvl = false := by simpa using hal
      simp only [hal', Bool.false_eq_true, if_false]
      have := EvalG.step (a := a) h1 hl (by rw [hlv, hal']; exact elo) (ihlo mlo)
      rw [Bool.xor_comm]; exact this

/-- evaluating a faithful export from any exported node gives exactly the denotation -/
theorem graph_eval_of_ok {t : Tbl} (hw : WF t) {g : Graph} (hg : GraphOK t g) (r : Int) (hm : t.Mem r)
    (hr : ∃ l, (r.natAbs, l) ∈ g.1) (a : Asg) (b : Bool) :
    EvalRoot g a r b ↔ b = den t r a := by
  rw [den_natAbs hw hm]
  constructor
  · rintro ⟨b', h, rfl⟩; rw [evalG_sound hw hg h]
  · intro h; exact ⟨_, evalG_complete hw hg a r hm hr, h⟩

end DD

namespace DD

/-! ### `graphOf` and `toDot` -/

def nodeEntry (t : Tbl) (x : Nat) : Nat × Nat := (x, t.levelOf (x : Int))

def edgesOf (t : Tbl) (x : Nat) : List (Nat × Nat × Bool × Bool) :=
  match t.succ[x]? with
  | some n => [loEdge x n, hiEdge x n]
  | none => []

theorem levelOf_nat_node {t : Tbl} (hw : WF t) {u : Nat} {n : Nd} (hn : t.succ[u]? = some n) :
    t.levelOf (u : Int) = n.lvl :=
  levelOf_node t (u : Int) n (by simpa using hw.node_ne_one hn) (by simpa [Tbl.node?] using hn)

theorem mem_nat_cases {t : Tbl} {x : Nat} (h : t.Mem (x : Int)) : x = 1 ∨ (x ≠ 1 ∧ ∃ n, t.succ[x]? = some n) := by
  rcases h.cases with h | ⟨h, n, hn⟩
  · left; simpa using h
  · right; exact ⟨by simpa using h, n, by simpa using hn⟩

theorem foldlM_graph {t : Tbl} (F : Graph → Nat → Except Err Graph)
    (hF : ∀ (acc : Graph) (x : Nat), t.Mem (x : Int) → F acc x = .ok (acc.1 ++ [nodeEntry t x], acc.2 ++ edgesOf t x)) :
    ∀ (nodes : List Nat), (∀ x ∈ nodes, t.Mem (x : Int)) → ∀ acc : Graph,
      nodes.foldlM F acc = .ok (acc.1 ++ nodes.map (nodeEntry t), acc.2 ++ nodes.flatMap (edgesOf t)) := by
  intro nodes
  induction nodes with
  | nil => intro _ acc; simp [pure, Except.pure]
  | cons x rest ih =>
    intro hm acc
    rw [List.foldlM_cons, hF acc x (hm x (by simp))]
    simp only [bind, Except.bind]
    rw [ih (fun y hy => hm y (List.mem_cons_of_mem _ hy))]
    simp

theorem graphOf_eq {t : Tbl} (hw : WF t) (nodes : List Nat) (hm : ∀ x ∈ nodes, t.Mem (x : Int)) :
    graphOf t nodes = .ok (nodes.map (nodeEntry t), nodes.flatMap (edgesOf t)) := by
  unfold graphOf
  refine (foldlM_graph _ ?_ nodes hm ([], [])).trans (by simp)
  intro acc x hx
  rcases mem_nat_cases hx with h1 | ⟨h1, n, hn⟩
  · subst h1
    have h0 : t.succ[1]? = none := by
      cases h : t.succ[1]? with
      | none => rfl
      | some n => exact absurd rfl (hw.node_ne_one h)
    simp [nodeEntry, edgesOf, h0, levelOf_term]
  · simp [h1, hn, nodeEntry, edgesOf, levelOf_nat_node hw hn, loEdge, hiEdge]

theorem graphOK_of_closed {t : Tbl} (hw : WF t) (nodes : List Nat) (hm : ∀ x ∈ nodes, t.Mem (x : Int))
    (hc : PreClosed t nodes) : GraphOK t (nodes.map (nodeEntry t), nodes.flatMap (edgesOf t)) := by
  refine ⟨?_, ?_, ?_⟩
  · intro u l h
    obtain ⟨x, hx, he⟩ := List.mem_map.mp h
    simp only [nodeEntry, Prod.mk.injEq] at he
    obtain ⟨rfl, rfl⟩ := he
    exact ⟨hm x hx, rfl⟩
  · intro e he
    obtain ⟨x, hx, hex⟩ := List.mem_flatMap.mp he
    unfold edgesOf at hex
    split at hex
    · next n hn =>
      rcases List.mem_cons.mp hex with h | h
      · subst h; exact ⟨n, hn, Or.inl rfl⟩
      · rw [List.mem_singleton] at h; subst h; exact ⟨n, hn, Or.inr rfl⟩
    · simp at hex
  · intro u l h n hn
    obtain ⟨x, hx, he⟩ := List.mem_map.mp h
    simp only [nodeEntry, Prod.mk.injEq] at he
    obtain ⟨rfl, rfl⟩ := he
    obtain ⟨clo, chi⟩ := hc x hx n hn
    refine ⟨?_, ?_, ⟨_, List.mem_map.mpr ⟨_, clo, rfl⟩⟩, ⟨_, List.mem_map.mpr ⟨_, chi, rfl⟩⟩⟩
    · exact List.mem_flatMap.mpr ⟨x, hx, by simp [edgesOf, hn]⟩
    · exact List.mem_flatMap.mpr ⟨x, hx, by simp [edgesOf, hn]⟩

/-- `_to_dot(roots=None)`: all nodes of the manager -/
theorem toDot_none_ok {t : Tbl} (hw : WF t) :
    ∃ g, toDot t none = .ok g ∧ GraphOK t g ∧ ∀ r : Int, t.Mem r → ∃ l, (r.natAbs, l) ∈ g.1 := by
  have hm : ∀ x ∈ 1 :: t.succ.keys, t.Mem (x : Int) := by
    intro x hx
    rcases List.mem_cons.mp hx with hx | hx
    · subst hx; exact Or.inl rfl
    · right
      have : x ∈ t.succ := TreeMap.mem_keys.mp hx
      simpa [Tbl.node?] using this
  have hall : ∀ r : Int, t.Mem r → r.natAbs ∈ 1 :: t.succ.keys := by
    intro r hr
    rcases hr.cases with h | ⟨_, n, hn⟩
    · rw [h]; simp
    · apply List.mem_cons_of_mem
      apply TreeMap.mem_keys.mpr
      rw [TreeMap.mem_iff_isSome_getElem?, hn]; rfl
  refine ⟨_, by simp only [toDot]; exact graphOf_eq hw _ hm, graphOK_of_closed hw _ hm ?_, ?_⟩
  · intro v hv n hn
    exact ⟨hall _ (hw.lo_mem _ _ hn), hall _ (hw.hi_mem _ _ hn)⟩
  · intro r hr
    exact ⟨_, List.mem_map.mpr ⟨_, hall r hr, rfl⟩⟩

/-- `_to_dot(roots)`: the nodes reachable from the roots -/
theorem toDot_some_ok {t : Tbl} (hw : WF t) (roots : List Int) (hne : roots ≠ [])
    (hm : ∀ r ∈ roots, t.Mem r) :
    ∃ g, toDot t (some roots) = .ok g ∧ GraphOK t g ∧
      (∀ u l, (u, l) ∈ g.1 → ∃ r ∈ roots, Reach t r.natAbs u) ∧
      ∀ r ∈ roots, ∀ v, Reach t r.natAbs v → ∃ l, (v, l) ∈ g.1 := by
  obtain ⟨ns, e, _, s⟩ := descendants_spec' hw roots hm
  have h1 : 1 ∈ ns := by
    cases roots with
    | nil => exact absurd rfl hne
    | cons r rest => exact (s 1).mpr ⟨r, by simp, reach_term hw r (hm r (by simp))⟩
  have hmem : ∀ x ∈ ns, t.Mem (x : Int) := by
    intro x hx
    obtain ⟨r, hr, hreach⟩ := (s x).mp hx
    exact hreach.mem hw (mem_natAbs (hm r hr))
  have hcl : PreClosed t ns := by
    intro v hv n hn
    obtain ⟨r, hr, hreach⟩ := (s v).mp hv
    exact ⟨(s _).mpr ⟨r, hr, hreach.trans (Reach.lo hn (Reach.refl _))⟩,
      (s _).mpr ⟨r, hr, hreach.trans (Reach.hi hn (Reach.refl _))⟩⟩
  refine ⟨_, ?_, graphOK_of_closed hw ns hmem hcl, ?_, ?_⟩
  · have hc1 : ns.contains 1 = true := List.contains_iff_mem.mpr h1
    rw [show toDot t (some roots) = graphOf t ns from by simp [toDot, e, h1]]
    exact graphOf_eq hw ns hmem
  · intro u l h
    obtain ⟨x, hx, he⟩ := List.mem_map.mp h
    simp only [nodeEntry, Prod.mk.injEq] at he
    obtain ⟨rfl, _⟩ := he
    exact (s x).mp hx
  · intro r hr v hv
    exact ⟨_, List.mem_map.mpr ⟨v, (s v).mpr ⟨r, hr, hv⟩, rfl⟩⟩

end DD

namespace DD

/-! ### `toNx` -/

def HasKey (ns : List (Nat × Nat)) (v : Nat) : Prop := ∃ l, (v, l) ∈ ns

theorem any_key_iff (ns : List (Nat × Nat)) (v : Nat) :
    ns.any (fun p => decide (p.1 = v)) = true ↔ HasKey ns v := by
  unfold HasKey
  rw [List.any_eq_true]
  constructor
  · rintro ⟨⟨x, l⟩, hp, he⟩
    simp only [decide_eq_true_eq] at he
    subst he; exact ⟨l, hp⟩
  · rintro ⟨l, hl⟩; exact ⟨(v, l), hl, by simp⟩

/-- invariant of the `while Q:` loop of `to_nx` -/
structure NxInv (t : Tbl) (work : List Nat) (g : Graph) : Prop where
  nodes : ∀ u l, (u, l) ∈ g.1 → t.Mem (u : Int) ∧ l = t.levelOf (u : Int)
  edges : ∀ e ∈ g.2, ∃ n, t.succ[e.1]? = some n ∧ (e = loEdge e.1 n ∨ e = hiEdge e.1 n)
  work_mem : ∀ x ∈ work, t.Mem (x : Int)
  done : ∀ u, HasKey g.1 u → u ∈ work ∨ ∀ n, t.succ[u]? = some n →
    loEdge u n ∈ g.2 ∧ hiEdge u n ∈ g.2 ∧
    (HasKey g.1 n.lo.natAbs ∨ n.lo.natAbs ∈ work) ∧ (HasKey g.1 n.hi.natAbs ∨ n.hi.natAbs ∈ work)

theorem NxInv.graphOK {t : Tbl} {g : Graph} (h : NxInv t [] g) : GraphOK t g := by
  refine ⟨h.nodes, h.edges, ?_⟩
  intro u l hu n hn
  rcases h.done u ⟨l, hu⟩ with h' | h'
  · simp at h'
  · obtain ⟨a, b, c, d⟩ := h' n hn
    refine ⟨a, b, ?_, ?_⟩
    · rcases c with c | c
      · exact c
      · simp at c
    · rcases d with d | d
      · exact d
      · simp at d

/-- ghost bookkeeping for the fuel: every member is exported, pending, or still unseen -/
def NxGhost (t : Tbl) (ns : List (Nat × Nat)) (work U : List Nat) : Prop :=
  ∀ x : Nat, t.Mem (x : Int) → HasKey ns x ∨ x ∈ work ∨ x ∈ U

theorem nx_push {t : Tbl} {ns : List (Nat × Nat)} {work U : List Nat} (hG : NxGhost t ns work U)
    {v : Nat} (hv : t.Mem (v : Int)) :
    ∃ work1 U1, (if ns.any (fun p => decide (p.1 = v)) then work else pushNew work v) = work1 ∧
      NxGhost t ns work1 U1 ∧ work1.length + U1.length ≤ work.length + U.length ∧
      (∀ x ∈ work, x ∈ work1) ∧ (∀ x ∈ work1, x ∈ work ∨ x = v) ∧ (HasKey ns v ∨ v ∈ work1) := by
  by_cases hk : HasKey ns v
  · refine ⟨work, U, by simp [(any_key_iff ns v).mpr hk], hG, Nat.le_refl _, fun _ h => h,
      fun _ h => Or.inl h, Or.inl hk⟩
  · have hk' : ns.any (fun p => decide (p.1 = v)) = false := by
      rw [← Bool.not_eq_true, any_key_iff]; exact hk
    by_cases hin : v ∈ work
    · refine ⟨work, U, ?_, hG, Nat.le_refl _, fun _ h => h, fun _ h => Or.inl h, Or.inr hin⟩
      simp [hk', pushNew, hin]
    · have hU : v ∈ U := by
        rcases hG v hv with h | h | h
        · exact absurd h hk
        · exact absurd h hin
        · exact h
      refine ⟨work ++ [v], U.erase v, ?_, ?_, ?_, ?_, ?_, ?_⟩
      · simp [hk', pushNew, hin]
      · intro x hx
        rcases hG x hx with h | h | h
        · exact Or.inl h
        · exact Or.inr (Or.inl (List.mem_append_left _ h))
        · by_cases hxv : x = v
          · subst hxv; exact Or.inr (Or.inl (by simp))
          · exact Or.inr (Or.inr ((List.mem_erase_of_ne hxv).mpr h))
      · rw [List.length_append, List.length_erase_of_mem hU]
        have : 0 < U.length := List.length_pos_of_mem hU
        simp only [List.length_singleton]; omega
      · intro x hx; exact List.mem_append_left _ hx
      · intro x hx
        rcases List.mem_append.mp hx with h | h
        · exact Or.inl h
        · exact Or.inr (by simpa using h)
      · exact Or.inr (by simp)

theorem nxLoop_spec {t : Tbl} (hw : WF t) :
    ∀ f work ns es U, NxInv t work (ns, es) → NxGhost t ns work U → work.length + U.length ≤ f →
      ∃ g', nxLoop t f work (ns, es) = .ok g' ∧ NxInv t [] g' ∧
        (∀ p ∈ ns, p ∈ g'.1) ∧ (∀ x ∈ work, HasKey g'.1 x) ∧
        (∀ u, HasKey g'.1 u → HasKey ns u ∨ ∃ x ∈ work, Reach t x u) := by
  intro f
  induction f with
  | zero =>
    intro work ns es U hI _ hf
    have : work = [] := List.eq_nil_of_length_eq_zero (by omega)
    subst this
    exact ⟨(ns, es), by simp [nxLoop], hI, fun _ h => h, by simp, fun _ h => Or.inl h⟩
  | succ f ih =>
    intro work ns es U hI hG hf
    cases work with
    | nil => exact ⟨(ns, es), by simp [nxLoop], hI, fun _ h => h, by simp, fun _ h => Or.inl h⟩
    | cons u work =>
      have hmu : t.Mem (u : Int) := hI.work_mem u (by simp)
      simp only [List.length_cons] at hf
      rcases mem_nat_cases hmu with h1 | ⟨h1, n, hn⟩
      · -- the terminal
        subst h1
        have h0 : ∀ n, t.succ[1]? = some n → False := fun n h => hw.node_ne_one h rfl
        obtain ⟨ns', ens, hsub, hkey, hnew⟩ : ∃ ns', (if ns.any (fun p => decide (p.1 = 1)) then ns
            else ns ++ [(1, t.nvars)]) = ns' ∧ (∀ p ∈ ns, p ∈ ns') ∧ HasKey ns' 1 ∧
            (∀ p ∈ ns', p ∈ ns ∨ p = (1, t.nvars)) := by
          by_cases hk : HasKey ns 1
          · exact ⟨ns, by simp [(any_key_iff ns 1).mpr hk], fun _ h => h, hk, fun _ h => Or.inl h⟩
          · have hk' : ns.any (fun p => decide (p.1 = 1)) = false := by
              rw [← Bool.not_eq_true, any_key_iff]; exact hk
            exact ⟨ns ++ [(1, t.nvars)], by simp [hk'], fun _ h => List.mem_append_left _ h,
              ⟨t.nvars, by simp⟩, fun p hp => by simpa using hp⟩
        have hI' : NxInv t work (ns', es) := by
          refine ⟨?_, hI.edges, fun x hx => hI.work_mem x (List.mem_cons_of_mem _ hx), ?_⟩
          · intro x l hx
            rcases hnew _ hx with h | h
            · exact hI.nodes x l h
            · cases h; exact ⟨Or.inl rfl, (levelOf_term t _ rfl).symm⟩
          · intro x ⟨l, hx⟩
            by_cases hx1 : x = 1
            · subst hx1; right; intro n hn; exact absurd hn (fun h => h0 n h)
            · have hx' : (x, l) ∈ ns := by
                rcases hnew _ hx with h | h
                · exact h
                · cases h; exact absurd rfl hx1
              rcases hI.done x ⟨l, hx'⟩ with h | h
              · rcases List.mem_cons.mp h with h | h
                · exact absurd h hx1
                · exact Or.inl h
              · right; intro n hn
                obtain ⟨a, b, c, d⟩ := h n hn
                refine ⟨a, b, ?_, ?_⟩
                · rcases c with ⟨l', c⟩ | c
                  · exact Or.inl ⟨l', hsub _ c⟩
                  · rcases List.mem_cons.mp c with c | c
                    · rw [c]; exact Or.inl hkey
                    · exact Or.inr c
                · rcases d with ⟨l', d⟩ | d
                  · exact Or.inl ⟨l', hsub _ d⟩
                  · rcases List.mem_cons.mp d with d | d
                    · rw [d]; exact Or.inl hkey
                    · exact Or.inr d
        have hG' : NxGhost t ns' work U := by
          intro x hx
          rcases hG x hx with ⟨l, h⟩ | h | h
          · exact Or.inl ⟨l, hsub _ h⟩
          · rcases List.mem_cons.mp h with h | h
            · rw [h]; exact Or.inl hkey
            · exact Or.inr (Or.inl h)
          · exact Or.inr (Or.inr h)
        obtain ⟨g', e', I', s', k', r'⟩ := ih work ns' es U hI' hG' (by omega)
        refine ⟨g', ?_, I', fun p hp => s' p (hsub p hp), ?_, ?_⟩
        · rw [nxLoop]; simp only [if_true]; rw [ens]; exact e'
        · intro x hx
          rcases List.mem_cons.mp hx with h | h
          · rw [h]; obtain ⟨l, hl⟩ := hkey; exact ⟨l, s' _ hl⟩
          · exact k' x h
        · intro x hx
          rcases r' x hx with ⟨l, h⟩ | ⟨y, hy, h⟩
          · rcases hnew _ h with h | h
            · exact Or.inl ⟨l, h⟩
            · cases h; exact Or.inr ⟨1, by simp, Reach.refl 1⟩
          · exact Or.inr ⟨y, List.mem_cons_of_mem _ hy, h⟩
      · -- a stored node
        obtain ⟨ns', ens, hsub, hkey, hnew⟩ : ∃ ns', (if ns.any (fun p => decide (p.1 = u)) then ns
            else ns ++ [(u, n.lvl)]) = ns' ∧ (∀ p ∈ ns, p ∈ ns') ∧ HasKey ns' u ∧
            (∀ p ∈ ns', p ∈ ns ∨ p = (u, n.lvl)) := by
          by_cases hk : HasKey ns u
          · exact ⟨ns, by simp [(any_key_iff ns u).mpr hk], fun _ h => h, hk, fun _ h => Or.inl h⟩
          · have hk' : ns.any (fun p => decide (p.1 = u)) = false := by
              rw [← Bool.not_eq_true, any_key_iff]; exact hk
            exact ⟨ns ++ [(u, n.lvl)], by simp [hk'], fun _ h => List.mem_append_left _ h,
              ⟨n.lvl, by simp⟩, fun p hp => by simpa using hp⟩
        have hG0 : NxGhost t ns' work U := by
          intro x hx
          rcases hG x hx with ⟨l, h⟩ | h | h
          · exact Or.inl ⟨l, hsub _ h⟩
          · rcases List.mem_cons.mp h with h | h
            · rw [h]; exact Or.inl hkey
            · exact Or.inr (Or.inl h)
          · exact Or.inr (Or.inr h)
        have hmlo : t.Mem ((n.lo.natAbs : Nat) : Int) := mem_natAbs (hw.lo_mem _ _ hn)
        have hmhi : t.Mem ((n.hi.natAbs : Nat) : Int) := mem_natAbs (hw.hi_mem _ _ hn)
        obtain ⟨work1, U1, ew1, hG1, len1, sub1, new1, key1⟩ := nx_push hG0 hmlo
        obtain ⟨work2, U2, ew2, hG2, len2, sub2, new2, key2⟩ := nx_push hG1 hmhi
        have hI' : NxInv t work2 (ns', es ++ [loEdge u n, hiEdge u n]) := by
          refine ⟨?_, ?_, ?_, ?_⟩
          · intro x l hx
            rcases hnew _ hx with h | h
            · exact hI.nodes x l h
            · cases h; exact ⟨hmu, (levelOf_nat_node hw hn).symm⟩
          · intro e he
            rcases List.mem_append.mp he with h | h
            · exact hI.edges e h
            · rcases List.mem_cons.mp h with h | h
              · subst h; exact ⟨n, hn, Or.inl rfl⟩
              · rw [List.mem_singleton] at h; subst h; exact ⟨n, hn, Or.inr rfl⟩
          · intro x hx
            rcases new2 x hx with h | h
            · rcases new1 x h with h | h
              · exact hI.work_mem x (List.mem_cons_of_mem _ h)
              · rw [h]; exact hmlo
            · rw [h]; exact hmhi
          · intro x ⟨l, hx⟩
            by_cases hxu : x = u
            · subst hxu; right; intro n' hn'
              rw [hn] at hn'; cases hn'
              refine ⟨by simp, by simp, ?_, key2⟩
              rcases key1 with h | h
              · exact Or.inl h
              · exact Or.inr (sub2 _ h)
            · have hx' : (x, l) ∈ ns := by
                rcases hnew _ hx with h | h
                · exact h
                · cases h; exact absurd rfl hxu
              rcases hI.done x ⟨l, hx'⟩ with h | h
              · rcases List.mem_cons.mp h with h | h
                · exact absurd h hxu
                · exact Or.inl (sub2 _ (sub1 _ h))
              · right; intro n' hn'
                obtain ⟨a, b, c, d⟩ := h n' hn'
                refine ⟨List.mem_append_left _ a, List.mem_append_left _ b, ?_, ?_⟩
                · rcases c with ⟨l', c⟩ | c
                  · exact Or.inl ⟨l', hsub _ c⟩
                  · rcases List.mem_cons.mp c with c | c
                    · rw [c]; exact Or.inl hkey
                    · exact Or.inr (sub2 _ (sub1 _ c))
                · rcases d with ⟨l', d⟩ | d
                  · exact Or.inl ⟨l', hsub _ d⟩
                  · rcases List.mem_cons.mp d with d | d
                    · rw [d]; exact Or.inl hkey
                    · exact Or.inr (sub2 _ (sub1 _ d))
        obtain ⟨g', e', I', s', k', r'⟩ := ih work2 ns' _ U2 hI' hG2 (by omega)
        refine ⟨g', ?_, I', fun p hp => s' p (hsub p hp), ?_, ?_⟩
        · rw [nxLoop]; simp only [h1, if_false, hn]
          rw [ens]
          rw [ew1, ew2]; exact e'
        · intro x hx
          rcases List.mem_cons.mp hx with h | h
          · rw [h]; obtain ⟨l, hl⟩ := hkey; exact ⟨l, s' _ hl⟩
          · exact k' x (sub2 _ (sub1 _ h))
        · intro x hx
          rcases r' x hx with ⟨l, h⟩ | ⟨y, hy, h⟩
          · rcases hnew _ h with h | h
            · exact Or.inl ⟨l, h⟩
            · cases h; exact Or.inr ⟨u, by simp, Reach.refl u⟩
          · rcases new2 y hy with hy | hy
            · rcases new1 y hy with hy | hy
              · exact Or.inr ⟨y, List.mem_cons_of_mem _ hy, h⟩
              · subst hy; exact Or.inr ⟨u, by simp, Reach.lo hn h⟩
            · subst hy; exact Or.inr ⟨u, by simp, Reach.hi hn h⟩

end DD

namespace DD

theorem GraphOK.reach {t : Tbl} {g : Graph} (hg : GraphOK t g) {u v : Nat} (hr : Reach t u v) :
    HasKey g.1 u → HasKey g.1 v := by
  induction hr with
  | refl => exact id
  | lo hn _ ih => rintro ⟨l, hl⟩; exact ih (hg.closed _ _ hl _ hn).2.2.1
  | hi hn _ ih => rintro ⟨l, hl⟩; exact ih (hg.closed _ _ hl _ hn).2.2.2

theorem toNx_fold {t : Tbl} (hw : WF t) (F : Graph → Int → Except Err Graph)
    (hF : ∀ g r, t.Mem r → F g r = nxLoop t (t.succ.size + 2) [r.natAbs] g) :
    ∀ roots : List Int, (∀ r ∈ roots, t.Mem r) → ∀ g, NxInv t [] g →
      ∃ g', roots.foldlM F g = .ok g' ∧ NxInv t [] g' ∧ (∀ p ∈ g.1, p ∈ g'.1) ∧
        (∀ r ∈ roots, HasKey g'.1 r.natAbs) ∧
        (∀ u, HasKey g'.1 u → HasKey g.1 u ∨ ∃ r ∈ roots, Reach t r.natAbs u) := by
  intro roots
  induction roots with
  | nil => intro _ g hI; exact ⟨g, by simp [pure, Except.pure], hI, fun _ h => h, by simp, fun _ h => Or.inl h⟩
  | cons r rest ih =>
    intro hm g hI
    obtain ⟨ns, es⟩ := g
    have hmr := hm r (by simp)
    have hI0 : NxInv t [r.natAbs] (ns, es) := by
      refine ⟨hI.nodes, hI.edges, ?_, ?_⟩
      · intro x hx; rw [List.mem_singleton] at hx; subst hx; exact mem_natAbs hmr
      · intro u hu
        rcases hI.done u hu with h | h
        · simp at h
        · right; intro n hn
          obtain ⟨a, b, c, d⟩ := h n hn
          refine ⟨a, b, ?_, ?_⟩
          · rcases c with c | c
            · exact Or.inl c
            · simp at c
          · rcases d with d | d
            · exact Or.inl d
            · simp at d
    have hG : NxGhost t ns [r.natAbs] (1 :: t.succ.keys) := by
      intro x hx
      right; right
      rcases mem_nat_cases hx with h | ⟨_, n, hn⟩
      · simp [h]
      · apply List.mem_cons_of_mem
        apply TreeMap.mem_keys.mpr
        rw [TreeMap.mem_iff_isSome_getElem?, hn]; rfl
    obtain ⟨g1, e1, I1, s1, k1, r1⟩ := nxLoop_spec hw (t.succ.size + 2) [r.natAbs] ns es _ hI0 hG
      (by simp [TreeMap.length_keys]; omega)
    obtain ⟨g2, e2, I2, s2, k2, r2⟩ := ih (fun x hx => hm x (List.mem_cons_of_mem _ hx)) g1 I1
    refine ⟨g2, ?_, I2, fun p hp => s2 p (s1 p hp), ?_, ?_⟩
    · rw [List.foldlM_cons, hF _ r hmr, e1]
      exact e2
    · intro x hx
      rcases List.mem_cons.mp hx with h | h
      · subst h
        obtain ⟨l, hl⟩ := k1 x.natAbs (by simp)
        exact ⟨l, s2 _ hl⟩
      · exact k2 x h
    · intro u hu
      rcases r2 u hu with h | ⟨y, hy, h⟩
      · rcases r1 u h with h | ⟨y, hy, h⟩
        · exact Or.inl h
        · rw [List.mem_singleton] at hy; subst hy
          exact Or.inr ⟨r, by simp, h⟩
      · exact Or.inr ⟨y, List.mem_cons_of_mem _ hy, h⟩

/-- `to_nx(bdd, roots)`: a faithful export of exactly the nodes reachable from the roots
(edges of a root that was already exported are repeated: the result is a multigraph, and the
repeated edges are identical, as `GraphOK.edges` says every edge is one of the two of its source) -/
theorem toNx_ok {t : Tbl} (hw : WF t) (roots : List Int) (hm : ∀ r ∈ roots, t.Mem r) :
    ∃ g, toNx t roots = .ok g ∧ GraphOK t g ∧
      ∀ u, HasKey g.1 u ↔ ∃ r ∈ roots, Reach t r.natAbs u := by
  have hI0 : NxInv t [] (([], []) : Graph) := by
    refine ⟨by simp, by simp, by simp, ?_⟩
    rintro u ⟨l, hl⟩; simp at hl
  obtain ⟨g, e, I, _, k, r⟩ := toNx_fold hw
    (fun g r => if !t.mem r then .error .value else nxLoop t (t.succ.size + 2) [r.natAbs] g)
    (by intro g r hr; simp [(Tbl.mem_iff t r).mpr hr]) roots hm _ hI0
  refine ⟨g, e, I.graphOK, ?_⟩
  intro u
  constructor
  · intro hu
    rcases r u hu with ⟨l, h⟩ | h
    · simp at h
    · exact h
  · rintro ⟨x, hx, hr⟩
    exact I.graphOK.reach hr (k x hx)

end DD

namespace DD

/-! ### an executable evaluator of the exported graph -/

/-- follow the FIRST matching edge; `fuel` bounds the path length -/
def evalGraphF (g : Graph) (a : Asg) : Nat → Nat → Option Bool
  | 0, _ => none
  | f+1, u =>
    match g.1.lookup u with
    | none => none
    | some l =>
      if u = 1 then some true else
      match g.2.find? (fun e => e.1 == u && e.2.2.1 == a l) with
      | none => none
      | some e => (evalGraphF g a f e.2.1).map (· ^^ e.2.2.2)

theorem lookup_of_hasKey {ns : List (Nat × Nat)} {u : Nat} (h : HasKey ns u) :
    ∃ l, ns.lookup u = some l ∧ (u, l) ∈ ns := by
  induction ns with
  | nil => obtain ⟨l, hl⟩ := h; simp at hl
  | cons p ns ih =>
    obtain ⟨k, v⟩ := p
    rw [List.lookup_cons]
    by_cases hk : u = k
    · subst hk; exact ⟨v, by simp, by simp⟩
    · have hne : (u == k) = false := by simpa using hk
      rw [hne]
      obtain ⟨l, hl⟩ := h
      have : (u, l) ∈ ns := by
        rcases List.mem_cons.mp hl with h' | h'
        · cases h'; exact absurd rfl hk
        · exact h'
      obtain ⟨l', e, m⟩ := ih ⟨l, this⟩
      exact ⟨l', e, List.mem_cons_of_mem _ m⟩

/-- the executable evaluator computes the denotation on a faithful export -/
theorem evalGraphF_eq {t : Tbl} (hw : WF t) {g : Graph} (hg : GraphOK t g) (a : Asg) :
    ∀ f (u : Nat), t.Mem (u : Int) → HasKey g.1 u → t.nvars + 1 ≤ f + t.levelOf (u : Int) →
      evalGraphF g a f u = some (den t (u : Int) a) := by
  intro f
  induction f with
  | zero => intro u _ _ hf; have := levelOf_le t hw (u : Int); omega
  | succ f ih =>
    intro u hm hk hf
    obtain ⟨l, hlook, hmem⟩ := lookup_of_hasKey hk
    rw [evalGraphF, hlook]
    rcases mem_nat_cases hm with h1 | ⟨h1, n, hn⟩
    · subst h1; simp only [if_true]
      have : den t ((1 : Nat) : Int) a = true := den_one t a
      rw [this]
    · simp only [h1, if_false]
      have hl : l = n.lvl := by rw [(hg.nodes u l hmem).2]; exact levelOf_nat_node hw hn
      obtain ⟨elo, ehi, klo, khi⟩ := hg.closed u l hmem n hn
      have hlu := levelOf_nat_node hw hn
      cases hfind : g.2.find? (fun e => e.1 == u && e.2.2.1 == a l) with
      | none =>
        exfalso
        have h0 := List.find?_eq_none.mp hfind
        cases hal : a l
        · have := h0 _ elo; simp [loEdge, hal] at this
        · have := h0 _ ehi; simp [hiEdge, hal] at this
      | some e =>
        have hp := List.find?_some hfind
        have he := List.mem_of_find?_eq_some hfind
        simp only [Bool.and_eq_true, beq_iff_eq] at hp
        obtain ⟨n', hn', hform⟩ := hg.edges e he
        rw [hp.1, hn] at hn'; cases hn'
        simp only
        rw [den_nat_node hw hn a, ← hl, ← hp.2]
        rcases hform with hform | hform
        · rw [hform]
          simp only [loEdge]
          rw [ih _ (mem_natAbs (hw.lo_mem _ _ hn)) klo (by
            rw [levelOf_natAbs]; have := hw.lo_lt _ _ hn; omega)]
          simp [Bool.xor_comm]
        · rw [hform]
          simp only [hiEdge]
          rw [ih _ (mem_natAbs (hw.hi_mem _ _ hn)) khi (by
            rw [levelOf_natAbs]; have := hw.hi_lt _ _ hn; omega)]
          simp

end DD
