/-
  DDProofs.SatGraph — the exported abstract graph (`graphOf`, `toDot`, `toNx`) evaluates
  to the denotation.
-/
import DDProofs.SatSupport
open Std

namespace DD

/-- exported graph: nodes `(u, level)`, edges `(src, dst, value, complement)` -/
abbrev Graph := List (Nat × Nat) × List (Nat × Nat × Bool × Bool)

/-- Evaluation of an exported graph at a node (the value of the *regular* reference to the
node): at the terminal `true`; elsewhere read the node's level label, follow ANY edge whose
`value` mark equals the assignment's value at that level, and flip the result when the edge
carries a complement mark.  Relational, so that a multigraph with repeated edges is covered. -/
inductive EvalG (g : Graph) (a : Asg) : Nat → Bool → Prop
  | term {l : Nat} : (1, l) ∈ g.1 → EvalG g a 1 true
  | step {u l v : Nat} {c b : Bool} : u ≠ 1 → (u, l) ∈ g.1 → (u, v, a l, c) ∈ g.2 →
      EvalG g a v b → EvalG g a u (b ^^ c)

/-- evaluation from a (possibly complemented) root reference -/
def EvalRoot (g : Graph) (a : Asg) (r : Int) (b : Bool) : Prop :=
  ∃ b', EvalG g a r.natAbs b' ∧ b = ((decide (r < 0)) ^^ b')

def loEdge (u : Nat) (n : Nd) : Nat × Nat × Bool × Bool := (u, n.lo.natAbs, false, decide (n.lo < 0))
def hiEdge (u : Nat) (n : Nd) : Nat × Nat × Bool × Bool := (u, n.hi.natAbs, true, false)

/-- what makes an exported graph faithful to the table -/
structure GraphOK (t : Tbl) (g : Graph) : Prop where
  nodes : ∀ u l, (u, l) ∈ g.1 → t.Mem (u : Int) ∧ l = t.levelOf (u : Int)
  edges : ∀ e ∈ g.2, ∃ n, t.succ[e.1]? = some n ∧ (e = loEdge e.1 n ∨ e = hiEdge e.1 n)
  closed : ∀ u l, (u, l) ∈ g.1 → ∀ n, t.succ[u]? = some n →
    loEdge u n ∈ g.2 ∧ hiEdge u n ∈ g.2 ∧
    (∃ l', (n.lo.natAbs, l') ∈ g.1) ∧ (∃ l', (n.hi.natAbs, l') ∈ g.1)

theorem den_natAbs {t : Tbl} (hw : WF t) {u : Int} (hm : t.Mem u) (a : Asg) :
    den t u a = ((decide (u < 0)) ^^ den t (u.natAbs : Int) a) := by
  by_cases h : u < 0
  · have : (u.natAbs : Int) = -u := by omega
    rw [this, den_neg t hw u a hm]; simp [h]
  · have : (u.natAbs : Int) = u := by omega
    rw [this]; simp [h]

theorem den_nat_node {t : Tbl} (hw : WF t) {u : Nat} {n : Nd} (hn : t.succ[u]? = some n) (a : Asg) :
    den t (u : Int) a = if a n.lvl then den t (n.hi.natAbs : Int) a
      else ((decide (n.lo < 0)) ^^ den t (n.lo.natAbs : Int) a) := by
  have h1 : (u : Int).natAbs ≠ 1 := by simpa using hw.node_ne_one hn
  rw [den_node t hw (u : Int) n a h1 (by simpa [Tbl.node?] using hn)]
  have : ¬ ((u : Int) < 0) := by omega
  simp only [this, decide_false, Bool.false_bne]
  rw [den_natAbs hw (hw.lo_mem _ _ hn), den_natAbs hw (hw.hi_mem _ _ hn)]
  have := hw.hi_pos _ _ hn
  have h' : ¬ (n.hi < 0) := by omega
  simp [h']

theorem evalG_sound {t : Tbl} (hw : WF t) {g : Graph} (hg : GraphOK t g) {a : Asg} {u : Nat} {b : Bool}
    (h : EvalG g a u b) : b = den t (u : Int) a := by
  induction h with
  | term _ => exact (den_one t a).symm
  | @step u l v c b hu hnode hedge _ ih =>
    obtain ⟨n, hn, he⟩ := hg.edges _ hedge
    simp only at hn
    have hl : l = n.lvl := by
      rw [(hg.nodes u l hnode).2]
      exact levelOf_node t (u : Int) n (by simpa using hu) (by simpa [Tbl.node?] using hn)
    rw [den_nat_node hw hn a, ← hl]
    rcases he with he | he
    · simp only [loEdge, Prod.mk.injEq, true_and] at he
      obtain ⟨hv, hal, hc⟩ := he
      subst hv hc
      rw [hal, ← ih]; simp [Bool.xor_comm]
    · simp only [hiEdge, Prod.mk.injEq, true_and] at he
      obtain ⟨hv, hal, hc⟩ := he
      subst hv hc
      rw [hal, ← ih]; simp

theorem evalG_complete {t : Tbl} (hw : WF t) {g : Graph} (hg : GraphOK t g) (a : Asg) :
    ∀ r : Int, t.Mem r → (∃ l, (r.natAbs, l) ∈ g.1) → EvalG g a r.natAbs (den t (r.natAbs : Int) a) := by
  apply ref_induction hw
  · intro r h1 ⟨l, hl⟩
    rw [h1] at hl ⊢
    have : den t ((1 : Nat) : Int) a = true := den_one t a
    rw [this]; exact EvalG.term hl
  · intro r n h1 hn ihlo ihhi ⟨l, hl⟩
    obtain ⟨elo, ehi, mlo, mhi⟩ := hg.closed _ _ hl n hn
    have hlv : l = n.lvl := by
      rw [(hg.nodes _ _ hl).2, levelOf_natAbs]; exact levelOf_node t r n h1 hn
    rw [den_nat_node hw hn a]
    by_cases hal : a n.lvl = true
    · simp only [hal, if_true]
      have := EvalG.step (a := a) h1 hl (by rw [hlv, hal]; exact ehi) (ihhi mhi)
      simpa using this
    · have hal' : a n.lvl = false := by simpa using hal
      simp only [hal', Bool.false_eq_true, if_false]
      have := EvalG.step (a := a) h1 hl (by rw [hlv, hal']; exact elo) (ihlo mlo)
      rw [Bool.xor_comm]; exact this

/-- evaluating a faithful export from any exported node gives exactly the denotation -/
theorem graph_eval_of_ok {t : Tbl} (hw : WF t) {g : Graph} (hg : GraphOK t g) (r : Int) (hm : t.Mem r)
    (hr : ∃ l, (r.natAbs, l) ∈ g.1) (a : Asg) (b : Bool) :
    EvalRoot g a r b ↔ b = den t r a := by
  rw [den_natAbs hw hm]
  constructor
  · rintro ⟨b', h, rfl⟩; rw [evalG_sound hw hg h]
  · intro h; exact ⟨_, evalG_complete hw hg a r hm hr, h⟩

end DD

namespace DD

/-! ### `graphOf` and `toDot` -/

def nodeEntry (t : Tbl) (x : Nat) : Nat × Nat := (x, t.levelOf (x : Int))

def edgesOf (t : Tbl) (x : Nat) : List (Nat × Nat × Bool × Bool) :=
  match t.succ[x]? with
  | some n => [loEdge x n, hiEdge x n]
  | none => []

theorem levelOf_nat_node {t : Tbl} (hw : WF t) {u : Nat} {n : Nd} (hn : t.succ[u]? = some n) :
    t.levelOf (u : Int) = n.lvl :=
  levelOf_node t (u : Int) n (by simpa using hw.node_ne_one hn) (by simpa [Tbl.node?] using hn)

theorem mem_nat_cases {t : Tbl} {x : Nat} (h : t.Mem (x : Int)) : x = 1 ∨ (x ≠ 1 ∧ ∃ n, t.succ[x]? = some n) := by
  rcases h.cases with h | ⟨h, n, hn⟩
  · left; simpa using h
  · right; exact ⟨by simpa using h, n, by simpa using hn⟩

theorem foldlM_graph {t : Tbl} (F : Graph → Nat → Except Err Graph)
    (hF : ∀ (acc : Graph) (x : Nat), t.Mem (x : Int) → F acc x = .ok (acc.1 ++ [nodeEntry t x], acc.2 ++ edgesOf t x)) :
    ∀ (nodes : List Nat), (∀ x ∈ nodes, t.Mem (x : Int)) → ∀ acc : Graph,
      nodes.foldlM F acc = .ok (acc.1 ++ nodes.map (nodeEntry t), acc.2 ++ nodes.flatMap (edgesOf t)) := by
  intro nodes
  induction nodes with
  | nil => intro _ acc; simp [pure, Except.pure]
  | cons x rest ih =>
    intro hm acc
    rw [List.foldlM_cons, hF acc x (hm x (by simp))]
    simp only [bind, Except.bind]
    rw [ih (fun y hy => hm y (List.mem_cons_of_mem _ hy))]
    simp

theorem graphOf_eq {t : Tbl} (hw : WF t) (nodes : List Nat) (hm : ∀ x ∈ nodes, t.Mem (x : Int)) :
    graphOf t nodes = .ok (nodes.map (nodeEntry t), nodes.flatMap (edgesOf t)) := by
  unfold graphOf
  refine (foldlM_graph _ ?_ nodes hm ([], [])).trans (by simp)
  intro acc x hx
  rcases mem_nat_cases hx with h1 | ⟨h1, n, hn⟩
  · subst h1
    have h0 : t.succ[1]? = none := by
      cases h : t.succ[1]? with
      | none => rfl
      | some n => exact absurd rfl (hw.node_ne_one h)
    simp [nodeEntry, edgesOf, h0, levelOf_term]
  · simp [h1, hn, nodeEntry, edgesOf, levelOf_nat_node hw hn, loEdge, hiEdge]

theorem graphOK_of_closed {t : Tbl} (hw : WF t) (nodes : List Nat) (hm : ∀ x ∈ nodes, t.Mem (x : Int))
    (hc : PreClosed t nodes) : GraphOK t (nodes.map (nodeEntry t), nodes.flatMap (edgesOf t)) := by
  refine ⟨?_, ?_, ?_⟩
  · intro u l h
    obtain ⟨x, hx, he⟩ := List.mem_map.mp h
    simp only [nodeEntry, Prod.mk.injEq] at he
    obtain ⟨rfl, rfl⟩ := he
    exact ⟨hm x hx, rfl⟩
  · intro e he
    obtain ⟨x, hx, hex⟩ := List.mem_flatMap.mp he
    unfold edgesOf at hex
    split at hex
    · next n hn =>
      rcases List.mem_cons.mp hex with h | h
      · subst h; exact ⟨n, hn, Or.inl rfl⟩
      · rw [List.mem_singleton] at h; subst h; exact ⟨n, hn, Or.inr rfl⟩
    · simp at hex
  · intro u l h n hn
    obtain ⟨x, hx, he⟩ := List.mem_map.mp h
    simp only [nodeEntry, Prod.mk.injEq] at he
    obtain ⟨rfl, rfl⟩ := he
    obtain ⟨clo, chi⟩ := hc x hx n hn
    refine ⟨?_, ?_, ⟨_, List.mem_map.mpr ⟨_, clo, rfl⟩⟩, ⟨_, List.mem_map.mpr ⟨_, chi, rfl⟩⟩⟩
    · exact List.mem_flatMap.mpr ⟨x, hx, by simp [edgesOf, hn]⟩
    · exact List.mem_flatMap.mpr ⟨x, hx, by simp [edgesOf, hn]⟩

/-- `_to_dot(roots=None)`: all nodes of the manager -/
theorem toDot_none_ok {t : Tbl} (hw : WF t) :
    ∃ g, toDot t none = .ok g ∧ GraphOK t g ∧ ∀ r : Int, t.Mem r → ∃ l, (r.natAbs, l) ∈ g.1 := by
  have hm : ∀ x ∈ 1 :: t.succ.keys, t.Mem (x : Int) := by
    intro x hx
    rcases List.mem_cons.mp hx with hx | hx
    · subst hx; exact Or.inl rfl
    · right
      have : x ∈ t.succ := TreeMap.mem_keys.mp hx
      simpa [Tbl.node?] using this
  have hall : ∀ r : Int, t.Mem r → r.natAbs ∈ 1 :: t.succ.keys := by
    intro r hr
    rcases hr.cases with h | ⟨_, n, hn⟩
    · rw [h]; simp
    · apply List.mem_cons_of_mem
      apply TreeMap.mem_keys.mpr
      rw [TreeMap.mem_iff_isSome_getElem?, hn]; rfl
  refine ⟨_, by simp only [toDot]; exact graphOf_eq hw _ hm, graphOK_of_closed hw _ hm ?_, ?_⟩
  · intro v hv n hn
    exact ⟨hall _ (hw.lo_mem _ _ hn), hall _ (hw.hi_mem _ _ hn)⟩
  · intro r hr
    exact ⟨_, List.mem_map.mpr ⟨_, hall r hr, rfl⟩⟩

/-- `_to_dot(roots)`: the nodes reachable from the roots -/
theorem toDot_some_ok {t : Tbl} (hw : WF t) (roots : List Int) (hne : roots ≠ [])
    (hm : ∀ r ∈ roots, t.Mem r) :
    ∃ g, toDot t (some roots) = .ok g ∧ GraphOK t g ∧
      (∀ u l, (u, l) ∈ g.1 → ∃ r ∈ roots, Reach t r.natAbs u) ∧
      ∀ r ∈ roots, ∀ v, Reach t r.natAbs v → ∃ l, (v, l) ∈ g.1 := by
  obtain ⟨ns, e, _, s⟩ := descendants_spec' hw roots hm
  have h1 : 1 ∈ ns := by
    cases roots with
    | nil => exact absurd rfl hne
    | cons r rest => exact (s 1).mpr ⟨r, by simp, reach_term hw r (hm r (by simp))⟩
  have hmem : ∀ x ∈ ns, t.Mem (x : Int) := by
    intro x hx
    obtain ⟨r, hr, hreach⟩ := (s x).mp hx
    exact hreach.mem hw (mem_natAbs (hm r hr))
  have hcl : PreClosed t ns := by
    intro v hv n hn
    obtain ⟨r, hr, hreach⟩ := (s v).mp hv
    exact ⟨(s _).mpr ⟨r, hr, hreach.trans (Reach.lo hn (Reach.refl _))⟩,
      (s _).mpr ⟨r, hr, hreach.trans (Reach.hi hn (Reach.refl _))⟩⟩
  refine ⟨_, ?_, graphOK_of_closed hw ns hmem hcl, ?_, ?_⟩
  · have hc1 : ns.contains 1 = true := List.contains_iff_mem.mpr h1
    rw [show toDot t (some roots) = graphOf t ns from by simp [toDot, e, h1]]
    exact graphOf_eq hw ns hmem
  · intro u l h
    obtain ⟨x, hx, he⟩ := List.mem_map.mp h
    simp only [nodeEntry, Prod.mk.injEq] at he
    obtain ⟨rfl, _⟩ := he
    exact (s x).mp hx
  · intro r hr v hv
    exact ⟨_, List.mem_map.mpr ⟨v, (s v).mpr ⟨r, hr, hv⟩, rfl⟩⟩

end DD
