/-
  DDProofs.MddTotalLoop — the main loop of `bdd_to_mdd` returns normally: every `cofactor` call,
  every `umap[...]` lookup and every `mdd.find_or_add` succeeds.
-/
import DDProofs.MddTotalPrep
open Std

namespace DD

/-! ### `find_or_add` on a manager that never collected (`_free` empty) succeeds -/

theorem mIncrefAll_ok : ∀ (l : List Int) (m : MddMgr), (∀ k ∈ l, m.ref.contains k.natAbs = true) →
    ∃ m', mIncrefAll l m = (.ok (), m') := by
  intro l
  induction l with
  | nil => intro m _; exact ⟨m, rfl⟩
  | cons k rest ih =>
    intro m h
    have hk := h k (by simp)
    rw [TreeMap.contains_eq_isSome_getElem?] at hk
    obtain ⟨c, hc⟩ := Option.isSome_iff_exists.mp hk
    unfold mIncrefAll
    have h1 : mIncref k m = (.ok (), { m with ref := m.ref.insert k.natAbs (c + 1) }) := by
      unfold mIncref; rw [hc]
    rw [h1]
    simp only
    apply ih
    intro k' hk'
    show (m.ref.insert k.natAbs (c + 1)).contains k'.natAbs = true
    rw [TreeMap.contains_insert]
    simp [h k' (List.mem_cons_of_mem _ hk')]

theorem mFindOrMake_total (m : MddMgr) (h : MInv m) (hfree : m.free = []) (i : Nat) (L : List Int)
    (hmem : ∀ k ∈ L, m.tbl.Mem k) :
    ∃ u m', mFindOrMake i L m = (.ok u, m') ∧ m'.free = [] := by
  unfold mFindOrMake
  simp only
  cases hp : m.pred[(MNd.key ⟨i, L⟩)]? with
  | some u => exact ⟨u, m, rfl, hfree⟩
  | none =>
    simp only
    have ha : mAllocate m = (.ok (m.max + 1), { m with max := m.max + 1 }) := by
      unfold mAllocate; rw [hfree]
    rw [ha]
    simp only
    have hfresh : m.tbl.node? (m.max + 1) = none := by
      cases hn : m.tbl.node? (m.max + 1) with
      | none => rfl
      | some n => have := h.maxOK _ _ hn; omega
    have hnm : ({ m with max := m.max + 1 } : MddMgr).mem ((m.max + 1 : Nat) : Int) = false := by
      show m.tbl.mem ((m.max + 1 : Nat) : Int) = false
      rw [MTbl.mem_false_iff m.tbl h.term]
      rintro (h1 | h1)
      · have := h.maxGe; simp at h1; omega
      · simp only [Int.natAbs_natCast] at h1; rw [hfresh] at h1; cases h1
    rw [hnm]
    simp only [Bool.false_eq_true, if_false]
    obtain ⟨m3, hinc⟩ := mIncrefAll_ok L ({ ({ m with max := m.max + 1 } : MddMgr) with
        tbl := { m.tbl with succ := m.tbl.succ.insert (m.max + 1) ⟨i, L⟩ }
        pred := m.pred.insert (MNd.key ⟨i, L⟩) (m.max + 1)
        ref := m.ref.insert (m.max + 1) 0 } : MddMgr) (by
      intro k hk
      show (m.ref.insert (m.max + 1) 0).contains k.natAbs = true
      rw [TreeMap.contains_insert]
      simp [h.refMem (hmem k hk)])
    rw [hinc]
    refine ⟨_, m3, rfl, ?_⟩
    have := (mIncrefAll_refOnly _ _ _ _ hinc).free
    rw [this]
    exact hfree

theorem mFindOrAddCore_total (m : MddMgr) (h : MInv m) (hfree : m.free = []) (i : Nat)
    (nodes : List Int) (hi : i < m.tbl.nvars) (var : MVar) (hvar : m.tbl.varAt? i = some var)
    (hlen : nodes.length = var.len) (hne : nodes ≠ []) (hmem : ∀ k ∈ nodes, m.tbl.Mem k) :
    ∃ r m', mFindOrAddCore i nodes m = (.ok r, m') ∧ m'.free = [] := by
  unfold mFindOrAddCore
  have h1 : ¬ m.tbl.nvars ≤ i := by omega
  simp only [h1, if_false, hvar]
  have h2 : ¬ nodes.length ≠ var.len := by simpa using hlen
  simp only [h2, if_false]
  cases nodes with
  | nil => exact absurd rfl hne
  | cons n0 tl =>
    simp only
    have hall : ((n0 :: tl).all m.mem) = true := by
      rw [List.all_eq_true]
      intro k hk
      exact (MTbl.mem_iff m.tbl h.term k).mpr (hmem k hk)
    simp only [hall, Bool.not_true, Bool.false_eq_true, if_false]
    split
    · split
      · exact ⟨_, m, rfl, hfree⟩
      · obtain ⟨u, m', hmk, hf⟩ := mFindOrMake_total m h hfree i ((n0 :: tl).map fun u => -u) (by
          intro k hk
          rw [List.mem_map] at hk
          obtain ⟨c, hc, rfl⟩ := hk
          exact MTbl.mem_neg (hmem c hc))
        rw [hmk]
        exact ⟨_, m', rfl, hf⟩
    · split
      · exact ⟨_, m, rfl, hfree⟩
      · obtain ⟨u, m', hmk, hf⟩ := mFindOrMake_total m h hfree i (n0 :: tl) hmem
        rw [hmk]
        exact ⟨_, m', rfl, hf⟩

/-! ### the BDD side of one iteration succeeds -/

theorem b2mSuccs_total (dvars : List MVar) (var : MVar) (hd : var ∈ dvars) (u : Nat)
    (umap : List (Nat × Int)) (mb : Mgr) (hW : WF mb.tbl) (hz : ZoneOK dvars mb.tbl)
    (hu : mb.tbl.Mem (u : Int))
    (hzu : zoneLevel dvars mb.tbl (mb.tbl.levelOf (u : Int)) = var.level) :
    ∀ (is : List Nat),
      (∀ i ∈ is, ∀ x, PathEntry (cofVals mb.tbl var.bits i) mb.tbl (u : Int) x →
        ∃ r, umap.lookup x.natAbs = some r) →
      ∃ succs, b2mSuccs u var.bits umap is mb = (.ok succs, mb) := by
  intro is
  induction is with
  | nil => intro _; exact ⟨[], rfl⟩
  | cons i0 rest ih =>
    intro hkeys
    have hdecl : ∀ p, p ∈ enumBits var.bits i0 → mb.tbl.vars.contains p.1 = true := by
      intro p hp
      obtain ⟨k, _, hbk, _⟩ := mem_enumBits hp
      exact hz.decl var hd p.1 (List.mem_of_getElem? hbk)
    obtain ⟨x0, hc, hpe⟩ := cofactor_path mb hW (u : Int) hu (enumBits var.bits i0) hdecl
      (fun ℓ hℓ hj => zone_cover hz var hd _ hzu i0 ℓ hℓ hj)
    obtain ⟨r0, hl0⟩ := hkeys i0 (by simp) x0 hpe
    obtain ⟨rs, hrs⟩ := ih (fun i hi => hkeys i (List.mem_cons_of_mem _ hi))
    unfold b2mSuccs
    rw [enumInteger_eq, hc]
    simp only
    rw [hl0]
    simp only
    rw [hrs]
    exact ⟨_, rfl⟩

theorem b2mIntSucc_total (dvars : List MVar) (u : Nat) (umap : List (Nat × Int)) (mb : Mgr)
    (hI : Inv mb) (hz : ZoneOK dvars mb.tbl) (n : Nd) (hn : mb.tbl.node? u = some n)
    (hkeys : ∀ d ∈ dvars, zoneLevel dvars mb.tbl n.lvl = d.level → ∀ i x,
      PathEntry (cofVals mb.tbl d.bits i) mb.tbl (u : Int) x → ∃ r, umap.lookup x.natAbs = some r) :
    ∃ var succs, b2mIntSucc (b2mBitToVar dvars) u umap mb = (.ok (var, succs), mb) := by
  have hW := hI.wf.toWF
  have hu2 : 2 ≤ u := hW.ge_two _ _ hn
  have hu1 : ((u : Nat) : Int).natAbs ≠ 1 := by simp; omega
  have hnode : mb.tbl.node? ((u : Nat) : Int).natAbs = some n := by simpa using hn
  have huM : mb.tbl.Mem (u : Int) := Or.inr (by rw [hnode]; rfl)
  have hlvl : n.lvl < mb.tbl.nvars := hW.lvl_lt _ _ hn
  obtain ⟨bit, d, hbit, hdl, hdm, hbd⟩ := hz.owner n.lvl hlvl
  have hzu0 : zoneLevel dvars mb.tbl n.lvl = d.level := by
    unfold zoneLevel; rw [hbit]; simp only; rw [hdl]
  have hzu : zoneLevel dvars mb.tbl (mb.tbl.levelOf (u : Int)) = d.level := by
    rw [levelOf_node mb.tbl (u : Int) n hu1 hnode]; exact hzu0
  obtain ⟨succs, hs⟩ := b2mSuccs_total dvars d hdm u umap mb hW hz huM hzu
    (List.range (2 ^ d.bits.length)) (fun i _ x hx => hkeys d hdm hzu0 i x hx)
  unfold b2mIntSucc
  have hn' : mb.tbl.succ[u]? = some n := hn
  rw [hn']
  simp only
  rw [hbit]
  simp only
  rw [hdl]
  simp only
  rw [hs]
  exact ⟨d, succs, rfl⟩

/-! ### the order of `bdd.levels()` is by descending level -/

/-- level of a node as `bdd.levels()` sees it -/
def lvOf (t : Tbl) (u : Nat) : Nat := ((t.succ[u]?).map (·.lvl)).getD 0

theorem pairwise_flatMap_desc (lv : Nat → Nat) (g : Nat → List Nat) (hg : ∀ j x, x ∈ g j → lv x = j) :
    ∀ n, ((List.range n).reverse.flatMap g).Pairwise (fun a b => lv b ≤ lv a) := by
  intro n
  induction n with
  | zero => simp
  | succ n ih =>
    rw [List.range_succ, List.reverse_append, List.reverse_singleton, List.singleton_append,
      List.flatMap_cons, List.pairwise_append]
    refine ⟨?_, ih, ?_⟩
    · rw [List.pairwise_iff_forall_sublist]
      intro a b hab
      have ha := hab.subset (List.mem_cons_self)
      have hb := hab.subset (List.mem_cons_of_mem _ List.mem_cons_self)
      rw [hg n a ha, hg n b hb]
      exact Nat.le_refl _
    · intro a ha b hb
      rw [List.mem_flatMap] at hb
      obtain ⟨j, hj, hbj⟩ := hb
      rw [List.mem_reverse, List.mem_range] at hj
      rw [hg n a ha, hg j b hbj]
      omega

theorem bddLevelsOrder_sorted (t : Tbl) (rec : Option (List Nat)) (ord : List Nat)
    (h : bddLevelsOrder t rec = .ok ord) : ord.Pairwise (fun a b => lvOf t b ≤ lvOf t a) := by
  unfold bddLevelsOrder at h
  simp only at h
  split at h
  · cases h
    apply pairwise_flatMap_desc (lvOf t) (nodesAt t)
    intro j x hx
    obtain ⟨n, hn, hl⟩ := (mem_nodesAt t j x).mp hx
    unfold lvOf
    have : t.succ[x]? = some n := hn
    rw [this]; simpa using hl
  · next l =>
    split at h
    · next hc =>
      cases h
      simp only [Bool.and_eq_true, beq_iff_eq] at hc
      obtain ⟨_, hs⟩ := hc
      rw [← hs]
      apply pairwise_flatMap_desc (lvOf t) (fun j => ord.filter fun u => decide (lvOf t u = j))
      intro j x hx
      rw [List.mem_filter] at hx
      simpa using hx.2
    · cases h

/-- in a list sorted by descending level, whatever has a larger level than `u` stands before `u` -/
theorem mem_pre_of_sorted (lv : Nat → Nat) (pre : List Nat) (u : Nat) (rest : List Nat)
    (hs : (pre ++ u :: rest).Pairwise (fun a b => lv b ≤ lv a)) (x : Nat)
    (hx : x ∈ pre ++ u :: rest) (hl : lv u < lv x) : x ∈ pre := by
  rw [List.pairwise_append] at hs
  obtain ⟨_, h2, _⟩ := hs
  rw [List.pairwise_cons] at h2
  rcases List.mem_append.mp hx with h | h
  · exact h
  · rcases List.mem_cons.mp h with rfl | h
    · omega
    · have := h2.1 x h; omega

/-! ### the levels a cofactor call assigns are the levels of the zone -/

theorem cofVals_lookup_zone {dvars : List MVar} {t : Tbl} (hz : ZoneOK dvars t) (d : MVar)
    (hd : d ∈ dvars) (i ℓ : Nat) (h : ((cofVals t d.bits i).lookup ℓ).isSome = true) :
    zoneLevel dvars t ℓ = d.level := by
  obtain ⟨b, hb⟩ := Option.isSome_iff_exists.mp h
  have hm := lookup_some_mem ℓ b _ hb
  unfold cofVals at hm
  rw [List.mem_reverse, List.mem_map] at hm
  obtain ⟨p, hp, hpe⟩ := hm
  simp only [Prod.mk.injEq] at hpe
  obtain ⟨k, _, hbk, _⟩ := mem_enumBits hp
  have hpb : p.1 ∈ d.bits := List.mem_of_getElem? hbk
  obtain ⟨lp, hlp⟩ := (vars_contains_iff t p.1).mp (hz.decl d hd p.1 hpb)
  have : lp = ℓ := by rw [← hpe.1, lvlOf_eq hlp]
  subst this
  unfold zoneLevel
  rw [(hz.order.inv p.1 lp).mp hlp]
  simp only
  rw [hz.uniq d hd p.1 hpb]

theorem varAt_of_mem {dvars : List MVar} (hinj : ∀ d ∈ dvars, ∀ d' ∈ dvars, d.level = d'.level → d = d')
    (t : MTbl) (hv : t.vars = dvars) (d : MVar) (hd : d ∈ dvars) : t.varAt? d.level = some d := by
  unfold MTbl.varAt?
  rw [hv]
  have hs : (dvars.reverse.find? fun v => v.level == d.level).isSome = true := by
    rw [List.find?_isSome]
    exact ⟨d, List.mem_reverse.mpr hd, by simp⟩
  obtain ⟨d', hd'⟩ := Option.isSome_iff_exists.mp hs
  have h1 := List.find?_some hd'
  have h2 := List.mem_reverse.mp (List.mem_of_find?_eq_some hd')
  have : d' = d := hinj d' h2 d hd (by simpa using h1)
  rw [hd', this]

/-! ### the main loop returns normally -/

theorem lvOf_node {t : Tbl} {u : Nat} {n : Nd} (h : t.node? u = some n) : lvOf t u = n.lvl := by
  unfold lvOf
  have : t.succ[u]? = some n := h
  rw [this]; rfl

theorem b2mLoop_total (dvars : List MVar) (m2 : Mgr) (hI : Inv m2) (hz : ZoneOK dvars m2.tbl)
    (hlen : ∀ d ∈ dvars, d.len = 2 ^ d.bits.length)
    (rm : List Nat) (hrm : RmOK dvars m2.tbl rm) (ord0 : List Nat)
    (hsorted : ord0.Pairwise (fun a b => lvOf m2.tbl b ≤ lvOf m2.tbl a))
    (hall : ∀ u, u ∈ ord0 ↔ (m2.tbl.node? u).isSome = true) :
    ∀ (ord pre : List Nat) (mdd : MddMgr) (umap : List (Nat × Int)), ord0 = pre ++ ord →
      MInv mdd → mdd.free = [] → mdd.tbl.vars = dvars →
      UmapOK (semB dvars m2.tbl) (Lb dvars m2) mdd umap → UmapKeys (Qb m2) umap →
      (umap.lookup 1).isSome = true →
      (∀ x, x ∈ pre → rm.contains x = false → (umap.lookup x).isSome = true) →
      ∃ out, b2mLoop rm (b2mBitToVar dvars) ord mdd umap m2 = (.ok out, m2) := by
  have hW := hI.wf.toWF
  intro ord
  induction ord with
  | nil => intro pre mdd umap _ _ _ _ _ _ _ _; exact ⟨⟨mdd, umap⟩, rfl⟩
  | cons u rest ih =>
    intro pre mdd umap hsplit hM hfree hvars hU hQ h1 hkeys
    have hsplit' : ord0 = (pre ++ [u]) ++ rest := by rw [hsplit]; simp
    unfold b2mLoop
    by_cases hrmu : rm.contains u = true
    · rw [if_pos hrmu]
      apply ih (pre ++ [u]) mdd umap hsplit' hM hfree hvars hU hQ h1
      intro x hx hxr
      rcases List.mem_append.mp hx with hx | hx
      · exact hkeys x hx hxr
      · simp at hx; subst hx; rw [hrmu] at hxr; cases hxr
    · rw [if_neg hrmu]
      have hun : (m2.tbl.node? u).isSome = true := (hall u).mp (by rw [hsplit]; simp)
      obtain ⟨n, hn⟩ := Option.isSome_iff_exists.mp hun
      have hu2 : 2 ≤ u := hW.ge_two _ _ hn
      -- every cofactor is a key of `umap`
      have hck : ∀ d ∈ dvars, zoneLevel dvars m2.tbl n.lvl = d.level → ∀ i x,
          PathEntry (cofVals m2.tbl d.bits i) m2.tbl (u : Int) x →
          ∃ r, umap.lookup x.natAbs = some r := by
        intro d hdm hzu0 i x hpe
        obtain ⟨hx0, hL, _⟩ := pathEntry_side hI hz d hdm u n hn hzu0 i x hpe
        apply Option.isSome_iff_exists.mp
        by_cases hx1 : x.natAbs = 1
        · rw [hx1]; exact h1
        · have hxm := hpe.ent.mr
          rcases hxm with hxm | hxm
          · exact absurd hxm hx1
          · obtain ⟨nx, hnx⟩ := Option.isSome_iff_exists.mp hxm
            -- the cofactor lies in a later zone, hence at a larger level
            have hLx : d.level < zoneLevel dvars m2.tbl nx.lvl := by
              have : Lb dvars m2 x.natAbs = zoneLevel dvars m2.tbl nx.lvl := by
                unfold Lb
                have hna : ((x.natAbs : Nat) : Int).natAbs ≠ 1 := by simpa using hx1
                rw [levelOf_node m2.tbl ((x.natAbs : Nat) : Int) nx hna (by simpa using hnx)]
              rw [← this]; exact hL
            have hlvgt : n.lvl < nx.lvl := by
              apply Classical.byContradiction
              intro hc
              have := hz.mono nx.lvl n.lvl (by omega) (hW.lvl_lt _ _ hn)
              omega
            apply hkeys
            · apply mem_pre_of_sorted (lvOf m2.tbl) pre u rest (by rw [← hsplit]; exact hsorted)
              · rw [← hsplit]; exact (hall _).mpr hxm
              · rw [lvOf_node hn, lvOf_node hnx]; exact hlvgt
            · -- not left out: it has a predecessor in the zone of `d`
              cases hc : rm.contains x.natAbs with
              | false => rfl
              | true =>
                exfalso
                have hmem : x.natAbs ∈ rm := by simpa using hc
                rcases hpe.par with hp | ⟨k, nk, hk1, hk2, _, hk4⟩
                · simp only [Int.natAbs_natCast] at hp
                  rw [hp, hn] at hnx
                  cases hnx
                  omega
                · have hzk := cofVals_lookup_zone hz d hdm i nk.lvl hk2
                  have := hrm x.natAbs hmem nx hnx k nk hk1 hk4
                  omega
      obtain ⟨var, succs, hside⟩ := b2mIntSucc_total dvars u umap m2 hI hz n hn hck
      rw [hside]
      simp only
      obtain ⟨_, hvm, hzu0, hslen, hsall⟩ :=
        b2mIntSucc_facts dvars u umap m2 var succs m2 hI hz n hn hside
      obtain ⟨_, _, _, hB⟩ := b2mIntSucc_bddSide dvars m2 u umap m2 var succs m2 ⟨hI, hz, rfl⟩ hun hside
      -- `find_or_add` succeeds
      have hvl : var.level < mdd.tbl.nvars := by
        unfold MTbl.nvars; rw [hvars]; exact hz.lvl var hvm
      have hsm : ∀ k ∈ succs, mdd.tbl.Mem k := by
        intro k hk
        obtain ⟨i, hi, hki⟩ := List.getElem_of_mem hk
        obtain ⟨x, r, hl, hkr, _⟩ := hsall i k (by rw [List.getElem?_eq_getElem hi, hki])
        have hmr := (hU.ok _ _ hl).1
        rw [hkr]
        split
        · exact hmr
        · exact MTbl.mem_neg hmr
      have hsne : succs ≠ [] := by
        intro e
        rw [e] at hslen
        have : 0 < 2 ^ var.bits.length := Nat.two_pow_pos _
        simp at hslen
        omega
      obtain ⟨r, mdd1, hfoa, hfree1⟩ := mFindOrAddCore_total mdd hM hfree var.level succs hvl var
        (varAt_of_mem hz.inj mdd.tbl hvars var hvm) (by rw [hslen, hlen var hvm]) hsne hsm
      have hfoa' : mFindOrAdd (var.level : Int) succs mdd = (.ok r, mdd1) := by
        unfold mFindOrAdd
        have : ¬ ((var.level : Int) < 0) := by omega
        simp only [this, if_false, Int.toNat_natCast]
        exact hfoa
      rw [hfoa']
      simp only
      obtain ⟨hM1, hext1, hU1, _⟩ := umap_step (semB dvars m2.tbl) (Lb dvars m2)
        (fun x α hx => semB_neg dvars m2.tbl x α hx) mdd umap hM hU u var succs hB r mdd1 hfoa'
      apply ih (pre ++ [u]) mdd1 _ hsplit' hM1 hfree1 (by rw [← hext1.vars]; exact hvars) hU1
      · intro x rx hl
        rw [lookup_cons_filter] at hl
        by_cases hxu : x = u
        · subst hxu
          exact Or.inr (by simpa using hun)
        · simp only [hxu, if_false] at hl
          exact hQ x rx hl
      · rw [lookup_cons_filter]
        have : ¬ (1 = u) := by omega
        simp only [this, if_false]
        exact h1
      · intro x hx hxr
        rw [lookup_cons_filter]
        by_cases hxu : x = u
        · simp [hxu]
        · simp only [hxu, if_false]
          rcases List.mem_append.mp hx with hx | hx
          · exact hkeys x hx hxr
          · simp at hx; exact absurd hx hxu

end DD
