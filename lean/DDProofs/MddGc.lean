/-
  DDProofs.MddGc — `MDD.collect_garbage`: exact reference counts (`MRefExact`: count =
  in-degree + ledger of external references), one iteration of the worklist loop, the loop,
  and the final specification `mddGc_spec`.
-/
import DDProofs.MddApply
import DDProofs.MddCount
open Std

namespace DD

/-! ### the invariant without the computed table (collection breaks cache entries until it
clears the table at the end) -/

structure MInvCore (m : MddMgr) : Prop where
  wf : MWFU m.tbl
  pred : ∀ (n : MNd) (u : Nat), m.pred[n.key]? = some u ↔ m.tbl.node? u = some n
  refOne : m.ref.contains 1 = true
  refDom : ∀ u n, m.tbl.node? u = some n → m.ref.contains u = true
  maxGe : 1 ≤ m.max
  maxOK : ∀ u n, m.tbl.node? u = some n → u ≤ m.max
  freeOK : ∀ f, f ∈ m.free → 2 ≤ f ∧ f ≤ m.max ∧ m.tbl.node? f = none
  freeNodup : m.free.Nodup

theorem MInv.core {m : MddMgr} (h : MInv m) : MInvCore m :=
  ⟨h.wf, h.pred, h.refOne, h.refDom, h.maxGe, h.maxOK, h.freeOK, h.freeNodup⟩

theorem MInvCore.withEmptyCache {m : MddMgr} (h : MInvCore m) : MInv { m with cache := {} } := by
  refine ⟨h.wf, h.pred, h.refOne, h.refDom, h.maxGe, h.maxOK, h.freeOK, h.freeNodup, ?_⟩
  intro g u v w hc
  simp at hc

/-! ### removing a node -/

def MTbl.delNode (t : MTbl) (p : Nat) : MTbl := { t with succ := t.succ.erase p }

theorem MTbl.node?_delNode (t : MTbl) (p x : Nat) :
    (t.delNode p).node? x = if p = x then none else t.node? x := by
  simp [MTbl.delNode, MTbl.node?, TreeMap.getElem?_erase]

theorem MTbl.delNode_sub (t : MTbl) (p : Nat) : MExt (t.delNode p) t := by
  refine ⟨rfl, rfl, ?_⟩
  intro x n hn
  rw [MTbl.node?_delNode] at hn
  by_cases hx : p = x
  · simp [hx] at hn
  · simpa [hx] using hn

/-- removing a node that no node points to keeps the table well-formed and unique -/
theorem MTbl.delNode_wfu (t : MTbl) (hw : MWFU t) (p : Nat)
    (hnp : ∀ x n, t.node? x = some n → ∀ k ∈ n.kids, k.natAbs ≠ p) (hp1 : p ≠ 1) :
    MWFU (t.delNode p) := by
  have hW := hw.toMWF
  have hs := t.delNode_sub p
  have hold : ∀ x n, (t.delNode p).node? x = some n → t.node? x = some n := hs.nodes
  have hmem : ∀ x n, t.node? x = some n → ∀ k ∈ n.kids, (t.delNode p).Mem k := by
    intro x n hn k hk
    rcases hW.kids_mem _ _ hn k hk with h1 | h1
    · exact Or.inl h1
    · refine Or.inr ?_
      rw [MTbl.node?_delNode]
      have hne : p ≠ k.natAbs := fun h => hnp x n hn k hk h.symm
      rw [if_neg hne]
      exact h1
  refine ⟨⟨hW.term, ?_, ?_, ?_, ?_, ?_, ?_, ?_⟩, ?_⟩
  · intro x n hn; rw [hs.nvars]; exact hW.lvl_lt _ _ (hold x n hn)
  · intro x n hn; rw [hs.arity]; exact hW.kids_len _ _ (hold x n hn)
  · intro x n hn k hk; exact hmem x n (hold x n hn) k hk
  · intro x n hn k hk
    rw [← hs.levelOf (hmem x n (hold x n hn) k hk)]
    exact hW.kids_lt _ _ (hold x n hn) k hk
  · intro x n hn; exact hW.ge_two _ _ (hold x n hn)
  · intro x n hn; exact hW.head_pos _ _ (hold x n hn)
  · intro x n hn; exact hW.not_const _ _ (hold x n hn)
  · intro x x' n hn hn'; exact hw.unique _ _ _ (hold x n hn) (hold x' n hn')

/-- in-degrees after removing node `p` -/
theorem MTbl.indeg_delNode (t : MTbl) (p : Nat) (np : MNd) (hp : t.node? p = some np) (bound : Nat)
    (hb : p < bound) (x : Nat) :
    (t.delNode p).indeg bound x + cntInto np.kids x = t.indeg bound x := by
  unfold MTbl.indeg
  have key : sumRange (fun q => edgesInto ((t.delNode p).node? q) x) bound + edgesInto (t.node? p) x
      = sumRange (fun q => edgesInto (t.node? q) x) bound + edgesInto ((t.delNode p).node? p) x :=
    sumRange_update (f := fun q => edgesInto ((t.delNode p).node? q) x)
      (g := fun q => edgesInto (t.node? q) x) p bound hb (by
        intro q hq
        show edgesInto ((t.delNode p).node? q) x = edgesInto (t.node? q) x
        rw [MTbl.node?_delNode]
        have : p ≠ q := fun h => hq h.symm
        rw [if_neg this])
  have e1 : edgesInto (t.node? p) x = cntInto np.kids x := by rw [hp]; rfl
  have e2 : edgesInto ((t.delNode p).node? p) x = 0 := by
    rw [MTbl.node?_delNode]; simp [edgesInto]
  rw [e1, e2] at key
  omega

/-! ### `insertSorted` (the `_free` set kept as a sorted list) -/

theorem mMem_insertSorted (a : Nat) : ∀ (l : List Nat) (x : Nat), x ∈ insertSorted a l ↔ x = a ∨ x ∈ l := by
  intro l
  induction l with
  | nil => intro x; simp [insertSorted]
  | cons b l ih =>
    intro x
    unfold insertSorted
    split
    · simp
    · simp only [List.mem_cons, ih]
      constructor
      · rintro (h | h | h)
        · exact Or.inr (Or.inl h)
        · exact Or.inl h
        · exact Or.inr (Or.inr h)
      · rintro (h | h | h)
        · exact Or.inr (Or.inl h)
        · exact Or.inl h
        · exact Or.inr (Or.inr h)

theorem mNodup_insertSorted (a : Nat) : ∀ (l : List Nat), a ∉ l → l.Nodup → (insertSorted a l).Nodup := by
  intro l
  induction l with
  | nil => intro _ _; simp [insertSorted]
  | cons b l ih =>
    intro ha hn
    unfold insertSorted
    split
    · exact List.nodup_cons.mpr ⟨ha, hn⟩
    · rw [List.nodup_cons] at hn ⊢
      refine ⟨?_, ih (fun h => ha (List.mem_cons_of_mem _ h)) hn.2⟩
      rw [mMem_insertSorted]
      rintro (h | h)
      · exact ha (by simp [h])
      · exact hn.1 h

/-! ### the successor loop of one collection step -/

theorem mem_pushNewI (l : List Int) (u y : Int) : y ∈ pushNewI l u ↔ y ∈ l ∨ y = u := by
  unfold pushNewI
  split
  · next h =>
    have : u ∈ l := by simpa using h
    constructor
    · intro hy; exact Or.inl hy
    · rintro (hy | hy)
      · exact hy
      · rw [hy]; exact this
  · simp

structure KidsOK (kids : List Int) (work : List Int) (m : MddMgr) (work' : List Int) (m' : MddMgr) : Prop where
  tbl : m'.tbl = m.tbl
  pred : m'.pred = m.pred
  max : m'.max = m.max
  free : m'.free = m.free
  ref : ∀ x, m'.ref[x]? = (m.ref[x]?).map (fun v => v - cntInto kids x)
  keep : ∀ y, y ∈ work → y ∈ work'
  added : ∀ k, k ∈ kids → k.natAbs ≠ 1 → m'.ref[k.natAbs]? = some 0 → ((k.natAbs : Nat) : Int) ∈ work'

/-- `for v in nodes: self.decref(v); if not self._ref[abs(v)] and abs(v) != 1: unused.add(abs(v))`
when no counter is floored: every count drops by the number of edges removed -/
theorem mGcKids_spec : ∀ (kids work : List Int) (m : MddMgr) (work' : List Int) (m' : MddMgr),
    (∀ x, 0 < cntInto kids x → ∃ v, m.ref[x]? = some v ∧ cntInto kids x ≤ v) →
    mGcKids kids work m = (.ok work', m') → KidsOK kids work m work' m' := by
  intro kids
  induction kids with
  | nil =>
    intro work m work' m' _ hr
    simp only [mGcKids, Prod.mk.injEq, Except.ok.injEq] at hr
    obtain ⟨hw, hm⟩ := hr
    subst hw hm
    refine ⟨rfl, rfl, rfl, rfl, ?_, fun _ h => h, ?_⟩
    · intro x
      cases m.ref[x]? <;> simp [cntInto]
    · intro k hk; simp at hk
  | cons k rest ih =>
    intro work m work' m' hpre hr
    obtain ⟨v, hv, hvge⟩ := hpre k.natAbs (by rw [cntInto_cons]; simp)
    have hv1 : 1 ≤ v := by rw [cntInto_cons] at hvge; simp at hvge; omega
    unfold mGcKids at hr
    have hdec : mDecref k m = (.ok (), { m with ref := m.ref.insert k.natAbs (v - 1) }) := by
      unfold mDecref
      rw [hv]
      have : ¬ v = 0 := by omega
      simp [this]
    rw [hdec] at hr
    dsimp only at hr
    rw [natmap_getElem?_insert] at hr
    simp only [if_true] at hr
    -- the manager after the decrement
    generalize hm1 : ({ m with ref := m.ref.insert k.natAbs (v - 1) } : MddMgr) = m1 at hr
    have hm1ref : ∀ x, m1.ref[x]? = if k.natAbs = x then some (v - 1) else m.ref[x]? := by
      intro x; rw [← hm1]; exact natmap_getElem?_insert _ _ _ _
    have hm1tbl : m1.tbl = m.tbl := by rw [← hm1]
    have hm1pred : m1.pred = m.pred := by rw [← hm1]
    have hm1max : m1.max = m.max := by rw [← hm1]
    have hm1free : m1.free = m.free := by rw [← hm1]
    have hpre1 : ∀ x, 0 < cntInto rest x → ∃ v', m1.ref[x]? = some v' ∧ cntInto rest x ≤ v' := by
      intro x hx
      rw [hm1ref]
      by_cases hkx : k.natAbs = x
      · subst hkx
        refine ⟨v - 1, by simp, ?_⟩
        rw [cntInto_cons] at hvge; simp at hvge; omega
      · obtain ⟨v', hv', hge'⟩ := hpre x (by rw [cntInto_cons]; omega)
        refine ⟨v', by simp [hkx, hv'], ?_⟩
        rw [cntInto_cons] at hge'; simp [hkx] at hge'; exact hge'
    have K := ih _ m1 work' m' hpre1 hr
    refine ⟨K.tbl.trans hm1tbl, K.pred.trans hm1pred, K.max.trans hm1max, K.free.trans hm1free, ?_, ?_, ?_⟩
    · intro x
      rw [K.ref x, hm1ref x, cntInto_cons]
      by_cases hkx : k.natAbs = x
      · subst hkx
        rw [hv]
        simp only [if_true, Option.map_some, Option.some.injEq]
        omega
      · simp [hkx]
    · intro y hy
      apply K.keep
      split
      · rw [mem_pushNewI]; exact Or.inl hy
      · exact hy
    · intro k' hk' hk1 href
      rcases List.mem_cons.mp hk' with rfl | hk'
      · -- the node just decremented
        by_cases hz : v - 1 = 0
        · apply K.keep
          have hc : ((v - 1 = 0) && (k'.natAbs ≠ 1)) = true := by simp [hz, hk1]
          simp only [hc, if_true]
          rw [mem_pushNewI]; exact Or.inr rfl
        · -- a later occurrence brings the count to zero
          have hfin := K.ref k'.natAbs
          rw [href, hm1ref] at hfin
          simp only [if_true, Option.map_some, Option.some.injEq] at hfin
          have hpos : 0 < cntInto rest k'.natAbs := by omega
          obtain ⟨k'', hk'', habs⟩ := cntInto_pos_iff.mp hpos
          have := K.added k'' hk'' (by rw [habs]; exact hk1) (by rw [habs]; exact href)
          rw [habs] at this
          exact this
      · exact K.added k' hk' hk1 href

/-! ### one iteration of `while unused:` -/

/-- a node whose count is zero has no parent (counts are exact) -/
theorem no_parent_of_ref_zero (m : MddMgr) (ext : Nat → Nat) (hc : MInvCore m) (hx : MRefExact m ext)
    (p : Nat) (np : MNd) (hp : m.tbl.node? p = some np) (h0 : m.ref[p]? = some 0) :
    ext p = 0 ∧ ∀ x n, m.tbl.node? x = some n → ∀ k ∈ n.kids, k.natAbs ≠ p := by
  have hcnt := hx.cnt p (Or.inr (by rw [hp]; rfl))
  rw [h0] at hcnt
  simp only [Option.some.injEq] at hcnt
  refine ⟨by omega, ?_⟩
  intro x n hn k hk habs
  have hxle := hc.maxOK x n hn
  have h1 : edgesInto (m.tbl.node? x) p ≤ m.tbl.indeg (m.max + 1) p :=
    sumRange_le (f := fun q => edgesInto (m.tbl.node? q) p) x (m.max + 1) (by omega)
  rw [hn] at h1
  have h2 : 0 < cntInto n.kids p := cntInto_pos_iff.mpr ⟨k, hk, habs⟩
  simp only [edgesInto] at h1
  omega

theorem mGcStep_spec (m : MddMgr) (ext : Nat → Nat) (hc : MInvCore m) (hx : MRefExact m ext)
    (u : Int) (work work' : List Int) (m' : MddMgr) (hr : mGcStep u work m = (.ok work', m')) :
    ∃ (p : Nat) (np : MNd), u = (p : Int) ∧ m.tbl.node? p = some np ∧ ext p = 0 ∧
      MInvCore m' ∧ MRefExact m' ext ∧ m'.max = m.max ∧ m'.tbl = m.tbl.delNode p ∧
      (∀ x, x ≠ p → m'.ref[x]? = (m.ref[x]?).map (fun v => v - cntInto np.kids x)) ∧
      (∀ y, y ∈ work → y ∈ work') ∧
      (∀ k, k ∈ np.kids → k.natAbs ≠ 1 → m'.ref[k.natAbs]? = some 0 →
        ((k.natAbs : Nat) : Int) ∈ work') := by
  have hW := hc.wf.toMWF
  unfold mGcStep at hr
  split at hr
  · simp at hr
  · split at hr
    · simp at hr
    · next hu1 hneg =>
      have hup : u = ((u.toNat : Nat) : Int) := by omega
      generalize u.toNat = p at hr hup
      split at hr
      · simp at hr
      · next np hnp =>
        have hnode : m.tbl.node? p = some np := hnp
        try dsimp only at hr
        split at hr
        · simp at hr
        · next u' hpred =>
          try dsimp only at hr
          split at hr
          · simp at hr
          · next uref href =>
            try dsimp only at hr
            split at hr
            · simp at hr
            · next m4 hrel =>
              split at hr
              · simp at hr
              · split at hr
                · simp at hr
                · next hu' huref =>
                  split at hr
                  · simp at hr
                  · -- facts about the released manager
                    have huref0 : uref = 0 := by omega
                    subst huref0
                    have href' : m.ref[p]? = some 0 := href
                    obtain ⟨hext0, hnopar⟩ := no_parent_of_ref_zero m ext hc hx p np hnode href'
                    have hp2 : 2 ≤ p := hW.ge_two _ _ hnode
                    have hpmax : p ≤ m.max := hc.maxOK _ _ hnode
                    have hpfree : p ∉ m.free := by
                      intro hf
                      have := (hc.freeOK p hf).2.2
                      rw [hnode] at this; cases this
                    -- `mRelease`
                    unfold mRelease at hrel
                    split at hrel
                    · simp at hrel
                    · split at hrel
                      · simp at hrel
                      · split at hrel
                        · simp at hrel
                        · split at hrel
                          · simp at hrel
                          · simp only [Prod.mk.injEq, true_and] at hrel
                            subst hrel
                            -- the successor loop
                            have hpre : ∀ x, 0 < cntInto np.kids x →
                                ∃ v, (m.ref.erase p)[x]? = some v ∧ cntInto np.kids x ≤ v := by
                              intro x hxpos
                              obtain ⟨k, hk, habs⟩ := cntInto_pos_iff.mp hxpos
                              have hkm := hW.kids_mem _ _ hnode k hk
                              have hklt := hW.kids_lt _ _ hnode k hk
                              have hxp : x ≠ p := by
                                intro hxp
                                rw [← habs] at hxp
                                have h1 : k.natAbs ≠ 1 := by omega
                                have := m.tbl.levelOf_node k np h1 (by rw [hxp]; exact hnode)
                                omega
                              have hxmem : x = 1 ∨ (m.tbl.node? x).isSome := by
                                rw [← habs]; exact hkm
                              have hcnt := hx.cnt x hxmem
                              refine ⟨_, by rw [natmap_getElem?_erase, if_neg (fun h => hxp h.symm)]; exact hcnt, ?_⟩
                              have h1 : edgesInto (m.tbl.node? p) x ≤ m.tbl.indeg (m.max + 1) x :=
                                sumRange_le (f := fun q => edgesInto (m.tbl.node? q) x) p (m.max + 1) (by omega)
                              rw [hnode] at h1
                              simp only [edgesInto] at h1
                              omega
                            have K := mGcKids_spec np.kids work _ work' m' hpre hr
                            have htbl : m'.tbl = m.tbl.delNode p := K.tbl
                            have hmax : m'.max = m.max := K.max
                            have hfree : m'.free = insertSorted p m.free := K.free
                            have hpredm : m'.pred = m.pred.erase np.key := K.pred
                            have hrefx : ∀ x, x ≠ p →
                                m'.ref[x]? = (m.ref[x]?).map (fun v => v - cntInto np.kids x) := by
                              intro x hxp
                              rw [K.ref x]
                              show ((m.ref.erase p)[x]?).map _ = _
                              rw [natmap_getElem?_erase, if_neg (fun h => hxp h.symm)]
                            have hwfu := m.tbl.delNode_wfu hc.wf p hnopar (by omega)
                            have hsub := m.tbl.delNode_sub p
                            refine ⟨p, np, hup, hnode, hext0, ?_, ?_, hmax, htbl, hrefx, K.keep, K.added⟩
                            · -- MInvCore
                              refine ⟨by rw [htbl]; exact hwfu, ?_, ?_, ?_, by rw [hmax]; exact hc.maxGe, ?_, ?_, ?_⟩
                              · intro n x
                                rw [htbl, hpredm, TreeMap.getElem?_erase, MTbl.node?_delNode]
                                by_cases hk : np.key = n.key
                                · have hn : n = np := (MNd.key_inj hk).symm
                                  subst hn
                                  simp only [(listInt_compare_eq _ _).mpr rfl, if_true]
                                  constructor
                                  · intro h; cases h
                                  · intro h
                                    by_cases hpx : p = x
                                    · simp [hpx] at h
                                    · simp only [hpx, if_false] at h
                                      exact absurd (hc.wf.unique _ _ _ h hnode) (fun e => hpx e.symm)
                                · have hne : compare np.key n.key ≠ .eq :=
                                    fun hcmp => hk ((listInt_compare_eq _ _).mp hcmp)
                                  simp only [hne, if_false]
                                  rw [hc.pred n x]
                                  by_cases hpx : p = x
                                  · subst hpx
                                    simp only [if_true]
                                    constructor
                                    · intro h; rw [hnode] at h
                                      exact absurd (congrArg MNd.key (Option.some.inj h)) hk
                                    · intro h; cases h
                                  · simp [hpx]
                              · rw [natmap_contains_iff, hrefx 1 (by omega)]
                                have := (natmap_contains_iff m.ref 1).mp hc.refOne
                                cases h1 : m.ref[1]? with
                                | none => rw [h1] at this; cases this
                                | some v => rfl
                              · intro x n hn
                                rw [htbl, MTbl.node?_delNode] at hn
                                by_cases hpx : p = x
                                · simp [hpx] at hn
                                · simp only [hpx, if_false] at hn
                                  rw [natmap_contains_iff, hrefx x (fun e => hpx e.symm)]
                                  have := (natmap_contains_iff m.ref x).mp (hc.refDom _ _ hn)
                                  cases h1 : m.ref[x]? with
                                  | none => rw [h1] at this; cases this
                                  | some v => rfl
                              · intro x n hn
                                rw [hmax]
                                exact hc.maxOK x n (hsub.nodes x n (by rw [← htbl]; exact hn))
                              · intro f hf
                                rw [hfree, mMem_insertSorted] at hf
                                rw [hmax, htbl, MTbl.node?_delNode]
                                rcases hf with rfl | hf
                                · exact ⟨hp2, hpmax, by simp⟩
                                · obtain ⟨a, b, c⟩ := hc.freeOK f hf
                                  refine ⟨a, b, ?_⟩
                                  split
                                  · rfl
                                  · exact c
                              · rw [hfree]; exact mNodup_insertSorted p m.free hpfree hc.freeNodup
                            · -- MRefExact
                              refine ⟨?_, ?_⟩
                              rotate_left
                              · intro x hx1 hxn
                                rw [htbl, MTbl.node?_delNode] at hxn
                                by_cases hpx : p = x
                                · subst hpx; exact hext0
                                · simp only [hpx, if_false] at hxn
                                  exact hx.extZero x hx1 hxn
                              intro x hxm
                              have hxp : x ≠ p := by
                                rcases hxm with h1 | h1
                                · omega
                                · intro e; subst e
                                  rw [htbl, MTbl.node?_delNode] at h1; simp at h1
                              have hxm' : x = 1 ∨ (m.tbl.node? x).isSome := by
                                rcases hxm with h1 | h1
                                · exact Or.inl h1
                                · right
                                  obtain ⟨n, hn⟩ := Option.isSome_iff_exists.mp h1
                                  rw [hsub.nodes x n (by rw [← htbl]; exact hn)]; rfl
                              rw [hrefx x hxp, hx.cnt x hxm', hmax, htbl]
                              have := m.tbl.indeg_delNode p np hnode (m.max + 1) (by omega) x
                              simp only [Option.map_some, Option.some.injEq]
                              omega

/-! ### the worklist loop and `collect_garbage` -/

/-- relation between the managers before and after (part of) a collection -/
structure GcRel (m m' : MddMgr) (ext : Nat → Nat) : Prop where
  core : MInvCore m'
  exact : MRefExact m' ext
  max : m'.max = m.max
  sub : MExt m'.tbl m.tbl
  held : ∀ x n, m.tbl.node? x = some n → 0 < ext x → m'.tbl.node? x = some n

theorem mGcLoop_spec (ext : Nat → Nat) : ∀ (f : Nat) (work : List Int) (m m' : MddMgr),
    MInvCore m → MRefExact m ext → mGcLoop f work m = (.ok (), m') →
    GcRel m m' ext ∧
    ((∀ x n, m.tbl.node? x = some n → m.ref[x]? = some 0 → ((x : Nat) : Int) ∈ work) →
      ∀ x n, m'.tbl.node? x = some n → m'.ref[x]? ≠ some 0) := by
  intro f
  induction f with
  | zero =>
    intro work m m' hc hx hr
    cases work with
    | nil =>
      simp only [mGcLoop, Prod.mk.injEq, true_and] at hr
      subst hr
      refine ⟨⟨hc, hx, rfl, MExt.refl _, fun _ _ h _ => h⟩, ?_⟩
      intro hW x n hn h0
      have := hW x n hn h0
      simp at this
    | cons u rest => simp [mGcLoop] at hr
  | succ f ih =>
    intro work m m' hc hx hr
    cases work with
    | nil =>
      simp only [mGcLoop, Prod.mk.injEq, true_and] at hr
      subst hr
      refine ⟨⟨hc, hx, rfl, MExt.refl _, fun _ _ h _ => h⟩, ?_⟩
      intro hW x n hn h0
      have := hW x n hn h0
      simp at this
    | cons u rest =>
      simp only [mGcLoop] at hr
      split at hr
      · simp at hr
      · next work1 m1 hstep =>
        obtain ⟨p, np, hup, hnode, hext0, hc1, hx1, hmax1, htbl1, hrefx, hkeep, hadded⟩ :=
          mGcStep_spec m ext hc hx u rest work1 m1 hstep
        obtain ⟨G, hWimp⟩ := ih work1 m1 m' hc1 hx1 hr
        have hsub1 : MExt m1.tbl m.tbl := by rw [htbl1]; exact m.tbl.delNode_sub p
        refine ⟨⟨G.core, G.exact, G.max.trans hmax1, G.sub.trans hsub1, ?_⟩, ?_⟩
        · intro x n hn hpos
          apply G.held x n _ hpos
          rw [htbl1, MTbl.node?_delNode]
          have : p ≠ x := by intro e; subst e; omega
          simp [this, hn]
        · intro hW
          apply hWimp
          intro x n hn h0
          have hxp : x ≠ p := by
            intro e; subst e
            rw [htbl1, MTbl.node?_delNode] at hn; simp at hn
          have hn0 : m.tbl.node? x = some n := hsub1.nodes x n hn
          rw [hrefx x hxp] at h0
          cases hv : m.ref[x]? with
          | none => rw [hv] at h0; cases h0
          | some v =>
            rw [hv] at h0
            simp only [Option.map_some, Option.some.injEq] at h0
            by_cases hv0 : v = 0
            · subst hv0
              have := hW x n hn0 hv
              rw [List.mem_cons] at this
              rcases this with e | hin
              · exfalso
                rw [hup] at e
                exact hxp (by omega)
              · exact hkeep _ hin
            · have hpos : 0 < cntInto np.kids x := by omega
              obtain ⟨k, hk, habs⟩ := cntInto_pos_iff.mp hpos
              have hx2 : 2 ≤ x := hc.wf.ge_two _ _ hn0
              have := hadded k hk (by omega) (by
                rw [habs, hrefx x hxp, hv]
                simp only [Option.map_some, Option.some.injEq]
                omega)
              rw [habs] at this
              exact this

theorem mUnusedOf_spec : ∀ (rs : List Int) (m : MddMgr) (r : List Int) (m1 : MddMgr),
    mUnusedOf rs m = (.ok r, m1) →
    m1 = m ∧ ∀ y, y ∈ rs → m.ref[y.natAbs]? = some 0 → ((y.natAbs : Nat) : Int) ∈ r := by
  intro rs
  induction rs with
  | nil =>
    intro m r m1 hr
    simp only [mUnusedOf, Prod.mk.injEq, Except.ok.injEq] at hr
    exact ⟨hr.2.symm, fun y hy => by simp at hy⟩
  | cons u rest ih =>
    intro m r m1 hr
    unfold mUnusedOf at hr
    split at hr
    · simp at hr
    · next c hc =>
      split at hr
      · simp at hr
      · next r' m1' hrest =>
        obtain ⟨hm, hall⟩ := ih m r' m1' hrest
        subst hm
        split at hr
        · next hc0 =>
          simp only [Prod.mk.injEq, Except.ok.injEq] at hr
          obtain ⟨hr1, hm1⟩ := hr
          subst hr1 hm1
          refine ⟨rfl, ?_⟩
          intro y hy h0
          rcases List.mem_cons.mp hy with rfl | hy
          · split
            · next hin => simpa using hin
            · simp
          · have := hall y hy h0
            split
            · exact this
            · exact List.mem_cons_of_mem _ this
        · next hc0 =>
          simp only [Prod.mk.injEq, Except.ok.injEq] at hr
          obtain ⟨hr1, hm1⟩ := hr
          subst hr1 hm1
          refine ⟨rfl, ?_⟩
          intro y hy h0
          rcases List.mem_cons.mp hy with rfl | hy
          · rw [hc] at h0
            simp only [Option.some.injEq] at h0
            exact absurd h0 hc0
          · exact hall y hy h0

/-- what `collect_garbage` promises -/
structure GcOK (m : MddMgr) (ext : Nat → Nat) (full : Bool) (m' : MddMgr) : Prop where
  inv : MInv m'
  exact : MRefExact m' ext
  /-- nothing is created or changed: the remaining nodes are old nodes -/
  sub : MExt m'.tbl m.tbl
  /-- nodes the user holds survive -/
  held : ∀ x n, m.tbl.node? x = some n → 0 < ext x → m'.tbl.node? x = some n
  /-- after a full collection every remaining node is referenced -/
  live : full = true → ∀ x n, m'.tbl.node? x = some n → ∃ c, m'.ref[x]? = some c ∧ 0 < c
  /-- surviving references keep their meaning -/
  den : ∀ u, m'.tbl.Mem u → ∀ a, denM m'.tbl u a = denM m.tbl u a
  cache : m'.cache = {}

theorem mddGc_spec (m : MddMgr) (ext : Nat → Nat) (h : MInv m) (hx : MRefExact m ext)
    (roots : Option (List Int)) (m' : MddMgr) (hr : mCollectGarbage roots m = (.ok (), m')) :
    GcOK m ext roots.isNone m' := by
  unfold mCollectGarbage at hr
  dsimp only at hr
  split at hr
  · simp at hr
  · next unused m1 hun =>
    obtain ⟨hm1, hall⟩ := mUnusedOf_spec _ m unused m1 hun
    subst hm1
    split at hr
    · simp at hr
    · next m2 hloop =>
      simp only [Prod.mk.injEq, true_and] at hr
      subst hr
      obtain ⟨G, hWimp⟩ := mGcLoop_spec ext _ _ m1 m2 h.core hx hloop
      have hinv : MInv { m2 with cache := {} } := G.core.withEmptyCache
      refine ⟨hinv, ⟨fun u hu => G.exact.cnt u hu, G.exact.extZero⟩, G.sub, G.held, ?_, ?_, rfl⟩
      · intro hfull x n hn
        have hroots : roots = none := by cases roots <;> simp at hfull <;> rfl
        subst hroots
        have hne := hWimp (by
          intro x n hn h0
          have hx2 : 2 ≤ x := h.wf.ge_two _ _ hn
          have hin : ((x : Nat) : Int) ∈ unused := by
            have := hall ((x : Nat) : Int) (by
              rw [List.mem_map]
              refine ⟨x, ?_, rfl⟩
              rw [TreeMap.mem_keys, TreeMap.mem_iff_contains]
              exact h.refDom _ _ hn) (by simpa using h0)
            simpa using this
          have hne1 : ((x : Nat) : Int) ≠ 1 := by omega
          exact (List.mem_erase_of_ne hne1).mpr hin) x n hn
        have hdom := (natmap_contains_iff m2.ref x).mp (G.core.refDom x n hn)
        cases hv : m2.ref[x]? with
        | none => rw [hv] at hdom; cases hdom
        | some c =>
          refine ⟨c, (by first | exact hv | rfl), ?_⟩
          have : c ≠ 0 := fun e => hne (by rw [hv, e])
          omega
      · intro u hu a
        exact (denM_ext G.sub G.core.wf.toMWF u a hu).symm

end DD
