/-
  DDProofs.SchedNaturalMore — the bodies of `cube`, `add_expr`, `image`, `preimage` are natural in
  the recorded schedule inside a reordering context (`SNK`, DDProofs.SchedNaturalCtx): they call
  the decorated `var`, `apply`, `quantify`, `rename`, `ite` NESTED in the decorator's context,
  where those do not reorder.  With DDProofs.SchedAcceptDyn: every decorated operation of `UOp4`
  accepts every valid choice of iteration orders.
-/
import DDProofs.SchedAcceptOps
import DDProofs.Reach4Sched
open Std

namespace DD

/-! ### the combinators of `SNK` -/

theorem SNK.bind {α β} {x : M α} {f : α → M β} (hx : SNK x) (hf : ∀ a, SNK (f a)) : SNK (x >>= f) := by
  intro s m hc
  obtain ⟨h1, h2, h3⟩ := hx s m hc
  rw [M.bind_eq, M.bind_eq, h1]
  generalize x m = r at h2 h3
  obtain ⟨r, m1⟩ := r
  cases r with
  | error e => exact ⟨rfl, h2, fun h' => h3 (by cases h'; rfl)⟩
  | ok a => exact hf a s m1 h2

theorem SNK.pure {α} (a : α) : SNK (Pure.pure a : M α) :=
  fun _ _ hc => ⟨rfl, hc, fun h => by cases h⟩

theorem SNK.throw {α} (e : Err) (he : e ≠ .sched) : SNK (M.throw e : M α) :=
  fun _ _ hc => ⟨rfl, hc, fun h => he (by cases h; rfl)⟩

/-- a decorated call NESTED in a context is its body -/
theorem tryToReorder_snk {α} {f : M α} (hf : SNc f) (hn : NSc f) : SNK (tryToReorder f) := by
  intro s m hc
  rw [tryToReorder_nested f (setS s m) hc, tryToReorder_nested f m hc, hf s m hc]
  exact ⟨rfl, rfl, hn m hc⟩

theorem var_snk (name : String) : SNK (var name) := by
  rw [var_eq]
  exact tryToReorder_snk (varBody_sn name).toC (varBody_ns name).toC

theorem quantify_snk (u : Int) (qvars : List Key) (fa : Bool) : SNK (quantify u qvars fa) :=
  tryToReorder_snk (quantifyBody_snk u qvars fa).snc (quantifyBody_snk u qvars fa).nsc

theorem rename_snk (u : Int) (dvars : List (String × String)) : SNK (rename u dvars) :=
  tryToReorder_snk (renameBody_snk u dvars).snc (renameBody_snk u dvars).nsc

/-- `apply` nested in a context, ANY operator string, arity, operands -/
theorem apply_snk (op : String) (u : Int) (v w : Option Int) : SNK (apply op u v w) := by
  intro s m hc
  rw [apply_eq_end, apply_eq_end, applyEnd_setS]
  cases hE : applyEnd op u v w m with
  | err e => exact ⟨rfl, hc, ns_triv (applyEnd_err_ne hE)⟩
  | neg => exact ⟨rfl, hc, fun h => by cases h⟩
  | ite a b c => exact ite_snk a b c s m hc
  | quant b q fa => exact quantify_snk b q fa s m hc

/-! ### `cube` -/

theorem cubeStep_snk (x : String × Bool) (r : Int) : SNK (cubeStep x r) := by
  unfold cubeStep
  refine SNK.bind (var_snk x.1) (fun u => ?_)
  refine SNK.bind (apply_snk _ _ _ _) (fun r' => ?_)
  exact SNK.pure _

theorem cubeLoop_snk : ∀ (l : List (String × Bool)) (r : Int), SNK (forIn l r cubeStep)
  | [], r => SNK.pure r
  | x :: l, r => by
    rw [List.forIn_cons]
    refine SNK.bind (cubeStep_snk x r) (fun st => ?_)
    cases st with
    | done b => exact SNK.pure b
    | yield b => exact cubeLoop_snk l b

theorem cubeBody_snk (dvars : List (String × Bool)) : SNK (cubeBody dvars) := by
  unfold cubeBody
  exact SNK.bind (cubeLoop_snk dvars 1) (fun r => SNK.pure r)

/-! ### `add_expr` -/

theorem addInt_snk (i : Int) : SNK (addInt i) := by
  intro s m hc
  unfold addInt
  rw [M.bind_ok (M.get_eq _), M.bind_ok (M.get_eq _)]
  have hm' : (setS s m).mem i = m.mem i := rfl
  cases hm : m.mem i with
  | false =>
    simp only [hm', hm, Bool.not_false, if_true]
    exact ⟨rfl, hc, fun h => by cases h⟩
  | true =>
    simp only [hm', hm, Bool.not_true, Bool.false_eq_true, if_false]
    exact ⟨rfl, hc, fun h => by cases h⟩

theorem evalAst_snk : ∀ (t : Ast), SNK (evalAst t)
  | .var x => by unfold evalAst; exact var_snk x
  | .bool b => by unfold evalAst; exact SNK.pure _
  | .num neg d => by unfold evalAst; exact addInt_snk _
  | .not e => by
    unfold evalAst
    exact SNK.bind (evalAst_snk e) (fun u => apply_snk _ _ _ _)
  | .bin o l r => by
    unfold evalAst
    exact SNK.bind (evalAst_snk l) (fun u => SNK.bind (evalAst_snk r) (fun v => apply_snk _ _ _ _))
  | .ite a b c => by
    unfold evalAst
    exact SNK.bind (evalAst_snk a) (fun u => SNK.bind (evalAst_snk b) (fun v =>
      SNK.bind (evalAst_snk c) (fun w => apply_snk _ _ _ _)))
  | .quant fa ns e => by
    unfold evalAst
    exact SNK.bind (evalAst_snk e) (fun u => quantify_snk _ _ _)
  | .subst ss e => by
    unfold evalAst
    exact SNK.bind (evalAst_snk e) (fun u => rename_snk _ _)

theorem evalForest_snk : ∀ (ts : List Ast), SNK (evalForest ts)
  | [] => SNK.pure ()
  | t :: ts => by
    unfold evalForest
    exact SNK.bind (evalAst_snk t) (fun _ => evalForest_snk ts)

theorem PErr.toErr_ne_sched (e : PErr) : e.toErr ≠ .sched := by
  cases e <;> exact fun h => by cases h

theorem addExprToks_snk (toks : List Tok) : SNK (addExprToks toks) := by
  unfold addExprToks
  cases parseE toks with
  | ok t => exact evalAst_snk t
  | error fe =>
    obtain ⟨forest, e⟩ := fe
    exact SNK.bind (evalForest_snk forest) (fun _ => SNK.throw _ (PErr.toErr_ne_sched e))

/-! ### `image` / `preimage` -/

theorem findOrAddNonInt_snk : SNK findOrAddNonInt := by
  intro s m hc
  unfold findOrAddNonInt
  simp only [setS_ctx, hc, if_true]
  have h1 := requestReordering_sn s m
  have h2 := requestReordering_ctx m
  have h3 := requestReordering_ns m
  rw [h1]
  generalize requestReordering m = r at h2 h3
  obtain ⟨r, m1⟩ := r
  cases r with
  | error e => exact ⟨rfl, h2.trans hc, fun h' => h3 (by cases h'; rfl)⟩
  | ok _ => exact ⟨rfl, h2.trans hc, fun h => by cases h⟩

theorem topCofactorI_ne {t : Tbl} {u : Int} {i : Int} {e : Err} (h : topCofactorI t u i = .error e) :
    e ≠ .sched := by
  unfold topCofactorI at h
  split at h
  · repeat' split at h
    all_goals first
      | (cases h; done)
      | (cases h; exact fun h => by cases h)
  · exact topCofactor_ne h

theorem imageF_snk (umap vmap : Option (List (Int × Int))) (ubad vbad : List Int) (qvars : List Nat)
    (fa : Bool) : ∀ (f : Nat) (u v : Int) (cache : HashMap (Int × Int) Int),
      SNK (imageF umap vmap ubad vbad qvars fa f u v cache)
  | 0, _, _, _ => fun _ _ hc => by snk_leaf hc
  | f+1, u, v, cache => by
    intro s m hc
    have ih := imageF_snk umap vmap ubad vbad qvars fa f
    unfold imageF
    simp only [setS_tbl]
    split
    · snk_leaf hc
    split
    · snk_leaf hc
    split
    · snk_leaf hc
    split
    · snk_leaf hc
    rename_i iu _
    split
    · snk_leaf hc
    rename_i jv _
    split
    · snk_leaf hc
    split
    · exact ⟨rfl, hc, ns_triv (topCofactorI_ne (by assumption))⟩
    rename_i u0 u1 _
    split
    · exact ⟨rfl, hc, ns_triv (topCofactorI_ne (by assumption))⟩
    rename_i v0 v1 _
    snk_next ih u0 v0 cache s m hc, imageF umap vmap ubad vbad qvars fa f u0 v0 cache m => ⟨p, c1⟩ m1 hc1
    snk_next ih u1 v1 c1 s m1 hc1, imageF umap vmap ubad vbad qvars fa f u1 v1 c1 m1 => ⟨q, c2⟩ m2 hc2
    by_cases hz : 0 ≤ min (iu : Int) (mapLvl vmap jv) ∧
        qvars.contains (min (iu : Int) (mapLvl vmap jv)).toNat = true
    · simp only [if_pos hz]
      cases fa with
      | true =>
        simp only [↓reduceIte]
        snk_next ite_snk p q (-1) s m2 hc2, ite p q (-1) m2 => r m3 hc3
        snk_leaf hc3
      | false =>
        simp only [↓reduceIte, Bool.false_eq_true]
        snk_next ite_snk p 1 q s m2 hc2, ite p 1 q m2 => r m3 hc3
        snk_leaf hc3
    · simp only [if_neg hz]
      by_cases hb : ubad.contains (min (iu : Int) (mapLvl vmap jv)) = true
      · simp only [if_pos hb]
        snk_next findOrAddNonInt_snk s m2 hc2, findOrAddNonInt m2 => g m3 hc3
        snk_next ite_snk g q p s m3 hc3, ite g q p m3 => r m4 hc4
        snk_leaf hc4
      · simp only [if_neg hb]
        snk_next findOrAdd_snk _ (-1) 1 s m2 hc2, findOrAdd _ (-1) 1 m2 => g m3 hc3
        snk_next ite_snk g q p s m3 hc3, ite g q p m3 => r m4 hc4
        snk_leaf hc4

theorem varAtLevel_snk (i : Int) : SNK (varAtLevel i) :=
  SNK.of (varAtLevel_sn i) (fun m => by
    unfold varAtLevel
    rw [M.bind_ok (M.get_eq m)]
    split
    · exact fun h => by cases h
    · cases m.tbl.l2v[i.toNat]? <;> exact fun h => by cases h)
    (fun m => by rw [ks_varAtLevel_read i m])

theorem adjacentWarn_snk : ∀ (rn : List (Key × Key)), SNK (adjacentWarn rn)
  | [] => fun _ _ hc => ⟨rfl, hc, fun h => by cases h⟩
  | (k, v) :: rest => by
    intro s m hc
    unfold adjacentWarn
    split
    · rename_i a b
      split
      · exact adjacentWarn_snk rest s m hc
      · snk_next varAtLevel_snk a s m hc, varAtLevel a m => _ m1 hc1
        snk_next varAtLevel_snk b s m1 hc1, varAtLevel b m1 => _ m2 hc2
        snk_leaf hc2
    · snk_leaf hc

theorem supportLevels_ne {t : Tbl} {u : Int} {e : Err} (h : supportLevels t u = .error e) : e ≠ .sched := by
  unfold supportLevels at h
  split at h
  · next e' heq => cases h; exact fun hs => supportF_noS _ _ _ _ (by rw [heq, hs])
  · cases h

theorem imageBody_snk (t s' : Int) (rn : List (Key × Key)) (q : List Key) (fa : Bool) :
    SNK (imageBody t s' rn q fa) := by
  intro s m hc
  unfold imageBody
  dsimp only [setS_tbl, setS_nvars]
  split
  · exact ⟨rfl, hc, ns_triv (mapToLevelE_ne (by assumption))⟩
  rename_i lv _
  split
  · snk_leaf hc
  snk_next adjacentWarn_snk (resolveRename m.tbl rn) s m hc, adjacentWarn (resolveRename m.tbl rn) m => _ m1 hc1
  split
  · exact ⟨rfl, hc1, ns_triv (supportLevels_ne (by assumption))⟩
  rename_i s1 _
  split
  · exact ⟨rfl, hc1, ns_triv (supportLevels_ne (by assumption))⟩
  rename_i s2 _
  split
  · snk_leaf hc1
  snk_next imageF_snk _ _ _ _ lv fa (2 * m.nvars + 4) t s' {} s m1 hc1,
    imageF _ _ _ _ lv fa (2 * m.nvars + 4) t s' _ m1 => ⟨r, c⟩ m2 hc2
  snk_leaf hc2

theorem assertValidRename_snk (rn : List (Key × Key)) : SNK (assertValidRename rn) := by
  intro s m hc
  unfold assertValidRename
  split
  · snk_leaf hc
  snk_next varAtLevel_snk 0 s m hc, varAtLevel 0 m => _ m1 hc1
  split
  · snk_leaf hc1
  · snk_leaf hc1

theorem copyBddK_snk (levelMap : List (Nat × Key)) :
    ∀ (fu : Nat) (u : Int) (cache : HashMap Nat Int), SNK (copyBddK levelMap fu u cache)
  | 0, _, _ => fun _ _ hc => by snk_leaf hc
  | fu+1, u, cache => by
    intro s m hc
    have ih := copyBddK_snk levelMap fu
    unfold copyBddK
    simp only [setS_tbl]
    split
    · snk_leaf hc
    split
    · split
      · snk_leaf hc
      · snk_leaf hc
    split
    · snk_leaf hc
    rename_i n _
    split
    · snk_leaf hc
    snk_next ih n.lo cache s m hc, copyBddK levelMap fu n.lo cache m => ⟨p, c1⟩ m1 hc1
    snk_next ih n.hi c1 s m1 hc1, copyBddK levelMap fu n.hi c1 m1 => ⟨q, c2⟩ m2 hc2
    split
    · snk_leaf hc2
    split
    · snk_leaf hc2
    split
    · snk_leaf hc2
    rename_i jnew _
    cases jnew with
    | lvl i =>
      simp only
      snk_next findOrAdd_snk i (-1) 1 s m2 hc2, findOrAdd i (-1) 1 m2 => g m3 hc3
      snk_next ite_snk g q p s m3 hc3, ite g q p m3 => r m4 hc4
      split
      · snk_leaf hc4
      · snk_leaf hc4
    | name nm =>
      simp only
      snk_next findOrAddNonInt_snk s m2 hc2, findOrAddNonInt m2 => g m3 hc3
      snk_next ite_snk g q p s m3 hc3, ite g q p m3 => r m4 hc4
      split
      · snk_leaf hc4
      · snk_leaf hc4

theorem preimageFallback_snk (t tg : Int) (rn : List (Key × Key)) (q : List Nat) (fa : Bool) :
    SNK (preimageFallback t tg rn q fa) := by
  intro s m hc
  unfold preimageFallback
  simp only [setS_nvars]
  snk_next copyBddK_snk _ (m.nvars + 2) tg {} s m hc, copyBddK _ (m.nvars + 2) tg _ m => ⟨r, c⟩ m2 hc2
  snk_next ite_snk t r (-1) s m2 hc2, ite t r (-1) m2 => r2 m3 hc3
  exact quantify_snk r2 _ fa s m3 hc3

theorem preimageFused_ne {t : Tbl} {rn : List (Key × Key)} {tg : Int} {e : Err}
    (h : preimageFused t rn tg = .error e) : e ≠ .sched := by
  unfold preimageFused at h
  split at h
  · cases h
  split at h
  · cases h
  split at h
  · cases h; exact supportLevels_ne (by assumption)
  · cases h

theorem preimageBody_snk (t tg : Int) (rn : List (Key × Key)) (q : List Key) (fa : Bool) :
    SNK (preimageBody t tg rn q fa) := by
  intro s m hc
  unfold preimageBody
  simp only [setS_tbl, setS_nvars]
  split
  · exact ⟨rfl, hc, ns_triv (mapToLevelE_ne (by assumption))⟩
  rename_i lv _
  snk_next assertValidRename_snk (resolveRename m.tbl rn) s m hc,
    assertValidRename (resolveRename m.tbl rn) m => _ m1 hc1
  simp only [setS_tbl]
  split
  · exact ⟨rfl, hc1, ns_triv (preimageFused_ne (by assumption))⟩
  rename_i fused _
  cases fused with
  | true =>
    simp only [↓reduceIte]
    obtain ⟨h1, h2, h3⟩ := imageF_snk none (some (intPairs (resolveRename m.tbl rn))) []
      (badKeys (resolveRename m.tbl rn)) lv fa (2 * m.nvars + 4) t tg {} s m1 hc1
    rw [h1]
    generalize imageF none (some (intPairs (resolveRename m.tbl rn))) []
      (badKeys (resolveRename m.tbl rn)) lv fa (2 * m.nvars + 4) t tg {} m1 = r at h2 h3
    obtain ⟨r, m2⟩ := r
    rcases r with e | ⟨r, c⟩
    · refine ⟨rfl, h2, ?_⟩
      simp only
      split
      · exact fun h => by cases h
      · exact fun h' => h3 (by cases h'; rfl)
    · exact ⟨rfl, h2, fun h => by cases h⟩
  | false =>
    simp only [Bool.false_eq_true, ↓reduceIte]
    exact preimageFallback_snk t tg _ lv fa s m1 hc1

/-! ### acceptance -/

/-- `bdd.cube(dvars)` accepts every valid choice -/
theorem cube_accepts (ext : Nat → Nat) (c : Choice) (hc : c.Valid) (m : Mgr) (hD : DynInvS ext m)
    (dvars : List (String × Bool)) : AcceptsC c (cubeBody dvars) m :=
  tryToReorder_accepts ext c hc _ (cubeBody_snk dvars).snc (cubeBody_snk dvars).nsc
    (fun m0 hI hc0 _ => cubeBody_totE m0 hI hc0 dvars) m hD

/-- `bdd.add_expr(text)`, ANY text, accepts every valid choice -/
theorem addExpr_accepts (ext : Nat → Nat) (c : Choice) (hc : c.Valid) (m : Mgr) (hD : DynInvS ext m)
    (s : String) : AcceptsC c (addExprToks (tokenize s)) m :=
  tryToReorder_accepts ext c hc _ (addExprToks_snk _).snc (addExprToks_snk _).nsc
    (fun m0 hI hc0 _ => addExprToks_totE (tokenize s) m0 hI hc0) m hD

theorem qvarsByName_ne {t : Tbl} {q : List Key} {e : Err} (h : qvarsByName t q = .error e) : e ≠ .sched := by
  unfold qvarsByName at h
  split at h
  · cases h; exact mapToLevelE_ne (by assumption)
  · refine mapME_ne (fun j e' h' => ?_) _ _ h
    split at h'
    · cases h'
    · cases h'; exact fun h => by cases h

/-- `image(trans, source, rename, qvars, bdd, forall)`, ANY arguments, accepts every valid choice -/
theorem image_accepts (ext : Nat → Nat) (c : Choice) (hc : c.Valid) (m : Mgr) (hD : DynInvS ext m)
    (t s : Int) (rn : List (Key × Key)) (q : List Key) (fa : Bool) :
    AcceptsF (imageC c t s rn q fa []) (image t s rn q fa) m := by
  cases hq : qvarsByName m.tbl q with
  | error e =>
    refine AcceptsF.error e (qvarsByName_ne hq) ?_ (fun s' => ?_)
    · unfold imageC; simp only [hq]
    · unfold image; dsimp only [setS_tbl]; simp only [hq]
  | ok qn =>
    have hA : AcceptsC c (imageBody t s (renameByName m.tbl rn) qn fa) m :=
      tryToReorder_accepts ext c hc _ (imageBody_snk t s _ qn fa).snc (imageBody_snk t s _ qn fa).nsc
        (fun m0 hI hc0 _ => imageBody_totE_r4 t s (renameByName m.tbl rn) qn fa m0 hI hc0) m hD
    refine AcceptsF.congr hA ?_ (fun s' => ?_)
    · unfold imageC; simp only [hq]
    · unfold image; dsimp only [setS_tbl]; simp only [hq]

/-- `preimage(...)`, ANY arguments, accepts every valid choice -/
theorem preimage_accepts (ext : Nat → Nat) (c : Choice) (hc : c.Valid) (m : Mgr) (hD : DynInvS ext m)
    (t s : Int) (rn : List (Key × Key)) (q : List Key) (fa : Bool) :
    AcceptsF (preimageC c t s rn q fa []) (preimage t s rn q fa) m := by
  cases hq : qvarsByName m.tbl q with
  | error e =>
    refine AcceptsF.error e (qvarsByName_ne hq) ?_ (fun s' => ?_)
    · unfold preimageC; simp only [hq]
    · unfold preimage; dsimp only [setS_tbl]; simp only [hq]
  | ok qn =>
    have hA : AcceptsC c (preimageBody t s (renameByName m.tbl rn) qn fa) m :=
      tryToReorder_accepts ext c hc _ (preimageBody_snk t s _ qn fa).snc (preimageBody_snk t s _ qn fa).nsc
        (fun m0 hI hc0 _ => preimageBody_totE_r4 t s (renameByName m.tbl rn) qn fa m0 hI hc0) m hD
    refine AcceptsF.congr hA ?_ (fun s' => ?_)
    · unfold preimageC; simp only [hq]
    · unfold preimage; dsimp only [setS_tbl]; simp only [hq]

/-! ### the guards of DDProofs.Reach4Sched, from a choice -/

/-- one decorated call of `UOp4` under the choice `c`: the operations `UOp4` adds -/
def runOp4C (c : Choice) : UOp4 → Mgr → Except Err (Res × List SchedItem) × Mgr
  | .op (.op (.base b)), m => runOpC c b m
  | .cube d, m => mapResC .ref (tryToReorderC c (cubeBody d) [] m)
  | .addExpr s, m => mapResC .ref (tryToReorderC c (addExprToks (tokenize s)) [] m)
  | .image t s rn q fa, m => mapResC .ref (imageC c t s rn q fa [] m)
  | .preimage t s rn q fa, m => mapResC .ref (preimageC c t s rn q fa [] m)
  | .copyFrom src u, m => mapResC .ref (tryToReorderC c (copyBddBody src u) [] m)
  | o, m => ((runOp4 o m).1.map (fun r => (r, [])), (runOp4 o m).2)

/-- **`CallGuard4S` from a choice**: in a good state with two variables, for `cube`, `add_expr`,
`image`, `preimage`, `copy_bdd` with ANY arguments, a non-empty schedule recorded by the
choice-driven call under a valid choice passes the guard of a call with a recorded schedule -/
theorem callGuard4S_new_of_choice (m : Mgr) (ext : Nat → Nat) (h : Good3 m ext) (h2 : 2 ≤ m.nvars)
    (c : Choice) (hc : c.Valid) (o : UOp4) (hdec : o.decoratedNew = true) (s : SchedItem)
    (sch : List SchedItem) (hl : logOf (runOp4C c o m).1 = some (s :: sch)) :
    CallGuard4S m ext ⟨s :: sch, o⟩ := by
  have hD := (h.dynInv h2).toS
  cases o with
  | cube d =>
    refine ⟨rfl, h2, ?_⟩
    show isSchedErr (mapRes Res.ref (cube d { m with sched := s :: sch })).1 = false
    rw [mapRes_isSchedErr, cube_eq]
    exact (cube_accepts ext c hc m hD d).not_sched (by rw [← logOf_mapResC]; exact hl)
  | addExpr e =>
    refine ⟨rfl, h2, ?_⟩
    show isSchedErr (mapRes Res.ref (addExpr e { m with sched := s :: sch })).1 = false
    rw [mapRes_isSchedErr]
    exact (addExpr_accepts ext c hc m hD e).not_sched (by rw [← logOf_mapResC]; exact hl)
  | image t s' rn q fa =>
    refine ⟨rfl, h2, ?_⟩
    show isSchedErr (mapRes Res.ref (image t s' rn q fa { m with sched := s :: sch })).1 = false
    rw [mapRes_isSchedErr]
    exact (image_accepts ext c hc m hD t s' rn q fa).not_sched (by rw [← logOf_mapResC]; exact hl)
  | preimage t s' rn q fa =>
    refine ⟨rfl, h2, ?_⟩
    show isSchedErr (mapRes Res.ref (preimage t s' rn q fa { m with sched := s :: sch })).1 = false
    rw [mapRes_isSchedErr]
    exact (preimage_accepts ext c hc m hD t s' rn q fa).not_sched (by rw [← logOf_mapResC]; exact hl)
  | copyFrom src u =>
    exact copyFrom_guard_of_choice m ext h h2 c hc src u s sch (by rw [← logOf_mapResC]; exact hl)
  | op _ => cases hdec
  | gcRooted _ => cases hdec
  | reorderToPairs _ _ => cases hdec
  | loadPickle _ _ => cases hdec

end DD
