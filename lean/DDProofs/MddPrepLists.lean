/-
  DDProofs.MddPrepLists — list facts behind the first part of `bdd_to_mdd`: the target bit order
  (`b2mOrder`), the dictionary `bit_to_sort` (`b2mOrderDict`), and the zones of the concatenation.
-/
import DDProofs.MddBddSide
open Std

namespace DD

/-! ### association lists with distinct keys -/

theorem lookup_of_mem_nodup {κ β} [BEq κ] [LawfulBEq κ] :
    ∀ (l : List (κ × β)), (l.map (·.1)).Nodup → ∀ k v, (k, v) ∈ l → l.lookup k = some v := by
  intro l
  induction l with
  | nil => intro _ k v h; cases h
  | cons p rest ih =>
    intro hnd k v hm
    rw [List.map_cons, List.nodup_cons] at hnd
    rw [List.lookup_cons]
    rcases List.mem_cons.mp hm with h | h
    · subst h; simp
    · have hne : (k == p.1) = false := by
        have : k ≠ p.1 := by
          intro e; apply hnd.1; rw [← e]
          exact List.mem_map.mpr ⟨(k, v), h, rfl⟩
        simpa using this
      rw [hne]
      exact ih hnd.2 k v h

theorem lastLookup_of_mem_nodup {κ β} [BEq κ] [LawfulBEq κ] (l : List (κ × β))
    (hnd : (l.map (·.1)).Nodup) (k : κ) (v : β) (hm : (k, v) ∈ l) : lastLookup k l = some v := by
  unfold lastLookup
  apply lookup_of_mem_nodup
  · rw [List.map_reverse]; exact (List.reverse_perm _).nodup_iff.mpr hnd
  · exact List.mem_reverse.mpr hm

theorem lookup_mem' {κ β} [BEq κ] [LawfulBEq κ] :
    ∀ (l : List (κ × β)) k v, l.lookup k = some v → (k, v) ∈ l := by
  intro l
  induction l with
  | nil => intro k v h; simp at h
  | cons p rest ih =>
    intro k v h
    rw [List.lookup_cons] at h
    by_cases hk : k = p.1
    · subst hk
      simp at h
      subst h
      simp
    · have : (k == p.1) = false := by simpa using hk
      rw [this] at h
      exact List.mem_cons_of_mem _ (ih k v h)

theorem lastLookup_mem {κ β} [BEq κ] [LawfulBEq κ] (l : List (κ × β)) (k : κ) (v : β)
    (h : lastLookup k l = some v) : (k, v) ∈ l := by
  unfold lastLookup at h
  exact List.mem_reverse.mp (lookup_mem' _ k v h)

/-! ### `dedup` -/

theorem mem_dedup_gen {α} [BEq α] [LawfulBEq α] (a : α) : ∀ l : List α, a ∈ dedup l ↔ a ∈ l := by
  intro l
  induction l with
  | nil => simp [dedup]
  | cons b l ih =>
    simp only [dedup]
    split
    · next hc =>
      have hb : b ∈ dedup l := by simpa using hc
      constructor
      · intro h; exact List.mem_cons_of_mem _ (ih.mp h)
      · intro h
        rcases List.mem_cons.mp h with h | h
        · subst h; exact hb
        · exact ih.mpr h
    · simp only [List.mem_cons, ih]

theorem dedup_of_nodup {α} [BEq α] [LawfulBEq α] : ∀ l : List α, l.Nodup → dedup l = l := by
  intro l
  induction l with
  | nil => intro _; rfl
  | cons b l ih =>
    intro h
    rw [List.nodup_cons] at h
    simp only [dedup]
    rw [ih h.2]
    simp [h.1]

/-! ### the bits of the integer variables -/

theorem btv_keys (dvars : List MVar) : (b2mBitToVar dvars).map (·.1) = dvars.flatMap (·.bits) := by
  unfold b2mBitToVar
  induction dvars with
  | nil => rfl
  | cons d rest ih =>
    simp only [List.flatMap_cons, List.map_append, ih, List.map_map]
    congr 1
    simp [Function.comp_def]

theorem mem_btv {dvars : List MVar} {d : MVar} {b : String} (hd : d ∈ dvars) (hb : b ∈ d.bits) :
    (b, d) ∈ b2mBitToVar dvars := by
  unfold b2mBitToVar
  rw [List.mem_flatMap]
  exact ⟨d, hd, List.mem_map.mpr ⟨b, hb, rfl⟩⟩

theorem btv_mem {dvars : List MVar} {d : MVar} {b : String} (h : (b, d) ∈ b2mBitToVar dvars) :
    d ∈ dvars ∧ b ∈ d.bits := by
  unfold b2mBitToVar at h
  rw [List.mem_flatMap] at h
  obtain ⟨d', hd', hm⟩ := h
  rw [List.mem_map] at hm
  obtain ⟨b', hb', he⟩ := hm
  simp only [Prod.mk.injEq] at he
  obtain ⟨rfl, rfl⟩ := he
  exact ⟨hd', hb'⟩

/-- every listed bit is owned by the variable that lists it, when no bit is listed twice -/
theorem btv_uniq {dvars : List MVar} (hnd : (dvars.flatMap (·.bits)).Nodup) {d : MVar} (hd : d ∈ dvars)
    {b : String} (hb : b ∈ d.bits) : lastLookup b (b2mBitToVar dvars) = some d :=
  lastLookup_of_mem_nodup _ (by rw [btv_keys]; exact hnd) b d (mem_btv hd hb)

theorem bits_nodup_of_flatMap : ∀ {dvars : List MVar}, (dvars.flatMap (·.bits)).Nodup →
    ∀ d ∈ dvars, d.bits.Nodup := by
  intro dvars
  induction dvars with
  | nil => intro _ d hd; cases hd
  | cons d0 rest ih =>
    intro h d hd
    rw [List.flatMap_cons, List.nodup_append] at h
    rcases List.mem_cons.mp hd with rfl | hd
    · exact h.1
    · exact ih h.2.1 d hd

/-! ### blocks of a concatenation -/

/-- index of the block of `L.flatten` that contains position `ℓ` -/
def blockOf : List (List String) → Nat → Nat
  | [], _ => 0
  | b :: bs, ℓ => if ℓ < b.length then 0 else 1 + blockOf bs (ℓ - b.length)

theorem blockOf_mono : ∀ (L : List (List String)) (a b : Nat), a ≤ b → blockOf L a ≤ blockOf L b := by
  intro L
  induction L with
  | nil => intro a b _; exact Nat.le_refl _
  | cons x xs ih =>
    intro a b hab
    unfold blockOf
    by_cases ha : a < x.length
    · simp [ha]
    · have hb : ¬ b < x.length := by omega
      simp only [ha, hb, if_false]
      have := ih (a - x.length) (b - x.length) (by omega)
      omega

theorem blockOf_spec : ∀ (L : List (List String)) (ℓ : Nat) (h : ℓ < L.flatten.length),
    ∃ (hj : blockOf L ℓ < L.length), L.flatten[ℓ] ∈ L[blockOf L ℓ] := by
  intro L
  induction L with
  | nil => intro ℓ h; simp at h
  | cons x xs ih =>
    intro ℓ h
    unfold blockOf
    by_cases hl : ℓ < x.length
    · simp only [hl, if_true]
      refine ⟨by simp, ?_⟩
      simp only [List.flatten_cons, List.getElem_cons_zero]
      rw [List.getElem_append_left hl]
      exact List.getElem_mem hl
    · simp only [hl, if_false]
      have h' : ℓ - x.length < xs.flatten.length := by
        simp only [List.flatten_cons, List.length_append] at h; omega
      obtain ⟨hj, hm⟩ := ih (ℓ - x.length) h'
      refine ⟨by simp; omega, ?_⟩
      have e1 : (x :: xs).flatten[ℓ] = xs.flatten[ℓ - x.length] := by
        simp only [List.flatten_cons]
        rw [List.getElem_append_right (by omega)]
      rw [e1]
      have hb : 1 + blockOf xs (ℓ - x.length) < (x :: xs).length := by simp; omega
      have e2 : (x :: xs)[1 + blockOf xs (ℓ - x.length)]'hb = xs[blockOf xs (ℓ - x.length)] := by
        simp [Nat.add_comm 1]
      rw [e2]
      exact hm

/-! ### the target bit order -/

theorem foldlM_order (levels : List (Nat × MVar)) : ∀ (js : List Nat) (init order : List String),
    js.foldlM (fun (order : List String) j =>
      match lastLookup j levels with
      | none => Except.error Err.key
      | some var => Except.ok (order ++ var.bits)) init = .ok order →
    ∃ ds : List MVar, js.map (fun j => lastLookup j levels) = ds.map some ∧
      order = init ++ ds.flatMap (·.bits) := by
  intro js
  induction js with
  | nil =>
    intro init order h
    simp only [List.foldlM_nil] at h
    cases h
    exact ⟨[], rfl, by simp⟩
  | cons j js ih =>
    intro init order h
    rw [List.foldlM_cons] at h
    cases hl : lastLookup j levels with
    | none => rw [hl] at h; cases h
    | some var =>
      rw [hl] at h
      obtain ⟨ds, h1, h2⟩ := ih (init ++ var.bits) order h
      refine ⟨var :: ds, ?_, ?_⟩
      · simp [hl, h1]
      · rw [h2]; simp [List.append_assoc]

/-- `dvars` describe integer variables at the levels `0..n-1` whose bit lists partition the
declared BDD variables -/
structure DvarsOK (t : Tbl) (dvars : List MVar) : Prop where
  levels : (dvars.map (·.level)).Perm (List.range dvars.length)
  bits : (dvars.flatMap (·.bits)).Perm t.vars.keys

theorem DvarsOK.levels_nodup {t : Tbl} {dvars : List MVar} (h : DvarsOK t dvars) :
    (dvars.map (·.level)).Nodup := h.levels.nodup_iff.mpr List.nodup_range

theorem DvarsOK.level_lt {t : Tbl} {dvars : List MVar} (h : DvarsOK t dvars) {d : MVar} (hd : d ∈ dvars) :
    d.level < dvars.length := by
  have : d.level ∈ List.range dvars.length := h.levels.mem_iff.mp (List.mem_map.mpr ⟨d, hd, rfl⟩)
  simpa using this

theorem inj_of_nodup_map {α β} (f : α → β) : ∀ (l : List α), (l.map f).Nodup →
    ∀ a ∈ l, ∀ b ∈ l, f a = f b → a = b := by
  intro l
  induction l with
  | nil => intro _ a ha; cases ha
  | cons x xs ih =>
    intro h a ha b hb hab
    rw [List.map_cons, List.nodup_cons] at h
    rcases List.mem_cons.mp ha with ha | ha <;> rcases List.mem_cons.mp hb with hb | hb
    · exact ha.trans hb.symm
    · exfalso; apply h.1; rw [← ha, hab]; exact List.mem_map.mpr ⟨b, hb, rfl⟩
    · exfalso; apply h.1; rw [← hb, ← hab]; exact List.mem_map.mpr ⟨a, ha, rfl⟩
    · exact ih h.2 a ha b hb hab

theorem nodup_of_map_nodup {α β} (f : α → β) : ∀ (l : List α), (l.map f).Nodup → l.Nodup := by
  intro l
  induction l with
  | nil => intro _; exact List.nodup_nil
  | cons x xs ih =>
    intro h
    rw [List.map_cons, List.nodup_cons] at h
    rw [List.nodup_cons]
    exact ⟨fun hx => h.1 (List.mem_map.mpr ⟨x, hx, rfl⟩), ih h.2⟩

theorem DvarsOK.level_inj {t : Tbl} {dvars : List MVar} (h : DvarsOK t dvars) :
    ∀ d ∈ dvars, ∀ d' ∈ dvars, d.level = d'.level → d = d' :=
  inj_of_nodup_map (·.level) dvars h.levels_nodup

theorem DvarsOK.bits_nodup {t : Tbl} {dvars : List MVar} (h : DvarsOK t dvars) :
    (dvars.flatMap (·.bits)).Nodup := h.bits.nodup_iff.mpr TreeMap.nodup_keys

/-- what `b2mOrder` returns: the bit lists of the integer variables sorted by level -/
structure OrderIs (dvars : List MVar) (order : List String) (sorted : List MVar) : Prop where
  len : sorted.length = dvars.length
  at_ : ∀ j (hj : j < sorted.length), sorted[j] ∈ dvars ∧ sorted[j].level = j
  eq : order = sorted.flatMap (·.bits)
  perm : sorted.Perm dvars

theorem b2mOrder_spec {t : Tbl} {dvars : List MVar} (h : DvarsOK t dvars) (order : List String)
    (ho : b2mOrder dvars = .ok order) : ∃ sorted, OrderIs dvars order sorted := by
  unfold b2mOrder at ho
  simp only at ho
  have hml : (dedup (dvars.map (·.level))).length = dvars.length := by
    rw [dedup_of_nodup _ h.levels_nodup, List.length_map]
  rw [hml] at ho
  obtain ⟨ds, h1, h2⟩ := foldlM_order _ _ _ _ ho
  have hlen : ds.length = dvars.length := by
    have := congrArg List.length h1
    simpa using this.symm
  have hat : ∀ j (hj : j < ds.length), ds[j] ∈ dvars ∧ ds[j].level = j := by
    intro j hj
    have hj' : j < dvars.length := by omega
    have e : ((List.range dvars.length).map fun j => lastLookup j (dvars.map fun d => (d.level, d)))[j]? =
        (ds.map some)[j]? := by rw [h1]
    rw [List.getElem?_map, List.getElem?_map, List.getElem?_range hj', List.getElem?_eq_getElem hj] at e
    simp only [Option.map_some, Option.some.injEq] at e
    have hm := lastLookup_mem _ _ _ e
    rw [List.mem_map] at hm
    obtain ⟨d, hd, he⟩ := hm
    simp only [Prod.mk.injEq] at he
    obtain ⟨e1, e2⟩ := he
    subst e2
    exact ⟨hd, e1⟩
  refine ⟨ds, hlen, hat, by simpa using h2, ?_⟩
  -- a permutation: no duplicates on both sides and the same elements
  have hnd_ds : ds.Nodup := by
    apply nodup_of_map_nodup (·.level)
    have : ds.map (·.level) = List.range ds.length := by
      apply List.ext_getElem
      · simp
      · intro k h1 h2
        simp only [List.getElem_map, List.getElem_range]
        exact (hat k (by simpa using h1)).2
    rw [this]; exact List.nodup_range
  have hnd_dv : dvars.Nodup := nodup_of_map_nodup (·.level) dvars h.levels_nodup
  rw [List.perm_ext_iff_of_nodup hnd_ds hnd_dv]
  intro d
  constructor
  · intro hd
    obtain ⟨j, hj, hdj⟩ := List.getElem_of_mem hd
    rw [← hdj]; exact (hat j hj).1
  · intro hd
    have hl := h.level_lt hd
    have hj : d.level < ds.length := by omega
    have := hat d.level hj
    have : ds[d.level] = d := h.level_inj _ this.1 d hd this.2
    rw [← this]; exact List.getElem_mem hj

/-! ### the dictionary `bit_to_sort` -/

theorem bitToSort_lookup (order : List String) (hnd : order.Nodup) (k : Nat) (hk : k < order.length) :
    lastLookup order[k] (b2mBitToSort order) = some k := by
  unfold b2mBitToSort
  apply lastLookup_of_mem_nodup
  · rw [List.map_fst_zip (by simp)]; exact hnd
  · have hk2 : k < (order.zip (List.range order.length)).length := by simp; exact hk
    have : (order.zip (List.range order.length))[k] = (order[k], k) := by
      simp [List.getElem_zip]
    rw [← this]
    exact List.getElem_mem hk2

theorem orderDict_eq (order : List String) (hnd : order.Nodup) :
    b2mOrderDict order =
      order.map fun b => (b, (((lastLookup b (b2mBitToSort order)).getD 0 : Nat) : Int)) := by
  unfold b2mOrderDict
  rw [dedup_of_nodup _ ((List.reverse_perm order).nodup_iff.mpr hnd), List.reverse_reverse]

theorem orderDict_keys (order : List String) (hnd : order.Nodup) :
    (b2mOrderDict order).map (·.1) = order := by
  rw [orderDict_eq order hnd, List.map_map]
  simp [Function.comp_def]

theorem orderDict_lookup (order : List String) (hnd : order.Nodup) (k : Nat) (hk : k < order.length) :
    (b2mOrderDict order).lookup order[k] = some ((k : Nat) : Int) := by
  apply lookup_of_mem_nodup
  · rw [orderDict_keys order hnd]; exact hnd
  · rw [orderDict_eq order hnd, List.mem_map]
    exact ⟨order[k], List.getElem_mem hk, by rw [bitToSort_lookup order hnd k hk]; rfl⟩

theorem orderDict_lookup_some (order : List String) (hnd : order.Nodup) (v : String) (p : Int)
    (h : (b2mOrderDict order).lookup v = some p) :
    ∃ k, ∃ (hk : k < order.length), order[k] = v ∧ p = ((k : Nat) : Int) := by
  have hm := lookup_mem' _ v p h
  have hv : v ∈ order := by
    rw [← orderDict_keys order hnd]
    exact List.mem_map.mpr ⟨(v, p), hm, rfl⟩
  obtain ⟨k, hk, hkv⟩ := List.getElem_of_mem hv
  refine ⟨k, hk, hkv, ?_⟩
  have := orderDict_lookup order hnd k hk
  rw [hkv, h] at this
  exact Option.some.inj this

theorem orderDict_length (order : List String) (hnd : order.Nodup) :
    (b2mOrderDict order).length = order.length := by
  rw [orderDict_eq order hnd, List.length_map]

end DD
