/-
  DDProofs.VarsProofs — `add_var` / `declare`: the name↔level maps stay inverse bijections
  onto 0..n-1, existing nodes and their functions are untouched, the invariant is kept.
-/
import DD.Ops
import DDProofs.Total
open Std

namespace DD

/-- `vars` and `_level_to_var` describe one bijection between the names and the levels 0..n-1 -/
structure OrderOK (t : Tbl) : Prop where
  inv : ∀ (v : String) (i : Nat), t.vars[v]? = some i ↔ t.l2v[i]? = some v
  lt : ∀ (v : String) (i : Nat), t.vars[v]? = some i → i < t.nvars
  total : ∀ (i : Nat), i < t.nvars → ∃ v : String, t.l2v[i]? = some v

theorem OrderOK.l2v_none {t : Tbl} (h : OrderOK t) : t.l2v[t.nvars]? = none := by
  cases hh : t.l2v[t.nvars]? with
  | none => rfl
  | some v =>
    have := h.lt v t.nvars ((h.inv v t.nvars).mpr hh)
    omega

/-- the four views of the order agree: `level_of_var` and `var_at_level` are inverse,
every level below `n` has a name, every name a level below `n` -/
theorem OrderOK.views {t : Tbl} (h : OrderOK t) :
    (∀ (v : String) (i : Nat), t.vars[v]? = some i → t.l2v[i]? = some v ∧ i < t.nvars) ∧
    (∀ (i : Nat) (v : String), t.l2v[i]? = some v → t.vars[v]? = some i ∧ i < t.nvars) ∧
    (∀ (i : Nat), i < t.nvars → ∃ v : String, t.l2v[i]? = some v ∧ t.vars[v]? = some i) := by
  refine ⟨fun v i hv => ⟨(h.inv v i).mp hv, h.lt v i hv⟩, fun i v hl => ?_, fun i hi => ?_⟩
  · have := (h.inv v i).mpr hl
    exact ⟨this, h.lt v i this⟩
  · obtain ⟨v, hv⟩ := h.total i hi
    exact ⟨v, hv, (h.inv v i).mpr hv⟩

/-- denotation by fuel reads only the node table -/
theorem denF_succ_eq {t t' : Tbl} (hs : t'.succ = t.succ) :
    ∀ f u a, denF t' f u a = denF t f u a := by
  intro f
  induction f with
  | zero => intros; rfl
  | succ f ih =>
    intro u a
    rw [denF, denF]
    have : t'.node? u.natAbs = t.node? u.natAbs := by simp [Tbl.node?, hs]
    rw [this]
    split
    · rfl
    · split
      · rfl
      · rw [ih, ih]

/-- the state after declaring a new variable at the next bottom level -/
def addVarState (m : Mgr) (var : String) : Mgr :=
  { m with tbl := { m.tbl with
      vars := m.tbl.vars.insert var m.nvars
      l2v := m.tbl.l2v.insert m.nvars var } }

theorem addVarState_nvars (m : Mgr) (var : String) (hnew : m.tbl.vars[var]? = none) :
    (addVarState m var).tbl.nvars = m.tbl.nvars + 1 := by
  show (m.tbl.vars.insert var m.nvars).size = m.tbl.vars.size + 1
  rw [TreeMap.size_insert]
  have : ¬ var ∈ m.tbl.vars := by
    intro hc
    rw [TreeMap.mem_iff_isSome_getElem?, hnew] at hc
    cases hc
  simp [this]

/-- `add_var(var)` for a new name: next bottom level, maps extended -/
theorem addVar_new (m : Mgr) (var : String) (hnew : m.tbl.vars[var]? = none)
    (hfree : m.tbl.l2v[m.nvars]? = none) :
    addVar var none m = (.ok m.nvars, addVarState m var) := by
  unfold addVar
  simp only [bind, M.bind', M.get, hnew, Option.getD_none]
  have h0 : ¬ ((m.nvars : Int) < 0) := by omega
  simp only [h0, if_false, pure, M.pure', Int.toNat_natCast, hfree, M.set]
  rfl

/-- `add_var(var)` / `add_var(var, its level)` for an existing name: nothing happens -/
theorem addVar_existing (m : Mgr) (var : String) (i : Nat) (hex : m.tbl.vars[var]? = some i) :
    addVar var none m = (.ok i, m) ∧ addVar var (some (i : Int)) m = (.ok i, m) := by
  unfold addVar
  simp [bind, M.bind', M.get, hex, pure, M.pure']

/-- `add_var(var, level)` with a level other than the variable's own is refused, nothing changes -/
theorem addVar_conflict (m : Mgr) (var : String) (i : Nat) (l : Int) (hex : m.tbl.vars[var]? = some i)
    (hne : l ≠ i) : addVar var (some l) m = (.error .value, m) := by
  unfold addVar
  simp [bind, M.bind', M.get, hex, hne, M.throw]

/-- `add_var(new, level)` with a level already used by another variable is refused -/
theorem addVar_level_in_use (m : Mgr) (var : String) (l : Nat) (other : String)
    (hnew : m.tbl.vars[var]? = none) (hused : m.tbl.l2v[l]? = some other) :
    addVar var (some (l : Int)) m = (.error .value, m) := by
  unfold addVar
  have h0 : ¬ ((l : Int) < 0) := by omega
  simp [bind, M.bind', M.get, hnew, h0, hused, M.throw, pure, M.pure']

theorem levelOf_addVar (m : Mgr) (var : String) (hnew : m.tbl.vars[var]? = none) (u : Int) :
    m.tbl.levelOf u ≤ (addVarState m var).tbl.levelOf u ∧
    (u.natAbs ≠ 1 → m.tbl.Mem u → (addVarState m var).tbl.levelOf u = m.tbl.levelOf u) := by
  have hn := addVarState_nvars m var hnew
  unfold Tbl.levelOf
  have hnode : ∀ k, (addVarState m var).tbl.node? k = m.tbl.node? k := fun _ => rfl
  by_cases h1 : u.natAbs = 1
  · simp only [h1, if_true]
    exact ⟨by omega, fun h => absurd rfl h⟩
  · simp only [h1, if_false, hnode]
    cases hh : m.tbl.node? u.natAbs with
    | none =>
      simp only
      refine ⟨by omega, fun _ hm => ?_⟩
      rcases hm with hm | hm
      · exact absurd hm h1
      · rw [hh] at hm; cases hm
    | some n => simp

/-- declaring a new variable keeps the invariant, every node, every function, and the order
of the existing variables; the new variable gets the next bottom level -/
theorem addVar_new_spec (m : Mgr) (hI : Inv m) (hO : OrderOK m.tbl) (var : String)
    (hnew : m.tbl.vars[var]? = none) (m' : Mgr) (hm' : m' = addVarState m var) :
    Inv m' ∧ OrderOK m'.tbl ∧ m'.tbl.nvars = m.tbl.nvars + 1 ∧
    m'.tbl.vars[var]? = some m.nvars ∧
    (∀ (v : String) (i : Nat), m.tbl.vars[v]? = some i → m'.tbl.vars[v]? = some i) ∧
    (∀ u, m.tbl.Mem u → m'.tbl.Mem u ∧ ∀ a, den m'.tbl u a = den m.tbl u a) ∧
    m'.tbl.succ = m.tbl.succ ∧ m'.ref = m.ref := by
  subst hm'
  have hn : (addVarState m var).tbl.nvars = m.tbl.nvars + 1 := addVarState_nvars m var hnew
  have hW := hI.wf.toWF
  have hnode : ∀ k, (addVarState m var).tbl.node? k = m.tbl.node? k := fun _ => rfl
  have hmem : ∀ u, (addVarState m var).tbl.Mem u ↔ m.tbl.Mem u := fun u => by simp [Tbl.Mem, hnode]
  have hden : ∀ u, m.tbl.Mem u → ∀ a, den (addVarState m var).tbl u a = den m.tbl u a := by
    intro u hu a
    unfold den
    rw [hn, denF_succ_eq (t := m.tbl) (t' := (addVarState m var).tbl) rfl]
    exact (denF_stable m.tbl hW (m.tbl.nvars + 1) u a hu (by omega)).symm
  have hlv := levelOf_addVar m var hnew
  have hwf : WFU (addVarState m var).tbl := by
    refine ⟨⟨?_, ?_, ?_, ?_, ?_, ?_, ?_, ?_⟩, ?_⟩
    · intro k n hk; rw [hnode] at hk; have := hW.lvl_lt _ _ hk; omega
    · intro k n hk; rw [hnode] at hk; exact (hmem _).mpr (hW.lo_mem _ _ hk)
    · intro k n hk; rw [hnode] at hk; exact (hmem _).mpr (hW.hi_mem _ _ hk)
    · intro k n hk; rw [hnode] at hk; have := hW.lo_lt _ _ hk; have := (hlv n.lo).1; omega
    · intro k n hk; rw [hnode] at hk; have := hW.hi_lt _ _ hk; have := (hlv n.hi).1; omega
    · intro k n hk; rw [hnode] at hk; exact hW.ge_two _ _ hk
    · intro k n hk; rw [hnode] at hk; exact hW.hi_pos _ _ hk
    · intro k n hk; rw [hnode] at hk; exact hW.lo_ne_hi _ _ hk
    · intro k k' n hk hk'; rw [hnode] at hk hk'; exact hI.wf.unique _ _ _ hk hk'
  refine ⟨⟨hwf, hI.pred, hI.freeGe, hI.free, hI.refOne, hI.refDom, ?_⟩, ?_, hn, ?_, ?_,
    fun u hu => ⟨(hmem u).mpr hu, hden u hu⟩, rfl, rfl⟩
  · -- computed table
    intro g u v w hc
    have he := hI.cache g u v w hc
    refine ⟨he.gnt, (hmem _).mpr he.mg, (hmem _).mpr he.mu, (hmem _).mpr he.mv, (hmem _).mpr he.mw, ?_, ?_⟩
    · have hg := (hlv g).2 he.gnt he.mg
      have h1 := (hlv u).1
      have h2 := (hlv v).1
      have h3 := (hlv w).1
      have hgl : m.tbl.levelOf g < m.tbl.nvars := by
        rcases he.mg with h | h
        · exact absurd h he.gnt
        · obtain ⟨n, hnn⟩ := Option.isSome_iff_exists.mp h
          have : m.tbl.levelOf g = n.lvl := by simp [Tbl.levelOf, he.gnt, hnn]
          rw [this]; exact hW.lvl_lt _ _ hnn
      have hl := he.lvl
      have hu' : (addVarState m var).tbl.levelOf u = m.tbl.levelOf u ∨ m.tbl.levelOf u = m.tbl.nvars := by
        by_cases c : u.natAbs = 1
        · right; simp [Tbl.levelOf, c]
        · left; exact (hlv u).2 c he.mu
      have hv' : (addVarState m var).tbl.levelOf v = m.tbl.levelOf v ∨ m.tbl.levelOf v = m.tbl.nvars := by
        by_cases c : v.natAbs = 1
        · right; simp [Tbl.levelOf, c]
        · left; exact (hlv v).2 c he.mv
      omega
    · intro a
      rw [hden w he.mw, hden g he.mg, hden u he.mu, hden v he.mv]; exact he.den a
  · -- order
    refine ⟨?_, ?_, ?_⟩
    · intro v i
      show (m.tbl.vars.insert var m.nvars)[v]? = some i ↔ (m.tbl.l2v.insert m.nvars var)[i]? = some v
      rw [TreeMap.getElem?_insert, TreeMap.getElem?_insert]
      by_cases hv : var = v
      · subst hv
        simp only [compare_self, if_true]
        constructor
        · intro h; cases h; simp
        · intro h
          split at h
          · next he => rw [(Nat.compare_eq_eq).mp he]
          · have := (hO.inv var i).mpr h
            rw [hnew] at this; cases this
      · have hc : compare var v ≠ .eq := fun he => hv (LawfulEqOrd.eq_of_compare he)
        simp only [hc, if_false]
        rw [hO.inv]
        constructor
        · intro h
          split
          · next he =>
            have := (Nat.compare_eq_eq).mp he
            subst this
            have hnone : m.tbl.l2v[m.nvars]? = none := hO.l2v_none
            rw [hnone] at h; cases h
          · exact h
        · intro h
          split at h
          · cases h; exact absurd rfl hv
          · exact h
    · intro v i hv
      have hv' : (m.tbl.vars.insert var m.nvars)[v]? = some i := hv
      rw [TreeMap.getElem?_insert] at hv'
      rw [hn]
      split at hv'
      · cases hv'; show m.tbl.vars.size < m.tbl.nvars + 1; exact Nat.lt_succ_self _
      · have := hO.lt v i hv'; omega
    · intro i hi
      rw [hn] at hi
      show ∃ v, (m.tbl.l2v.insert m.nvars var)[i]? = some v
      rw [TreeMap.getElem?_insert]
      by_cases he : i = m.tbl.nvars
      · subst he; exact ⟨var, by simp [Mgr.nvars]⟩
      · have hc : compare m.nvars i ≠ .eq := by
          intro h; exact he ((Nat.compare_eq_eq).mp h).symm
        simp only [hc, if_false]
        exact hO.total i (by omega)
  · show (m.tbl.vars.insert var m.nvars)[var]? = some m.nvars
    simp
  · intro v i hv
    show (m.tbl.vars.insert var m.nvars)[v]? = some i
    rw [TreeMap.getElem?_insert]
    by_cases hvv : var = v
    · subst hvv; rw [hnew] at hv; cases hv
    · have hc : compare var v ≠ .eq := fun he => hvv (LawfulEqOrd.eq_of_compare he)
      simp [hc, hv]

theorem OrderOK.empty : OrderOK ({} : Tbl) := by
  refine ⟨?_, ?_, ?_⟩ <;> simp [Tbl.nvars]

end DD
